//go:build verif

package zebra

// C19 / ZAPI harness. Correspondence: Header.serialize / decodeFromBytes for versions 2..6 (and
// unsupported ones) and the length handling of ReceiveSingleMsg (fed from an in-memory net.Conn)
// against Framing.Zapi.*. Oracles (model-independent): the messages the daemon constructs
// (route add/delete, nexthop register, VRF label, hello, redistribute, label-manager requests; every
// version and software flavour) serialise to bytes whose header decodes to the same header and
// whose Len equals the number of octets; where the receive side has a decoder for the same body,
// the bytes parse back and re-serialise identically; no decoder entry point (every body decoder x
// version x flavour, parseMessage for every command) panics or hangs on arbitrary input;
// ReceiveSingleMsg never consumes more than Len octets. Message BODIES are outside the Lean model.

import (
	"bytes"
	"encoding/binary"
	"encoding/hex"
	"fmt"
	"io"
	"log/slog"
	"net"
	"net/netip"
	"os"
	"strings"
	"sync/atomic"
	"syscall"
	"testing"
	"time"
)

func c19Hex(b []byte) string {
	if len(b) == 0 {
		return "-"
	}
	return hex.EncodeToString(b)
}

// watchdog: a decoder call that does not return within 20 s is reported and the run aborted.
type c19Dog struct {
	o    *vOut
	cur  atomic.Value // string
	tick atomic.Int64
}

func c19Watch(o *vOut) *c19Dog {
	d := &c19Dog{o: o}
	d.cur.Store("")
	go func() {
		last, since := int64(-1), time.Now()
		for {
			time.Sleep(500 * time.Millisecond)
			n := d.tick.Load()
			if n != last {
				last, since = n, time.Now()
				continue
			}
			if c := d.cur.Load().(string); c != "" && time.Since(since) > 20*time.Second {
				o.fail("hang", c)
				o.close()
				os.Exit(3)
			}
		}
	}()
	return d
}

// run executes f; a panic is an outcome ("panic"), a hang is caught by the watchdog.
func (d *c19Dog) run(what string, in []byte, f func() string) (s string) {
	d.cur.Store(what + " " + c19Hex(in))
	d.tick.Add(1)
	defer func() {
		if e := recover(); e != nil {
			s = "panic"
		}
		d.cur.Store("")
		d.tick.Add(1)
	}()
	return f()
}


// in-memory connection: ReceiveSingleMsg only reads
type c19Conn struct {
	rd   *bytes.Reader
	read int
}

func (c *c19Conn) Read(p []byte) (int, error) {
	n, err := c.rd.Read(p)
	c.read += n
	return n, err
}
func (c *c19Conn) Write(p []byte) (int, error)        { return len(p), nil }
func (c *c19Conn) Close() error                       { return nil }
func (c *c19Conn) LocalAddr() net.Addr                { return &net.UnixAddr{} }
func (c *c19Conn) RemoteAddr() net.Addr               { return &net.UnixAddr{} }
func (c *c19Conn) SetDeadline(t time.Time) error      { return nil }
func (c *c19Conn) SetReadDeadline(t time.Time) error  { return nil }
func (c *c19Conn) SetWriteDeadline(t time.Time) error { return nil }

func c19ZErr(err error) string {
	s := err.Error()
	switch {
	case strings.Contains(s, "not all ZAPI message header"):
		return "err short"
	case strings.Contains(s, "unsupported ZAPI version"):
		return "err version"
	case strings.Contains(s, "invalid ZAPI message length"):
		return "err badlen"
	}
	return "err other:" + s
}


// ---- IPRouteBody as a VALUE: every message flag the version / flavour knows, source prefix,
// nexthop groups, labels, weights, backup nexthops, SR-TE colour, opaque data. ZAPI 5 and 6 use
// the same zapi_route layout in both directions, so decode(serialize(v)) must give v back.

// the awkward address classes every address-valued field is also generated with: unspecified,
// all-ones, loopback, link-local and (IPv6) IPv4-mapped addresses
func c19Awkward(r *vRand, six bool) netip.Addr {
	if !six {
		return netip.AddrFrom4([][4]byte{{0, 0, 0, 0}, {255, 255, 255, 255}, {127, 0, 0, 1}, {169, 254, byte(r.next()), byte(r.next())}, {224, 0, 0, 5}}[r.intn(5)])
	}
	a := [16]byte{}
	switch r.intn(6) {
	case 0: // ::
	case 1: // ::ffff:a.b.c.d (IPv4-mapped)
		a[10], a[11] = 0xff, 0xff
		binary.BigEndian.PutUint32(a[12:], r.u32()|1<<24)
	case 2: // ::ffff:0.0.0.0
		a[10], a[11] = 0xff, 0xff
	case 3: // link-local
		a[0], a[1] = 0xfe, 0x80
		binary.BigEndian.PutUint64(a[8:], r.next())
	case 4:
		for i := range a {
			a[i] = 0xff
		}
	case 5:
		a[15] = 1
	}
	return netip.AddrFrom16(a)
}

func c19Addr(r *vRand, v6 bool, plen uint8) netip.Addr {
	// octets behind the prefix length are zero (they are not on the wire); bits inside the last
	// octet are arbitrary, and no octet before it is zero, so that a stale scratch buffer shows
	n := 4
	if v6 {
		n = 16
	}
	b := make([]byte, n)
	if r.chance(25) { // an awkward address, cut to the prefix length
		copy(b, c19Awkward(r, v6).AsSlice())
		for i := (int(plen) + 7) / 8; i < n; i++ {
			b[i] = 0
		}
		a, _ := netip.AddrFromSlice(b)
		return a
	}
	for i := 0; i < (int(plen)+7)/8; i++ {
		b[i] = byte(1 + r.intn(255))
	}
	a, _ := netip.AddrFromSlice(b)
	return a
}

func c19Nexthop(r *vRand, v uint8, sw Software, v6 bool, msg MessageFlag, backup bool) Nexthop {
	frr := func(min float64) bool { return v == 6 && sw.name == "frr" && sw.version >= min }
	n := Nexthop{VrfID: uint32(r.pick(0, 1, 7, int(r.u32())))}
	gate := func(six bool) netip.Addr {
		if r.chance(25) {
			if a := c19Awkward(r, six); !a.IsUnspecified() { // an unspecified gate prints as "no gate"
				return a
			}
		}
		if six {
			var a [16]byte
			binary.BigEndian.PutUint64(a[:], r.next()|1<<61)
			binary.BigEndian.PutUint64(a[8:], r.next())
			return netip.AddrFrom16(a)
		}
		var a [4]byte
		binary.BigEndian.PutUint32(a[:], r.u32()|1<<24)
		return netip.AddrFrom4(a)
	}
	switch r.intn(8) {
	case 0:
		n.Type, n.Ifindex = nexthopTypeIFIndex, r.u32()
	case 1:
		n.Type, n.blackholeType = nexthopTypeBlackhole, uint8(r.intn(4))
	case 2, 3:
		if v6 {
			n.Type, n.Gate, n.Ifindex = nexthopTypeIPv6IFIndex, gate(true), r.u32()
		} else {
			n.Type, n.Gate, n.Ifindex = nexthopTypeIPv4IFIndex, gate(false), r.u32()
		}
	default:
		if v6 {
			n.Type, n.Gate = nexthopTypeIPv6, gate(true)
		} else {
			n.Type, n.Gate = nexthopTypeIPv4, gate(false)
		}
		if frr(7.3) { // these flavours carry an ifindex with every IP nexthop
			n.Ifindex = r.u32()
		}
	}
	labelled := false
	if frr(7.3) {
		labelled = r.chance(40)
	} else {
		labelled = msg&MessageLabel > 0
	}
	if labelled {
		n.LabelNum = uint8(r.intn(4))
		if frr(7.3) && n.LabelNum == 0 {
			n.LabelNum = 1
		}
		for i := 0; i < int(n.LabelNum); i++ {
			n.MplsLabels = append(n.MplsLabels, uint32(16+r.intn(1<<20-16)))
		}
	}
	if frr(7.3) && r.chance(40) {
		n.Weight = uint32(1 + r.intn(255))
	}
	if frr(7.5) && !backup && r.chance(30) {
		n.backupNum = uint8(1 + r.intn(3))
		for i := 0; i < int(n.backupNum); i++ {
			n.backupIndex = append(n.backupIndex, uint8(r.intn(4)))
		}
	}
	if frr(7.5) && msg&messageSRTE > 0 {
		n.srteColor = r.u32()
	}
	return n
}

func c19RouteValue(r *vRand, v uint8, sw Software) *IPRouteBody {
	frr := func(min float64) bool { return v == 6 && sw.name == "frr" && sw.version >= min }
	v6 := r.chance(50)
	width := 32
	if v6 {
		width = 128
	}
	plen := uint8(r.pick(0, 1, 7, 8, 9, 23, 24, 31, 32, width, width, 96, 97, r.intn(width+1), r.intn(width+1)))
	if int(plen) > width {
		plen = uint8(width)
	}
	b := &IPRouteBody{Type: RouteType(r.pick(int(RouteBGP), int(RouteStatic), int(routeConnect), int(routeKernel))), instance: uint16(r.pick(0, 0, 1, 65535)),
		Safi: Safi(r.pick(int(SafiUnicast), int(SafiUnicast), int(safiMulticast))), Prefix: Prefix{PrefixLen: plen, Prefix: c19Addr(r, v6, plen)}}
	b.Prefix.Family = familyFromPrefix(b.Prefix.Prefix)
	if r.chance(30) {
		b.Flags = FlagIBGP.ToEach(v, sw) | FlagAllowRecursion
	}
	var msg MessageFlag
	set := func(pct int, f MessageFlag) bool {
		if r.chance(pct) {
			msg |= f.ToEach(v, sw)
			return true
		}
		return false
	}
	set(85, MessageNexthop)
	if set(50, MessageDistance) {
		b.Distance = uint8(r.next())
	}
	if set(50, MessageMetric) {
		b.Metric = r.u32()
	}
	if set(40, messageTag) {
		b.tag = r.u32()
	}
	if set(40, MessageMTU) {
		b.Mtu = r.u32()
	}
	if set(45, messageSRCPFX) {
		// shorter than, equal to and longer than the destination prefix, not only multiples of 8
		sl := uint8(r.pick(0, 1, 8, 9, 16, 17, 32, int(plen), int(plen)/2, r.intn(width+1)))
		if int(sl) > width {
			sl = uint8(width)
		}
		b.srcPrefix = Prefix{PrefixLen: sl, Prefix: c19Addr(r, v6, sl)}
	}
	if !frr(7.3) {
		set(35, MessageLabel)
	}
	if set(40, messageTableID) {
		b.tableID = r.u32()
	}
	if frr(7.5) {
		set(30, messageSRTE)
	}
	if frr(8) {
		if set(30, messageNhg) {
			b.nhgid = r.u32()
		}
		if set(25, messageOpaque) {
			b.opaque.length = uint16(r.pick(0, 1, 16, 1024, r.intn(1025)))
			for i := 0; i < int(b.opaque.length); i++ {
				b.opaque.data[i] = byte(r.next())
			}
		}
	}
	b.Message = msg
	if msg&MessageNexthop > 0 {
		for k := r.pick(0, 1, 1, 2, 3); k > 0; k-- {
			b.Nexthops = append(b.Nexthops, c19Nexthop(r, v, sw, v6, msg, false))
		}
	}
	if frr(7.4) && r.chance(30) {
		b.Message |= messageBackupNexthops
		for k := r.pick(0, 1, 2); k > 0; k-- {
			b.backupNexthops = append(b.backupNexthops, c19Nexthop(r, v, sw, v6, b.Message, true))
		}
	}
	return b
}

func c19NexthopStr(n Nexthop, v uint8, sw Software) string {
	t := n.Type
	if v == 6 && sw.name == "frr" && sw.version >= 7.3 {
		t = t.ipToIPIFIndex() // how these flavours treat an IP nexthop
	}
	gate := "-"
	if n.Gate.IsValid() && !n.Gate.IsUnspecified() {
		gate = n.Gate.String()
	}
	return fmt.Sprintf("{type %d vrf %d gate %s if %d bh %d labels %v weight %d backup %v srte %d rmac %x}", t, n.VrfID, gate, n.Ifindex, n.blackholeType,
		append([]uint32{}, n.MplsLabels...), n.Weight, append([]uint8{}, n.backupIndex...), n.srteColor, n.rmac)
}

// every field that is on the wire, as text
func c19RouteStr(b *IPRouteBody, v uint8, sw Software) string {
	var sb strings.Builder
	fmt.Fprintf(&sb, "type %d instance %d flags %#x message %#x safi %d prefix %s/%d", b.Type, b.instance, uint64(b.Flags), uint32(b.Message), b.Safi, b.Prefix.Prefix, b.Prefix.PrefixLen)
	if b.Message&messageSRCPFX.ToEach(v, sw) > 0 {
		fmt.Fprintf(&sb, " src %s/%d", b.srcPrefix.Prefix, b.srcPrefix.PrefixLen)
	}
	fmt.Fprintf(&sb, " nhg %d nexthops [", b.nhgid)
	for _, n := range b.Nexthops {
		sb.WriteString(c19NexthopStr(n, v, sw))
	}
	sb.WriteString("] backup [")
	for _, n := range b.backupNexthops {
		sb.WriteString(c19NexthopStr(n, v, sw))
	}
	fmt.Fprintf(&sb, "] distance %d metric %d tag %d mtu %d table %d opaque %x", b.Distance, b.Metric, b.tag, b.Mtu, b.tableID, b.opaque.data[:b.opaque.length])
	return sb.String()
}

func c19RouteRoundTrip(o *vOut, dog *c19Dog, r *vRand, v uint8, fl string) {
	sw := NewSoftware(v, fl)
	val := c19RouteValue(r, v, sw)
	cmd := RouteAdd
	if r.chance(20) {
		cmd = RedistributeRouteAdd
	}
	val.API = cmd.ToEach(v, sw)
	want := c19RouteStr(val, v, sw)
	var b0 []byte
	res := dog.run("IPRouteBody value round trip", nil, func() string {
		var err error
		b0, err = val.serialize(v, sw)
		if err != nil {
			return "serr:" + err.Error()
		}
		got := &IPRouteBody{API: val.API}
		if err := got.decodeFromBytes(b0, v, sw); err != nil {
			return "perr:" + err.Error()
		}
		if g := c19RouteStr(got, v, sw); g != want {
			return "fields:" + g
		}
		b1, err := got.serialize(v, sw)
		if err != nil {
			return "serr2:" + err.Error()
		}
		if !bytes.Equal(b0, b1) {
			return "differs:" + c19Hex(b1)
		}
		return "ok"
	})
	// which rarely used parts this value exercises
	for _, f := range []struct {
		n string
		f MessageFlag
	}{{"srcpfx", messageSRCPFX}, {"tag", messageTag}, {"mtu", MessageMTU}, {"tableid", messageTableID}, {"distance", MessageDistance}} {
		if val.Message&f.f.ToEach(v, sw) > 0 {
			o.stat("route_value_"+f.n, 1)
		}
	}
	if val.Message&messageSRCPFX.ToEach(v, sw) > 0 && val.srcPrefix.PrefixLen/8 < val.Prefix.PrefixLen/8 {
		o.stat("route_value_srcpfx_shorter_than_dst", 1)
	}
	if len(val.backupNexthops) > 0 {
		o.stat("route_value_backup_nexthops", 1)
	}
	o.stat(fmt.Sprintf("route_value_v%d_%s", v, strings.SplitN(res, ":", 2)[0]), 1)
	if res != "ok" {
		if res == "panic" {
			res = "panic:"
		}
		o.fail(fmt.Sprintf("zapi-body-roundtrip:route:v%d:%s", v, strings.SplitN(res, ":", 2)[0]),
			map[string]any{"flavour": fl, "value": want, "bytes": c19Hex(b0), "outcome": res[:min(len(res), 900)]})
	}
}

// NexthopRegisterBody as a value (ZAPI 3..6, every flavour): serialize -> decode gives it back
func c19RegisterRoundTrip(o *vOut, dog *c19Dog, r *vRand, v uint8, fl string) {
	sw := NewSoftware(v, fl)
	val := &NexthopRegisterBody{api: nexthopRegister.ToEach(v, sw)}
	str := func(b *NexthopRegisterBody) string {
		var sb strings.Builder
		for _, n := range b.Nexthops {
			fmt.Fprintf(&sb, "{connected %d family %d prefix %s}", n.connected, n.Family, n.Prefix)
		}
		return sb.String()
	}
	for k := 1 + r.intn(3); k > 0; k-- {
		n := &RegisteredNexthop{connected: uint8(r.intn(2)), Family: syscall.AF_INET}
		var a4 [4]byte
		binary.BigEndian.PutUint32(a4[:], r.u32()|1<<24)
		n.Prefix = netip.AddrFrom4(a4)
		if r.chance(50) {
			var a [16]byte
			binary.BigEndian.PutUint64(a[:], r.next()|1<<61)
			binary.BigEndian.PutUint64(a[8:], r.next())
			n.Family, n.Prefix = syscall.AF_INET6, netip.AddrFrom16(a)
		}
		if r.chance(30) {
			n.Prefix = c19Awkward(r, n.Family == syscall.AF_INET6)
		}
		val.Nexthops = append(val.Nexthops, n)
	}
	want := str(val)
	var b0 []byte
	res := dog.run("NexthopRegisterBody value round trip", nil, func() string {
		var err error
		b0, err = val.serialize(v, sw)
		if err != nil {
			return "serr:" + err.Error()
		}
		got := &NexthopRegisterBody{api: val.api}
		if err := got.decodeFromBytes(b0, v, sw); err != nil {
			return "perr:" + err.Error()
		}
		if g := str(got); g != want {
			return "fields:" + g
		}
		b1, err := got.serialize(v, sw)
		if err != nil || !bytes.Equal(b0, b1) {
			return "differs:" + c19Hex(b1)
		}
		return "ok"
	})
	o.stat(fmt.Sprintf("register_value_v%d_%s", v, strings.SplitN(res, ":", 2)[0]), 1)
	if res != "ok" {
		if res == "panic" {
			res = "panic:"
		}
		o.fail(fmt.Sprintf("zapi-body-roundtrip:nexthop_register:v%d:%s", v, strings.SplitN(res, ":", 2)[0]),
			map[string]any{"flavour": fl, "value": want, "bytes": c19Hex(b0), "outcome": res[:min(len(res), 600)]})
	}
}

// bodies gobgp only RECEIVES (nexthop update, nexthop / import lookup reply, interface address,
// router id): wire octets built by hand around an address of every class; the decoded address
// must be those very octets (in particular: as wide as its address family says)
func c19DecodeOnlyBodies(o *vOut, dog *c19Dog, r *vRand) {
	v := uint8(2 + r.intn(5))
	sw := NewSoftware(v, "")
	six := r.chance(60)
	var addr netip.Addr
	if r.chance(60) {
		addr = c19Awkward(r, six)
	} else {
		addr = c19Addr(r, six, map[bool]uint8{false: 32, true: 128}[six])
	}
	ab := addr.AsSlice()
	fam := uint8(syscall.AF_INET)
	if six {
		fam = syscall.AF_INET6
	}
	be32 := func(x uint32) []byte { b := make([]byte, 4); binary.BigEndian.PutUint32(b, x); return b }
	check := func(kind string, wire []byte, decode func() ([]byte, error)) {
		var got []byte
		var err error
		if dog.run(kind, wire, func() string { got, err = decode(); return "" }) == "panic" {
			o.fail("zapi-body-panic:"+kind, map[string]any{"version": v, "bytes": c19Hex(wire)})
			return
		}
		if err != nil {
			o.stat("recvbody_"+kind+"_rejected", 1)
			return
		}
		o.stat("recvbody_"+kind+"_ok", 1)
		if !bytes.Equal(got, ab) {
			o.fail(fmt.Sprintf("zapi-body-roundtrip:%s:v%d:fields", kind, v), map[string]any{"bytes": c19Hex(wire), "address_on_wire": c19Hex(ab), "address_decoded": c19Hex(got), "family": fam})
		}
	}
	// NEXTHOP_UPDATE
	{
		var w []byte
		if v == 6 { // frr7.5 and newer: message flags first
			w = append(w, 0, 0, 0, 0)
		}
		w = append(w, 0, fam, byte(len(ab)*8))
		w = append(w, ab...)
		if v > 4 {
			w = append(w, byte(routeConnect), 0, 0)
		}
		if v > 3 {
			w = append(w, 0)
		}
		w = append(w, be32(r.u32())...)
		w = append(w, 0) // no nexthops
		check("nexthop_update", w, func() ([]byte, error) {
			b := &NexthopUpdateBody{API: nexthopUpdate.ToEach(v, sw)}
			err := b.decodeFromBytes(w, v, sw)
			return b.Prefix.Prefix.AsSlice(), err
		})
	}
	// IPv6 / IPv4 nexthop lookup reply (ZAPI 2 and 3)
	if v < 4 {
		api := zapi3IPv4NexthopLookup
		if six {
			api = zapi3IPv6NexthopLookup
		}
		w := append(append([]byte(nil), ab...), be32(r.u32())...)
		w = append(w, 0)
		check("lookup", w, func() ([]byte, error) {
			b := &lookupBody{api: api}
			err := b.decodeFromBytes(w, v, sw)
			return b.addr.AsSlice(), err
		})
	}
	// INTERFACE_ADDRESS_ADD
	{
		w := append(be32(r.u32()), byte(r.intn(4)), fam)
		w = append(w, ab...)
		w = append(w, byte(r.intn(len(ab)*8+1)))
		w = append(w, ab...)
		check("interface_address", w, func() ([]byte, error) {
			b := &interfaceAddressUpdateBody{}
			err := b.decodeFromBytes(w, v, sw)
			if err == nil && !bytes.Equal(b.destination, ab) {
				return b.destination, nil
			}
			return b.prefix, err
		})
	}
	// ROUTER_ID_UPDATE
	{
		w := append([]byte{fam}, ab...)
		w = append(w, byte(len(ab)*8))
		check("router_id", w, func() ([]byte, error) {
			b := &routerIDUpdateBody{}
			err := b.decodeFromBytes(w, v, sw)
			return b.prefix, err
		})
	}
}

var c19Flavours = map[uint8][]string{
	2: {"", "quagga"}, 3: {"", "quagga"}, 4: {"", "frr4", "frr3"},
	5: {"", "frr5", "frr4", "cumulus"},
	6: {"", "frr6", "frr7", "frr7.1", "frr7.2", "frr7.3", "frr7.4", "frr7.5", "frr8", "frr8.1", "frr8.2"},
}

func TestVerifC19(t *testing.T) {
	o := vOpen(t)
	defer o.close()
	r := &vRand{s: o.seed*7919 + 195}
	dog := c19Watch(o)
	logger := slog.New(slog.NewTextHandler(io.Discard, nil))
	n := 6000
	if o.thorough {
		n = 30000
	}
	rnd := func(max int) []byte {
		b := make([]byte, r.intn(max+1))
		for i := range b {
			b[i] = byte(r.next())
		}
		return b
	}
	v4 := func() netip.Addr {
		if r.chance(20) {
			return c19Awkward(r, false)
		}
		var a [4]byte
		binary.BigEndian.PutUint32(a[:], r.u32())
		return netip.AddrFrom4(a)
	}
	v6 := func() netip.Addr {
		if r.chance(25) {
			return c19Awkward(r, true)
		}
		var a [16]byte
		binary.BigEndian.PutUint64(a[:], r.next()|1<<61)
		binary.BigEndian.PutUint64(a[8:], r.next())
		return netip.AddrFrom16(a)
	}

	dec := func(b []byte, tag string) {
		ans := dog.run("Header.decodeFromBytes", b, func() string {
			h := &Header{}
			if err := h.decodeFromBytes(b); err != nil {
				return c19ZErr(err)
			}
			return fmt.Sprintf("ok %d %d %d %d %d", h.Len, h.Marker, h.Version, h.VrfID, h.Command)
		})
		if ans == "panic" {
			o.fail("zapi-header-panic", c19Hex(b))
		}
		o.ask(ans, "zapi.dec %s", c19Hex(b))
		if strings.HasPrefix(ans, "ok") {
			o.stat("dec_"+tag+"_ok_v"+strings.Fields(ans)[3], 1)
		} else {
			o.stat("dec_"+tag+"_"+strings.ReplaceAll(ans, " ", "_"), 1)
		}
	}
	recv := func(version uint8, stream []byte, tag string) {
		c := &c19Conn{rd: bytes.NewReader(stream)}
		var m *Message
		var err error
		ans := dog.run(fmt.Sprintf("ReceiveSingleMsg v%d", version), stream, func() string {
			m, err = ReceiveSingleMsg(logger, c, version, NewSoftware(version, ""), "verif")
			hs := int(HeaderSize(version))
			switch {
			case err == nil:
				return fmt.Sprintf("framed %d %d", c.read, c.read-hs)
			case strings.Contains(err.Error(), "version mismatch"):
				return fmt.Sprintf("mismatch %d", c.read)
			case c.read < hs || (c.read == hs && len(stream) < hs):
				return fmt.Sprintf("hdrread %d", c.read)
			case err == io.EOF || err == io.ErrUnexpectedEOF:
				if c.read == hs && len(stream) > hs {
					return fmt.Sprintf("hdrerr %d", c.read) // cannot happen: a decode error is not an EOF
				}
				return fmt.Sprintf("bodyread %d", c.read)
			}
			return fmt.Sprintf("hdrerr %d", c.read)
		})
		if ans == "panic" {
			o.fail("zapi-receive-panic", map[string]any{"version": version, "stream": c19Hex(stream)})
		}
		// oracle: never reads beyond the announced Len, nor beyond the stream
		if c.read > len(stream) {
			o.fail("zapi-receive-overrun", c19Hex(stream))
		}
		if err == nil && len(stream) >= 2 && c.read != int(binary.BigEndian.Uint16(stream)) {
			o.fail("zapi-receive-len", map[string]any{"version": version, "stream": c19Hex(stream), "read": c.read})
		}
		if err == nil && m != nil && int(m.Header.Len) != c.read {
			o.fail("zapi-receive-len", map[string]any{"version": version, "stream": c19Hex(stream), "read": c.read})
		}
		o.ask(ans, "zapi.recv %d %s", version, c19Hex(stream))
		o.stat("recv_"+tag+"_"+strings.Fields(ans)[0], 1)
	}

	// corpus
	for _, h := range []string{"", "0006", "00060002", "0006ff020001", "0005ff020001", "0008ff030000", "0008ff0300000001", "0007fe0400000001",
		"000afe050000000000", "000afe0500000000000b", "0009fe0500000000000b", "000afe0600000000000b", "ffffff070001", "0006ff010001", "0006ff00000100"} {
		b, _ := hex.DecodeString(h)
		dec(b, "corpus")
		for v := uint8(2); v <= 6; v++ {
			recv(v, b, "corpus")
		}
	}
	recv(6, []byte{0, 12, 0xfe, 6, 0, 0, 0, 0, 0, 200, 1}, "corpus") // body one octet short
	recv(2, []byte{0, 5, 0xff, 2, 0, 1, 9, 9, 9}, "corpus")          // Len below the header size

	var pool [][]byte
	for i := 0; i < n; i++ {
		// ---- header: every version incl. unsupported ones
		ver := uint8(r.pick(2, 3, 4, 5, 6, 2, 3, 4, 5, 6, 0, 1, 7, 255))
		h := &Header{Len: uint16(r.pick(0, 5, 6, 7, 8, 9, 10, 11, 4096, 65535, int(r.next()%65536))), Marker: uint8(r.pick(255, 254, 0)),
			Version: ver, VrfID: uint32(r.pick(0, 1, 65535, 65536, 0xffffffff, int(r.u32()))), Command: APIType(r.intn(140))}
		hb := []byte(nil)
		ans := dog.run("Header.serialize", nil, func() string {
			b, err := h.serialize()
			if err != nil {
				return "err"
			}
			hb = b
			return c19Hex(b)
		})
		if ans == "panic" {
			o.fail("zapi-header-serialize-panic", fmt.Sprint(*h))
		}
		o.ask(ans, "zapi.ser %d %d %d %d %d", h.Len, h.Marker, h.Version, h.VrfID, h.Command)
		if hb != nil {
			dec(hb, "ser")
			// oracle (1) for the header: decodes to the same fields whenever Len is acceptable
			h2 := &Header{}
			if err := h2.decodeFromBytes(hb); err == nil {
				want := *h
				if ver == 2 {
					want.VrfID = 0
				} else if ver <= 4 {
					want.VrfID &= 0xffff
				}
				if *h2 != want {
					o.fail("zapi-header-roundtrip", c19Hex(hb))
				} else if hb2, _ := h2.serialize(); !bytes.Equal(hb, hb2) {
					o.fail("zapi-header-roundtrip", c19Hex(hb))
				}
			} else if h.Len >= HeaderSize(ver) {
				o.fail("zapi-header-roundtrip", c19Hex(hb))
			}
			mb := append([]byte(nil), hb...)
			switch r.intn(5) {
			case 0:
				mb = mb[:r.intn(len(mb)+1)]
			case 1:
				mb[3] = byte(r.pick(0, 1, 2, 3, 4, 5, 6, 7))
			case 2:
				mb = append(mb, rnd(6)...)
			case 3:
				mb[r.intn(len(mb))] = byte(r.next())
			case 4:
				binary.BigEndian.PutUint16(mb, uint16(r.pick(0, 3, 5, 6, 7, 8, 9, 10, 11)))
			}
			dec(mb, "mut")
		}

		// ---- IPRouteBody values (ZAPI 5 / 6, every flavour)
		for k := 0; k < 2; k++ {
			rv := uint8(5 + r.intn(2))
			c19RouteRoundTrip(o, dog, r, rv, c19Flavours[rv][r.intn(len(c19Flavours[rv]))])
		}

		{
			gv := uint8(3 + r.intn(4))
			c19RegisterRoundTrip(o, dog, r, gv, c19Flavours[gv][r.intn(len(c19Flavours[gv]))])
		}

		c19DecodeOnlyBodies(o, dog, r)

		// ---- messages the daemon constructs, per version and flavour
		v := uint8(2 + r.intn(5))
		fl := c19Flavours[v][r.intn(len(c19Flavours[v]))]
		sw := NewSoftware(v, fl)
		vrf := uint32(r.pick(0, 0, 1, 7))
		var body Body
		var cmd APIType
		label := ""
		roundTrips := false // true when parseMessage has a decoder for the very body that is sent
		switch r.intn(8) {
		case 0, 1, 2:
			pfx, gate, plen := v4(), v4(), uint8(r.intn(33))
			if r.chance(40) {
				pfx, gate, plen = v6(), v6(), uint8(r.intn(129))
			}
			msg := MessageNexthop
			if r.chance(50) {
				msg |= MessageMetric.ToEach(v, sw)
			}
			nhs := []Nexthop{{Gate: gate, VrfID: vrf}}
			if r.chance(30) {
				nhs = append(nhs, Nexthop{Gate: gate.Next(), VrfID: vrf})
			}
			var flags Flag
			if r.chance(50) {
				flags = FlagIBGP.ToEach(v, sw) | FlagAllowRecursion
			}
			cmd = RouteAdd
			if r.chance(30) {
				cmd = RouteDelete
			}
			if v < 5 && pfx.Is6() {
				cmd = map[APIType]APIType{RouteAdd: BackwardIPv6RouteAdd, RouteDelete: BackwardIPv6RouteDelete}[cmd]
			}
			body = &IPRouteBody{Type: RouteBGP, Flags: flags, Safi: SafiUnicast, Message: msg,
				Prefix: Prefix{Prefix: pfx, PrefixLen: plen}, Nexthops: nhs, Metric: r.u32()}
			// ZAPI 5 and 6 use zapi_route in both directions; before that the zebra->client format differs
			label, roundTrips = "route", v >= 5
		case 3:
			if v < 3 {
				continue
			}
			nh := &RegisteredNexthop{Family: syscall.AF_INET, Prefix: v4()}
			if r.chance(50) {
				nh = &RegisteredNexthop{Family: syscall.AF_INET6, Prefix: v6()}
			}
			cmd = nexthopRegister
			if r.chance(30) {
				cmd = nexthopUnregister
			}
			body, label = &NexthopRegisterBody{api: cmd.ToEach(v, sw), Nexthops: []*RegisteredNexthop{nh}}, "nexthop_register"
		case 4:
			if v < 5 {
				continue
			}
			cmd, body, label, roundTrips = vrfLabel, &vrfLabelBody{label: r.u32() & 0xfffff, afi: afiIP, labelType: lspBGP}, "vrf_label", !(v == 5 && fl == "frr4") // frr4 has no VRF_LABEL command (Client.SupportMpls)
		case 5:
			cmd, body, label = Hello, &HelloBody{redistDefault: RouteBGP, instance: 0, receiveNotify: uint8(r.intn(2))}, "hello"
		case 6:
			rb := &redistributeBody{redist: RouteType(r.intn(10))}
			if v > 3 {
				rb.afi = afi(1 + r.intn(2))
			}
			cmd, body, label = redistributeAdd, rb, "redistribute"
		default:
			if v < 4 {
				continue
			}
			if r.chance(50) {
				cmd, body, label = labelManagerConnect, &labelManagerConnectBody{redistDefault: RouteBGP, instance: 0}, "label_manager_connect"
			} else {
				cmd, body, label = getLabelChunk, &GetLabelChunkBody{proto: uint8(RouteBGP), ChunkSize: uint32(1 + r.intn(1000))}, "get_label_chunk"
			}
		}
		m := &Message{Header: Header{Len: HeaderSize(v), Marker: HeaderMarker(v), Version: v, VrfID: vrf, Command: cmd.ToEach(v, sw)}, Body: body}
		var b []byte
		res := dog.run("message "+label, nil, func() string {
			var err error
			b, err = m.Serialize(sw)
			if err != nil {
				return "serr:" + err.Error()
			}
			hs := int(HeaderSize(v))
			h2 := &Header{}
			if err := h2.decodeFromBytes(b[:hs]); err != nil {
				return "herr:" + err.Error()
			}
			if int(h2.Len) != len(b) || h2.Command != m.Header.Command || h2.Version != v {
				return "header-fields"
			}
			m2, err := parseMessage(h2, b[hs:], sw)
			if err != nil {
				if roundTrips {
					return "perr:" + err.Error()
				}
				return "ok-oneway"
			}
			if _, unk := m2.Body.(*unknownBody); unk && roundTrips {
				return "unknown-body"
			}
			if !roundTrips {
				return "ok-oneway"
			}
			b2, err := m2.Serialize(sw)
			if err != nil {
				return "serr2:" + err.Error()
			}
			if !bytes.Equal(b, b2) {
				return "differs:" + c19Hex(b2)
			}
			return "ok"
		})
		o.stat(fmt.Sprintf("message_%s_v%d_%s", label, v, res[:min(len(res), 9)]), 1)
		if res != "ok" && res != "ok-oneway" {
			o.fail(fmt.Sprintf("zapi-message:%s:v%d:%s", label, v, strings.SplitN(res, ":", 2)[0]),
				map[string]any{"flavour": fl, "bytes": c19Hex(b), "outcome": res[:min(len(res), 400)]})
		}
		if b != nil {
			pool = append(pool, b)
			if len(pool) == 1 {
				o.sample(fmt.Sprintf("zapi v%d %s: %s", v, label, c19Hex(b)))
			}
			// ReceiveSingleMsg on a stream of messages / cut / mutated
			stream := append([]byte(nil), b...)
			if r.chance(50) {
				stream = append(stream, pool[r.intn(len(pool))]...)
			}
			switch r.intn(5) {
			case 0:
				recv(v, stream, "valid")
			case 1:
				recv(v, stream[:r.intn(len(stream)+1)], "cut")
			case 2:
				binary.BigEndian.PutUint16(stream, uint16(r.pick(0, 3, 5, 6, 7, 8, 9, 10, 11, len(b)-1, len(b)+1, len(stream), len(stream)+1, 65535)))
				recv(v, stream, "len")
			case 3:
				recv(uint8(2+r.intn(5)), stream, "otherversion")
			default:
				stream[r.intn(min(len(stream), 12))] = byte(r.next())
				recv(v, stream, "mut")
			}
		}

		// ---- oracle (2): every body decoder, every version x flavour, arbitrary input
		var in []byte
		if len(pool) > 0 && r.chance(60) {
			p := pool[r.intn(len(pool))]
			in = append([]byte(nil), p[min(len(p), int(HeaderSize(p[3]))):]...)
			if len(in) > 0 && r.chance(70) {
				switch r.intn(3) {
				case 0:
					in = in[:r.intn(len(in)+1)]
				case 1:
					in[r.intn(len(in))] = byte(r.pick(0, 1, 2, 10, 0x7f, 0x80, 0xff, int(r.next()%256)))
				case 2:
					in = append(in, rnd(8)...)
				}
			}
		} else {
			in = rnd(64)
		}
		dv := uint8(2 + r.intn(5))
		if r.chance(5) {
			dv = uint8(r.next())
		}
		if len(pool) > 0 && r.chance(60) && len(in) > 0 {
			dv = pool[len(pool)-1][3] // mostly the version the bytes were built for
		}
		dfl := ""
		if f, ok := c19Flavours[dv]; ok {
			dfl = f[r.intn(len(f))]
		}
		dsw := NewSoftware(dv, dfl)
		fuzzBodies := func(in []byte) {
			for _, bd := range []Body{&unknownBody{}, &HelloBody{}, &redistributeBody{}, &interfaceUpdateBody{}, &interfaceAddressUpdateBody{},
				&routerIDUpdateBody{}, &IPRouteBody{}, &IPRouteBody{API: RouteAdd.ToEach(dv, dsw)}, &lookupBody{}, &NexthopRegisterBody{}, &NexthopUpdateBody{},
				&labelManagerConnectBody{}, &GetLabelChunkBody{}, &releaseLabelChunkBody{}, &vrfLabelBody{}} {
				if dog.run(fmt.Sprintf("%T.decodeFromBytes v%d %s", bd, dv, dfl), in, func() string { _ = bd.decodeFromBytes(in, dv, dsw); return "" }) == "panic" {
					o.fail(fmt.Sprintf("zapi-body-panic:%T", bd), map[string]any{"version": dv, "flavour": dfl, "bytes": c19Hex(in)})
				}
			}
			if dog.run("RegisteredNexthop.decodeFromBytes", in, func() string { _ = (&RegisteredNexthop{}).decodeFromBytes(in, dv, dsw); return "" }) == "panic" {
				o.fail("zapi-body-panic:RegisteredNexthop", map[string]any{"version": dv, "flavour": dfl, "bytes": c19Hex(in)})
			}
			for _, bk := range []bool{false, true} {
				if dog.run("decodeMessageNexthopFromBytes", in, func() string {
					_, _ = (&IPRouteBody{}).decodeMessageNexthopFromBytes(in, dv, dsw, bk)
					return ""
				}) == "panic" {
					o.fail("zapi-body-panic:decodeMessageNexthopFromBytes", map[string]any{"version": dv, "flavour": dfl, "bytes": c19Hex(in)})
				}
			}
		}
		fuzzBodies(in)
		if i%4 == 0 { // every truncation of this input
			for cut := 0; cut < len(in); cut++ {
				fuzzBodies(in[:cut])
			}
		}
		cmdN := APIType(r.intn(135))
		if dog.run(fmt.Sprintf("parseMessage v%d %s cmd %d", dv, dfl, cmdN), in, func() string {
			_, _ = parseMessage(&Header{Len: uint16(len(in)) + HeaderSize(dv), Version: dv, Command: cmdN}, in, dsw)
			return ""
		}) == "panic" {
			o.fail("zapi-parse-panic", map[string]any{"version": dv, "flavour": dfl, "command": cmdN, "bytes": c19Hex(in)})
		}
		o.stat("body_decoders_fuzzed", 1)
	}
}
