//go:build verif

package server

// C05 harness, receive path: fsmHandler.recvMessageWithError (fsm.go) on an in-memory connection.
// What is checked, per generated stream (one message followed by foreign octets):
//   * correspondence with Model/ParseTotal.lean `recvBodyLen` (`recv` lines): header error => nothing more
//     is read; otherwise exactly Header.Len-19 further octets are read;
//   * oracle (model independent): never more octets are taken from the connection than the header declares,
//     never more than the negotiated maximum (4096; 65535 for UPDATE/NOTIFICATION/ROUTE-REFRESH with the
//     extended-message capability), the payload handed on is the octets of the stream, no panic.

import (
	"bytes"
	"context"
	"encoding/binary"
	"fmt"
	"io"
	"net"
	"net/netip"
	"strings"
	"testing"

	"github.com/eapache/channels"

	"github.com/osrg/gobgp/v4/api"
	"github.com/osrg/gobgp/v4/pkg/packet/bgp"
)

type c05Conn struct {
	net.Conn
	data []byte
	off  int
}

func (c *c05Conn) Read(b []byte) (int, error) {
	if c.off >= len(c.data) {
		return 0, io.EOF
	}
	n := copy(b, c.data[c.off:])
	c.off += n
	return n, nil
}
func (c *c05Conn) Close() error { return nil }
func (c *c05Conn) LocalAddr() net.Addr {
	return &net.TCPAddr{IP: net.IPv4(10, 0, 0, 254).To4(), Port: 179}
}
func (c *c05Conn) RemoteAddr() net.Addr {
	return &net.TCPAddr{IP: net.IPv4(10, 0, 0, 1).To4(), Port: 40000}
}

// ---- sessions: the receive-path bound must be the one the CURRENT session negotiated

// what the peer's OPEN of one session carries
type c05Sess struct {
	ext, as4, gr, rr, llgr, addpath bool
	split                            bool // every capability in an optional parameter of its own
	unknownParam                     bool // an unknown optional parameter in front
	order                            []int
}

func (x c05Sess) String() string {
	return fmt.Sprintf("ext%d-as4%d-gr%d-rr%d-llgr%d-ap%d-split%d-unk%d", c06B(x.ext), c06B(x.as4), c06B(x.gr), c06B(x.rr), c06B(x.llgr), c06B(x.addpath), c06B(x.split), c06B(x.unknownParam))
}

func c05BuildOpen(x c05Sess) *bgp.BGPMessage {
	caps := []bgp.ParameterCapabilityInterface{bgp.NewCapMultiProtocol(bgp.RF_IPv4_UC)}
	if x.rr {
		caps = append(caps, bgp.NewCapRouteRefresh())
	}
	if x.as4 {
		caps = append(caps, bgp.NewCapFourOctetASNumber(65001))
	}
	if x.ext {
		caps = append(caps, bgp.NewCapExtendedMessage())
	}
	if x.gr {
		caps = append(caps, bgp.NewCapGracefulRestart(false, true, 120, []*bgp.CapGracefulRestartTuple{bgp.NewCapGracefulRestartTuple(bgp.RF_IPv4_UC, true)}))
	}
	if x.llgr {
		caps = append(caps, bgp.NewCapLongLivedGracefulRestart([]*bgp.CapLongLivedGracefulRestartTuple{bgp.NewCapLongLivedGracefulRestartTuple(bgp.RF_IPv4_UC, true, 3600)}))
	}
	if x.addpath {
		caps = append(caps, bgp.NewCapAddPath([]*bgp.CapAddPathTuple{bgp.NewCapAddPathTuple(bgp.RF_IPv4_UC, bgp.BGP_ADD_PATH_BOTH)}))
	}
	if len(x.order) == len(caps) {
		sh := make([]bgp.ParameterCapabilityInterface, len(caps))
		for i, j := range x.order {
			sh[i] = caps[j]
		}
		caps = sh
	}
	var params []bgp.OptionParameterInterface
	if x.unknownParam {
		params = append(params, &bgp.OptionParameterUnknown{ParamType: 99, Value: []byte{1, 2, 3}})
	}
	if x.split {
		for _, c := range caps {
			params = append(params, bgp.NewOptionParameterCapability([]bgp.ParameterCapabilityInterface{c}))
		}
	} else {
		params = append(params, bgp.NewOptionParameterCapability(caps))
	}
	m, err := bgp.NewBGPOpenMessage(65001, 90, netip.AddrFrom4([4]byte{10, 0, 0, 1}), params)
	if err != nil {
		panic(err)
	}
	return m
}

func c05NumCaps(x c05Sess) int {
	n := 1
	for _, b := range []bool{x.rr, x.as4, x.ext, x.gr, x.llgr, x.addpath} {
		if b {
			n++
		}
	}
	return n
}

// c05Sessions drives histories of 1-3 sessions through the REAL fsm.stateChange(ESTABLISHED) on one fsm and, in
// every session, sends headers around both caps through recvMessageWithError.  The maximum is computed from the
// OPEN of the session in progress only.
func c05Sessions(t *testing.T, o *vOut, r *vRand, h *fsmHandler, failOnce func(string, map[string]any)) {
	combos := []c05Sess{{ext: false, as4: false}, {ext: false, as4: true}, {ext: true, as4: false}, {ext: true, as4: true}}
	var histories [][]c05Sess
	for _, a := range combos {
		histories = append(histories, []c05Sess{a})
		for _, b := range combos {
			histories = append(histories, []c05Sess{a, b})
			for _, c := range combos {
				histories = append(histories, []c05Sess{a, b, c})
			}
		}
	}
	extra := 60
	if o.thorough {
		extra = 600
	}
	for i := 0; i < extra; i++ { // random histories with the other capabilities and OPEN shapes varied too
		n := 2 + r.intn(3)
		hist := make([]c05Sess, n)
		for k := range hist {
			x := c05Sess{ext: r.chance(50), as4: r.chance(50), gr: r.chance(40), rr: r.chance(50), llgr: r.chance(20),
				addpath: r.chance(30), split: r.chance(40), unknownParam: r.chance(20)}
			if r.chance(50) {
				x.order = r.perm(c05NumCaps(x))
			}
			hist[k] = x
		}
		histories = append(histories, hist)
	}
	types := []uint8{1, 2, 3, 4, 5, 0, 6}
	big := bytes.Repeat([]byte{0xff}, 65535)
	for hi, hist := range histories {
		var bodies []string
		var names []string
		// whatever earlier sessions (the previous history, the first part of this test) left behind
		flagBefore := r.chance(50)
		h.fsm.extendedMessage.Store(flagBefore)
		for si, x := range hist {
			open := c05BuildOpen(x)
			ob, err := open.Body.Serialize()
			if err != nil {
				t.Fatal(err)
			}
			bodies = append(bodies, c05Hex(ob))
			names = append(names, x.String())
			// the session comes up ...
			h.fsm.conn = &c05Conn{}
			h.fsm.recvOpen = open
			if p := func() (s string) {
				defer func() {
					if e := recover(); e != nil {
						s = fmt.Sprint(e)
					}
				}()
				h.fsm.stateChange(bgp.BGP_FSM_ESTABLISHED, newfsmStateReason(fsmOpenMsgNegotiated, nil, nil))
				return ""
			}(); p != "" {
				failOnce("panic:stateChange", map[string]any{"panic": p, "sessions": names})
				return
			}
			o.stat(fmt.Sprintf("sess:position-%d:ext%d-as4%d", si+1, c06B(x.ext), c06B(x.as4)), 1)
			// ... and receives
			lens := []int{4096, 4097, 65535, 4098 + r.intn(61000), 19 + r.intn(4077), r.pick(19, 23, 4095, 65534, 5000)}
			for _, declared := range lens {
				for _, typ := range types {
					if !(si == len(hist)-1) && r.chance(60) {
						continue // earlier sessions are sampled, the last one is probed in full
					}
					hdr := bytes.Repeat([]byte{0xff}, 16)
					hdr = binary.BigEndian.AppendUint16(hdr, uint16(declared))
					hdr = append(hdr, typ)
					stream := append(append([]byte{}, hdr...), big[:declared-19]...)
					stream = append(stream, 0xee, 0xee, 0xee, 0xee)
					conn := &c05Conn{data: stream}
					reasonCh := make(chan fsmStateReason, 4)
					var fm *fsmMsg
					var err error
					if p := func() (s string) {
						defer func() {
							if e := recover(); e != nil {
								s = fmt.Sprint(e)
							}
						}()
						fm, err = h.recvMessageWithError(conn, reasonCh)
						return ""
					}(); p != "" {
						failOnce("panic:recvMessageWithError", map[string]any{"panic": p, "sessions": names, "declared": declared, "type": typ})
						continue
					}
					maxLen := 4096
					if x.ext && (typ == 2 || typ == 3 || typ == 5) {
						maxLen = 65535
					}
					detail := map[string]any{"sessions_oldest_first": names, "session_in_progress": si + 1, "open_bodies": bodies,
						"flag_left_by_earlier_sessions": flagBefore, "header": c05Hex(hdr), "declared": declared, "type": typ, "negotiated_maximum_of_this_session": maxLen,
						"octets_taken_from_connection": conn.off, "fsm.extendedMessage": h.fsm.extendedMessage.Load()}
					ans := "reject"
					if fm != nil && fm.payload != nil {
						ans = fmt.Sprintf("read %d", len(fm.payload)-19)
						o.stat("sess:read", 1)
						if len(fm.payload) > maxLen || conn.off > maxLen {
							failOnce("recv-exceeds-negotiated-maximum", detail)
						}
					} else {
						o.stat("sess:reject", 1)
						if conn.off != 19 {
							failOnce("recv-over-read:after-header-error", detail)
						}
						if declared <= maxLen && err != nil {
							// marker and length field are fine: only the bound can have refused it
							failOnce("recv-refuses-message-within-negotiated-maximum", detail)
						}
					}
					o.ask(ans, "recvs %d %s %s", si+1, strings.Join(bodies, " "), c05Hex(hdr))
				}
			}
			// the session goes down
			h.fsm.stateChange(bgp.BGP_FSM_IDLE, newfsmStateReason(fsmReadFailed, nil, nil))
		}
		if hi < 2 {
			o.sample(fmt.Sprintf("sessions %v", names))
		}
	}
}

func c05Hex(b []byte) string {
	if len(b) == 0 {
		return "-"
	}
	return fmt.Sprintf("%x", b)
}

func TestVerifC05Recv(t *testing.T) {
	o := vOpen(t)
	defer o.close()
	r := &vRand{s: o.seed*7919 + 55}

	s := NewBgpServer()
	go s.Serve()
	if err := s.StartBgp(context.Background(), &api.StartBgpRequest{Global: &api.Global{Asn: 65000, RouterId: "1.1.1.1", ListenPort: -1}}); err != nil {
		t.Fatal(err)
	}
	defer s.StopBgp(context.Background(), &api.StopBgpRequest{})
	addr := netip.AddrFrom4([4]byte{10, 0, 0, 1})
	if err := s.AddPeer(context.Background(), &api.AddPeerRequest{Peer: &api.Peer{
		Conf: &api.PeerConf{NeighborAddress: addr.String(), PeerAsn: 65001, AdminDown: true},
	}}); err != nil {
		t.Fatal(err)
	}
	var p *peer
	_ = s.mgmtOperation(func() error { p = s.neighborMap[addr]; return nil }, false)
	if p == nil {
		t.Fatal("peer not found")
	}
	h := &fsmHandler{fsm: p.fsm, outgoing: channels.NewInfiniteChannel()}

	n := 6000
	if o.thorough {
		n = 60000
	}
	trailer := []byte{0xee, 0xee, 0xee, 0xee, 0xee, 0xee, 0xee, 0xee, 0xee, 0xee, 0xee, 0xee, 0xee, 0xee, 0xee, 0xee, 0xee, 0xee, 0xee, 0xee}
	seen := map[string]bool{}
	failOnce := func(class string, d map[string]any) {
		if !seen[class] {
			seen[class] = true
			o.fail(class, d)
		}
	}
	for i := 0; i < n; i++ {
		ext := r.chance(50)
		revised := r.chance(70)
		// ---- the message
		typ := uint8(r.pick(1, 2, 2, 2, 3, 4, 5, 0, 6, 255))
		var body []byte
		switch {
		case typ == 2 && r.chance(70):
			body = c06Gen(r, 0, r.pick(0, 0, 1, 2)).body()
		case typ == 4 && r.chance(70):
		default:
			body = c06RandBytes(r, r.pick(0, 1, 2, 4, 10, 29, 100))
		}
		if r.chance(12) { // size strata around both caps
			want := r.pick(4095, 4096, 4097, 4115, 65534, 65535) - 19
			if want > len(body) {
				body = append(body, c06RandBytes(r, want-len(body))...)
			}
		}
		declared := 19 + len(body)
		switch r.intn(12) {
		case 0:
			declared = r.pick(0, 1, 18, 19, 20, 65535, 4096, 4097)
		case 1:
			declared += r.pick(-1, 1, -19, 5)
		}
		if declared < 0 {
			declared = 0
		}
		if declared > 65535 {
			declared = 65535
		}
		hdr := bytes.Repeat([]byte{0xff}, 16)
		if r.chance(6) {
			hdr[r.intn(16)] = byte(r.next())
		}
		hdr = binary.BigEndian.AppendUint16(hdr, uint16(declared))
		hdr = append(hdr, typ)
		stream := append(append(append([]byte{}, hdr...), body...), trailer...)
		orig := append([]byte{}, stream...)

		h.fsm.extendedMessage.Store(ext)
		h.fsm.isTreatAsWithdraw = revised
		conn := &c05Conn{data: stream}
		reasonCh := make(chan fsmStateReason, 4)
		var fm *fsmMsg
		var err error
		panicked := func() (s string) {
			defer func() {
				if e := recover(); e != nil {
					s = fmt.Sprint(e)
				}
			}()
			fm, err = h.recvMessageWithError(conn, reasonCh)
			return ""
		}()
		detail := map[string]any{"ext": ext, "revised": revised, "stream": c05Hex(stream[:min(len(stream), 200)]), "stream_len": len(stream), "consumed": conn.off}
		if panicked != "" {
			o.ask("panic", "recv %d %s", c06B(ext), c05Hex(hdr))
			failOnce("panic:recvMessageWithError", map[string]any{"panic": panicked, "detail": detail})
			continue
		}
		if !bytes.Equal(stream, orig) {
			failOnce("input-mutated:recv", detail)
		}
		maxLen := 4096
		if ext && (typ == 2 || typ == 3 || typ == 5) {
			maxLen = 65535
		}
		switch {
		case fm == nil:
			// read failure: the stream ended before the declared length
			o.stat("recv:short-stream", 1)
			if conn.off != len(stream) {
				failOnce("recv-gave-up-early", detail)
			}
			if declared <= len(stream) {
				failOnce("recv-read-failure-on-complete-message", detail)
			}
			continue
		case fm.payload == nil:
			o.stat("recv:header-reject", 1)
			o.ask("reject", "recv %d %s", c06B(ext), c05Hex(hdr))
			if conn.off != 19 {
				failOnce("recv-over-read:after-header-error", detail)
			}
			if err == nil {
				failOnce("recv-header-error-without-error", detail)
			}
		default:
			nb := len(fm.payload) - 19
			o.stat("recv:read", 1)
			if err != nil {
				o.stat("recv:read:session-reset", 1)
			} else if fm.handling != bgp.ERROR_HANDLING_NONE {
				o.stat(fmt.Sprintf("recv:read:handling-%d", int(fm.handling)), 1)
			}
			o.ask(fmt.Sprintf("read %d", nb), "recv %d %s", c06B(ext), c05Hex(hdr))
			if conn.off != 19+nb || conn.off != declared {
				failOnce("recv-over-read:past-declared-length", detail)
			}
			if 19+nb > maxLen {
				failOnce("recv-exceeds-negotiated-maximum", detail)
			}
			if !bytes.Equal(fm.payload, orig[:19+nb]) {
				failOnce("recv-payload-differs", detail)
			}
			// what is handed on can be rendered and re-serialised
			if m, ok := fm.MsgData.(*bgp.BGPMessage); ok && m != nil {
				if ps := func() (s string) {
					defer func() {
						if e := recover(); e != nil {
							s = fmt.Sprint(e)
						}
					}()
					_, _ = m.Serialize(&bgp.MarshallingOption{ExtendedMessage: ext})
					if u, ok := m.Body.(*bgp.BGPUpdate); ok {
						for _, a := range u.PathAttributes {
							_ = a.String()
							_, _ = a.MarshalJSON()
						}
					}
					return ""
				}(); ps != "" {
					failOnce("render-panic:recv", map[string]any{"panic": ps, "detail": detail})
				}
			}
		}
		if i < 3 {
			o.sample(fmt.Sprintf("recv ext=%v declared=%d typ=%d stream=%d octets consumed=%d", ext, declared, typ, len(stream), conn.off))
		}
	}

	c05Sessions(t, o, r, h, failOnce)
}
