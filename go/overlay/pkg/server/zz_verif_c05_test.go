//go:build verif

package server

// C05 harness, receive path: fsmHandler.recvMessageWithError (fsm.go) on an in-memory connection.
// What is checked, per generated stream (one message followed by foreign octets):
//   * correspondence with Model/ParseTotal.lean `recvBodyLen` (`recv` lines): header error => nothing more
//     is read; otherwise exactly Header.Len-19 further octets are read;
//   * oracle (model independent): never more octets are taken from the connection than the header declares,
//     never more than the negotiated maximum (4096; 65535 for UPDATE/NOTIFICATION/ROUTE-REFRESH with the
//     extended-message capability), the payload handed on is the octets of the stream, no panic.

import (
	"bytes"
	"context"
	"encoding/binary"
	"fmt"
	"io"
	"net"
	"net/netip"
	"testing"

	"github.com/eapache/channels"

	"github.com/osrg/gobgp/v4/api"
	"github.com/osrg/gobgp/v4/pkg/packet/bgp"
)

type c05Conn struct {
	net.Conn
	data []byte
	off  int
}

func (c *c05Conn) Read(b []byte) (int, error) {
	if c.off >= len(c.data) {
		return 0, io.EOF
	}
	n := copy(b, c.data[c.off:])
	c.off += n
	return n, nil
}
func (c *c05Conn) Close() error { return nil }

func c05Hex(b []byte) string {
	if len(b) == 0 {
		return "-"
	}
	return fmt.Sprintf("%x", b)
}

func TestVerifC05Recv(t *testing.T) {
	o := vOpen(t)
	defer o.close()
	r := &vRand{s: o.seed*7919 + 55}

	s := NewBgpServer()
	go s.Serve()
	if err := s.StartBgp(context.Background(), &api.StartBgpRequest{Global: &api.Global{Asn: 65000, RouterId: "1.1.1.1", ListenPort: -1}}); err != nil {
		t.Fatal(err)
	}
	defer s.StopBgp(context.Background(), &api.StopBgpRequest{})
	addr := netip.AddrFrom4([4]byte{10, 0, 0, 1})
	if err := s.AddPeer(context.Background(), &api.AddPeerRequest{Peer: &api.Peer{
		Conf: &api.PeerConf{NeighborAddress: addr.String(), PeerAsn: 65001, AdminDown: true},
	}}); err != nil {
		t.Fatal(err)
	}
	var p *peer
	_ = s.mgmtOperation(func() error { p = s.neighborMap[addr]; return nil }, false)
	if p == nil {
		t.Fatal("peer not found")
	}
	h := &fsmHandler{fsm: p.fsm, outgoing: channels.NewInfiniteChannel()}

	n := 6000
	if o.thorough {
		n = 60000
	}
	trailer := []byte{0xee, 0xee, 0xee, 0xee, 0xee, 0xee, 0xee, 0xee, 0xee, 0xee, 0xee, 0xee, 0xee, 0xee, 0xee, 0xee, 0xee, 0xee, 0xee, 0xee}
	seen := map[string]bool{}
	failOnce := func(class string, d map[string]any) {
		if !seen[class] {
			seen[class] = true
			o.fail(class, d)
		}
	}
	for i := 0; i < n; i++ {
		ext := r.chance(50)
		revised := r.chance(70)
		// ---- the message
		typ := uint8(r.pick(1, 2, 2, 2, 3, 4, 5, 0, 6, 255))
		var body []byte
		switch {
		case typ == 2 && r.chance(70):
			body = c06Gen(r, 0, r.pick(0, 0, 1, 2)).body()
		case typ == 4 && r.chance(70):
		default:
			body = c06RandBytes(r, r.pick(0, 1, 2, 4, 10, 29, 100))
		}
		if r.chance(12) { // size strata around both caps
			want := r.pick(4095, 4096, 4097, 4115, 65534, 65535) - 19
			if want > len(body) {
				body = append(body, c06RandBytes(r, want-len(body))...)
			}
		}
		declared := 19 + len(body)
		switch r.intn(12) {
		case 0:
			declared = r.pick(0, 1, 18, 19, 20, 65535, 4096, 4097)
		case 1:
			declared += r.pick(-1, 1, -19, 5)
		}
		if declared < 0 {
			declared = 0
		}
		if declared > 65535 {
			declared = 65535
		}
		hdr := bytes.Repeat([]byte{0xff}, 16)
		if r.chance(6) {
			hdr[r.intn(16)] = byte(r.next())
		}
		hdr = binary.BigEndian.AppendUint16(hdr, uint16(declared))
		hdr = append(hdr, typ)
		stream := append(append(append([]byte{}, hdr...), body...), trailer...)
		orig := append([]byte{}, stream...)

		h.fsm.extendedMessage.Store(ext)
		h.fsm.isTreatAsWithdraw = revised
		conn := &c05Conn{data: stream}
		reasonCh := make(chan fsmStateReason, 4)
		var fm *fsmMsg
		var err error
		panicked := func() (s string) {
			defer func() {
				if e := recover(); e != nil {
					s = fmt.Sprint(e)
				}
			}()
			fm, err = h.recvMessageWithError(conn, reasonCh)
			return ""
		}()
		detail := map[string]any{"ext": ext, "revised": revised, "stream": c05Hex(stream[:min(len(stream), 200)]), "stream_len": len(stream), "consumed": conn.off}
		if panicked != "" {
			o.ask("panic", "recv %d %s", c06B(ext), c05Hex(hdr))
			failOnce("panic:recvMessageWithError", map[string]any{"panic": panicked, "detail": detail})
			continue
		}
		if !bytes.Equal(stream, orig) {
			failOnce("input-mutated:recv", detail)
		}
		maxLen := 4096
		if ext && (typ == 2 || typ == 3 || typ == 5) {
			maxLen = 65535
		}
		switch {
		case fm == nil:
			// read failure: the stream ended before the declared length
			o.stat("recv:short-stream", 1)
			if conn.off != len(stream) {
				failOnce("recv-gave-up-early", detail)
			}
			if declared <= len(stream) {
				failOnce("recv-read-failure-on-complete-message", detail)
			}
			continue
		case fm.payload == nil:
			o.stat("recv:header-reject", 1)
			o.ask("reject", "recv %d %s", c06B(ext), c05Hex(hdr))
			if conn.off != 19 {
				failOnce("recv-over-read:after-header-error", detail)
			}
			if err == nil {
				failOnce("recv-header-error-without-error", detail)
			}
		default:
			nb := len(fm.payload) - 19
			o.stat("recv:read", 1)
			if err != nil {
				o.stat("recv:read:session-reset", 1)
			} else if fm.handling != bgp.ERROR_HANDLING_NONE {
				o.stat(fmt.Sprintf("recv:read:handling-%d", int(fm.handling)), 1)
			}
			o.ask(fmt.Sprintf("read %d", nb), "recv %d %s", c06B(ext), c05Hex(hdr))
			if conn.off != 19+nb || conn.off != declared {
				failOnce("recv-over-read:past-declared-length", detail)
			}
			if 19+nb > maxLen {
				failOnce("recv-exceeds-negotiated-maximum", detail)
			}
			if !bytes.Equal(fm.payload, orig[:19+nb]) {
				failOnce("recv-payload-differs", detail)
			}
			// what is handed on can be rendered and re-serialised
			if m, ok := fm.MsgData.(*bgp.BGPMessage); ok && m != nil {
				if ps := func() (s string) {
					defer func() {
						if e := recover(); e != nil {
							s = fmt.Sprint(e)
						}
					}()
					_, _ = m.Serialize(&bgp.MarshallingOption{ExtendedMessage: ext})
					if u, ok := m.Body.(*bgp.BGPUpdate); ok {
						for _, a := range u.PathAttributes {
							_ = a.String()
							_, _ = a.MarshalJSON()
						}
					}
					return ""
				}(); ps != "" {
					failOnce("render-panic:recv", map[string]any{"panic": ps, "detail": detail})
				}
			}
		}
		if i < 3 {
			o.sample(fmt.Sprintf("recv ext=%v declared=%d typ=%d stream=%d octets consumed=%d", ext, declared, typ, len(stream), conn.off))
		}
	}
}
