//go:build verif

package server

// C19 / BMP sessions (oracle only). The real bmpClient (AddBmp -> loop, TCP over loopback) runs
// against a scripted monitoring station over SEVERAL consecutive transport sessions: the station
// drops the connection at varying points and the client reconnects. Route-monitoring-policy pre /
// post / both / local-rib / all. Neighbours of every monitored kind are made "established" the
// way a session leaves them (negotiated capabilities, OPENs, Adj-RIB-In): 2-octet-AS-only and
// 4-octet-AS speakers, IPv4 and IPv6 peer addresses. Raw received UPDATEs (encoded as that
// neighbour encodes them), regenerated ones (initial dump, post-policy) and Loc-RIB routes flow.
//
// The station knows ONLY what was sent on the current session, and decodes every embedded
// UPDATE with a decoder of its own that takes its options only from the per-peer header (A flag:
// 2-octet AS_PATH) and from the OPENs of that peer's Peer Up on this session (ADD-PATH):
//   * Initiation comes first;
//   * every Route Monitoring / Peer Down / Statistics refers to a peer whose Peer Up was sent
//     earlier on THIS session;
//   * per-peer header flags: V <=> IPv6 peer address, L only under a post-policy policy, O never;
//   * the decoded routes (prefix, AS_PATH as 4-octet numbers) are routes that neighbour sent /
//     that the Loc-RIB holds.

import (
	"context"
	"encoding/binary"
	"fmt"
	"net"
	"net/netip"
	"sort"
	"strings"
	"testing"
	"time"

	"github.com/osrg/gobgp/v4/api"
	"github.com/osrg/gobgp/v4/internal/pkg/table"
	"github.com/osrg/gobgp/v4/pkg/apiutil"
	"github.com/osrg/gobgp/v4/pkg/packet/bgp"
	"github.com/osrg/gobgp/v4/pkg/packet/bmp"
)

type c19Nbr struct {
	name string
	addr netip.Addr
	id   netip.Addr
	as   uint32
	as4  bool // 4-octet AS capability negotiated
	ap   bool // ADD-PATH receive negotiated (the neighbour sends path identifiers)
	p    *peer
	info *table.PeerInfo
}

func (n *c19Nbr) key() string {
	return fmt.Sprintf("%s/%d/%s", n.addr.WithZone(""), n.as, n.id)
}

// ---- the station's own UPDATE decoder: options come from the caller, nothing is guessed

type c19Route struct {
	prefix   string
	withdraw bool
	pathID   uint32
}

type c19Pfx struct {
	s  string
	id uint32
}

func c19DecodePrefixes(b []byte, six, addPath bool) ([]c19Pfx, error) {
	var out []c19Pfx
	for len(b) > 0 {
		id := uint32(0)
		if addPath {
			if len(b) < 4 {
				return nil, fmt.Errorf("short path id")
			}
			id = binary.BigEndian.Uint32(b)
			b = b[4:]
		}
		if len(b) < 1 {
			return nil, fmt.Errorf("short prefix length")
		}
		bits := int(b[0])
		n := (bits + 7) / 8
		width := 4
		if six {
			width = 16
		}
		if bits > width*8 || len(b) < 1+n {
			return nil, fmt.Errorf("bad prefix length %d", bits)
		}
		a := make([]byte, width)
		copy(a, b[1:1+n])
		addr, _ := netip.AddrFromSlice(a)
		out = append(out, c19Pfx{netip.PrefixFrom(addr, bits).String(), id})
		b = b[1+n:]
	}
	return out, nil
}

// returns routes and the AS_PATH as a list of 4-octet numbers
func c19DecodeUpdate(msg []byte, asSize int, addPath func(afi uint16, safi uint8) bool) (routes []c19Route, asPath []uint32, eor bool, err error) {
	if len(msg) < 23 || msg[18] != bgp.BGP_MSG_UPDATE {
		return nil, nil, false, fmt.Errorf("not an UPDATE")
	}
	b := msg[19:]
	wl := int(binary.BigEndian.Uint16(b))
	if len(b) < 2+wl+2 {
		return nil, nil, false, fmt.Errorf("withdrawn length")
	}
	wd, err := c19DecodePrefixes(b[2:2+wl], false, addPath(1, 1))
	if err != nil {
		return nil, nil, false, fmt.Errorf("withdrawn routes: %v", err)
	}
	for _, p := range wd {
		routes = append(routes, c19Route{p.s, true, p.id})
	}
	b = b[2+wl:]
	al := int(binary.BigEndian.Uint16(b))
	if len(b) < 2+al {
		return nil, nil, false, fmt.Errorf("attribute length")
	}
	attrs, nlri := b[2:2+al], b[2+al:]
	if wl == 0 && al == 0 && len(nlri) == 0 {
		return nil, nil, true, nil
	}
	for len(attrs) > 0 {
		if len(attrs) < 3 {
			return nil, nil, false, fmt.Errorf("attribute header")
		}
		flags, typ := attrs[0], attrs[1]
		l, hl := int(attrs[2]), 3
		if flags&0x10 != 0 {
			if len(attrs) < 4 {
				return nil, nil, false, fmt.Errorf("attribute header")
			}
			l, hl = int(binary.BigEndian.Uint16(attrs[2:])), 4
		}
		if len(attrs) < hl+l {
			return nil, nil, false, fmt.Errorf("attribute %d length", typ)
		}
		v := attrs[hl : hl+l]
		attrs = attrs[hl+l:]
		switch typ {
		case 2: // AS_PATH
			for len(v) > 0 {
				if len(v) < 2 || len(v) < 2+int(v[1])*asSize {
					return nil, nil, false, fmt.Errorf("AS_PATH segment does not fit with %d-octet AS numbers", asSize)
				}
				if v[0] < 1 || v[0] > 4 {
					return nil, nil, false, fmt.Errorf("AS_PATH segment type %d", v[0])
				}
				for i := 0; i < int(v[1]); i++ {
					if asSize == 2 {
						asPath = append(asPath, uint32(binary.BigEndian.Uint16(v[2+i*2:])))
					} else {
						asPath = append(asPath, binary.BigEndian.Uint32(v[2+i*4:]))
					}
				}
				v = v[2+int(v[1])*asSize:]
			}
		case 14: // MP_REACH_NLRI
			if len(v) < 5 {
				return nil, nil, false, fmt.Errorf("MP_REACH")
			}
			afi, safi, nhl := binary.BigEndian.Uint16(v), v[2], int(v[3])
			if len(v) < 5+nhl {
				return nil, nil, false, fmt.Errorf("MP_REACH next hop")
			}
			ps, err := c19DecodePrefixes(v[5+nhl:], afi == 2, addPath(afi, safi))
			if err != nil {
				return nil, nil, false, fmt.Errorf("MP_REACH: %v", err)
			}
			for _, p := range ps {
				routes = append(routes, c19Route{p.s, false, p.id})
			}
		case 15: // MP_UNREACH_NLRI
			if len(v) < 3 {
				return nil, nil, false, fmt.Errorf("MP_UNREACH")
			}
			afi, safi := binary.BigEndian.Uint16(v), v[2]
			if len(v) == 3 {
				eor = true
			}
			ps, err := c19DecodePrefixes(v[3:], afi == 2, addPath(afi, safi))
			if err != nil {
				return nil, nil, false, fmt.Errorf("MP_UNREACH: %v", err)
			}
			for _, p := range ps {
				routes = append(routes, c19Route{p.s, true, p.id})
			}
		}
	}
	ps, err := c19DecodePrefixes(nlri, false, addPath(1, 1))
	if err != nil {
		return nil, nil, false, fmt.Errorf("NLRI: %v", err)
	}
	for _, p := range ps {
		routes = append(routes, c19Route{p.s, false, p.id})
	}
	return routes, asPath, eor, nil
}

// ADD-PATH families a Peer Up announces: we receive path ids from the peer where our OPEN says
// receive and the peer's OPEN says send
func c19AddPathFromOpens(sent, recv *bgp.BGPMessage) map[string]bool {
	tuples := func(m *bgp.BGPMessage) map[string]bgp.BGPAddPathMode {
		out := map[string]bgp.BGPAddPathMode{}
		if m == nil {
			return out
		}
		for _, p := range m.Body.(*bgp.BGPOpen).OptParams {
			if c, ok := p.(*bgp.OptionParameterCapability); ok {
				for _, cc := range c.Capability {
					if ap, ok := cc.(*bgp.CapAddPath); ok {
						for _, tu := range ap.Tuples {
							out[fmt.Sprintf("%d/%d", tu.Family.Afi(), tu.Family.Safi())] = tu.Mode
						}
					}
				}
			}
		}
		return out
	}
	s, r := tuples(sent), tuples(recv)
	out := map[string]bool{}
	for k, m := range s {
		if m&bgp.BGP_ADD_PATH_RECEIVE != 0 && r[k]&bgp.BGP_ADD_PATH_SEND != 0 {
			out[k] = true
		}
	}
	return out
}

func c19AsPathStr(as []uint32) string { return fmt.Sprint(as) }

type c19BmpWorld struct {
	t      *testing.T
	o      *vOut
	r      *vRand
	s      *BgpServer
	nbrs   []*c19Nbr
	policy api.AddBmpRequest_MonitoringPolicy
	// what each neighbour sent: key -> "prefix [aspath]"
	sent map[string]map[string]bool
	// prefixes (with the AS_PATHs they were learnt with) the Loc-RIB may hold
	locRib map[string]map[string]bool
	// path identifier an ADD-PATH neighbour sent with a prefix
	pathIDs map[string]uint32
	seq     int
	// when set, route() builds a route for this prefix (several neighbours announcing one prefix)
	forcePrefix *netip.Prefix
}

func (w *c19BmpWorld) note(n *c19Nbr, prefix string, as []uint32) {
	if w.sent[n.key()] == nil {
		w.sent[n.key()] = map[string]bool{}
	}
	w.sent[n.key()][prefix+" "+c19AsPathStr(as)] = true
	if w.locRib[prefix] == nil {
		w.locRib[prefix] = map[string]bool{}
	}
	w.locRib[prefix][c19AsPathStr(as)] = true
}

// a route of neighbour n: its table path, the AS_PATH it sends, and the UPDATE as n encodes it
func (w *c19BmpWorld) route(n *c19Nbr) (*table.Path, *apiutil.Path, []uint32, *bgp.BGPMessage, []byte) {
	r := w.r
	w.seq++
	six := n.addr.Is6() && !n.addr.Is4In6() && r.chance(70)
	var pfx netip.Prefix
	fam := bgp.RF_IPv4_UC
	if w.forcePrefix != nil {
		six, pfx = false, *w.forcePrefix
	} else if six {
		var a [16]byte
		binary.BigEndian.PutUint64(a[:], 0x20010db800000000|uint64(w.seq)<<16)
		pfx, fam = netip.PrefixFrom(netip.AddrFrom16(a), 48), bgp.RF_IPv6_UC
	} else if w.forcePrefix == nil {
		pfx = netip.PrefixFrom(netip.AddrFrom4([4]byte{10, byte(w.seq >> 8), byte(w.seq), 0}), 24)
	}
	as := []uint32{n.as}
	for k := 1 + r.intn(3); k > 0; k-- {
		if n.as4 {
			as = append(as, uint32(r.pick(65000, 4200000000, 70000, 1, 65535, 65536, 23456)))
		} else {
			as = append(as, uint32(r.pick(65000, 1, 65535, 64512, 23456, 258, 257)))
		}
	}
	nlri, _ := bgp.NewIPAddrPrefix(pfx)
	pathID := uint32(0)
	var opts []*bgp.MarshallingOption
	if n.ap {
		pathID = uint32(1 + r.intn(1000))
		opts = []*bgp.MarshallingOption{{AddPath: map[bgp.Family]bgp.BGPAddPathMode{fam: bgp.BGP_ADD_PATH_BOTH}}}
	}
	var asAttr bgp.PathAttributeInterface
	if n.as4 {
		asAttr = bgp.NewPathAttributeAsPath([]bgp.AsPathParamInterface{bgp.NewAs4PathParam(2, as)})
	} else {
		as16 := make([]uint16, len(as))
		for i, a := range as {
			as16[i] = uint16(a)
		}
		asAttr = bgp.NewPathAttributeAsPath([]bgp.AsPathParamInterface{bgp.NewAsPathParam(2, as16)})
	}
	as4Attr := bgp.NewPathAttributeAsPath([]bgp.AsPathParamInterface{bgp.NewAs4PathParam(2, as)})
	wire := []bgp.PathAttributeInterface{bgp.NewPathAttributeOrigin(0), asAttr}
	tbl := []bgp.PathAttributeInterface{bgp.NewPathAttributeOrigin(0), as4Attr}
	var upd *bgp.BGPMessage
	if six {
		var nh [16]byte
		binary.BigEndian.PutUint64(nh[:], 0x20010db8ffff0000)
		nh[15] = 1
		mp, _ := bgp.NewPathAttributeMpReachNLRI(fam, []bgp.PathNLRI{{NLRI: nlri, ID: pathID}}, netip.AddrFrom16(nh))
		wire, tbl = append(wire, mp), append(tbl, mp)
		upd = bgp.NewBGPUpdateMessage(nil, wire, nil)
	} else {
		nh, _ := bgp.NewPathAttributeNextHop(netip.AddrFrom4([4]byte{192, 0, 2, 1}))
		wire, tbl = append(wire, nh), append(tbl, nh)
		upd = bgp.NewBGPUpdateMessage(nil, wire, []bgp.PathNLRI{{NLRI: nlri, ID: pathID}})
	}
	payload, err := upd.Serialize(opts...)
	if err != nil {
		w.t.Fatal(err)
	}
	tp := table.NewPath(fam, n.info, bgp.PathNLRI{NLRI: nlri, ID: pathID}, false, tbl, time.Now(), false)
	ap := &apiutil.Path{Family: fam, Nlri: nlri, Age: time.Now().Unix(), Attrs: tbl, PeerASN: n.as, PeerID: n.id, PeerAddress: n.addr, RemoteID: pathID}
	w.note(n, pfx.String(), as)
	if n.ap {
		w.pathIDs[n.key()+" "+pfx.String()] = pathID
	}
	return tp, ap, as, upd, payload
}

func c19BmpWorldStart(t *testing.T, o *vOut, r *vRand, policy api.AddBmpRequest_MonitoringPolicy) *c19BmpWorld {
	w := &c19BmpWorld{t: t, o: o, r: r, policy: policy, sent: map[string]map[string]bool{}, locRib: map[string]map[string]bool{}, pathIDs: map[string]uint32{}}
	s := NewBgpServer()
	go s.Serve()
	if err := s.StartBgp(context.Background(), &api.StartBgpRequest{Global: &api.Global{Asn: 65001, RouterId: "1.1.1.1", ListenPort: -1}}); err != nil {
		t.Fatalf("StartBgp: %v", err)
	}
	w.s = s
	w.nbrs = []*c19Nbr{
		{name: "as2-only", addr: netip.MustParseAddr("10.0.0.2"), id: netip.MustParseAddr("2.2.2.2"), as: 65002},
		{name: "as4", addr: netip.MustParseAddr("10.0.0.3"), id: netip.MustParseAddr("3.3.3.3"), as: 4200000001, as4: true},
		{name: "as4-v6", addr: netip.MustParseAddr("2001:db8::3"), id: netip.MustParseAddr("4.4.4.4"), as: 65003, as4: true},
		{name: "as2-only-v6", addr: netip.MustParseAddr("2001:db8::4"), id: netip.MustParseAddr("5.5.5.5"), as: 65004},
		// the product with ADD-PATH receive: 2-octet-AS-only x ADD-PATH, 4-octet-AS x ADD-PATH
		{name: "as2-only-addpath", addr: netip.MustParseAddr("10.0.0.6"), id: netip.MustParseAddr("6.6.6.1"), as: 65006, ap: true},
		{name: "as4-addpath-v6", addr: netip.MustParseAddr("2001:db8::7"), id: netip.MustParseAddr("6.6.6.2"), as: 4200000007, as4: true, ap: true},
	}
	for _, n := range w.nbrs {
		if err := s.AddPeer(context.Background(), &api.AddPeerRequest{Peer: &api.Peer{
			Conf: &api.PeerConf{NeighborAddress: n.addr.String(), PeerAsn: n.as, AdminDown: true},
			AfiSafis: []*api.AfiSafi{
				{Config: &api.AfiSafiConfig{Family: &api.Family{Afi: api.Family_AFI_IP, Safi: api.Family_SAFI_UNICAST}, Enabled: true}, AddPaths: &api.AddPaths{Config: &api.AddPathsConfig{Receive: n.ap}}},
				{Config: &api.AfiSafiConfig{Family: &api.Family{Afi: api.Family_AFI_IP6, Safi: api.Family_SAFI_UNICAST}, Enabled: true}, AddPaths: &api.AddPaths{Config: &api.AddPathsConfig{Receive: n.ap}}},
			},
		}}); err != nil {
			t.Fatalf("AddPeer: %v", err)
		}
		n := n
		// the FSM goroutine of the (admin-down) neighbour must have entered its idle wait before the
		// state variable is overwritten below
		var started *peer
		_ = s.mgmtOperation(func() error { started = s.neighborMap[n.addr]; return nil }, false)
		if started == nil || !vAwaitFSMIdle(started) {
			t.Fatalf("the FSM goroutine of %s did not reach idle()", n.addr)
		}
		// what an ESTABLISHED session leaves behind
		if err := s.mgmtOperation(func() error {
			p := s.neighborMap[n.addr]
			n.p = p
			mode := bgp.BGP_ADD_PATH_NONE
			if n.ap {
				mode = bgp.BGP_ADD_PATH_RECEIVE
			}
			p.fsm.familyMap.Store(map[bgp.Family]bgp.BGPAddPathMode{bgp.RF_IPv4_UC: mode, bgp.RF_IPv6_UC: mode})
			caps := []bgp.ParameterCapabilityInterface{bgp.NewCapMultiProtocol(bgp.RF_IPv4_UC), bgp.NewCapMultiProtocol(bgp.RF_IPv6_UC)}
			if n.ap {
				caps = append(caps, bgp.NewCapAddPath([]*bgp.CapAddPathTuple{bgp.NewCapAddPathTuple(bgp.RF_IPv4_UC, bgp.BGP_ADD_PATH_SEND), bgp.NewCapAddPathTuple(bgp.RF_IPv6_UC, bgp.BGP_ADD_PATH_SEND)}))
			}
			myas := uint16(n.as)
			if n.as4 {
				caps = append(caps, bgp.NewCapFourOctetASNumber(n.as))
				if n.as > 65535 {
					myas = bgp.AS_TRANS
				}
			}
			open, _ := bgp.NewBGPOpenMessage(myas, 90, n.id, []bgp.OptionParameterInterface{bgp.NewOptionParameterCapability(caps)})
			p.fsm.lock.Lock()
			if n.as4 {
				p.fsm.capMap[bgp.BGP_CAP_FOUR_OCTET_AS_NUMBER] = []bgp.ParameterCapabilityInterface{bgp.NewCapFourOctetASNumber(n.as)}
			}
			p.fsm.recvOpen = open
			conf := p.fsm.pConf.ReadCopy()
			conf.State.RemoteRouterId = n.id
			conf.State.PeerAs = n.as
			local := netip.MustParseAddr("10.0.0.1")
			if n.addr.Is6() {
				local = netip.MustParseAddr("2001:db8::1")
			}
			conf.Transport.State.LocalAddress = local
			conf.Transport.Config.LocalAddress = local
			conf.Transport.State.LocalPort = 179
			conf.Transport.State.RemotePort = uint16(30000 + r.intn(30000))
			p.fsm.pConf.Update(&conf)
			p.fsm.lock.Unlock()
			n.info = table.NewPeerInfo(&s.bgpConfig.Global, &conf, n.as, 65001, n.id, netip.MustParseAddr("1.1.1.1"), n.addr, local)
			p.peerInfo.Store(n.info)
			p.fsm.state.Store(bgp.BGP_FSM_ESTABLISHED)
			return nil
		}, false); err != nil {
			t.Fatal(err)
		}
	}
	// what the neighbours have announced before the station connects: Adj-RIB-In (pre-policy
	// initial dump) and, through the API, the global table (post-policy dump, Loc-RIB)
	for _, n := range w.nbrs {
		for k := 1 + r.intn(2); k > 0; k-- {
			tp, ap, _, _, _ := w.route(n)
			_ = s.mgmtOperation(func() error { n.p.adjRibIn.Update([]*table.Path{tp}); return nil }, false)
			if _, err := s.AddPath(apiutil.AddPathRequest{Paths: []*apiutil.Path{ap}}); err != nil {
				t.Fatal(err)
			}
		}
	}
	w.localRoute()
	return w
}

func (w *c19BmpWorld) localRoute() {
	w.seq++
	pfx := netip.PrefixFrom(netip.AddrFrom4([4]byte{172, 16, byte(w.seq), 0}), 24)
	nlri, _ := bgp.NewIPAddrPrefix(pfx)
	nh, _ := bgp.NewPathAttributeNextHop(netip.AddrFrom4([4]byte{192, 0, 2, 9}))
	p := &apiutil.Path{Family: bgp.RF_IPv4_UC, Nlri: nlri, Age: time.Now().Unix(), Attrs: []bgp.PathAttributeInterface{bgp.NewPathAttributeOrigin(0), bgp.NewPathAttributeAsPath(nil), nh}}
	if _, err := w.s.AddPath(apiutil.AddPathRequest{Paths: []*apiutil.Path{p}}); err != nil {
		w.t.Fatal(err)
	}
	if w.locRib[pfx.String()] == nil {
		w.locRib[pfx.String()] = map[string]bool{}
	}
	w.locRib[pfx.String()][c19AsPathStr(nil)] = true
}

// live traffic: every neighbour sends an UPDATE (raw, as it encodes it), post-policy events and a
// Loc-RIB change follow
func (w *c19BmpWorld) traffic() {
	for _, n := range w.nbrs {
		tp, ap, _, upd, payload := w.route(n)
		_ = w.s.mgmtOperation(func() error { n.p.adjRibIn.Update([]*table.Path{tp}); return nil }, false)
		w.s.notifyPrePolicyUpdateWatcher(n.p, []*table.Path{tp}, upd, time.Now(), payload)
		w.s.notifyPostPolicyUpdateWatcher(n.p, []*table.Path{tp})
		if _, err := w.s.AddPath(apiutil.AddPathRequest{Paths: []*apiutil.Path{ap}}); err != nil {
			w.t.Fatal(err)
		}
	}
	w.localRoute()
}

// one transport session as the station sees it
type c19Session struct {
	w        *c19BmpWorld
	conn     net.Conn
	buf      []byte
	n        int
	peersUp  map[string]map[string]bool // per-peer-header key -> ADD-PATH families from its Peer Up
	// the post-policy view the station rebuilds from the Route Monitoring messages of this
	// session: neighbour key -> prefix -> AS_PATH
	postView map[string]map[string]string
	detail   func(extra map[string]any) map[string]any
	messages []string
}

func c19PHKey(ph *bmp.BMPPeerHeader) string {
	return fmt.Sprintf("%d/%d/%s/%d/%s", ph.PeerType, ph.PeerDistinguisher, ph.PeerAddress, ph.PeerAS, ph.PeerBGPID)
}

// reads until `max` messages were seen (max < 0: until the client has been quiet for 150 ms)
func (ss *c19Session) read(max int) bool {
	o := ss.w.o
	for max < 0 || ss.n < max {
		adv, tok, err := bmp.SplitBMP(ss.buf, false)
		if err != nil {
			o.fail("bmp-session-unparseable", ss.detail(map[string]any{"what": "SplitBMP: " + err.Error(), "octets": c19SrvHex(ss.buf[:min(len(ss.buf), 64)])}))
			return false
		}
		if tok == nil {
			_ = ss.conn.SetReadDeadline(time.Now().Add(150 * time.Millisecond))
			tmp := make([]byte, 65536)
			k, err := ss.conn.Read(tmp)
			ss.buf = append(ss.buf, tmp[:k]...)
			if err != nil {
				return k > 0 || false
			}
			continue
		}
		msg := append([]byte(nil), tok...)
		ss.buf = ss.buf[adv:]
		ss.n++
		ss.check(msg)
	}
	return true
}

func (ss *c19Session) check(raw []byte) {
	w, o := ss.w, ss.w.o
	fail := func(class string, extra map[string]any) {
		extra["message_number"] = ss.n
		extra["message"] = c19SrvHex(raw)
		o.fail(class, ss.detail(extra))
	}
	typ := raw[5]
	ss.messages = append(ss.messages, fmt.Sprint(typ))
	if ss.n == 1 && typ != bmp.BMP_MSG_INITIATION {
		fail("bmp-session-no-initiation", map[string]any{"first_type": typ})
	}
	if ss.n > 1 && typ == bmp.BMP_MSG_INITIATION {
		fail("bmp-session-second-initiation", map[string]any{})
	}
	o.stat(fmt.Sprintf("session_msg_type%d", typ), 1)
	if typ == bmp.BMP_MSG_INITIATION || typ == bmp.BMP_MSG_TERMINATION {
		if _, err := bmp.ParseBMPMessage(raw); err != nil {
			fail("bmp-session-unparseable", map[string]any{"what": err.Error()})
		}
		return
	}
	if len(raw) < bmp.BMP_HEADER_SIZE+bmp.BMP_PEER_HEADER_SIZE {
		fail("bmp-session-unparseable", map[string]any{"what": "no per-peer header"})
		return
	}
	ph := &bmp.BMPPeerHeader{}
	_ = ph.DecodeFromBytes(raw[bmp.BMP_HEADER_SIZE:])
	key := c19PHKey(ph)
	locRib := ph.PeerType == bmp.BMP_PEER_TYPE_LOCAL_RIB
	body := raw[bmp.BMP_HEADER_SIZE+bmp.BMP_PEER_HEADER_SIZE:]
	// per-peer header flags
	if !locRib {
		if v := ph.Flags&bmp.BMP_PEER_FLAG_IPV6 != 0; v != (ph.PeerAddress.Is6() && !ph.PeerAddress.Is4In6() || ss.peerIs6(ph)) {
			fail("bmp-session-flag-v", map[string]any{"flags": ph.Flags, "peer": ph.PeerAddress.String()})
		}
		if ph.Flags&bmp.BMP_PEER_FLAG_ADJ_RIB_TYP != 0 {
			fail("bmp-session-flag-o", map[string]any{"flags": ph.Flags})
		}
		post := w.policy == api.AddBmpRequest_MONITORING_POLICY_POST || w.policy == api.AddBmpRequest_MONITORING_POLICY_ALL
		pre := w.policy == api.AddBmpRequest_MONITORING_POLICY_PRE || w.policy == api.AddBmpRequest_MONITORING_POLICY_ALL || w.policy == api.AddBmpRequest_MONITORING_POLICY_UNSPECIFIED
		if l := ph.Flags&bmp.BMP_PEER_FLAG_POST_POLICY != 0; typ == bmp.BMP_MSG_ROUTE_MONITORING && (l && !post || !l && !pre) {
			fail("bmp-session-flag-l", map[string]any{"flags": ph.Flags, "policy": w.policy.String()})
		}
	}
	switch typ {
	case bmp.BMP_MSG_PEER_UP_NOTIFICATION:
		m, err := bmp.ParseBMPMessage(raw)
		if err != nil {
			fail("bmp-session-unparseable", map[string]any{"what": err.Error()})
			return
		}
		up := m.Body.(*bmp.BMPPeerUpNotification)
		ss.peersUp[key] = c19AddPathFromOpens(up.SentOpenMsg, up.ReceivedOpenMsg)
		o.stat("session_peer_up", 1)
	case bmp.BMP_MSG_PEER_DOWN_NOTIFICATION, bmp.BMP_MSG_STATISTICS_REPORT, bmp.BMP_MSG_ROUTE_MONITORING:
		ap, known := ss.peersUp[key]
		if !known {
			class := "bmp-session-no-peer-up"
			if !locRib && ph.PeerAS == 0 && ph.PeerAddress == netip.IPv4Unspecified() {
				// post-policy monitoring of locally originated routes: attributed to a peer
				// 0.0.0.0 / AS 0 that is never announced (known finding)
				class = "bmp-session-no-peer-up:local-origin"
			}
			fail(class, map[string]any{"peer": key, "message_type": typ, "peers_up_on_this_session": ss.upKeys()})
			return
		}
		if typ == bmp.BMP_MSG_PEER_DOWN_NOTIFICATION {
			delete(ss.peersUp, key)
			return
		}
		if typ != bmp.BMP_MSG_ROUTE_MONITORING {
			return
		}
		asSize := 4
		if ph.Flags&bmp.BMP_PEER_FLAG_TWO_AS != 0 {
			asSize = 2
		}
		routes, asPath, eor, err := c19DecodeUpdate(body, asSize, func(afi uint16, safi uint8) bool { return ap[fmt.Sprintf("%d/%d", afi, safi)] })
		if err != nil {
			fail("bmp-session-update-undecodable", map[string]any{"peer": key, "flags": ph.Flags, "as_size_from_A_flag": asSize, "add_path_from_peer_up": fmt.Sprint(ap), "error": err.Error()})
			return
		}
		if eor {
			o.stat("session_eor", 1)
			return
		}
		o.stat(fmt.Sprintf("session_rm_peertype%d_A%d_addpath%v", ph.PeerType, asSize, len(ap) > 0), 1)
		if !locRib && ph.Flags&bmp.BMP_PEER_FLAG_POST_POLICY != 0 {
			for _, n := range w.nbrs {
				if n.addr.WithZone("") == ph.PeerAddress && n.as == ph.PeerAS && n.id == ph.PeerBGPID {
					if ss.postView[n.key()] == nil {
						ss.postView[n.key()] = map[string]string{}
					}
					for _, rt := range routes {
						if rt.withdraw {
							delete(ss.postView[n.key()], rt.prefix)
						} else {
							ss.postView[n.key()][rt.prefix] = c19AsPathStr(asPath)
						}
					}
				}
			}
		}
		for _, rt := range routes {
			if rt.withdraw {
				continue
			}
			ok := false
			if locRib {
				ok = w.locRib[rt.prefix][c19AsPathStr(asPath)]
			} else {
				for _, n := range w.nbrs {
					if n.addr.WithZone("") == ph.PeerAddress && n.as == ph.PeerAS && n.id == ph.PeerBGPID {
						ok = w.sent[n.key()][rt.prefix+" "+c19AsPathStr(asPath)]
						if id, has := w.pathIDs[n.key()+" "+rt.prefix]; ok && has && id != rt.pathID {
							fail("bmp-session-path-id-differs", map[string]any{"peer": key, "prefix": rt.prefix, "sent_path_id": id, "decoded_path_id": rt.pathID})
						}
					}
				}
			}
			if !ok {
				fail("bmp-session-route-differs", map[string]any{"peer": key, "flags": ph.Flags, "as_size_from_A_flag": asSize, "decoded_prefix": rt.prefix, "decoded_as_path": c19AsPathStr(asPath)})
			}
		}
	}
}

func (ss *c19Session) peerIs6(ph *bmp.BMPPeerHeader) bool {
	for _, n := range ss.w.nbrs {
		if n.as == ph.PeerAS && n.id == ph.PeerBGPID {
			return n.addr.Is6()
		}
	}
	return false
}

func (ss *c19Session) upKeys() []string {
	var l []string
	for k := range ss.peersUp {
		l = append(l, k)
	}
	sort.Strings(l)
	return l
}

// several neighbours announce ONE prefix; then each of them, at every position of the ribout's
// cached list, withdraws it and announces the identical path again, one replaces it, all
// withdraw. After every step the station's post-policy view of that prefix must be the
// post-policy state the neighbours are in.
func (ss *c19Session) sharedPrefixHistory() {
	w := ss.w
	pfx := netip.MustParsePrefix("10.99.0.0/24")
	who := []*c19Nbr{w.nbrs[0], w.nbrs[1], w.nbrs[4]}
	truth := map[string]string{}
	cur := map[string]*table.Path{}
	var history []string
	step := func(what string, n *c19Nbr, p *table.Path) {
		history = append(history, what+" "+n.name)
		if p.IsWithdraw {
			delete(truth, n.key())
		} else {
			truth[n.key()] = c19AsPathStr(p.GetAsList())
		}
		w.s.notifyPostPolicyUpdateWatcher(n.p, []*table.Path{p})
		ss.read(-1)
		for _, m := range who {
			got, has := ss.postView[m.key()][pfx.String()]
			want, should := truth[m.key()]
			if has != should || got != want {
				w.o.fail("bmp-session-view-differs", ss.detail(map[string]any{"where": "post-policy view of " + pfx.String(), "history": history, "neighbour": m.name,
					"monitored_rib": map[bool]string{true: want, false: "-"}[should], "station_view": map[bool]string{true: got, false: "-"}[has]}))
				return
			}
		}
		w.o.stat("session_view_steps", 1)
	}
	announce := func(n *c19Nbr, fresh bool) {
		if fresh || cur[n.key()] == nil {
			w.forcePrefix = &pfx
			tp, _, _, _, _ := w.route(n)
			w.forcePrefix = nil
			cur[n.key()] = tp
		}
		step(map[bool]string{true: "announce", false: "re-announce-identical"}[fresh], n, cur[n.key()])
	}
	withdraw := func(n *c19Nbr) { step("withdraw", n, cur[n.key()].Clone(true)) }
	for _, n := range who {
		announce(n, true)
	}
	for _, i := range []int{1, 2, 0, 1} { // middle, last, first, middle again (now last) of the cached list
		withdraw(who[i])
		announce(who[i], false)
	}
	announce(who[1], true) // replace
	withdraw(who[2])
	withdraw(who[0])
	announce(who[0], false)
	announce(who[2], false)
	for _, n := range who {
		withdraw(n)
	}
	announce(who[2], false)
}

func c19BmpScenario(t *testing.T, o *vOut, r *vRand, policy api.AddBmpRequest_MonitoringPolicy, drops []int) {
	w := c19BmpWorldStart(t, o, r, policy)
	defer w.s.StopBgp(context.Background(), &api.StopBgpRequest{})
	ln, err := net.Listen("tcp", "127.0.0.1:0")
	if err != nil {
		t.Fatalf("listen: %v", err)
	}
	defer ln.Close()
	port := ln.Addr().(*net.TCPAddr).Port
	if err := w.s.AddBmp(context.Background(), &api.AddBmpRequest{Address: "127.0.0.1", Port: uint32(port), Policy: policy}); err != nil {
		t.Fatalf("AddBmp: %v", err)
	}
	accept := func(d time.Duration) net.Conn {
		_ = ln.(*net.TCPListener).SetDeadline(time.Now().Add(d))
		c, err := ln.Accept()
		if err != nil {
			return nil
		}
		return c
	}
	for si := 0; si <= len(drops); si++ {
		var conn net.Conn
		if si == 0 {
			conn = accept(10 * time.Second)
		} else {
			// the client notices the dead connection on its next writes and reconnects
			for i := 0; i < 60 && conn == nil; i++ {
				w.traffic()
				conn = accept(150 * time.Millisecond)
			}
		}
		if conn == nil {
			if policy == api.AddBmpRequest_MONITORING_POLICY_BOTH {
				// the obsolete "both" policy watches peers only: nothing is written, so the dead
				// connection goes unnoticed until a peer changes state
				o.stat("both_policy_no_traffic_no_reconnect", 1)
				return
			}
			o.fail("bmp-session-no-reconnect", map[string]any{"policy": policy.String(), "session": si})
			return
		}
		ss := &c19Session{w: w, conn: conn, peersUp: map[string]map[string]bool{}, postView: map[string]map[string]string{}}
		ss.detail = func(extra map[string]any) map[string]any {
			extra["policy"] = policy.String()
			extra["transport_session"] = si + 1
			extra["dropped_after"] = fmt.Sprint(drops)
			extra["message_types_so_far"] = strings.Join(ss.messages, " ")
			return extra
		}
		o.stat("sessions_"+policy.String(), 1)
		if si < len(drops) {
			ss.read(drops[si]) // the station goes away after that many messages
			conn.Close()
			continue
		}
		ss.read(-1) // initial state of the last session
		if len(drops) == 0 && (policy == api.AddBmpRequest_MONITORING_POLICY_POST || policy == api.AddBmpRequest_MONITORING_POLICY_ALL) {
			ss.sharedPrefixHistory()
		}
		w.traffic()
		ss.read(-1)
		w.traffic()
		ss.read(-1)
		_ = w.s.DeleteBmp(context.Background(), &api.DeleteBmpRequest{Address: "127.0.0.1", Port: uint32(port)})
		ss.read(-1)
		conn.Close()
		if ss.n < 2 {
			o.fail("bmp-session-silent", ss.detail(map[string]any{"messages": ss.n}))
		}
	}
}

func TestVerifC19Bmp(t *testing.T) {
	o := vOpen(t)
	defer o.close()
	r := &vRand{s: o.seed*7919 + 197}
	o.sample("bmp sessions: real bmpClient against a scripted station over consecutive transport sessions, every route-monitoring policy")
	policies := []api.AddBmpRequest_MonitoringPolicy{api.AddBmpRequest_MONITORING_POLICY_PRE, api.AddBmpRequest_MONITORING_POLICY_POST,
		api.AddBmpRequest_MONITORING_POLICY_BOTH, api.AddBmpRequest_MONITORING_POLICY_LOCAL, api.AddBmpRequest_MONITORING_POLICY_ALL}
	for _, p := range policies {
		// no drop; one drop late; two drops at varying early points
		c19BmpScenario(t, o, r, p, nil)
		c19BmpScenario(t, o, r, p, []int{-1})
		c19BmpScenario(t, o, r, p, []int{1 + r.intn(3), 2 + r.intn(12)})
		if o.thorough {
			for k := 0; k < 4; k++ {
				c19BmpScenario(t, o, r, p, []int{r.intn(20), r.intn(6), -1})
			}
		}
	}
}
