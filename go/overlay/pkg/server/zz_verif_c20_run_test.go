//go:build verif

package server

// C20, the part proof cannot express — EXPLORATION, not proof: a running BgpServer with several
// AdminDown peers driven white-box from many goroutines (handleFSMMessage with UPDATEs and state
// flaps, AddPath/DeletePath, AddPeer/DeletePeer/UpdatePeer, policy changes, soft resets, ListPath,
// ListPeer, WatchEvent, VRFs) under several GOMAXPROCS settings, built with -race.
//   * every call runs under a 20 s watchdog: a call that does not return ⇒ r.fail("api-call-hang", dump)
//   * goroutine count before the server is created vs. after s.Stop(): a surplus ⇒ r.fail("goroutine-leak")
//   * a panic in a worker ⇒ o.fail("panic", …);  a data race makes `go test -race` exit non-zero, which
//     ./check reports as a broken tie.
// No answers are compared with the Lean model here (the harness has no "driver").

import (
	"context"
	"encoding/json"
	"fmt"
	"io"
	"log/slog"
	"net"
	"net/netip"
	"os"
	"os/exec"
	"path/filepath"
	"regexp"
	"runtime"
	"sort"
	"strconv"
	"strings"
	"sync"
	"sync/atomic"
	"testing"
	"time"

	"github.com/osrg/gobgp/v4/api"
	"github.com/osrg/gobgp/v4/internal/pkg/table"
	"github.com/osrg/gobgp/v4/pkg/apiutil"
	"github.com/osrg/gobgp/v4/pkg/config/oc"
	"github.com/osrg/gobgp/v4/pkg/packet/bgp"
)

type c20Run struct {
	hotHits  atomic.Int64
	maxDests atomic.Int64
	o        *vOut
	wedged   atomic.Bool
	calls    atomic.Int64
	mu       sync.Mutex
	perKind  map[string]int
}

// fail is o.fail made safe for concurrent workers
func (r *c20Run) fail(class string, detail any) {
	r.mu.Lock()
	defer r.mu.Unlock()
	r.o.fail(class, detail)
}

func c20Trunc(s string, n int) string {
	if len(s) > n {
		return s[:n]
	}
	return s
}

func c20Dump() string {
	buf := make([]byte, 1<<20)
	n := runtime.Stack(buf, true)
	return string(buf[:n])
}

// c20Goroutines returns the stacks of the goroutines that are not part of the test runtime
func c20Goroutines() []string {
	var out []string
	for _, g := range strings.Split(c20Dump(), "\n\n") {
		if strings.Contains(g, "testing.(*T).Run") || strings.Contains(g, "testing.tRunner") ||
			strings.Contains(g, "testing.(*M).") || strings.Contains(g, "runtime.goexit0") ||
			strings.Contains(g, "signal.signal_recv") || strings.Contains(g, "runtime.ReadTrace") ||
			strings.Contains(g, "c20Goroutines") || strings.TrimSpace(g) == "" {
			continue
		}
		out = append(out, g)
	}
	return out
}

var c20AddrRe = regexp.MustCompile(`0x[0-9a-f]+|goroutine \d+|\+0x[0-9a-f]+|\d+ minutes`)

// do runs f under the watchdog
func (r *c20Run) do(kind string, f func() error) {
	if r.wedged.Load() {
		return
	}
	done := make(chan struct{})
	var perr any
	go func() {
		defer func() {
			if e := recover(); e != nil {
				perr = e
			}
			close(done)
		}()
		_ = f()
	}()
	select {
	case <-done:
		if perr != nil {
			r.fail("panic", map[string]any{"call": kind, "panic": fmt.Sprint(perr)})
		}
	case <-time.After(20 * time.Second):
		if !r.wedged.Swap(true) {
			d := c20Dump()
			if len(d) > 20000 {
				d = d[:20000]
			}
			r.fail("api-call-hang", map[string]any{"call": kind, "goroutines": d})
		}
	}
	r.calls.Add(1)
	r.mu.Lock()
	r.perKind[kind]++
	r.mu.Unlock()
}

func c20Family() *api.Family {
	return &api.Family{Afi: api.Family_AFI_IP, Safi: api.Family_SAFI_UNICAST}
}

func c20PeerReq(addr netip.Addr, as uint32, rsClient bool) *api.AddPeerRequest {
	return &api.AddPeerRequest{Peer: &api.Peer{
		Conf:        &api.PeerConf{NeighborAddress: addr.String(), PeerAsn: as, AdminDown: true},
		RouteServer: &api.RouteServer{RouteServerClient: rsClient},
		AfiSafis: []*api.AfiSafi{{
			Config:       &api.AfiSafiConfig{Family: c20Family(), Enabled: true},
			PrefixLimits: &api.PrefixLimit{MaxPrefixes: 100000, ShutdownThresholdPct: 80},
		}},
	}}
}

var c20HotPrefix = netip.MustParsePrefix("10.99.0.0/24")

func c20Update(rng *vRand, as uint32, nh netip.Addr) *bgp.BGPMessage {
	mk := func() bgp.PathNLRI {
		p := netip.PrefixFrom(netip.AddrFrom4([4]byte{10, byte(20 + rng.intn(4)), byte(rng.intn(8)), 0}), 24)
		if rng.chance(35) {
			p = c20HotPrefix // every peer keeps announcing / withdrawing ONE prefix: writers and readers meet on it
		}
		n, _ := bgp.NewIPAddrPrefix(p)
		return bgp.PathNLRI{NLRI: n}
	}
	if rng.chance(35) {
		return bgp.NewBGPUpdateMessage([]bgp.PathNLRI{mk(), mk()}, nil, nil)
	}
	panh, _ := bgp.NewPathAttributeNextHop(nh)
	attrs := []bgp.PathAttributeInterface{
		bgp.NewPathAttributeOrigin(0),
		bgp.NewPathAttributeAsPath([]bgp.AsPathParamInterface{bgp.NewAs4PathParam(bgp.BGP_ASPATH_ATTR_TYPE_SEQ, []uint32{as, uint32(100 + rng.intn(5))})}),
		panh,
	}
	return bgp.NewBGPUpdateMessage(nil, attrs, []bgp.PathNLRI{mk(), mk(), mk()})
}

// c20SessionUp makes an AdminDown peer look established to the server core (white-box, no socket)
func c20SessionUp(s *BgpServer, p *peer) {
	p.fsm.lock.Lock()
	conf := p.fsm.pConf.ReadCopy()
	conf.Timers.State.Uptime = time.Now().Add(-time.Minute).Unix()
	conf.State.RemoteRouterId = conf.State.NeighborAddress
	conf.Transport.State.RemoteAddress = conf.State.NeighborAddress
	conf.Transport.State.LocalAddress = netip.MustParseAddr("1.1.1.1")
	p.fsm.pConf.Update(&conf)
	if p.fsm.recvOpen == nil {
		p.fsm.recvOpen, _ = bgp.NewBGPOpenMessage(uint16(conf.Config.PeerAs), 90, conf.State.NeighborAddress, nil)
	}
	p.fsm.capMap = map[bgp.BGPCapabilityCode][]bgp.ParameterCapabilityInterface{bgp.BGP_CAP_ROUTE_REFRESH: {bgp.NewCapRouteRefresh()}}
	p.fsm.lock.Unlock()
	mode := bgp.BGP_ADD_PATH_NONE
	if len(conf.AfiSafis) > 0 && conf.AfiSafis[0].AddPaths.Config.SendMax > 0 {
		mode = bgp.BGP_ADD_PATH_SEND
	}
	p.fsm.familyMap.Store(map[bgp.Family]bgp.BGPAddPathMode{bgp.RF_IPv4_UC: mode})
	s.handleFSMMessage(p, &fsmMsg{MsgType: fsmMsgStateChange, MsgData: bgp.BGP_FSM_ESTABLISHED,
		StateReason: newfsmStateReason(fsmOpenMsgNegotiated, nil, nil), timestamp: time.Now()})
	p.fsm.state.Store(bgp.BGP_FSM_ESTABLISHED)
}

func c20SessionDown(s *BgpServer, p *peer, reason fsmStateReasonType) {
	var notif *bgp.BGPMessage
	if reason == fsmNotificationRecv || reason == fsmNotificationSent {
		notif = bgp.NewBGPNotificationMessage(bgp.BGP_ERROR_CEASE, bgp.BGP_ERROR_SUB_PEER_DECONFIGURED, nil)
	}
	s.handleFSMMessage(p, &fsmMsg{MsgType: fsmMsgStateChange, MsgData: bgp.BGP_FSM_IDLE,
		StateReason: newfsmStateReason(reason, notif, nil), timestamp: time.Now()})
}

func (r *c20Run) scenario(procs int, dur time.Duration, seed uint64) {
	o := r.o
	prev := runtime.GOMAXPROCS(procs)
	defer runtime.GOMAXPROCS(prev)
	time.Sleep(100 * time.Millisecond)
	before := c20Goroutines()

	ctx := context.Background()
	s := NewBgpServer()
	go s.Serve()
	r.do("StartBgp", func() error {
		return s.StartBgp(ctx, &api.StartBgpRequest{Global: &api.Global{Asn: 65001, RouterId: "1.1.1.1", ListenPort: -1}})
	})
	const nPeers = 6
	peers := make([]*peer, nPeers)
	addrs := make([]netip.Addr, nPeers)
	for i := 0; i < nPeers; i++ {
		addrs[i] = netip.AddrFrom4([4]byte{10, 0, 0, byte(i + 1)})
		as := uint32(65002 + i)
		if i < 2 {
			as = 65001 // two iBGP peers
		}
		req := c20PeerReq(addrs[i], as, false)
		if i >= 4 { // two peers negotiate ADD-PATH send (send-max 2): withdrawals go through promoteSendMaxFiltered
			req.Peer.AfiSafis[0].AddPaths = &api.AddPaths{Config: &api.AddPathsConfig{SendMax: 2}}
		}
		r.do("AddPeer", func() error { return s.AddPeer(ctx, req) })
		i := i
		r.do("lookup", func() error {
			return s.mgmtOperation(func() error { peers[i] = s.neighborMap[addrs[i]]; return nil }, true)
		})
		if peers[i] == nil {
			r.fail("setup-failed", fmt.Sprintf("peer %d not created", i))
			return
		}
		// c20SessionUp overwrites fsm.state: only after the peer's real FSM goroutine has read it
		if !vAwaitFSMIdle(peers[i]) {
			r.fail("setup-failed", fmt.Sprintf("the FSM goroutine of peer %d did not reach idle() within 60 s", i))
			return
		}
	}
	for _, p := range peers {
		p := p
		r.do("session-up", func() error { c20SessionUp(s, p); return nil })
	}

	stop := make(chan struct{})
	var wg sync.WaitGroup
	worker := func(id int, body func(rng *vRand)) {
		wg.Add(1)
		go func() {
			defer wg.Done()
			rng := &vRand{s: seed*1000003 + uint64(id)*7919 + uint64(procs)}
			for {
				select {
				case <-stop:
					return
				default:
				}
				if r.wedged.Load() {
					return
				}
				body(rng)
			}
		}()
	}
	// FSM-side traffic: one goroutine per peer, UPDATEs / route refresh / flaps
	for i, p := range peers {
		i, p := i, p
		worker(i, func(rng *vRand) {
			switch {
			case rng.chance(88):
				as := p.AS()
				m := c20Update(rng, as, addrs[i])
				r.do("fsm-update", func() error {
					s.handleFSMMessage(p, &fsmMsg{MsgType: fsmMsgBGPMessage, MsgData: m, timestamp: time.Now()})
					return nil
				})
			case rng.chance(50):
				m := bgp.NewBGPRouteRefreshMessage(bgp.AFI_IP, 0, bgp.SAFI_UNICAST)
				r.do("fsm-route-refresh", func() error {
					s.handleFSMMessage(p, &fsmMsg{MsgType: fsmMsgBGPMessage, MsgData: m, timestamp: time.Now()})
					return nil
				})
			default:
				reason := fsmHoldTimerExpired
				if rng.chance(30) {
					reason = fsmNotificationRecv
				}
				r.do("fsm-flap", func() error {
					c20SessionDown(s, p, reason)
					p.fsm.state.Store(bgp.BGP_FSM_IDLE)
					c20SessionUp(s, p)
					return nil
				})
			}
		})
	}
	// management side
	localPath := func(rng *vRand, withdraw bool) *apiutil.Path {
		n, _ := bgp.NewIPAddrPrefix(netip.PrefixFrom(netip.AddrFrom4([4]byte{10, byte(20 + rng.intn(4)), byte(rng.intn(8)), 0}), 24))
		panh, _ := bgp.NewPathAttributeNextHop(netip.MustParseAddr("1.1.1.1"))
		return &apiutil.Path{Family: bgp.RF_IPv4_UC, Nlri: n, Withdrawal: withdraw,
			Attrs: []bgp.PathAttributeInterface{bgp.NewPathAttributeOrigin(0), panh}}
	}
	worker(100, func(rng *vRand) {
		if rng.chance(60) {
			lp := localPath(rng, false)
			r.do("AddPath", func() error {
				_, err := s.AddPath(apiutil.AddPathRequest{Paths: []*apiutil.Path{lp}})
				return err
			})
		} else {
			lp := localPath(rng, true)
			r.do("DeletePath", func() error {
				return s.DeletePath(apiutil.DeletePathRequest{Paths: []*apiutil.Path{lp}})
			})
		}
	})
	worker(101, func(rng *vRand) {
		tt := []api.TableType{api.TableType_TABLE_TYPE_GLOBAL, api.TableType_TABLE_TYPE_ADJ_IN, api.TableType_TABLE_TYPE_ADJ_OUT}[rng.intn(3)]
		name := ""
		if tt != api.TableType_TABLE_TYPE_GLOBAL {
			name = addrs[rng.intn(nPeers)].String()
		}
		filtered := rng.chance(30)
		r.do("ListPath", func() error {
			return s.ListPath(apiutil.ListPathRequest{TableType: tt, Name: name, Family: bgp.RF_IPv4_UC, EnableFiltered: filtered},
				func(bgp.NLRI, []*apiutil.Path) {})
		})
		r.do("ListPeer", func() error { return s.ListPeer(ctx, &api.ListPeerRequest{EnableAdvertised: true}, func(*api.Peer) {}) })
		time.Sleep(time.Millisecond)
	})
	worker(102, func(rng *vRand) {
		addr := addrs[rng.intn(nPeers)].String()
		dir := []api.ResetPeerRequest_Direction{api.ResetPeerRequest_DIRECTION_IN, api.ResetPeerRequest_DIRECTION_OUT, api.ResetPeerRequest_DIRECTION_BOTH}[rng.intn(3)]
		r.do("ResetPeer-soft", func() error {
			return s.ResetPeer(ctx, &api.ResetPeerRequest{Address: addr, Direction: dir, Soft: true})
		})
		time.Sleep(time.Millisecond)
	})
	worker(103, func(rng *vRand) {
		// policy churn: a prefix set + a reject statement assigned to import / export, then removed
		name := fmt.Sprintf("ps%d", rng.intn(3))
		r.do("AddDefinedSet", func() error {
			return s.AddDefinedSet(ctx, &api.AddDefinedSetRequest{DefinedSet: &api.DefinedSet{DefinedType: api.DefinedType_DEFINED_TYPE_PREFIX, Name: name,
				Prefixes: []*api.Prefix{{IpPrefix: "10.20.0.0/16", MaskLengthMin: 24, MaskLengthMax: 24}}}})
		})
		pol := &api.Policy{Name: "pol" + name, Statements: []*api.Statement{{Name: "st" + name,
			Conditions: &api.Conditions{PrefixSet: &api.MatchSet{Name: name}},
			Actions:    &api.Actions{RouteAction: api.RouteAction_ROUTE_ACTION_REJECT}}}}
		r.do("AddPolicy", func() error { return s.AddPolicy(ctx, &api.AddPolicyRequest{Policy: pol}) })
		dir := api.PolicyDirection_POLICY_DIRECTION_IMPORT
		if rng.chance(50) {
			dir = api.PolicyDirection_POLICY_DIRECTION_EXPORT
		}
		r.do("SetPolicyAssignment", func() error {
			return s.SetPolicyAssignment(ctx, &api.SetPolicyAssignmentRequest{Assignment: &api.PolicyAssignment{
				Name: table.GLOBAL_RIB_NAME, Direction: dir, Policies: []*api.Policy{{Name: "pol" + name}}, DefaultAction: api.RouteAction_ROUTE_ACTION_ACCEPT}})
		})
		time.Sleep(2 * time.Millisecond)
		r.do("SetPolicyAssignment-clear", func() error {
			return s.SetPolicyAssignment(ctx, &api.SetPolicyAssignmentRequest{Assignment: &api.PolicyAssignment{
				Name: table.GLOBAL_RIB_NAME, Direction: dir, DefaultAction: api.RouteAction_ROUTE_ACTION_ACCEPT}})
		})
		r.do("DeletePolicy", func() error {
			return s.DeletePolicy(ctx, &api.DeletePolicyRequest{Policy: pol, PreserveStatements: false, All: true})
		})
		r.do("DeleteDefinedSet", func() error {
			return s.DeleteDefinedSet(ctx, &api.DeleteDefinedSetRequest{DefinedSet: &api.DefinedSet{DefinedType: api.DefinedType_DEFINED_TYPE_PREFIX, Name: name}, All: true})
		})
	})
	worker(104, func(rng *vRand) {
		// extra peers come and go; existing peers get updated
		a := netip.AddrFrom4([4]byte{10, 0, 1, byte(1 + rng.intn(3))})
		req := c20PeerReq(a, 65100, rng.chance(30))
		r.do("AddPeer", func() error { return s.AddPeer(ctx, req) })
		if rng.chance(50) {
			up := c20PeerReq(a, 65100, false)
			up.Peer.Conf.Description = fmt.Sprint("d", rng.intn(9))
			up.Peer.Timers = &api.Timers{Config: &api.TimersConfig{HoldTime: uint64(30 + rng.intn(60)), KeepaliveInterval: 10}}
			r.do("UpdatePeer", func() error { _, err := s.UpdatePeer(ctx, &api.UpdatePeerRequest{Peer: up.Peer}); return err })
		}
		time.Sleep(time.Millisecond)
		r.do("DeletePeer", func() error { return s.DeletePeer(ctx, &api.DeletePeerRequest{Address: a.String()}) })
	})
	worker(105, func(rng *vRand) {
		wctx, cancel := context.WithCancel(ctx)
		var n atomic.Int64
		r.do("WatchEvent", func() error {
			return s.WatchEvent(wctx, WatchEventMessageCallbacks{
				OnPathUpdate: func([]*apiutil.Path, time.Time) { n.Add(1) },
				OnBestPath:   func([]*apiutil.Path, time.Time) { n.Add(1) },
				OnPeerUpdate: func(*apiutil.WatchEventMessage_PeerEvent, time.Time) { n.Add(1) },
			}, WatchBestPath(rng.chance(50)), WatchPostUpdate(rng.chance(50), "", ""), WatchPeer())
		})
		time.Sleep(time.Duration(1+rng.intn(20)) * time.Millisecond)
		cancel()
	})
	worker(106, func(rng *vRand) {
		name := fmt.Sprintf("vrf%d", rng.intn(2))
		rd, _ := bgp.ParseRouteDistinguisher(fmt.Sprintf("65001:%d", 100+rng.intn(2)))
		rdm, _ := apiutil.MarshalRD(rd)
		rt, _ := apiutil.MarshalRTs([]bgp.ExtendedCommunityInterface{bgp.NewTwoOctetAsSpecificExtended(bgp.EC_SUBTYPE_ROUTE_TARGET, 65001, uint32(100+rng.intn(2)), true)})
		r.do("AddVrf", func() error {
			return s.AddVrf(ctx, &api.AddVrfRequest{Vrf: &api.Vrf{Name: name, Rd: rdm, ImportRt: rt, ExportRt: rt, Id: uint32(1 + rng.intn(2))}})
		})
		time.Sleep(2 * time.Millisecond)
		r.do("DeleteVrf", func() error { return s.DeleteVrf(ctx, &api.DeleteVrfRequest{Name: name}) })
	})

	// readers of table state handed out of the shard locks, exactly as the callers in pkg/server use it
	// (filterpath / rtcVPNCandidates / propagateUpdateToNeighbors / ListPath / MRT dump): no lock held
	// while the result is read, writers (the FSM workers above) keep updating the same prefixes.
	for id := 107; id <= 108; id++ {
		worker(id, func(rng *vRand) {
			touch := func(l []*table.Path) int {
				n := 0
				for _, p := range l {
					if p != nil && !p.IsWithdraw {
						n++
					}
				}
				return n
			}
			r.do("table-readers", func() error {
				n, _ := bgp.NewIPAddrPrefix(c20HotPrefix)
				hot := table.NewPath(bgp.RF_IPv4_UC, nil, bgp.PathNLRI{NLRI: n}, true, nil, time.Now(), false) // lookup key only
				for i := 0; i < 20; i++ {
					if d := s.globalRib.GetDestination(hot); d != nil {
						r.hotHits.Add(1)
						touch(d.GetKnownPathList(table.GLOBAL_RIB_NAME, 0))
						_ = d.GetBestPath(table.GLOBAL_RIB_NAME, 0)
						touch(d.GetAllKnownPathList())
						touch(d.GetMultiBestPath(table.GLOBAL_RIB_NAME))
					}
				}
				if tbl, ok := s.globalRib.GetTable(bgp.RF_IPv4_UC); ok {
					if nd := int64(len(tbl.GetDestinations())); nd > r.maxDests.Load() {
						r.maxDests.Store(nd)
					}
					for _, d := range tbl.GetDestinations() {
						touch(d.GetAllKnownPathList())
					}
					if ds, err := tbl.GetLongerPrefixDestinations("10.99.0.0/16"); err == nil {
						for _, d := range ds {
							touch(d.GetKnownPathList(table.GLOBAL_RIB_NAME, 0))
						}
					}
					if d := tbl.SelectDestination(n, table.DestinationSelectOption{ID: table.GLOBAL_RIB_NAME}); d != nil {
						touch(d.GetAllKnownPathList())
					}
				}
				for _, l := range s.globalRib.GetBestMultiPathList(table.GLOBAL_RIB_NAME, []bgp.Family{bgp.RF_IPv4_UC}) {
					touch(l)
				}
				touch(s.globalRib.GetPathList(table.GLOBAL_RIB_NAME, 0, []bgp.Family{bgp.RF_IPv4_UC}))
				touch(s.globalRib.GetBestPathList(table.GLOBAL_RIB_NAME, 0, []bgp.Family{bgp.RF_IPv4_UC}))
				return nil
			})
			time.Sleep(time.Millisecond)
		})
	}

	time.Sleep(dur)
	close(stop)
	wgDone := make(chan struct{})
	go func() { wg.Wait(); close(wgDone) }()
	select {
	case <-wgDone:
	case <-time.After(40 * time.Second):
		if !r.wedged.Swap(true) {
			r.fail("api-call-hang", map[string]any{"call": "workers did not finish", "goroutines": c20Trunc(c20Dump(), 20000)})
		}
	}
	if r.wedged.Load() {
		return
	}
	// quiescence: one more management round-trip must still work
	r.do("final-ListPeer", func() error { return s.ListPeer(ctx, &api.ListPeerRequest{}, func(*api.Peer) {}) })
	r.do("Stop", func() error { s.Stop(); return nil })
	if r.wedged.Load() {
		return
	}
	// goroutine accounting
	var after []string
	for i := 0; i < 100; i++ {
		after = c20Goroutines()
		if len(after) <= len(before) {
			break
		}
		time.Sleep(100 * time.Millisecond)
	}
	if len(after) > len(before) {
		seen := map[string]int{}
		for _, g := range before {
			seen[c20AddrRe.ReplaceAllString(g, "")]--
		}
		var extra []string
		for _, g := range after {
			k := c20AddrRe.ReplaceAllString(g, "")
			seen[k]++
			if seen[k] > 0 {
				if len(g) > 1500 {
					g = g[:1500]
				}
				extra = append(extra, g)
			}
		}
		sort.Strings(extra)
		if len(extra) > 6 {
			extra = extra[:6]
		}
		r.fail("goroutine-leak", map[string]any{"gomaxprocs": procs, "before": len(before), "after": len(after), "surplus_stacks": extra})
	}
	o.stat(fmt.Sprintf("gomaxprocs_%d_goroutines_before", procs), len(before))
	o.stat(fmt.Sprintf("gomaxprocs_%d_goroutines_after_stop", procs), len(after))
}

// TestVerifC20Run is the parent: it runs every scenario in a CHILD process (the same -race test binary,
// -test.run ^TestVerifC20RunChild$) so that a data race, a crash or a runtime "all goroutines asleep"
// becomes a classified oracle failure with a stable signature instead of a bare non-zero exit.
func TestVerifC20Run(t *testing.T) {
	o := vOpen(t)
	defer o.close()
	r := &c20Run{o: o, perKind: map[string]int{}}
	o.sample("C20 run harness: exploration (no model answers), scenarios run in -race child processes")
	dur := 4 * time.Second
	procs := []int{1, 4}
	if o.thorough {
		dur = 20 * time.Second
		procs = []int{1, 2, 4, 8}
	}
	c20TmRecursive(r)
	total := 0
	procs = append([]int{0, -1}, procs...) // 0 = deterministic hand-off scenarios, -1 = stop matrix (own child processes)
	type job struct{ p, from int }
	jobs := []job{}
	for _, p := range procs {
		jobs = append(jobs, job{p, 0})
	}
	restarts := 0
	for ji := 0; ji < len(jobs); ji++ {
		p, from := jobs[ji].p, jobs[ji].from
		if r.wedged.Load() {
			break
		}
		dir := filepath.Join(o.dir, fmt.Sprintf("child_%d_%d", p, from))
		cmd := exec.Command(os.Args[0], "-test.run", "^TestVerifC20RunChild$", "-test.timeout", "20m", "-test.count", "1")
		cmd.Env = append(os.Environ(), "VERIF_OUT="+dir, fmt.Sprintf("C20_PROCS=%d", p), "C20_DUR="+dur.String(),
			fmt.Sprintf("C20_STOP_FROM=%d", from), "GORACE=halt_on_error=0")
		out, err := cmd.CombinedOutput()
		os.WriteFile(filepath.Join(o.dir, fmt.Sprintf("child_%d_%d.log", p, from)), out, 0o644)
		// 1. the child's own oracle failures and counters
		if b, e := os.ReadFile(filepath.Join(dir, "oracle.jsonl")); e == nil {
			for _, line := range strings.Split(string(b), "\n") {
				var f struct {
					Class  string `json:"class"`
					Detail any    `json:"detail"`
				}
				if json.Unmarshal([]byte(line), &f) == nil && f.Class != "" {
					o.fail(f.Class, f.Detail)
				}
			}
		}
		if b, e := os.ReadFile(filepath.Join(dir, "stats.json")); e == nil {
			var st struct {
				Stats map[string]int `json:"stats"`
			}
			if json.Unmarshal(b, &st) == nil {
				for k, v := range st.Stats {
					o.stat(k, v)
					if k == "calls_total" {
						total += v
					}
				}
			}
		}
		// 2. data races reported by the runtime, by signature
		races := c20Races(string(out))
		for sig, rep := range races {
			o.fail("data-race:"+sig, map[string]any{"gomaxprocs": p, "seed": o.seed, "report": rep})
		}
		o.stat("data_race_reports", len(races))
		// 3. anything else that made the child fail: crash (panic in a server goroutine), runtime deadlock, timeout
		if err != nil && len(races) == 0 {
			txt := string(out)
			class := "child-failed"
			if i := strings.Index(txt, "panic: "); i >= 0 {
				class = "crash:" + strings.SplitN(txt[i:], "\n", 2)[0]
			} else if strings.Contains(txt, "all goroutines are asleep") {
				class = "runtime-deadlock"
			}
			if len(txt) > 8000 {
				txt = txt[len(txt)-8000:]
			}
			running := ""
			if i := strings.LastIndex(string(out), "C20-STOP-CASE "); i >= 0 {
				running = strings.SplitN(string(out)[i+len("C20-STOP-CASE "):], "\n", 2)[0]
				// the stop matrix goes on after the case that killed the child
				if f := strings.Fields(running); len(f) == 2 && restarts < 8 {
					if n, e := strconv.Atoi(f[0]); e == nil {
						restarts++
						jobs = append(jobs, job{p, n + 1})
					}
				}
			}
			o.fail(class, map[string]any{"gomaxprocs": p, "seed": o.seed, "stop_matrix_case_running": running, "output_tail": txt})
		}
	}
	o.sample(fmt.Sprintf("exploration only: %d calls over GOMAXPROCS %v, %s each, -race; no model answers compared", total, procs, dur))
}

var c20RaceAccess = regexp.MustCompile(`(?m)^(?:Read|Write|Previous read|Previous write) at .*\n((?:  \S.*\n      .*\n)+)`)
var c20RaceFn = regexp.MustCompile(`(?m)^  (\S+)\(\)$`)

// c20Races splits the race detector's reports and keys them by the two racing functions (the first
// frame of each access that is not in package runtime)
func c20Races(out string) map[string]string {
	res := map[string]string{}
	for _, b := range strings.Split(out, "==================") {
		if !strings.Contains(b, "WARNING: DATA RACE") {
			continue
		}
		var fns []string
		for _, acc := range c20RaceAccess.FindAllStringSubmatch(b, -1) {
			pick := ""
			for _, m := range c20RaceFn.FindAllStringSubmatch(acc[1], -1) {
				f := m[1]
				if i := strings.Index(f, "["); i >= 0 { // instantiated generic: keep the function name only
					f = f[:i]
				}
				if i := strings.LastIndex(f, "/"); i >= 0 {
					f = f[i+1:]
				}
				if pick == "" {
					pick = f
				}
				if !strings.HasPrefix(f, "runtime.") {
					pick = f
					break
				}
			}
			if pick != "" {
				fns = append(fns, pick)
			}
		}
		sort.Strings(fns)
		sig := strings.Join(fns, "<>")
		if _, ok := res[sig]; !ok {
			if len(b) > 5000 {
				b = b[:5000]
			}
			res[sig] = b
		}
	}
	return res
}

func TestVerifC20RunChild(t *testing.T) {
	if os.Getenv("C20_PROCS") == "" {
		t.Skip("child of TestVerifC20Run only")
	}
	o := vOpen(t)
	defer o.close()
	r := &c20Run{o: o, perKind: map[string]int{}}
	procs, _ := strconv.Atoi(os.Getenv("C20_PROCS"))
	dur, _ := time.ParseDuration(os.Getenv("C20_DUR"))
	if procs == 0 {
		c20HandoffScenarios(r)
	} else if procs == -1 {
		c20StopMatrix(r)
	} else {
		r.scenario(procs, dur, o.seed)
	}
	o.stat("calls_total", int(r.calls.Load()))
	o.stat("hot_prefix_destination_reads", int(r.hotHits.Load()))
	o.stat("max_destinations_seen_in_global_rib", int(r.maxDests.Load()))
	for k, v := range r.perKind {
		o.stat("call_"+k, v)
	}
}

// c20TmRecursive: TableManager alone — EVPN MAC/IP updates (Update → handleMacMobility →
// GetPathListWithMac) against a writer of TableManager.mu.  On the pinned commit the recursive read lock
// deadlocks here within a handful of updates (replay of the defect fixed on wt-C20).
func c20TmRecursive(r *c20Run) {
	logger := slog.New(slog.NewJSONHandler(io.Discard, nil))
	tm := table.NewTableManager(logger, []bgp.Family{bgp.RF_EVPN, bgp.RF_IPv4_UC})
	rd, _ := bgp.ParseRouteDistinguisher("65000:100")
	rt := bgp.NewTwoOctetAsSpecificExtended(bgp.EC_SUBTYPE_ROUTE_TARGET, 65000, 100, true)
	mk := func(i int) *table.Path {
		nlri, _ := bgp.NewEVPNMacIPAdvertisementRoute(rd, bgp.EthernetSegmentIdentifier{}, 0, "aa:bb:cc:dd:ee:ff", netip.MustParseAddr("10.0.0.1"), []uint32{uint32(100 + i%3)})
		attrs := []bgp.PathAttributeInterface{bgp.NewPathAttributeOrigin(0), bgp.NewPathAttributeExtendedCommunities([]bgp.ExtendedCommunityInterface{rt})}
		pi := &table.PeerInfo{AS: 65001, Address: netip.MustParseAddr("10.0.0.9"), ID: netip.MustParseAddr("10.0.0.9")}
		return table.NewPath(bgp.RF_EVPN, pi, bgp.PathNLRI{NLRI: nlri}, false, attrs, time.Now(), false)
	}
	n := 20000
	if r.o.thorough {
		n = 200000
	}
	var cnt atomic.Int64
	done, stop := make(chan struct{}), make(chan struct{})
	go func() {
		for i := 0; i < n; i++ {
			tm.Update(mk(i))
			cnt.Add(1)
		}
		close(done)
	}()
	go func() {
		tb := table.NewTable(logger, bgp.RF_IPv6_UC)
		for {
			select {
			case <-stop:
				return
			default:
			}
			tm.SetTable(bgp.RF_IPv6_UC, tb)
			runtime.Gosched()
		}
	}()
	last := int64(-1)
	for {
		select {
		case <-done:
			close(stop)
			r.o.stat("tablemanager_evpn_updates_vs_writer", n)
			return
		case <-time.After(5 * time.Second):
			if c := cnt.Load(); c == last {
				r.o.fail("tablemanager-recursive-rlock-deadlock", map[string]any{
					"input":       "goroutine A: TableManager.Update(EVPN MAC/IP route with a route target) in a loop; goroutine B: TableManager.SetTable in a loop",
					"stuck_after": c, "goroutines": c20Trunc(c20Dump(), 6000)})
				r.wedged.Store(true)
				return
			} else {
				last = c
			}
		}
	}
}

// ---------------------------------------------------------------------------------------------------
// Deterministic hand-off scenarios (behavioural counterpart of the static rule in
// zz_verif_c20_handoff_test.go): a per-state FSM handler is run on one end of a net.Pipe and made to
// LEAVE its state through a returning branch (administrative shutdown, hold-timer expiry, context
// cancellation) exactly while the peer's message has been completely read by the handler's reader
// goroutine but not yet taken by the handler: the handler is held inside its NOTIFICATION write (the pipe
// has no buffer, the peer has not read yet) when the peer writes.  The handler must still return — its
// deferred wg.Wait() may not depend on anybody receiving from the reader goroutine — and the reader
// goroutine must be gone afterwards.

type c20HandoffCase struct {
	state  bgp.FSMState
	branch string // admin-down | hold-timer | ctx-cancel
	peer   string // what the peer writes at the critical moment
}

func c20PeerMsg(kind string) []byte {
	var m *bgp.BGPMessage
	switch kind {
	case "open":
		m, _ = bgp.NewBGPOpenMessage(65001, 90, netip.MustParseAddr("192.0.2.1"),
			[]bgp.OptionParameterInterface{bgp.NewOptionParameterCapability(
				[]bgp.ParameterCapabilityInterface{bgp.NewCapMultiProtocol(bgp.RF_IPv4_UC)})})
	case "keepalive":
		m = bgp.NewBGPKeepAliveMessage()
	case "notification":
		m = bgp.NewBGPNotificationMessage(bgp.BGP_ERROR_CEASE, bgp.BGP_ERROR_SUB_PEER_DECONFIGURED, nil)
	case "garbage":
		return []byte{0, 1, 2, 3, 4, 5, 6, 7, 8, 9, 10, 11, 12, 13, 14, 15, 0, 19, 9} // bad marker: a MessageError
	}
	b, _ := m.Serialize()
	return b
}

func c20ReaderGoroutines() int {
	n := 0
	for _, g := range strings.Split(c20Dump(), "\n\n") {
		if strings.Contains(g, "(*fsmHandler).recvMessage") {
			n++
		}
	}
	return n
}

func (r *c20Run) handoffCase(c c20HandoffCase) {
	o := r.o
	name := fmt.Sprintf("%s/%s/peer-%s", c.state, c.branch, c.peer)
	local, remote := net.Pipe()
	defer remote.Close()
	defer local.Close()
	logger := slog.New(slog.NewTextHandler(io.Discard, nil))
	f := newFSM(&oc.Global{}, &oc.Neighbor{}, c.state, logger)
	defer cleanInfiniteChannel(f.outgoingCh)
	f.conn = local
	h := &fsmHandler{fsm: f, outgoing: f.outgoingCh, callback: func(*fsmMsg) {}}
	f.h = h
	ctx, cancel := context.WithCancel(context.Background())
	defer cancel()
	switch c.branch {
	case "admin-down":
		f.adminStateCh <- adminStateOperation{State: adminStateDown}
	case "hold-timer":
		f.opensentHoldTime = 1
		f.lock.Lock()
		conf := f.pConf.ReadCopy()
		conf.Timers.State.NegotiatedHoldTime = 1
		conf.Timers.State.KeepaliveInterval = 100
		f.pConf.Update(&conf)
		f.lock.Unlock()
	}
	before := c20ReaderGoroutines()
	done := make(chan struct{})
	go func() {
		defer close(done)
		defer func() { _ = recover() }()
		switch c.state {
		case bgp.BGP_FSM_OPENSENT:
			h.opensent(ctx)
		case bgp.BGP_FSM_OPENCONFIRM:
			h.openconfirm(ctx)
		}
	}()
	switch c.branch {
	case "hold-timer":
		time.Sleep(1150 * time.Millisecond) // the timer fired: the handler is writing its NOTIFICATION
	case "ctx-cancel":
		time.Sleep(50 * time.Millisecond)
	default:
		time.Sleep(50 * time.Millisecond) // the queued admin-down was taken: the handler is writing the Cease
	}
	// the peer writes BEFORE it reads: the reader goroutine gets the whole message while the handler is busy
	_ = remote.SetWriteDeadline(time.Now().Add(3 * time.Second))
	_, werr := remote.Write(c20PeerMsg(c.peer))
	if c.branch == "ctx-cancel" {
		cancel()
	}
	time.Sleep(150 * time.Millisecond)
	// now the peer reads what it was sent (or sees the close)
	buf := make([]byte, bgp.BGP_MAX_MESSAGE_LENGTH)
	_ = remote.SetReadDeadline(time.Now().Add(2 * time.Second))
	_, _ = remote.Read(buf)
	o.stat("handoff_case_"+name, 1)
	if werr != nil {
		o.stat("handoff_peer_write_failed_"+name, 1)
	}
	select {
	case <-done:
	case <-time.After(5 * time.Second):
		r.fail("fsm-state-handler-hang:"+name, map[string]any{
			"scenario":   fmt.Sprintf("%s handler on a net.Pipe; leave the state through %s; the peer writes a complete %s while the handler is inside that branch, then reads", c.state, c.branch, c.peer),
			"observed":   "the handler did not return within 5 s (FSM goroutine stuck; DeletePeer / StopBgp would never return)",
			"goroutines": c20Trunc(c20Dump(), 6000)})
		return
	}
	local.Close()
	remote.Close()
	for i := 0; i < 20 && c20ReaderGoroutines() > before; i++ {
		time.Sleep(50 * time.Millisecond)
	}
	if n := c20ReaderGoroutines(); n > before {
		r.fail("goroutine-leak", map[string]any{"scenario": name, "leaked_reader_goroutines": n - before, "goroutines": c20Trunc(c20Dump(), 4000)})
	}
}

func c20HandoffScenarios(r *c20Run) {
	for _, st := range []bgp.FSMState{bgp.BGP_FSM_OPENSENT, bgp.BGP_FSM_OPENCONFIRM} {
		peers := []string{"open", "notification", "garbage"}
		if st == bgp.BGP_FSM_OPENCONFIRM {
			peers = []string{"keepalive", "notification", "open", "garbage"}
		}
		for _, br := range []string{"admin-down", "hold-timer", "ctx-cancel"} {
			for _, pm := range peers {
				if !r.o.thorough && br == "hold-timer" && pm != peers[0] {
					continue // one second each: the quick tier keeps one per state
				}
				r.handoffCase(c20HandoffCase{state: st, branch: br, peer: pm})
			}
		}
	}
}
