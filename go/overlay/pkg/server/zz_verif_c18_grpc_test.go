//go:build verif

package server

// C18 — the gRPC layer is the API surface: every streaming listing of pkg/server/grpc_server.go is
// driven through the real handler with a mock stream that collects the Send()s (no sockets) and must
// deliver exactly what the native BgpServer call delivers — the same multiset of messages, produced by
// the same conversion — for tables larger than one batch.  ListPath is run for the batch sizes
// {0, 1, 2, 3, n-1, n, n+1} of every populated family, for the three encodings and both sort types.
// Oracle only; classes `grpc-list:<rpc>:<failure>`.

import (
	"context"
	"fmt"
	"io"
	"log/slog"
	"net/netip"
	"sort"
	"strings"
	"testing"

	"github.com/osrg/gobgp/v4/api"
	"github.com/osrg/gobgp/v4/pkg/apiutil"
	"github.com/osrg/gobgp/v4/pkg/packet/bgp"
	"google.golang.org/grpc/metadata"
	"google.golang.org/protobuf/proto"
)

// vC18GStream is a grpc.ServerStreamingServer[T] that keeps what the handler sends
type vC18GStream[T any] struct {
	ctx  context.Context
	sent []*T
}

func (m *vC18GStream[T]) Send(x *T) error {
	m.sent = append(m.sent, proto.Clone(any(x).(proto.Message)).(any).(*T))
	return nil
}
func (m *vC18GStream[T]) SetHeader(metadata.MD) error  { return nil }
func (m *vC18GStream[T]) SendHeader(metadata.MD) error { return nil }
func (m *vC18GStream[T]) SetTrailer(metadata.MD)       {}
func (m *vC18GStream[T]) Context() context.Context     { return m.ctx }
func (m *vC18GStream[T]) SendMsg(any) error            { return nil }
func (m *vC18GStream[T]) RecvMsg(any) error            { return io.EOF }

func vC18GStrs[T proto.Message](l []T) []string {
	out := make([]string, 0, len(l))
	for _, x := range l {
		out = append(out, vC18SJSON(x))
	}
	return out
}

// compare two message lists as multisets (and as sequences when ordered is set)
func vC18GCompare(o *vOut, rpc string, ctx map[string]any, viaGrpc, native []string, ordered bool) {
	o.stat("grpc_list:"+rpc, 1)
	d := func(extra map[string]any) map[string]any {
		for k, v := range ctx {
			extra[k] = v
		}
		extra["grpc_count"], extra["native_count"] = len(viaGrpc), len(native)
		return extra
	}
	if ordered && strings.Join(viaGrpc, "\n") != strings.Join(native, "\n") {
		a, b := append([]string{}, viaGrpc...), append([]string{}, native...)
		sort.Strings(a)
		sort.Strings(b)
		if strings.Join(a, "\n") == strings.Join(b, "\n") {
			o.fail("grpc-list:"+rpc+":order-differs", d(map[string]any{}))
			return
		}
	}
	a, b := append([]string{}, viaGrpc...), append([]string{}, native...)
	sort.Strings(a)
	sort.Strings(b)
	if strings.Join(a, "\n") == strings.Join(b, "\n") {
		return
	}
	count := map[string]int{}
	for _, x := range b {
		count[x]++
	}
	for _, x := range a {
		count[x]--
	}
	missing, extra := []string{}, []string{}
	for k, v := range count {
		for ; v > 0; v-- {
			missing = append(missing, k)
		}
		for ; v < 0; v++ {
			extra = append(extra, k)
		}
	}
	sort.Strings(missing)
	sort.Strings(extra)
	cut := func(l []string) []string {
		if len(l) > 3 {
			l = l[:3]
		}
		for i := range l {
			if len(l[i]) > 300 {
				l[i] = l[i][:300]
			}
		}
		return l
	}
	cls := "content-differs"
	if len(extra) == 0 {
		cls = "messages-missing"
	} else if len(missing) == 0 {
		cls = "messages-extra"
	}
	o.fail("grpc-list:"+rpc+":"+cls, d(map[string]any{"missing": cut(missing), "n_missing": len(missing), "extra": cut(extra), "n_extra": len(extra)}))
}

func TestVerifC18Grpc(t *testing.T) {
	o := vOpen(t)
	defer o.close()
	r := &vRand{s: o.seed*7919 + 41}
	ctx := context.Background()

	s := NewBgpServer(LoggerOption(slog.New(slog.NewTextHandler(io.Discard, nil)), &slog.LevelVar{}))
	go s.Serve()
	if err := s.StartBgp(ctx, &api.StartBgpRequest{Global: vC18SGlobal()}); err != nil {
		t.Fatal(err)
	}
	defer s.Stop()
	defer s.StopBgp(ctx, &api.StopBgpRequest{})
	vC18SPolicySetup(t, s)
	g := &server{bgpServer: s, shared: s.shared}

	// ---------------- populate
	big := 1
	if o.thorough {
		big = 6
	}
	nRoutes := map[string]int{"ipv4": 23 * big, "ipv6": 7 * big, "vpnv4": 9 * big, "evpn2": 5 * big, "ipv4-mpls": 4, "rtc": 3}
	added := 0
	for fam, n := range nRoutes {
		for i := 0; i < n; i++ {
			rt := vC18SGenRoute(r, fam, 5000+added)
			added++
			if _, err := s.AddPath(apiutil.AddPathRequest{Paths: []*apiutil.Path{rt.native()}}); err != nil {
				t.Fatalf("populate %s: %v", fam, err)
			}
			if i%4 == 0 { // a second path of the same destination
				p := rt.native()
				p.RemoteID = rt.remoteID + 7
				s.AddPath(apiutil.AddPathRequest{Paths: []*apiutil.Path{p}})
			}
		}
	}
	rd, _ := apiutil.MarshalRD(bgp.NewRouteDistinguisherTwoOctetAS(64999, 1))
	for i := 0; i < 5; i++ {
		rt, _ := apiutil.MarshalRT(bgp.NewTwoOctetAsSpecificExtended(bgp.EC_SUBTYPE_ROUTE_TARGET, 64999, uint32(i), true))
		rdi, _ := apiutil.MarshalRD(bgp.NewRouteDistinguisherTwoOctetAS(64999, uint32(100+i)))
		_ = rd
		if err := s.AddVrf(ctx, &api.AddVrfRequest{Vrf: &api.Vrf{Name: fmt.Sprintf("vc18g-vrf%d", i), Id: uint32(10 + i), Rd: rdi, ImportRt: []*api.RouteTarget{rt}, ExportRt: []*api.RouteTarget{rt}}}); err != nil {
			t.Fatal(err)
		}
	}
	for i := 0; i < 3; i++ {
		if err := s.AddPeerGroup(ctx, &api.AddPeerGroupRequest{PeerGroup: &api.PeerGroup{Conf: &api.PeerGroupConf{PeerGroupName: fmt.Sprintf("vc18g-pg%d", i), PeerAsn: uint32(65100 + i)}}}); err != nil {
			t.Fatal(err)
		}
		if err := s.AddDynamicNeighbor(ctx, &api.AddDynamicNeighborRequest{DynamicNeighbor: &api.DynamicNeighbor{Prefix: fmt.Sprintf("10.%d.0.0/16", 200+i), PeerGroup: fmt.Sprintf("vc18g-pg%d", i)}}); err != nil {
			t.Fatal(err)
		}
	}
	for i := 0; i < 7; i++ {
		p := &api.Peer{Conf: &api.PeerConf{NeighborAddress: fmt.Sprintf("10.9.%d.1", i), PeerAsn: uint32(65200 + i), Description: fmt.Sprintf("peer %d", i)},
			Transport: &api.Transport{PassiveMode: true}, Timers: &api.Timers{Config: &api.TimersConfig{HoldTime: uint64(30 + i), KeepaliveInterval: 10}}}
		if err := s.AddPeer(ctx, &api.AddPeerRequest{Peer: p}); err != nil {
			t.Fatal(err)
		}
	}
	for i := 0; i < 12; i++ {
		if err := s.AddDefinedSet(ctx, &api.AddDefinedSetRequest{DefinedSet: vC18SGenDefinedSet(r, 9000+i)}); err != nil {
			t.Fatal(err)
		}
	}
	for i := 0; i < 9; i++ {
		if err := s.AddStatement(ctx, &api.AddStatementRequest{Statement: vC18SGenStatement(r, fmt.Sprintf("vc18g-st-%d", i))}); err != nil {
			t.Fatal(err)
		}
	}
	for i := 0; i < 6; i++ {
		p := &api.Policy{Name: fmt.Sprintf("vc18g-pol-%d", i)}
		for j := 0; j < 1+i%3; j++ {
			p.Statements = append(p.Statements, vC18SGenStatement(r, fmt.Sprintf("vc18g-pol-%d-s%d", i, j)))
		}
		if err := s.AddPolicy(ctx, &api.AddPolicyRequest{Policy: p}); err != nil {
			t.Fatal(err)
		}
	}
	s.AddPolicyAssignment(ctx, &api.AddPolicyAssignmentRequest{Assignment: &api.PolicyAssignment{Name: "global", Direction: api.PolicyDirection_POLICY_DIRECTION_IMPORT,
		Policies: []*api.Policy{{Name: "vc18g-pol-0"}, {Name: "vc18g-pol-1"}}, DefaultAction: api.RouteAction_ROUTE_ACTION_ACCEPT}})

	// ---------------- ListPath: every family x batch size x encoding x sort type
	fams := map[string]bgp.Family{"ipv4": bgp.RF_IPv4_UC, "ipv6": bgp.RF_IPv6_UC, "vpnv4": bgp.RF_IPv4_VPN, "evpn2": bgp.RF_EVPN, "ipv4-mpls": bgp.RF_IPv4_MPLS, "rtc": bgp.RF_RTC_UC, "empty": bgp.RF_IPv6_VPN}
	famNames := []string{}
	for k := range fams {
		famNames = append(famNames, k)
	}
	sort.Strings(famNames)
	for _, fn := range famNames {
		fam := fams[fn]
		for _, enc := range [][3]bool{{false, false, false}, {true, false, false}, {false, true, true}} {
			for _, st := range []api.ListPathRequest_SortType{api.ListPathRequest_SORT_TYPE_UNSPECIFIED, api.ListPathRequest_SORT_TYPE_PREFIX} {
				// the native listing with the conversion the handler applies
				native := []string{}
				nreq := apiutil.ListPathRequest{TableType: api.TableType_TABLE_TYPE_GLOBAL, Family: fam, SortType: st}
				if err := s.ListPath(nreq, func(prefix bgp.NLRI, paths []*apiutil.Path) {
					d := &api.Destination{Prefix: prefix.String()}
					for _, p := range paths {
						d.Paths = append(d.Paths, toPathApi(p, enc[0], enc[1], enc[2]))
					}
					native = append(native, vC18SJSON(d))
				}); err != nil {
					o.fail("grpc-list:ListPath:native-error", map[string]any{"family": fn, "err": err.Error()})
					continue
				}
				n := len(native)
				sizes := []uint64{0, 1, 2, 3, uint64(n + 1)}
				if n >= 1 {
					sizes = append(sizes, uint64(n))
				}
				if n >= 2 {
					sizes = append(sizes, uint64(n-1))
				}
				if n >= 8 {
					sizes = append(sizes, uint64(n/2), uint64(r.pick(4, 5, 7)))
				}
				for _, bs := range sizes {
					req := &api.ListPathRequest{TableType: api.TableType_TABLE_TYPE_GLOBAL, Family: &api.Family{Afi: api.Family_Afi(fam.Afi()), Safi: api.Family_Safi(fam.Safi())},
						SortType: st, BatchSize: bs, EnableOnlyBinary: enc[0], EnableNlriBinary: enc[1], EnableAttributeBinary: enc[2]}
					ms := &vC18GStream[api.ListPathResponse]{ctx: ctx}
					if err := g.ListPath(req, ms); err != nil {
						o.fail("grpc-list:ListPath:handler-error", map[string]any{"family": fn, "batch_size": bs, "err": err.Error()})
						continue
					}
					via := []string{}
					for _, x := range ms.sent {
						via = append(via, vC18SJSON(x.Destination))
					}
					o.stat("grpc_listpath_"+fn, 1)
					if n > 0 && bs > 0 && int(bs) < n {
						o.stat("grpc_listpath_table_larger_than_batch", 1)
					}
					vC18GCompare(o, "ListPath", map[string]any{"family": fn, "destinations": n, "batch_size": bs, "only_binary": enc[0], "nlri_binary": enc[1], "sort": st.String()},
						// compared as multisets: BgpServer.ListPath never reads SortType, two listings of one table
						// come in the (random) order of the destination map
						via, native, false)
				}
			}
		}
	}

	// ---------------- the other streaming listings
	{
		ms := &vC18GStream[api.ListPeerResponse]{ctx: ctx}
		err := g.ListPeer(&api.ListPeerRequest{}, ms)
		var nat []*api.Peer
		s.ListPeer(ctx, &api.ListPeerRequest{}, func(p *api.Peer) { nat = append(nat, p) })
		via := []*api.Peer{}
		for _, x := range ms.sent {
			via = append(via, x.Peer)
		}
		if err != nil {
			o.fail("grpc-list:ListPeer:handler-error", map[string]any{"err": err.Error()})
		}
		vC18GCompare(o, "ListPeer", map[string]any{}, vC18GStrs(via), vC18GStrs(nat), false)
		for i := 0; i < 7; i++ { // by address
			req := &api.ListPeerRequest{Address: fmt.Sprintf("10.9.%d.1", i)}
			ms := &vC18GStream[api.ListPeerResponse]{ctx: ctx}
			g.ListPeer(req, ms)
			var nat []*api.Peer
			s.ListPeer(ctx, req, func(p *api.Peer) { nat = append(nat, p) })
			via := []*api.Peer{}
			for _, x := range ms.sent {
				via = append(via, x.Peer)
			}
			vC18GCompare(o, "ListPeer", map[string]any{"address": req.Address}, vC18GStrs(via), vC18GStrs(nat), false)
		}
	}
	{
		ms := &vC18GStream[api.ListPeerGroupResponse]{ctx: ctx}
		g.ListPeerGroup(&api.ListPeerGroupRequest{}, ms)
		var nat []*api.PeerGroup
		s.ListPeerGroup(ctx, &api.ListPeerGroupRequest{}, func(p *api.PeerGroup) { nat = append(nat, p) })
		via := []*api.PeerGroup{}
		for _, x := range ms.sent {
			via = append(via, x.PeerGroup)
		}
		vC18GCompare(o, "ListPeerGroup", map[string]any{}, vC18GStrs(via), vC18GStrs(nat), false)
	}
	{
		ms := &vC18GStream[api.ListDynamicNeighborResponse]{ctx: ctx}
		g.ListDynamicNeighbor(&api.ListDynamicNeighborRequest{}, ms)
		var nat []*api.DynamicNeighbor
		s.ListDynamicNeighbor(ctx, &api.ListDynamicNeighborRequest{}, func(p *api.DynamicNeighbor) { nat = append(nat, p) })
		via := []*api.DynamicNeighbor{}
		for _, x := range ms.sent {
			via = append(via, x.DynamicNeighbor)
		}
		vC18GCompare(o, "ListDynamicNeighbor", map[string]any{}, vC18GStrs(via), vC18GStrs(nat), false)
	}
	{
		ms := &vC18GStream[api.ListVrfResponse]{ctx: ctx}
		g.ListVrf(&api.ListVrfRequest{}, ms)
		var nat []*api.Vrf
		s.ListVrf(ctx, &api.ListVrfRequest{}, func(p *api.Vrf) { nat = append(nat, p) })
		via := []*api.Vrf{}
		for _, x := range ms.sent {
			via = append(via, x.Vrf)
		}
		vC18GCompare(o, "ListVrf", map[string]any{}, vC18GStrs(via), vC18GStrs(nat), false)
	}
	for _, dt := range []api.DefinedType{api.DefinedType_DEFINED_TYPE_PREFIX, api.DefinedType_DEFINED_TYPE_NEIGHBOR, api.DefinedType_DEFINED_TYPE_AS_PATH,
		api.DefinedType_DEFINED_TYPE_COMMUNITY, api.DefinedType_DEFINED_TYPE_EXT_COMMUNITY, api.DefinedType_DEFINED_TYPE_LARGE_COMMUNITY} {
		req := &api.ListDefinedSetRequest{DefinedType: dt}
		ms := &vC18GStream[api.ListDefinedSetResponse]{ctx: ctx}
		g.ListDefinedSet(req, ms)
		var nat []*api.DefinedSet
		s.ListDefinedSet(ctx, req, func(p *api.DefinedSet) { nat = append(nat, p) })
		via := []*api.DefinedSet{}
		for _, x := range ms.sent {
			via = append(via, x.DefinedSet)
		}
		vC18GCompare(o, "ListDefinedSet", map[string]any{"type": dt.String()}, vC18GStrs(via), vC18GStrs(nat), false)
	}
	for _, name := range []string{"", "vc18g-st-3", "vc18g-pol-2-s1", "no-such"} {
		req := &api.ListStatementRequest{Name: name}
		ms := &vC18GStream[api.ListStatementResponse]{ctx: ctx}
		g.ListStatement(req, ms)
		var nat []*api.Statement
		s.ListStatement(ctx, req, func(p *api.Statement) { nat = append(nat, p) })
		via := []*api.Statement{}
		for _, x := range ms.sent {
			via = append(via, x.Statement)
		}
		vC18GCompare(o, "ListStatement", map[string]any{"name": name}, vC18GStrs(via), vC18GStrs(nat), false)
	}
	for _, name := range []string{"", "vc18g-pol-2", "no-such"} {
		req := &api.ListPolicyRequest{Name: name}
		ms := &vC18GStream[api.ListPolicyResponse]{ctx: ctx}
		g.ListPolicy(req, ms)
		var nat []*api.Policy
		s.ListPolicy(ctx, req, func(p *api.Policy) { nat = append(nat, p) })
		via := []*api.Policy{}
		for _, x := range ms.sent {
			via = append(via, x.Policy)
		}
		vC18GCompare(o, "ListPolicy", map[string]any{"name": name}, vC18GStrs(via), vC18GStrs(nat), false)
	}
	for _, dir := range []api.PolicyDirection{api.PolicyDirection_POLICY_DIRECTION_UNSPECIFIED, api.PolicyDirection_POLICY_DIRECTION_IMPORT, api.PolicyDirection_POLICY_DIRECTION_EXPORT} {
		for _, name := range []string{"", "global", "10.9.1.1"} {
			req := &api.ListPolicyAssignmentRequest{Name: name, Direction: dir}
			ms := &vC18GStream[api.ListPolicyAssignmentResponse]{ctx: ctx}
			g.ListPolicyAssignment(req, ms)
			var nat []*api.PolicyAssignment
			s.ListPolicyAssignment(ctx, req, func(p *api.PolicyAssignment) { nat = append(nat, p) })
			via := []*api.PolicyAssignment{}
			for _, x := range ms.sent {
				via = append(via, x.Assignment)
			}
			vC18GCompare(o, "ListPolicyAssignment", map[string]any{"name": name, "direction": dir.String()}, vC18GStrs(via), vC18GStrs(nat), false)
		}
	}
	{
		ms := &vC18GStream[api.ListRpkiTableResponse]{ctx: ctx}
		err1 := g.ListRpkiTable(&api.ListRpkiTableRequest{Family: &api.Family{Afi: api.Family_AFI_IP, Safi: api.Family_SAFI_UNICAST}}, ms)
		var nat []*api.Roa
		err2 := s.ListRpkiTable(ctx, &api.ListRpkiTableRequest{Family: &api.Family{Afi: api.Family_AFI_IP, Safi: api.Family_SAFI_UNICAST}}, func(p *api.Roa) { nat = append(nat, p) })
		via := []*api.Roa{}
		for _, x := range ms.sent {
			via = append(via, x.Roa)
		}
		if (err1 == nil) != (err2 == nil) {
			o.fail("grpc-list:ListRpkiTable:error-differs", map[string]any{"grpc": fmt.Sprint(err1), "native": fmt.Sprint(err2)})
		}
		vC18GCompare(o, "ListRpkiTable", map[string]any{}, vC18GStrs(via), vC18GStrs(nat), false)
	}
	_ = netip.Addr{}
}
