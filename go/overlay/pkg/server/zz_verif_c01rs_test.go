//go:build verif

package server

// C01RS (sub-part of C01): route-server clients on the white-box "world"
// (zz_verif_world_test.go): a real BgpServer with 3-5 route-server clients (different ASes, some
// sharing an AS, some sharing a router-id, AS_PATHs containing other clients' ASes) mixed with
// 1-2 ordinary peers. Random histories of session up/down, announce / replace / re-announce /
// withdraw, AddPeer, DeletePeer and locally injected routes; at every flush point everything
// queued is packed by the real packer, serialised, re-parsed and applied to a per-peer view.
// Compared with the Lean model (Model/RouteServer.lean): every established peer's view, every
// Adj-RIB-In, the order of the global table and of the route-server table per prefix, and every
// established client's client-specific best path.
// Model-independent oracles:
//   rs-view!=fresh-transfer   a client's accumulated view == what the real initial table transfer
//                             (getBestFromLocalCallbackLocked) would send it now;
//   rs-view!=fresh-export     == the real (*BgpServer).filterpath on the real client-specific best
//                             path (GetBestPath(peer.TableID(), peer.AS())) with old = nil;
//   rs-holds-*                a client never holds its own route, a route with its AS in the
//                             AS_PATH, a route that left the table, or a route of the ordinary group;
//   ord-*                     an ordinary peer holds the fresh export of the global best path and
//                             never a route learned from a route-server client.

import (
	"fmt"
	"net/netip"
	"sort"
	"strings"
	"testing"
	"time"

	"github.com/osrg/gobgp/v4/internal/pkg/table"
	"github.com/osrg/gobgp/v4/pkg/packet/bgp"
)

type c01rsRoute struct {
	pfx, marker int
	lp          *uint32
	origin      uint8
	med         *uint32
	comms       []uint32
	segs        [][]uint32 // each: typ followed by members
}

var c01rsPrefixes = []string{"10.1.0.0/24", "10.2.0.0/24", "10.3.0.0/16"}

func c01rsNlri(i int) bgp.NLRI {
	n, _ := bgp.NewIPAddrPrefix(netip.MustParsePrefix(c01rsPrefixes[i]))
	return n
}

func c01rsU32(a netip.Addr) uint32 {
	b := a.As4()
	return uint32(b[0])<<24 | uint32(b[1])<<16 | uint32(b[2])<<8 | uint32(b[3])
}

// line renders the route in the vocabulary of Driver/World.lean parseRoute
// `<pfx> <pathId> <marker> <lpP> <lp> <origin> <medP> <med> <origP> <originator> <ncl> <ncomm> c… <nseg> segs…`
func (r *c01rsRoute) line() string {
	var sb strings.Builder
	fmt.Fprintf(&sb, "%d 0 %d", r.pfx, r.marker)
	if r.lp != nil {
		fmt.Fprintf(&sb, " 1 %d", *r.lp)
	} else {
		sb.WriteString(" 0 0")
	}
	fmt.Fprintf(&sb, " %d", r.origin)
	if r.med != nil {
		fmt.Fprintf(&sb, " 1 %d", *r.med)
	} else {
		sb.WriteString(" 0 0")
	}
	sb.WriteString(" 0 0 0")
	fmt.Fprintf(&sb, " %d", len(r.comms))
	for _, c := range r.comms {
		fmt.Fprintf(&sb, " %d", c)
	}
	fmt.Fprintf(&sb, " %d", len(r.segs))
	for _, s := range r.segs {
		fmt.Fprintf(&sb, " %d %d", s[0], len(s)-1)
		for _, a := range s[1:] {
			fmt.Fprintf(&sb, " %d", a)
		}
	}
	return sb.String()
}

func (r *c01rsRoute) attrs(nh netip.Addr) []bgp.PathAttributeInterface {
	attrs := []bgp.PathAttributeInterface{bgp.NewPathAttributeOrigin(r.origin)}
	params := make([]bgp.AsPathParamInterface, 0, len(r.segs))
	for _, s := range r.segs {
		params = append(params, bgp.NewAs4PathParam(uint8(s[0]), append([]uint32{}, s[1:]...)))
	}
	attrs = append(attrs, bgp.NewPathAttributeAsPath(params))
	n, _ := bgp.NewPathAttributeNextHop(nh)
	attrs = append(attrs, n)
	if r.med != nil {
		attrs = append(attrs, bgp.NewPathAttributeMultiExitDisc(*r.med))
	}
	if r.lp != nil {
		attrs = append(attrs, bgp.NewPathAttributeLocalPref(*r.lp))
	}
	comms := append([]uint32{0xfffe0000 | uint32(r.marker)}, r.comms...)
	return append(attrs, bgp.NewPathAttributeCommunities(comms))
}

func (r *c01rsRoute) msg(from *vwPeer) *bgp.BGPMessage {
	return bgp.NewBGPUpdateMessage(nil, r.attrs(from.spec.addr), []bgp.PathNLRI{{NLRI: c01rsNlri(r.pfx)}})
}

func c01rsKind(k string) int {
	switch k {
	case "ebgp":
		return 0
	case "ibgp":
		return 1
	case "rrc":
		return 2
	}
	return 3
}

// c01rsParseRoute is the inverse of (*c01rsRoute).line.
func c01rsParseRoute(f []string) *c01rsRoute {
	n := func(i int) int { v := 0; fmt.Sscan(f[i], &v); return v }
	rt := &c01rsRoute{pfx: n(0), marker: n(2), origin: uint8(n(5))}
	if n(3) == 1 {
		v := uint32(n(4))
		rt.lp = &v
	}
	if n(6) == 1 {
		v := uint32(n(7))
		rt.med = &v
	}
	i := 10 + n(10) // cluster list (always empty here)
	i++
	for k := n(i); k > 0; k-- {
		i++
		rt.comms = append(rt.comms, uint32(n(i)))
	}
	i++
	for k := n(i); k > 0; k-- {
		typ, cnt := n(i+1), n(i+2)
		seg := []uint32{uint32(typ)}
		for j := 0; j < cnt; j++ {
			seg = append(seg, uint32(n(i+3+j)))
		}
		rt.segs = append(rt.segs, seg)
		i += 2 + cnt
	}
	return rt
}

type c01rsScenario struct {
	w      *vWorld
	o      *vOut
	marker int
	// bookkeeping for the group oracles: marker -> index of the announcing peer (-1 = local)
	src map[uint32]int
}

func (sc *c01rsScenario) viewOf(vp *vwPeer) string {
	type e struct {
		p      int
		marker uint32
	}
	var es []e
	for k, h := range vp.view {
		parts := strings.Split(k, "#")
		for i, s := range c01rsPrefixes {
			if s == parts[0] {
				es = append(es, e{i, h.marker})
			}
		}
	}
	sort.Slice(es, func(i, j int) bool { return es[i].p < es[j].p })
	var sb strings.Builder
	for _, x := range es {
		fmt.Fprintf(&sb, " %d#0=%d", x.p, x.marker)
	}
	return sb.String()
}

func c01rsTableList(m *table.TableManager, k int) []*table.Path {
	if d := m.GetDestination(table.NewPath(bgp.RF_IPv4_UC, nil, bgp.PathNLRI{NLRI: c01rsNlri(k)}, true, nil, time.Time{}, false)); d != nil {
		return d.GetAllKnownPathList()
	}
	return nil
}

// oracle: see the file comment.
func (sc *c01rsScenario) oracle(history []string) {
	w := sc.w
	fams := []bgp.Family{bgp.RF_IPv4_UC}
	hist := func() []string { return append([]string{}, history...) }
	for ti, vp := range w.peers {
		if !vp.up || vp.deleted {
			continue
		}
		if vp.spec.kind != "rsc" {
			// ordinary peer: fresh export of the global best path; nothing of the other group
			for i, pf := range c01rsPrefixes {
				var best *table.Path
				for _, p := range w.s.globalRib.GetBestPathList(table.GLOBAL_RIB_NAME, 0, fams) {
					if p.GetNlri().String() == pf {
						best = p
					}
				}
				want := uint32(0)
				if best != nil {
					if e := w.s.filterpath(vp.p, best, nil); e != nil && !e.IsWithdraw {
						want = vwMarker(e.GetPathAttrs())
					}
				}
				have := vp.view[pf+"#0"].marker
				if have != want {
					sc.o.fail("ord-view!=fresh-export:target="+vp.spec.kind, map[string]any{"peer": ti, "prefix": i, "holds_marker": have, "fresh_export_marker": want, "history": hist()})
				}
				if have != 0 {
					if si, ok := sc.src[have]; ok && si >= 0 && w.peers[si].spec.kind == "rsc" {
						sc.o.fail("ord-holds-route-of-rs-group", map[string]any{"peer": ti, "prefix": i, "holds_marker": have, "history": hist()})
					}
				}
			}
			continue
		}
		// (1) the real initial table transfer, recomputed now
		transfer := map[string]uint32{}
		w.s.getBestFromLocalCallbackLocked(vp.p, fams, false, func(paths []*table.Path, _ []*table.Path) {
			for _, p := range paths {
				if p != nil && !p.IsEOR() && !p.IsWithdraw {
					transfer[p.GetNlri().String()] = vwMarker(p.GetPathAttrs())
				}
			}
		})
		for i, pf := range c01rsPrefixes {
			have := vp.view[pf+"#0"].marker
			list := c01rsTableList(w.s.rsRib, i)
			// (2) the real filterpath on the real client-specific best path
			want := uint32(0)
			var best *table.Path
			for _, p := range w.s.rsRib.GetBestPathList(vp.p.TableID(), vp.p.AS(), fams) {
				if p.GetNlri().String() == pf {
					best = p
				}
			}
			if best != nil {
				if e := w.s.filterpath(vp.p, best, nil); e != nil && !e.IsWithdraw {
					want = vwMarker(e.GetPathAttrs())
				}
			}
			bestSrc := "none"
			if best != nil {
				bestSrc = "other-client"
				if best.GetSource().ID == vp.spec.rid {
					bestSrc = "client-with-same-router-id"
				}
			}
			det := map[string]any{"peer": ti, "prefix": i, "holds_marker": have, "fresh_export_marker": want, "fresh_transfer_marker": transfer[pf], "history": hist()}
			if have != want {
				sc.o.fail(fmt.Sprintf("rs-view!=fresh-export:best-src=%s,want=%v,holds=%v", bestSrc, want != 0, have != 0), det)
			}
			if have != transfer[pf] {
				sc.o.fail(fmt.Sprintf("rs-view!=fresh-transfer:best-src=%s,want=%v,holds=%v", bestSrc, transfer[pf] != 0, have != 0), det)
			}
			if have == 0 {
				continue
			}
			// (3) the property's own words
			var held *table.Path
			for _, p := range list {
				if vwMarker(p.GetPathAttrs()) == have {
					held = p
				}
			}
			if held == nil {
				sc.o.fail("rs-holds-route-that-left-the-table", det)
				continue
			}
			if held.GetSource().Address == vp.spec.addr {
				sc.o.fail("rs-holds-own-route", det)
			}
			for _, a := range held.GetAsList() {
				if a == vp.spec.as {
					sc.o.fail("rs-holds-route-with-own-as", det)
					break
				}
			}
			if si, ok := sc.src[have]; !ok || si < 0 || w.peers[si].spec.kind != "rsc" {
				sc.o.fail("rs-holds-route-of-ordinary-group", det)
			}
			// no better eligible route is being withheld: every path ahead of the held one is
			// the client's own or carries its AS
			for _, p := range list {
				if p == held {
					break
				}
				own := p.GetSource().Address == vp.spec.addr
				for _, a := range p.GetAsList() {
					if a == vp.spec.as {
						own = true
					}
				}
				if !own {
					sc.o.fail("rs-holds-non-best", det)
					break
				}
			}
		}
	}
	// the tables themselves: nothing of the other group in either
	for i := range c01rsPrefixes {
		for _, p := range c01rsTableList(w.s.rsRib, i) {
			if si, ok := sc.src[vwMarker(p.GetPathAttrs())]; !ok || si < 0 || w.peers[si].spec.kind != "rsc" {
				sc.o.fail("rs-table-holds-route-of-ordinary-group", map[string]any{"prefix": i, "marker": vwMarker(p.GetPathAttrs()), "history": hist()})
			}
		}
		for _, p := range c01rsTableList(w.s.globalRib, i) {
			if si, ok := sc.src[vwMarker(p.GetPathAttrs())]; ok && si >= 0 && w.peers[si].spec.kind == "rsc" {
				sc.o.fail("global-table-holds-route-of-rs-group", map[string]any{"prefix": i, "marker": vwMarker(p.GetPathAttrs()), "history": hist()})
			}
		}
	}
}

func (sc *c01rsScenario) genRoute(r *vRand, from *vwPeer) *c01rsRoute {
	sc.marker++
	rt := &c01rsRoute{pfx: r.intn(len(c01rsPrefixes)), marker: sc.marker, origin: uint8(r.pick(0, 0, 1, 2))}
	if r.chance(35) {
		v := uint32(r.pick(50, 100, 100, 200))
		rt.lp = &v
	}
	if r.chance(35) {
		v := uint32(r.pick(0, 10, 20))
		rt.med = &v
	}
	var seq []uint32
	if from.spec.as != sc.w.as && r.chance(88) {
		seq = append(seq, from.spec.as) // an eBGP speaker prepends its own AS
	}
	for n := r.intn(3); n > 0; n-- {
		// other clients' ASes (per-client loop filter), transit ASes, the local AS (inbound loop)
		seq = append(seq, uint32(r.pick(100, 200, 65001, 65002, 65003, 65004, 65011, 65012, 65000)))
	}
	if len(seq) > 0 {
		rt.segs = append(rt.segs, append([]uint32{2}, seq...))
	}
	if r.chance(10) {
		rt.segs = append(rt.segs, []uint32{1, uint32(r.pick(100, 65002, 65003)), 400})
	}
	if r.chance(4) {
		rt.segs = append([][]uint32{{3, 65100}}, rt.segs...)
	}
	if r.chance(15) {
		rt.comms = []uint32{uint32(r.pick(6553600, 6553601))}
	}
	return rt
}

func (sc *c01rsScenario) localPath(rt *c01rsRoute, withdraw bool) *table.Path {
	nlri := bgp.PathNLRI{NLRI: c01rsNlri(rt.pfx)}
	if withdraw {
		return table.NewPath(bgp.RF_IPv4_UC, nil, nlri, true, nil, sc.w.now(), false)
	}
	return table.NewPath(bgp.RF_IPv4_UC, nil, nlri, false, rt.attrs(netip.MustParseAddr("10.255.0.1")), sc.w.now(), false)
}

// check: flush everything, compare with the model, run the oracles
func (sc *c01rsScenario) check(history []string) {
	w, o := sc.w, sc.o
	for _, vp := range w.peers {
		w.flush(vp)
	}
	fams := []bgp.Family{bgp.RF_IPv4_UC}
	for i, vp := range w.peers {
		if vp.deleted {
			continue
		}
		if vp.up {
			o.ask("view"+sc.viewOf(vp), "view %d", i)
			if vp.spec.kind == "rsc" {
				o.stat("ask_rs_view", 1)
			} else {
				o.stat("ask_ord_view", 1)
			}
		}
		adj := []string{}
		for _, p := range vp.p.adjRibIn.PathList(fams, false) {
			pi := 0
			for k, s := range c01rsPrefixes {
				if s == p.GetNlri().String() {
					pi = k
				}
			}
			tag := ""
			if p.IsRejected() {
				tag = "r"
			}
			adj = append(adj, fmt.Sprintf("%d#%d=%d%s", pi, p.RemoteID(), vwMarker(p.GetPathAttrs()), tag))
		}
		sort.Strings(adj)
		o.ask(fmt.Sprintf("adjin%s | count %d accepted %d", strings.Join(append([]string{""}, adj...), " "), vp.p.adjRibIn.Count(fams), vp.p.adjRibIn.Accepted(fams)), "adjin %d", i)
	}
	for k := range c01rsPrefixes {
		s := "rib"
		for _, p := range c01rsTableList(w.s.globalRib, k) {
			s += fmt.Sprintf(" %d", vwMarker(p.GetPathAttrs()))
		}
		o.ask(s, "rib %d", k)
		s = "rsrib"
		l := c01rsTableList(w.s.rsRib, k)
		for _, p := range l {
			s += fmt.Sprintf(" %d", vwMarker(p.GetPathAttrs()))
		}
		o.ask(s, "rsrib %d", k)
		o.stat(fmt.Sprintf("rsrib_len_%d", min(len(l), 4)), 1)
		for i, vp := range w.peers {
			if vp.deleted || !vp.up || vp.spec.kind != "rsc" {
				continue
			}
			// the client-specific best path as the real table computes it (getBestPath(id, as))
			ans := "rsbest -"
			if d := w.s.rsRib.GetDestination(table.NewPath(bgp.RF_IPv4_UC, nil, bgp.PathNLRI{NLRI: c01rsNlri(k)}, true, nil, time.Time{}, false)); d != nil {
				kl := d.GetKnownPathList(vp.p.TableID(), vp.p.AS())
				if len(kl) > 0 {
					ans = fmt.Sprintf("rsbest %d", vwMarker(kl[0].GetPathAttrs()))
					if len(l) > 0 && kl[0] != l[0] {
						o.stat("client_best_is_not_head", 1)
					}
				} else if len(l) > 0 {
					o.stat("client_best_none_but_table_nonempty", 1)
				}
			}
			o.ask(ans, "rsbest %d %d", i, k)
		}
	}
	sc.oracle(history)
}

func c01rsRun(t *testing.T, o *vOut, r *vRand, nOps int, idx int, script []string) {
	w := newVWorld(t, 65000, "10.255.0.1")
	defer w.stop()
	sc := &c01rsScenario{w: w, o: o, src: map[uint32]int{}}
	o.op("world %d %d", w.as, c01rsU32(w.rid))
	history := []string{}
	note := func(f string, a ...any) {
		s := fmt.Sprintf(f, a...)
		history = append(history, s)
		o.op("%s", s)
	}
	addPeer := func(sp vwPeerSpec) {
		i := len(w.peers)
		w.addPeer(sp)
		o.stat("peer_kind_"+sp.kind, 1)
		note("peer %d %d %d %d %d 0 0 %d", i, c01rsKind(sp.kind), sp.as, c01rsU32(sp.rid), c01rsU32(sp.addr), sp.allowOwnAs)
	}
	ip := func(v int) netip.Addr { return netip.AddrFrom4([4]byte{byte(v >> 24), byte(v >> 16), byte(v >> 8), byte(v)}) }

	if script != nil {
		// a recorded history (corpus case): the same vocabulary as the model's protocol
		kinds := []string{"ebgp", "ibgp", "rrc", "rsc"}
		for _, line := range script {
			f := strings.Fields(line)
			n := func(i int) int { v := 0; fmt.Sscan(f[i], &v); return v }
			switch f[0] {
			case "peer":
				addPeer(vwPeerSpec{kind: kinds[n(2)], as: uint32(n(3)), rid: ip(n(4)), addr: ip(n(5)), allowOwnAs: uint8(n(8))})
				continue
			case "up":
				w.sessionUp(w.peers[n(1)], nil)
			case "down":
				w.sessionDown(w.peers[n(1)], fsmReadFailed)
			case "ann":
				rt := c01rsParseRoute(f[2:])
				sc.src[uint32(rt.marker)] = n(1)
				w.recv(w.peers[n(1)], rt.msg(w.peers[n(1)]))
			case "wd":
				w.recv(w.peers[n(1)], bgp.NewBGPUpdateMessage([]bgp.PathNLRI{{NLRI: c01rsNlri(n(2))}}, nil, nil))
			case "del":
				w.delPeer(w.peers[n(1)])
			case "ladd":
				rt := c01rsParseRoute(f[1:])
				sc.src[uint32(rt.marker)] = -1
				w.local(sc.localPath(rt, false))
			case "ldel":
				w.local(sc.localPath(&c01rsRoute{pfx: n(1)}, true))
			case "check":
				sc.check(history)
				continue
			default:
				t.Fatalf("bad script line %q", line)
			}
			note("%s", line)
		}
		sc.check(history)
		return
	}

	// 3-5 route-server clients, 1-2 ordinary peers, in random order
	nRS := 3 + r.intn(3)
	nOrd := 1 + r.intn(2)
	kinds := []string{}
	for i := 0; i < nRS; i++ {
		kinds = append(kinds, "rsc")
	}
	for i := 0; i < nOrd; i++ {
		kinds = append(kinds, []string{"ebgp", "ebgp", "ibgp", "rrc"}[r.intn(4)])
	}
	for i, j := range r.perm(len(kinds)) {
		if i < j {
			kinds[i], kinds[j] = kinds[j], kinds[i]
		}
	}
	ridPool := r.perm(12)
	mkSpec := func(i int, k string) vwPeerSpec {
		sp := vwPeerSpec{kind: k, as: 65000, rid: netip.AddrFrom4([4]byte{10, 0, 0, byte(1 + ridPool[i%12])}),
			addr: netip.AddrFrom4([4]byte{192, 168, 0, byte(1 + i)})}
		switch k {
		case "rsc":
			// clients are eBGP speakers of a few ASes (so some share one); rarely an iBGP client
			sp.as = uint32(r.pick(65001, 65002, 65003, 65004))
			if r.chance(6) {
				sp.as = 65000
			}
			if r.chance(10) {
				sp.allowOwnAs = 1
			}
			// another client with the same BGP identifier: a second session of the same router,
			// or a router of another AS that picked the same router-id (RFC 6286)
			if r.chance(18) {
				for _, q := range w.peers {
					if q.spec.kind == "rsc" && r.chance(60) {
						sp.rid = q.spec.rid
						if r.chance(35) {
							sp.as = q.spec.as
						}
						o.stat("client_shares_router_id", 1)
						break
					}
				}
			}
		case "ebgp":
			sp.as = uint32(r.pick(65011, 65012, 65001)) // may share an AS with a client
		}
		return sp
	}
	for i, k := range kinds {
		addPeer(mkSpec(i, k))
	}
	for i, vp := range w.peers {
		if r.chance(85) {
			w.sessionUp(vp, nil)
			note("up %d", i)
		}
	}
	latest := map[int]map[int]*c01rsRoute{}
	for n := 0; n < nOps; n++ {
		i := r.intn(len(w.peers))
		vp := w.peers[i]
		x := r.intn(100)
		if vp.deleted && !(x >= 92 && x < 94) {
			continue
		}
		switch {
		case x < 7:
			if vp.up {
				w.sessionDown(vp, fsmReadFailed)
				delete(latest, i)
				note("down %d", i)
				o.stat("op_down_"+vp.spec.kind, 1)
			} else {
				w.sessionUp(vp, nil)
				note("up %d", i)
				o.stat("op_up_"+vp.spec.kind, 1)
			}
		case x < 11:
			// a session comes up while another peer's UPDATE is being handled (after the initial
			// transfer, before the FSM goroutine stores the state)
			if vp.up {
				continue
			}
			var src *vwPeer
			si := 0
			for k, q := range w.peers {
				if q.up && !q.deleted && q != vp && (q.spec.kind == "rsc") == (vp.spec.kind == "rsc") {
					src, si = q, k
				}
			}
			if src == nil {
				continue
			}
			rt := sc.genRoute(r, src)
			sc.src[uint32(rt.marker)] = si
			w.sessionUp(vp, func() { w.recv(src, rt.msg(src)) })
			if latest[si] == nil {
				latest[si] = map[int]*c01rsRoute{}
			}
			latest[si][rt.pfx] = rt
			note("up %d", i)
			note("ann %d %s", si, rt.line())
			o.stat("op_up_with_update_in_window", 1)
		case x >= 97:
			// locally injected route / its removal: ordinary group only
			if r.chance(65) {
				sc.marker++
				rt := &c01rsRoute{pfx: r.intn(len(c01rsPrefixes)), marker: sc.marker, origin: uint8(r.pick(0, 2))}
				if r.chance(30) {
					rt.segs = [][]uint32{{2, uint32(r.pick(65001, 65002, 300))}}
				}
				sc.src[uint32(rt.marker)] = -1
				w.local(sc.localPath(rt, false))
				note("ladd %s", rt.line())
				o.stat("op_local_add", 1)
			} else {
				pfx := r.intn(len(c01rsPrefixes))
				w.local(sc.localPath(&c01rsRoute{pfx: pfx}, true))
				note("ldel %d 0", pfx)
				o.stat("op_local_del", 1)
			}
		case x >= 92 && x < 94:
			if len(w.peers) >= 9 {
				continue
			}
			k := len(w.peers)
			kind := "rsc"
			if r.chance(25) {
				kind = []string{"ebgp", "ibgp", "rrc"}[r.intn(3)]
			}
			addPeer(mkSpec(k, kind))
			o.stat("op_add_peer_"+kind, 1)
			if r.chance(75) {
				w.sessionUp(w.peers[k], nil)
				note("up %d", k)
			}
		case x >= 94:
			live := 0
			for _, q := range w.peers {
				if !q.deleted {
					live++
				}
			}
			if live < 3 {
				continue
			}
			w.delPeer(vp)
			delete(latest, i)
			note("del %d", i)
			o.stat("op_del_peer_"+vp.spec.kind, 1)
		case x < 68:
			if !vp.up {
				continue
			}
			rt := sc.genRoute(r, vp)
			if prev := latest[i][rt.pfx]; prev != nil && r.chance(12) {
				cp := *prev // re-announce exactly the stored route
				rt = &cp
				o.stat("op_reannounce_identical", 1)
			}
			sc.src[uint32(rt.marker)] = i
			w.recv(vp, rt.msg(vp))
			if latest[i] == nil {
				latest[i] = map[int]*c01rsRoute{}
			}
			latest[i][rt.pfx] = rt
			note("ann %d %s", i, rt.line())
			o.stat("op_ann_"+vp.spec.kind, 1)
		default:
			if !vp.up {
				continue
			}
			pfx := r.intn(len(c01rsPrefixes))
			w.recv(vp, bgp.NewBGPUpdateMessage([]bgp.PathNLRI{{NLRI: c01rsNlri(pfx)}}, nil, nil))
			if latest[i] != nil {
				delete(latest[i], pfx)
			}
			note("wd %d %d 0", i, pfx)
			o.stat("op_wd_"+vp.spec.kind, 1)
		}
		if r.chance(35) {
			sc.check(history)
		}
	}
	sc.check(history)
	if idx < 2 {
		o.sample(strings.Join(history, " ; "))
	}
}

func TestVerifC01RS(t *testing.T) {
	o := vOpen(t)
	defer o.close()
	r := &vRand{s: o.seed*7919 + 3}
	for _, sc := range c01rsBuiltinCorpus {
		c01rsRun(t, o, r, 0, 99, sc)
		o.stat("corpus_cases", 1)
	}
	n := 260
	if o.thorough {
		n = 2600
	}
	for i := 0; i < n; i++ {
		c01rsRun(t, o, r, 20+r.intn(60), i, nil)
		o.stat("histories", 1)
	}
}

// the built-in corpus (kept in the harness so that the check needs no extra files)
var c01rsBuiltinCorpus = [][]string{
	// corpus/C01RS/defect1-same-router-id-stuck-route.txt
	{
		"peer 0 3 65001 167772161 3232235521 0 0 0",
		"peer 1 3 65002 167772161 3232235522 0 0 0",
		"peer 2 3 65003 167772163 3232235523 0 0 0",
		"up 0",
		"up 1",
		"up 2",
		"ann 2 0 0 1 0 0 0 0 0 0 0 0 0 1 2 1 65003",
		"check",
		"ann 0 0 0 2 1 200 0 0 0 0 0 0 0 1 2 1 65001",
		"check",
		"wd 2 0 0",
	},
}
