//go:build verif

package server

// C11 session-level harness: "fits the session's maximum size" means the maximum of the CURRENT
// session. One fsm goes through two or three sessions (real fsm.stateChange(ESTABLISHED) with peer
// OPENs with / without the Extended Message and ADD-PATH capabilities, in every order); in every
// session a batch of route changes is handed to the real sendMessageloop over a capturing
// connection, inside a testing/synctest bubble (synctest.Wait = everything has been written).
// Oracle (no model): every message on the wire is at most the maximum negotiated by the LAST OPEN
// pair, the byte stream read with the options of the LAST OPEN pair (independent reader) leaves the
// receiver with exactly the last action per prefix, a route too large for this session is skipped
// and the others arrive. Correspondence: the messages on the wire, abstracted as in the table-level
// harness, equal Pack.wire of the Lean model under the options of the last OPEN pair.

import (
	"context"
	"encoding/binary"
	"encoding/hex"
	"fmt"
	"log/slog"
	"net"
	"net/netip"
	"sort"
	"strings"
	"sync"
	"testing"
	"testing/synctest"
	"time"

	"github.com/eapache/channels"
	"github.com/osrg/gobgp/v4/internal/pkg/table"
	"github.com/osrg/gobgp/v4/pkg/config/oc"
	"github.com/osrg/gobgp/v4/pkg/packet/bgp"
)

// c11sConn captures what is written; nothing is ever read from it
type c11sConn struct {
	mu  sync.Mutex
	buf []byte
}

func (c *c11sConn) Write(b []byte) (int, error) {
	c.mu.Lock()
	c.buf = append(c.buf, b...)
	c.mu.Unlock()
	return len(b), nil
}
func (c *c11sConn) Read(b []byte) (int, error)       { select {} }
func (c *c11sConn) Close() error                     { return nil }
func (c *c11sConn) SetDeadline(time.Time) error      { return nil }
func (c *c11sConn) SetReadDeadline(time.Time) error  { return nil }
func (c *c11sConn) SetWriteDeadline(time.Time) error { return nil }
func (c *c11sConn) LocalAddr() net.Addr              { return &net.TCPAddr{IP: net.IPv4(10, 0, 0, 1).To4(), Port: 179} }
func (c *c11sConn) RemoteAddr() net.Addr             { return &net.TCPAddr{IP: net.IPv4(10, 0, 0, 2).To4(), Port: 40000} }
func (c *c11sConn) take() []byte {
	c.mu.Lock()
	defer c.mu.Unlock()
	b := c.buf
	c.buf = nil
	return b
}

type c11sSession struct {
	ext bool // the peer's OPEN carries the Extended Message capability
	ap  bool // the peer's OPEN carries ADD-PATH with the receive bit for IPv4 unicast (we may send ids)
	aps bool // ... with the send bit (we negotiated receive; nothing changes on what we send)
}

func c11sOpen(s c11sSession) *bgp.BGPMessage {
	caps := []bgp.ParameterCapabilityInterface{
		bgp.NewCapMultiProtocol(bgp.RF_IPv4_UC),
		bgp.NewCapFourOctetASNumber(65002),
	}
	if s.ext {
		caps = append(caps, bgp.NewCapExtendedMessage())
	}
	if s.ap || s.aps {
		m := bgp.BGP_ADD_PATH_NONE
		if s.ap {
			m |= bgp.BGP_ADD_PATH_RECEIVE
		}
		if s.aps {
			m |= bgp.BGP_ADD_PATH_SEND
		}
		caps = append(caps, bgp.NewCapAddPath([]*bgp.CapAddPathTuple{bgp.NewCapAddPathTuple(bgp.RF_IPv4_UC, m)}))
	}
	msg, _ := bgp.NewBGPOpenMessage(65002, 0, netip.MustParseAddr("10.0.0.2"),
		[]bgp.OptionParameterInterface{bgp.NewOptionParameterCapability(caps)})
	return msg
}

type c11sAttrs struct {
	key   int
	attrs []bgp.PathAttributeInterface
	bytes string
	lenD  int
}

type c11sItem struct {
	eor  bool
	wd   bool
	bits int
	pfx  int // identity
	nlri *bgp.IPAddrPrefix
	wire string
	as   *c11sAttrs
	path *table.Path
}

type c11sWorld struct {
	o       *vOut
	r       *vRand
	attrTab map[string]*c11sAttrs
	pfxTab  map[string]int
	filler  []byte
}

func (w *c11sWorld) attrSet(target int, variant int) *c11sAttrs {
	nh, _ := bgp.NewPathAttributeNextHop(netip.AddrFrom4([4]byte{192, 0, 2, byte(1 + variant%200)}))
	attrs := []bgp.PathAttributeInterface{
		bgp.NewPathAttributeOrigin(uint8(variant % 3)),
		bgp.NewPathAttributeAsPath([]bgp.AsPathParamInterface{bgp.NewAs4PathParam(2, []uint32{65001, 65100 + uint32(variant)})}),
		nh,
	}
	cur := 0
	for _, a := range attrs {
		cur += a.Len()
	}
	rem := target - cur
	if rem >= 11 {
		c := (rem - 3 - 4) / 4
		if c > 900 {
			c = 900
		}
		cs := make([]uint32, c)
		for i := range cs {
			cs[i] = uint32(variant)<<16 | uint32(i)
		}
		ca := bgp.NewPathAttributeCommunities(cs)
		attrs = append(attrs, ca)
		rem -= ca.Len()
	}
	if rem >= 3 {
		v := rem - 3
		if v > 255 {
			v = rem - 4
			if v <= 255 {
				v = 255
			}
		}
		attrs = append(attrs, bgp.NewPathAttributeUnknown(bgp.BGP_ATTR_FLAG_OPTIONAL|bgp.BGP_ATTR_FLAG_TRANSITIVE, 240, append([]byte{}, w.filler[:v]...)))
	}
	var sb []byte
	lenD := 0
	for _, a := range attrs {
		b, _ := a.Serialize()
		sb = append(sb, b...)
		lenD += a.Len()
	}
	if s, ok := w.attrTab[string(sb)]; ok {
		return s
	}
	s := &c11sAttrs{key: len(w.attrTab) + 1, attrs: attrs, bytes: string(sb), lenD: lenD}
	w.attrTab[string(sb)] = s
	return s
}

func (w *c11sWorld) item(seed int, bits int, wd bool, as *c11sAttrs) *c11sItem {
	var b [4]byte
	binary.BigEndian.PutUint32(b[:], uint32(seed)*2654435761+12345)
	pfx := netip.PrefixFrom(netip.AddrFrom4(b), bits).Masked()
	n, _ := bgp.NewIPAddrPrefix(pfx)
	ser, _ := n.Serialize()
	k := pfx.String()
	id, ok := w.pfxTab[k]
	if !ok {
		id = len(w.pfxTab) + 1
		w.pfxTab[k] = id
	}
	it := &c11sItem{wd: wd, bits: bits, pfx: id, nlri: n, wire: hex.EncodeToString(ser), as: as}
	if wd {
		it.path = table.NewPath(bgp.RF_IPv4_UC, nil, bgp.PathNLRI{NLRI: n}, true, nil, time.Unix(1, 0), false)
	} else {
		it.path = table.NewPath(bgp.RF_IPv4_UC, nil, bgp.PathNLRI{NLRI: n}, false, as.attrs, time.Unix(1, 0), false)
	}
	return it
}

func (w *c11sWorld) batch(limit int, ap bool) []*c11sItem {
	r := w.r
	per := 5
	if ap {
		per = 9
	}
	var items []*c11sItem
	base := r.intn(1 << 20)
	switch r.intn(5) {
	case 0: // many prefixes, one small attribute set: packs far above 4096 when allowed
		as := w.attrSet(r.pick(0, 60, 300), r.intn(4))
		n := 850 + r.intn(900)
		for i := 0; i < n; i++ {
			items = append(items, w.item(base+i, r.pick(24, 24, 24, 32, 16), false, as))
		}
	case 1: // one route whose attributes fit only an extended session, and company
		big := w.attrSet(r.pick(4060, 4075, 4100, 5000, 9000), r.intn(4))
		items = append(items, w.item(base, 24, false, big))
		small := w.attrSet(40, r.intn(4))
		for i := 1; i < 2+r.intn(5); i++ {
			items = append(items, w.item(base+i, 24, false, small))
		}
	case 2: // k NLRIs land within ±8 octets of the 4096 / 65535 boundary
		k := r.pick(1, 2, 3, 17, 100, 400)
		lim := r.pick(4096, 4096, 65535)
		alen := lim - 23 - k*per + r.intn(17) - 8
		if alen < 30 {
			alen = 30
		}
		as := w.attrSet(alen, r.intn(4))
		for i := 0; i < k+r.intn(k+3); i++ {
			items = append(items, w.item(base+i, r.pick(32, 25, 24, 24, 8), false, as))
		}
	case 3: // withdrawals: more than fit one 4096-octet message
		n := 700 + r.intn(600)
		for i := 0; i < n; i++ {
			items = append(items, w.item(base+i, r.pick(24, 32), true, nil))
		}
	default: // mixed, repeated keys
		sets := []*c11sAttrs{w.attrSet(40, 1), w.attrSet(300, 2), w.attrSet(2000, 3)}
		n := 5 + r.intn(700)
		for i := 0; i < n; i++ {
			seed := base + i
			if i > 0 && r.chance(15) {
				seed = base + r.intn(i)
			}
			if r.chance(25) {
				items = append(items, w.item(seed, 24, true, nil))
			} else {
				items = append(items, w.item(seed, r.pick(24, 24, 20, 32), false, sets[r.intn(3)]))
			}
		}
	}
	if r.chance(40) {
		items = append(items, &c11sItem{eor: true, path: table.NewEOR(bgp.RF_IPv4_UC)})
	}
	return items
}

type c11sMsg struct {
	kind   string // w4 a4 eor other
	attrs  []byte // raw attribute TLVs (IPv4 announcements)
	nlris  []string
	ids    []uint32
	length int
}

func c11sReadNLRIs(b []byte, ap bool) (ks []string, ids []uint32, ok bool) {
	for len(b) > 0 {
		id := uint32(0)
		if ap {
			if len(b) < 4 {
				return nil, nil, false
			}
			id = binary.BigEndian.Uint32(b)
			b = b[4:]
		}
		if len(b) < 1 || int(b[0]) > 32 {
			return nil, nil, false
		}
		n := 1 + (int(b[0])+7)/8
		if len(b) < n {
			return nil, nil, false
		}
		ks = append(ks, hex.EncodeToString(b[:n]))
		ids = append(ids, id)
		b = b[n:]
	}
	return ks, ids, true
}

// c11sFrame splits the byte stream into messages and reads each UPDATE with the given ADD-PATH mode
func c11sFrame(stream []byte, ap bool) (msgs []c11sMsg, err string) {
	for len(stream) > 0 {
		if len(stream) < 19 {
			return msgs, "truncated header"
		}
		l := int(binary.BigEndian.Uint16(stream[16:18]))
		if l < 19 || l > len(stream) {
			return msgs, fmt.Sprintf("bad length field %d with %d octets left", l, len(stream))
		}
		m, typ := stream[:l], stream[18]
		stream = stream[l:]
		if typ == 4 {
			continue
		}
		if typ != 2 || l < 23 {
			return msgs, fmt.Sprintf("unexpected message type %d", typ)
		}
		b := m[19:]
		wl := int(binary.BigEndian.Uint16(b))
		if len(b) < 2+wl+2 {
			return msgs, "withdrawn routes length exceeds message"
		}
		wds, wids, ok := c11sReadNLRIs(b[2:2+wl], ap)
		if !ok {
			return msgs, "unreadable withdrawn routes (path identifiers present/absent against the negotiation?)"
		}
		b = b[2+wl:]
		al := int(binary.BigEndian.Uint16(b))
		if len(b) < 2+al {
			return msgs, "attribute length exceeds message"
		}
		anns, aids, ok := c11sReadNLRIs(b[2+al:], ap)
		if !ok {
			return msgs, "unreadable NLRI (path identifiers present/absent against the negotiation?)"
		}
		x := c11sMsg{length: l, attrs: b[2 : 2+al]}
		switch {
		case len(wds) > 0 && al == 0 && len(anns) == 0:
			x.kind, x.nlris, x.ids = "w4", wds, wids
		case len(wds) == 0 && len(anns) > 0:
			x.kind, x.nlris, x.ids = "a4", anns, aids
		case len(wds) == 0 && len(anns) == 0 && al == 0:
			x.kind = "eor"
		default:
			x.kind = "other"
		}
		msgs = append(msgs, x)
	}
	return msgs, ""
}

// one session of the scenario: establish, send a batch, judge, go down
func (w *c11sWorld) session(name string, h *fsmHandler, conn *c11sConn, hist []c11sSession) {
	o := w.o
	cur := hist[len(hist)-1]
	fsm := h.fsm
	fsm.recvOpen = c11sOpen(cur)
	fsm.stateChange(bgp.BGP_FSM_ESTABLISHED, newfsmStateReason(fsmOpenMsgNegotiated, nil, nil))

	// what the LAST OPEN pair negotiated: we always advertise Extended Message, and ADD-PATH send
	// for IPv4 unicast is configured locally, so both are decided by the peer's OPEN
	limit := bgp.BGP_MAX_MESSAGE_LENGTH
	if cur.ext {
		limit = bgp.BGP_MAX_EXTENDED_MESSAGE_LENGTH
	}
	ap := cur.ap
	encOpt := &bgp.MarshallingOption{ExtendedMessage: cur.ext, AddPath: map[bgp.Family]bgp.BGPAddPathMode{}}
	if ap {
		encOpt.AddPath[bgp.RF_IPv4_UC] = bgp.BGP_ADD_PATH_SEND
	}

	items := w.batch(limit, ap)
	o.stat("sessions", 1)
	o.stat(fmt.Sprintf("session_ext%d_ap%d", c11sB(cur.ext), c11sB(cur.ap)), 1)
	if len(hist) > 1 {
		prev := hist[len(hist)-2]
		o.stat(fmt.Sprintf("transition_ext%d_to_ext%d", c11sB(prev.ext), c11sB(cur.ext)), 1)
		o.stat(fmt.Sprintf("transition_ap%d_to_ap%d", c11sB(prev.ap), c11sB(cur.ap)), 1)
	}

	// model ops
	o.op("reset")
	// negotiated mode for IPv4 unicast: send iff the peer receives, receive iff the peer sends
	if mode := 2*c11sB(cur.ap) + c11sB(cur.aps); mode != 0 {
		o.op("opts %d 1 0 %d", c11sB(cur.ext), mode)
	} else {
		o.op("opts %d 0", c11sB(cur.ext))
	}
	o.stat(fmt.Sprintf("session_addpath_mode%d", 2*c11sB(cur.ap)+c11sB(cur.aps)), 1)
	paths := make([]*table.Path, 0, len(items))
	for _, it := range items {
		paths = append(paths, it.path)
		switch {
		case it.eor:
			o.op("eor 0")
		case it.wd:
			o.op("path 0 %d %d 0 0 0", it.bits, it.pfx)
		default:
			o.op("path 0 %d %d 0 %d 1 %d %d 0 0 0 0 0 0", it.bits, it.pfx, it.path.GetHash(), it.as.key, it.as.lenD)
		}
	}

	// the real sender
	ctx, cancel := context.WithCancel(context.Background())
	wg := &sync.WaitGroup{}
	wg.Add(1)
	reasonCh := make(chan fsmStateReason, 3)
	// hand the batch over in a few pieces, as fan-out does; the loop coalesces them
	for len(paths) > 0 {
		n := len(paths)
		if w.r.chance(50) && n > 1 {
			n = 1 + w.r.intn(n)
		}
		h.outgoing.In() <- &fsmOutgoingMsg{Paths: paths[:n]}
		paths = paths[n:]
	}
	synctest.Wait()
	go h.sendMessageloop(ctx, conn, reasonCh, wg)
	synctest.Wait()
	cancel()
	wg.Wait()
	stream := conn.take()

	detail := func(extra map[string]any) map[string]any {
		hs := []string{}
		for _, s := range hist {
			hs = append(hs, fmt.Sprintf("OPEN(ext=%v,addpath-rx=%v,addpath-tx=%v)", s.ext, s.ap, s.aps))
		}
		extra["scenario"] = name
		extra["sessions_on_this_fsm"] = hs
		extra["batch"] = c11sDescribe(items)
		return extra
	}

	msgs, ferr := c11sFrame(stream, ap)
	if ferr != "" {
		o.fail("wire-stream-unreadable-under-session-options", detail(map[string]any{"error": ferr}))
		o.ask("unreadable", "wire")
		fsm.stateChange(bgp.BGP_FSM_IDLE, newfsmStateReason(fsmReadFailed, nil, nil))
		return
	}

	// expected effect: last action per prefix; a route that cannot fit this session stays as it was
	const old = "OLD"
	view, want, last := map[string]string{}, map[string]string{}, map[string]*c11sItem{}
	wantEor := false
	for _, it := range items {
		if it.eor {
			wantEor = true
			continue
		}
		view[it.wire], want[it.wire], last[it.wire] = old, old, it
	}
	for k, it := range last {
		switch {
		case it.wd:
			delete(want, k)
		default:
			m := bgp.NewBGPUpdateMessage(nil, it.as.attrs, []bgp.PathNLRI{{NLRI: it.nlri}})
			b, _ := m.Body.Serialize(encOpt)
			if 19+len(b) <= limit {
				want[k] = hex.EncodeToString([]byte(it.as.bytes))
			} else {
				o.stat("routes_too_big_for_session", 1)
			}
		}
	}
	strs := []string{}
	gotEor, eorLast, alien := false, true, false
	for _, m := range msgs {
		o.stat("wire_msgs", 1)
		if m.length > 4096 {
			o.stat("wire_msgs_above_4096", 1)
		}
		if m.length > limit {
			o.fail("wire-message-exceeds-session-maximum", detail(map[string]any{"length": m.length, "session_maximum": limit}))
		}
		var sb strings.Builder
		switch m.kind {
		case "eor":
			gotEor = true
			strs = append(strs, fmt.Sprintf("eor 0 sz=%d ok=1", m.length))
			continue
		case "other":
			o.fail("wire-message-of-unexpected-shape", detail(map[string]any{"length": m.length}))
			continue
		case "w4":
			sb.WriteString("w4 ")
		case "a4":
			ak := 0
			if s, y := w.attrTab[string(m.attrs)]; y {
				ak = s.key
			}
			fmt.Fprintf(&sb, "a4 %d - ", ak)
		}
		if gotEor {
			eorLast = false
		}
		fmt.Fprintf(&sb, "n=%d ", len(m.nlris))
		for i, k := range m.nlris {
			if m.kind == "w4" {
				delete(view, k)
			} else {
				view[k] = hex.EncodeToString(m.attrs)
			}
			it := last[k]
			if it == nil {
				if !alien {
					// typically path identifiers present/absent against the negotiation of this session
					o.fail("route-not-in-input", detail(map[string]any{"nlri": k}))
					alien = true
				}
				continue
			}
			if i > 0 {
				sb.WriteByte(',')
			}
			fmt.Fprintf(&sb, "%d/%d/%d", it.bits, it.pfx, m.ids[i])
		}
		fmt.Fprintf(&sb, " sz=%d ok=1", m.length)
		strs = append(strs, sb.String())
	}
	sort.Strings(strs)
	o.ask(strings.Join(strs, " | "), "wire")

	bad := ""
	for k, v := range want {
		if view[k] != v {
			bad = k
			break
		}
	}
	for k := range view {
		if _, y := want[k]; !y {
			bad = k
		}
	}
	if bad != "" {
		g, e := view[bad], want[bad]
		o.fail("receiver-view-differs", detail(map[string]any{"nlri": bad, "got": g[:c11sMin(len(g), 60)], "want": e[:c11sMin(len(e), 60)]}))
	}
	if wantEor != gotEor {
		o.fail("eor-lost-or-spurious", detail(map[string]any{"want": wantEor, "got": gotEor}))
	}
	if !eorLast {
		o.fail("eor-not-last-of-family", detail(map[string]any{}))
	}
	if len(items) >= 3 && len(items) <= 8 {
		o.sample(fmt.Sprintf("%s %v => %s", name, detail(map[string]any{}), strings.Join(strs, " | ")[:c11sMin(len(strings.Join(strs, " | ")), 300)]))
	}
	fsm.stateChange(bgp.BGP_FSM_IDLE, newfsmStateReason(fsmReadFailed, nil, nil))
}

func c11sDescribe(items []*c11sItem) []string {
	l := []string{}
	for i, it := range items {
		if i >= 12 {
			l = append(l, fmt.Sprintf("… %d more", len(items)-i))
			break
		}
		switch {
		case it.eor:
			l = append(l, "eor")
		case it.wd:
			l = append(l, "wd "+it.nlri.String())
		default:
			l = append(l, fmt.Sprintf("ann %s attrsLen=%d(set%d)", it.nlri, it.as.lenD, it.as.key))
		}
	}
	return l
}

func c11sB(x bool) int {
	if x {
		return 1
	}
	return 0
}
func c11sMin(a, b int) int {
	if a < b {
		return a
	}
	return b
}

// scenario: one fsm, the given sequence of peer OPENs
func (w *c11sWorld) scenario(name string, seq []c11sSession) {
	synctest.Test(w.o.t.(*testing.T), func(t *testing.T) {
		conn := &c11sConn{}
		neigh := &oc.Neighbor{AfiSafis: []oc.AfiSafi{{
			Config:   oc.AfiSafiConfig{AfiSafiName: oc.AFI_SAFI_TYPE_IPV4_UNICAST, Enabled: true},
			State:    oc.AfiSafiState{AfiSafiName: oc.AFI_SAFI_TYPE_IPV4_UNICAST, Enabled: true, Family: bgp.RF_IPv4_UC},
			AddPaths: oc.AddPaths{Config: oc.AddPathsConfig{SendMax: 4, Receive: true}, State: oc.AddPathsState{SendMax: 4, Receive: true}},
		}}}
		f := newFSM(&oc.Global{}, neigh, bgp.BGP_FSM_IDLE, slog.New(slog.DiscardHandler))
		f.conn = conn
		h := &fsmHandler{fsm: f, outgoing: channels.NewInfiniteChannel(), callback: func(*fsmMsg) {}}
		f.h = h
		for i := range seq {
			w.session(name, h, conn, seq[:i+1])
		}
		h.outgoing.Close()
		f.outgoingCh.Close()
		synctest.Wait()
	})
}

func TestVerifC11Server(t *testing.T) {
	o := vOpen(t)
	defer o.close()
	r := &vRand{s: o.seed*7919 + 111}
	w := &c11sWorld{o: o, r: r, attrTab: map[string]*c11sAttrs{}, pfxTab: map[string]int{}, filler: make([]byte, 70000)}
	for i := range w.filler {
		w.filler[i] = byte(i*5 + 3)
	}
	all := []c11sSession{{false, false, r.chance(50)}, {true, false, r.chance(50)}, {false, true, r.chance(50)}, {true, true, r.chance(50)}}
	rounds := 2
	if o.thorough {
		rounds = 10
	}
	for rd := 0; rd < rounds; rd++ {
		// every ordered pair of OPENs (the capability appears, disappears, stays)
		for _, a := range all {
			for _, b := range all {
				w.scenario("two_sessions", []c11sSession{a, b})
			}
		}
		// three sessions: every order of the Extended Message capability, ADD-PATH at random
		for m := 0; m < 8; m++ {
			w.scenario("three_sessions", []c11sSession{
				{m&1 != 0, r.chance(50), r.chance(50)}, {m&2 != 0, r.chance(50), r.chance(50)}, {m&4 != 0, r.chance(50), r.chance(50)}})
		}
	}
}
