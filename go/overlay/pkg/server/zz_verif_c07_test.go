//go:build verif

package server

// C07 — peering sessions follow the RFC 4271 state machine, timers included.
//
// Session harness: a whole BgpServer + the real fsm.go loops run inside a testing/synctest bubble
// (virtual time); the remote speaker is scripted by the harness over an in-memory connection.
// Every message the daemon writes is recorded with its virtual timestamp; after each event the
// harness waits for quiescence (synctest.Wait) and asks the Lean model (Model/Fsm.lean) for the
// same event.  Independently of the model, an oracle restates the property on what was observed.

import (
	"context"
	"encoding/binary"
	"errors"
	"fmt"
	"go/ast"
	"go/parser"
	"go/token"
	"io"
	"log/slog"
	"net"
	"net/netip"
	"os"
	"runtime"
	"sort"
	"strings"
	"sync"
	"syscall"
	"testing"
	"testing/synctest"
	"time"

	"github.com/osrg/gobgp/v4/api"
	"github.com/osrg/gobgp/v4/pkg/config/oc"
	"github.com/osrg/gobgp/v4/pkg/packet/bgp"
)

// ---------------------------------------------------------------------------------------------
// in-memory connection that looks like TCP to the daemon

type c07Conn struct {
	net.Conn
	local, remote *net.TCPAddr
}

func (c *c07Conn) LocalAddr() net.Addr  { return c.local }
func (c *c07Conn) RemoteAddr() net.Addr { return c.remote }
func (c *c07Conn) SyscallConn() (syscall.RawConn, error) {
	return nil, errors.New("verif: in-memory conn")
}

// c07Remote is the scripted speaker's end of one connection.
type c07Remote struct {
	tag    string // "p" passive (remote connected to the daemon), "o" outgoing (daemon's own)
	mine   net.Conn
	theirs *c07Conn
	closed bool // closed by the script
	dead   bool // closed by the daemon (seen by the reader)
}

type c07Rec struct {
	mu          sync.Mutex
	start       time.Time
	out         []string // messages written by the daemon, in order: "<tag>:<what>@<sec>"
	state       []string // peer state events from the watcher "OLD>NEW/admin"
	reason      []string // their state reasons (fsmStateReason.String()), same indices
	lastReasons []string // reasons of the transitions returned by the last drain()
}

func (r *c07Rec) now() int { return int(time.Since(r.start) / time.Second) }
func (r *c07Rec) add(s string) {
	r.mu.Lock()
	r.out = append(r.out, fmt.Sprintf("%s@%d", s, r.now()))
	r.mu.Unlock()
}
func (r *c07Rec) addState(s string, reason string) {
	r.mu.Lock()
	r.state = append(r.state, s)
	r.reason = append(r.reason, reason)
	r.mu.Unlock()
}
func (r *c07Rec) drain() (out, st []string) {
	r.mu.Lock()
	out, st = r.out, r.state
	r.lastReasons = r.reason
	r.out, r.state, r.reason = nil, nil, nil
	r.mu.Unlock()
	return
}

// reader parses what the daemon writes on a connection.
func (r *c07Rec) reader(rem *c07Remote) {
	for {
		h := make([]byte, 19)
		if _, err := io.ReadFull(rem.mine, h); err != nil {
			r.mu.Lock()
			rem.dead = true
			r.mu.Unlock()
			if !rem.closed {
				r.add(rem.tag + ":close")
			}
			return
		}
		l := int(binary.BigEndian.Uint16(h[16:18]))
		body := make([]byte, l-19)
		if _, err := io.ReadFull(rem.mine, body); err != nil {
			r.mu.Lock()
			rem.dead = true
			r.mu.Unlock()
			if !rem.closed {
				r.add(rem.tag + ":close")
			}
			return
		}
		switch h[18] {
		case bgp.BGP_MSG_OPEN:
			r.add(rem.tag + ":open")
		case bgp.BGP_MSG_KEEPALIVE:
			r.add(rem.tag + ":ka")
		case bgp.BGP_MSG_UPDATE:
			r.add(rem.tag + ":update")
		case bgp.BGP_MSG_NOTIFICATION:
			r.add(fmt.Sprintf("%s:notif-%d-%d", rem.tag, body[0], body[1]))
		default:
			r.add(fmt.Sprintf("%s:msg-%d", rem.tag, h[18]))
		}
	}
}

func c07Pipe(tag string, remoteIP, localIP string, port int) *c07Remote {
	a, b := net.Pipe()
	return &c07Remote{tag: tag, mine: a, theirs: &c07Conn{Conn: b,
		local:  &net.TCPAddr{IP: net.ParseIP(localIP).To4(), Port: 179},
		remote: &net.TCPAddr{IP: net.ParseIP(remoteIP).To4(), Port: port}}}
}

// ---------------------------------------------------------------------------------------------
// configuration of one scenario

type c07Cfg struct {
	kaSet           bool // keepalive-interval configured explicitly (else the default hold-time/3)
	ka              int
	localAS, peerAS uint32 // peerAS: configured (0 = any)
	localID         string
	hold            int // configured hold time
	prefixLimit     int // 0 = none
	idleAfterReset  int
}

const (
	c07PeerAddr  = "10.0.0.2"
	c07LocalAddr = "10.0.0.1"
)

type c07Sess struct {
	t     *testing.T
	cfg   c07Cfg
	s     *BgpServer
	peer  *peer
	rec   *c07Rec
	pas   *c07Remote
	out   *c07Remote
	w     *watcher
	nPfx  int
	extra []*c07Remote
	// the speaker described by the last OPEN (for the UPDATEs it sends)
	queuedC       *c07Remote   // completed outgoing connection handed to fsm.outgoingConnCh during a session
	all           []*c07Remote // every connection of the scenario
	remoteAS      int
	lastOpen      string
	twoByte       bool
	inEstablished bool // reported state before the current event
}

func c07Start(t *testing.T, cfg c07Cfg) *c07Sess { return c07StartPeer(t, cfg, nil) }

// cfgKa is the configured keepalive interval in whole seconds (time.Duration(float) truncates)
func (c c07Cfg) cfgKa() int {
	if c.kaSet {
		return c.ka
	}
	return c.hold / 3
}

// c07PeerConf is the passive single-family peer of the session scenarios
func c07PeerConf(cfg c07Cfg) *api.Peer {
	p := &api.Peer{
		Conf:      &api.PeerConf{NeighborAddress: c07PeerAddr, PeerAsn: cfg.peerAS},
		Transport: &api.Transport{PassiveMode: true},
		Timers: &api.Timers{Config: &api.TimersConfig{HoldTime: uint64(cfg.hold),
			KeepaliveInterval: uint64(cfg.cfgKa()), IdleHoldTimeAfterReset: uint64(cfg.idleAfterReset)}},
	}
	if cfg.prefixLimit > 0 {
		p.AfiSafis = []*api.AfiSafi{{
			Config: &api.AfiSafiConfig{Family: &api.Family{Afi: api.Family_AFI_IP, Safi: api.Family_SAFI_UNICAST}, Enabled: true},
			PrefixLimits: &api.PrefixLimit{Family: &api.Family{Afi: api.Family_AFI_IP, Safi: api.Family_SAFI_UNICAST},
				MaxPrefixes: uint32(cfg.prefixLimit)},
		}}
	}
	return p
}

func c07StartPeer(t *testing.T, cfg c07Cfg, peerConf *api.Peer) *c07Sess {
	ss := &c07Sess{t: t, cfg: cfg, rec: &c07Rec{start: time.Now()}}
	s := NewBgpServer()
	ss.s = s
	go s.Serve()
	if err := s.StartBgp(context.Background(), &api.StartBgpRequest{Global: &api.Global{
		Asn: cfg.localAS, RouterId: cfg.localID, ListenPort: -1}}); err != nil {
		t.Fatal(err)
	}
	w, err := s.watch(WatchPeer())
	if err != nil {
		t.Fatal(err)
	}
	ss.w = w
	go func() {
		for ev := range w.Event() {
			if p, ok := ev.(*watchEventPeer); ok {
				why := ""
				if p.StateReason != nil {
					why = p.StateReason.String()
				}
				ss.rec.addState(fmt.Sprintf("%d>%d/%d@%d", int(p.OldState), int(p.State), int(p.AdminState), ss.rec.now()), why)
			}
		}
	}()
	p := peerConf
	if p == nil {
		p = c07PeerConf(cfg)
	}
	if err := s.AddPeer(context.Background(), &api.AddPeerRequest{Peer: p}); err != nil {
		t.Fatal(err)
	}
	_ = s.mgmtOperation(func() error {
		ss.peer = s.neighborMap[netip.MustParseAddr(c07PeerAddr)]
		// the API turns hold-time 0 / keepalive-interval 0 into the defaults; a configuration
		// file can set them (viper.IsSet): put the exact values where the file would
		f := ss.peer.fsm
		f.lock.Lock()
		conf := f.pConf.ReadCopy()
		conf.Timers.Config.HoldTime = float64(cfg.hold)
		if cfg.kaSet {
			conf.Timers.Config.KeepaliveInterval = float64(cfg.ka)
		} else {
			conf.Timers.Config.KeepaliveInterval = float64(cfg.hold) / 3
		}
		f.pConf.Update(&conf)
		f.lock.Unlock()
		return nil
	}, false)
	synctest.Wait()
	return ss
}

func (ss *c07Sess) stop() {
	for _, c := range append([]*c07Remote{ss.pas, ss.out, ss.queuedC}, ss.extra...) {
		if c != nil {
			ss.rec.mu.Lock()
			c.closed = true
			ss.rec.mu.Unlock()
			c.mine.Close()
		}
	}
	ss.w.Stop()
	ss.s.Stop()
	synctest.Wait()
	// cleanInfiniteChannel() drains without blocking: with two or more items still queued the
	// channel's pump goroutine would stay blocked for ever, which a bubble reports as a deadlock
	// (a goroutine leak of gobgp outside this property).  Finish the drain here.
	for range ss.peer.fsm.outgoingCh.Out() {
	}
	synctest.Wait()
}

func (ss *c07Sess) live(rem *c07Remote) bool {
	if rem == nil {
		return false
	}
	ss.rec.mu.Lock()
	defer ss.rec.mu.Unlock()
	return !rem.closed && !rem.dead
}

// cur is the connection the session runs on (the outgoing one after a hand-over).
func (ss *c07Sess) cur() *c07Remote {
	if ss.live(ss.out) {
		return ss.out
	}
	if ss.live(ss.pas) {
		return ss.pas
	}
	return nil
}

// connect: the remote opens a TCP connection to the daemon.  While a connection is alive the
// new one is an extra one (tag x) that the daemon has to refuse.
func (ss *c07Sess) connect() {
	tag := "p"
	if ss.cur() != nil {
		tag = "x"
	}
	rem := c07Pipe(tag, c07PeerAddr, c07LocalAddr, 40000)
	if tag == "p" {
		ss.pas = rem
	} else {
		ss.extra = append(ss.extra, rem)
	}
	ss.all = append(ss.all, rem)
	go ss.rec.reader(rem)
	_ = ss.s.mgmtOperation(func() error { ss.s.passConnToPeer(rem.theirs); return nil }, false)
}

// outgoing: play the outgoing-connection manager: a connection on which OPENs were exchanged.
func (ss *c07Sess) outgoing(open []byte) {
	rem := c07Pipe("o", c07PeerAddr, c07LocalAddr, 179)
	if st := ss.peer.fsm.state.Load(); st == bgp.BGP_FSM_OPENCONFIRM || st == bgp.BGP_FSM_ESTABLISHED {
		ss.queuedC = rem // nobody reads fsm.outgoingConnCh in these states: it waits there
	} else {
		ss.out = rem
	}
	ss.all = append(ss.all, rem)
	go ss.rec.reader(rem)
	om, _ := bgp.ParseBGPMessage(open)
	ss.peer.fsm.outgoingConnCh <- outgoingConn{conn: rem.theirs, open: om}
}

func (ss *c07Sess) closeCur() {
	if c := ss.cur(); c != nil {
		ss.rec.mu.Lock()
		c.closed = true
		ss.rec.mu.Unlock()
		c.mine.Close()
	}
}

func (ss *c07Sess) send(rem *c07Remote, b []byte) {
	if rem == nil || rem.closed {
		return
	}
	rem.mine.SetWriteDeadline(time.Now().Add(time.Second))
	_, _ = rem.mine.Write(b)
}

// c07OpenLayout builds an OPEN from its wire-level AS fields: the 2-octet My-AS field and the
// layout of its optional parameters: parameters separated by `|`; `u` a non-capability parameter
// (type 1, deprecated authentication information); `c:` a capability parameter (type 2) with
// its capabilities separated by `,`: `m` multiprotocol IPv4 unicast, `r` route refresh, `a<v>` the
// 4-octet-AS capability with value v; `-` no optional parameter at all.
func c07OpenLayout(myas int, layout string, id string, hold int, version int) []byte {
	var params []bgp.OptionParameterInterface
	if layout != "-" {
		for _, p := range strings.Split(layout, "|") {
			if !strings.HasPrefix(p, "c:") {
				params = append(params, &bgp.OptionParameterUnknown{ParamType: 1, ParamLen: 2, Value: []byte{0, 0}})
				continue
			}
			var caps []bgp.ParameterCapabilityInterface
			for _, c := range strings.Split(p[2:], ",") {
				switch {
				case c == "m":
					caps = append(caps, bgp.NewCapMultiProtocol(bgp.RF_IPv4_UC))
				case c == "r":
					caps = append(caps, bgp.NewCapRouteRefresh())
				case strings.HasPrefix(c, "a"):
					var v uint32
					fmt.Sscanf(c[1:], "%d", &v)
					caps = append(caps, bgp.NewCapFourOctetASNumber(v))
				}
			}
			params = append(params, bgp.NewOptionParameterCapability(caps))
		}
	}
	m, _ := bgp.NewBGPOpenMessage(uint16(myas), uint16(hold), netip.MustParseAddr(id), params)
	m.Body.(*bgp.BGPOpen).Version = uint8(version)
	b, _ := m.Serialize()
	return b
}

// c07OpenWire: the usual layout, one capability parameter
func c07OpenWire(myas int, hascap bool, capas int, id string, hold int, version int) []byte {
	return c07OpenLayout(myas, c07Ev{as: capas, nocap: !hascap}.lay(), id, hold, version)
}

// c07MyAS is the My-AS field a well-behaved speaker of AS `as` sends (RFC 6793)
func c07MyAS(as int) int {
	if as > 65535 {
		return bgp.AS_TRANS
	}
	return as
}

// c07Open: the OPEN of a well-behaved 4-octet capable speaker
func c07Open(as uint32, id string, hold int, version int) []byte {
	return c07OpenWire(c07MyAS(int(as)), true, int(as), id, hold, version)
}

func c07Keepalive() []byte { b, _ := bgp.NewBGPKeepAliveMessage().Serialize(); return b }

func c07Notification(code, sub uint8) []byte {
	b, _ := bgp.NewBGPNotificationMessage(code, sub, nil).Serialize()
	return b
}

func c07RouteRefresh() []byte {
	b, _ := bgp.NewBGPRouteRefreshMessage(1, 0, 1).Serialize()
	return b
}

// update announces n fresh /24 prefixes the way the speaker the last OPEN described would:
// empty AS_PATH + LOCAL_PREF towards an internal peer, its own AS otherwise, 2-octet AS_PATH
// encoding if its OPEN carried no 4-octet-AS capability
func (ss *c07Sess) update(n int, ibgp bool) []byte {
	nlri := make([]bgp.PathNLRI, 0, n)
	for i := 0; i < n; i++ {
		ss.nPfx++
		p, _ := bgp.NewIPAddrPrefix(netip.MustParsePrefix(fmt.Sprintf("20.%d.%d.0/24", (ss.nPfx>>8)&255, ss.nPfx&255)))
		nlri = append(nlri, bgp.PathNLRI{NLRI: p})
	}
	nh, _ := bgp.NewPathAttributeNextHop(netip.MustParseAddr(c07PeerAddr))
	var attrs []bgp.PathAttributeInterface
	switch {
	case ibgp || !ss.inEstablished:
		// outside ESTABLISHED the daemon still parses with the options of the previous session
		// (AS width): use the encoding that does not depend on them
		attrs = []bgp.PathAttributeInterface{
			bgp.NewPathAttributeOrigin(0),
			bgp.NewPathAttributeAsPath(nil),
			nh,
			bgp.NewPathAttributeLocalPref(100),
		}
	case ss.twoByte:
		attrs = []bgp.PathAttributeInterface{
			bgp.NewPathAttributeOrigin(0),
			bgp.NewPathAttributeAsPath([]bgp.AsPathParamInterface{bgp.NewAsPathParam(bgp.BGP_ASPATH_ATTR_TYPE_SEQ, []uint16{uint16(ss.remoteAS)})}),
			nh,
		}
	default:
		attrs = []bgp.PathAttributeInterface{
			bgp.NewPathAttributeOrigin(0),
			bgp.NewPathAttributeAsPath([]bgp.AsPathParamInterface{bgp.NewAs4PathParam(bgp.BGP_ASPATH_ATTR_TYPE_SEQ, []uint32{uint32(ss.remoteAS)})}),
			nh,
		}
	}
	b, _ := bgp.NewBGPUpdateMessage(nil, attrs, nlri).Serialize()
	return b
}

func (ss *c07Sess) ribCount() int {
	n := 0
	_ = ss.s.mgmtOperation(func() error {
		n = ss.peer.adjRibIn.Count([]bgp.Family{bgp.RF_IPv4_UC})
		return nil
	}, false)
	return n
}

func (ss *c07Sess) globalCount() int {
	n := 0
	_ = ss.s.mgmtOperation(func() error {
		n = len(ss.s.globalRib.GetPathList("", 0, []bgp.Family{bgp.RF_IPv4_UC}))
		return nil
	}, false)
	return n
}

// reported state through the API
func (ss *c07Sess) listPeer() (sess, admin int, found bool) {
	_ = ss.s.ListPeer(context.Background(), &api.ListPeerRequest{Address: c07PeerAddr}, func(p *api.Peer) {
		found = true
		sess = int(p.State.SessionState)
		admin = int(p.State.AdminState)
	})
	return
}

// ---------------------------------------------------------------------------------------------
// events

type c07Ev struct {
	kind              string // connect outgoing open keepalive update refresh notification badheader close tick enable disable shutdown reset delete
	ver, as, id, hold int    // open / outgoing; as = value of the 4-octet-AS capability
	myas              int    // … the 2-octet My-AS field
	nocap             bool   // … OPEN without the 4-octet-AS capability
	layout            string // … explicit layout of the optional parameters ("" = the usual single capability parameter)
	n                 int    // update: prefixes, badheader: kind, tick: seconds
}

func (e c07Ev) line() string {
	switch e.kind {
	case "open", "outgoing":
		return fmt.Sprintf("ev %s %s", e.kind, e.wire())
	case "update", "tick", "connlost":
		return fmt.Sprintf("ev %s %d", e.kind, e.n)
	case "badheader":
		return fmt.Sprintf("ev badheader %d", e.n)
	}
	return "ev " + e.kind
}

// lay is the layout of the optional parameters (see c07OpenLayout)
func (e c07Ev) lay() string {
	switch {
	case e.layout != "":
		return e.layout
	case e.nocap:
		return "c:m,r"
	}
	return fmt.Sprintf("c:m,a%d,r", e.as)
}

// wire renders the OPEN for the model: version, My-AS, parameter layout, id, hold
func (e c07Ev) wire() string {
	return fmt.Sprintf("%d %d %s %d %d", e.ver, e.myas, e.lay(), e.id, e.hold)
}

// eff is the AS the OPEN announces per RFC 6793 / RFC 5492 — its SEMANTIC content: the value of
// the 4-octet-AS capability if the OPEN carries one in ANY capability parameter, the My-AS
// field otherwise (restated here for the oracle, independent of model and code; the generator
// never repeats the capability with different values)
func (e c07Ev) eff() int {
	as := e.myas
	for _, p := range strings.Split(e.lay(), "|") {
		if strings.HasPrefix(p, "c:") {
			for _, c := range strings.Split(p[2:], ",") {
				if strings.HasPrefix(c, "a") {
					fmt.Sscanf(c[1:], "%d", &as)
				}
			}
		}
	}
	return as
}

// c07GenLayout spreads the capabilities {multiprotocol, route refresh, 4-octet AS unless nocap}
// over one to three capability parameters in a random order, sometimes repeats the 4-octet-AS
// capability in another parameter and sometimes puts non-capability parameters around them
func c07GenLayout(r *vRand, as int, nocap bool) string {
	caps := []string{"m", "r"}
	if !nocap {
		caps = append(caps, fmt.Sprintf("a%d", as))
	}
	pm := r.perm(len(caps))
	n := 1 + r.intn(3)
	groups := make([][]string, n)
	for i, k := range pm {
		g := i % n
		if r.chance(30) {
			g = r.intn(n)
		}
		groups[g] = append(groups[g], caps[k])
	}
	if !nocap && r.chance(25) {
		g := r.intn(n)
		groups[g] = append(groups[g], fmt.Sprintf("a%d", as))
	}
	var ps []string
	for _, g := range groups {
		if r.chance(20) {
			ps = append(ps, "u")
		}
		if len(g) > 0 {
			ps = append(ps, "c:"+strings.Join(g, ","))
		}
	}
	if r.chance(10) {
		ps = append(ps, "u")
	}
	return strings.Join(ps, "|")
}

// c07OpenEv: OPEN of a well-behaved 4-octet capable speaker of AS `as`
func c07OpenEv(kind string, as, id, hold int) c07Ev {
	return c07Ev{kind: kind, ver: 4, as: as, myas: c07MyAS(as), id: id, hold: hold}
}

func (e c07Ev) bytes() []byte {
	return c07OpenLayout(e.myas, e.lay(), c07ID(e.id), e.hold, e.ver)
}

func c07ID(id int) string {
	return netip.AddrFrom4([4]byte{byte(id >> 24), byte(id >> 16), byte(id >> 8), byte(id)}).String()
}

func c07IDNum(s string) int {
	a := netip.MustParseAddr(s).As4()
	return int(binary.BigEndian.Uint32(a[:]))
}

func c07BadHeader(k int) []byte {
	h := make([]byte, 19)
	for i := 0; i < 16; i++ {
		h[i] = 0xff
	}
	binary.BigEndian.PutUint16(h[16:18], 19)
	h[18] = bgp.BGP_MSG_KEEPALIVE
	switch k {
	case 0:
		h[3] = 0
	case 1:
		binary.BigEndian.PutUint16(h[16:18], 18)
	case 2:
		binary.BigEndian.PutUint16(h[16:18], 5000)
		h[18] = bgp.BGP_MSG_UPDATE
	case 3:
		h[18] = 9
	}
	return h
}

func (ss *c07Sess) apply(e c07Ev, ibgp bool) {
	ctx := context.Background()
	switch e.kind {
	case "connect":
		ss.connect()
	case "outgoing":
		ss.outgoing(e.bytes())
	case "open":
		ss.send(ss.cur(), e.bytes())
	case "keepalive":
		ss.send(ss.cur(), c07Keepalive())
	case "update":
		ss.send(ss.cur(), ss.update(e.n, ibgp))
	case "refresh":
		ss.send(ss.cur(), c07RouteRefresh())
	case "notification":
		ss.send(ss.cur(), c07Notification(6, 2))
	case "badheader":
		ss.send(ss.cur(), c07BadHeader(e.n))
	case "close":
		ss.closeCur()
	case "connlost":
		// the transport dies inside a message: 1 inside the header, 2 right after a complete,
		// valid header that announces a body, 3 inside that body
		msg := ss.update(1, ibgp)
		cut := map[int]int{1: 10, 2: bgp.BGP_HEADER_LENGTH, 3: bgp.BGP_HEADER_LENGTH + (len(msg)-bgp.BGP_HEADER_LENGTH)/2}[e.n]
		if e.n == 3 && ss.nPfx%2 == 0 {
			msg = c07Open(65002, "2.2.2.2", 90, 4) // … of an OPEN as well as of an UPDATE
			cut = bgp.BGP_HEADER_LENGTH + 5
		}
		ss.send(ss.cur(), msg[:cut])
		ss.closeCur()
	case "tick":
		time.Sleep(time.Duration(e.n) * time.Second)
	case "enable":
		_ = ss.s.EnablePeer(ctx, &api.EnablePeerRequest{Address: c07PeerAddr})
	case "disable":
		_ = ss.s.DisablePeer(ctx, &api.DisablePeerRequest{Address: c07PeerAddr})
	case "shutdown":
		_ = ss.s.ShutdownPeer(ctx, &api.ShutdownPeerRequest{Address: c07PeerAddr})
	case "reset":
		_ = ss.s.ResetPeer(ctx, &api.ResetPeerRequest{Address: c07PeerAddr})
	case "delete":
		_ = ss.s.DeletePeer(ctx, &api.DeletePeerRequest{Address: c07PeerAddr})
	}
	synctest.Wait()
}

// observation after an event, in the model's rendering
type c07Obs struct {
	out, st    []string
	reasons    []string // state reasons of st, not part of the compared answer
	fsm, admin int      // bgp.FSMState / adminState numbering; fsm = -1: peer gone
	rib        int
	global     int
	peerAS     int // State.PeerAs, part of the answer in ESTABLISHED
	peerType   string
}

func (ss *c07Sess) observe() c07Obs {
	out, st := ss.rec.drain()
	// a keepalive written at the very instant the hold timer fires races with the
	// NOTIFICATION (two timers of one instant, two goroutines): it may appear just before or
	// just after it.  Dropped on both sides (the model lets the hold timer win).
	at := func(s string) string { return s[strings.Index(s, "@"):] }
	canon := make([]string, 0, len(out))
	for i, s := range out {
		if strings.Contains(s, ":ka@") {
			if i+1 < len(out) && strings.Contains(out[i+1], ":notif-4-0@") && at(s) == at(out[i+1]) {
				continue
			}
			if i > 0 && strings.Contains(out[i-1], ":notif-4-0@") && at(s) == at(out[i-1]) {
				continue
			}
		}
		canon = append(canon, s)
	}
	// what is written on different connections is seen by different readers: only the order on
	// each connection is defined; connections in the fixed order p, x, o (as the model renders)
	sort.SliceStable(canon, func(i, j int) bool {
		return strings.Index("pxo", canon[i][:1]) < strings.Index("pxo", canon[j][:1])
	})
	for i, s := range st {
		if strings.HasPrefix(s, "-1>") {
			st[i] = "deleted" + s[strings.Index(s, "@"):]
		}
	}
	ob := c07Obs{out: canon, st: st, reasons: ss.rec.lastReasons, rib: ss.ribCount(), global: ss.globalCount()}
	pc := ss.peer.fsm.pConf.ReadOnly()
	ob.peerAS, ob.peerType = int(pc.State.PeerAs), string(pc.State.PeerType)
	se, ad, found := ss.listPeer()
	if found {
		ob.fsm, ob.admin = se-1, ad-1
	} else {
		ob.fsm, ob.admin = -1, int(ss.peer.fsm.adminState.Load())
	}
	return ob
}

func (ob c07Obs) String() string {
	f := fmt.Sprint(ob.fsm)
	if ob.fsm < 0 {
		f = "gone"
	}
	peer := ""
	if ob.fsm == 5 {
		peer = fmt.Sprintf(" peer=%d", ob.peerAS)
	}
	return fmt.Sprintf("out=[%s] st=[%s] fsm=%s admin=%d rib=%d%s", strings.Join(ob.out, " "), strings.Join(ob.st, " "), f, ob.admin, ob.rib, peer)
}

// ---------------------------------------------------------------------------------------------
// implementation-side oracle: the property restated from the RFCs, no model involved

var c07Allowed = map[[2]int]bool{
	{0, 2}: true, {0, 0}: true,
	{2, 3}: true, {2, 4}: true, {2, 0}: true,
	{3, 4}: true, {3, 0}: true,
	{4, 5}: true, {4, 0}: true,
	{5, 0}: true,
}

type c07Oracle struct {
	o        *vOut
	cfg      c07Cfg
	trace    []string
	state    int
	gone     bool
	admin    int
	rxOpen   bool // an OPEN arrived on the current connection (or was received by the manager)
	rxKa     bool // … and a KEEPALIVE after it
	openHold int  // hold time of that OPEN
	holdAt   int  // instant the running hold timer was (re)started
	holdLen  int  // its length, 0 = not running
	kaNext   int  // next instant the keepalive ticker of the current state must fire
	kaP      int  // its period, 0 = no ticker (negotiated hold time 0)
	idleLen  int  // what the event that caused the current IDLE period prescribes for its length
	idleDue  int  // instant the running idle hold timer must fire (-1: not running)
	idleNo   int  // ordinal of the IDLE period
}

func (or *c07Oracle) fail(class string, what string) {
	or.o.fail(class, map[string]any{"cfg": fmt.Sprintf("%+v", or.cfg), "events": append([]string{}, or.trace...), "what": what})
}

// RFC 4271 8.2.2 / 6.x, RFC 6608, RFC 4486: NOTIFICATION an event must provoke in a state
func c07RfcNotif(state int, e c07Ev, cfg c07Cfg, ribBefore int) (string, bool) {
	hdr := func() string { return fmt.Sprintf("1-%d", map[int]int{0: 1, 1: 2, 2: 2, 3: 3}[e.n]) }
	switch state {
	case 3:
		switch e.kind {
		case "open":
			switch {
			case e.ver != 4:
				return "2-1", true
			case e.id == 0 || (e.eff() == int(cfg.localAS) && e.id == c07IDNum(cfg.localID)):
				return "2-3", true
			case cfg.peerAS != 0 && e.eff() != int(cfg.peerAS):
				return "2-2", true
			case e.hold == 1 || e.hold == 2:
				return "2-6", true
			}
		case "keepalive", "update", "refresh", "notification":
			return "5-1", true
		case "badheader":
			return hdr(), true
		case "disable":
			return "6-2", true
		}
	case 4:
		switch e.kind {
		case "open", "update", "refresh":
			return "5-2", true
		case "badheader":
			return hdr(), true
		case "disable":
			return "6-2", true
		}
	case 5:
		switch e.kind {
		case "open":
			return "5-3", true
		case "badheader":
			return hdr(), true
		case "disable", "shutdown":
			return "6-2", true
		case "reset":
			return "6-4", true
		case "delete":
			return "6-3", true
		case "update":
			if cfg.prefixLimit > 0 && ribBefore+e.n > cfg.prefixLimit {
				return "6-1", true
			}
		}
	}
	return "", false
}

func (or *c07Oracle) check(e c07Ev, before c07Obs, tBefore int, after c07Obs, tAfter int) {
	or.trace = append(or.trace, e.line())
	if or.gone {
		return
	}
	// --- expected administrative state (what the operator asked for / prefix limit)
	switch e.kind {
	case "enable":
		or.admin = 0
	case "disable":
		or.admin = 1
	case "update":
		if before.fsm == 5 && or.cfg.prefixLimit > 0 && before.rib+e.n > or.cfg.prefixLimit {
			or.admin = 2
		}
	case "delete":
		or.gone = true
	}
	// --- NOTIFICATIONs
	var notifs []string
	for _, s := range after.out {
		if i := strings.Index(s, ":notif-"); i >= 0 {
			notifs = append(notifs, s[i+7:])
		}
	}
	if e.kind == "tick" && (before.fsm == 4 || before.fsm == 5) {
		// KEEPALIVEs: none at all with a negotiated hold time of zero (RFC 4271 4.4); otherwise
		// one every period, counted from the entry into the state, until the hold timer fires
		deadline := 1 << 40
		if or.holdLen > 0 {
			deadline = or.holdAt + or.holdLen
		}
		var wantKa, gotKa []string
		if or.kaP > 0 {
			for ; or.kaNext <= tAfter && or.kaNext < deadline; or.kaNext += or.kaP {
				wantKa = append(wantKa, fmt.Sprint(or.kaNext))
			}
		}
		for _, s := range after.out {
			if i := strings.Index(s, ":ka@"); i >= 0 {
				gotKa = append(gotKa, s[i+4:])
			}
		}
		if strings.Join(gotKa, ",") != strings.Join(wantKa, ",") {
			class := "keepalive:wrong-instants"
			if or.kaP == 0 {
				class = "keepalive:sent-with-zero-hold-time"
			}
			show := func(l []string) string {
				if len(l) > 12 {
					return fmt.Sprintf("%v … (%d)", l[:12], len(l))
				}
				return fmt.Sprint(l)
			}
			or.fail(class, fmt.Sprintf("state %d, configured hold %d keepalive %d, OPEN hold %d, silence %d..%d: KEEPALIVEs at %s, want %s", before.fsm, or.cfg.hold, or.cfg.cfgKa(), or.openHold, tBefore, tAfter, show(gotKa), show(wantKa)))
		}
	}
	if e.kind == "tick" {
		want := ""
		if or.holdLen > 0 && or.holdAt+or.holdLen <= tAfter {
			want = fmt.Sprintf("4-0@%d", or.holdAt+or.holdLen)
		}
		got := strings.Join(notifs, ",")
		if got != want {
			or.fail("hold-timer:wrong-instant-or-missing", fmt.Sprintf("state %d, hold timer of %d s started at %d, silence until %d: want NOTIFICATION [%s] got [%s]", before.fsm, or.holdLen, or.holdAt, tAfter, want, got))
		}
	} else {
		want, has := c07RfcNotif(before.fsm, e, or.cfg, before.rib)
		got := strings.Join(notifs, ",")
		if has {
			want = fmt.Sprintf("%s@%d", want, tAfter)
			if got != want {
				or.fail(fmt.Sprintf("notification:state%d-%s", before.fsm, e.kind), fmt.Sprintf("want NOTIFICATION %s got [%s]", want, got))
			} else if !(after.fsm == 0 || after.fsm == 2 || after.fsm == -1) {
				or.fail("notification:session-not-torn-down", fmt.Sprintf("state after %s is %d", want, after.fsm))
			}
		} else if got != "" {
			or.fail(fmt.Sprintf("notification:unexpected:state%d-%s", before.fsm, e.kind), "got "+got)
		}
	}
	// --- transport faults: a connection lost at ANY point of a message, in every state that
	// reads, is noticed at once: IDLE at this very instant, reason read-failed, nothing written
	if (e.kind == "close" || e.kind == "connlost") && before.fsm >= 3 {
		point := map[int]string{0: "between-messages", 1: "inside-header", 2: "after-header", 3: "inside-body"}[e.n]
		class := fmt.Sprintf("transport-fault-not-noticed:state%d:%s", before.fsm, point)
		down := fmt.Sprintf("%d>0/", before.fsm)
		switch {
		case len(after.st) == 0 || !strings.HasPrefix(after.st[0], down) || !strings.HasSuffix(after.st[0], fmt.Sprintf("@%d", tAfter)):
			or.fail(class, fmt.Sprintf("connection lost at %d: reported transitions %v, state %d (want %s…@%d at once)", tAfter, after.st, after.fsm, down, tAfter))
		case len(after.reasons) == 0 || after.reasons[0] != "read-failed":
			or.fail(class, fmt.Sprintf("connection lost at %d: state reason %q, want read-failed", tAfter, after.reasons))
		case len(after.out) != 0 && !(len(after.out) == 1 && after.out[0] == fmt.Sprintf("o:close@%d", tAfter)):
			// (closing a completed outgoing connection that was still waiting is part of the teardown)
			or.fail(class, fmt.Sprintf("connection lost at %d: the daemon wrote %v", tAfter, after.out))
		}
	}
	// --- transitions: allowed edges only, contiguous, ESTABLISHED only after OPEN then KEEPALIVE
	if e.kind == "connect" && before.fsm == 2 {
		or.rxOpen, or.rxKa = false, false
	}
	if e.kind == "outgoing" && before.fsm == 2 {
		or.rxOpen, or.rxKa, or.openHold = true, false, e.hold
	}
	if e.kind == "open" && (before.fsm == 3) {
		or.rxOpen, or.openHold = true, e.hold
	}
	if e.kind == "keepalive" && or.rxOpen && before.fsm >= 3 {
		or.rxKa = true
	}
	for _, s := range after.st {
		if strings.HasPrefix(s, "deleted") {
			continue
		}
		var a, b, adm, at int
		fmt.Sscanf(s, "%d>%d/%d@%d", &a, &b, &adm, &at)
		if a != or.state {
			or.fail("edges:not-contiguous", fmt.Sprintf("transition %s but the last reported state was %d", s, or.state))
		}
		if !c07Allowed[[2]int{a, b}] {
			or.fail("edges:forbidden", "transition "+s)
		}
		if b == 5 && !(or.rxOpen && or.rxKa) {
			or.fail("established-without-open-keepalive", "transition "+s)
		}
		// every IDLE period lasts exactly what the event that caused it prescribes: nothing at
		// start-up, idle-hold-time-after-reset after an administrative reset (Cease/4) of an
		// established session, the default 5 s after anything else — each time anew
		if a == 0 && b == 2 {
			if or.idleDue != at {
				or.fail("idle-hold:wrong-duration", fmt.Sprintf("IDLE period #%d (prescribed length %d s) left at %d, its idle hold timer was due at %d", or.idleNo, or.idleLen, at, or.idleDue))
			}
			or.idleDue = -1
		}
		if b == 0 {
			or.idleNo++
			or.idleLen = 5
			if e.kind == "reset" && a == 5 {
				or.idleLen = or.cfg.idleAfterReset
			}
			or.idleDue = -1
			if adm == 0 {
				or.idleDue = at + or.idleLen
			}
		}
		or.state = b
		// hold timers, tracked from the RFC: OPENSENT 240 s; OPENCONFIRM/ESTABLISHED negotiated
		switch b {
		case 3:
			or.holdAt, or.holdLen = at, 240
		case 4, 5:
			or.holdAt, or.holdLen = at, min(or.openHold, or.cfg.hold)
			// the ticker is created anew on entering either state; its period: a third of the
			// negotiated hold time when the peer's is the smaller one, else as configured; 1 s at least
			or.kaP = 0
			if neg := or.holdLen; neg > 0 {
				or.kaP = or.cfg.cfgKa()
				if neg < or.cfg.hold {
					or.kaP = neg / 3
				}
				or.kaP = max(or.kaP, 1)
			}
			or.kaNext = at + or.kaP
		default:
			or.holdLen = 0
			if b == 0 {
				or.rxOpen, or.rxKa = false, false
			}
		}
	}
	if before.fsm == 0 && or.state == 0 && !or.gone {
		switch e.kind {
		case "enable": // idle() restarts the timer with the pending idle hold time
			or.idleDue = tAfter + or.idleLen
		case "disable":
			or.idleDue = -1
		case "tick":
			if or.idleDue >= 0 && or.idleDue <= tAfter {
				or.fail("idle-hold:wrong-duration", fmt.Sprintf("IDLE period #%d (prescribed length %d s): still IDLE at %d, the idle hold timer was due at %d", or.idleNo, or.idleLen, tAfter, or.idleDue))
				or.idleDue = -1
			}
		}
	}
	if (e.kind == "keepalive" || e.kind == "update") && before.fsm == 5 && after.fsm == 5 && or.holdLen > 0 {
		or.holdAt = tAfter
	}
	// --- reported state = real state
	if !or.gone {
		if after.fsm != or.state || after.fsm != int(or.ssState()) {
			or.fail("reported-state", fmt.Sprintf("ListPeer says %d, last transition led to %d, fsm.state is %d", after.fsm, or.state, or.ssState()))
		}
		if after.admin != or.admin {
			or.fail("reported-admin-state", fmt.Sprintf("ListPeer says admin %d, the operator's last request / prefix limit imply %d", after.admin, or.admin))
		}
	}
	// --- routing messages outside ESTABLISHED never change a RIB
	if before.fsm != 5 && (after.rib != before.rib && after.rib != 0 || after.global > before.global) {
		or.fail("rib-change-outside-established", fmt.Sprintf("state %d: adj-in %d->%d, global %d->%d", before.fsm, before.rib, after.rib, before.global, after.global))
	}
	if after.fsm != 5 && after.rib != 0 {
		or.fail("rib-not-empty-outside-established", fmt.Sprintf("state %d adj-in %d", after.fsm, after.rib))
	}
}

var c07CurState func() int
var c07Debug = os.Getenv("C07_DEBUG") != "" // print every scenario (debugging aid)

func (or *c07Oracle) ssState() int { return c07CurState() }

// ---------------------------------------------------------------------------------------------
// generator

func c07GenOpen(r *vRand, cfg c07Cfg, kind string) c07Ev {
	e := c07Ev{kind: kind, ver: 4, id: c07IDNum("2.2.2.2"), as: int(cfg.peerAS)}
	if cfg.peerAS == 0 {
		e.as = r.pick(65002, 65002, 70002, int(cfg.localAS), 65010)
	}
	e.hold = r.pick(0, 3, 9, 10, 30, 30, 90, 90, 180)
	if kind == "open" && r.chance(30) {
		switch r.intn(6) {
		case 0:
			e.ver = r.pick(3, 5)
		case 1:
			e.id = 0
		case 2:
			e.as, e.id = int(cfg.localAS), c07IDNum(cfg.localID) // own AS + own identifier
		case 3:
			e.as = r.pick(65003, 70003)
		case 4:
			e.hold = r.pick(1, 2)
		case 5:
			e.id = c07IDNum(cfg.localID) // same identifier, other AS: fine for eBGP (RFC 6286)
		}
	}
	// wire form: a well-behaved speaker by default; sometimes a 2-octet-only speaker (no
	// capability 65: the My-AS field counts), sometimes a My-AS field that disagrees with the
	// capability (the capability counts)
	e.myas = c07MyAS(e.as)
	switch {
	case r.chance(12):
		e.nocap = true
	case r.chance(6):
		e.myas = r.pick(int(cfg.localAS)&0xffff, 65002, 65003, bgp.AS_TRANS, int(cfg.peerAS)&0xffff)
	}
	// the sender's freedom of encoding: capabilities spread over several optional parameters
	if r.chance(45) {
		e.layout = c07GenLayout(r, e.as, e.nocap)
	}
	return e
}

func c07GenTick(r *vRand, hold int) int {
	ts := []int{0, 1, 2, 3, 4, 5, 6, 10, 29, 30, 31, 89, 90, 91, 239, 240, 241, 300}
	if hold > 0 && r.chance(50) {
		ts = []int{hold - 1, hold, hold + 1, hold / 3, hold/3 + 1, 2 * hold, hold - hold/3}
	}
	return ts[r.intn(len(ts))]
}

func c07Gen(r *vRand, cfg c07Cfg, state int, hold int) c07Ev {
	w := func(pairs ...any) string {
		tot := 0
		for i := 1; i < len(pairs); i += 2 {
			tot += pairs[i].(int)
		}
		x := r.intn(tot)
		for i := 0; i < len(pairs); i += 2 {
			x -= pairs[i+1].(int)
			if x < 0 {
				return pairs[i].(string)
			}
		}
		return pairs[0].(string)
	}
	var k string
	switch state {
	case 0:
		k = w("tick", 50, "enable", 12, "disable", 10, "connect", 10, "shutdown", 4, "reset", 4, "keepalive", 3, "open", 3, "delete", 2, "close", 2)
	case 2:
		k = w("connect", 60, "outgoing", 8, "tick", 8, "disable", 6, "enable", 4, "shutdown", 4, "reset", 3, "keepalive", 2, "update", 2, "delete", 2, "close", 1)
	case 3:
		k = w("open", 60, "keepalive", 4, "update", 3, "notification", 3, "refresh", 2, "badheader", 6, "close", 3, "connlost", 5, "tick", 8, "disable", 4, "enable", 2, "shutdown", 2, "reset", 1, "connect", 2, "delete", 1)
	case 4:
		k = w("keepalive", 50, "tick", 16, "open", 4, "update", 4, "refresh", 3, "notification", 4, "badheader", 5, "close", 3, "connlost", 6, "outgoing", 5, "disable", 4, "enable", 2, "shutdown", 2, "reset", 1, "connect", 2, "delete", 1)
	case 5:
		k = w("keepalive", 18, "update", 20, "tick", 24, "refresh", 4, "notification", 4, "open", 4, "badheader", 5, "close", 3, "connlost", 8, "outgoing", 6, "disable", 4, "shutdown", 4, "reset", 4, "enable", 2, "connect", 2, "delete", 2)
	default:
		k = w("tick", 3, "connect", 3, "enable", 1, "keepalive", 1)
	}
	e := c07Ev{kind: k}
	switch k {
	case "open", "outgoing":
		e = c07GenOpen(r, cfg, k)
	case "update":
		e.n = r.pick(1, 1, 2, 3)
	case "badheader":
		e.n = r.intn(4)
	case "connlost":
		e.n = 1 + r.intn(3)
	case "tick":
		e.n = c07GenTick(r, hold)
	}
	return e
}

// one scenario in its own bubble
func c07Scenario(t *testing.T, o *vOut, cfg c07Cfg, seed uint64, maxLen int, script []c07Ev) {
	synctest.Test(t, func(t *testing.T) {
		r := &vRand{s: seed}
		if c07Debug {
			t.Logf("scenario %+v %v", cfg, script)
		}
		ss := c07Start(t, cfg)
		defer ss.stop()
		c07CurState = func() int { return int(ss.peer.fsm.state.Load()) }
		or := &c07Oracle{o: o, cfg: cfg}
		o.op("cfg %d %d %d %d %d %d %d", cfg.localAS, c07IDNum(cfg.localID), cfg.peerAS, cfg.hold, cfg.cfgKa(), cfg.idleAfterReset, cfg.prefixLimit)
		// the model starts in IDLE with an expired idle hold timer; the first event is `tick 0`
		before := c07Obs{}
		ibgp := false
		hold := 0
		var pending []c07Ev
		for i := 0; i < maxLen || len(pending) > 0; i++ {
			var e c07Ev
			if i == 0 {
				e = c07Ev{kind: "tick", n: 0}
			} else if i-1 < len(script) {
				e = script[i-1]
			} else if script != nil && seed == 1 {
				break // corpus scripts (seed 1) end here; other scripts are prefixes
			} else if len(pending) > 0 {
				e, pending = pending[0], pending[1:]
			} else {
				if before.fsm >= 3 && r.chance(7) {
					// a lost connection must also stop the hold timer and the keepalive ticker
					pending = []c07Ev{{kind: "connlost", n: r.intn(4)}, {kind: "tick", n: r.pick(4, 241, max(hold, 1)+1)}}
					if pending[0].n == 0 {
						pending[0] = c07Ev{kind: "close"}
					}
					e, pending = pending[0], pending[1:]
					o.stat("macro_fault_then_silence", 1)
				} else if before.fsm == 5 && hold > 1 && r.chance(12) {
					// a receive just before the hold timer would fire must restart it
					rx := c07Ev{kind: "keepalive"}
					if r.chance(40) {
						rx = c07Ev{kind: "update", n: 1}
					}
					pending = []c07Ev{{kind: "tick", n: hold - 1}, rx, {kind: "tick", n: hold - 1}, {kind: "tick", n: 1}}
					e, pending = pending[0], pending[1:]
					o.stat("macro_rx_restarts_hold", 1)
				} else {
					e = c07Gen(r, cfg, before.fsm, hold)
				}
			}
			if e.kind == "outgoing" && !(before.fsm == 2 || ((before.fsm == 4 || before.fsm == 5) && !ss.live(ss.out) && !ss.live(ss.queuedC))) {
				// modelled: the hand-over in ACTIVE, and a completed outgoing connection that
				// arrives while the session runs on the accepted one (it waits in the channel)
				e = c07Ev{kind: "tick", n: 1}
			}
			if e.kind == "outgoing" {
				// the harness plays the outgoing-connection manager, which only hands over
				// connections whose OPEN it has validated
				chk := e
				chk.kind = "open"
				if _, bad := c07RfcNotif(3, chk, cfg, 0); bad {
					e.nocap, e.myas, e.layout = false, c07MyAS(e.as), ""
				}
			}
			if (e.kind == "open" && before.fsm == 3) || (e.kind == "outgoing" && before.fsm == 2) {
				ibgp = e.eff() == int(cfg.localAS)
				ss.remoteAS, ss.twoByte, ss.lastOpen = e.eff(), e.nocap, e.wire()
				hold = min(e.hold, cfg.hold)
			}
			tb := ss.rec.now()
			if i == 0 {
				synctest.Wait()
			} else {
				ss.inEstablished = before.fsm == 5
				ss.apply(e, ibgp)
			}
			after := ss.observe()
			if i == 0 && len(after.st) > 0 && after.st[0] == "0>0/0@0" {
				after.st = after.st[1:] // AddPeer announces the new peer as IDLE -> IDLE
			}
			o.ask(after.String(), "%s", e.line())
			or.check(e, before, tb, after, ss.rec.now())
			// nothing of the old session generation survives a teardown: every connection is
			// closed, fsm.outgoingConnCh is empty, and a session leaves ACTIVE only on a
			// connection that arrives now
			for _, tr := range after.st {
				down := strings.Contains(tr, ">0/") || strings.HasPrefix(tr, "deleted")
				if down {
					var left []string
					for _, c := range ss.all {
						if ss.live(c) {
							left = append(left, c.tag)
						}
					}
					if n := len(ss.peer.fsm.outgoingConnCh); n > 0 || len(left) > 0 {
						or.fail("old-generation-connection-survives:"+e.kind, fmt.Sprintf("after %s: connections still open %v, %d queued in fsm.outgoingConnCh", tr, left, n))
					}
				}
				if (strings.HasPrefix(tr, "2>4/") && e.kind != "outgoing") || (strings.HasPrefix(tr, "2>3/") && e.kind != "connect") {
					or.fail("session-from-old-generation-connection:"+e.kind, fmt.Sprintf("%s without a new connection; daemon wrote %v", tr, after.out))
				}
			}
			if after.fsm == 5 && before.fsm != 5 {
				// the peer's identity the session runs with is the OPEN's semantic content,
				// however its capabilities were laid out
				wantType := "external"
				if ss.remoteAS == int(cfg.localAS) {
					wantType = "internal"
				}
				if after.peerAS != ss.remoteAS {
					or.fail("peer-identity-differs-from-open:peer-as", fmt.Sprintf("OPEN %s announces AS %d, State.PeerAs is %d", ss.lastOpen, ss.remoteAS, after.peerAS))
				}
				if after.peerType != wantType {
					or.fail("peer-identity-differs-from-open:peer-type", fmt.Sprintf("OPEN %s announces AS %d (local AS %d), peer type is %q", ss.lastOpen, ss.remoteAS, cfg.localAS, after.peerType))
				}
				o.stat("peer_identity_checked_"+wantType, 1)
				if strings.Contains(ss.lastOpen, "|") {
					o.stat("established_from_spread_open", 1)
				}
			}
			if after.fsm == 4 && before.fsm != 4 {
				// the connection has just become the session's: the OPEN recorded for it must
				// be one RFC 4271 lets us accept and the timers must come from it
				ss.peer.fsm.lock.Lock()
				used := ss.peer.fsm.recvOpen
				neg := int(ss.peer.fsm.pConf.ReadOnly().Timers.State.NegotiatedHoldTime)
				ss.peer.fsm.lock.Unlock()
				path := map[int]string{3: "opensent", 2: "handover-active"}[before.fsm]
				if used == nil {
					or.fail("session-from-unvalidated-open:"+path, "OPENCONFIRM without a recorded OPEN")
				} else {
					b := used.Body.(*bgp.BGPOpen)
					ue := e // the OPEN as sent; what the daemon recorded must be that one
					ue.kind, ue.hold, ue.id, ue.ver = "open", int(b.HoldTime), c07IDNum(b.ID.String()), int(b.Version)
					if sub, bad := c07RfcNotif(3, ue, cfg, 0); bad || ue.hold != e.hold || ue.id != e.id {
						or.fail("session-from-unvalidated-open:"+path, fmt.Sprintf("session negotiated from OPEN %+v (sent %s; RFC verdict %q)", ue, e.wire(), sub))
					}
					if ki := ss.peer.fsm.pConf.ReadOnly().Timers.State.KeepaliveInterval; e.hold == 0 && cfg.hold > 0 && ki != 0 {
						// the peer asked for hold time 0: no keepalives, and none reported
						or.fail("reported-timers:keepalive-interval-with-zero-hold-time", fmt.Sprintf("peer's hold time 0, configured %d/%d: Timers.State.KeepaliveInterval = %v", cfg.hold, cfg.cfgKa(), ki))
					}
					if neg != min(e.hold, cfg.hold) {
						or.fail("session-from-unvalidated-open:timers:"+path, fmt.Sprintf("negotiated hold %d from OPEN hold %d, configured %d", neg, e.hold, cfg.hold))
					}
				}
				o.stat("session_open_checked_"+path, 1)
			}
			o.stat(fmt.Sprintf("ev_%s_in_%d", e.kind, before.fsm), 1)
			for _, s := range after.out {
				if j := strings.Index(s, ":notif-"); j >= 0 {
					o.stat("notif_"+s[j+7:strings.Index(s, "@")], 1)
				}
			}
			for _, s := range after.st {
				if j := strings.Index(s, "/"); j > 0 {
					o.stat("edge_"+s[:j], 1)
				}
			}
			before = after
		}
		if len(or.trace) > 3 {
			o.sample(fmt.Sprintf("%+v: %s", cfg, strings.Join(or.trace, "; ")))
		}
	})
}

// ---------------------------------------------------------------------------------------------
// T-gen: the constant next states of the five state handlers, read from fsm.go's syntax tree

func c07ExtractEdges(t *testing.T) map[string][]int {
	fset := token.NewFileSet()
	f, err := parser.ParseFile(fset, "fsm.go", nil, 0)
	if err != nil {
		t.Fatalf("T-gen: cannot parse fsm.go: %v", err)
	}
	num := map[string]int{"BGP_FSM_IDLE": 0, "BGP_FSM_CONNECT": 1, "BGP_FSM_ACTIVE": 2, "BGP_FSM_OPENSENT": 3, "BGP_FSM_OPENCONFIRM": 4, "BGP_FSM_ESTABLISHED": 5}
	var constRet func(fn *ast.FuncDecl, nres int) ([]int, []string)
	constRet = func(fn *ast.FuncDecl, nres int) (consts []int, idents []string) {
		ast.Inspect(fn.Body, func(n ast.Node) bool {
			switch x := n.(type) {
			case *ast.FuncLit:
				return false
			case *ast.ReturnStmt:
				if len(x.Results) != nres {
					t.Fatalf("T-gen: %s: return with %d results", fn.Name.Name, len(x.Results))
				}
				switch r := x.Results[0].(type) {
				case *ast.SelectorExpr:
					v, ok := num[r.Sel.Name]
					if !ok {
						t.Fatalf("T-gen: %s: unknown state constant %s", fn.Name.Name, r.Sel.Name)
					}
					consts = append(consts, v)
				case *ast.UnaryExpr: // -1: dying
					consts = append(consts, 99)
				case *ast.Ident:
					idents = append(idents, r.Name)
				default:
					t.Fatalf("T-gen: %s: unsupported return shape %T", fn.Name.Name, r)
				}
			}
			return true
		})
		return
	}
	fns := map[string]*ast.FuncDecl{}
	for _, d := range f.Decls {
		if fn, ok := d.(*ast.FuncDecl); ok && fn.Recv != nil {
			fns[fn.Name.Name] = fn
		}
	}
	res := map[string][]int{}
	for _, h := range []string{"idle", "active", "opensent", "openconfirm", "established"} {
		fn := fns[h]
		if fn == nil {
			t.Fatalf("T-gen: handler %s not found", h)
		}
		cs, ids := constRet(fn, 2)
		for _, id := range ids {
			if id != "nextState" || fns["handleOpen"] == nil {
				t.Fatalf("T-gen: %s returns the variable %s", h, id)
			}
			hc, hi := constRet(fns["handleOpen"], 3) // nextState comes from fsm.handleOpen
			if len(hi) != 0 {
				t.Fatalf("T-gen: handleOpen returns a variable")
			}
			cs = append(cs, hc...)
		}
		sort.Ints(cs)
		uniq := cs[:0]
		for i, c := range cs {
			if i == 0 || c != cs[i-1] {
				uniq = append(uniq, c)
			}
		}
		res[h] = uniq
	}
	return res
}

// ---------------------------------------------------------------------------------------------

func TestVerifC07(t *testing.T) {
	o := vOpen(t)
	defer o.close()
	r := &vRand{s: o.seed*7919 + 3}

	// (1) T-gen: edges in the source of the state handlers against the model's table
	edges := c07ExtractEdges(t)
	for _, h := range []struct {
		name string
		num  int
	}{{"idle", 0}, {"active", 2}, {"opensent", 3}, {"openconfirm", 4}, {"established", 5}} {
		var real []string
		for _, b := range edges[h.name] {
			o.ask("1", "edge %d %d", h.num, b)
			if b != 99 {
				real = append(real, fmt.Sprint(b))
				if !c07Allowed[[2]int{h.num, b}] {
					o.fail("edges:source", fmt.Sprintf("%s() returns state %d", h.name, b))
				}
			}
		}
		o.ask(strings.Join(real, " "), "edges %d", h.num)
		o.stat("tgen_edges", len(edges[h.name]))
	}

	// (2) collision rule and OPEN validation by direct calls
	c07Direct(t, o, r)

	// (3) sessions in virtual time
	if !c07Corpus(t, o) {
		return
	}
	n := 1200
	maxLen := 10
	if o.thorough {
		n, maxLen = 9000, 14
	}
	for i := 0; i < n; i++ {
		// {2-octet, 4-octet} local AS x {eBGP 2-octet, eBGP 4-octet, iBGP, any} peer AS
		cfg := c07Cfg{localAS: uint32(r.pick(65001, 65001, 65001, 70000, 70000)), localID: "1.1.1.1", idleAfterReset: 30}
		cfg.peerAS = uint32(r.pick(65002, 65002, 65002, 70002, 70002, 0, int(cfg.localAS), int(cfg.localAS)))
		cfg.hold = r.pick(90, 90, 30, 9, 10, 240, 3, 0)
		if r.chance(25) {
			cfg.kaSet, cfg.ka = true, r.pick(0, 1, cfg.hold/3+2, cfg.hold, 7)
		}
		if r.chance(30) {
			cfg.prefixLimit = r.pick(1, 2, 3, 5)
		}
		if r.chance(20) {
			cfg.idleAfterReset = r.pick(7, 30, 60)
		}
		var prefix []c07Ev
		if r.chance(45) { // start from an established (or nearly established) session
			op := c07GenOpen(r, cfg, "outgoing")
			op.kind = "open"
			prefix = []c07Ev{{kind: "connect"}, op, {kind: "keepalive"}}[:2+r.intn(2)]
		}
		c07Scenario(t, o, cfg, r.next()|2, 3+r.intn(maxLen-2), prefix)
	}

	// (4) histories of several sessions on one fsm: per-peer timer state carried from one
	// session to the next (idle hold time incl. the override an administrative reset installs,
	// negotiated hold / keepalive values) must be what the LATEST cause prescribes
	nh := 160
	if o.thorough {
		nh = 1300
	}
	for i := 0; i < nh; i++ {
		cfg := c07Cfg{localAS: 65001, peerAS: 65002, localID: "1.1.1.1"}
		cfg.hold = r.pick(90, 30, 9, 10)
		cfg.idleAfterReset = r.pick(7, 30, 30, 60)
		if r.chance(20) {
			cfg.prefixLimit = r.pick(2, 3)
		}
		sc := c07History(r, cfg, 2+r.intn(3))
		c07Scenario(t, o, cfg, r.next()|2, len(sc)+1, sc)
		o.stat("history_scenarios", 1)
	}

	// (5) management-driven shutdown by prefix-limit edits over several families
	c07PrefixEdits(t, o, r)

	// (6) configured timer values at the edge of their domain, every combination
	c07TimerEdges(t, o)

	// (7) the NOTIFICATION on the wire under every outcome of the RFC 8538 negotiation
	c07WireNotifs(t, o)
}

// c07TimerEdges: hold-time {0, 3, 90, 65535} x keepalive-interval {absent, 0, 1, > hold/3, = hold}
// x the peer's hold time {0, 3, less, equal, greater} x {OPENCONFIRM, ESTABLISHED}, then silence
// over two hold periods (capped at 2500 keepalive periods): the instants of every KEEPALIVE and of
// the Hold Timer Expired NOTIFICATION against the model and the oracle.
func c07TimerEdges(t *testing.T, o *vOut) {
	for _, hold := range []int{0, 3, 90, 65535} {
		for kaMode := 0; kaMode < 5; kaMode++ {
			cfg := c07Cfg{localAS: 65001, peerAS: 65002, localID: "1.1.1.1", hold: hold, idleAfterReset: 30}
			switch kaMode {
			case 1:
				cfg.kaSet, cfg.ka = true, 0
			case 2:
				cfg.kaSet, cfg.ka = true, 1
			case 3:
				cfg.kaSet, cfg.ka = true, hold/3+7
			case 4:
				cfg.kaSet, cfg.ka = true, hold
			}
			seen := map[int]bool{}
			for _, peer := range []int{0, 3, hold / 2, hold, min(2*hold, 65535), 90} {
				if seen[peer] || peer == 1 || peer == 2 {
					continue
				}
				seen[peer] = true
				for _, stage := range []int{4, 5} {
					neg := min(peer, hold)
					period := cfg.cfgKa()
					if neg < hold {
						period = neg / 3
					}
					period = max(period, 1)
					silence := 200
					if neg > 0 {
						silence = min(2*neg+1, 2500*period)
					}
					first := min(max(neg-1, 1), silence)
					sc := []c07Ev{{kind: "connect"}, c07OpenEv("open", 65002, c07IDNum("2.2.2.2"), peer)}
					if stage == 5 {
						sc = append(sc, c07Ev{kind: "keepalive"})
					}
					sc = append(sc, c07Ev{kind: "tick", n: first}, c07Ev{kind: "tick", n: silence - first})
					c07Scenario(t, o, cfg, 1, len(sc)+1, sc)
					o.stat("timer_edge_scenarios", 1)
				}
			}
		}
	}
}

// c07History scripts `cycles` sessions: bring-up, something that ends the session (or the
// attempt), then silence around the instant the IDLE period has to end.
func c07History(r *vRand, cfg c07Cfg, cycles int) []c07Ev {
	var sc []c07Ev
	tick := func(n int) c07Ev { return c07Ev{kind: "tick", n: n} }
	for c := 0; c < cycles; c++ {
		op := c07GenOpen(r, cfg, "outgoing") // an acceptable OPEN, any layout, hold time anew
		op.kind = "open"
		op.nocap, op.myas, op.layout = false, c07MyAS(op.as), ""
		stage := r.pick(1, 2, 3, 3, 3, 3) // how far the attempt gets: OPENSENT, OPENCONFIRM, ESTABLISHED
		sc = append(sc, c07Ev{kind: "connect"})
		if stage >= 2 {
			sc = append(sc, op)
		}
		if stage >= 3 {
			sc = append(sc, c07Ev{kind: "keepalive"})
			if r.chance(30) {
				sc = append(sc, c07Ev{kind: "update", n: 1})
			}
		}
		hold := min(op.hold, cfg.hold)
		want := 5 // length of the IDLE period the ender causes
		switch k := r.intn(12); {
		case k < 3:
			sc = append(sc, c07Ev{kind: "reset"})
			if stage == 3 {
				want = cfg.idleAfterReset
			} else { // no session to reset: ends the attempt some other way
				sc = append(sc, c07Ev{kind: "close"})
			}
		case k == 3:
			sc = append(sc, c07Ev{kind: "shutdown"}, c07Ev{kind: "close"})
		case k == 4:
			sc = append(sc, c07Ev{kind: "close"})
		case k == 5:
			sc = append(sc, c07Ev{kind: "connlost", n: 1 + r.intn(3)})
		case k == 6:
			sc = append(sc, c07Ev{kind: "notification"})
		case k == 7:
			sc = append(sc, c07Ev{kind: "badheader", n: r.intn(4)})
		case k == 8 && stage >= 2 && hold > 0:
			sc = append(sc, tick(hold)) // hold timer expiry
		case k == 9:
			sc = append(sc, c07Ev{kind: "disable"}, tick(r.pick(1, 6, 31)), c07Ev{kind: "enable"})
		case k == 10 && stage == 1:
			bad := op
			bad.hold = 1
			sc = append(sc, bad)
		default:
			sc = append(sc, c07Ev{kind: "close"})
		}
		if r.chance(35) {
			// an enable (after a disable or on its own) restarts the idle hold timer with the
			// PENDING idle hold time, e.g. the one the reset has just installed
			sc = append(sc, tick(r.pick(1, 3)))
			if r.chance(60) {
				sc = append(sc, c07Ev{kind: "disable"}, tick(r.pick(1, 6, 31)))
			}
			sc = append(sc, c07Ev{kind: "enable"})
		}
		// silence: just short of / exactly / past the prescribed end, then surely past everything
		sc = append(sc, tick(r.pick(want-1, want, want, 4, 5, 6, cfg.idleAfterReset-1, cfg.idleAfterReset)))
		sc = append(sc, tick(cfg.idleAfterReset+6))
	}
	return sc
}

// ---------------------------------------------------------------------------------------------
// direct calls: fsm.isDominant (collision rule), bgp.ValidateOpenMsg

func c07Direct(t *testing.T, o *vOut, r *vRand) {
	ids := []int{1, 2, c07IDNum("1.1.1.1"), c07IDNum("1.1.1.2"), c07IDNum("2.2.2.2"), c07IDNum("128.0.0.1"), c07IDNum("255.255.255.255")}
	ass := []int{1, 2, 23456, 65001, 65002, 65535, 65536, 70000, 70002, 4294967295}
	n := 600
	if o.thorough {
		n = 6000
	}
	// wire form of the remote's AS: well-behaved 4-octet speaker / 2-octet-only speaker (no
	// capability 65) / My-AS field disagreeing with the capability
	wire := func(e *c07Ev) string {
		e.myas = c07MyAS(e.as)
		switch {
		case r.chance(20):
			e.nocap = true
			if r.chance(50) {
				e.myas = r.pick(65001, 65002, 4464, 23456) // 4464 = 70000 & 0xffff
			}
			return "nocap"
		case r.chance(15):
			e.myas = r.pick(65001, 65002, 4464, 23456, 1)
			return "myas-differs"
		}
		if e.as > 65535 {
			return "as4"
		}
		return "as2"
	}
	// … and the parameter layout on top: returns whether the 4-octet-AS capability sits in a
	// capability parameter that is not the first optional parameter
	spread := func(e *c07Ev) string {
		if !r.chance(55) {
			return ""
		}
		e.layout = c07GenLayout(r, e.as, e.nocap)
		ps := strings.Split(e.layout, "|")
		for i, p := range ps {
			if strings.Contains(p, "a") && strings.HasPrefix(p, "c:") {
				if i > 0 {
					return "+as4-in-later-param"
				}
				break
			}
		}
		return "+spread"
	}
	for i := 0; i < n; i++ {
		lid, rid := ids[r.intn(len(ids))], ids[r.intn(len(ids))]
		las, ras := ass[r.intn(len(ass))], ass[r.intn(len(ass))]
		if r.chance(40) {
			rid = lid
		}
		if r.chance(20) {
			ras = las
		}
		e := c07Ev{ver: 4, as: ras, id: rid, hold: 90}
		kind := wire(&e)
		kind += spread(&e)
		g := &oc.Global{Config: oc.GlobalConfig{As: uint32(las), RouterId: netip.MustParseAddr(c07ID(lid))}}
		nb := &oc.Neighbor{Config: oc.NeighborConfig{LocalAs: uint32(las), PeerAs: uint32(ras), NeighborAddress: netip.MustParseAddr(c07PeerAddr)}}
		f := newFSM(g, nb, bgp.BGP_FSM_IDLE, slog.Default())
		m, _ := bgp.ParseBGPMessage(e.bytes())
		got := f.isDominant(m.Body.(*bgp.BGPOpen))
		o.ask(map[bool]string{true: "1", false: "0"}[got], "dom %d %d %d %d %s", lid, las, rid, e.myas, e.lay())
		// RFC 4271 6.8 + RFC 6286 2.3: the connection initiated by the speaker with the higher
		// identifier survives, on equal identifiers the higher AS
		want := uint64(lid)<<32|uint64(las) > uint64(rid)<<32|uint64(e.eff())
		if got != want {
			o.fail("collision-rule", fmt.Sprintf("local %d/%d remote id %d OPEN %+v: isDominant=%v", lid, las, rid, e, got))
		}
		o.stat(fmt.Sprintf("dominant_%v_%s", got, kind), 1)
	}
	// ValidateOpenMsg over {2-octet, 4-octet} local AS x {any, iBGP, eBGP 2-octet, eBGP 4-octet}
	// expected peer AS x announced AS {expected, own, other} x identifier {0, own, other} x wire form
	for i := 0; i < n; i++ {
		las, lid := r.pick(65001, 65001, 70000, 70000, 4200000000), c07IDNum("1.1.1.1")
		pas := r.pick(0, las, las, 65002, 70002)
		e := c07Ev{ver: r.pick(4, 4, 4, 4, 4, 4, 3, 5, 0), id: r.pick(lid, lid, c07IDNum("2.2.2.2"), c07IDNum("2.2.2.2"), 0),
			hold: r.pick(0, 1, 2, 3, 4, 30, 30, 90, 90, 65535)}
		e.as = r.pick(pas, pas, las, las, 65002, 65003, 70002, 70003)
		if e.as == 0 {
			e.as = r.pick(las, 65002, 70002)
		}
		kind := wire(&e)
		if kind == "myas-differs" && pas != 0 && r.chance(50) {
			e.myas = c07MyAS(pas) // the field alone would satisfy the expected AS, the capability does not
		}
		kind += spread(&e)
		m, _ := bgp.ParseBGPMessage(e.bytes())
		_, err := bgp.ValidateOpenMsg(m.Body.(*bgp.BGPOpen), uint32(pas), uint32(las), netip.MustParseAddr(c07ID(lid)))
		got := "ok"
		if err != nil {
			me := err.(*bgp.MessageError)
			got = fmt.Sprintf("%d-%d", me.TypeCode, me.SubTypeCode)
		}
		o.ask(got, "vopen %d %d %d %s", las, lid, pas, e.wire())
		e.kind = "open"
		want, has := c07RfcNotif(3, e, c07Cfg{localAS: uint32(las), localID: c07ID(lid), peerAS: uint32(pas)}, 0)
		if !has {
			want = "ok"
		}
		if got != want {
			o.fail("open-validation", fmt.Sprintf("local AS %d id %s, expected peer AS %d, OPEN %+v (announced AS %d): got %s want %s", las, c07ID(lid), pas, e, e.eff(), got, want))
		}
		o.stat("vopen_"+got, 1)
		peer := "ebgp"
		if e.eff() == las {
			peer = "ibgp"
		}
		if e.ver == 4 && e.id == lid {
			o.stat(fmt.Sprintf("vopen_ownid_%s_local%s_%s", peer, map[bool]string{true: "as4", false: "as2"}[las > 65535], kind), 1)
		}
	}
}

// ---------------------------------------------------------------------------------------------
// corpus: past disagreements and the candidate defects, replayed first

func c07Corpus(t *testing.T, o *vOut) bool {
	base := c07Cfg{localAS: 65001, peerAS: 65002, localID: "1.1.1.1", hold: 90, idleAfterReset: 30}
	op := func(hold int) c07Ev { return c07OpenEv("open", 65002, c07IDNum("2.2.2.2"), hold) }
	ev := func(k string) c07Ev { return c07Ev{kind: k} }
	tick := func(n int) c07Ev { return c07Ev{kind: "tick", n: n} }
	scripts := [][]c07Ev{
		// hold timer and keepalives in OPENCONFIRM follow the OPEN just received
		{ev("connect"), op(30), tick(100)},
		{ev("connect"), op(30), ev("keepalive"), tick(31), ev("connect"), op(9), tick(10)},
		// an operator shutdown/reset issued outside ESTABLISHED must not kill the next session
		{ev("shutdown"), ev("connect"), op(90), ev("keepalive"), tick(1)},
		{ev("connect"), ev("reset"), op(90), ev("keepalive"), tick(1)},
		// unexpected messages: RFC 6608 subcodes
		{ev("connect"), op(90), c07Ev{kind: "update", n: 1}},
		{ev("connect"), op(90), ev("keepalive"), op(90)},
		// administrative disable before ESTABLISHED sends Cease
		{ev("connect"), ev("disable"), tick(6), ev("enable"), tick(6)},
		{ev("connect"), op(90), ev("disable")},
		// a KEEPALIVE / UPDATE restarts the hold timer, a ROUTE-REFRESH does not
		{ev("connect"), op(30), ev("keepalive"), tick(29), ev("keepalive"), tick(29), {kind: "update", n: 1}, tick(29), ev("refresh"), tick(1)},
		// transport faults inside a message, in each reading state, then silence
		{ev("connect"), {kind: "connlost", n: 2}, tick(241)},
		{ev("connect"), op(30), {kind: "connlost", n: 3}, tick(31)},
		{ev("connect"), op(30), ev("keepalive"), {kind: "update", n: 2}, {kind: "connlost", n: 2}, tick(31)},
		{ev("connect"), op(30), ev("keepalive"), {kind: "connlost", n: 3}, tick(4)},
		{ev("connect"), op(30), ev("keepalive"), {kind: "connlost", n: 1}, tick(31)},
		// reset: IdleHoldTimeAfterReset
		{ev("connect"), op(90), ev("keepalive"), ev("reset"), tick(29), tick(1)},
		// hand-over by the outgoing-connection manager in ACTIVE
		{c07OpenEv("outgoing", 65002, c07IDNum("2.2.2.2"), 30), ev("keepalive"), tick(30)},
	}
	// a completed outgoing connection arrives while the session runs on the accepted one, then the
	// session (or the attempt) ends in every way: nothing of it may survive, the next session needs
	// a NEW connection
	for _, est := range []bool{false, true} {
		for _, td := range [][]c07Ev{
			{ev("disable"), tick(2), ev("enable")}, {ev("shutdown")}, {ev("reset")}, {tick(30)}, {ev("close")},
			{{kind: "connlost", n: 2}}, {ev("notification")}, {{kind: "badheader", n: 0}}, {op(30)}, {ev("delete")},
		} {
			sc := []c07Ev{ev("connect"), op(30)}
			if est {
				sc = append(sc, ev("keepalive"))
			}
			sc = append(sc, c07OpenEv("outgoing", 65002, c07IDNum("2.2.2.2"), 30))
			sc = append(sc, td...)
			sc = append(sc, tick(31), tick(6), ev("connect"), op(30), ev("keepalive"), tick(1))
			scripts = append(scripts, sc)
		}
	}
	for _, sc := range scripts {
		c07Scenario(t, o, base, 1, len(sc)+1, sc)
	}
	pl := base
	pl.prefixLimit = 3
	c07Scenario(t, o, pl, 1, 9, []c07Ev{ev("connect"), op(90), ev("keepalive"), {kind: "update", n: 3}, {kind: "update", n: 1}, tick(6), ev("enable"), tick(5)})
	// RFC 6286: our own identifier from an INTERNAL peer is refused whatever the width of the AS
	// (4-octet AS: My-AS = AS_TRANS, the real AS only in capability 65); from an external one it is fine
	for _, las := range []int{65001, 70000} {
		ib := c07Cfg{localAS: uint32(las), peerAS: uint32(las), localID: "1.1.1.1", hold: 90, idleAfterReset: 30}
		c07Scenario(t, o, ib, 1, 4, []c07Ev{ev("connect"), c07OpenEv("open", las, c07IDNum("1.1.1.1"), 90), tick(6)})
		c07Scenario(t, o, ib, 1, 6, []c07Ev{ev("connect"), c07OpenEv("open", las, c07IDNum("2.2.2.2"), 90), ev("keepalive"), {kind: "update", n: 1}, tick(1)})
		eb := ib
		eb.peerAS = 70002
		c07Scenario(t, o, eb, 1, 6, []c07Ev{ev("connect"), c07OpenEv("open", 70002, c07IDNum("1.1.1.1"), 90), ev("keepalive"), {kind: "update", n: 1}, tick(1)})
	}
	c07CollisionSilentIncoming(t, o, base)
	c07Collisions(t, o)
	c07PrefixLimitGR(t, o)
	return true
}

// Prefix-limit overrun with graceful restart negotiated: after the daemon's own Cease/1 the
// teardown must not be treated as a graceful restart of the peer (RFC 4724 4: a NOTIFICATION
// ends the session for good), i.e. the routes that overran the limit must be gone.
func c07PrefixLimitGR(t *testing.T, o *vOut) {
	synctest.Test(t, func(t *testing.T) {
		cfg := c07Cfg{localAS: 65001, peerAS: 65002, localID: "1.1.1.1", hold: 90, idleAfterReset: 30, prefixLimit: 3}
		ss := &c07Sess{t: t, cfg: cfg, rec: &c07Rec{start: time.Now()}}
		s := NewBgpServer()
		ss.s = s
		go s.Serve()
		if err := s.StartBgp(context.Background(), &api.StartBgpRequest{Global: &api.Global{Asn: cfg.localAS, RouterId: cfg.localID, ListenPort: -1}}); err != nil {
			t.Fatal(err)
		}
		w, err := s.watch(WatchPeer())
		if err != nil {
			t.Fatal(err)
		}
		ss.w = w
		go func() {
			for range w.Event() {
			}
		}()
		fam := &api.Family{Afi: api.Family_AFI_IP, Safi: api.Family_SAFI_UNICAST}
		p := &api.Peer{
			Conf:            &api.PeerConf{NeighborAddress: c07PeerAddr, PeerAsn: cfg.peerAS},
			Transport:       &api.Transport{PassiveMode: true},
			GracefulRestart: &api.GracefulRestart{Enabled: true, RestartTime: 120},
			AfiSafis: []*api.AfiSafi{{
				Config:            &api.AfiSafiConfig{Family: fam, Enabled: true},
				MpGracefulRestart: &api.MpGracefulRestart{Config: &api.MpGracefulRestartConfig{Enabled: true}},
				PrefixLimits:      &api.PrefixLimit{Family: fam, MaxPrefixes: 3},
			}},
		}
		if err := s.AddPeer(context.Background(), &api.AddPeerRequest{Peer: p}); err != nil {
			t.Fatal(err)
		}
		_ = s.mgmtOperation(func() error { ss.peer = s.neighborMap[netip.MustParseAddr(c07PeerAddr)]; return nil }, false)
		synctest.Wait()
		defer ss.stop()
		ss.connect()
		caps := []bgp.ParameterCapabilityInterface{
			bgp.NewCapMultiProtocol(bgp.RF_IPv4_UC), bgp.NewCapFourOctetASNumber(65002), bgp.NewCapRouteRefresh(),
			bgp.NewCapGracefulRestart(false, false, 120, []*bgp.CapGracefulRestartTuple{bgp.NewCapGracefulRestartTuple(bgp.RF_IPv4_UC, true)}),
		}
		m, _ := bgp.NewBGPOpenMessage(65002, 90, netip.MustParseAddr("2.2.2.2"), []bgp.OptionParameterInterface{bgp.NewOptionParameterCapability(caps)})
		b, _ := m.Serialize()
		ss.send(ss.pas, b)
		ss.send(ss.pas, c07Keepalive())
		synctest.Wait()
		ss.remoteAS, ss.inEstablished = 65002, true
		ss.send(ss.pas, ss.update(3, false))
		synctest.Wait()
		ss.send(ss.pas, ss.update(1, false))
		synctest.Wait()
		out, _ := ss.rec.drain()
		st, adj, glob := ss.peer.fsm.state.Load(), ss.ribCount(), ss.globalCount()
		sent := strings.Join(out, " ")
		if !strings.Contains(sent, "p:notif-6-1@0") || st != bgp.BGP_FSM_IDLE {
			o.fail("notification:state5-update", fmt.Sprintf("graceful restart negotiated, prefix limit 3, 4 prefixes: wrote [%s], state %v", sent, st))
		}
		if adj != 0 || glob != 0 {
			o.fail("prefix-limit:routes-kept-after-cease", map[string]any{
				"events": "peer with graceful-restart + prefix limit 3; OPEN with GR capability; KEEPALIVE; UPDATE 3 prefixes; UPDATE 1 prefix",
				"what":   fmt.Sprintf("after Cease/1 [%s] the session is %v but %d routes stay in the Adj-RIB-In and %d in the global RIB (kept as stale for the restart time)", sent, st, adj, glob)})
		}
		o.stat("corpus_prefix_limit_gr", 1)
	})
}

// Collision corner (known finding): the manager hands over its connection while the accepted
// one is in OPENSENT and the remote has not sent its OPEN there.  opensent() switches to the
// outgoing connection but neither closes the accepted one nor can its deferred wg.Wait()
// return before the remote speaks on it: the FSM goroutine is stuck (admin requests ignored).
func c07CollisionSilentIncoming(t *testing.T, o *vOut, cfg c07Cfg) {
	synctest.Test(t, func(t *testing.T) {
		ss := c07Start(t, cfg)
		defer ss.stop()
		ss.connect()
		synctest.Wait()
		ss.outgoing(c07Open(65002, "2.2.2.2", 90, 4))
		synctest.Wait()
		out, _ := ss.rec.drain()
		_ = ss.s.DisablePeer(context.Background(), &api.DisablePeerRequest{Address: c07PeerAddr})
		synctest.Wait()
		st := ss.peer.fsm.state.Load()
		adm := ss.peer.fsm.adminState.Load()
		if st == bgp.BGP_FSM_OPENSENT && adm == adminStateUp && ss.live(ss.pas) {
			o.fail("collision:outgoing-handover-while-incoming-silent:fsm-blocked", map[string]any{
				"events": "connect; outgoing hand-over (remote silent on the accepted connection); disable",
				"what":   fmt.Sprintf("wrote %v; state stays %v, DisablePeer not acted upon, accepted connection neither used nor closed", out, st)})
		}
		o.stat("corpus_collision_silent_incoming", 1)
		// release the stuck handler: the remote speaks on the accepted connection
		ss.send(ss.pas, c07Open(65002, "2.2.2.2", 90, 4))
		synctest.Wait()
	})
}

// ---------------------------------------------------------------------------------------------
// Connection collision in OPENSENT, both orders forced deterministically by holding fsm.lock
// (opensent() takes it right after it has picked up either event):
//   incoming-first: the accepted connection's OPEN is handled (`case e := <-recvChan`) while a
//                   completed outgoing connection already waits in fsm.outgoingConnCh;
//   outgoing-first: the completed outgoing connection is picked up (`case result := …`) while the
//                   accepted connection's OPEN is already pending;
//   both-ready:     both events are staged while the handler is parked inside its select loop; the
//                   select picks the order at random (run twice), the outcome tells which.
// x local speaker dominant or not x the accepted connection's OPEN acceptable / unacceptable in
// each way.  Compared with the model's collideIncomingFirst / collideOutgoingFirst; oracle: by
// whatever path a connection becomes the session's, the OPEN the session is negotiated from is
// one RFC 4271 lets us accept, the timers come from it, and with two acceptable OPENs the
// survivor is the connection initiated by the higher (identifier, AS).

func c07Spin(cond func() bool) {
	for i := 0; i < 200000 && !cond(); i++ {
		runtime.Gosched()
	}
}

func c07Collision(t *testing.T, o *vOut, cfg c07Cfg, path string, inc, out c07Ev) {
	synctest.Test(t, func(t *testing.T) {
		ss := c07Start(t, cfg)
		defer ss.stop()
		ss.connect()
		synctest.Wait()
		ss.rec.drain()
		f := ss.peer.fsm
		if f.state.Load() != bgp.BGP_FSM_OPENSENT {
			t.Fatalf("collision scenario: not in OPENSENT")
		}
		staging := path
		f.lock.Lock()
		if path == "both-ready" {
			// park the handler inside its select loop (an adminStateUp request makes it take
			// fsm.lock in changeadminState and then loop), stage BOTH events, release it: Go's
			// select then picks one of the two orders at random
			_ = ss.s.EnablePeer(context.Background(), &api.EnablePeerRequest{Address: c07PeerAddr})
			c07Spin(func() bool { return len(f.adminStateCh) == 0 })
			n0 := runtime.NumGoroutine()
			ss.send(ss.pas, inc.bytes())
			c07Spin(func() bool { return runtime.NumGoroutine() < n0 })
			ss.outgoing(out.bytes())
		} else if path == "outgoing-first" {
			ss.outgoing(out.bytes())
			c07Spin(func() bool { return len(f.outgoingConnCh) == 0 }) // picked up: now waits for the lock
			n0 := runtime.NumGoroutine()
			ss.send(ss.pas, inc.bytes())
			c07Spin(func() bool { return runtime.NumGoroutine() < n0 }) // the reader has queued it and is gone
			c07Spin(func() bool { return false })
		} else {
			n0 := runtime.NumGoroutine()
			ss.send(ss.pas, inc.bytes())
			c07Spin(func() bool { return runtime.NumGoroutine() < n0 })
			c07Spin(func() bool { return false }) // the handler has taken it and waits for the lock (or has refused it)
			ss.outgoing(out.bytes())
		}
		f.lock.Unlock()
		synctest.Wait()
		msgs, _ := ss.rec.drain()
		sent := strings.Join(msgs, " ")
		st := f.state.Load()
		f.lock.Lock()
		used := f.recvOpen
		conf := f.pConf.ReadOnly()
		negHold := int(conf.Timers.State.NegotiatedHoldTime)
		f.lock.Unlock()
		got := fmt.Sprintf("state-%d [%s]", int(st), sent)
		var usedEv *c07Ev
		onConn := ""
		switch {
		case st == bgp.BGP_FSM_OPENCONFIRM && used != nil:
			b := used.Body.(*bgp.BGPOpen)
			id := c07IDNum(b.ID.String())
			switch {
			case strings.Contains(sent, "o:ka@") && !strings.Contains(sent, "p:ka@"):
				onConn = "o"
			case strings.Contains(sent, "p:ka@") && !strings.Contains(sent, "o:ka@"):
				onConn = "p"
			}
			got = fmt.Sprintf("session %s hold=%d id=%d", onConn, b.HoldTime, id)
			if int(b.HoldTime) == inc.hold && id == inc.id {
				usedEv = &inc
			} else {
				usedEv = &out
			}
		case st == bgp.BGP_FSM_IDLE || st == bgp.BGP_FSM_ACTIVE:
			if i := strings.Index(sent, "p:notif-"); i >= 0 {
				got = "refused " + sent[i+8:strings.Index(sent[i:], "@")+i]
			}
		}
		if path == "both-ready" {
			// which order the select took shows only when the accepted connection's OPEN is
			// unacceptable (refused vs. outgoing connection simply taken); otherwise both agree
			path = "outgoing-first"
			if strings.HasPrefix(got, "refused") || strings.HasPrefix(got, "session p") {
				path = "incoming-first"
			}
			o.stat("collision_both-ready_took_"+path, 1)
		}
		o.ask(got, "collide %s %d %d %d %s %s", path, cfg.localAS, c07IDNum(cfg.localID), cfg.peerAS, inc.wire(), out.wire())
		detail := map[string]any{"cfg": fmt.Sprintf("%+v", cfg), "path": path, "incoming-open": inc.wire(), "outgoing-open": out.wire(),
			"what": fmt.Sprintf("daemon wrote [%s]; state %v; session OPEN hold=%v; negotiated hold %d", sent, st, got, negHold)}
		asOpen := func(e c07Ev) c07Ev { e.kind = "open"; return e }
		incBad, incIsBad := c07RfcNotif(3, asOpen(inc), cfg, 0)
		if usedEv != nil {
			if _, bad := c07RfcNotif(3, asOpen(*usedEv), cfg, 0); bad {
				o.fail("session-from-unvalidated-open:collision-"+path, detail)
			}
			if want := min(usedEv.hold, cfg.hold); negHold != want || (negHold != 0 && negHold < 3) {
				o.fail("session-from-unvalidated-open:timers:collision-"+path, detail)
			}
			if (usedEv == &inc) != (onConn == "p") {
				o.fail("session-from-unvalidated-open:wrong-connection:collision-"+path, detail)
			}
			if incIsBad && !strings.Contains(sent, "p:notif-"+incBad+"@") {
				// the refused OPEN on the accepted connection is answered (and that connection closed)
				o.fail("notification:state3-open", detail)
			}
			if !incIsBad {
				// two acceptable OPENs of one speaker: RFC 4271 6.8 / RFC 6286 decide
				localWins := uint64(c07IDNum(cfg.localID))<<32|uint64(cfg.localAS) > uint64(out.id)<<32|uint64(out.eff())
				if localWins != (onConn == "o") {
					o.fail("collision-rule:survivor:"+path, detail)
				}
				loser := map[string]string{"o": "p:close@", "p": "o:close@"}[onConn]
				if !strings.Contains(sent, loser) {
					o.fail("collision-rule:loser-not-closed:"+path, detail)
				}
			}
		} else if incIsBad && path == "incoming-first" {
			if got != "refused "+incBad {
				o.fail("notification:state3-open", detail)
			}
		} else {
			o.fail("collision:no-session:"+path, detail)
		}
		o.stat("collision_"+path+"_"+strings.Fields(got)[0], 1)

		// teardown -> re-enable: whatever the collision left behind, after the session (or the
		// refused attempt) has ended NO connection of this generation survives and the next
		// session needs a NEW connection
		if staging == "incoming-first" && strings.HasPrefix(got, "refused") {
			// this staging hands the outgoing connection over AFTER the refusal has brought the
			// handler back to IDLE — a stopped manager could not: not a connection of the old generation
			return
		}
		c07CollisionNo++
		td := []string{"disable", "shutdown", "reset", "hold-expiry", "remote-close", "delete"}[c07CollisionNo%6]
		ctx := context.Background()
		if f.state.Load() == bgp.BGP_FSM_OPENCONFIRM {
			ss.send(ss.cur(), c07Keepalive())
			synctest.Wait()
			if f.state.Load() == bgp.BGP_FSM_ESTABLISHED {
				switch td {
				case "disable":
					_ = ss.s.DisablePeer(ctx, &api.DisablePeerRequest{Address: c07PeerAddr})
				case "shutdown":
					_ = ss.s.ShutdownPeer(ctx, &api.ShutdownPeerRequest{Address: c07PeerAddr})
				case "reset":
					_ = ss.s.ResetPeer(ctx, &api.ResetPeerRequest{Address: c07PeerAddr})
				case "hold-expiry":
					if h := int(f.pConf.ReadOnly().Timers.State.NegotiatedHoldTime); h > 0 {
						time.Sleep(time.Duration(h) * time.Second)
					} else {
						ss.closeCur()
					}
				case "remote-close":
					ss.closeCur()
				case "delete":
					_ = ss.s.DeletePeer(ctx, &api.DeletePeerRequest{Address: c07PeerAddr})
				}
				synctest.Wait()
			}
		}
		ss.rec.drain()
		var left []string
		for _, c := range ss.all {
			if ss.live(c) {
				left = append(left, c.tag)
			}
		}
		gen := map[string]any{"cfg": fmt.Sprintf("%+v", cfg), "collision": path, "incoming-open": inc.wire(), "outgoing-open": out.wire(), "teardown": td}
		if n := len(f.outgoingConnCh); n > 0 || len(left) > 0 {
			gen["what"] = fmt.Sprintf("after the collision (%s) and %s: connections still open %v, %d queued in fsm.outgoingConnCh, state %v", got, td, left, n, f.state.Load())
			o.fail("old-generation-connection-survives:collision:"+td, gen)
		}
		if td != "delete" {
			_ = ss.s.EnablePeer(ctx, &api.EnablePeerRequest{Address: c07PeerAddr})
			time.Sleep(36 * time.Second)
			synctest.Wait()
			later, _ := ss.rec.drain()
			if st := f.state.Load(); st != bgp.BGP_FSM_ACTIVE || len(later) > 0 {
				gen["what"] = fmt.Sprintf("36 s after %s (+enable) without any new connection: state %v, daemon wrote %v", td, st, later)
				o.fail("session-from-old-generation-connection:collision:"+td, gen)
			}
		}
		o.stat("collision_then_"+td, 1)
	})
}

var c07CollisionNo int

func c07Collisions(t *testing.T, o *vOut) {
	local := c07IDNum("1.1.1.1")
	for _, path := range []string{"incoming-first", "outgoing-first", "both-ready", "both-ready"} {
		for _, rid := range []int{c07IDNum("2.2.2.2"), c07IDNum("1.1.1.0")} { // remote wins / local wins
			for kind := 0; kind < 11; kind++ {
				cfg := c07Cfg{localAS: 65001, peerAS: 65002, localID: "1.1.1.1", hold: 90, idleAfterReset: 30}
				out := c07OpenEv("outgoing", 65002, rid, 90)
				inc := c07OpenEv("open", 65002, rid, 30)
				switch kind {
				case 0: // acceptable
				case 1:
					inc.hold = 1
				case 2:
					inc.hold = 2
				case 3:
					inc.as, inc.myas = 65003, 65003
				case 4:
					inc.id = 0
				case 5:
					inc.ver = 3
				case 6: // iBGP in a 4-octet AS, our own identifier
					cfg.localAS, cfg.peerAS = 70000, 70000
					out = c07OpenEv("outgoing", 70000, rid, 90)
					inc = c07OpenEv("open", 70000, local, 30)
				case 7: // acceptable, hold time 0 on the accepted connection
					inc.hold = 0
				case 8: // EQUAL identifiers (fine for eBGP, RFC 6286): the AS decides; the peer is in a
					// 4-octet AS (My-AS = AS_TRANS) and its 4-octet-AS capability sits in a later parameter
					cfg.peerAS = 70002
					out = c07OpenEv("outgoing", 70002, local, 90)
					inc = c07OpenEv("open", 70002, local, 30)
					out.layout, inc.layout = "c:m|c:r,a70002", "u|c:m,r|c:a70002"
					if rid != c07IDNum("2.2.2.2") { // second round: other layouts, capability repeated
						out.layout, inc.layout = "c:r|u|c:a70002|c:m,a70002", "c:m|c:a70002,r"
					}
				case 9: // equal identifiers, WE are in the 4-octet AS, the peer's AS is lower: local wins
					cfg.localAS = 70000
					out = c07OpenEv("outgoing", 65002, local, 90)
					inc = c07OpenEv("open", 65002, local, 30)
					out.layout, inc.layout = "c:m|c:a65002|c:r", "c:r,m|u|c:a65002"
				case 10: // different identifiers, capabilities spread: the identifier decides as before
					out.layout, inc.layout = "u|c:r|c:m,a65002", "c:m|c:r|c:a65002"
				}
				c07Collision(t, o, cfg, path, inc, out)
			}
		}
	}
}

// ---------------------------------------------------------------------------------------------
// Prefix-limit edits by UpdatePeer on a multi-family peer (real BgpServer, real session in the
// bubble): families in every order, each holding some prefixes, each limit edited to a value the
// family overruns / does not overrun / left alone.  Compared with the model's pfxEditShuts;
// oracle (RFC 4486, RFC 4271 6.7): the session leaves ESTABLISHED with Cease / Maximum Number of
// Prefixes Reached and the peer becomes pfx_ct iff SOME family exceeds its configured maximum
// after the edit; otherwise nothing happens — and a later UPDATE that overruns a new limit does
// shut it.

type c07Fam struct {
	name   string // v4 v6 m4 (IPv4 multicast: configured, never carries a route here)
	count  int
	oldMax int
	newMax int
}

func (f c07Fam) api(max int) *api.AfiSafi {
	fam := map[string]*api.Family{
		"v4": {Afi: api.Family_AFI_IP, Safi: api.Family_SAFI_UNICAST},
		"v6": {Afi: api.Family_AFI_IP6, Safi: api.Family_SAFI_UNICAST},
		"m4": {Afi: api.Family_AFI_IP, Safi: api.Family_SAFI_MULTICAST},
	}[f.name]
	return &api.AfiSafi{Config: &api.AfiSafiConfig{Family: fam, Enabled: true},
		PrefixLimits: &api.PrefixLimit{Family: fam, MaxPrefixes: uint32(max)}}
}

func c07PrefixEdit(t *testing.T, o *vOut, fams []c07Fam, thenOverrun bool) {
	synctest.Test(t, func(t *testing.T) {
		cfg := c07Cfg{localAS: 65001, peerAS: 65002, localID: "1.1.1.1", hold: 90, idleAfterReset: 30}
		conf := func(edited bool) *api.Peer {
			p := c07PeerConf(cfg)
			for _, f := range fams {
				m := f.oldMax
				if edited {
					m = f.newMax
				}
				p.AfiSafis = append(p.AfiSafis, f.api(m))
			}
			return p
		}
		ss := c07StartPeer(t, cfg, conf(false))
		defer ss.stop()
		ss.connect()
		caps := []bgp.ParameterCapabilityInterface{bgp.NewCapFourOctetASNumber(65002), bgp.NewCapRouteRefresh()}
		for _, f := range fams {
			caps = append(caps, bgp.NewCapMultiProtocol(map[string]bgp.Family{"v4": bgp.RF_IPv4_UC, "v6": bgp.RF_IPv6_UC, "m4": bgp.RF_IPv4_MC}[f.name]))
		}
		m, _ := bgp.NewBGPOpenMessage(65002, 90, netip.MustParseAddr("2.2.2.2"), []bgp.OptionParameterInterface{bgp.NewOptionParameterCapability(caps)})
		b, _ := m.Serialize()
		ss.send(ss.pas, b)
		ss.send(ss.pas, c07Keepalive())
		synctest.Wait()
		ss.remoteAS, ss.inEstablished = 65002, true
		for _, f := range fams {
			switch {
			case f.count > 0 && f.name == "v4":
				ss.send(ss.pas, ss.update(f.count, false))
			case f.count > 0 && f.name == "v6":
				ss.send(ss.pas, ss.update6(f.count))
			}
		}
		synctest.Wait()
		desc := ""
		line := "pfxedit"
		want := false
		for _, f := range fams {
			got := ss.famCount(f.name)
			desc += fmt.Sprintf(" %s:count=%d,max %d->%d", f.name, got, f.oldMax, f.newMax)
			line += fmt.Sprintf(" %d %d %d", got, f.oldMax, f.newMax)
			if got != f.count {
				t.Fatalf("prefix-limit edit scenario: %s holds %d prefixes, wanted %d", f.name, got, f.count)
			}
			if f.newMax > 0 && got > f.newMax { // the rule of RFC 4486 subcode 1, restated
				want = true
			}
		}
		if st := ss.peer.fsm.state.Load(); st != bgp.BGP_FSM_ESTABLISHED {
			t.Fatalf("prefix-limit edit scenario: session not established (%v)%s", st, desc)
		}
		ss.rec.drain()
		if _, err := ss.s.UpdatePeer(context.Background(), &api.UpdatePeerRequest{Peer: conf(true)}); err != nil {
			t.Fatalf("UpdatePeer: %v", err)
		}
		synctest.Wait()
		verdict := func() (string, string) {
			out, _ := ss.rec.drain()
			sent := strings.Join(out, " ")
			st, adm := ss.peer.fsm.state.Load(), ss.peer.fsm.adminState.Load()
			switch {
			case strings.Contains(sent, "p:notif-6-1@") && st != bgp.BGP_FSM_ESTABLISHED && adm == adminStatePfxCt:
				return "cease-6-1", sent
			case sent == "" && st == bgp.BGP_FSM_ESTABLISHED && adm == adminStateUp:
				return "stays", sent
			}
			return fmt.Sprintf("wrote [%s] state %v admin %v", sent, st, adm), sent
		}
		got, sent := verdict()
		o.ask(got, "%s", line)
		detail := map[string]any{"families (in configuration order)": strings.TrimSpace(desc),
			"what": fmt.Sprintf("after UpdatePeer: %s (daemon wrote [%s])", got, sent)}
		switch {
		case want && got != "cease-6-1":
			o.fail("prefix-limit-edit:overrun-not-shut", detail)
		case !want && got != "stays":
			o.fail("prefix-limit-edit:shut-without-overrun", detail)
		}
		o.stat("pfxedit_"+map[bool]string{true: "overrun", false: "within"}[want], 1)
		if !want && thenOverrun && got == "stays" {
			// limit reached on RECEIVE under the edited configuration
			for _, f := range fams {
				if f.newMax > 0 && (f.name == "v4" || f.name == "v6") {
					n := f.newMax - f.count + 1
					if f.name == "v4" {
						ss.send(ss.pas, ss.update(n, false))
					} else {
						ss.send(ss.pas, ss.update6(n))
					}
					synctest.Wait()
					if got2, sent2 := verdict(); got2 != "cease-6-1" {
						detail["what"] = fmt.Sprintf("then %d more %s prefixes (limit %d): %s (daemon wrote [%s])", n, f.name, f.newMax, got2, sent2)
						o.fail("prefix-limit-edit:receive-overrun-not-shut", detail)
					}
					o.stat("pfxedit_then_receive_overrun", 1)
					break
				}
			}
		}
	})
}

func (ss *c07Sess) famCount(name string) int {
	n := 0
	_ = ss.s.mgmtOperation(func() error {
		n = ss.peer.adjRibIn.Count([]bgp.Family{map[string]bgp.Family{"v4": bgp.RF_IPv4_UC, "v6": bgp.RF_IPv6_UC, "m4": bgp.RF_IPv4_MC}[name]})
		return nil
	}, false)
	return n
}

// update6 announces n fresh IPv6 /48 prefixes (MP_REACH_NLRI) from the eBGP peer
func (ss *c07Sess) update6(n int) []byte {
	nlri := make([]bgp.PathNLRI, 0, n)
	for i := 0; i < n; i++ {
		ss.nPfx++
		p, _ := bgp.NewIPAddrPrefix(netip.MustParsePrefix(fmt.Sprintf("2001:db8:%x::/48", ss.nPfx)))
		nlri = append(nlri, bgp.PathNLRI{NLRI: p})
	}
	mp, _ := bgp.NewPathAttributeMpReachNLRI(bgp.RF_IPv6_UC, nlri, netip.MustParseAddr("2001:db8:ffff::2"))
	attrs := []bgp.PathAttributeInterface{
		bgp.NewPathAttributeOrigin(0),
		bgp.NewPathAttributeAsPath([]bgp.AsPathParamInterface{bgp.NewAs4PathParam(bgp.BGP_ASPATH_ATTR_TYPE_SEQ, []uint32{uint32(ss.remoteAS)})}),
		mp,
	}
	b, _ := bgp.NewBGPUpdateMessage(nil, attrs, nil).Serialize()
	return b
}

func c07PrefixEdits(t *testing.T, o *vOut, r *vRand) {
	// deterministic: every order of the three families x v4 / v6 over or not after the edit
	orders := [][]string{{"v4", "v6", "m4"}, {"v6", "v4", "m4"}, {"m4", "v4", "v6"}, {"v4", "m4", "v6"}, {"v6", "m4", "v4"}, {"m4", "v6", "v4"}, {"v4", "v6"}, {"v6", "v4"}}
	for _, ord := range orders {
		for mask := 0; mask < 4; mask++ {
			var fams []c07Fam
			for _, n := range ord {
				f := c07Fam{name: n}
				switch n {
				case "v4":
					f.count, f.newMax = 3, map[bool]int{true: 2, false: 100}[mask&1 != 0]
				case "v6":
					f.count, f.newMax = 2, map[bool]int{true: 1, false: 50}[mask&2 != 0]
				case "m4":
					f.newMax = 10
				}
				fams = append(fams, f)
			}
			c07PrefixEdit(t, o, fams, mask == 0)
		}
	}
	n := 40
	if o.thorough {
		n = 400
	}
	for i := 0; i < n; i++ {
		names := [][]string{{"v4", "v6"}, {"v6", "v4"}, {"v4", "v6", "m4"}, {"m4", "v6", "v4"}, {"v6", "m4", "v4"}, {"v4"}}[r.intn(6)]
		var fams []c07Fam
		for _, nm := range names {
			f := c07Fam{name: nm}
			if nm != "m4" {
				f.count = r.intn(5)
			}
			f.oldMax = r.pick(0, 0, 0, 10, f.count, f.count+1)
			switch r.intn(5) {
			case 0:
				f.newMax = f.oldMax // family not edited
			case 1:
				f.newMax = max(f.count-1, 0) // overrun (unless that makes it "no limit")
			case 2:
				f.newMax = f.count // exactly at the limit: fine
			case 3:
				f.newMax = f.count + 1 + r.intn(3)
			case 4:
				f.newMax = r.pick(0, 1, 2, 100)
			}
			fams = append(fams, f)
		}
		c07PrefixEdit(t, o, fams, r.chance(50))
	}
}

// ---------------------------------------------------------------------------------------------
// RFC 8538: the NOTIFICATION the daemon WRITES on an established session for every way it ends
// one, under every outcome of the notification-support negotiation of graceful restart.

func c07WireNotif(t *testing.T, o *vOut, grLocal, notifLocal, peerGR, peerN bool, action string) {
	synctest.Test(t, func(t *testing.T) {
		cfg := c07Cfg{localAS: 65001, peerAS: 65002, localID: "1.1.1.1", hold: 30, idleAfterReset: 30}
		fam := &api.Family{Afi: api.Family_AFI_IP, Safi: api.Family_SAFI_UNICAST}
		conf := func(limit int) *api.Peer {
			p := c07PeerConf(cfg)
			p.GracefulRestart = &api.GracefulRestart{Enabled: grLocal, RestartTime: 120, NotificationEnabled: notifLocal}
			p.AfiSafis = []*api.AfiSafi{{
				Config:            &api.AfiSafiConfig{Family: fam, Enabled: true},
				MpGracefulRestart: &api.MpGracefulRestart{Config: &api.MpGracefulRestartConfig{Enabled: grLocal}},
				PrefixLimits:      &api.PrefixLimit{Family: fam, MaxPrefixes: uint32(limit)},
			}}
			return p
		}
		limit := 0
		if action == "prefix-limit-receive" {
			limit = 2
		}
		ss := c07StartPeer(t, cfg, conf(limit))
		defer ss.stop()
		ss.connect()
		caps := []bgp.ParameterCapabilityInterface{bgp.NewCapMultiProtocol(bgp.RF_IPv4_UC), bgp.NewCapFourOctetASNumber(65002), bgp.NewCapRouteRefresh()}
		if peerGR {
			caps = append(caps, bgp.NewCapGracefulRestart(false, peerN, 120, []*bgp.CapGracefulRestartTuple{bgp.NewCapGracefulRestartTuple(bgp.RF_IPv4_UC, true)}))
		}
		m, _ := bgp.NewBGPOpenMessage(65002, 30, netip.MustParseAddr("2.2.2.2"), []bgp.OptionParameterInterface{bgp.NewOptionParameterCapability(caps)})
		b, _ := m.Serialize()
		ss.send(ss.pas, b)
		ss.send(ss.pas, c07Keepalive())
		synctest.Wait()
		ss.remoteAS, ss.inEstablished = 65002, true
		ss.send(ss.pas, ss.update(2, false))
		synctest.Wait()
		if st := ss.peer.fsm.state.Load(); st != bgp.BGP_FSM_ESTABLISHED || ss.ribCount() != 2 {
			t.Fatalf("wire-notification scenario: state %v, %d routes", st, ss.ribCount())
		}
		ss.rec.drain()
		ctx := context.Background()
		code, sub := 6, 0 // what RFC 4271 / 4486 / 6608 prescribe before RFC 8538 is applied
		switch action {
		case "shutdown":
			sub = 2
			_ = ss.s.ShutdownPeer(ctx, &api.ShutdownPeerRequest{Address: c07PeerAddr})
		case "disable":
			sub = 2
			_ = ss.s.DisablePeer(ctx, &api.DisablePeerRequest{Address: c07PeerAddr})
		case "delete":
			sub = 3
			_ = ss.s.DeletePeer(ctx, &api.DeletePeerRequest{Address: c07PeerAddr})
		case "reset":
			sub = 4
			_ = ss.s.ResetPeer(ctx, &api.ResetPeerRequest{Address: c07PeerAddr})
		case "prefix-limit-receive":
			sub = 1
			ss.send(ss.pas, ss.update(1, false))
		case "prefix-limit-edit":
			sub = 1
			if _, err := ss.s.UpdatePeer(ctx, &api.UpdatePeerRequest{Peer: conf(1)}); err != nil {
				t.Fatalf("UpdatePeer: %v", err)
			}
		case "hold-expiry":
			code, sub = 4, 0
			time.Sleep(30 * time.Second)
		case "open-in-established":
			code, sub = 5, 3
			ss.send(ss.pas, c07Open(65002, "2.2.2.2", 30, 4))
		case "bad-header":
			code, sub = 1, 1
			ss.send(ss.pas, c07BadHeader(0))
		}
		synctest.Wait()
		out, _ := ss.rec.drain()
		got := "none"
		for _, s := range out {
			if i := strings.Index(s, ":notif-"); i >= 0 {
				got = s[i+7 : strings.Index(s, "@")]
				break
			}
		}
		b2i := map[bool]int{true: 1}
		o.ask(got, "wirenotif %d %d %d %d %d %d", b2i[grLocal], b2i[notifLocal], b2i[peerGR], b2i[peerN], code, sub)
		// RFC 8538: Hard Reset only towards a peer that sent the N bit and only when we do
		// notification support ourselves; shutdown / de-configuration / prefix limit end the
		// session for good; an administrative RESET and everything that is not a Cease stay
		n := grLocal && notifLocal && peerGR && peerN
		want := fmt.Sprintf("%d-%d", code, sub)
		if n && code == 6 && (sub == 1 || sub == 2 || sub == 3) {
			want = "6-9"
		}
		mode := fmt.Sprintf("gr-local=%v,notification-local=%v,peer-gr=%v,peer-N=%v", grLocal, notifLocal, peerGR, peerN)
		st, adj := ss.peer.fsm.state.Load(), ss.ribCount()
		detail := map[string]any{"negotiation": mode, "action": action,
			"what": fmt.Sprintf("daemon wrote %v; state %v; %d routes left in the Adj-RIB-In; RFC 8538 wants NOTIFICATION %s", out, st, adj, want)}
		_, _, found := ss.listPeer()
		if got != want {
			o.fail("wire-notification:"+action+":n-negotiated="+fmt.Sprint(n), detail)
		} else if (action == "delete" && found) || (action != "delete" && st == bgp.BGP_FSM_ESTABLISHED) {
			o.fail("notification:session-not-torn-down", detail)
		} else if action != "hold-expiry" && adj != 0 {
			// a NOTIFICATION of ours ends the session for good (only a hold-timer expiry may start a
			// graceful restart of the peer, gobgp issue 2174)
			o.fail("wire-notification:routes-kept-after-our-notification:"+action, detail)
		}
		o.stat(fmt.Sprintf("wirenotif_n=%v_%s", n, got), 1)
	})
}

func c07WireNotifs(t *testing.T, o *vOut) {
	modes := [][4]bool{
		{false, false, false, false}, // graceful restart not negotiated
		{true, false, true, false},   // graceful restart without N
		{true, true, true, false},    // N configured only locally
		{true, false, true, true},    // N offered by the peer only
		{false, false, true, true},   // peer offers, we do no graceful restart at all
		{true, true, true, true},     // N negotiated
	}
	for _, m := range modes {
		for _, a := range []string{"shutdown", "disable", "delete", "reset", "prefix-limit-receive", "prefix-limit-edit", "hold-expiry", "open-in-established", "bad-header"} {
			c07WireNotif(t, o, m[0], m[1], m[2], m[3], a)
		}
	}
}
