//go:build verif

package server

// C14 receiver-level harness: the reconstruction as the DAEMON applies it on reception.
//
// One fsm per session is established by the real fsm.stateChange(ESTABLISHED) against a peer OPEN
// without (OLD peer) or with (NEW peer) the 4-octet AS capability, with RFC 7606 revised error
// handling (neighbor error-handling treat-as-withdraw) on or off.  UPDATEs are written, one at a
// time, to the connection the real recvMessageloop reads; what it hands to the server (the fsmMsg
// given to the callback) is judged, and additionally run through table.ProcessMessage as
// handleFSMMessage does, so that the attributes of the resulting routes are judged too.
//
// The UPDATEs: RFC-valid AS_PATHs and AGGREGATORs down-converted by the real
// UpdatePathAttrs2ByteAs / UpdatePathAggregator2ByteAs (what an OLD speaker relays), plus
// independent (AS_PATH, AS4_PATH) pairs, NLRI in the NLRI field or in MP_REACH_NLRI (IPv6), crossed
// with error-handling outcomes:
//   clean | attribute discard at decode time (ATOMIC_AGGREGATE with a value; malformed AGGREGATOR) |
//   attribute discard at validation time (second MULTI_EXIT_DISC; second AS4_PATH) |
//   treat-as-withdraw (ORIGIN of 2 octets) - and all of them with revised handling off (session reset).
//
// Oracle (no model): whenever the UPDATE's routes are USED (handling none or attribute discard),
// the message handed to the server and the routes made from it carry the reconstructed AS_PATH (all
// segments in 4-octet form; for down-converted input the original path with 4-octet confederation
// members as AS_TRANS; for independent pairs a leading part of AS_PATH followed by AS4_PATH, same
// AS count, longer AS4_PATH ignored), the original AGGREGATOR in 4-octet form with Len() equal to
// its serialisation, and no AS4_PATH / AS4_AGGREGATOR:
//   recv-not-reconstructed:none / recv-not-reconstructed:attribute-discard
//   recv-clean-update-rejected   a well-formed UPDATE was not handed to the server
// Correspondence: the delivered AS_PATH (+ Len()) and AGGREGATOR equal `upAttr` / `aggUp` of the
// Lean model on the attributes that survived decoding and validation.

import (
	"context"
	"fmt"
	"io"
	"log/slog"
	"net"
	"net/netip"
	"reflect"
	"sync"
	"testing"
	"testing/synctest"
	"time"

	"github.com/eapache/channels"
	"github.com/osrg/gobgp/v4/internal/pkg/table"
	"github.com/osrg/gobgp/v4/pkg/config/oc"
	"github.com/osrg/gobgp/v4/pkg/packet/bgp"
)

type c14rConn struct {
	ch   chan []byte
	rest []byte
}

func (c *c14rConn) Read(b []byte) (int, error) {
	if len(c.rest) == 0 {
		d, ok := <-c.ch
		if !ok {
			return 0, io.EOF
		}
		c.rest = d
	}
	n := copy(b, c.rest)
	c.rest = c.rest[n:]
	return n, nil
}
func (c *c14rConn) Write(b []byte) (int, error)      { return len(b), nil }
func (c *c14rConn) Close() error                     { return nil }
func (c *c14rConn) SetDeadline(time.Time) error      { return nil }
func (c *c14rConn) SetReadDeadline(time.Time) error  { return nil }
func (c *c14rConn) SetWriteDeadline(time.Time) error { return nil }
func (c *c14rConn) LocalAddr() net.Addr {
	return &net.TCPAddr{IP: net.IPv4(10, 0, 0, 1).To4(), Port: 179}
}
func (c *c14rConn) RemoteAddr() net.Addr {
	return &net.TCPAddr{IP: net.IPv4(10, 0, 0, 2).To4(), Port: 40000}
}

// error-handling outcome the UPDATE is built for
const (
	c14rClean = iota
	c14rDiscardDecodeAtomic
	c14rDiscardDecodeAgg
	c14rDiscardValidateMed
	c14rDiscardValidateAs4Path
	c14rTreatAsWithdraw
	c14rNumVariants
)

var c14rVariantName = []string{"clean", "discard-decode-atomic-aggregate", "discard-decode-aggregator", "discard-validate-second-med", "discard-validate-second-as4-path", "treat-as-withdraw-origin"}

type c14rUpdate struct {
	variant int
	old     bool
	mp      bool // IPv6 unicast in MP_REACH_NLRI
	pair    bool // independent (AS_PATH, AS4_PATH) pair instead of a down-converted path
	orig    []c14sSeg
	a       []c14sSeg // AS_PATH on the wire
	a4      []c14sSeg // AS4_PATH on the wire
	has4    bool
	hasAgg  bool
	aggAS   uint32 // original AGGREGATOR AS
	aggWire uint32 // AS in the AGGREGATOR on the wire
	agg4    bool   // AS4_AGGREGATOR on the wire
	aggGone bool   // the AGGREGATOR is the malformed attribute that gets discarded
	wire    []byte
}

func c14rASLen(segs []c14sSeg) int {
	n := 0
	for _, s := range segs {
		switch s.typ {
		case 2:
			n += len(s.as)
		case 1:
			n++
		}
	}
	return n
}

func c14rNoConfed(p []c14sSeg) []c14sSeg {
	out := []c14sSeg{}
	for _, s := range p {
		if !c14sConfed(s.typ) {
			out = append(out, s)
		}
	}
	return out
}

// build the UPDATE an OLD (old=true) or NEW speaker sends
func c14rBuild(t *testing.T, r *vRand, old, ibgp bool, idx int) *c14rUpdate {
	u := &c14rUpdate{variant: r.pick(0, 0, 0, 1, 1, 2, 3, 3, 4, 5), mp: r.chance(25), hasAgg: r.chance(70)}
	u.orig = c14sGenPath(r)
	if !ibgp {
		// an external (non-confederation) peer must not send confederation segments
		u.orig = c14rNoConfed(u.orig)
	}
	u.old = old
	if u.hasAgg {
		u.aggAS = c14sAS(r, r.chance(60))
	}
	params := make([]bgp.AsPathParamInterface, 0, len(u.orig))
	for _, s := range u.orig {
		params = append(params, bgp.NewAs4PathParam(s.typ, append([]uint32{}, s.as...)))
	}
	attrs := []bgp.PathAttributeInterface{bgp.NewPathAttributeOrigin(0), bgp.NewPathAttributeAsPath(params)}
	var nlri []bgp.PathNLRI
	if u.mp {
		a := [16]byte{0x20, 0x01, 0x0d, 0xb8, 0x14, byte(idx >> 8), byte(idx)}
		n, _ := bgp.NewIPAddrPrefix(netip.PrefixFrom(netip.AddrFrom16(a), 64))
		mp, err := bgp.NewPathAttributeMpReachNLRI(bgp.RF_IPv6_UC, []bgp.PathNLRI{{NLRI: n}}, netip.MustParseAddr("2001:db8:ff::1"))
		if err != nil {
			t.Fatalf("C14 receiver harness: %v", err)
		}
		attrs = append(attrs, mp)
	} else {
		nh, _ := bgp.NewPathAttributeNextHop(netip.MustParseAddr("192.0.2.1"))
		attrs = append(attrs, nh)
		n, _ := bgp.NewIPAddrPrefix(netip.PrefixFrom(netip.AddrFrom4([4]byte{10, 14, byte(idx >> 8), byte(idx)}), 32))
		nlri = []bgp.PathNLRI{{NLRI: n}}
	}
	if u.hasAgg {
		ag, _ := bgp.NewPathAttributeAggregator(u.aggAS, c14sAggAddr)
		attrs = append(attrs, ag)
	}
	m := bgp.NewBGPUpdateMessage(nil, attrs, nlri)
	body := m.Body.(*bgp.BGPUpdate)
	u.a, u.aggWire = u.orig, u.aggAS
	if old {
		// what the OLD speaker's NEW neighbour made of it (the real sender-side conversion)
		table.UpdatePathAttrs2ByteAs(body)
		table.UpdatePathAggregator2ByteAs(body)
		if r.chance(25) {
			// an independent pair: replace AS4_PATH by one that is shorter / longer / unrelated
			u.pair = true
			keep := []bgp.PathAttributeInterface{}
			for _, a := range body.PathAttributes {
				if _, ok := a.(*bgp.PathAttributeAs4Path); !ok {
					keep = append(keep, a)
				}
			}
			n := r.pick(1, 1, 2)
			segs := []*bgp.As4PathParam{}
			for i := 0; i < n; i++ {
				cnt := 1 + r.intn(4)
				if r.chance(10) {
					cnt = 6 + r.intn(8)
				}
				as := make([]uint32, cnt)
				for j := range as {
					as[j] = c14sAS(r, r.chance(60))
				}
				segs = append(segs, bgp.NewAs4PathParam(uint8(r.pick(2, 2, 2, 1, 3)), as))
			}
			body.PathAttributes = append(keep, bgp.NewPathAttributeAs4Path(segs))
		}
		for _, a := range body.PathAttributes {
			switch x := a.(type) {
			case *bgp.PathAttributeAsPath:
				u.a = c14sFromParams(x.Value)
			case *bgp.PathAttributeAs4Path:
				u.a4, u.has4 = c14sFrom4(x.Value), true
			case *bgp.PathAttributeAggregator:
				u.aggWire = x.Value.AS
			case *bgp.PathAttributeAs4Aggregator:
				u.agg4 = true
			}
		}
	}
	if u.variant == c14rDiscardDecodeAgg && (!u.hasAgg || u.agg4) {
		u.variant = c14rDiscardDecodeAtomic // a discarded AGGREGATOR next to an AS4_AGGREGATOR is another story
	}
	if u.variant == c14rDiscardValidateAs4Path && !u.has4 {
		u.variant = c14rDiscardValidateMed
	}
	// the attribute(s) that make the UPDATE erroneous, placed before / after the AS attributes
	out := []bgp.PathAttributeInterface{}
	extra := []bgp.PathAttributeInterface{}
	switch u.variant {
	case c14rDiscardDecodeAtomic:
		extra = append(extra, bgp.NewPathAttributeUnknown(bgp.BGP_ATTR_FLAG_TRANSITIVE, bgp.BGP_ATTR_TYPE_ATOMIC_AGGREGATE, []byte{0}))
	case c14rDiscardValidateMed:
		extra = append(extra, bgp.NewPathAttributeMultiExitDisc(10), bgp.NewPathAttributeMultiExitDisc(20))
	case c14rDiscardValidateAs4Path:
		extra = append(extra, bgp.NewPathAttributeAs4Path([]*bgp.As4PathParam{bgp.NewAs4PathParam(2, []uint32{4200000000})}))
	case c14rTreatAsWithdraw:
		extra = append(extra, bgp.NewPathAttributeMultiExitDisc(7))
	default:
		if r.chance(50) {
			extra = append(extra, bgp.NewPathAttributeMultiExitDisc(7))
		}
	}
	front := r.chance(40) && u.variant != c14rDiscardValidateAs4Path
	for i, a := range body.PathAttributes {
		if i == 2 && front {
			out = append(out, extra...)
		}
		switch a.(type) {
		case *bgp.PathAttributeOrigin:
			if u.variant == c14rTreatAsWithdraw {
				a = bgp.NewPathAttributeUnknown(bgp.BGP_ATTR_FLAG_TRANSITIVE, bgp.BGP_ATTR_TYPE_ORIGIN, []byte{0, 0})
			}
		case *bgp.PathAttributeAggregator:
			if u.variant == c14rDiscardDecodeAgg {
				a = bgp.NewPathAttributeUnknown(bgp.BGP_ATTR_FLAG_TRANSITIVE|bgp.BGP_ATTR_FLAG_OPTIONAL, bgp.BGP_ATTR_TYPE_AGGREGATOR, []byte{0xfd, 0xe7, 192, 0, 2})
				u.aggGone = true
			}
		}
		out = append(out, a)
	}
	if !front {
		out = append(out, extra...)
	}
	body.PathAttributes = out
	w, err := m.Serialize()
	if err != nil {
		t.Fatalf("C14 receiver harness: serialize: %v", err)
	}
	u.wire = w
	return u
}

func c14rHandlingName(h bgp.ErrorHandling) string {
	switch h {
	case bgp.ERROR_HANDLING_NONE:
		return "none"
	case bgp.ERROR_HANDLING_ATTRIBUTE_DISCARD:
		return "attribute-discard"
	case bgp.ERROR_HANDLING_TREAT_AS_WITHDRAW:
		return "treat-as-withdraw"
	}
	return "session-reset"
}

// judge the attributes of an UPDATE / route that is in use
func c14rJudge(o *vOut, u *c14rUpdate, attrs []bgp.PathAttributeInterface, where string, cls string, detail func(string) map[string]any) (res []c14sSeg, lenAttr int, gotAgg *bgp.PathAttributeAggregator, ok bool) {
	var got *bgp.PathAttributeAsPath
	ok = true
	bad := func(why string) {
		ok = false
		o.fail(cls, detail(where+": "+why))
	}
	for _, x := range attrs {
		switch y := x.(type) {
		case *bgp.PathAttributeAsPath:
			got = y
		case *bgp.PathAttributeAggregator:
			gotAgg = y
		case *bgp.PathAttributeAs4Path:
			bad("AS4_PATH left in the attributes")
		case *bgp.PathAttributeAs4Aggregator:
			bad("AS4_AGGREGATOR left in the attributes")
		}
	}
	if got == nil {
		bad("no AS_PATH")
		return
	}
	for _, p := range got.Value {
		if _, is4 := p.(*bgp.As4PathParam); !is4 {
			bad("AS_PATH segment still in the 2-octet form")
			break
		}
	}
	res, lenAttr = c14sFromParams(got.Value), got.Len()
	if b, err := got.Serialize(); err != nil || len(b) != got.Len() {
		bad(fmt.Sprintf("AS_PATH Len() %d but %d octets serialised", got.Len(), len(b)))
	}
	for _, s := range res {
		if len(s.as) == 0 || len(s.as) > 255 {
			bad("AS_PATH segment with " + fmt.Sprint(len(s.as)) + " members")
		}
	}
	// the AS4_PATH the receiver may use: the first one (RFC 7606 3.g), without confederation segments
	switch {
	case !u.old:
		if c14sFmt(res) != c14sFmt(u.orig) {
			bad("AS_PATH from a 4-octet peer changed: " + c14sFmt(res) + ", sent " + c14sFmt(u.orig))
		}
	case !u.pair:
		if want := c14sConfedTrans(u.orig); c14sFlat(res) != c14sFlat(want) {
			bad("AS_PATH " + c14sFmt(res) + ", want " + c14sFmt(want))
		}
	case !u.has4:
		if c14sFmt(res) != c14sFmt(u.a) {
			bad("AS_PATH " + c14sFmt(res) + " changed without AS4_PATH")
		}
	default:
		use := c14rNoConfed(u.a4)
		if c14rASLen(use) > c14rASLen(u.a) {
			if c14sFmt(res) != c14sFmt(u.a) {
				bad("longer AS4_PATH not ignored: " + c14sFmt(res))
			}
		} else {
			fr, f4 := c14sFlat(res), c14sFlat(use)
			if c14rASLen(res) != c14rASLen(u.a) || len(fr) < len(f4) || fr[len(fr)-len(f4):] != f4 {
				bad("AS_PATH " + c14sFmt(res) + " is not a leading part of AS_PATH followed by AS4_PATH")
			}
		}
	}
	switch {
	case !u.hasAgg || u.aggGone:
		if gotAgg != nil {
			bad("AGGREGATOR present although none (usable) was sent")
		}
	case gotAgg == nil:
		bad("AGGREGATOR lost")
	default:
		if gotAgg.Value.AS != u.aggAS || gotAgg.Value.Address != c14sAggAddr || gotAgg.Value.Askind != reflect.Uint32 {
			bad(fmt.Sprintf("AGGREGATOR %d %s (kind %v), want %d %s in 4-octet form", gotAgg.Value.AS, gotAgg.Value.Address, gotAgg.Value.Askind, u.aggAS, c14sAggAddr))
		}
		if b, err := gotAgg.Serialize(); err != nil || len(b) != gotAgg.Len() {
			bad(fmt.Sprintf("AGGREGATOR Len() %d but %d octets serialised", gotAgg.Len(), len(b)))
		}
	}
	return
}

func c14rSession(t *testing.T, o *vOut, r *vRand, old, revised, ibgp bool, nUpd int, fixed []*c14rUpdate, tag string) {
	synctest.Test(t, func(t *testing.T) {
		logger := slog.New(slog.NewTextHandler(io.Discard, nil))
		neigh := &oc.Neighbor{}
		neigh.ErrorHandling.Config.TreatAsWithdraw = revised
		neigh.Config.LocalAs = 65000
		if ibgp {
			neigh.Config.LocalAs = 65002
		}
		for _, af := range []struct {
			n oc.AfiSafiType
			f bgp.Family
		}{{oc.AFI_SAFI_TYPE_IPV4_UNICAST, bgp.RF_IPv4_UC}, {oc.AFI_SAFI_TYPE_IPV6_UNICAST, bgp.RF_IPv6_UC}} {
			neigh.AfiSafis = append(neigh.AfiSafis, oc.AfiSafi{
				Config: oc.AfiSafiConfig{AfiSafiName: af.n, Enabled: true},
				State:  oc.AfiSafiState{AfiSafiName: af.n, Enabled: true, Family: af.f},
			})
		}
		f := newFSM(&oc.Global{}, neigh, bgp.BGP_FSM_IDLE, logger)
		conn := &c14rConn{ch: make(chan []byte)}
		f.conn = conn
		var mu sync.Mutex
		var delivered []*fsmMsg
		h := &fsmHandler{fsm: f, outgoing: channels.NewInfiniteChannel(), callback: func(m *fsmMsg) {
			mu.Lock()
			delivered = append(delivered, m)
			mu.Unlock()
		}}
		f.h = h
		caps := []bgp.ParameterCapabilityInterface{bgp.NewCapMultiProtocol(bgp.RF_IPv4_UC), bgp.NewCapMultiProtocol(bgp.RF_IPv6_UC)}
		if !old {
			caps = append(caps, bgp.NewCapFourOctetASNumber(65002))
		}
		f.recvOpen, _ = bgp.NewBGPOpenMessage(65002, 0, netip.MustParseAddr("10.0.0.2"),
			[]bgp.OptionParameterInterface{bgp.NewOptionParameterCapability(caps)})
		f.stateChange(bgp.BGP_FSM_ESTABLISHED, newfsmStateReason(fsmOpenMsgNegotiated, nil, nil))
		if f.twoByteAsTrans != old || f.isTreatAsWithdraw != revised || f.isEBGP == ibgp {
			t.Fatalf("C14 receiver harness: twoByteAsTrans=%v (want %v) isTreatAsWithdraw=%v (want %v)", f.twoByteAsTrans, old, f.isTreatAsWithdraw, revised)
		}
		peerInfo := &table.PeerInfo{AS: 65002, LocalAS: 65000, ID: netip.MustParseAddr("10.0.0.2"), LocalID: netip.MustParseAddr("10.0.0.1"), Address: netip.MustParseAddr("10.0.0.2")}

		var cancel context.CancelFunc
		var wg *sync.WaitGroup
		running := false
		start := func() {
			var ctx context.Context
			ctx, cancel = context.WithCancel(context.Background())
			wg = &sync.WaitGroup{}
			wg.Add(1)
			go h.recvMessageloop(ctx, conn, make(chan struct{}, 2), make(chan fsmStateReason, 4), wg)
			running = true
		}
		for i := 0; i < nUpd; i++ {
			var u *c14rUpdate
			if i < len(fixed) {
				u = fixed[i]
			} else {
				u = c14rBuild(t, r, old, ibgp, i)
			}
			if !running {
				start()
			}
			conn.ch <- u.wire
			synctest.Wait()
			mu.Lock()
			got := delivered
			delivered = nil
			mu.Unlock()
			reset := false
			select {
			case <-f.notification:
				reset = true
			default:
			}
			detail := func(why string) map[string]any {
				return map[string]any{"why": why, "case": tag, "old_peer": old, "revised_error_handling": revised, "ibgp": ibgp, "variant": c14rVariantName[u.variant],
					"mp_reach": u.mp, "independent_pair": u.pair, "original_as_path": c14sFmt(u.orig), "wire_as_path": c14sFmt(u.a), "wire_as4_path": c14sFmt(u.a4),
					"has_as4_path": u.has4, "has_aggregator": u.hasAgg, "aggregator_as": u.aggAS, "wire_aggregator_as": u.aggWire, "as4_aggregator": u.agg4}
			}
			if reset {
				// the loop has returned; the next UPDATE gets a fresh one (a new session would)
				wg.Wait()
				running = false
				o.stat("recv_session_reset", 1)
				if u.variant == c14rClean {
					o.fail("recv-clean-update-rejected", detail("session reset on a well-formed UPDATE"))
				}
				continue
			}
			if len(got) != 1 {
				if u.variant == c14rClean {
					o.fail("recv-clean-update-rejected", detail(fmt.Sprintf("%d messages handed to the server", len(got))))
				}
				o.stat("recv_nothing_delivered", 1)
				continue
			}
			fm := got[0]
			m, isMsg := fm.MsgData.(*bgp.BGPMessage)
			if !isMsg || m.Header.Type != bgp.BGP_MSG_UPDATE {
				continue
			}
			hn := c14rHandlingName(fm.handling)
			o.stat("recv_handling_"+hn, 1)
			o.stat("recv_variant_"+c14rVariantName[u.variant]+"_"+hn, 1)
			if fm.handling != bgp.ERROR_HANDLING_NONE && fm.handling != bgp.ERROR_HANDLING_ATTRIBUTE_DISCARD {
				continue // the routes are not used
			}
			cls := "recv-not-reconstructed:" + hn
			body := m.Body.(*bgp.BGPUpdate)
			res, lenAttr, gotAgg, ok := c14rJudge(o, u, body.PathAttributes, "UPDATE handed to the server", cls, detail)
			// correspondence with the model, on what survived decoding and validation
			if res != nil && old {
				line := fmt.Sprintf("up %d %s", c14rValueLen2(u.a), c14sFmt(u.a))
				if u.has4 {
					line += " 1 " + c14sFmt(u.a4)
				} else {
					line += " 0"
				}
				o.ask(fmt.Sprintf("%s len %d", c14sFmt(res), lenAttr), "%s", line)
				if gotAgg != nil && u.hasAgg && !u.aggGone {
					b := 0
					if u.agg4 {
						b = 1
					}
					a4 := uint32(0)
					if u.agg4 {
						a4 = u.aggAS
					}
					o.ask(fmt.Sprintf("%d len %d", gotAgg.Value.AS, gotAgg.Len()), "aggup %d %d %d", u.aggWire, b, a4)
				}
			}
			// the routes the server makes of it (handleFSMMessage → table.ProcessMessage)
			if ok {
				n := 0
				for _, p := range table.ProcessMessage(m, peerInfo, fm.timestamp, false) {
					if p == nil || p.IsWithdraw || p.IsEOR() {
						continue
					}
					n++
					c14rJudge(o, u, p.GetPathAttrs(), "route "+p.GetNlri().String(), cls, detail)
				}
				if n != 1 {
					o.fail(cls, detail(fmt.Sprintf("%d routes made of the UPDATE, want 1", n)))
				}
			}
			if u.pair {
				o.stat("recv_used_independent_pair", 1)
			}
			if u.mp {
				o.stat("recv_used_mp_reach", 1)
			}
		}
		close(conn.ch)
		if running {
			wg.Wait()
		}
		_ = cancel
		h.outgoing.Close()
		f.outgoingCh.Close()
		synctest.Wait()
	})
}

// cached Length of the 2-octet AS_PATH as decoded from the wire
func c14rValueLen2(a []c14sSeg) int {
	n := 0
	for _, s := range a {
		n += 2 + 2*len(s.as)
	}
	return n
}

func TestVerifC14Recv(t *testing.T) {
	o := vOpen(t)
	defer o.close()
	r := &vRand{s: o.seed*7919 + 141414}

	// corpus: AS_TRANS + AS4_PATH / AS4_AGGREGATOR from an OLD peer, clean and with an unrelated
	// attribute discarded at decode time / at validation time, revised error handling on
	mk := func(variant int) *c14rUpdate {
		nh, _ := bgp.NewPathAttributeNextHop(netip.MustParseAddr("192.0.2.254"))
		agg, _ := bgp.NewPathAttributeAggregator(uint16(bgp.AS_TRANS), c14sAggAddr)
		agg4, _ := bgp.NewPathAttributeAs4Aggregator(uint32(4200000001), c14sAggAddr)
		n, _ := bgp.NewIPAddrPrefix(netip.MustParsePrefix("10.10.0.0/16"))
		attrs := []bgp.PathAttributeInterface{bgp.NewPathAttributeOrigin(0),
			bgp.NewPathAttributeAsPath([]bgp.AsPathParamInterface{bgp.NewAsPathParam(2, []uint16{65001, bgp.AS_TRANS, 65002})}), nh}
		switch variant {
		case c14rDiscardDecodeAtomic:
			attrs = append(attrs, bgp.NewPathAttributeUnknown(bgp.BGP_ATTR_FLAG_TRANSITIVE, bgp.BGP_ATTR_TYPE_ATOMIC_AGGREGATE, []byte{0}))
		case c14rDiscardValidateMed:
			attrs = append(attrs, bgp.NewPathAttributeMultiExitDisc(10), bgp.NewPathAttributeMultiExitDisc(20))
		}
		attrs = append(attrs, agg, bgp.NewPathAttributeAs4Path([]*bgp.As4PathParam{bgp.NewAs4PathParam(2, []uint32{65001, 4200000001, 65002})}), agg4)
		w, _ := bgp.NewBGPUpdateMessage(nil, attrs, []bgp.PathNLRI{{NLRI: n}}).Serialize()
		seg := []c14sSeg{{2, []uint32{65001, 4200000001, 65002}}}
		return &c14rUpdate{variant: variant, old: true, orig: seg, a: []c14sSeg{{2, []uint32{65001, bgp.AS_TRANS, 65002}}}, a4: seg, has4: true,
			hasAgg: true, aggAS: 4200000001, aggWire: bgp.AS_TRANS, agg4: true, wire: w}
	}
	c14rSession(t, o, r, true, true, false, 3, []*c14rUpdate{mk(c14rClean), mk(c14rDiscardDecodeAtomic), mk(c14rDiscardValidateMed)}, "corpus-recv-old-peer-revised")
	c14rSession(t, o, r, true, false, false, 2, []*c14rUpdate{mk(c14rClean), mk(c14rDiscardDecodeAtomic)}, "corpus-recv-old-peer-classic")

	n := 140
	if o.thorough {
		n = 1200
	}
	for i := 0; i < n; i++ {
		old := r.chance(80)
		revised := r.chance(70)
		c14rSession(t, o, r, old, revised, r.chance(45), 10+r.intn(8), nil, "recv")
	}
}
