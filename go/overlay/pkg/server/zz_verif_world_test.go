//go:build verif

package server

// The "world": a real BgpServer with AdminDown peers, driven white-box from ONE goroutine.
// The harness (not the scheduler) decides the order of events: session up/down goes through the
// real fsm.stateChange + handleFSMMessage + state.Store sequence that fsmHandler.loop performs,
// received UPDATEs go through handleFSMMessage(fsmMsgBGPMessage), and what each peer has been
// told is obtained from the real outgoing queue -> CreateUpdateMsgFromPaths -> Serialize ->
// ParseBGPMessage, accumulated into a per-peer view. Shared by the C01/C02/C15/C17 harnesses.

import (
	"sync/atomic"
	"context"
	"fmt"
	"net"
	"net/netip"
	"runtime"
	"sort"
	"strings"
	"testing"
	"time"

	"github.com/osrg/gobgp/v4/api"
	"github.com/osrg/gobgp/v4/internal/pkg/table"
	"github.com/osrg/gobgp/v4/pkg/packet/bgp"
)

type vwConn struct {
	net.Conn
	local, remote *net.TCPAddr
}

func (c *vwConn) LocalAddr() net.Addr  { return c.local }
func (c *vwConn) RemoteAddr() net.Addr { return c.remote }
func (c *vwConn) Close() error         { return nil }

// vwProbeConn is handed to a freshly started FSM goroutine through connCh: idle() closes it,
// which proves the goroutine has read the initial state and is parked in idle().
type vwProbeConn struct {
	net.Conn
	closed chan struct{}
}

func (c *vwProbeConn) Close() error { close(c.closed); return nil }

type vwHeld struct {
	marker uint32 // the route's marker community (identifies which announcement is held)
	digest string // canonical rendering of the attributes as received
}

type vwPeerSpec struct {
	kind       string // ebgp | ibgp | rrc (route-reflector client) | rsc (route-server client)
	as         uint32
	rid        netip.Addr
	addr       netip.Addr
	sendMax    uint8 // >0: ADD-PATH send negotiated with this send-max
	addPathRx  bool  // we accept ADD-PATH from this peer
	allowOwnAs uint8
	llgr       bool
	maxPrefixes uint32 // >0: prefix limit of the IPv4-unicast family
}

type vwPeer struct {
	spec    vwPeerSpec
	p       *peer
	up      bool
	deleted bool
	view map[string]vwHeld // key "prefix#pathid"
	// everything ever flushed, for diagnostics
	nMsgs int
}

type vWorld struct {
	t      testing.TB
	s      *BgpServer
	as     uint32
	rid    netip.Addr
	peers  []*vwPeer
	tsBase int64
	tick   int64
}

func newVWorld(t testing.TB, as uint32, rid string) *vWorld {
	s := NewBgpServer()
	go s.Serve()
	if err := s.StartBgp(context.Background(), &api.StartBgpRequest{Global: &api.Global{Asn: as, RouterId: rid, ListenPort: -1}}); err != nil {
		t.Fatal(err)
	}
	return &vWorld{t: t, s: s, as: as, rid: netip.MustParseAddr(rid), tsBase: time.Now().Unix() + 100000}
}

func (w *vWorld) stop() {
	w.s.StopBgp(context.Background(), &api.StopBgpRequest{})
	w.s.Stop()
}

func (w *vWorld) addPeer(sp vwPeerSpec) *vwPeer {
	pr := &api.Peer{
		Conf: &api.PeerConf{NeighborAddress: sp.addr.String(), PeerAsn: sp.as, AllowOwnAsn: uint32(sp.allowOwnAs)},
		// passive + admin up: the FSM goroutine moves Idle -> Active by itself and then parks in
		// active() waiting for a connection that never comes (the outgoing-connection manager
		// returns at once for passive peers); the harness plays the rest of the session.
		Transport: &api.Transport{PassiveMode: true},
		AfiSafis: []*api.AfiSafi{{
			Config:   &api.AfiSafiConfig{Family: &api.Family{Afi: api.Family_AFI_IP, Safi: api.Family_SAFI_UNICAST}, Enabled: true},
			AddPaths: &api.AddPaths{Config: &api.AddPathsConfig{Receive: sp.addPathRx, SendMax: uint32(sp.sendMax)}},
		}},
	}
	if sp.maxPrefixes > 0 {
		pr.AfiSafis[0].PrefixLimits = &api.PrefixLimit{Family: &api.Family{Afi: api.Family_AFI_IP, Safi: api.Family_SAFI_UNICAST}, MaxPrefixes: sp.maxPrefixes}
	}
	switch sp.kind {
	case "rrc":
		pr.RouteReflector = &api.RouteReflector{RouteReflectorClient: true}
		// every other client has the cluster-id configured explicitly (= the router-id, so the
		// model needs no extra parameter); the others rely on the default (absent = router-id),
		// so that code reading the configured copy instead of the effective one is seen
		if len(w.peers)%2 == 0 {
			pr.RouteReflector.RouteReflectorClusterId = w.rid.String()
		}
	case "rsc":
		pr.RouteServer = &api.RouteServer{RouteServerClient: true}
	}
	if err := w.s.AddPeer(context.Background(), &api.AddPeerRequest{Peer: pr}); err != nil {
		w.t.Fatalf("AddPeer: %v", err)
	}
	vp := &vwPeer{spec: sp, view: map[string]vwHeld{}}
	if err := w.s.mgmtOperation(func() error { vp.p = w.s.neighborMap[sp.addr]; return nil }, true); err != nil || vp.p == nil {
		w.t.Fatalf("peer lookup: %v", err)
	}
	for i := 0; vp.p.fsm.state.Load() != bgp.BGP_FSM_ACTIVE; i++ {
		if i > 100000 {
			w.t.Fatalf("fsm goroutine did not reach ACTIVE")
		}
		time.Sleep(100 * time.Microsecond)
	}
	time.Sleep(200 * time.Microsecond) // let the goroutine enter active() and park
	w.peers = append(w.peers, vp)
	return vp
}

func (w *vWorld) delPeer(vp *vwPeer) {
	if err := w.s.DeletePeer(context.Background(), &api.DeletePeerRequest{Address: vp.spec.addr.String()}); err != nil {
		w.t.Fatalf("DeletePeer: %v", err)
	}
	vp.up = false
	vp.deleted = true
	vp.view = map[string]vwHeld{}
}

// local injects (or withdraws) a locally originated route the way AddPath / DeletePath do after
// converting the API message: addPathList -> propagateUpdate(nil, …) inside a management operation.
func (w *vWorld) local(p *table.Path) {
	if err := w.s.mgmtOperation(func() error { return w.s.addPathList("", []*table.Path{p}) }, true); err != nil {
		w.t.Fatalf("addPathList: %v", err)
	}
}

func (w *vWorld) now() time.Time {
	// atomic: the concurrent harness (zz_verif_c01conc_test.go) calls it from several goroutines
	return time.Unix(w.tsBase+atomic.AddInt64(&w.tick, 1), 0)
}

// openFor builds the OPEN the remote side would have sent.
func (w *vWorld) openFor(sp vwPeerSpec) *bgp.BGPMessage {
	caps := []bgp.ParameterCapabilityInterface{
		bgp.NewCapMultiProtocol(bgp.RF_IPv4_UC),
		bgp.NewCapRouteRefresh(),
		bgp.NewCapFourOctetASNumber(sp.as),
	}
	var mode bgp.BGPAddPathMode
	if sp.sendMax > 0 {
		mode |= bgp.BGP_ADD_PATH_RECEIVE // the peer receives what we send
	}
	if sp.addPathRx {
		mode |= bgp.BGP_ADD_PATH_SEND
	}
	if mode != 0 {
		caps = append(caps, bgp.NewCapAddPath([]*bgp.CapAddPathTuple{bgp.NewCapAddPathTuple(bgp.RF_IPv4_UC, mode)}))
	}
	as2 := uint16(sp.as)
	if sp.as > 65535 {
		as2 = bgp.AS_TRANS
	}
	m, err := bgp.NewBGPOpenMessage(as2, 90, sp.rid, []bgp.OptionParameterInterface{bgp.NewOptionParameterCapability(caps)})
	if err != nil {
		w.t.Fatal(err)
	}
	return m
}

// sessionUp performs what fsmHandler.loop does when openconfirm() returns ESTABLISHED:
// stateChange (negotiation), the server callback (initial table transfer), then publishing
// the state. `between` (may be nil) runs after the transfer and before the state is published.
func (w *vWorld) sessionUp(vp *vwPeer, between func()) {
	f := vp.p.fsm
	f.conn = &vwConn{local: &net.TCPAddr{IP: net.IP(w.rid.AsSlice()), Port: 179}, remote: &net.TCPAddr{IP: net.IP(vp.spec.addr.AsSlice()), Port: 30000}}
	f.recvOpen = w.openFor(vp.spec)
	reason := newfsmStateReason(fsmOpenMsgNegotiated, nil, nil)
	f.stateChange(bgp.BGP_FSM_ESTABLISHED, reason)
	w.s.handleFSMMessage(vp.p, &fsmMsg{MsgType: fsmMsgStateChange, MsgData: bgp.BGP_FSM_ESTABLISHED, StateReason: reason, timestamp: w.now()})
	if between != nil {
		between()
	}
	f.state.Store(bgp.BGP_FSM_ESTABLISHED)
	vp.up = true
}

func (w *vWorld) sessionDown(vp *vwPeer, reason fsmStateReasonType) {
	f := vp.p.fsm
	r := newfsmStateReason(reason, nil, nil)
	f.stateChange(bgp.BGP_FSM_IDLE, r)
	w.s.handleFSMMessage(vp.p, &fsmMsg{MsgType: fsmMsgStateChange, MsgData: bgp.BGP_FSM_IDLE, StateReason: r, timestamp: w.now()})
	f.state.Store(bgp.BGP_FSM_IDLE)
	vp.up = false
	vp.view = map[string]vwHeld{}
	w.drain(vp) // nothing can be written to a closed session
}

// recv hands a received UPDATE to the server exactly as recvMessageloop's callback does.
func (w *vWorld) recv(vp *vwPeer, m *bgp.BGPMessage) {
	w.s.handleFSMMessage(vp.p, &fsmMsg{MsgType: fsmMsgBGPMessage, MsgData: m, timestamp: w.now()})
}

func (w *vWorld) drain(vp *vwPeer) []*table.Path {
	var paths []*table.Path
	ch := vp.p.fsm.outgoingCh
	for {
		select {
		case o := <-ch.Out():
			if m, ok := o.(*fsmOutgoingMsg); ok {
				paths = append(paths, m.Paths...)
			}
			continue
		default:
		}
		if ch.Len() > 0 {
			runtime.Gosched()
			continue
		}
		// the pump goroutine may hold one element in flight between In() and its buffer
		time.Sleep(50 * time.Microsecond)
		if ch.Len() == 0 {
			select {
			case o := <-ch.Out():
				if m, ok := o.(*fsmOutgoingMsg); ok {
					paths = append(paths, m.Paths...)
				}
				continue
			default:
			}
			return paths
		}
	}
}

// flush plays sendMessageloop for everything queued: one coalesced batch through the real
// packer and codec, applied to the peer's view in order. Returns the number of messages.
func (w *vWorld) flush(vp *vwPeer) int {
	if vp.deleted {
		return 0 // its queue is closed
	}
	paths := w.drain(vp)
	if !vp.up || len(paths) == 0 {
		return 0
	}
	f := vp.p.fsm
	opt := &bgp.MarshallingOption{AddPath: f.familyMap.Load().(map[bgp.Family]bgp.BGPAddPathMode), ExtendedMessage: f.extendedMessage.Load()}
	n := 0
	for _, msg := range table.CreateUpdateMsgFromPaths(paths, opt) {
		b, err := msg.Serialize(opt)
		if err != nil {
			continue // the daemon logs and drops it
		}
		n++
		// the far end parses with the mirrored ADD-PATH mode
		ropt := &bgp.MarshallingOption{AddPath: map[bgp.Family]bgp.BGPAddPathMode{}, ExtendedMessage: opt.ExtendedMessage}
		for fam, mode := range opt.AddPath {
			var r bgp.BGPAddPathMode
			if mode&bgp.BGP_ADD_PATH_SEND != 0 {
				r |= bgp.BGP_ADD_PATH_RECEIVE
			}
			if mode&bgp.BGP_ADD_PATH_RECEIVE != 0 {
				r |= bgp.BGP_ADD_PATH_SEND
			}
			ropt.AddPath[fam] = r
		}
		pm, err := bgp.ParseBGPMessage(b, ropt)
		if err != nil {
			w.t.Fatalf("far end cannot parse what was sent: %v", err)
		}
		w.apply(vp, pm.Body.(*bgp.BGPUpdate))
	}
	vp.nMsgs += n
	return n
}

func vwMarker(attrs []bgp.PathAttributeInterface) uint32 {
	for _, a := range attrs {
		if c, ok := a.(*bgp.PathAttributeCommunities); ok {
			for _, v := range c.Value {
				if v>>16 == 0xfffe { // marker communities are 65534:x
					return v & 0xffff
				}
			}
		}
	}
	return 0
}

func vwDigest(attrs []bgp.PathAttributeInterface) string {
	parts := make([]string, 0, len(attrs))
	for _, a := range attrs {
		switch a.GetType() {
		case bgp.BGP_ATTR_TYPE_MP_REACH_NLRI, bgp.BGP_ATTR_TYPE_MP_UNREACH_NLRI:
			continue
		}
		b, _ := a.Serialize()
		parts = append(parts, fmt.Sprintf("%x", b))
	}
	sort.Strings(parts)
	return strings.Join(parts, ",")
}

func (w *vWorld) apply(vp *vwPeer, u *bgp.BGPUpdate) {
	for _, wd := range u.WithdrawnRoutes {
		delete(vp.view, fmt.Sprintf("%s#%d", wd.NLRI.String(), wd.ID))
	}
	for _, a := range u.PathAttributes {
		if un, ok := a.(*bgp.PathAttributeMpUnreachNLRI); ok {
			for _, wd := range un.Value {
				delete(vp.view, fmt.Sprintf("%s#%d", wd.NLRI.String(), wd.ID))
			}
		}
	}
	h := vwHeld{marker: vwMarker(u.PathAttributes), digest: vwDigest(u.PathAttributes)}
	for _, n := range u.NLRI {
		vp.view[fmt.Sprintf("%s#%d", n.NLRI.String(), n.ID)] = h
	}
	for _, a := range u.PathAttributes {
		if r, ok := a.(*bgp.PathAttributeMpReachNLRI); ok {
			for _, n := range r.Value {
				vp.view[fmt.Sprintf("%s#%d", n.NLRI.String(), n.ID)] = h
			}
		}
	}
}

func (vp *vwPeer) viewString() string {
	keys := make([]string, 0, len(vp.view))
	for k := range vp.view {
		keys = append(keys, k)
	}
	sort.Strings(keys)
	var sb strings.Builder
	for _, k := range keys {
		fmt.Fprintf(&sb, " %s=%d", k, vp.view[k].marker)
	}
	return sb.String()
}

// TestVerifWorldProbe is a smoke test of the plumbing itself.
func TestVerifWorldProbe(t *testing.T) {
	w := newVWorld(t, 65000, "10.255.0.1")
	defer w.stop()
	a := w.addPeer(vwPeerSpec{kind: "ebgp", as: 65001, rid: netip.MustParseAddr("10.0.0.1"), addr: netip.MustParseAddr("192.168.0.1")})
	b := w.addPeer(vwPeerSpec{kind: "ebgp", as: 65002, rid: netip.MustParseAddr("10.0.0.2"), addr: netip.MustParseAddr("192.168.0.2")})
	w.sessionUp(a, nil)
	w.sessionUp(b, nil)
	nh, _ := bgp.NewPathAttributeNextHop(netip.MustParseAddr("192.168.0.1"))
	attrs := []bgp.PathAttributeInterface{bgp.NewPathAttributeOrigin(0),
		bgp.NewPathAttributeAsPath([]bgp.AsPathParamInterface{bgp.NewAs4PathParam(2, []uint32{65001})}), nh,
		bgp.NewPathAttributeCommunities([]uint32{0xfffe0007})}
	n, _ := bgp.NewIPAddrPrefix(netip.MustParsePrefix("10.1.0.0/24"))
	w.recv(a, bgp.NewBGPUpdateMessage(nil, attrs, []bgp.PathNLRI{{NLRI: n}}))
	w.flush(a)
	w.flush(b)
	t.Logf("a:%s | b:%s", a.viewString(), b.viewString())
	if b.viewString() != " 10.1.0.0/24#0=7" || a.viewString() != "" {
		t.Fatalf("unexpected views")
	}
	w.recv(a, bgp.NewBGPUpdateMessage([]bgp.PathNLRI{{NLRI: n}}, nil, nil))
	w.flush(b)
	if b.viewString() != "" {
		t.Fatalf("withdraw not seen: %s", b.viewString())
	}
	w.sessionDown(a, fsmReadFailed)
}

func TestVerifWorldDebug(t *testing.T) {
	w := newVWorld(t, 65000, "10.255.0.1")
	defer w.stop()
	a := w.addPeer(vwPeerSpec{kind: "ibgp", as: 65000, rid: netip.MustParseAddr("10.0.0.1"), addr: netip.MustParseAddr("192.168.0.1")})
	w.sessionUp(a, nil)
	t.Logf("isIBGP=%v type=%v rid=%v", a.p.isIBGPPeer(), a.p.fsm.pConf.ReadOnly().State.PeerType, a.p.fsm.gConf.Config.RouterId)
	nh, _ := bgp.NewPathAttributeNextHop(netip.MustParseAddr("192.168.0.1"))
	oid, _ := bgp.NewPathAttributeOriginatorId(netip.MustParseAddr("10.255.0.1"))
	attrs := []bgp.PathAttributeInterface{bgp.NewPathAttributeOrigin(0),
		bgp.NewPathAttributeAsPath([]bgp.AsPathParamInterface{}), nh,
		bgp.NewPathAttributeCommunities([]uint32{0xfffe0007}), oid}
	n, _ := bgp.NewIPAddrPrefix(netip.MustParsePrefix("10.1.0.0/24"))
	w.recv(a, bgp.NewBGPUpdateMessage(nil, attrs, []bgp.PathNLRI{{NLRI: n}}))
	for _, p := range a.p.adjRibIn.PathList([]bgp.Family{bgp.RF_IPv4_UC}, false) {
		t.Logf("adj: %v rejected=%v orig=%v aspath=%v", p, p.IsRejected(), p.GetOriginatorID(), p.GetAsPath())
	}
	w.sessionDown(a, fsmReadFailed)
	t.Logf("after down count=%d state=%v", a.p.adjRibIn.Count([]bgp.Family{bgp.RF_IPv4_UC}), a.p.fsm.pConf.ReadOnly().State.SessionState)
}
