//go:build verif

// C12 — graceful-restart / LLGR stale routes live exactly as long as the RFCs allow.
//
// TestVerifC12 (level a, white box, no sockets): one real BgpServer per history inside a
// testing/synctest bubble (virtual time).  The neighbour is created WITHOUT its FSM goroutine; the
// harness plays the part of fsmHandler.loop: it calls the real fsm.stateChange (negotiation from a
// real OPEN) and the real BgpServer.handleFSMMessage (state changes, UPDATEs, End-of-RIB).  Real
// LLGR and deferral timers run on the bubble's clock.  What the harness emulates itself (and what
// TestVerifC12Session therefore checks against the real fsm.established()):
//   - the classification of the way a session ends (c12Reason, mirror of established()),
//   - the restart timer (armed on a graceful loss, stopped on ESTABLISHED, fires a transition to
//     IDLE with fsmRestartTimerExpired iff PeerRestarting).
package server

import (
	"context"
	"errors"
	"fmt"
	"io"
	"net"
	"net/netip"
	"sort"
	"strings"
	"sync/atomic"
	"testing"
	"testing/synctest"
	"time"

	"github.com/osrg/gobgp/v4/api"
	"github.com/osrg/gobgp/v4/internal/pkg/table"
	"github.com/osrg/gobgp/v4/pkg/apiutil"
	"github.com/osrg/gobgp/v4/pkg/config/oc"
	"github.com/osrg/gobgp/v4/pkg/packet/bgp"
)

var c12Families = []bgp.Family{bgp.RF_IPv4_UC, bgp.RF_IPv6_UC, bgp.RF_IPv4_MC}

const (
	c12ReadFail = iota
	c12WriteFail
	c12HoldExpiry
	c12HoldExpiryWriteErr
	c12NotifRecv
	c12NotifRecvHard
	c12NotifSent
	c12AdminDown
	c12PrefixLimit
	c12NLoss
)

var c12LossName = []string{"readFail", "writeFail", "holdExpiry", "holdExpiryWriteErr", "notifRecv", "notifRecvHard", "notifSent", "adminDown", "prefixLimit"}

type c12FamCfg struct {
	id    int
	mpCfg bool // MpGracefulRestart.Config.Enabled
	llCfg bool // LongLivedGracefulRestart.Config.Enabled
}

type c12Cfg struct {
	gr, nb, ll, lr bool
	deferral       int
	fams           []c12FamCfg
}

type c12Caps struct {
	gr, nbit, rbit bool
	time           int
	tuples         []int
	llgr           bool
	ltuples        [][2]int
	mp             []int // families of the Multiprotocol capabilities of the OPEN; nil = every configured family
	noFwd          []int // families of tuples whose Forwarding State bit is clear
}

func (c c12Caps) fwd(f int) bool {
	for _, x := range c.noFwd {
		if x == f {
			return false
		}
	}
	return true
}

func (c c12Caps) line() string {
	var b strings.Builder
	fmt.Fprintf(&b, "est %d %d %d %d %d", c12b(c.gr), c12b(c.nbit), c12b(c.rbit), c.time, len(c.tuples))
	for _, t := range c.tuples {
		fmt.Fprintf(&b, " %d", t)
	}
	fmt.Fprintf(&b, " %d %d", c12b(c.llgr), len(c.ltuples))
	for _, t := range c.ltuples {
		fmt.Fprintf(&b, " %d %d", t[0], t[1])
	}
	fmt.Fprintf(&b, " %d", len(c.mp))
	for _, f := range c.mp {
		fmt.Fprintf(&b, " %d", f)
	}
	fmt.Fprintf(&b, " %d", len(c.noFwd))
	for _, f := range c.noFwd {
		fmt.Fprintf(&b, " %d", f)
	}
	return b.String()
}

func c12b(b bool) int {
	if b {
		return 1
	}
	return 0
}

type c12Conn struct{ net.Conn }

func (c12Conn) RemoteAddr() net.Addr { return &net.TCPAddr{IP: net.IPv4(10, 9, 0, 2).To4(), Port: 179} }
func (c12Conn) LocalAddr() net.Addr {
	return &net.TCPAddr{IP: net.IPv4(10, 9, 0, 1).To4(), Port: 30000}
}
func (c12Conn) Close() error { return nil }

// c12Env is one server + one neighbour under test.
type c12Env struct {
	t         *testing.T
	s         *BgpServer
	p         *peer
	cfg       c12Cfg
	now       int
	fsmState  bgp.FSMState
	enterIdle chan struct{} // the emulated FSM loop is below ESTABLISHED: react to the REAL restart timer
	leaveIdle chan struct{}
	quit      chan struct{}
	idling    bool
}

// idleLoop plays the `case <-fsm.gracefulRestartTimer.C:` arm of idle()/active()/opensent()/openconfirm():
// when the REAL timer — armed by the real established(), nowhere in this harness — fires while the FSM is
// below ESTABLISHED and PeerRestarting is set, the transition to IDLE with fsmRestartTimerExpired is delivered.
// Like the real loop it does not look at the timer while the session is ESTABLISHED or being torn down.
func (e *c12Env) idleLoop() {
	for {
		select {
		case <-e.enterIdle:
		case <-e.quit:
			return
		}
	idle:
		for {
			select {
			case <-e.p.fsm.gracefulRestartTimer.C:
				if e.p.fsm.pConf.ReadOnly().GracefulRestart.State.PeerRestarting {
					e.s.handleFSMMessage(e.p, &fsmMsg{MsgType: fsmMsgStateChange, MsgData: bgp.BGP_FSM_IDLE,
						StateReason: newfsmStateReason(fsmRestartTimerExpired, nil, nil), timestamp: time.Now()})
					e.p.fsm.state.Store(bgp.BGP_FSM_IDLE)
					e.fsmState = bgp.BGP_FSM_IDLE
				}
			case <-e.leaveIdle:
				break idle
			case <-e.quit:
				return
			}
		}
	}
}

func c12NewEnv(t *testing.T, cfg c12Cfg) *c12Env {
	s := NewBgpServer()
	go s.Serve()
	if err := s.StartBgp(context.Background(), &api.StartBgpRequest{Global: &api.Global{Asn: 65001, RouterId: "1.1.1.1", ListenPort: -1}}); err != nil {
		t.Fatal(err)
	}
	e := &c12Env{t: t, s: s, cfg: cfg, fsmState: bgp.BGP_FSM_IDLE, enterIdle: make(chan struct{}), leaveIdle: make(chan struct{}), quit: make(chan struct{})}
	e.p = c12AddPeer(t, s, "10.9.0.2", 65002, cfg)
	go e.idleLoop()
	return e
}

func c12AddPeer(t *testing.T, s *BgpServer, addr string, as uint32, cfg c12Cfg) *peer {
	ap := &api.Peer{
		Conf: &api.PeerConf{NeighborAddress: addr, PeerAsn: as},
		GracefulRestart: &api.GracefulRestart{
			Enabled: cfg.gr, RestartTime: 90, NotificationEnabled: cfg.nb, LonglivedEnabled: cfg.ll,
			LocalRestarting: cfg.lr, DeferralTime: uint32(cfg.deferral),
		},
	}
	for _, f := range cfg.fams {
		rf := c12Families[f.id]
		ap.AfiSafis = append(ap.AfiSafis, &api.AfiSafi{
			Config:                   &api.AfiSafiConfig{Family: apiutil.ToApiFamily(rf.Afi(), rf.Safi()), Enabled: true},
			MpGracefulRestart:        &api.MpGracefulRestart{Config: &api.MpGracefulRestartConfig{Enabled: f.mpCfg}},
			AddPaths:                 &api.AddPaths{Config: &api.AddPathsConfig{Receive: true}}, // several paths per prefix from this neighbour
			LongLivedGracefulRestart: &api.LongLivedGracefulRestart{Config: &api.LongLivedGracefulRestartConfig{Enabled: f.llCfg, RestartTime: 1000}},
		})
	}
	var p *peer
	err := s.mgmtOperation(func() error {
		c, err := newNeighborFromAPIStruct(ap)
		if err != nil {
			return err
		}
		if err := oc.SetDefaultNeighborConfigValues(c, nil, &s.bgpConfig.Global); err != nil {
			return err
		}
		p = newPeer(&s.bgpConfig.Global, c, bgp.BGP_FSM_IDLE, s.globalRib, s.policy, s.logger)
		if err := s.policy.SetPeerPolicy(p.ID(), c.ApplyPolicy); err != nil {
			return err
		}
		s.neighborMap[netip.MustParseAddr(addr)] = p
		return nil
	}, true)
	if err != nil {
		t.Fatal(err)
	}
	// no FSM goroutine: a handler whose cancel function deleteNeighbor / stopNeighbor can call
	ctx, cancel := context.WithCancel(context.Background())
	p.fsm.h = &fsmHandler{fsm: p.fsm, outgoing: p.fsm.outgoingCh, ctx: ctx, ctxCancel: cancel}
	return p
}

// deleteAndReadd removes the neighbour through the API (DeletePeer → deleteNeighbor, the path UpdatePeer
// and StopBgp use as well) and configures it again: a new peer object.
func (e *c12Env) deleteAndReadd() {
	if e.idling {
		e.leaveIdle <- struct{}{}
		e.idling = false
	}
	old := e.p
	if err := e.s.DeletePeer(context.Background(), &api.DeletePeerRequest{Address: "10.9.0.2"}); err != nil {
		e.t.Fatal(err)
	}
	synctest.Wait()
	old.fsm.gracefulRestartTimer.Stop() // the FSM loop of the deleted neighbour is gone
	old.fsm.outgoingCh.Close()
	for range old.fsm.outgoingCh.Out() {
	}
	e.p = c12AddPeer(e.t, e.s, "10.9.0.2", 65002, e.cfg)
	e.fsmState = bgp.BGP_FSM_IDLE
	synctest.Wait()
}

func (e *c12Env) stop() {
	close(e.quit)
	synctest.Wait()
	// the neighbour has no FSM goroutine: take it out before the server shuts its peers down
	_ = e.s.mgmtOperation(func() error {
		for k, p := range e.s.neighborMap {
			p.stopPeerRestarting()
			p.fsm.gracefulRestartTimer.Stop()
			p.fsm.outgoingCh.Close()
			for range p.fsm.outgoingCh.Out() {
			}
			delete(e.s.neighborMap, k)
		}
		return nil
	}, false)
	synctest.Wait()
	e.s.Stop()
	synctest.Wait()
}

func (e *c12Env) stateMsg(next bgp.FSMState, typ fsmStateReasonType) {
	e.s.handleFSMMessage(e.p, &fsmMsg{MsgType: fsmMsgStateChange, MsgData: next, StateReason: newfsmStateReason(typ, nil, nil), timestamp: time.Now()})
	e.p.fsm.state.Store(next)
	e.fsmState = next
	synctest.Wait()
}

func c12Open(c c12Caps, fams []c12FamCfg) *bgp.BGPMessage {
	caps := []bgp.ParameterCapabilityInterface{bgp.NewCapFourOctetASNumber(65002)}
	if c.mp == nil {
		for _, f := range fams {
			caps = append(caps, bgp.NewCapMultiProtocol(c12Families[f.id]))
		}
	}
	for _, id := range c.mp {
		caps = append(caps, bgp.NewCapMultiProtocol(c12Families[id]))
	}
	apt := []*bgp.CapAddPathTuple{}
	for _, f := range fams {
		apt = append(apt, bgp.NewCapAddPathTuple(c12Families[f.id], bgp.BGP_ADD_PATH_SEND))
	}
	caps = append(caps, bgp.NewCapAddPath(apt))
	if c.gr {
		tuples := []*bgp.CapGracefulRestartTuple{}
		for _, t := range c.tuples {
			tuples = append(tuples, bgp.NewCapGracefulRestartTuple(c12Families[t], c.fwd(t)))
		}
		caps = append(caps, bgp.NewCapGracefulRestart(c.rbit, c.nbit, uint16(c.time), tuples))
	}
	if c.llgr {
		lt := []*bgp.CapLongLivedGracefulRestartTuple{}
		for _, t := range c.ltuples {
			lt = append(lt, bgp.NewCapLongLivedGracefulRestartTuple(c12Families[t[0]], true, uint32(t[1])))
		}
		caps = append(caps, bgp.NewCapLongLivedGracefulRestart(lt))
	}
	m, _ := bgp.NewBGPOpenMessage(bgp.AS_TRANS, 90, netip.MustParseAddr("2.2.2.2"), []bgp.OptionParameterInterface{bgp.NewOptionParameterCapability(caps)})
	return m
}

// establish plays fsmHandler.loop for OPENCONFIRM → ESTABLISHED.
func (e *c12Env) establish(c c12Caps) {
	e.p.fsm.lock.Lock()
	e.p.fsm.recvOpen = c12Open(c, e.cfg.fams)
	e.p.fsm.conn = c12Conn{}
	e.p.fsm.lock.Unlock()
	e.p.fsm.stateChange(bgp.BGP_FSM_ESTABLISHED, newfsmStateReason(fsmOpenMsgNegotiated, nil, nil))
	if e.idling {
		e.leaveIdle <- struct{}{}
		e.idling = false
	}
	e.stateMsg(bgp.BGP_FSM_ESTABLISHED, fsmOpenMsgNegotiated)
	// established() begins with fsm.gracefulRestartTimer.Stop() (checked on the real function by
	// TestVerifC12Session); here established() only runs from the moment the session is torn down
	e.p.fsm.gracefulRestartTimer.Stop()
}

// c12Reason mirrors established(): which reason reaches handleFSMMessage when the session ends in
// way k (checked against the real function by TestVerifC12Session).
// c12NotifDefault fills in the (code, subcode) of the NOTIFICATION for corpus lines that name only the kind.
func c12NotifDefault(k int) (int, int) {
	switch k {
	case c12NotifRecv:
		return 6, 6 // Cease / Other Configuration Change
	case c12NotifRecvHard:
		return 6, 9 // Cease / Hard Reset
	case c12NotifSent:
		return 3, 1 // UPDATE Message Error / Malformed Attribute List
	}
	return 0, 0
}

func c12Reason(enabled, notif bool, k, code, sub int) fsmStateReasonType {
	raw, via, holdNotif := fsmReadFailed, true, false
	switch k {
	case c12ReadFail:
		raw = fsmReadFailed
	case c12PrefixLimit:
		raw, via = fsmNotificationSent, false
	case c12WriteFail:
		raw = fsmWriteFailed
	case c12HoldExpiry:
		if !enabled {
			raw, via = fsmHoldTimerExpired, false
		} else {
			raw, holdNotif = fsmNotificationSent, true
		}
	case c12HoldExpiryWriteErr:
		if !enabled {
			raw, via = fsmHoldTimerExpired, false
		} else {
			raw = fsmWriteFailed
		}
	case c12NotifRecv, c12NotifRecvHard:
		// recvMessageloop: Hard Reset is Cease (6) / subcode 9 and nothing else
		if enabled && notif && code == 6 && sub == 9 {
			raw = fsmHardReset
		} else {
			raw = fsmNotificationRecv
		}
	case c12NotifSent:
		raw, via = fsmNotificationSent, false
	case c12AdminDown:
		raw, via = fsmAdminDown, false
	}
	if via && enabled {
		if notif && raw == fsmNotificationRecv || raw == fsmNotificationSent && holdNotif || raw == fsmReadFailed || raw == fsmWriteFailed {
			return fsmGracefulRestart
		}
	}
	return raw
}

// c12LossElapsed is the virtual time the real established() needs to notice a loss of kind k with the
// timer values loss() gives it: a KEEPALIVE that cannot be written after 1 s, a hold timer of 3 s.
func c12LossElapsed(k int) int {
	switch k {
	case c12WriteFail:
		return 1
	case c12HoldExpiry, c12HoldExpiryWriteErr:
		return 3
	}
	return 0
}

// loss ends the session the way kind k says through the REAL fsmHandler.established() on an in-memory
// connection: the classification of the reason and the arming of fsm.gracefulRestartTimer are the code's.
// What follows (stateChange, callback, state.Store) is what fsmHandler.loop does.  Returns the reason.
func (e *c12Env) loss(k, code, sub int) fsmStateReasonType {
	hold, ka := 0.0, 0.0
	switch k {
	case c12WriteFail:
		hold, ka = 1000000, 1
	case c12HoldExpiry, c12HoldExpiryWriteErr:
		hold, ka = 3, 1000000
	}
	local, remote := net.Pipe()
	conn := &c12PipeConn{Conn: local}
	e.p.fsm.lock.Lock()
	conf := e.p.fsm.pConf.ReadCopy()
	conf.Timers.State.NegotiatedHoldTime = hold
	conf.Timers.State.KeepaliveInterval = ka
	e.p.fsm.pConf.Update(&conf)
	e.p.fsm.conn = conn
	e.p.fsm.lock.Unlock()
	ctx, cancel := context.WithCancel(context.Background())
	h := &fsmHandler{fsm: e.p.fsm, outgoing: e.p.fsm.outgoingCh, ctx: ctx, ctxCancel: cancel,
		callback: func(m *fsmMsg) { e.s.handleFSMMessage(e.p, m) }}
	e.p.fsm.h = h
	go func() { _, _ = io.Copy(io.Discard, remote) }()
	type ret struct {
		next   bgp.FSMState
		reason *fsmStateReason
	}
	done := make(chan ret, 1)
	go func() {
		n, r := h.established(ctx)
		done <- ret{n, r}
	}()
	synctest.Wait()
	t0 := time.Now()
	switch k {
	case c12ReadFail:
		remote.Close()
	case c12WriteFail:
		conn.failWrites.Store(true)
	case c12HoldExpiryWriteErr:
		// writes start failing only shortly before the hold timer fires: an UPDATE that an LLGR timer of an
		// earlier restart sends meanwhile must not turn this into a plain write failure
		time.Sleep(2500 * time.Millisecond)
		conn.failWrites.Store(true)
	case c12HoldExpiry:
	case c12NotifRecv, c12NotifRecvHard:
		b, _ := bgp.NewBGPNotificationMessage(uint8(code), uint8(sub), nil).Serialize()
		_, _ = remote.Write(b)
	case c12NotifSent:
		e.p.fsm.notification <- bgp.NewBGPNotificationMessage(uint8(code), uint8(sub), nil)
	case c12AdminDown:
		e.p.fsm.adminStateCh <- adminStateOperation{State: adminStateDown}
	case c12PrefixLimit:
		e.p.fsm.adminStateCh <- adminStateOperation{State: adminStatePfxCt}
	}
	got := <-done
	if el := time.Since(t0); el != time.Duration(c12LossElapsed(k))*time.Second {
		e.t.Fatalf("loss kind %s took %v of virtual time, expected %d s", c12LossName[k], el, c12LossElapsed(k))
	}
	e.now += c12LossElapsed(k)
	if k == c12AdminDown || k == c12PrefixLimit {
		// the harness neighbour has no administrative life of its own: back to "up" (before the state change
		// is delivered, so that handleFSMMessage does not wipe the neighbour's counters and timestamps)
		e.p.fsm.adminState.Store(adminStateUp)
		e.p.fsm.lock.Lock()
		conf := e.p.fsm.pConf.ReadCopy()
		conf.State.AdminDown = false
		e.p.fsm.pConf.Update(&conf)
		e.p.fsm.lock.Unlock()
	}
	e.p.fsm.stateChange(got.next, got.reason)
	e.s.handleFSMMessage(e.p, &fsmMsg{MsgType: fsmMsgStateChange, MsgData: got.next, StateReason: got.reason, timestamp: time.Now()})
	e.p.fsm.state.Store(got.next)
	e.fsmState = got.next
	cancel()
	remote.Close()
	local.Close()
	// the FSM loop is now in idle(): the restart timer is looked at again
	e.enterIdle <- struct{}{}
	e.idling = true
	synctest.Wait()
	return got.reason.Type
}

func (e *c12Env) sleepTo(t int) {
	if t > e.now {
		time.Sleep(time.Duration(t-e.now) * time.Second)
		e.now = t
	}
	synctest.Wait()
}

func (e *c12Env) tick(d int) { e.sleepTo(e.now + d) }

// c12Prefix: the route key of the protocol is (prefix, path id): key = prefix index + 4 × (path id − 1).
// The neighbour has ADD-PATH receive, so the paths of one prefix with different ids are separate
// Adj-RIB-In entries that are announced, re-announced, withdrawn and purged independently.
func c12Prefix(fam, routeKey int) (bgp.PathNLRI, netip.Addr) {
	key, id := routeKey%4, uint32(routeKey/4+1)
	var pfx netip.Prefix
	var nh netip.Addr
	switch fam {
	case 0:
		pfx, nh = netip.PrefixFrom(netip.AddrFrom4([4]byte{20, byte(key), 0, 0}), 16), netip.MustParseAddr("10.9.0.2")
	case 1:
		pfx, nh = netip.MustParsePrefix(fmt.Sprintf("2001:db8:%x::/48", key)), netip.MustParseAddr("2001:db8::2")
	default:
		pfx, nh = netip.PrefixFrom(netip.AddrFrom4([4]byte{30, byte(key), 0, 0}), 16), netip.MustParseAddr("10.9.0.2")
	}
	n, _ := bgp.NewIPAddrPrefix(pfx)
	return bgp.PathNLRI{NLRI: n, ID: id}, nh
}

func (e *c12Env) update(m *bgp.BGPMessage) {
	e.s.handleFSMMessage(e.p, &fsmMsg{MsgType: fsmMsgBGPMessage, MsgData: m, timestamp: time.Now()})
	synctest.Wait()
}

func (e *c12Env) announce(fam, key, ver int, noLL bool, nLL int, rej bool) {
	nlri, nh := c12Prefix(fam, key)
	asPath := []uint32{65002}
	if rej {
		asPath = []uint32{65002, 65001} // our own AS in the path: rejected at reception, kept in the Adj-RIB-In
	}
	attrs := []bgp.PathAttributeInterface{
		bgp.NewPathAttributeOrigin(0),
		bgp.NewPathAttributeAsPath([]bgp.AsPathParamInterface{bgp.NewAs4PathParam(bgp.BGP_ASPATH_ATTR_TYPE_SEQ, asPath)}),
	}
	var nlris []bgp.PathNLRI
	if fam == 0 {
		a, _ := bgp.NewPathAttributeNextHop(nh)
		attrs = append(attrs, a)
		nlris = []bgp.PathNLRI{nlri}
	} else {
		a, err := bgp.NewPathAttributeMpReachNLRI(c12Families[fam], []bgp.PathNLRI{nlri}, nh)
		if err != nil {
			e.t.Fatal(err)
		}
		attrs = append(attrs, a)
	}
	attrs = append(attrs, bgp.NewPathAttributeMultiExitDisc(uint32(ver)))
	comms := []uint32{}
	if noLL {
		comms = append(comms, uint32(bgp.COMMUNITY_NO_LLGR))
	}
	for i := 0; i < nLL; i++ {
		comms = append(comms, uint32(bgp.COMMUNITY_LLGR_STALE))
	}
	if len(comms) > 0 {
		attrs = append(attrs, bgp.NewPathAttributeCommunities(comms))
	}
	e.update(bgp.NewBGPUpdateMessage(nil, attrs, nlris))
}

func (e *c12Env) withdraw(fam, key int) {
	nlri, _ := c12Prefix(fam, key)
	if fam == 0 {
		e.update(bgp.NewBGPUpdateMessage([]bgp.PathNLRI{nlri}, nil, nil))
		return
	}
	a, _ := bgp.NewPathAttributeMpUnreachNLRI(c12Families[fam], []bgp.PathNLRI{nlri})
	e.update(bgp.NewBGPUpdateMessage(nil, []bgp.PathAttributeInterface{a}, nil))
}

func (e *c12Env) eor(fam int) { e.update(bgp.NewEndOfRib(c12Families[fam])) }

type c12Route struct {
	fam, key, ver int
	stale         bool
	nLL           int
	noLL          bool
	rej           bool // rejected at reception (AS_PATH loop): in the Adj-RIB-In, not accepted, not in the Loc-RIB
}

func (r c12Route) String() string {
	return fmt.Sprintf("%d.%d.%d.%d.%d.%d.%d", r.fam, r.key, r.ver, c12b(r.stale), r.nLL, c12b(r.noLL), c12b(r.rej))
}

func c12PathToRoute(p *table.Path) c12Route {
	r := c12Route{fam: -1}
	for i, f := range c12Families {
		if p.GetFamily() == f {
			r.fam = i
		}
	}
	pfx := p.GetNlri().String()
	for k := 0; k < 4; k++ {
		n, _ := c12Prefix(r.fam, k)
		if n.NLRI.String() == pfx {
			r.key = k
			if id := int(p.RemoteID()); id > 1 {
				r.key += 4 * (id - 1)
			}
		}
	}
	med, _ := p.GetMed()
	r.ver = int(med)
	r.stale = p.IsStale()
	for _, c := range p.GetCommunities() {
		if c == uint32(bgp.COMMUNITY_LLGR_STALE) {
			r.nLL++
		}
		if c == uint32(bgp.COMMUNITY_NO_LLGR) {
			r.noLL = true
		}
	}
	r.rej = p.IsRejected()
	return r
}

func c12Sort(rs []c12Route) {
	sort.Slice(rs, func(i, j int) bool {
		if rs[i].fam != rs[j].fam {
			return rs[i].fam < rs[j].fam
		}
		return rs[i].key < rs[j].key
	})
}

// adjIn returns the neighbour's Adj-RIB-In; ribIn the routes of the neighbour in the global table.
func (e *c12Env) adjIn() []c12Route {
	rs := []c12Route{}
	for _, p := range e.p.adjRibIn.PathList(e.p.configuredRFlist(), false) {
		rs = append(rs, c12PathToRoute(p))
	}
	c12Sort(rs)
	return rs
}

func (e *c12Env) locRib() []c12Route {
	rs := []c12Route{}
	for _, p := range e.s.globalRib.GetPathList(table.GLOBAL_RIB_NAME, 0, c12Families) {
		if src := p.GetSource(); src != nil && src.Address == netip.MustParseAddr("10.9.0.2") {
			rs = append(rs, c12PathToRoute(p))
		}
	}
	c12Sort(rs)
	return rs
}

func c12Routes(rs []c12Route) string {
	ss := make([]string, len(rs))
	for i, r := range rs {
		ss[i] = r.String()
	}
	return strings.Join(ss, " ")
}

// counters: what GetTable(ADJ_IN) reports per configured family — AdjRib.TableInfo: NumPath / NumAccepted.
func (e *c12Env) counters() string {
	parts := []string{}
	for _, f := range e.cfg.fams {
		info, err := e.p.adjRibIn.TableInfo(c12Families[f.id])
		if err != nil {
			parts = append(parts, fmt.Sprintf("%d:err", f.id))
			continue
		}
		parts = append(parts, fmt.Sprintf("%d:%d/%d", f.id, info.NumPath, info.NumAccepted))
	}
	return strings.Join(parts, " ")
}

// apiView reads the same things through the API (GetTable ADJ_IN, ListPeer) and returns what differs
// from the white-box reads, "" if nothing.
func (e *c12Env) apiView() string {
	ctx := context.Background()
	parts := []string{}
	for _, f := range e.cfg.fams {
		rf := c12Families[f.id]
		info, err := e.s.GetTable(ctx, &api.GetTableRequest{TableType: api.TableType_TABLE_TYPE_ADJ_IN, Family: apiutil.ToApiFamily(rf.Afi(), rf.Safi()), Name: "10.9.0.2"})
		if err != nil {
			return "GetTable: " + err.Error()
		}
		parts = append(parts, fmt.Sprintf("%d:%d/%d", f.id, info.NumPath, info.NumAccepted))
	}
	if got := strings.Join(parts, " "); got != e.counters() {
		return "GetTable(ADJ_IN) " + got + " vs " + e.counters()
	}
	conf := e.p.fsm.pConf.ReadOnly()
	diff := ""
	err := e.s.ListPeer(ctx, &api.ListPeerRequest{Address: "10.9.0.2"}, func(p *api.Peer) {
		if p.GracefulRestart == nil {
			diff = "ListPeer: no graceful-restart state"
			return
		}
		if p.GracefulRestart.PeerRestarting != conf.GracefulRestart.State.PeerRestarting || p.GracefulRestart.LocalRestarting != conf.GracefulRestart.State.LocalRestarting {
			diff = fmt.Sprintf("ListPeer restarting flags %v/%v vs %v/%v", p.GracefulRestart.PeerRestarting, p.GracefulRestart.LocalRestarting,
				conf.GracefulRestart.State.PeerRestarting, conf.GracefulRestart.State.LocalRestarting)
			return
		}
		est := conf.State.SessionState == oc.SESSION_STATE_ESTABLISHED
		for i, a := range p.AfiSafis {
			if i >= len(conf.AfiSafis) || a.MpGracefulRestart == nil || a.MpGracefulRestart.State == nil {
				continue
			}
			if a.MpGracefulRestart.State.EndOfRibReceived != conf.AfiSafis[i].MpGracefulRestart.State.EndOfRibReceived {
				diff = fmt.Sprintf("ListPeer EndOfRibReceived of family %d", i)
				return
			}
			if est && a.State != nil {
				info, _ := e.p.adjRibIn.TableInfo(conf.AfiSafis[i].State.Family)
				if info != nil && (a.State.Received != uint64(info.NumPath) || a.State.Accepted != uint64(info.NumAccepted)) {
					diff = fmt.Sprintf("ListPeer AfiSafi.State received/accepted %d/%d vs %d/%d", a.State.Received, a.State.Accepted, info.NumPath, info.NumAccepted)
					return
				}
			}
		}
	})
	if err != nil {
		return "ListPeer: " + err.Error()
	}
	return diff
}

func (e *c12Env) dump() string {
	conf := e.p.fsm.pConf.ReadOnly()
	st := conf.GracefulRestart.State
	var b strings.Builder
	fmt.Fprintf(&b, "est=%d pr=%d lr=%d llrun=%d en=%d nb=%d ll=%d rt=%d adv=%d | ",
		c12b(conf.State.SessionState == oc.SESSION_STATE_ESTABLISHED), c12b(st.PeerRestarting), c12b(st.LocalRestarting),
		c12b(e.p.longLivedRunning.Load()), c12b(st.Enabled), c12b(st.NotificationEnabled), c12b(st.LongLivedEnabled),
		st.PeerRestartTime, c12b(needToAdvertise(e.p)))
	fs := []string{}
	for _, a := range conf.AfiSafis {
		id := -1
		for i, f := range c12Families {
			if a.State.Family == f {
				id = i
			}
		}
		m, l := a.MpGracefulRestart.State, a.LongLivedGracefulRestart.State
		fs = append(fs, fmt.Sprintf("%d:%d%d%d%d%d%d%d%d:%d", id, c12b(m.Enabled), c12b(m.Received), c12b(m.EndOfRibReceived), c12b(m.Running),
			c12b(l.Enabled), c12b(l.Received), c12b(l.PeerRestartTimerExpired), c12b(l.Running), l.PeerRestartTime))
	}
	b.WriteString(strings.Join(fs, " "))
	neg := []int{}
	for _, rf := range e.p.negotiatedRFList() {
		for i, f := range c12Families {
			if rf == f {
				neg = append(neg, i)
			}
		}
	}
	sort.Ints(neg)
	fmt.Fprintf(&b, " | neg=%v | cnt %s | ", neg, e.counters())
	b.WriteString(c12Routes(e.adjIn()))
	return b.String()
}

// ---------------------------------------------------------------------------------------------
// oracle: the property restated on the event log alone (no model, no gobgp state)

type c12ORoute struct {
	ver      int
	stale    bool
	noLL     bool
	rej      bool // announced with an AS_PATH loop
	ll       bool // must carry LLGR_STALE
	llJudged bool // false: announced after the long-lived period began and lost again (not judged)
}

type c12Oracle struct {
	cfg        c12Cfg
	up         bool
	routes     map[[2]int]*c12ORoute
	grNeg      bool
	nNeg       bool
	grFams     map[int]bool
	rt         int
	llNeg      bool
	llFams     map[int]int
	retaining  bool // stale routes are being retained
	restartAt  int  // -1 none
	llPhase    bool
	llDeadline map[int]int
	pendingEOR map[int]bool
	now        int
	nSessions  int
}

func c12NewOracle(cfg c12Cfg) *c12Oracle {
	return &c12Oracle{cfg: cfg, routes: map[[2]int]*c12ORoute{}, restartAt: -1, grFams: map[int]bool{}, llFams: map[int]int{}, llDeadline: map[int]int{}, pendingEOR: map[int]bool{}}
}

func (o *c12Oracle) configured(f int) bool {
	for _, c := range o.cfg.fams {
		if c.id == f {
			return true
		}
	}
	return false
}

func (o *c12Oracle) purgeStale() {
	for k, r := range o.routes {
		if r.stale {
			delete(o.routes, k)
		}
	}
	o.retaining, o.restartAt, o.llPhase = false, -1, false
	o.llDeadline = map[int]int{}
}

func (o *c12Oracle) est(c c12Caps) {
	o.up = true
	o.nSessions++
	o.grNeg = o.cfg.gr && c.gr
	o.nNeg = o.grNeg && o.cfg.nb && c.nbit
	o.grFams = map[int]bool{}
	o.rt = 0
	if o.grNeg {
		o.rt = c.time
		for _, t := range c.tuples {
			inMP := c.mp == nil
			for _, m := range c.mp {
				inMP = inMP || m == t
			}
			// a family the session does not carry cannot be restarted gracefully
			if o.configured(t) && inMP {
				o.grFams[t] = true
			}
		}
	}
	o.llNeg = o.cfg.ll && c.gr && c.llgr
	o.llFams = map[int]int{}
	if o.llNeg {
		for _, t := range c.ltuples {
			if o.configured(t[0]) {
				o.llFams[t[0]] = t[1]
			}
		}
	}
	o.restartAt = -1
	o.pendingEOR = map[int]bool{}
	for f := range o.grFams {
		o.pendingEOR[f] = true
	}
	if o.retaining {
		// RFC 4724 4.2: "if the Forwarding State bit for a specific address family is not set in the newly
		// received Graceful Restart Capability, or if a specific address family is not included in [it], or
		// if the Graceful Restart Capability is not received in the re-established session at all, then the
		// Receiving Speaker MUST immediately remove all the stale routes from the peer that it is retaining
		// for that address family."
		for key, r := range o.routes {
			if r.stale && !(o.grFams[key[0]] && c.fwd(key[0])) {
				delete(o.routes, key)
			}
		}
	}
	if o.retaining && len(o.pendingEOR) == 0 {
		o.purgeStale()
	}
}

func c12SpecGraceful(grNeg, nNeg bool, k, code, sub int) bool {
	if !grNeg {
		return false
	}
	switch k {
	case c12ReadFail, c12WriteFail, c12HoldExpiry, c12HoldExpiryWriteErr:
		return true
	case c12NotifRecv, c12NotifRecvHard:
		// RFC 8538: with the N bit every received NOTIFICATION is graceful except Cease / Hard Reset (6/9)
		return nNeg && !(code == 6 && sub == 9)
	}
	return false
}

func (o *c12Oracle) loss(k, code, sub int) {
	o.up = false
	if !c12SpecGraceful(o.grNeg, o.nNeg, k, code, sub) {
		o.routes = map[[2]int]*c12ORoute{}
		o.retaining, o.restartAt, o.llPhase = false, -1, false
		o.llDeadline = map[int]int{}
		return
	}
	for key, r := range o.routes {
		if !o.grFams[key[0]] {
			delete(o.routes, key)
			continue
		}
		if !r.stale && o.llPhase {
			r.llJudged = false
		}
		r.stale = true
	}
	o.retaining = true
	if !o.llPhase {
		o.restartAt = o.now + o.rt
	}
}

// adminDown: administrative shutdown while the session is down removes everything at once.
func (o *c12Oracle) adminDown() {
	if !o.up {
		o.routes = map[[2]int]*c12ORoute{}
		o.retaining, o.restartAt, o.llPhase = false, -1, false
		o.llDeadline = map[int]int{}
	}
}

// advance moves the clock, applying the deadlines that fall in (now, t].
func (o *c12Oracle) advance(t int) {
	for {
		next, what := -1, -1 // what: -2 restart, else family
		if o.restartAt >= 0 && !o.up && !o.llPhase {
			next, what = o.restartAt, -2
		}
		for f, d := range o.llDeadline {
			if next < 0 || d < next {
				next, what = d, f
			}
		}
		if next < 0 || next > t {
			break
		}
		o.now = next
		if what == -2 {
			o.restartAt = -1
			if !o.llNeg {
				o.purgeStale()
				continue
			}
			o.llPhase = true
			for key, r := range o.routes {
				if !r.stale {
					continue
				}
				if _, ok := o.llFams[key[0]]; !ok || r.noLL {
					delete(o.routes, key)
					continue
				}
				r.ll = true
			}
			for f, lt := range o.llFams {
				o.llDeadline[f] = next + lt
			}
			if len(o.llDeadline) == 0 {
				o.purgeStale()
			}
		} else {
			delete(o.llDeadline, what)
			for key, r := range o.routes {
				if key[0] == what && r.stale {
					delete(o.routes, key)
				}
			}
			if len(o.llDeadline) == 0 {
				o.purgeStale()
			}
		}
	}
	o.now = t
}

func (o *c12Oracle) announce(fam, key, ver int, noLL, rej bool) {
	if o.up {
		o.routes[[2]int{fam, key}] = &c12ORoute{ver: ver, noLL: noLL, rej: rej, llJudged: true}
	}
}

// deleted: the peer object went away (and was configured again): nothing of it may be left.
func (o *c12Oracle) deleted() {
	o.up = false
	o.routes = map[[2]int]*c12ORoute{}
	o.retaining, o.restartAt, o.llPhase = false, -1, false
	o.llDeadline = map[int]int{}
	o.pendingEOR = map[int]bool{}
	o.grNeg, o.nNeg, o.llNeg = false, false, false
	o.grFams, o.llFams = map[int]bool{}, map[int]int{}
}

// counters returns what must be REPORTED per configured family: routes received and routes accepted.
func (o *c12Oracle) counters() string {
	parts := []string{}
	for _, f := range o.cfg.fams {
		recv, acc := 0, 0
		for k, r := range o.routes {
			if k[0] == f.id {
				recv++
				if !r.rej {
					acc++
				}
			}
		}
		parts = append(parts, fmt.Sprintf("%d:%d/%d", f.id, recv, acc))
	}
	return strings.Join(parts, " ")
}

func (o *c12Oracle) withdraw(fam, key int) {
	if o.up {
		delete(o.routes, [2]int{fam, key})
	}
}

func (o *c12Oracle) eor(f int) {
	if !o.up {
		return
	}
	delete(o.pendingEOR, f)
	if o.retaining && len(o.pendingEOR) == 0 {
		o.purgeStale()
	}
}

func (o *c12Oracle) describe() string {
	rs := []c12Route{}
	for k, r := range o.routes {
		n := 0
		if r.ll {
			n = 1
		}
		rs = append(rs, c12Route{fam: k[0], key: k[1], ver: r.ver, stale: r.stale, nLL: n, noLL: r.noLL})
	}
	c12Sort(rs)
	return fmt.Sprintf("t=%d up=%v retaining=%v restartAt=%d llDeadline=%v pendingEOR=%v routes: %s", o.now, o.up, o.retaining, o.restartAt, o.llDeadline, o.pendingEOR, c12Routes(rs))
}

// compare returns "" or the kind of the first discrepancy between what the property allows and
// what the neighbour's Adj-RIB-In / the global table hold.
func (o *c12Oracle) compare(adj, loc []c12Route) string {
	got := map[[2]int]c12Route{}
	for _, r := range adj {
		got[[2]int{r.fam, r.key}] = r
	}
	for k, w := range o.routes {
		g, ok := got[k]
		if !ok {
			if w.stale {
				return "stale-route-removed-early"
			}
			return "fresh-route-removed"
		}
		if g.ver != w.ver {
			return "route-version"
		}
		if g.rej != w.rej {
			return "rejected-flag-of-route-misreported"
		}
		if g.stale != w.stale {
			if g.stale {
				return "fresh-route-marked-stale"
			}
			return "stale-route-not-marked"
		}
		if w.llJudged {
			if w.ll && g.nLL != 1 {
				return "llgr-stale-community-missing-or-repeated"
			}
			if !w.ll && g.nLL != 0 {
				return "llgr-stale-community-unexpected"
			}
		}
	}
	for k, g := range got {
		if _, ok := o.routes[k]; !ok {
			if g.stale {
				return "stale-route-outlives-its-allowance"
			}
			return "route-unexpected"
		}
	}
	accepted := []c12Route{}
	for _, r := range adj {
		if !r.rej {
			accepted = append(accepted, r)
		}
	}
	if c12Routes(accepted) != c12Routes(loc) {
		return "loc-rib-differs-from-adj-rib-in"
	}
	return ""
}

// ---------------------------------------------------------------------------------------------
// generator

type c12Ev struct {
	op   string // est loss goto ann wd eor tick
	a    [6]int
	caps c12Caps
}

func (ev c12Ev) line() string {
	switch ev.op {
	case "est":
		return ev.caps.line()
	case "loss":
		return fmt.Sprintf("loss %d %d %d %d", ev.a[0], ev.a[1], ev.a[2], c12LossElapsed(ev.a[0]))
	case "eor", "tick":
		return fmt.Sprintf("%s %d", ev.op, ev.a[0])
	case "goto":
		return fmt.Sprintf("goto %d %d", ev.a[0], ev.a[1])
	case "wd":
		return fmt.Sprintf("wd %d %d", ev.a[0], ev.a[1])
	}
	if ev.op == "del" {
		return "del"
	}
	if ev.op == "partial" {
		return fmt.Sprintf("(partial %d)", ev.a[0])
	}
	return fmt.Sprintf("ann %d %d %d %d %d %d", ev.a[0], ev.a[1], ev.a[2], ev.a[3], ev.a[4], ev.a[5])
}

func c12GenCfg(r *vRand) c12Cfg {
	cfg := c12Cfg{gr: r.chance(88), nb: r.chance(50), ll: r.chance(55), deferral: r.pick(33, 77)}
	cfg.lr = cfg.gr && r.chance(12)
	ids := []int{0, 1, 2}
	if r.chance(30) {
		drop := r.intn(3)
		ids = append(ids[:drop:drop], ids[drop+1:]...)
	}
	for _, id := range ids {
		cfg.fams = append(cfg.fams, c12FamCfg{id: id, mpCfg: r.chance(70), llCfg: r.chance(50)})
	}
	return cfg
}

func c12GenCaps(r *vRand, cfg c12Cfg) c12Caps {
	c := c12Caps{gr: r.chance(85), nbit: r.chance(50), rbit: r.chance(25), time: r.pick(0, 0, 1, 7, 12, 20, 30, 45, 60, 4095), llgr: r.chance(55)}
	// the families the peer opens the session with: all configured ones, or (45%) a non-empty subset —
	// a restarted peer may come back with fewer, more or other families than the lost session had
	c.mp = []int{}
	for _, f := range cfg.fams {
		c.mp = append(c.mp, f.id)
	}
	if r.chance(45) {
		sub := []int{}
		for _, id := range c.mp {
			if r.chance(50) {
				sub = append(sub, id)
			}
		}
		if len(sub) == 0 {
			sub = []int{c.mp[r.intn(len(c.mp))]}
		}
		c.mp = sub
	}
	inMP := func(id int) bool {
		for _, m := range c.mp {
			if m == id {
				return true
			}
		}
		return false
	}
	for _, f := range cfg.fams {
		if inMP(f.id) && r.chance(75) || !inMP(f.id) && r.chance(12) { // rarely: a GR tuple for a family the session does not carry
			c.tuples = append(c.tuples, f.id)
			if r.chance(15) {
				c.noFwd = append(c.noFwd, f.id) // forwarding state not preserved for this family
			}
		}
	}
	// LLGR stale times: the whole range of the 24-bit field, 0 ("expire at once") included
	all := []int{0, 1, 25, 40, 55, 16777215}
	pp := r.perm(len(all))
	lts := []int{all[pp[0]], all[pp[1]], all[pp[2]]}
	p := r.perm(3)
	for i, f := range cfg.fams {
		if inMP(f.id) && r.chance(65) {
			c.ltuples = append(c.ltuples, [2]int{f.id, lts[p[i]]})
		}
	}
	if !c.llgr {
		c.ltuples = nil
	}
	if !c.gr {
		c.tuples, c.nbit, c.rbit, c.noFwd = nil, false, false, nil
	}
	return c
}

func c12GenHistory(r *vRand, cfg c12Cfg, maxEv int) []c12Ev {
	evs := []c12Ev{}
	est := false
	state := 0 // 0 idle 1 active 2 opensent 3 openconfirm
	var caps c12Caps
	haveCaps := false
	ver := 1
	now := 0
	cands := []int{} // instants at which a restart / LLGR / deferral timer may be due
	tick := func(free []int) {
		d := free[r.intn(len(free))]
		later := []int{}
		for _, c := range cands {
			if c > now {
				later = append(later, c)
			}
		}
		if len(later) > 0 && r.chance(60) {
			d = later[r.intn(len(later))] - now + r.pick(-1, 0, 0, 1)
			if d < 1 {
				d = 1
			}
		}
		now += d
		evs = append(evs, c12Ev{op: "tick", a: [6]int{d}})
	}
	fam := func() int { return caps.mp[r.intn(len(caps.mp))] } // only families of the current session
	inSession := func(f int) bool {
		for _, m := range caps.mp {
			if m == f {
				return true
			}
		}
		return false
	}
	// what the scripted peer has announced so far, per (family, prefix): a peer whose configuration did not
	// change re-announces byte-identical routes after a restart (the normal case), so a large share of the
	// announcements repeats an earlier one exactly (same attributes, same next hop)
	// 65% of the histories: the peer announces up to three paths (path ids 1..3) per prefix; after a
	// restart only some of them come back (the identical re-announcements pick (prefix, id) pairs at random)
	pathIDs := 1
	if r.chance(65) {
		pathIDs = 3
	}
	type annKey struct{ fam, key int }
	last := map[annKey][3]int{} // version, NO_LLGR, rejected (AS_PATH loop)
	lastKeys := []annKey{}
	announce := func() {
		if len(lastKeys) > 0 && r.chance(55) {
			k := lastKeys[r.intn(len(lastKeys))]
			if inSession(k.fam) {
				v := last[k]
				evs = append(evs, c12Ev{op: "ann", a: [6]int{k.fam, k.key, v[0], v[1], 0, v[2]}})
				return
			}
		}
		f0, pfx := fam(), r.intn(3)
		ids := []int{r.intn(pathIDs)}
		if pathIDs > 1 && r.chance(60) {
			// the peer has several paths for the prefix: 2 or 3 path ids in a row
			ids = []int{0, 1, 2}[:2+r.intn(2)]
		}
		for _, id := range ids {
			ver++
			k := annKey{f0, pfx + 4*id}
			if _, ok := last[k]; !ok {
				lastKeys = append(lastKeys, k)
			}
			last[k] = [3]int{ver, c12b(r.chance(25)), c12b(r.chance(18))}
			evs = append(evs, c12Ev{op: "ann", a: [6]int{k.fam, k.key, ver, last[k][1], 0, last[k][2]}})
		}
	}
	connect := func() {
		for state < 3 {
			state++
			evs = append(evs, c12Ev{op: "goto", a: [6]int{state}})
		}
		if !haveCaps || r.chance(45) {
			caps = c12GenCaps(r, cfg)
			haveCaps = true
		}
		evs = append(evs, c12Ev{op: "est", caps: caps})
		est = true
		if cfg.lr {
			cands = append(cands, now+cfg.deferral)
		}
		// partial table transfer of an ADD-PATH peer: of every prefix with several paths only ONE comes back
		// (decided at run time on what the Adj-RIB-In holds, see "partial") and End-of-RIB follows at once
		if pathIDs > 1 && len(lastKeys) > 1 && r.chance(50) {
			evs = append(evs, c12Ev{op: "partial", a: [6]int{r.intn(3)}})
			for _, f := range caps.mp {
				if r.chance(85) {
					evs = append(evs, c12Ev{op: "eor", a: [6]int{f}})
				}
			}
			return
		}
		// table transfer of a restarted peer with unchanged configuration: the same routes again
		if len(lastKeys) > 0 && r.chance(70) {
			for n := 1 + r.intn(3); n > 0; n-- {
				k := lastKeys[r.intn(len(lastKeys))]
				if !inSession(k.fam) {
					continue
				}
				evs = append(evs, c12Ev{op: "ann", a: [6]int{k.fam, k.key, last[k][0], last[k][1], 0, last[k][2]}})
			}
		}
	}
	connect()
	for len(evs) < maxEv {
		if !cfg.lr && r.chance(3) {
			// the peer object goes away in whatever phase it is, and is configured again
			evs = append(evs, c12Ev{op: "del"})
			est, state = false, 0
			cands = nil
			continue
		}
		if est {
			switch x := r.intn(100); {
			case x < 40:
				announce()
			case x < 47:
				evs = append(evs, c12Ev{op: "wd", a: [6]int{fam(), r.intn(3) + 4*r.intn(pathIDs)}})
			case x < 67:
				evs = append(evs, c12Ev{op: "eor", a: [6]int{fam()}})
			case x < 80:
				tick([]int{1, 3, 9, 14, 26, 41})
			default:
				k := r.pick(c12ReadFail, c12ReadFail, c12WriteFail, c12HoldExpiry, c12HoldExpiry, c12HoldExpiryWriteErr, c12NotifRecv, c12NotifRecv,
					c12NotifRecvHard, c12NotifSent, c12AdminDown, c12PrefixLimit)
				code, sub := c12NotifDefault(k)
				all := []int{0, 1, 2, 3, 4, 5, 6, 7, 8, 255}
				switch {
				case k == c12NotifSent:
					code, sub = 1+r.intn(6), r.intn(13)
				case k != c12NotifRecv: // other kinds; c12NotifRecvHard stays Cease / Hard Reset
				case r.chance(30):
					code, sub = 6, r.pick(0, 1, 2, 3, 4, 5, 6, 7, 8, 9, 9, 10, 11, 12, 255)
				case r.chance(45):
					code, sub = r.pick(0, 1, 2, 3, 4, 5, 7, 255), 9 // Hard Reset's subcode under another code
				default:
					code, sub = all[r.intn(len(all))], r.pick(0, 1, 2, 3, 4, 5, 6, 7, 8, 9, 10, 11, 12, 255)
				}
				evs = append(evs, c12Ev{op: "loss", a: [6]int{k, code, sub}})
				est, state = false, 0
				cands = append(cands, now+caps.time)
				for _, lt := range caps.ltuples {
					cands = append(cands, now+caps.time+lt[1])
				}
			}
		} else {
			switch x := r.intn(100); {
			case x < 45:
				tick([]int{1, 2, 5, 6, 7, 8, 11, 12, 13, 19, 20, 21, 24, 25, 26, 30, 39, 40, 41, 54, 55, 56, 60, 61, 90})
			case x < 60:
				// a connection attempt that moves on or fails back to IDLE
				ad := 0
				if state < 3 && r.chance(60) {
					state++
				} else {
					if state > 0 && r.chance(25) {
						ad = 1 // administrative shutdown while ACTIVE/OPENSENT/OPENCONFIRM
					}
					state = 0
				}
				evs = append(evs, c12Ev{op: "goto", a: [6]int{state, ad}})
			default:
				connect()
			}
		}
	}
	return evs
}

// ---------------------------------------------------------------------------------------------

type c12Result struct {
	class  string
	detail map[string]any
}

// c12RunHistory replays one history on a fresh server, writing protocol lines and checking the oracle.
func c12RunHistory(t *testing.T, o *vOut, cfg c12Cfg, evs []c12Ev, corpus string) (res *c12Result) {
	synctest.Test(t, func(t *testing.T) {
		e := c12NewEnv(t, cfg)
		defer e.stop()
		or := c12NewOracle(cfg)
		judging := true
		invariantFailed := false
		countersFailed, apiFailed := false, false
		var prevCaps c12Caps
		var hdr strings.Builder
		fmt.Fprintf(&hdr, "reset %d %d %d %d %d %d", c12b(cfg.gr), c12b(cfg.nb), c12b(cfg.ll), cfg.deferral, c12b(cfg.lr), len(cfg.fams))
		for _, f := range cfg.fams {
			fmt.Fprintf(&hdr, " %d %d", f.id, c12b(f.mpCfg))
		}
		o.op("%s", hdr.String())
		log := []string{hdr.String()}
		evs := append([]c12Ev{}, evs...)
		for i := 0; i < len(evs); i++ {
			ev := evs[i]
			if ev.op == "partial" {
				// partial table transfer of an ADD-PATH peer, decided on what the Adj-RIB-In REALLY holds now: of
				// every prefix with several stale paths exactly one comes back, byte-identical — the path stored
				// first (which 0), last (1) or in between (2).  Expanded into ordinary `ann` events.
				anns := []c12Ev{}
				if e.fsmState == bgp.BGP_FSM_ESTABLISHED {
					type pk struct{ fam, pfx int }
					stored := map[pk][]c12Route{}
					order := []pk{}
					for _, path := range e.p.adjRibIn.PathList(e.p.configuredRFlist(), false) { // storage order
						rt := c12PathToRoute(path)
						k := pk{rt.fam, rt.key % 4}
						if _, ok := stored[k]; !ok {
							order = append(order, k)
						}
						stored[k] = append(stored[k], rt)
					}
					for _, k := range order {
						rs := stored[k]
						if len(rs) < 2 || !rs[0].stale || rs[0].nLL > 0 {
							continue
						}
						rt := rs[[]int{0, len(rs) - 1, len(rs) / 2}[ev.a[0]%3]]
						if rt.nLL > 0 {
							continue
						}
						anns = append(anns, c12Ev{op: "ann", a: [6]int{rt.fam, rt.key, rt.ver, c12b(rt.noLL), 0, c12b(rt.rej)}})
						o.stat(fmt.Sprintf("addpath_partial_return_%s", []string{"first", "last", "middle"}[ev.a[0]%3]), 1)
					}
				}
				evs = append(evs[:i+1], append(anns, evs[i+1:]...)...)
				continue
			}
			line := ev.line()
			log = append(log, line)
			o.op("%s", line)
			switch ev.op {
			case "est":
				if or.nSessions > 0 {
					set := func(l []int) string { x := append([]int{}, l...); sort.Ints(x); return fmt.Sprint(x) }
					if set(prevCaps.mp) != set(ev.caps.mp) {
						o.stat("reest_mp_families_changed", 1)
					}
					if prevCaps.gr && !ev.caps.gr {
						o.stat("reest_gr_dropped", 1)
					}
					if prevCaps.gr && ev.caps.gr && set(prevCaps.tuples) != set(ev.caps.tuples) {
						o.stat("reest_gr_families_changed", 1)
					}
					if prevCaps.nbit != ev.caps.nbit {
						o.stat("reest_nbit_changed", 1)
					}
					if fmt.Sprint(prevCaps.llgr, prevCaps.ltuples) != fmt.Sprint(ev.caps.llgr, ev.caps.ltuples) {
						o.stat("reest_llgr_changed", 1)
					}
					staleFams := map[int]bool{}
					for _, r0 := range e.adjIn() {
						if r0.stale {
							staleFams[r0.fam] = true
						}
					}
					for f := range staleFams {
						listed := false
						for _, t := range ev.caps.tuples {
							listed = listed || t == f
						}
						if ev.caps.gr && len(ev.caps.tuples) > 0 && !listed {
							o.stat("reest_stale_routes_in_family_not_relisted", 1)
						}
						if listed && !ev.caps.fwd(f) {
							o.stat("reest_stale_routes_in_family_fbit_clear", 1)
						}
					}
				}
				prevCaps = ev.caps
				e.establish(ev.caps)
				or.est(ev.caps)
				if judging && cfg.lr && ev.caps.gr && ev.caps.rbit {
					// both speakers restarting: gobgp marks every End-of-RIB of the peer as already
					// received; the property does not speak about this combination; not judged
					judging = false
					o.stat("unjudged_both_restarting", 1)
				}
				o.stat("ev_est", 1)
				if or.nSessions > 1 {
					o.stat("ev_reestablish", 1)
				}
			case "loss":
				o.stat("loss_"+c12LossName[ev.a[0]], 1)
				or.advance(or.now + c12LossElapsed(ev.a[0])) // time established() needs to notice this kind of loss
				if ev.a[0] == c12NotifRecv || ev.a[0] == c12NotifRecvHard {
					switch {
					case ev.a[1] == 6 && ev.a[2] == 9:
						o.stat("notif_recv_cease_hard_reset", 1)
					case ev.a[2] == 9:
						o.stat("notif_recv_subcode9_other_code", 1)
					case ev.a[1] == 6:
						o.stat("notif_recv_cease_other", 1)
					default:
						o.stat("notif_recv_other", 1)
					}
				}
				if judging && or.llPhase && c12SpecGraceful(or.grNeg, or.nNeg, ev.a[0], ev.a[1], ev.a[2]) {
					// a further graceful loss while long-lived timers are still running: RFC 9494 keeps the
					// timers; what the routes learned in between are owed is not settled by the property
					judging = false
					o.stat("unjudged_graceful_loss_during_llgr", 1)
				}
				rt := int(e.p.fsm.pConf.ReadOnly().GracefulRestart.State.PeerRestartTime)
				if e.loss(ev.a[0], ev.a[1], ev.a[2]) == fsmGracefulRestart {
					o.stat("loss_graceful", 1)
					switch {
					case rt == 0:
						o.stat("loss_graceful_restart_time_0", 1)
					case rt == 1:
						o.stat("loss_graceful_restart_time_1", 1)
					case rt == 4095:
						o.stat("loss_graceful_restart_time_4095", 1)
					}
				} else {
					o.stat("loss_other", 1)
				}
				or.loss(ev.a[0], ev.a[1], ev.a[2])
				or.advance(or.now) // deadlines that fall on the instant of the loss (restart time 0, LLGR time 0)
			case "goto":
				reason := fsmReadFailed
				if ev.a[1] == 1 {
					reason = fsmAdminDown
					if judging && or.retaining {
						// an administrative shutdown while the session is already down: the property
						// does not say what becomes of the retained routes; not judged from here on
						judging = false
						o.stat("unjudged_admin_down_while_retaining", 1)
					}
				}
				e.stateMsg([]bgp.FSMState{bgp.BGP_FSM_IDLE, bgp.BGP_FSM_ACTIVE, bgp.BGP_FSM_OPENSENT, bgp.BGP_FSM_OPENCONFIRM}[ev.a[0]], reason)
				o.stat("ev_goto", 1)
				if ev.a[0] == 0 {
					o.stat("ev_goto_idle", 1)
				}
			case "ann":
				for _, cur := range e.adjIn() {
					if cur.fam == ev.a[0] && cur.key == ev.a[1] && cur.ver == ev.a[2] && cur.noLL == (ev.a[3] == 1) && cur.rej == (ev.a[5] == 1) {
						switch {
						case cur.nLL > 0:
							o.stat("ann_original_attrs_over_llgr_stale_entry", 1)
						case cur.stale:
							o.stat("ann_identical_to_stale_entry", 1)
						default:
							o.stat("ann_identical_to_fresh_entry", 1)
						}
					}
				}
				e.announce(ev.a[0], ev.a[1], ev.a[2], ev.a[3] == 1, ev.a[4], ev.a[5] == 1)
				or.announce(ev.a[0], ev.a[1], ev.a[2], ev.a[3] == 1, ev.a[5] == 1)
				o.stat("ev_ann", 1)
				if ev.a[5] == 1 {
					o.stat("ev_ann_rejected_as_loop", 1)
				}
			case "del":
				phase := "established"
				switch {
				case e.fsmState == bgp.BGP_FSM_ESTABLISHED:
				case e.p.longLivedRunning.Load():
					phase = "llgr"
				case e.p.fsm.pConf.ReadOnly().GracefulRestart.State.PeerRestarting:
					phase = "restart-window"
				default:
					phase = "down"
				}
				o.stat("ev_delete_while_"+phase, 1)
				e.deleteAndReadd()
				or.deleted()
			case "wd":
				e.withdraw(ev.a[0], ev.a[1])
				or.withdraw(ev.a[0], ev.a[1])
				o.stat("ev_wd", 1)
			case "eor":
				e.eor(ev.a[0])
				or.eor(ev.a[0])
				o.stat("ev_eor", 1)
			case "tick":
				e.tick(ev.a[0])
				or.advance(or.now + ev.a[0])
				o.stat("ev_tick", 1)
			}
			d := e.dump()
			o.ask(d, "dump")
			adj := e.adjIn()
			// what is REPORTED about the neighbour: the counters must be those of the routes the event log says
			// it holds (received, and accepted = not rejected at reception) …
			if judging && !countersFailed {
				if got, want := e.counters(), or.counters(); got != want {
					countersFailed = true
					o.fail("reported-received/accepted-counters@"+ev.op, map[string]any{"corpus": corpus, "history": append([]string{}, log...),
						"reported": got, "routes held per the event log": want, "observed": d})
				}
			}
			// … and the API (GetTable ADJ_IN, ListPeer) must show what the white-box reads show
			if ev.op != "ann" && ev.op != "wd" && ev.op != "goto" && !apiFailed {
				if diff := e.apiView(); diff != "" {
					apiFailed = true
					o.fail("api-view-differs@"+ev.op, map[string]any{"corpus": corpus, "history": append([]string{}, log...), "difference": diff})
				}
				o.stat("api_view_checks", 1)
			}
			for _, r := range adj {
				if r.stale {
					o.stat("obs_stale_route", 1)
				}
				if r.nLL > 0 {
					o.stat("obs_llgr_stale_route", 1)
				}
			}
			// implementation-side invariant (independent of the event-log oracle): from the first session on,
			// every Adj-RIB-In route — fresh or stale, session up or down — is of a family the LATEST session
			// carried; so whichever family list a purge walks (configured or negotiated), nothing can hide
			// outside it
			if or.nSessions > 0 && !invariantFailed {
				negotiated := map[int]bool{}
				for _, rf := range e.p.negotiatedRFList() {
					for i, f := range c12Families {
						if rf == f {
							negotiated[i] = true
						}
					}
				}
				for _, r0 := range adj {
					if !negotiated[r0.fam] {
						invariantFailed = true
						o.fail("route-in-family-not-negotiated@"+ev.op, map[string]any{"corpus": corpus, "history": append([]string{}, log...), "observed": d})
						break
					}
				}
			}
			if judging {
				if kind := or.compare(adj, e.locRib()); kind != "" {
					if ev.op == "del" && kind == "loc-rib-differs-from-adj-rib-in" {
						kind = "routes-of-deleted-peer-left-in-loc-rib"
					}
					cls := kind + "@" + ev.op
					if ev.op == "loss" {
						cls += ":" + c12LossName[ev.a[0]]
					}
					res = &c12Result{class: cls, detail: map[string]any{"corpus": corpus, "history": append([]string{}, log...), "observed": d,
						"allowed": or.describe()}}
					// the oracle's view has diverged: stop judging (the correspondence goes on)
					judging = false
				}
			}
		}
	})
	return res
}

// ---------------------------------------------------------------------------------------------
// corpus: minimised histories on which the unrepaired gobgp violated the property (run first)

var c12Corpus = []struct{ name, hist string }{
	{"returns-without-gr", "reset 1 0 0 33 0 2 0 1 1 1; goto 1 0; goto 2 0; goto 3 0; est 1 0 0 20 2 0 1 0 0; ann 0 1 2 0 0; loss 0; goto 1 0; goto 2 0; goto 3 0; est 0 0 0 20 0 0 0; tick 30"},
	{"returns-with-fewer-families", "reset 1 0 0 33 0 2 0 1 1 1; goto 1 0; goto 2 0; goto 3 0; est 1 0 0 20 2 0 1 0 0; ann 1 1 2 0 0; loss 0; goto 1 0; goto 2 0; goto 3 0; est 1 0 0 20 1 0 0 0; eor 0"},
	{"n-bit-of-earlier-session", "reset 1 1 0 33 0 1 0 1; goto 1 0; goto 2 0; goto 3 0; est 1 1 0 20 1 0 0 0; loss 4; goto 1 0; goto 2 0; goto 3 0; est 1 0 0 20 1 0 0 0; eor 0; ann 0 1 2 0 0; loss 4"},
	{"failed-attempt-during-restart-window", "reset 1 0 0 33 0 1 0 1; goto 1 0; goto 2 0; goto 3 0; est 1 0 0 20 1 0 0 0; ann 0 1 2 0 0; loss 0; goto 1 0; goto 2 0; goto 0 0; tick 5"},
	{"prefix-limit-teardown", "reset 1 0 0 33 0 1 0 1; goto 1 0; goto 2 0; goto 3 0; est 1 0 0 20 1 0 0 0; ann 0 1 2 0 0; loss 8"},
	{"hold-expiry-notification-unwritable", "reset 1 0 0 33 0 1 0 1; goto 1 0; goto 2 0; goto 3 0; est 1 0 0 20 1 0 0 0; ann 0 1 2 0 0; loss 3; tick 5"},
	{"second-llgr-cycle-never-starts", "reset 1 0 1 33 0 2 0 1 1 1; goto 1 0; goto 2 0; goto 3 0; est 1 0 0 7 2 0 1 1 1 0 25; ann 1 0 2 0 0; loss 0; tick 40; goto 1 0; goto 2 0; goto 3 0; est 1 0 0 7 2 0 1 1 1 0 25; ann 1 1 3 0 0; eor 0; loss 0; tick 10"},
	{"llgr-timer-removes-fresh-routes", "reset 1 0 1 33 0 1 0 1; goto 1 0; goto 2 0; goto 3 0; est 1 0 0 7 1 0 1 1 0 25; ann 0 0 2 0 0; loss 0; tick 20; goto 1 0; goto 2 0; goto 3 0; est 1 0 0 7 1 0 1 1 0 25; ann 0 1 3 0 0; tick 15"},
	{"llgr-without-families", "reset 1 0 1 33 0 1 0 1; goto 1 0; goto 2 0; goto 3 0; est 1 0 0 7 1 0 1 0; ann 0 0 2 0 0; loss 0; tick 10; goto 1 0; goto 2 0; goto 3 0; est 1 0 0 7 1 0 1 0; ann 0 0 3 0 0; loss 0; tick 10"},
	{"returns-with-fewer-mp-families", "reset 1 0 0 33 0 2 0 1 1 1; goto 1 0; goto 2 0; goto 3 0; est 1 0 0 20 2 0 1 0 0 2 0 1 0; ann 0 1 2 0 0; ann 1 1 3 0 0; ann 1 2 4 0 0; eor 0; eor 1; loss 0 0 0; tick 5; goto 1 0; goto 2 0; goto 3 0; est 1 0 0 20 1 0 0 0 1 0 0; ann 0 1 2 0 0; eor 0; tick 60"},
	{"returns-with-other-mp-families", "reset 1 0 0 33 0 3 0 1 1 1 2 1; goto 1 0; goto 2 0; goto 3 0; est 1 0 0 20 2 0 1 0 0 2 0 1 0; ann 0 1 2 0 0; ann 1 1 3 0 0; loss 2 0 0; goto 1 0; goto 2 0; goto 3 0; est 1 0 0 20 2 1 2 0 0 2 1 2 0; ann 2 1 4 0 0; eor 1; eor 2; tick 60"},
	{"returns-with-forwarding-bit-clear", "reset 1 0 0 33 0 2 0 1 1 1; goto 1 0; goto 2 0; goto 3 0; est 1 0 0 20 2 0 1 0 0 2 0 1 0; ann 0 1 2 0 0; ann 1 1 3 0 0; loss 0 0 0; goto 1 0; goto 2 0; goto 3 0; est 1 0 0 20 2 0 1 0 0 2 0 1 1 1; tick 1; eor 0; eor 1"},
	{"returns-with-fewer-families-under-llgr", "reset 1 0 1 33 0 2 0 1 1 1; goto 1 0; goto 2 0; goto 3 0; est 1 0 0 7 2 0 1 1 2 0 50 1 60 2 0 1 0; ann 0 1 2 0 0; ann 1 1 3 0 0; loss 0 0 0; tick 10; goto 1 0; goto 2 0; goto 3 0; est 1 0 0 7 1 0 1 1 0 50 1 0 0; tick 1; eor 0; tick 100"},
	{"gr-tuple-for-family-not-in-session", "reset 1 0 0 33 0 2 0 1 1 1; goto 1 0; goto 2 0; goto 3 0; est 1 0 0 20 2 0 1 0 0 2 0 1 0; ann 0 1 2 0 0; ann 1 1 3 0 0; loss 0 0 0; goto 1 0; goto 2 0; goto 3 0; est 1 0 0 20 2 0 1 0 0 1 0 0; ann 0 1 2 0 0; eor 0; tick 60"},
	{"restart-time-zero-drops-at-once", "reset 1 0 0 33 0 1 0 1; goto 1 0; goto 2 0; goto 3 0; est 1 0 0 0 1 0 0 0 1 0 0; ann 0 1 2 0 0; loss 0 0 0; tick 1; tick 100"},
	{"restart-time-zero-goes-long-lived-at-once", "reset 1 0 1 33 0 1 0 1; goto 1 0; goto 2 0; goto 3 0; est 1 0 0 0 1 0 1 1 0 25 1 0 0; ann 0 1 2 0 0; ann 0 2 3 1 0; loss 2 0 0; tick 24; tick 1; tick 5"},
	{"llgr-time-zero-expires-with-the-restart-timer", "reset 1 0 1 33 0 2 0 1 1 1; goto 1 0; goto 2 0; goto 3 0; est 1 0 0 7 2 0 1 1 2 0 0 1 40 2 0 1 0; ann 0 1 2 0 0; ann 1 1 3 0 0; loss 0 0 0; tick 6; tick 1; tick 39; tick 1"},
	{"restart-and-llgr-time-zero", "reset 1 0 1 33 0 1 0 1; goto 1 0; goto 2 0; goto 3 0; est 1 0 0 0 1 0 1 1 0 0 1 0 0; ann 0 1 2 0 0; loss 0 0 0; tick 1"},
	{"maximum-restart-and-llgr-times", "reset 1 0 1 33 0 1 0 1; goto 1 0; goto 2 0; goto 3 0; est 1 0 0 4095 1 0 1 1 0 16777215 1 0 0; ann 0 1 2 0 0; loss 0 0 0; tick 4094; tick 1; tick 16777214; tick 1; tick 1"},
	{"rejected-route-through-two-restarts", "reset 1 0 0 33 0 1 0 1; goto 1 0; goto 2 0; goto 3 0; est 1 0 0 20 1 0 0 0 1 0 0; ann 0 1 2 0 0 1; ann 0 2 3 0 0 0; eor 0; loss 0 0 0; tick 5; goto 1 0; goto 2 0; goto 3 0; est 1 0 0 20 1 0 0 0 1 0 0; ann 0 1 2 0 0 1; eor 0; loss 0 0 0; goto 1 0; goto 2 0; goto 3 0; est 1 0 0 20 1 0 0 0 1 0 0; eor 0; tick 30"},
	{"rejected-route-purged-by-the-restart-timer", "reset 1 0 0 33 0 1 0 1; goto 1 0; goto 2 0; goto 3 0; est 1 0 0 7 1 0 0 0 1 0 0; ann 0 1 2 0 0 1; loss 0 0 0; tick 8; goto 1 0; goto 2 0; goto 3 0; est 1 0 0 7 1 0 0 0 1 0 0; ann 0 1 2 0 0 1; tick 1"},
	{"rejected-route-under-llgr", "reset 1 0 1 33 0 1 0 1; goto 1 0; goto 2 0; goto 3 0; est 1 0 0 7 1 0 1 1 0 25 1 0 0; ann 0 1 2 0 0 1; ann 0 2 3 1 0 1; loss 0 0 0; tick 8; goto 1 0; goto 2 0; goto 3 0; est 1 0 0 7 1 0 1 1 0 25 1 0 0; ann 0 1 2 0 0 1; eor 0; tick 30"},
	{"deleted-while-restart-timer-runs", "reset 1 0 0 33 0 1 0 1; goto 1 0; goto 2 0; goto 3 0; est 1 0 0 20 1 0 0 0 1 0 0; ann 0 1 2 0 0 0; ann 0 2 3 0 0 1; loss 0 0 0; tick 5; del; tick 30; goto 1 0; goto 2 0; goto 3 0; est 1 0 0 20 1 0 0 0 1 0 0; ann 0 1 4 0 0 0; eor 0"},
	{"deleted-during-the-long-lived-period", "reset 1 0 1 33 0 1 0 1; goto 1 0; goto 2 0; goto 3 0; est 1 0 0 7 1 0 1 1 0 50 1 0 0; ann 0 1 2 0 0 0; loss 0 0 0; tick 10; del; tick 60"},
	{"deleted-while-established-and-resynchronizing", "reset 1 0 0 33 0 1 0 1; goto 1 0; goto 2 0; goto 3 0; est 1 0 0 20 1 0 0 0 1 0 0; ann 0 1 2 0 0 0; loss 0 0 0; goto 1 0; goto 2 0; goto 3 0; est 1 0 0 20 1 0 0 0 1 0 0; ann 0 2 3 0 0 0; del; tick 30"},
	{"add-path-only-the-first-path-comes-back", "reset 1 0 0 33 0 1 0 1; goto 1 0; goto 2 0; goto 3 0; est 1 0 0 20 1 0 0 0 1 0 0; ann 0 1 2 0 0 0; ann 0 5 3 0 0 0; ann 0 9 4 0 0 0; eor 0; loss 0 0 0; tick 5; goto 1 0; goto 2 0; goto 3 0; est 1 0 0 20 1 0 0 0 1 0 0; ann 0 1 2 0 0 0; eor 0; tick 30"},
	{"add-path-only-the-middle-path-comes-back", "reset 1 0 0 33 0 1 0 1; goto 1 0; goto 2 0; goto 3 0; est 1 0 0 20 1 0 0 0 1 0 0; ann 0 1 2 0 0 0; ann 0 5 3 0 0 0; ann 0 9 4 0 0 0; loss 0 0 0; goto 1 0; goto 2 0; goto 3 0; est 1 0 0 20 1 0 0 0 1 0 0; ann 0 5 3 0 0 0; eor 0"},
	{"add-path-only-the-last-path-comes-back", "reset 1 0 0 33 0 1 0 1; goto 1 0; goto 2 0; goto 3 0; est 1 0 0 20 1 0 0 0 1 0 0; ann 0 1 2 0 0 0; ann 0 5 3 0 0 0; ann 0 9 4 0 0 1; loss 0 0 0; goto 1 0; goto 2 0; goto 3 0; est 1 0 0 20 1 0 0 0 1 0 0; ann 0 9 4 0 0 1; eor 0"},
	{"add-path-a-new-path-id-comes-back", "reset 1 0 0 33 0 1 0 1; goto 1 0; goto 2 0; goto 3 0; est 1 0 0 20 1 0 0 0 1 0 0; ann 0 1 2 0 0 0; ann 0 5 3 0 0 0; loss 0 0 0; goto 1 0; goto 2 0; goto 3 0; est 1 0 0 20 1 0 0 0 1 0 0; ann 0 13 5 0 0 0; eor 0"},
	{"add-path-first-path-back-then-llgr-timer", "reset 1 0 1 33 0 1 0 1; goto 1 0; goto 2 0; goto 3 0; est 1 0 0 7 1 0 1 1 0 25 1 0 0; ann 0 1 2 0 0 0; ann 0 5 3 0 0 0; loss 0 0 0; tick 10; goto 1 0; goto 2 0; goto 3 0; est 1 0 0 7 1 0 1 1 0 25 1 0 0; ann 0 1 2 0 0 0; tick 30"},
	{"identical-reannouncement-is-fresh", "reset 1 0 0 33 0 1 0 1; goto 1 0; goto 2 0; goto 3 0; est 1 0 0 20 1 0 0 0; ann 0 1 2 0 0; ann 0 2 3 0 0; eor 0; loss 0; tick 5; goto 1 0; goto 2 0; goto 3 0; est 1 0 0 20 1 0 0 0; ann 0 1 2 0 0; eor 0; tick 30"},
	{"identical-reannouncement-second-loss", "reset 1 0 0 33 0 1 0 1; goto 1 0; goto 2 0; goto 3 0; est 1 0 0 20 1 0 0 0; ann 0 1 2 0 0; loss 0; goto 1 0; goto 2 0; goto 3 0; est 1 0 0 20 1 0 0 0; ann 0 1 2 0 0; loss 2; goto 1 0; goto 2 0; goto 3 0; est 1 0 0 20 1 0 0 0; ann 0 1 2 0 0; eor 0"},
	{"identical-reannouncement-under-llgr", "reset 1 0 1 33 0 2 0 1 1 1; goto 1 0; goto 2 0; goto 3 0; est 1 0 0 7 2 0 1 1 1 0 50; ann 0 1 2 0 0; ann 1 1 3 0 0; loss 0; tick 3; goto 1 0; goto 2 0; goto 3 0; est 1 0 0 7 2 0 1 1 1 0 50; ann 1 1 3 0 0; loss 0; tick 10; goto 1 0; goto 2 0; goto 3 0; est 1 0 0 7 2 0 1 1 1 0 50; ann 0 1 2 0 0; tick 50; eor 0; eor 1"},
	{"llgr-stale-attached-once-admin-down", "reset 1 0 1 33 0 1 0 1; goto 1 0; goto 2 0; goto 3 0; est 1 0 0 7 1 0 1 1 0 50; ann 0 0 2 0 0; loss 0; tick 10; goto 1 0; goto 0 1; tick 1"},
	{"llgr-stale-attached-once-second-loss", "reset 1 0 1 33 0 1 0 1; goto 1 0; goto 2 0; goto 3 0; est 1 0 0 7 1 0 1 1 0 50; ann 0 0 2 0 0; loss 0; tick 10; goto 1 0; goto 2 0; goto 3 0; est 1 0 0 7 1 0 1 1 0 50; loss 0; tick 8; tick 40"},
	{"hard-loss-leaves-llgr-timers", "reset 1 0 1 33 0 2 0 1 1 1; goto 1 0; goto 2 0; goto 3 0; est 1 0 0 7 2 0 1 1 2 0 25 1 55; ann 0 0 2 0 0; loss 0; tick 10; goto 1 0; goto 2 0; goto 3 0; est 1 0 0 60 2 0 1 0 0; loss 6; goto 1 0; goto 2 0; goto 3 0; est 1 0 0 60 2 0 1 0 0; ann 1 1 3 0 0; loss 0; tick 55"},
}

func c12Atoi(s string) int {
	n := 0
	fmt.Sscanf(s, "%d", &n)
	return n
}

func c12Parse(hist string) (c12Cfg, []c12Ev) {
	var cfg c12Cfg
	evs := []c12Ev{}
	for _, line := range strings.Split(hist, ";") {
		f := strings.Fields(line)
		if len(f) == 0 {
			continue
		}
		n := make([]int, len(f))
		for i := 1; i < len(f); i++ {
			n[i] = c12Atoi(f[i])
		}
		switch f[0] {
		case "reset":
			cfg = c12Cfg{gr: n[1] == 1, nb: n[2] == 1, ll: n[3] == 1, deferral: n[4], lr: n[5] == 1}
			for i := 0; i < n[6]; i++ {
				cfg.fams = append(cfg.fams, c12FamCfg{id: n[7+2*i], mpCfg: n[8+2*i] == 1, llCfg: true})
			}
		case "est":
			c := c12Caps{gr: n[1] == 1, nbit: n[2] == 1, rbit: n[3] == 1, time: n[4]}
			i := 5
			for k := 0; k < n[5]; k++ {
				c.tuples = append(c.tuples, n[6+k])
			}
			i = 6 + n[5]
			c.llgr = n[i] == 1
			for k := 0; k < n[i+1]; k++ {
				c.ltuples = append(c.ltuples, [2]int{n[i+2+2*k], n[i+3+2*k]})
			}
			i = i + 2 + 2*n[i+1]
			c.mp = []int{}
			if i < len(n) {
				for k := 0; k < n[i]; k++ {
					c.mp = append(c.mp, n[i+1+k])
				}
				if j := i + 1 + n[i]; j < len(n) {
					for k := 0; k < n[j]; k++ {
						c.noFwd = append(c.noFwd, n[j+1+k])
					}
				}
			} else {
				for _, f := range cfg.fams {
					c.mp = append(c.mp, f.id)
				}
			}
			evs = append(evs, c12Ev{op: "est", caps: c})
		default:
			ev := c12Ev{op: f[0]}
			copy(ev.a[:], n[1:])
			if f[0] == "loss" && len(f) == 2 {
				ev.a[1], ev.a[2] = c12NotifDefault(ev.a[0])
			}
			evs = append(evs, ev)
		}
	}
	return cfg, evs
}

func TestVerifC12(t *testing.T) {
	o := vOpen(t)
	defer o.close()
	for _, c := range c12Corpus {
		cfg, evs := c12Parse(c.hist)
		if res := c12RunHistory(t, o, cfg, evs, c.name); res != nil {
			o.fail(res.class, res.detail)
			o.stat("oracle_"+res.class, 1)
		}
		o.stat("corpus_cases", 1)
	}
	r := &vRand{s: o.seed*7919 + 12}
	n, maxEv := 500, 28
	if o.thorough {
		n, maxEv = 5000, 40
	}
	for i := 0; i < n; i++ {
		cfg := c12GenCfg(r)
		evs := c12GenHistory(r, cfg, 8+r.intn(maxEv))
		if res := c12RunHistory(t, o, cfg, evs, ""); res != nil {
			o.fail(res.class, res.detail)
			o.stat("oracle_"+res.class, 1)
		}
		if i < 3 {
			ls := []string{}
			for _, ev := range evs {
				ls = append(ls, ev.line())
			}
			o.sample(strings.Join(ls, "; "))
		}
	}
}

// ---------------------------------------------------------------------------------------------
// TestVerifC12Session (level b): the REAL fsmHandler.established() on an in-memory connection,
// for every way a session can end × (GR negotiated?, N bit negotiated?).  Compared with the Lean
// `graceful`, with the harness mirror c12Reason used by TestVerifC12, and (oracle) with the property.

type c12PipeConn struct {
	net.Conn
	failWrites atomic.Bool
}

func (c *c12PipeConn) RemoteAddr() net.Addr {
	return &net.TCPAddr{IP: net.IPv4(10, 9, 0, 2).To4(), Port: 179}
}
func (c *c12PipeConn) LocalAddr() net.Addr {
	return &net.TCPAddr{IP: net.IPv4(10, 9, 0, 1).To4(), Port: 30000}
}
func (c *c12PipeConn) Write(b []byte) (int, error) {
	if c.failWrites.Load() {
		return 0, errors.New("verif: write failed")
	}
	return c.Conn.Write(b)
}

// restart time the scripted peer advertises in TestVerifC12Session (swept over 0, 1, 2, 20, 4095)
var c12SessionRestartTime = 20

func c12SessionCase(t *testing.T, o *vOut, cfgGR, cfgNotif, capGR, capN bool, k, code, sub int) {
	synctest.Test(t, func(t *testing.T) {
		cfg := c12Cfg{gr: cfgGR, nb: cfgNotif, deferral: 33, fams: []c12FamCfg{{id: 0, mpCfg: true}}}
		e := c12NewEnv(t, cfg)
		defer e.stop()
		local, remote := net.Pipe()
		conn := &c12PipeConn{Conn: local}
		if k == c12HoldExpiry || k == c12HoldExpiryWriteErr {
			// no KEEPALIVE of ours may coincide with the hold-timer expiry
			e.p.fsm.lock.Lock()
			conf := e.p.fsm.pConf.ReadCopy()
			conf.Timers.Config.KeepaliveInterval = 1000
			e.p.fsm.pConf.Update(&conf)
			e.p.fsm.lock.Unlock()
		}
		caps := c12Caps{gr: capGR, nbit: capN, time: c12SessionRestartTime, tuples: []int{0}}
		e.p.fsm.lock.Lock()
		e.p.fsm.recvOpen = c12Open(caps, cfg.fams)
		e.p.fsm.conn = conn
		e.p.fsm.lock.Unlock()
		ctx, cancel := context.WithCancel(context.Background())
		h := &fsmHandler{fsm: e.p.fsm, outgoing: e.p.fsm.outgoingCh, ctx: ctx, ctxCancel: cancel,
			callback: func(m *fsmMsg) { e.s.handleFSMMessage(e.p, m) }}
		e.p.fsm.h = h
		e.p.fsm.stateChange(bgp.BGP_FSM_ESTABLISHED, newfsmStateReason(fsmOpenMsgNegotiated, nil, nil))
		e.stateMsg(bgp.BGP_FSM_ESTABLISHED, fsmOpenMsgNegotiated)
		st := e.p.fsm.pConf.ReadOnly().GracefulRestart.State
		enabled, notif := st.Enabled, st.NotificationEnabled
		e.announce(0, 1, 2, false, 0, false)

		// the scripted peer: reads and discards what we send
		go func() { _, _ = io.Copy(io.Discard, remote) }()
		type ret struct {
			next   bgp.FSMState
			reason *fsmStateReason
		}
		done := make(chan ret, 1)
		// a restart timer still running from an earlier loss: entering established() must stop it
		e.p.fsm.gracefulRestartTimer.Reset(3 * time.Second)
		go func() {
			n, r := h.established(ctx)
			done <- ret{n, r}
		}()
		time.Sleep(5 * time.Second)
		synctest.Wait()
		select {
		case <-e.p.fsm.gracefulRestartTimer.C:
			o.fail("restart-timer-not-stopped-on-establish", map[string]any{"loss": c12LossName[k]})
		default:
		}
		send := func(m *bgp.BGPMessage) {
			b, _ := m.Serialize()
			_, _ = remote.Write(b)
		}
		switch k {
		case c12ReadFail:
			remote.Close()
		case c12WriteFail:
			conn.failWrites.Store(true)
		case c12HoldExpiry:
		case c12HoldExpiryWriteErr:
			time.Sleep(70 * time.Second)
			conn.failWrites.Store(true)
		case c12NotifRecv, c12NotifRecvHard:
			send(bgp.NewBGPNotificationMessage(uint8(code), uint8(sub), nil))
		case c12NotifSent:
			e.p.fsm.notification <- bgp.NewBGPNotificationMessage(uint8(code), uint8(sub), nil)
		case c12AdminDown:
			e.p.fsm.adminStateCh <- adminStateOperation{State: adminStateDown}
		case c12PrefixLimit:
			e.p.fsm.adminStateCh <- adminStateOperation{State: adminStatePfxCt}
		}
		var got ret
		var tLoss time.Time
		select {
		case got = <-done:
			tLoss = time.Now()
		case <-time.After(200 * time.Second):
			t.Errorf("established() did not return for loss kind %s", c12LossName[k])
			cancel()
			got = <-done
		}
		// the real restart timer: armed by established() with the peer's restart time iff graceful
		if got.reason.Type == fsmGracefulRestart {
			fired := func() bool {
				select {
				case <-e.p.fsm.gracefulRestartTimer.C:
					return true
				default:
					return false
				}
			}
			t0 := time.Now()
			early := false
			if caps.time >= 2 {
				time.Sleep(time.Duration(caps.time)*time.Second - time.Since(tLoss) - time.Second)
				synctest.Wait()
				early = fired()
			}
			time.Sleep(time.Duration(caps.time)*time.Second - time.Since(tLoss)) // 0 for "expire at once"
			synctest.Wait()
			if onTime := fired(); early || !onTime {
				o.fail("restart-timer-deadline", map[string]any{"loss": c12LossName[k], "restartTime": caps.time, "firedEarly": early, "firedOnTime": onTime,
					"waitedFrom": t0.Sub(tLoss).String()})
			}
			o.stat("session_restart_timer_checked", 1)
		}
		// what fsmHandler.loop does next
		e.p.fsm.stateChange(got.next, got.reason)
		e.s.handleFSMMessage(e.p, &fsmMsg{MsgType: fsmMsgStateChange, MsgData: got.next, StateReason: got.reason, timestamp: time.Now()})
		e.p.fsm.state.Store(got.next)
		synctest.Wait()
		cancel()
		remote.Close()
		local.Close()

		graceful := got.reason.Type == fsmGracefulRestart
		o.ask(fmt.Sprint(c12b(graceful)), "graceful %d %d %d %d %d", c12b(enabled), c12b(notif), k, code, sub)
		o.stat(fmt.Sprintf("session_%s_graceful%d", c12LossName[k], c12b(graceful)), 1)
		detail := map[string]any{"cfgGR": cfgGR, "cfgNotif": cfgNotif, "openHasGR": capGR, "openNbit": capN, "loss": c12LossName[k], "code": code, "subcode": sub,
			"reason": int(got.reason.Type), "adjRibIn": c12Routes(e.adjIn())}
		spec := c12SpecGraceful(cfgGR && capGR, cfgGR && capGR && cfgNotif && capN, k, code, sub)
		adj := e.adjIn()
		kept := len(adj) == 1 && adj[0].stale
		gone := len(adj) == 0
		if spec && !kept {
			o.fail("stale-route-removed-early@loss:"+c12LossName[k], detail)
		}
		if !spec && !gone {
			o.fail("stale-route-outlives-its-allowance@loss:"+c12LossName[k], detail)
		}
		if want := c12Reason(enabled, notif, k, code, sub); want != got.reason.Type {
			detail["mirror"] = int(want)
			o.fail("harness-mirror-of-established-differs:"+c12LossName[k], detail)
		}
	})
}

func TestVerifC12Session(t *testing.T) {
	o := vOpen(t)
	defer o.close()
	o.sample("every loss kind x (GR configured, N configured, OPEN has GR, OPEN has N): real fsmHandler.established() over net.Pipe in a synctest bubble")
	for k := 0; k < c12NLoss; k++ {
		code, sub := c12NotifDefault(k)
		for m := 0; m < 16; m++ {
			c12SessionCase(t, o, m&1 != 0, m&2 != 0, m&4 != 0, m&8 != 0, k, code, sub)
		}
	}
	// the restart time is an input: the real timer must fire exactly that long after a graceful loss,
	// 0 ("expire at once") and the 12-bit maximum included
	for _, rt := range []int{0, 1, 2, 4095} {
		c12SessionRestartTime = rt
		for _, k := range []int{c12ReadFail, c12WriteFail, c12HoldExpiry, c12HoldExpiryWriteErr, c12NotifRecv} {
			code, sub := c12NotifDefault(k)
			c12SessionCase(t, o, true, true, true, true, k, code, sub)
			o.stat(fmt.Sprintf("session_restart_time_%d", rt), 1)
		}
	}
	c12SessionRestartTime = 20
	// the whole (code, subcode) space of NOTIFICATIONs, received and sent, through the real recvMessageloop /
	// established(): all defined codes, 0, two undefined ones, subcodes 0..12 and 255
	combos := []int{15, 7, 13, 11} // GR+N negotiated; OPEN without N; N not configured; OPEN without GR
	if o.thorough {
		combos = []int{0, 1, 2, 3, 4, 5, 6, 7, 8, 9, 10, 11, 12, 13, 14, 15}
	}
	subs := []int{0, 1, 2, 3, 4, 5, 6, 7, 8, 9, 10, 11, 12, 255}
	for _, code := range []int{0, 1, 2, 3, 4, 5, 6, 7, 8, 255} {
		for _, sub := range subs {
			for _, m := range combos {
				c12SessionCase(t, o, m&1 != 0, m&2 != 0, m&4 != 0, m&8 != 0, c12NotifRecv, code, sub)
				o.stat("session_notif_recv_sweep", 1)
			}
		}
	}
	for code := 1; code <= 7; code++ {
		for _, sub := range subs {
			for _, m := range combos[:2] {
				c12SessionCase(t, o, m&1 != 0, m&2 != 0, m&4 != 0, m&8 != 0, c12NotifSent, code, sub)
				o.stat("session_notif_sent_sweep", 1)
			}
		}
	}
}

// ---------------------------------------------------------------------------------------------
// TestVerifC12Export: LLGR_STALE routes are least preferred and only advertised to neighbours
// that negotiated LLGR for the family (real propagateUpdate / filterpath / postFilterpath; what
// the two observers are actually sent is read from their outgoing channels).

type c12Observer struct {
	p    *peer
	llgr bool
	view map[string]string // prefix -> "src:<AS> ll=<n>" of the last advertisement, absent = withdrawn / never sent
}

func (ob *c12Observer) drain() {
	for {
		synctest.Wait() // let the InfiniteChannel goroutine offer its next element
		select {
		case m, ok := <-ob.p.fsm.outgoingCh.Out():
			if !ok {
				return
			}
			for _, path := range m.(*fsmOutgoingMsg).Paths {
				if path == nil || path.IsEOR() {
					continue
				}
				key := path.GetNlri().String()
				if path.IsWithdraw {
					delete(ob.view, key)
				} else {
					n := 0
					for _, c := range path.GetCommunities() {
						if c == uint32(bgp.COMMUNITY_LLGR_STALE) {
							n++
						}
					}
					ob.view[key] = fmt.Sprintf("src:%d ll=%d", path.GetSource().AS, n)
				}
			}
		default:
			return
		}
	}
}

func c12EstablishPeer(s *BgpServer, p *peer, c c12Caps, fams []c12FamCfg, as uint32, addr string) {
	ip := net.ParseIP(addr).To4()
	p.fsm.lock.Lock()
	open := c12Open(c, fams)
	open.Body.(*bgp.BGPOpen).ID = netip.MustParseAddr(addr)
	for _, op := range open.Body.(*bgp.BGPOpen).OptParams {
		for _, cp := range op.(*bgp.OptionParameterCapability).Capability {
			if a4, ok := cp.(*bgp.CapFourOctetASNumber); ok {
				a4.CapValue = as
			}
		}
	}
	p.fsm.recvOpen = open
	p.fsm.conn = c12AddrConn{ip: ip}
	p.fsm.lock.Unlock()
	p.fsm.stateChange(bgp.BGP_FSM_ESTABLISHED, newfsmStateReason(fsmOpenMsgNegotiated, nil, nil))
	s.handleFSMMessage(p, &fsmMsg{MsgType: fsmMsgStateChange, MsgData: bgp.BGP_FSM_ESTABLISHED, StateReason: newfsmStateReason(fsmOpenMsgNegotiated, nil, nil), timestamp: time.Now()})
	p.fsm.state.Store(bgp.BGP_FSM_ESTABLISHED)
	synctest.Wait()
}

type c12AddrConn struct {
	net.Conn
	ip net.IP
}

func (c c12AddrConn) RemoteAddr() net.Addr { return &net.TCPAddr{IP: c.ip, Port: 179} }
func (c c12AddrConn) LocalAddr() net.Addr {
	return &net.TCPAddr{IP: net.IPv4(10, 9, 0, 1).To4(), Port: 30001}
}
func (c12AddrConn) Close() error { return nil }

func TestVerifC12Export(t *testing.T) {
	o := vOpen(t)
	defer o.close()
	o.sample("P (LLGR) announces 20.1/16 and 20.2/16 (and 20.3/16 with NO_LLGR); Q (LLGR-capable) announces 20.1/16 with a longer AS_PATH; P is lost, restart timer expires; R negotiated no LLGR")
	for variant := 0; variant < 4; variant++ {
		qLL, rLL := variant&1 == 0, variant&2 != 0 // which observers negotiated LLGR for ipv4-unicast
		synctest.Test(t, func(t *testing.T) {
			fams := []c12FamCfg{{id: 0, mpCfg: true, llCfg: true}}
			cfg := c12Cfg{gr: true, ll: true, deferral: 33, fams: fams}
			e := c12NewEnv(t, cfg)
			defer e.stop()
			q := &c12Observer{p: c12AddPeer(t, e.s, "10.9.0.3", 65003, cfg), llgr: qLL, view: map[string]string{}}
			r := &c12Observer{p: c12AddPeer(t, e.s, "10.9.0.4", 65004, cfg), llgr: rLL, view: map[string]string{}}
			capsFor := func(ll bool) c12Caps {
				c := c12Caps{gr: true, time: 20, tuples: []int{0}, llgr: ll}
				if ll {
					c.ltuples = [][2]int{{0, 100}}
				}
				return c
			}
			c12EstablishPeer(e.s, q.p, capsFor(qLL), fams, 65003, "10.9.0.3")
			c12EstablishPeer(e.s, r.p, capsFor(rLL), fams, 65004, "10.9.0.4")
			e.establish(c12Caps{gr: true, time: 20, tuples: []int{0}, llgr: true, ltuples: [][2]int{{0, 100}}})
			e.announce(0, 1, 1, false, 0, false)
			e.announce(0, 2, 1, false, 0, false)
			e.announce(0, 3, 1, true, 0, false)
			// Q's competing route for 20.1/16, longer AS_PATH
			nlri, nh := c12Prefix(0, 1)
			nha, _ := bgp.NewPathAttributeNextHop(nh)
			e.s.handleFSMMessage(q.p, &fsmMsg{MsgType: fsmMsgBGPMessage, timestamp: time.Now(), MsgData: bgp.NewBGPUpdateMessage(nil, []bgp.PathAttributeInterface{
				bgp.NewPathAttributeOrigin(0),
				bgp.NewPathAttributeAsPath([]bgp.AsPathParamInterface{bgp.NewAs4PathParam(bgp.BGP_ASPATH_ATTR_TYPE_SEQ, []uint32{65003, 65009, 65010})}),
				nha, bgp.NewPathAttributeMultiExitDisc(7)}, []bgp.PathNLRI{nlri})})
			synctest.Wait()
			q.drain()
			r.drain()
			p1, p2, p3 := "20.1.0.0/16", "20.2.0.0/16", "20.3.0.0/16"
			check := func(stage string, ob *c12Observer, name string, want map[string]string) {
				for _, pfx := range []string{p1, p2, p3} {
					if ob.view[pfx] != want[pfx] {
						o.fail("llgr-export:"+stage, map[string]any{"variant": variant, "observer": name, "observerNegotiatedLLGR": ob.llgr, "prefix": pfx,
							"sent": ob.view[pfx], "allowed": want[pfx]})
					}
				}
				o.stat("export_checks", 1)
			}
			fresh := map[string]string{p1: "src:65002 ll=0", p2: "src:65002 ll=0", p3: "src:65002 ll=0"}
			freshQ := map[string]string{p2: "src:65002 ll=0", p3: "src:65002 ll=0"} // Q's own best path is never sent back; 20.1 best is P's
			freshQ[p1] = "src:65002 ll=0"
			check("fresh", r, "R", fresh)
			check("fresh", q, "Q", freshQ)
			e.loss(c12ReadFail, 0, 0)
			q.drain()
			r.drain()
			check("stale", r, "R", fresh) // GR-stale routes stay advertised unchanged
			e.tick(21)                    // restart timer expires: long-lived period
			q.drain()
			r.drain()
			// best for 20.1/16 must now be Q's route (LLGR_STALE is least preferred)
			best := ""
			for _, bp := range e.s.globalRib.GetBestPathList(table.GLOBAL_RIB_NAME, 0, []bgp.Family{bgp.RF_IPv4_UC}) {
				if bp.GetNlri().String() == p1 {
					best = fmt.Sprint(bp.GetSource().AS)
				}
			}
			if best != "65003" {
				o.fail("llgr-stale-not-least-preferred", map[string]any{"variant": variant, "best": best})
			}
			want := func(ob *c12Observer, self uint32) map[string]string {
				w := map[string]string{}
				if self != 65003 {
					w[p1] = "src:65003 ll=0"
				}
				if ob.llgr {
					w[p2] = "src:65002 ll=1"
				}
				return w // 20.3/16 carried NO_LLGR: removed
			}
			wq := want(q, 65003)
			// Q was sent P's 20.1/16 before; now that its own route is best it must be withdrawn from Q
			check("llgr", q, "Q", wq)
			check("llgr", r, "R", want(r, 65004))
			_ = wq
			for _, ob := range []*c12Observer{q, r} {
				// postFilterpath on the LLGR_STALE path itself
				for _, ap := range e.p.adjRibIn.PathList([]bgp.Family{bgp.RF_IPv4_UC}, false) {
					out := e.s.postFilterpath(ob.p, ap.Clone(false))
					o.ask(fmt.Sprint(c12b(out.IsWithdraw)), "export %d %d", c12b(ob.llgr), c12b(ap.IsLLGRStale()))
					if out.IsWithdraw != (ap.IsLLGRStale() && !ob.llgr) {
						o.fail("llgr-export:postFilterpath", map[string]any{"variant": variant, "observerNegotiatedLLGR": ob.llgr})
					}
				}
			}
		})
	}
}

// ---------------------------------------------------------------------------------------------
// TestVerifC12Deferral: the restarting speaker (GracefulRestart.State.LocalRestarting) withholds its
// advertisements until every GR peer has sent End-of-RIB or the deferral timer fires — whatever would
// hand routes to the peer: a route change learned from another neighbour, an RT-membership change of
// the peer (RT constraint, VPN routes in the table), a ROUTE-REFRESH from the peer, a soft reset out,
// a locally injected / deleted path, a VRF with a path.  Oracle (event log only): no path carrying
// NLRI — announcement or withdrawal — is queued toward the deferred peer before the deferral ends,
// and the table does arrive once it has ended.  Correspondence: `trigger k est lr` ↔ GR.sendsOn.

const (
	c12TrRouteChange = iota
	c12TrRTCMembership
	c12TrRouteRefresh
	c12TrSoftResetOut
	c12TrLocalAdd
	c12TrLocalDelete
	c12TrVrfPath
	c12TrRTCWithdraw
	c12NTrigger
)

var c12TriggerName = []string{"routeChange", "rtcMembership", "routeRefresh", "softResetOut", "localAddPath", "localDeletePath", "vrfPath", "rtcMembershipWithdrawn"}

type c12dEnv struct {
	t       *testing.T
	s       *BgpServer
	p, src  *peer
	sent    []string // NLRI-carrying paths queued toward p since the last look
	nextPfx int
	nextRT  int
	locals  []*apiutil.Path
}

func c12dAddPeer(t *testing.T, s *BgpServer, addr string, as uint32, fams []bgp.Family, gr, lr bool, deferral int) *peer {
	ap := &api.Peer{
		Conf:            &api.PeerConf{NeighborAddress: addr, PeerAsn: as},
		GracefulRestart: &api.GracefulRestart{Enabled: gr, RestartTime: 90, LocalRestarting: lr, DeferralTime: uint32(deferral)},
	}
	for _, rf := range fams {
		ap.AfiSafis = append(ap.AfiSafis, &api.AfiSafi{
			Config:            &api.AfiSafiConfig{Family: apiutil.ToApiFamily(rf.Afi(), rf.Safi()), Enabled: true},
			MpGracefulRestart: &api.MpGracefulRestart{Config: &api.MpGracefulRestartConfig{Enabled: gr}},
		})
	}
	var p *peer
	err := s.mgmtOperation(func() error {
		c, err := newNeighborFromAPIStruct(ap)
		if err != nil {
			return err
		}
		if err := oc.SetDefaultNeighborConfigValues(c, nil, &s.bgpConfig.Global); err != nil {
			return err
		}
		p = newPeer(&s.bgpConfig.Global, c, bgp.BGP_FSM_IDLE, s.globalRib, s.policy, s.logger)
		if err := s.policy.SetPeerPolicy(p.ID(), c.ApplyPolicy); err != nil {
			return err
		}
		s.neighborMap[netip.MustParseAddr(addr)] = p
		return nil
	}, true)
	if err != nil {
		t.Fatal(err)
	}
	return p
}

func c12dEstablish(s *BgpServer, p *peer, addr string, as uint32, fams []bgp.Family, gr bool) {
	caps := []bgp.ParameterCapabilityInterface{bgp.NewCapFourOctetASNumber(as), bgp.NewCapRouteRefresh()}
	tuples := []*bgp.CapGracefulRestartTuple{}
	for _, rf := range fams {
		caps = append(caps, bgp.NewCapMultiProtocol(rf))
		tuples = append(tuples, bgp.NewCapGracefulRestartTuple(rf, true))
	}
	if gr {
		caps = append(caps, bgp.NewCapGracefulRestart(false, false, 90, tuples)) // R bit clear: its End-of-RIB is awaited
	}
	open, _ := bgp.NewBGPOpenMessage(bgp.AS_TRANS, 90, netip.MustParseAddr(addr), []bgp.OptionParameterInterface{bgp.NewOptionParameterCapability(caps)})
	p.fsm.lock.Lock()
	p.fsm.recvOpen = open
	p.fsm.conn = c12AddrConn{ip: net.ParseIP(addr).To4()}
	p.fsm.lock.Unlock()
	p.fsm.stateChange(bgp.BGP_FSM_ESTABLISHED, newfsmStateReason(fsmOpenMsgNegotiated, nil, nil))
	s.handleFSMMessage(p, &fsmMsg{MsgType: fsmMsgStateChange, MsgData: bgp.BGP_FSM_ESTABLISHED, StateReason: newfsmStateReason(fsmOpenMsgNegotiated, nil, nil), timestamp: time.Now()})
	p.fsm.state.Store(bgp.BGP_FSM_ESTABLISHED)
	synctest.Wait()
}

// look drains what has been queued toward the deferred peer and returns the NLRI-carrying part.
func (e *c12dEnv) look() []string {
	out := []string{}
	for {
		synctest.Wait()
		select {
		case m, ok := <-e.p.fsm.outgoingCh.Out():
			if !ok {
				return out
			}
			for _, path := range m.(*fsmOutgoingMsg).Paths {
				if path == nil || path.IsEOR() {
					continue
				}
				w := ""
				if path.IsWithdraw {
					w = "withdraw "
				}
				out = append(out, w+path.GetFamily().String()+" "+path.GetNlri().String())
			}
		default:
			return out
		}
	}
}

func (e *c12dEnv) recv(p *peer, m *bgp.BGPMessage) {
	e.s.handleFSMMessage(p, &fsmMsg{MsgType: fsmMsgBGPMessage, MsgData: m, timestamp: time.Now()})
	synctest.Wait()
}

func c12dRT(n int) bgp.ExtendedCommunityInterface {
	return bgp.NewTwoOctetAsSpecificExtended(bgp.EC_SUBTYPE_ROUTE_TARGET, 100, uint32(100+n), true)
}

func (e *c12dEnv) localPath(rf bgp.Family, n int, rt int) *apiutil.Path {
	nh, _ := bgp.NewPathAttributeNextHop(netip.MustParseAddr("3.3.3.3"))
	attrs := []bgp.PathAttributeInterface{bgp.NewPathAttributeOrigin(0), nh}
	var nlri bgp.NLRI
	if rt == 0 {
		rt = 1 // with RT constraint negotiated gobgp filters EVERY family by RT interest: all routes carry 100:101
	}
	attrs = append(attrs, bgp.NewPathAttributeExtendedCommunities([]bgp.ExtendedCommunityInterface{c12dRT(rt)}))
	if rf == bgp.RF_IPv4_VPN {
		rd, _ := bgp.ParseRouteDistinguisher("100:100")
		nlri, _ = bgp.NewLabeledVPNIPAddrPrefix(netip.PrefixFrom(netip.AddrFrom4([4]byte{10, 30, byte(n), 0}), 24), *bgp.NewMPLSLabelStack(100), rd)
	} else {
		nlri, _ = bgp.NewIPAddrPrefix(netip.PrefixFrom(netip.AddrFrom4([4]byte{10, 40, byte(n), 0}), 24))
	}
	path, err := apiutil.NewPath(rf, nlri, false, attrs, time.Now())
	if err != nil {
		e.t.Fatal(err)
	}
	return mustApi2apiutilPath(path)
}

// trigger performs one thing that hands routes to the peer when nothing holds them back; every trigger
// has something new to send (a fresh prefix / a fresh RT with a matching VPN route already in the table).
func (e *c12dEnv) trigger(k int) {
	switch k {
	case c12TrRouteChange:
		e.nextPfx++
		n, _ := bgp.NewIPAddrPrefix(netip.PrefixFrom(netip.AddrFrom4([4]byte{20, byte(e.nextPfx), 0, 0}), 16))
		nh, _ := bgp.NewPathAttributeNextHop(netip.MustParseAddr("10.9.0.5"))
		e.recv(e.src, bgp.NewBGPUpdateMessage(nil, []bgp.PathAttributeInterface{bgp.NewPathAttributeOrigin(0),
			bgp.NewPathAttributeAsPath([]bgp.AsPathParamInterface{bgp.NewAs4PathParam(bgp.BGP_ASPATH_ATTR_TYPE_SEQ, []uint32{65005})}), nh,
			bgp.NewPathAttributeExtendedCommunities([]bgp.ExtendedCommunityInterface{c12dRT(1)})},
			[]bgp.PathNLRI{{NLRI: n}}))
	case c12TrRTCMembership:
		e.nextRT++
		mp, _ := bgp.NewPathAttributeMpReachNLRI(bgp.RF_RTC_UC, []bgp.PathNLRI{{NLRI: bgp.NewRouteTargetMembershipNLRI(65001, c12dRT(e.nextRT))}}, netip.MustParseAddr("10.9.0.2"))
		e.recv(e.p, bgp.NewBGPUpdateMessage(nil, []bgp.PathAttributeInterface{bgp.NewPathAttributeOrigin(0), bgp.NewPathAttributeAsPath(nil), bgp.NewPathAttributeLocalPref(100), mp}, nil))
	case c12TrRTCWithdraw:
		// the peer withdraws its latest RT membership
		mp, _ := bgp.NewPathAttributeMpUnreachNLRI(bgp.RF_RTC_UC, []bgp.PathNLRI{{NLRI: bgp.NewRouteTargetMembershipNLRI(65001, c12dRT(e.nextRT))}})
		e.recv(e.p, bgp.NewBGPUpdateMessage(nil, []bgp.PathAttributeInterface{mp}, nil))
	case c12TrRouteRefresh:
		e.recv(e.p, bgp.NewBGPRouteRefreshMessage(bgp.AFI_IP, 0, bgp.SAFI_UNICAST))
	case c12TrSoftResetOut:
		if err := e.s.mgmtOperation(func() error { return e.s.softResetOut("10.9.0.2", bgp.RF_IPv4_UC, false) }, false); err != nil {
			e.t.Fatal(err)
		}
	case c12TrLocalAdd:
		e.nextPfx++
		lp := e.localPath(bgp.RF_IPv4_UC, e.nextPfx, 0)
		if _, err := e.s.AddPath(apiutil.AddPathRequest{Paths: []*apiutil.Path{lp}}); err != nil {
			e.t.Fatal(err)
		}
		e.locals = append(e.locals, lp)
	case c12TrLocalDelete:
		// delete the first local path (a route the peer has, or would have, been told about)
		lp := e.locals[0]
		e.locals = e.locals[1:]
		if err := e.s.DeletePath(apiutil.DeletePathRequest{Paths: []*apiutil.Path{lp}}); err != nil {
			e.t.Fatal(err)
		}
	case c12TrVrfPath:
		e.nextPfx++
		name := fmt.Sprintf("v%d", e.nextPfx)
		rd, _ := bgp.ParseRouteDistinguisher(fmt.Sprintf("200:%d", e.nextPfx))
		rdApi, _ := apiutil.MarshalRD(rd)
		rtApi, _ := apiutil.MarshalRTs([]bgp.ExtendedCommunityInterface{c12dRT(1)})
		if err := e.s.AddVrf(context.Background(), &api.AddVrfRequest{Vrf: &api.Vrf{Name: name, Rd: rdApi, ImportRt: rtApi, ExportRt: rtApi, Id: uint32(e.nextPfx)}}); err != nil {
			e.t.Fatal(err)
		}
		lp := e.localPath(bgp.RF_IPv4_UC, e.nextPfx, 0)
		if _, err := e.s.AddPath(apiutil.AddPathRequest{VRFID: name, Paths: []*apiutil.Path{lp}}); err != nil {
			e.t.Fatal(err)
		}
	}
	synctest.Wait()
}

func c12DeferralScenario(t *testing.T, o *vOut, r *vRand, endByTimer bool, withRTC bool) {
	synctest.Test(t, func(t *testing.T) {
		s := NewBgpServer()
		go s.Serve()
		if err := s.StartBgp(context.Background(), &api.StartBgpRequest{Global: &api.Global{Asn: 65001, RouterId: "1.1.1.1", ListenPort: -1}}); err != nil {
			t.Fatal(err)
		}
		e := &c12dEnv{t: t, s: s}
		fams := []bgp.Family{bgp.RF_IPv4_UC, bgp.RF_IPv4_VPN}
		if withRTC {
			fams = append(fams, bgp.RF_RTC_UC)
		}
		deferral := 60
		e.p = c12dAddPeer(t, s, "10.9.0.2", 65001, fams, true, true, deferral)
		e.src = c12dAddPeer(t, s, "10.9.0.5", 65005, []bgp.Family{bgp.RF_IPv4_UC}, false, false, 0)
		defer func() {
			_ = s.mgmtOperation(func() error {
				for k, p := range s.neighborMap {
					p.stopPeerRestarting()
					p.fsm.gracefulRestartTimer.Stop()
					p.fsm.outgoingCh.Close()
					for range p.fsm.outgoingCh.Out() {
					}
					delete(s.neighborMap, k)
				}
				return nil
			}, false)
			synctest.Wait()
			s.Stop()
			synctest.Wait()
		}()
		// the table before the peer comes up: one unicast route and VPN routes with RT 100:101 … 100:106
		first := e.localPath(bgp.RF_IPv4_UC, 200, 0)
		e.locals = append(e.locals, first)
		paths := []*apiutil.Path{first}
		for i := 1; i <= 6; i++ {
			paths = append(paths, e.localPath(bgp.RF_IPv4_VPN, i, i))
		}
		if _, err := s.AddPath(apiutil.AddPathRequest{Paths: paths}); err != nil {
			t.Fatal(err)
		}
		c12dEstablish(s, e.src, "10.9.0.5", 65005, []bgp.Family{bgp.RF_IPv4_UC}, false)
		c12dEstablish(s, e.p, "10.9.0.2", 65001, fams, true)
		log := []string{fmt.Sprintf("restarting speaker, peer families %v, deferral %d s", fams, deferral)}
		deferred := true
		judge := func(what string, k int) {
			sent := e.look()
			lr := e.p.fsm.pConf.ReadOnly().GracefulRestart.State.LocalRestarting
			log = append(log, fmt.Sprintf("%s -> %d NLRI paths queued", what, len(sent)))
			if k >= 0 {
				// correspondence: does this trigger hand routes to the peer in this state?  (the answer is
				// taken BEFORE looking at LocalRestarting: what was queued)
				askable := k != c12TrRTCWithdraw // (after the deferral it withdraws what the membership had brought: not a fixed answer)
				if askable {
					o.ask(fmt.Sprint(c12b(len(sent) > 0)), "trigger %d 1 %d", k, c12b(deferred))
				}
				o.stat(fmt.Sprintf("trigger_%s_deferred%d", c12TriggerName[k], c12b(deferred)), 1)
			}
			if deferred && len(sent) > 0 {
				cls := "advertised-before-deferral-ends"
				if k >= 0 {
					cls += ":" + c12TriggerName[k]
				}
				o.fail(cls, map[string]any{"history": append([]string{}, log...), "queued": sent, "localRestarting": lr, "rtc": withRTC, "endByTimer": endByTimer})
			}
		}
		judge("established", -1)
		kinds := []int{c12TrRouteChange, c12TrRouteRefresh, c12TrSoftResetOut, c12TrLocalAdd, c12TrLocalDelete, c12TrVrfPath}
		if withRTC {
			// the peer's membership of RT 100:101 (which every route here carries) comes first
			e.trigger(c12TrRTCMembership)
			judge(c12TriggerName[c12TrRTCMembership], c12TrRTCMembership)
			kinds = append(kinds, c12TrRTCMembership, c12TrRTCMembership)
		}
		// while deferred: every trigger, in a random order
		order := r.perm(len(kinds))
		for _, i := range order {
			e.trigger(kinds[i])
			judge(c12TriggerName[kinds[i]], kinds[i])
			if r.chance(25) {
				time.Sleep(time.Duration(1+r.intn(5)) * time.Second)
				judge("tick", -1)
			}
		}
		if withRTC && r.chance(60) {
			e.trigger(c12TrRTCWithdraw) // the latest membership goes again: nothing was advertised for it, nothing to withdraw
			judge(c12TriggerName[c12TrRTCWithdraw], c12TrRTCWithdraw)
		}
		// the deferral ends
		if endByTimer {
			time.Sleep(time.Duration(deferral) * time.Second)
			synctest.Wait()
			log = append(log, "deferral timer fired")
		} else {
			for _, rf := range fams {
				if rf != fams[len(fams)-1] {
					e.recv(e.p, bgp.NewEndOfRib(rf))
					judge("End-of-RIB "+rf.String()+" (not the last)", -1)
				}
			}
			e.recv(e.p, bgp.NewEndOfRib(fams[len(fams)-1]))
			log = append(log, "last End-of-RIB")
		}
		deferred = false
		sent := e.look()
		log = append(log, fmt.Sprintf("after the deferral -> %d NLRI paths queued", len(sent)))
		if len(sent) == 0 || e.p.fsm.pConf.ReadOnly().GracefulRestart.State.LocalRestarting {
			o.fail("nothing-advertised-after-deferral", map[string]any{"history": append([]string{}, log...), "rtc": withRTC, "endByTimer": endByTimer})
		}
		o.stat("deferral_scenarios", 1)
		// afterwards the same triggers do hand routes over
		e.locals = append(e.locals, e.localPath(bgp.RF_IPv4_UC, 250, 0))
		if _, err := s.AddPath(apiutil.AddPathRequest{Paths: e.locals[len(e.locals)-1:]}); err != nil {
			t.Fatal(err)
		}
		e.look()
		for _, i := range r.perm(len(kinds)) {
			if kinds[i] == c12TrLocalDelete && len(e.locals) == 0 {
				continue
			}
			e.trigger(kinds[i])
			judge(c12TriggerName[kinds[i]], kinds[i])
		}
	})
}

func TestVerifC12Deferral(t *testing.T) {
	o := vOpen(t)
	defer o.close()
	r := &vRand{s: o.seed*7919 + 121}
	o.sample("restarting speaker + peer with GR (R bit clear), ipv4-unicast / l3vpn-ipv4 [/ rtc]; triggers in random order while deferred: route change, RT membership, ROUTE-REFRESH, soft reset out, local add/delete, VRF path; then last End-of-RIB or deferral timer; then the triggers again")
	n := 6
	if o.thorough {
		n = 40
	}
	for i := 0; i < n; i++ {
		c12DeferralScenario(t, o, r, i%2 == 1, i%4 < 3)
	}
}
