//go:build verif

package server

// C19 / daemon-side emitters (oracle only, no Lean driver). A real BgpServer (ListenPort -1, no
// sockets) gets its global RIB filled through AddPath: locally originated paths, paths with a
// peer source (neighbours without ADD-PATH, a neighbour with ADD-PATH receive and several path
// ids, a source that is no configured neighbour), IPv4 and IPv6 unicast, destinations that mix
// these. Then the daemon's own emitters run and what they emit is serialised, re-framed with
// SplitMrt / SplitBMP through a bufio.Scanner, parsed back and compared with the RIB content:
//   * mrtWriter.dumpTable            peers (address, BGP id, AS), prefixes, number of entries per
//                                    prefix, per-entry peer / path id / timestamp / attributes
//   * the mrtWriter loop (eventToMrtMsg + writeToFile) fed by notifyPrePolicyUpdateWatcher:
//                                    one BGP4MP record per update, subtype, AS numbers,
//                                    addresses, payload
//   * bmpPeerRoute + ribout (adj-rib-in and Loc-RIB flavours as bmpClient.loop builds them),
//     bmpPeerUp / bmpPeerDown / bmpLocRIBPeerUp / bmpLocRIBPeerDown / bmpPeerStats /
//     bmpPeerRouteMirroring:        every message parses back to the same peer header and the
//                                    same routes / attributes, each RIB path exactly once

import (
	"bufio"
	"bytes"
	"context"
	"encoding/binary"
	"encoding/hex"
	"fmt"
	"math"
	"net/netip"
	"os"
	"path/filepath"
	"sort"
	"strings"
	"testing"
	"time"

	"github.com/osrg/gobgp/v4/api"
	"github.com/osrg/gobgp/v4/internal/pkg/table"
	"github.com/osrg/gobgp/v4/pkg/apiutil"
	"github.com/osrg/gobgp/v4/pkg/config/oc"
	"github.com/osrg/gobgp/v4/pkg/packet/bgp"
	"github.com/osrg/gobgp/v4/pkg/packet/bmp"
	"github.com/osrg/gobgp/v4/pkg/packet/mrt"
)

type c19Src struct {
	name    string
	addr    netip.Addr // invalid = locally originated
	id      netip.Addr
	as      uint32
	peer    bool // configured neighbour
	addPath bool // ADD-PATH receive negotiated for SOME families: see addPathFor
	apOdd   bool // ... for the families at odd positions of c19Families (else: at even positions)
	as4     bool // 4-octet AS capability received
}

var c19Sources = []c19Src{
	{name: "local"},
	{name: "p1", addr: netip.MustParseAddr("10.0.0.2"), id: netip.MustParseAddr("2.2.2.2"), as: 65002, peer: true},
	{name: "p2-addpath", addr: netip.MustParseAddr("10.0.0.3"), id: netip.MustParseAddr("3.3.3.3"), as: 4200000001, peer: true, addPath: true, as4: true},
	{name: "p3-v6", addr: netip.MustParseAddr("2001:db8::3"), id: netip.MustParseAddr("4.4.4.4"), as: 65003, peer: true, as4: true},
	{name: "ghost", addr: netip.MustParseAddr("10.0.0.9"), id: netip.MustParseAddr("9.9.9.9"), as: 65009},
	// near-duplicates: MRT has no room for the zone, so these two differ only by BGP id in the dump
	{name: "ll-eth0", addr: netip.MustParseAddr("fe80::1%eth0"), id: netip.MustParseAddr("5.5.5.5"), as: 65005},
	{name: "ll-eth1", addr: netip.MustParseAddr("fe80::1%eth1"), id: netip.MustParseAddr("6.6.6.6"), as: 65005},
	// same BGP id and AS as p1, other address; the IPv4-mapped form of p1's address; same AS as the ghost
	{name: "p1-twin-id", addr: netip.MustParseAddr("10.0.0.4"), id: netip.MustParseAddr("2.2.2.2"), as: 65002},
	{name: "p1-mapped", addr: netip.MustParseAddr("::ffff:10.0.0.2"), id: netip.MustParseAddr("7.7.7.7"), as: 65002},
	{name: "ghost-same-as", addr: netip.MustParseAddr("10.0.0.10"), id: netip.MustParseAddr("9.9.9.10"), as: 65009},
	// ADD-PATH receive for exactly the families p2 does NOT have it for (and vice versa), so that
	// whatever family a table walk meets first, one of the two is on the "other" setting later
	{name: "p4-addpath-odd", addr: netip.MustParseAddr("10.0.0.5"), id: netip.MustParseAddr("8.8.8.8"), as: 4200000002, peer: true, addPath: true, apOdd: true, as4: true},
	// the product {2-octet AS only} x {ADD-PATH receive}, on an IPv4 and on an IPv6 peer address,
	// and the 2-octet-AS-only speaker on an IPv6 address without ADD-PATH
	{name: "p5-as2-addpath", addr: netip.MustParseAddr("10.0.0.6"), id: netip.MustParseAddr("6.6.6.1"), as: 65006, peer: true, addPath: true},
	{name: "p6-as2-addpath-odd-v6", addr: netip.MustParseAddr("2001:db8::6"), id: netip.MustParseAddr("6.6.6.2"), as: 65007, peer: true, addPath: true, apOdd: true},
	{name: "p7-as2-v6", addr: netip.MustParseAddr("2001:db8::7"), id: netip.MustParseAddr("6.6.6.3"), as: 65008, peer: true},
}

// ADD-PATH receive is negotiated per (peer, family): p2 has it for ipv4 unicast / multicast /
// labelled / VPN and EVPN, p4 for the ipv6 ones and FlowSpec, everybody else for none
func (s c19Src) addPathFor(fam bgp.Family) bool {
	if !s.addPath {
		return false
	}
	for i, f := range c19Families {
		if f.fam == fam {
			return (i%2 == 1) == s.apOdd
		}
	}
	return false
}

// what the harness set up: does this source send path identifiers in this family (ground truth,
// independent of any lookup the daemon makes)
func c19ExpectAddPath(peer netip.Addr, fam bgp.Family) bool {
	if !peer.IsValid() || peer == netip.IPv4Unspecified() {
		return true // locally originated paths are dumped in the ADD-PATH records
	}
	for _, src := range c19Sources {
		if src.peer && src.addr == peer {
			return src.addPathFor(fam)
		}
	}
	return false
}

func c19SrvHex(b []byte) string {
	if len(b) == 0 {
		return "-"
	}
	return hex.EncodeToString(b)
}

// attributes as text, MP_REACH_NLRI reduced to its next hop (TABLE_DUMPv2 abbreviates it, and the
// prefix is compared separately)
func c19Attrs(attrs []bgp.PathAttributeInterface) string {
	l := make([]string, 0, len(attrs))
	for _, a := range attrs {
		if mp, ok := a.(*bgp.PathAttributeMpReachNLRI); ok {
			l = append(l, fmt.Sprintf("{MpReach nexthop %s}", mp.Nexthop))
			continue
		}
		l = append(l, a.String())
	}
	sort.Strings(l)
	return strings.Join(l, " ")
}

// every family the harness puts into the RIB, with the TABLE_DUMPv2 subtype RFC 6396 / RFC 8050
// assign to it (+6 for the ADD-PATH variant)
var c19Families = []struct {
	fam bgp.Family
	sub mrt.MRTSubTypeTableDumpv2
}{
	{bgp.RF_IPv4_UC, mrt.RIB_IPV4_UNICAST}, {bgp.RF_IPv6_UC, mrt.RIB_IPV6_UNICAST},
	{bgp.RF_IPv4_MC, mrt.RIB_IPV4_MULTICAST}, {bgp.RF_IPv6_MC, mrt.RIB_IPV6_MULTICAST},
	{bgp.RF_IPv4_MPLS, mrt.RIB_GENERIC}, {bgp.RF_IPv6_MPLS, mrt.RIB_GENERIC},
	{bgp.RF_IPv4_VPN, mrt.RIB_GENERIC}, {bgp.RF_IPv6_VPN, mrt.RIB_GENERIC},
	{bgp.RF_EVPN, mrt.RIB_GENERIC}, {bgp.RF_FS_IPv4_UC, mrt.RIB_GENERIC},
}

func c19Subtype(fam bgp.Family, addPath bool) mrt.MRTSubTypeTableDumpv2 {
	st := mrt.RIB_GENERIC
	for _, f := range c19Families {
		if f.fam == fam {
			st = f.sub
		}
	}
	if addPath {
		st += 6
	}
	return st
}

func c19Nlri(r *vRand, fam bgp.Family) (bgp.NLRI, error) {
	v4 := func() netip.Prefix {
		var a [4]byte
		binary.BigEndian.PutUint32(a[:], 0x0a000000|uint32(r.intn(1<<16))<<8)
		return netip.PrefixFrom(netip.AddrFrom4(a), 16+r.intn(9)).Masked()
	}
	v6 := func() netip.Prefix {
		var a [16]byte
		binary.BigEndian.PutUint64(a[:], 0x20010db800000000|uint64(r.intn(1<<16)))
		return netip.PrefixFrom(netip.AddrFrom16(a), 48+r.intn(17)).Masked()
	}
	rd := bgp.NewRouteDistinguisherTwoOctetAS(uint16(65000+r.intn(4)), uint32(1+r.intn(4)))
	labels := *bgp.NewMPLSLabelStack(uint32(16 + r.intn(1000)))
	switch fam {
	case bgp.RF_IPv4_UC, bgp.RF_IPv4_MC:
		return bgp.NewIPAddrPrefix(v4())
	case bgp.RF_IPv6_UC, bgp.RF_IPv6_MC:
		return bgp.NewIPAddrPrefix(v6())
	case bgp.RF_IPv4_MPLS:
		return bgp.NewLabeledIPAddrPrefix(v4(), labels)
	case bgp.RF_IPv6_MPLS:
		return bgp.NewLabeledIPAddrPrefix(v6(), labels)
	case bgp.RF_IPv4_VPN:
		return bgp.NewLabeledVPNIPAddrPrefix(v4(), labels, rd)
	case bgp.RF_IPv6_VPN:
		return bgp.NewLabeledVPNIPAddrPrefix(v6(), labels, rd)
	case bgp.RF_EVPN:
		p := v4()
		return bgp.NewEVPNIPPrefixRoute(rd, bgp.EthernetSegmentIdentifier{Type: bgp.ESI_ARBITRARY, Value: make([]byte, 9)}, uint32(r.intn(100)), uint8(p.Bits()), p.Addr(), netip.IPv4Unspecified(), uint32(16+r.intn(1000)))
	case bgp.RF_FS_IPv4_UC:
		ip, _ := bgp.NewIPAddrPrefix(v4())
		return bgp.NewFlowSpecUnicast(fam, []bgp.FlowSpecComponentInterface{bgp.NewFlowSpecDestinationPrefix(ip)})
	}
	return nil, fmt.Errorf("no generator for %s", fam)
}

// what the Go parser sees in a BMP message of type 0 / 2 / 3, in the vocabulary of the Lean model
// (Framing.Bmp.parseMsg2): embedded BGP messages as octets
func c19Msg2Str(m *bmp.BMPMessage, opts []*bgp.MarshallingOption) string {
	ph := &m.PeerHeader
	s0 := math.Floor(ph.Timestamp)
	sec, usec := uint64(s0), uint64(math.Round((ph.Timestamp-s0)*1e6))
	hx := func(b []byte) string {
		if len(b) == 0 {
			return "-"
		}
		return hex.EncodeToString(b)
	}
	var sb strings.Builder
	fmt.Fprintf(&sb, "ok %d %d %d peer %d %d %d %s %d %s %d %d ", m.Header.Version, m.Header.Length, m.Header.Type, ph.PeerType, ph.Flags, ph.PeerDistinguisher,
		hx(ph.PeerAddress.AsSlice()), ph.PeerAS, hx(ph.PeerBGPID.AsSlice()), sec, usec)
	info := func(l []bmp.BMPInfoTLVInterface) {
		fmt.Fprintf(&sb, "%d", len(l))
		for _, t := range l {
			switch x := t.(type) {
			case *bmp.BMPInfoTLVString:
				fmt.Fprintf(&sb, " %d %s", x.Type, hx([]byte(x.Value)))
			case *bmp.BMPInfoTLVUnknown:
				fmt.Fprintf(&sb, " %d %s", x.Type, hx(x.Value))
			}
		}
	}
	switch b := m.Body.(type) {
	case *bmp.BMPRouteMonitoring:
		u, _ := b.BGPUpdate.Serialize(opts...)
		sb.WriteString("rm " + hx(u))
	case *bmp.BMPPeerUpNotification:
		s, _ := b.SentOpenMsg.Serialize()
		r, _ := b.ReceivedOpenMsg.Serialize()
		fmt.Fprintf(&sb, "up %s %d %d %s %s info ", hx(b.LocalAddress.AsSlice()), b.LocalPort, b.RemotePort, hx(s), hx(r))
		info(b.Info)
	case *bmp.BMPPeerDownNotification:
		switch b.Reason {
		case 1, 3:
			nb, _ := b.BGPNotification.Serialize()
			fmt.Fprintf(&sb, "downmsg %d %s", b.Reason, hx(nb))
		case 6:
			sb.WriteString("downinfo ")
			info(b.Info)
		default:
			fmt.Fprintf(&sb, "down %d %s", b.Reason, hx(b.Data))
		}
	default:
		return "?"
	}
	return sb.String()
}

func c19SrvAttrBytes(e *mrt.RibEntry) []byte {
	var b []byte
	for _, a := range e.PathAttributes {
		ab, _ := a.Serialize(&bgp.MarshallingOption{MRT: true})
		b = append(b, ab...)
	}
	return b
}

func c19SrvPeerEnt(p *mrt.Peer) string {
	return fmt.Sprintf("%d %s %s %d", p.Type, c19SrvHex(p.BgpId.AsSlice()), c19SrvHex(p.IpAddress.AsSlice()), p.AS)
}

// ribout (the per-prefix cache that de-duplicates regenerated Route Monitoring) over histories
// with several sources per prefix: announce / withdraw / identical re-announce / replace by the
// source at every position of the cached list. A station that applies exactly the paths for
// which update() says "send" must hold, after EVERY step, what a station that is told everything
// holds; and an announcement the station already holds is not reported again.
func c19RiboutHistories(o *vOut, r *vRand) {
	nSrc := 2 + r.intn(3)
	var srcs []*table.PeerInfo
	for i := 0; i < nSrc; i++ {
		srcs = append(srcs, &table.PeerInfo{AS: uint32(65100 + i), ID: netip.AddrFrom4([4]byte{9, 9, 9, byte(i + 1)}), Address: netip.AddrFrom4([4]byte{10, 9, 0, byte(i + 1)})})
	}
	nPfx := 1 + r.intn(2)
	var nlris []bgp.NLRI
	for i := 0; i < nPfx; i++ {
		n, _ := bgp.NewIPAddrPrefix(netip.PrefixFrom(netip.AddrFrom4([4]byte{10, 77, byte(i), 0}), 24))
		nlris = append(nlris, n)
	}
	mk := func(pi, si, variant int) *table.Path {
		nh, _ := bgp.NewPathAttributeNextHop(netip.AddrFrom4([4]byte{192, 0, 2, 1}))
		attrs := []bgp.PathAttributeInterface{bgp.NewPathAttributeOrigin(0),
			bgp.NewPathAttributeAsPath([]bgp.AsPathParamInterface{bgp.NewAs4PathParam(2, []uint32{srcs[si].AS, uint32(64600 + variant)})}), nh}
		return table.NewPath(bgp.RF_IPv4_UC, srcs[si], bgp.PathNLRI{NLRI: nlris[pi]}, false, attrs, time.Unix(1700000000, 0), false)
	}
	rb := newribout()
	type cell struct{ pi, si int }
	truth, station := map[cell]*table.Path{}, map[cell]*table.Path{}
	last := map[cell]*table.Path{} // the path a source announced last (for the identical re-announcement)
	var history []string
	same := func(a, b *table.Path) bool { return (a == nil && b == nil) || (a != nil && b != nil && a.Equal(b)) }
	pendingReannounce := []cell{}
	for step := 0; step < 40+r.intn(40); step++ {
		c := cell{r.intn(nPfx), r.intn(nSrc)}
		op := r.intn(10)
		if len(pendingReannounce) > 0 && r.chance(70) { // right after a withdrawal: the identical path again
			c, pendingReannounce = pendingReannounce[0], pendingReannounce[1:]
			op = 9
		}
		var p *table.Path
		switch {
		case op < 4: // announce a (possibly new) variant
			p = mk(c.pi, c.si, r.intn(3))
			last[c] = p
			history = append(history, fmt.Sprintf("announce p%d s%d %s", c.pi, c.si, p.GetAsString()))
		case op < 8: // withdraw
			base := last[c]
			if base == nil {
				base = mk(c.pi, c.si, 0)
			}
			p = base.Clone(true)
			history = append(history, fmt.Sprintf("withdraw p%d s%d", c.pi, c.si))
			if truth[c] != nil {
				pendingReannounce = append(pendingReannounce, c)
			}
		default: // identical re-announcement of what this source announced last
			if last[c] == nil {
				continue
			}
			p = mk(c.pi, c.si, int(last[c].GetAsList()[1])-64600)
			history = append(history, fmt.Sprintf("re-announce p%d s%d %s", c.pi, c.si, p.GetAsString()))
		}
		if p.IsWithdraw {
			delete(truth, c)
		} else {
			truth[c] = p
		}
		send := rb.update(p)
		if send {
			if !p.IsWithdraw && same(station[c], p) {
				o.fail("bmp-ribout-reports-twice", map[string]any{"history": history})
				return
			}
			if p.IsWithdraw {
				delete(station, c)
			} else {
				station[c] = p
			}
		}
		for pi := 0; pi < nPfx; pi++ {
			for si := 0; si < nSrc; si++ {
				k := cell{pi, si}
				if !same(truth[k], station[k]) {
					d := func(x *table.Path) string {
						if x == nil {
							return "-"
						}
						return x.GetAsString()
					}
					o.fail("bmp-session-view-differs", map[string]any{"where": "ribout history", "history": history, "prefix": pi, "source": si,
						"monitored_rib": d(truth[k]), "station_view": d(station[k])})
					return
				}
			}
		}
	}
	o.stat("ribout_history_steps", len(history))
}

func c19StartServer(t *testing.T) *BgpServer {
	s := NewBgpServer()
	go s.Serve()
	if err := s.StartBgp(context.Background(), &api.StartBgpRequest{Global: &api.Global{Asn: 65001, RouterId: "1.1.1.1", ListenPort: -1}}); err != nil {
		t.Fatalf("StartBgp: %v", err)
	}
	for _, src := range c19Sources {
		if !src.peer {
			continue
		}
		if err := s.AddPeer(context.Background(), &api.AddPeerRequest{Peer: &api.Peer{
			Conf: &api.PeerConf{NeighborAddress: src.addr.String(), PeerAsn: src.as, AdminDown: true},
			AfiSafis: []*api.AfiSafi{
				{Config: &api.AfiSafiConfig{Family: &api.Family{Afi: api.Family_AFI_IP, Safi: api.Family_SAFI_UNICAST}, Enabled: true}},
				{Config: &api.AfiSafiConfig{Family: &api.Family{Afi: api.Family_AFI_IP6, Safi: api.Family_SAFI_UNICAST}, Enabled: true}},
			},
		}}); err != nil {
			t.Fatalf("AddPeer %s: %v", src.addr, err)
		}
		// what an established session would have left behind: negotiated families / ADD-PATH
		// mode, the 4-octet AS capability, local address and the remote router id
		src := src
		if err := s.mgmtOperation(func() error {
			p := s.neighborMap[src.addr]
			fm := map[bgp.Family]bgp.BGPAddPathMode{}
			for _, f := range c19Families {
				fm[f.fam] = bgp.BGP_ADD_PATH_NONE
				if src.addPathFor(f.fam) {
					fm[f.fam] = bgp.BGP_ADD_PATH_RECEIVE
				}
			}
			p.fsm.familyMap.Store(fm)
			p.fsm.lock.Lock()
			if src.as4 {
				p.fsm.capMap[bgp.BGP_CAP_FOUR_OCTET_AS_NUMBER] = []bgp.ParameterCapabilityInterface{bgp.NewCapFourOctetASNumber(src.as)}
			}
			conf := p.fsm.pConf.ReadCopy()
			conf.State.RemoteRouterId = src.id
			conf.State.PeerAs = src.as
			if src.addr.Is6() {
				conf.Transport.State.LocalAddress = netip.MustParseAddr("2001:db8::1")
			} else {
				conf.Transport.State.LocalAddress = netip.MustParseAddr("10.0.0.1")
			}
			p.fsm.pConf.Update(&conf)
			p.fsm.lock.Unlock()
			return nil
		}, false); err != nil {
			t.Fatal(err)
		}
	}
	return s
}

type c19Want struct {
	family, prefix string
	peer, id       netip.Addr
	as             uint32
	remoteID       uint32
	ts             uint32
	attrs          string
	path           *table.Path
}

// the peer a RIB entry is attributed to, as far as MRT / BMP can express it: address without
// zone, BGP id and AS
func (w c19Want) who() string {
	id := w.id
	if !id.IsValid() {
		id = netip.IPv4Unspecified()
	}
	return fmt.Sprintf("%s id %s as %d", w.peer.WithZone(""), id, w.as)
}

func (w c19Want) key(withPathID bool) string {
	if withPathID {
		return fmt.Sprintf("%s %s from %s pathid %d ts %d attrs %s", w.family, w.prefix, w.who(), w.remoteID, w.ts, w.attrs)
	}
	return fmt.Sprintf("%s %s from %s ts %d attrs %s", w.family, w.prefix, w.who(), w.ts, w.attrs)
}

// the content of the global RIB, read without any of the emitters
func c19RibContent(s *BgpServer) []c19Want {
	var l []c19Want
	s.shared.mu.Lock()
	defer s.shared.mu.Unlock()
	for family, t := range s.globalRib.GetAllTablesMap() {
		for _, dst := range t.GetDestinations() {
			for _, p := range dst.GetKnownPathList(table.GLOBAL_RIB_NAME, 0) {
				src := p.GetSource()
				peer := src.Address
				id, as := src.ID, src.AS
				if !peer.IsValid() || p.IsLocal() {
					peer, id, as = netip.IPv4Unspecified(), netip.IPv4Unspecified(), 0
				}
				l = append(l, c19Want{family: family.String(), prefix: p.GetNlri().String(), peer: peer, id: id, as: as,
					remoteID: p.RemoteID(), ts: uint32(p.GetTimestamp().Unix()), attrs: c19Attrs(p.GetPathAttrs()), path: p})
			}
		}
	}
	return l
}

func c19Scan(stream []byte, split bufio.SplitFunc) ([][]byte, error) {
	sc := bufio.NewScanner(bytes.NewReader(stream))
	sc.Buffer(make([]byte, 0, 64), 1<<22)
	sc.Split(split)
	var toks [][]byte
	for sc.Scan() {
		toks = append(toks, append([]byte(nil), sc.Bytes()...))
		if len(toks) > len(stream)+2 {
			return toks, fmt.Errorf("scanner makes no progress")
		}
	}
	return toks, sc.Err()
}

func TestVerifC19(t *testing.T) {
	o := vOpen(t)
	defer o.close()
	r := &vRand{s: o.seed*7919 + 196}
	rounds := 40
	if o.thorough {
		rounds = 300
	}
	o.sample("server: RIB filled through AddPath, emitted by mrtWriter.dumpTable / the mrtWriter loop / the BMP emitters, re-framed and parsed back")
	for round := 0; round < rounds; round++ {
		c19Round(t, o, r, round)
	}
}

func c19Round(t *testing.T, o *vOut, r *vRand, round int) {
	s := c19StartServer(t)
	defer s.StopBgp(context.Background(), &api.StopBgpRequest{})

	// ---------------- fill the RIB
	type added struct {
		fam  bgp.Family
		pfx  string
		src  int
		rid  uint32
		desc string
	}
	var ledger []added
	nPfx := 1 + r.intn(6)
	if round%8 == 0 {
		nPfx = 4 + r.intn(3)
	}
	for i := 0; i < nPfx; i++ {
		// family: stratified over every family of the table, unicast a little more often
		fam := c19Families[(round*7+i*3+r.intn(2))%len(c19Families)].fam
		if r.chance(25) {
			fam = []bgp.Family{bgp.RF_IPv4_UC, bgp.RF_IPv6_UC}[r.intn(2)]
		}
		if round%8 == 0 && i < 4 {
			// two families, both ADD-PATH neighbours (opposite settings) in each of them
			fam = []bgp.Family{bgp.RF_IPv4_UC, bgp.RF_IPv6_UC, bgp.RF_IPv6_MC, bgp.RF_IPv4_MC}[i]
		}
		v6 := fam.Afi() == bgp.AFI_IP6
		nlri0, err := c19Nlri(r, fam)
		if err != nil || nlri0 == nil {
			o.stat("nlri_ctor_error_"+fam.String(), 1)
			continue
		}
		// which sources hold this destination: stratified so that every mix occurs
		var srcs []int
		switch k := (round + i) % 6; k {
		case 0: // the seeded class: a plain and an ADD-PATH entry in one destination
			srcs = []int{0, 1}
		case 1:
			srcs = []int{0}
		case 2:
			srcs = []int{1 + r.intn(len(c19Sources)-1)}
		case 3:
			srcs = []int{2, 1, 4, 10}
			if r.chance(50) { // near-duplicate peers in one destination
				srcs = [][]int{{5, 6}, {6, 5, 0}, {1, 7, 8}, {4, 9, 1}, {5, 6, 7, 8, 9}, {2, 10}, {2, 10, 1}, {10, 0}, {11, 12, 13}, {11, 2}, {12, 10, 1}, {13, 3}}[r.intn(12)]
			}
		default:
			for j := range c19Sources {
				if r.chance(50) {
					srcs = append(srcs, j)
				}
			}
			if len(srcs) == 0 {
				srcs = []int{r.intn(len(c19Sources))}
			}
		}
		if round%8 == 0 && i < 4 {
			srcs = []int{2, 10, 11, 12}
		}
		for _, si := range srcs {
			src := c19Sources[si]
			nPaths := 1
			if src.addPathFor(fam) {
				nPaths = 1 + r.intn(3)
			}
			for k := 0; k < nPaths; k++ {
				nlri := nlri0
				attrs := []bgp.PathAttributeInterface{bgp.NewPathAttributeOrigin(uint8(r.intn(3)))}
				if src.addr.IsValid() {
					attrs = append(attrs, bgp.NewPathAttributeAsPath([]bgp.AsPathParamInterface{bgp.NewAs4PathParam(2, []uint32{src.as, uint32(64512 + r.intn(1000)), uint32(map[bool]int{true: r.pick(65000, 4200000000, 1), false: r.pick(65000, 23456, 1)}[src.as4 || !src.peer])})}))
				} else {
					attrs = append(attrs, bgp.NewPathAttributeAsPath(nil))
				}
				if fam == bgp.RF_IPv4_UC {
					nh, _ := bgp.NewPathAttributeNextHop(netip.AddrFrom4([4]byte{192, 0, 2, byte(1 + r.intn(200))}))
					attrs = append(attrs, nh)
				} else {
					nhAddr := netip.AddrFrom4([4]byte{192, 0, 2, byte(1 + r.intn(200))})
					if v6 {
						var a [16]byte
						binary.BigEndian.PutUint64(a[:], 0x20010db8ffff0000)
						a[15] = byte(1 + r.intn(200))
						nhAddr = netip.AddrFrom16(a)
					}
					nhs := []netip.Addr{nhAddr}
					if fam == bgp.RF_FS_IPv4_UC {
						nhs = nil // FlowSpec carries no next hop
					}
					mp, err := bgp.NewPathAttributeMpReachNLRI(fam, []bgp.PathNLRI{{NLRI: nlri}}, nhs...)
					if err != nil {
						o.stat("mpreach_ctor_error_"+fam.String(), 1)
						continue
					}
					attrs = append(attrs, mp)
				}
				if r.chance(50) {
					attrs = append(attrs, bgp.NewPathAttributeMultiExitDisc(r.u32()))
				}
				if r.chance(40) {
					attrs = append(attrs, bgp.NewPathAttributeLocalPref(r.u32()))
				}
				if r.chance(40) {
					attrs = append(attrs, bgp.NewPathAttributeCommunities([]uint32{r.u32(), r.u32()}))
				}
				p := &apiutil.Path{Family: fam, Nlri: nlri, Age: time.Now().Unix() - int64(r.intn(100000)), Attrs: attrs}
				if src.addr.IsValid() {
					p.PeerASN, p.PeerID, p.PeerAddress = src.as, src.id, src.addr
				}
				if src.addPathFor(fam) {
					p.RemoteID = uint32(1 + k + 10*r.intn(3))
				}
				res, err := s.AddPath(apiutil.AddPathRequest{Paths: []*apiutil.Path{p}})
				if err != nil || (len(res) > 0 && res[0].Error != nil) {
					o.stat("addpath_refused_"+fam.String(), 1)
					continue
				}
				ledger = append(ledger, added{fam, nlri0.String(), si, p.RemoteID, src.name})
				o.stat("added_"+fam.String()+"_"+src.name, 1)
			}
		}
	}
	want := c19RibContent(s)
	perPrefix := map[string][]c19Want{}
	kinds := map[string]map[string]bool{}
	for _, w := range want {
		k := w.family + " " + w.prefix
		perPrefix[k] = append(perPrefix[k], w)
		if kinds[k] == nil {
			kinds[k] = map[string]bool{}
		}
		cls := "plain"
		if w.path.IsLocal() {
			cls = "local"
		} else if c19ExpectAddPath(w.peer, w.path.GetFamily()) {
			cls = "addpath"
		}
		kinds[k][cls] = true
	}
	for _, ks := range kinds {
		var l []string
		for c := range ks {
			l = append(l, c)
		}
		sort.Strings(l)
		o.stat("destination_mix_"+strings.Join(l, "+"), 1)
	}
	if len(want) == 0 {
		o.stat("round_empty_rib", 1)
		return
	}
	o.stat("rib_paths", len(want))
	ribDesc := func() []string {
		var l []string
		for _, w := range want {
			l = append(l, w.key(true))
		}
		sort.Strings(l)
		return l
	}

	// ---------------- TABLE_DUMPv2: the real dumpTable, serialised, re-framed, parsed back
	func() {
		defer func() {
			if e := recover(); e != nil {
				o.fail("mrt-dump-panic", map[string]any{"rib": ribDesc(), "panic": fmt.Sprint(e)})
			}
		}()
		w := &mrtWriter{s: s, c: &oc.MrtConfig{DumpType: oc.MRT_TYPE_TABLE}}
		msgs := w.dumpTable()
		var stream []byte
		for _, m := range msgs {
			b, err := m.Serialize()
			if err != nil {
				o.fail("mrt-dump-unserialisable", map[string]any{"rib": ribDesc(), "err": err.Error()})
				return
			}
			stream = append(stream, b...)
		}
		toks, err := c19Scan(stream, mrt.SplitMrt)
		if err != nil || len(toks) != len(msgs) {
			o.fail("mrt-dump-misframed", map[string]any{"records": len(msgs), "tokens": len(toks), "err": fmt.Sprint(err), "stream": c19SrvHex(stream)})
			return
		}
		var peers []*mrt.Peer
		got := map[string]int{}      // entry (without path id) -> count
		gotPID := map[string]int{}   // entry of an ADD-PATH record, with path id -> count
		gotCount := map[string]int{} // family prefix -> entries
		gotSub := map[string][]int{} // family prefix -> subtypes of its records
		var tabBody []byte
		for i, tk := range toks {
			h, err := mrt.ParseHeader(tk)
			if err != nil {
				o.fail("mrt-dump-unparseable", map[string]any{"record": c19SrvHex(tk), "err": err.Error()})
				return
			}
			m, err := mrt.ParseBody(tk[mrt.MRT_COMMON_HEADER_LEN:], h)
			if err != nil {
				// the routes of this record then show up as missing, family by family, below
				o.fail("mrt-dump-unparseable", map[string]any{"subtype": h.SubType, "record": c19SrvHex(tk), "err": err.Error()})
				continue
			}
			body := tk[mrt.MRT_COMMON_HEADER_LEN:]
			switch b := m.Body.(type) {
			case *mrt.PeerIndexTable:
				{ // the model reads the daemon's peer table
					var sb strings.Builder
					fmt.Fprintf(&sb, "ok %s %s %d", c19SrvHex(b.CollectorBgpId.AsSlice()), c19SrvHex([]byte(b.ViewName)), len(b.Peers))
					for _, p := range b.Peers {
						sb.WriteString(" " + c19SrvPeerEnt(p))
					}
					o.ask(sb.String(), "mrt.ptab %s", c19SrvHex(body))
					tabBody = body
				}
				if i != 0 {
					o.fail("mrt-dump-peer-table-not-first", i)
				}
				peers = b.Peers
				if b.CollectorBgpId != netip.MustParseAddr("1.1.1.1") {
					o.fail("mrt-dump-collector-id", b.CollectorBgpId.String())
				}
			case *mrt.Rib:
				st := mrt.MRTSubTypeTableDumpv2(h.SubType)
				addPath := st >= mrt.RIB_IPV4_UNICAST_ADDPATH
				// the family as a reader of the file learns it: implied by the subtype, or the
				// AFI/SAFI carried by RIB_GENERIC
				base := st
				if addPath {
					base -= 6
				}
				fam, specific := map[mrt.MRTSubTypeTableDumpv2]bgp.Family{mrt.RIB_IPV4_UNICAST: bgp.RF_IPv4_UC, mrt.RIB_IPV4_MULTICAST: bgp.RF_IPv4_MC,
					mrt.RIB_IPV6_UNICAST: bgp.RF_IPv6_UC, mrt.RIB_IPV6_MULTICAST: bgp.RF_IPv6_MC}[base]
				if !specific {
					fam = b.Family
				}
				if want := c19Subtype(fam, addPath); st != want {
					o.fail("mrt-dump-family-roundtrip:"+fam.String(), map[string]any{"what": "subtype", "subtype": st, "rfc_subtype": want, "prefix": b.Prefix.String()})
				}
				o.stat(fmt.Sprintf("dump_record_%s_subtype%d", fam, st), 1)
				{ // the model reads the daemon's RIB record, names its subtype and attributes its entries
					var sb strings.Builder
					nl, _ := b.Prefix.Serialize()
					fmt.Fprintf(&sb, "ok %d %d %d %s %d", b.SequenceNumber, b.Family.Afi(), b.Family.Safi(), c19SrvHex(nl), len(b.Entries))
					for _, e := range b.Entries {
						fmt.Fprintf(&sb, " %d %d %d %s", e.PeerIndex, e.OriginatedTime, e.PathIdentifier, c19SrvHex(c19SrvAttrBytes(e)))
					}
					o.ask(sb.String(), "mrt.rib %d %d %s", st, b.Prefix.Len(), c19SrvHex(body))
					for j, e := range b.Entries {
						want := "none"
						if int(e.PeerIndex) < len(peers) {
							want = c19SrvPeerEnt(peers[e.PeerIndex])
							// the subtype the model names for (family, THIS peer's ADD-PATH setting for
							// THIS family) must be the subtype of the record the entry was put into
							pe := peers[e.PeerIndex]
							expAP, known := false, false
							if pe.IpAddress == netip.IPv4Unspecified() && pe.AS == 0 {
								expAP, known = true, true
							}
							for _, src := range c19Sources {
								if src.addr.IsValid() && src.addr.WithZone("") == pe.IpAddress && src.id == pe.BgpId && src.as == pe.AS {
									expAP, known = src.peer && src.addPathFor(fam), true
								}
							}
							if known {
								apN := 0
								if expAP {
									apN = 1
								}
								o.ask(fmt.Sprint(int(st)), "mrt.subtype %d %d %d", fam.Afi(), fam.Safi(), apN)
								if expAP != addPath {
									o.fail("mrt-dump-addpath-setting-mismatch", map[string]any{"family": fam.String(), "prefix": b.Prefix.String(), "peer": c19SrvPeerEnt(pe),
										"peer_sends_path_ids_in_this_family": expAP, "record_subtype": int(st), "path_id_in_record": e.PathIdentifier})
								}
							}
						}
						o.ask(want, "mrt.attr %s %d %d %s %d", c19SrvHex(tabBody), st, b.Prefix.Len(), c19SrvHex(body), j)
					}
				}
				gotSub[fam.String()+" "+b.Prefix.String()] = append(gotSub[fam.String()+" "+b.Prefix.String()], int(st))
				for _, e := range b.Entries {
					if int(e.PeerIndex) >= len(peers) {
						o.fail("mrt-dump-peer-index-out-of-table", map[string]any{"index": e.PeerIndex, "peers": len(peers)})
						continue
					}
					pe := peers[e.PeerIndex]
					g := c19Want{family: fam.String(), prefix: b.Prefix.String(), peer: pe.IpAddress, id: pe.BgpId, as: pe.AS, remoteID: e.PathIdentifier,
						ts: e.OriginatedTime, attrs: c19Attrs(e.PathAttributes)}
					got[g.key(false)]++
					if addPath {
						gotPID[g.key(true)]++
					}
					gotCount[g.family+" "+g.prefix]++
				}
			default:
				o.fail("mrt-dump-unexpected-body", fmt.Sprintf("%T", m.Body))
			}
		}
		// family by family: every route of the table comes back, under the family's subtype
		famWant, famGot := map[string]map[string]int{}, map[string]map[string]int{}
		for _, w := range want {
			if famWant[w.family] == nil {
				famWant[w.family] = map[string]int{}
			}
			famWant[w.family][w.key(false)]++
		}
		for k, n := range got {
			f := strings.SplitN(k, " ", 2)[0]
			if famGot[f] == nil {
				famGot[f] = map[string]int{}
			}
			famGot[f][k] = n
		}
		for f, ws := range famWant {
			missing := []string{}
			for k, n := range ws {
				if famGot[f][k] != n {
					missing = append(missing, k)
				}
			}
			if len(missing) > 0 {
				sort.Strings(missing)
				o.fail("mrt-dump-family-roundtrip:"+f, map[string]any{"what": "routes of the table that do not come back from the dump", "routes": missing[:min(len(missing), 4)], "count": len(missing)})
			}
			o.stat("dump_family_"+f, len(ws))
		}
		for f, gs := range famGot {
			for k := range gs {
				if famWant[f][k] == 0 {
					o.fail("mrt-dump-family-roundtrip:"+f, map[string]any{"what": "route in the dump that is not in the table", "route": k})
					break
				}
			}
		}
		// number of entries per prefix
		for k, ws := range perPrefix {
			if gotCount[k] < len(ws) {
				var l []string
				for _, w := range ws {
					l = append(l, w.key(true))
				}
				o.fail("mrt-dump-missing-entries", map[string]any{"prefix": k, "paths_in_rib": len(ws), "entries_in_dump": gotCount[k], "rib_paths": l})
			} else if gotCount[k] > len(ws) {
				o.fail("mrt-dump-extra-entries", map[string]any{"prefix": k, "paths_in_rib": len(ws), "entries_in_dump": gotCount[k]})
			}
		}
		for k := range gotCount {
			if _, ok := perPrefix[k]; !ok {
				o.fail("mrt-dump-extra-entries", map[string]any{"prefix": k, "paths_in_rib": 0, "entries_in_dump": gotCount[k]})
			}
		}
		// every path: same peer, timestamp, attributes
		wantKeys := map[string]int{}
		for _, w := range want {
			wantKeys[w.key(false)]++
		}
		for k, n := range wantKeys {
			if got[k] != n {
				var have []string
				for g := range got {
					have = append(have, g)
				}
				sort.Strings(have)
				o.fail("mrt-dump-entry-differs", map[string]any{"rib_path": k, "times_in_rib": n, "times_in_dump": got[k], "dump": have})
				break
			}
		}
		// path ids of the ADD-PATH records are those of the RIB
		wantPID := map[string]int{}
		for _, w := range want {
			wantPID[w.key(true)]++
		}
		for k, n := range gotPID {
			if wantPID[k] < n {
				o.fail("mrt-dump-path-id-differs", map[string]any{"dump_entry": k, "rib": ribDesc()})
				break
			}
		}
		// every path of a (peer, family) that sends path identifiers comes back with its path id
		for _, w := range want {
			if c19ExpectAddPath(w.peer, w.path.GetFamily()) && gotPID[w.key(true)] == 0 {
				o.fail("mrt-dump-path-id-lost", map[string]any{"rib_path": w.key(true)})
				break
			}
		}
		// peer index table: every source is there with its address, BGP id and AS, exactly once
		seen := map[string]int{}
		for _, p := range peers {
			seen[c19Want{peer: p.IpAddress, id: p.BgpId, as: p.AS}.who()]++
		}
		for _, w := range want {
			switch seen[w.who()] {
			case 0:
				var l []string
				for k := range seen {
					l = append(l, k)
				}
				sort.Strings(l)
				o.fail("mrt-dump-peer-missing", map[string]any{"source": w.who(), "zone": w.peer.Zone(), "peer_index_table": l})
			case 1:
			default:
				o.fail("mrt-dump-peer-duplicated", w.who())
			}
		}
		o.stat("dump_records", len(msgs))
	}()

	// ---------------- BGP4MP: the real mrtWriter loop (eventToMrtMsg, writeToFile)
	func() {
		dir, err := os.MkdirTemp("", "c19mrt")
		if err != nil {
			t.Fatal(err)
		}
		defer os.RemoveAll(dir)
		file := filepath.Join(dir, "updates.mrt")
		w, err := newMrtWriter(s, &oc.MrtConfig{DumpType: oc.MRT_TYPE_UPDATES, FileName: file}, 0, 0)
		if err != nil {
			t.Fatal(err)
		}
		for i := 0; i < 500 && !s.isWatched(watchEventTypePreUpdate); i++ {
			time.Sleep(time.Millisecond)
		}
		type sent struct {
			src     c19Src
			payload []byte
			addPath bool // ADD-PATH receive of the neighbour for the family of this update
			prefix  string
			pathID  uint32
			asPath  []uint32
			ipUC    bool // IPv4 / IPv6 unicast: the families the reader below decodes
		}
		var sents []sent
		for _, src := range c19Sources {
			if !src.peer {
				continue
			}
			var paths []*table.Path
			for _, wnt := range want {
				if wnt.peer == src.addr {
					paths = append(paths, wnt.path)
				}
			}
			var nbr *peer
			_ = s.mgmtOperation(func() error { nbr = s.neighborMap[src.addr]; return nil }, false)
			nbrConf := s.toConfig(nbr, false)
			for _, p := range paths {
				opt := &bgp.MarshallingOption{}
				ap := nbrConf.IsAddPathReceiveEnabled(p.GetFamily())
				if ap {
					opt.AddPath = map[bgp.Family]bgp.BGPAddPathMode{p.GetFamily(): bgp.BGP_ADD_PATH_BOTH} // the neighbour sends path ids
				}
				if ap {
					o.stat("update_addpath_"+p.GetFamily().String(), 1)
				}
				for _, u := range table.CreateUpdateMsgFromPaths([]*table.Path{p}, opt) {
					ub := u.Body.(*bgp.BGPUpdate)
					if !src.as4 { // a 2-octet-AS-only speaker encodes AS_PATH with 2-octet numbers
						table.UpdatePathAttrs2ByteAs(ub)
					}
					// the path identifiers on the wire are the neighbour's (remote) ones
					for j := range ub.NLRI {
						ub.NLRI[j].ID = p.RemoteID()
					}
					for _, a := range ub.PathAttributes {
						if mp, ok := a.(*bgp.PathAttributeMpReachNLRI); ok {
							for j := range mp.Value {
								mp.Value[j].ID = p.RemoteID()
							}
						}
					}
					payload, err := u.Serialize(opt)
					if err != nil {
						continue
					}
					var peer *peer
					_ = s.mgmtOperation(func() error { peer = s.neighborMap[src.addr]; return nil }, false)
					s.notifyPrePolicyUpdateWatcher(peer, []*table.Path{p}, u, time.Unix(int64(1700000000+len(sents)), 0), payload)
					fam := p.GetFamily()
					sents = append(sents, sent{src, payload, ap, p.GetNlri().String(), p.RemoteID(), p.GetAsList(), fam == bgp.RF_IPv4_UC || fam == bgp.RF_IPv6_UC})
					o.stat(fmt.Sprintf("update_as4=%v_addpath=%v_peer6=%v_mp=%v", src.as4, ap, src.addr.Is6(), fam != bgp.RF_IPv4_UC), 1)
				}
			}
		}
		var stream []byte
		var toks [][]byte
		for i := 0; i < 400; i++ { // the loop writes asynchronously
			stream, _ = os.ReadFile(file)
			toks, err = c19Scan(stream, mrt.SplitMrt)
			if err == nil && len(toks) >= len(sents) {
				break
			}
			time.Sleep(5 * time.Millisecond)
		}
		w.Stop()
		if err != nil || len(toks) != len(sents) {
			o.fail("mrt-updates-missing-records", map[string]any{"updates_notified": len(sents), "records_in_file": len(toks), "err": fmt.Sprint(err)})
			return
		}
		for i, tk := range toks {
			sn := sents[i]
			h, err := mrt.ParseHeader(tk)
			var m *mrt.MRTMessage
			if err == nil {
				m, err = mrt.ParseBody(tk[mrt.MRT_COMMON_HEADER_LEN:], h)
			}
			if err != nil {
				// ParseBody takes AS width and ADD-PATH from the subtype: every record must parse
				o.fail("mrt-updates-unparseable", map[string]any{"peer": sn.src.name, "subtype": h.SubType, "record": c19SrvHex(tk), "err": err.Error()})
				continue
			}
			if m != nil { // the model reads the record the loop wrote
				b := m.Body.(*mrt.BGP4MPMessage)
				bb := sn.payload
				if rb, err := b.Serialize(); err != nil || !bytes.HasSuffix(rb, sn.payload) {
					o.fail("mrt-updates-payload-differs", map[string]any{"peer": sn.src.name, "record": c19SrvHex(tk), "reserialised": c19SrvHex(rb)})
				}
				o.ask(fmt.Sprintf("msg %d %d %d %d %s %s %s", b.PeerAS, b.LocalAS, b.InterfaceIndex, b.AddressFamily, c19SrvHex(b.PeerIpAddress.AsSlice()),
					c19SrvHex(b.LocalIpAddress.AsSlice()), c19SrvHex(bb)), "mrt.bgp4mp %d %s", h.SubType, c19SrvHex(tk[mrt.MRT_COMMON_HEADER_LEN:]))
			}
			{
				a4, ap := 0, 0
				if sn.src.as4 {
					a4 = 1
				}
				if sn.addPath {
					ap = 1
				}
				o.ask(fmt.Sprint(h.SubType), "mrt.bgp4mpsub %d %d", a4, ap)
			}
			// an external reader: AS width, ADD-PATH and "locally generated" come from the subtype alone
			if h.Type == mrt.BGP4MP && sn.ipUC {
				st := mrt.MRTSubTypeBGP4MP(h.SubType)
				rAS4 := st == mrt.MESSAGE_AS4 || st == mrt.MESSAGE_AS4_LOCAL || st == mrt.MESSAGE_AS4_ADDPATH || st == mrt.MESSAGE_AS4_LOCAL_ADDPATH
				rAP := st >= mrt.MESSAGE_ADDPATH && st <= mrt.MESSAGE_AS4_LOCAL_ADDPATH
				rLocal := st == mrt.MESSAGE_LOCAL || st == mrt.MESSAGE_AS4_LOCAL || st == mrt.MESSAGE_LOCAL_ADDPATH || st == mrt.MESSAGE_AS4_LOCAL_ADDPATH
				rd := map[string]any{"peer": sn.src.name, "subtype": int(st), "record": c19SrvHex(tk), "received_prefix": sn.prefix, "received_path_id": sn.pathID,
					"received_as_path": fmt.Sprint(sn.asPath), "session": fmt.Sprintf("4-octet AS %v, ADD-PATH receive %v", sn.src.as4, sn.addPath)}
				body := tk[mrt.MRT_COMMON_HEADER_LEN:]
				off := 4 // 2 x AS
				if rAS4 {
					off = 8
				}
				if len(body) < off+4 {
					o.fail("mrt-updates-reader-differs", rd)
				} else {
					afi := binary.BigEndian.Uint16(body[off+2:])
					off += 4 + map[bool]int{false: 8, true: 32}[afi == 2]
					asSize := 2
					if rAS4 {
						asSize = 4
					}
					if len(body) < off {
						o.fail("mrt-updates-reader-differs", rd)
					} else if routes, asPath, _, err := c19DecodeUpdate(body[off:], asSize, func(uint16, uint8) bool { return rAP }); err != nil {
						rd["reader_error"] = err.Error()
						o.fail("mrt-updates-reader-differs", rd)
					} else {
						ok := len(routes) == 1 && routes[0].prefix == sn.prefix && fmt.Sprint(asPath) == fmt.Sprint(sn.asPath) && !rLocal
						if ok && sn.addPath && routes[0].pathID != sn.pathID {
							ok = false
						}
						if !ok {
							rd["reader_routes"], rd["reader_as_path"], rd["reader_takes_it_for_local"] = fmt.Sprint(routes), fmt.Sprint(asPath), rLocal
							o.fail("mrt-updates-reader-differs", rd)
						}
					}
				}
			}
			wantSub := mrt.MESSAGE
			switch {
			case sn.addPath && sn.src.as4:
				wantSub = mrt.MESSAGE_AS4_ADDPATH
			case sn.addPath:
				wantSub = mrt.MESSAGE_ADDPATH
			case sn.src.as4:
				wantSub = mrt.MESSAGE_AS4
			}
			detail := map[string]any{"peer": sn.src.name, "record": c19SrvHex(tk)}
			if h.Type != mrt.BGP4MP || mrt.MRTSubTypeBGP4MP(h.SubType) != wantSub || h.Timestamp != uint32(1700000000+i) {
				detail["type"], detail["subtype"], detail["want_subtype"], detail["timestamp"] = h.Type, h.SubType, wantSub, h.Timestamp
				o.fail("mrt-updates-header-differs", detail)
				continue
			}
			if !bytes.HasSuffix(tk, sn.payload) {
				o.fail("mrt-updates-payload-differs", detail)
				continue
			}
			if m != nil {
				b := m.Body.(*mrt.BGP4MPMessage)
				local := netip.MustParseAddr("10.0.0.1")
				if sn.src.addr.Is6() {
					local = netip.MustParseAddr("2001:db8::1")
				}
				if b.PeerAS != sn.src.as || b.LocalAS != 65001 || b.PeerIpAddress != sn.src.addr || b.LocalIpAddress != local {
					detail["parsed"] = fmt.Sprintf("%d %d %s %s", b.PeerAS, b.LocalAS, b.PeerIpAddress, b.LocalIpAddress)
					o.fail("mrt-updates-peer-differs", detail)
				}

			}
		}
		o.stat("update_records", len(toks))
	}()

	// ---------------- BMP: route monitoring as bmpClient.loop builds it, plus the other emitters
	func() {
		defer func() {
			if e := recover(); e != nil {
				o.fail("bmp-emit-panic", fmt.Sprint(e))
			}
		}()
		type exp struct {
			kind   string
			w      c19Want
			locRib bool
		}
		var msgs []*bmp.BMPMessage
		var exps []exp
		for k := 0; k < 4; k++ {
			c19RiboutHistories(o, r)
		}
		rb := newribout()
		for pass := 0; pass < 2; pass++ {
			for _, wnt := range want {
				if wnt.path.IsLocal() {
					continue
				}
				send := rb.update(wnt.path)
				if pass == 0 && !send {
					o.fail("bmp-ribout-drops-new-path", wnt.key(true))
				}
				if pass == 1 && send {
					o.fail("bmp-ribout-resends-known-path", wnt.key(true))
				}
				if !send {
					continue
				}
				info := &table.PeerInfo{Address: wnt.peer, AS: wnt.as, ID: wnt.id}
				for _, u := range table.CreateUpdateMsgFromPaths([]*table.Path{wnt.path}) {
					payload, _ := u.Serialize()
					msgs = append(msgs, bmpPeerRoute(bmp.BMP_PEER_TYPE_GLOBAL, r.chance(50), 0, true, info, wnt.path.GetTimestamp().Unix(), payload))
					exps = append(exps, exp{"route", wnt, false})
				}
			}
		}
		for _, wnt := range want { // Loc-RIB flavour (watchEventBestPath branch)
			info := &table.PeerInfo{Address: netip.IPv4Unspecified(), AS: 65001, ID: netip.MustParseAddr("1.1.1.1")}
			options := bmpAddPathMarshallingOption(wnt.path)
			u := table.CreateUpdateMsgFromPaths([]*table.Path{wnt.path}, options)[0]
			payload, err := u.Serialize(options)
			if err != nil {
				o.fail("bmp-locrib-unserialisable", err.Error())
				continue
			}
			msgs = append(msgs, bmpPeerRoute(bmp.BMP_PEER_TYPE_LOCAL_RIB, false, 0, true, info, wnt.path.GetTimestamp().Unix(), payload))
			exps = append(exps, exp{"route", wnt, true})
		}
		nRoutes := len(msgs)
		// session and bookkeeping messages
		open := func(as uint32, id netip.Addr) *bgp.BGPMessage {
			m, _ := bgp.NewBGPOpenMessage(uint16(as), 90, id, []bgp.OptionParameterInterface{bgp.NewOptionParameterCapability(
				[]bgp.ParameterCapabilityInterface{bgp.NewCapMultiProtocol(bgp.RF_IPv4_UC), bgp.NewCapFourOctetASNumber(as)})})
			return m
		}
		var evs []*watchEventPeer
		for _, src := range c19Sources {
			if !src.peer {
				continue
			}
			local := netip.MustParseAddr("10.0.0.1")
			if src.addr.Is6() {
				local = netip.MustParseAddr("2001:db8::1")
			}
			ev := &watchEventPeer{PeerAS: src.as, LocalAS: 65001, PeerAddress: src.addr, LocalAddress: local, PeerPort: uint16(1024 + r.intn(60000)), LocalPort: 179,
				PeerID: src.id, SentOpen: open(65001, netip.MustParseAddr("1.1.1.1")), RecvOpen: open(src.as, src.id), State: bgp.BGP_FSM_ESTABLISHED,
				Timestamp: time.Unix(int64(1600000000+r.intn(100000000)), 0)}
			evs = append(evs, ev)
			msgs = append(msgs, bmpPeerUp(ev, bmp.BMP_PEER_TYPE_GLOBAL, false, 0))
			reasons := []*fsmStateReason{
				newfsmStateReason(fsmNotificationSent, bgp.NewBGPNotificationMessage(6, 2, nil), nil),
				newfsmStateReason(fsmNotificationRecv, bgp.NewBGPNotificationMessage(4, 0, []byte{1}), nil),
				newfsmStateReason(fsmAdminDown, nil, nil), newfsmStateReason(fsmReadFailed, nil, nil), newfsmStateReason(fsmDeConfigured, nil, nil),
				newfsmStateReason(fsmHoldTimerExpired, bgp.NewBGPNotificationMessage(4, 0, nil), nil),
			}
			down := *ev
			down.State, down.OldState, down.StateReason = bgp.BGP_FSM_IDLE, bgp.BGP_FSM_ESTABLISHED, reasons[r.intn(len(reasons))]
			evs = append(evs, &down)
			msgs = append(msgs, bmpPeerDown(&down, bmp.BMP_PEER_TYPE_GLOBAL, false, 0))
			msgs = append(msgs, bmpPeerRouteMirroring(bmp.BMP_PEER_TYPE_GLOBAL, 0, &table.PeerInfo{Address: src.addr, AS: src.as, ID: src.id}, ev.Timestamp.Unix(), bgp.NewBGPKeepAliveMessage()))
			evs = append(evs, ev)
			msgs = append(msgs, bmpPeerStats(bmp.BMP_PEER_TYPE_GLOBAL, 0, ev.Timestamp.Unix(), &api.Peer{
				State:    &api.PeerState{NeighborAddress: src.addr.String(), PeerAsn: src.as, RouterId: src.id.String(), Messages: &api.Messages{Received: &api.Message{WithdrawUpdate: 3, WithdrawPrefix: 4}}},
				AfiSafis: []*api.AfiSafi{{State: &api.AfiSafiState{Received: 7, Accepted: 5}}}}))
			evs = append(evs, ev)
		}
		msgs = append(msgs, bmpLocRIBPeerUp(65001, netip.MustParseAddr("1.1.1.1"), "global", 0, 1700000000))
		msgs = append(msgs, bmpLocRIBPeerDown(65001, netip.MustParseAddr("1.1.1.1"), "global", 0, 1700000001))

		var stream []byte
		for _, m := range msgs {
			m.Header.Length = 0
			b, err := m.Serialize()
			if err != nil {
				o.fail("bmp-emit-unserialisable", err.Error())
				return
			}
			stream = append(stream, b...)
		}
		toks, err := c19Scan(stream, bmp.SplitBMP)
		if err != nil || len(toks) != len(msgs) {
			o.fail("bmp-emit-misframed", map[string]any{"messages": len(msgs), "tokens": len(toks), "err": fmt.Sprint(err)})
			return
		}
		addPathBoth := func(ph bmp.BMPPeerHeader) []*bgp.MarshallingOption {
			if ph.PeerType == bmp.BMP_PEER_TYPE_LOCAL_RIB {
				m := map[bgp.Family]bgp.BGPAddPathMode{}
				for _, f := range c19Families {
					m[f.fam] = bgp.BGP_ADD_PATH_BOTH
				}
				return []*bgp.MarshallingOption{{AddPath: m}}
			}
			return nil
		}
		for i, tk := range toks {
			m, err := bmp.ParseBMPMessageWithOptions(tk, addPathBoth)
			if err != nil {
				o.fail("bmp-emit-unparseable", map[string]any{"message": c19SrvHex(tk), "err": err.Error()})
				continue
			}
			if t := m.Header.Type; t == bmp.BMP_MSG_ROUTE_MONITORING || t == bmp.BMP_MSG_PEER_UP_NOTIFICATION || t == bmp.BMP_MSG_PEER_DOWN_NOTIFICATION {
				o.ask(c19Msg2Str(m, addPathBoth(m.PeerHeader)), "bmp.msg2 %s", c19SrvHex(tk))
			}
			if b2, err := m.Serialize(); err != nil || !bytes.Equal(b2, tk) {
				// Loc-RIB route monitoring needs the ADD-PATH option to re-serialise; compare those below by content
				if !(m.Header.Type == bmp.BMP_MSG_ROUTE_MONITORING && m.PeerHeader.PeerType == bmp.BMP_PEER_TYPE_LOCAL_RIB) {
					o.fail("bmp-emit-roundtrip", map[string]any{"message": c19SrvHex(tk), "again": c19SrvHex(b2)})
				}
			}
			if i >= nRoutes {
				k := i - nRoutes
				if k < len(evs) { // peer header of the per-neighbour messages
					ev := evs[k]
					ph := m.PeerHeader
					if ph.PeerAddress != ev.PeerAddress || ph.PeerAS != ev.PeerAS || ph.PeerBGPID != ev.PeerID || int64(ph.Timestamp) != ev.Timestamp.Unix() {
						o.fail("bmp-emit-peer-header-differs", map[string]any{"message": c19SrvHex(tk), "peer": ev.PeerAddress.String(), "parsed": fmt.Sprintf("%s %d %s %v", ph.PeerAddress, ph.PeerAS, ph.PeerBGPID, ph.Timestamp)})
					}
					if up, ok := m.Body.(*bmp.BMPPeerUpNotification); ok {
						if up.LocalAddress != ev.LocalAddress || up.LocalPort != ev.LocalPort || up.RemotePort != ev.PeerPort {
							o.fail("bmp-emit-peer-up-differs", map[string]any{"message": c19SrvHex(tk), "parsed": fmt.Sprintf("%s %d %d", up.LocalAddress, up.LocalPort, up.RemotePort)})
						}
					}
				}
				continue
			}
			e := exps[i]
			rm, ok := m.Body.(*bmp.BMPRouteMonitoring)
			if !ok || rm.BGPUpdate == nil {
				o.fail("bmp-route-unexpected-body", c19SrvHex(tk))
				continue
			}
			upd := rm.BGPUpdate.Body.(*bgp.BGPUpdate)
			var pfx []string
			var pids []uint32
			for _, n := range upd.NLRI {
				pfx, pids = append(pfx, n.NLRI.String()), append(pids, n.ID)
			}
			for _, a := range upd.PathAttributes {
				if mp, ok := a.(*bgp.PathAttributeMpReachNLRI); ok {
					for _, n := range mp.Value {
						pfx, pids = append(pfx, n.NLRI.String()), append(pids, n.ID)
					}
				}
			}
			ph := m.PeerHeader
			wantPeer, wantAS, wantID := e.w.peer, e.w.as, e.w.id
			if e.locRib {
				wantPeer, wantAS, wantID = netip.Addr{}, 65001, netip.MustParseAddr("1.1.1.1")
			}
			detail := map[string]any{"rib_path": e.w.key(true), "message": c19SrvHex(tk), "loc_rib": e.locRib}
			if len(pfx) != 1 || pfx[0] != e.w.prefix {
				detail["parsed_prefixes"] = pfx
				o.fail("bmp-route-prefix-differs", detail)
			} else if got := c19Attrs(upd.PathAttributes); got != e.w.attrs {
				detail["parsed_attrs"] = got
				o.fail("bmp-route-attrs-differ", detail)
			}
			if ph.PeerAddress != wantPeer.WithZone("") || ph.PeerAS != wantAS || ph.PeerBGPID != wantID || int64(ph.Timestamp) != e.w.path.GetTimestamp().Unix() {
				detail["parsed_peer"] = fmt.Sprintf("%s %d %s %v", ph.PeerAddress, ph.PeerAS, ph.PeerBGPID, ph.Timestamp)
				o.fail("bmp-route-peer-differs", detail)
			}
		}
		o.stat("bmp_messages", len(msgs))
	}()
	_ = ledger
}
