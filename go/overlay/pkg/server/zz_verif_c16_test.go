//go:build verif

package server

// C16 correspondence harness, part 2 (package server): the real roaManager / roaClient driven
// over loopback TCP by a simulated RTR cache.  AddServer dials the harness' listener
// (tryConnect), established() frames the PDUs the harness writes (built by the real rtr
// constructors) and posts them on the manager's event channel; the harness takes every event
// off that channel and hands it to HandleROAEvent, exactly as BgpServer.Serve does, in an order
// it chooses.  Lifetime timers are armed by the code (3600 s) and expire when the harness says
// so: Stop() on the real timer tells whether the code had left it running, Reset(1ns) then runs
// the code's own callback, which posts the genuine roaLifetimeout event.  The harness may hold
// that event back and hand it over later (the Serve loop was busy), e.g. after the End of Data
// of a new synchronisation — the order a real race between timer and loop produces.
//
// After every step the table and the per-client session state are compared with the Lean
// model (Roa.step).  The oracle is the cache simulator itself: whenever a cache has completed
// a response, the records the table holds for it must be exactly the cache's database at the
// serial it reported; API purges must purge; a lifetime expiry may only purge a cache that has
// not synchronised since the disconnect that armed it.

import (
	"fmt"
	"io"
	"log/slog"
	"math/big"
	"net"
	"net/netip"
	"reflect"
	"sort"
	"strings"
	"testing"
	"time"

	"github.com/osrg/gobgp/v4/internal/pkg/table"
	"github.com/osrg/gobgp/v4/pkg/packet/bgp"
	"github.com/osrg/gobgp/v4/pkg/packet/rtr"
)

type c16Rec struct {
	p      netip.Prefix
	maxLen uint8
	as     uint32
}

func (r c16Rec) fam() int {
	if r.p.Addr().Is4() {
		return 4
	}
	return 6
}

func c16Bits(ip []byte, ones int) string {
	v := new(big.Int).SetBytes(ip)
	v.Rsh(v, uint(len(ip)*8-ones))
	return v.String()
}

func (r c16Rec) key() string { return fmt.Sprintf("%s:%d,%d", r.p, r.maxLen, r.as) }

type c16Phase int

const (
	c16Absent      c16Phase = iota // not configured
	c16ConnPending                 // a roaConnected event is waiting to be handled
	c16Open                        // established() is reading from the connection
	c16DiscPending                 // a roaDisconnected event is waiting to be handled
)

type c16Timer struct {
	t        *time.Timer
	ord      int // the ord-th lifetime timer armed by this manager (1, 2, …)
	syncedAt int // value of host.syncs when armed
	incarn   int // value of host.incarn when armed
}

// a lifetime-timeout event the real timer callback has posted and the harness has taken off
// the channel but not yet handed to HandleROAEvent (BgpServer.Serve busy with other events)
type c16Held struct {
	ev *roaEvent
	c16Timer
}

type c16Host struct {
	idx      int
	ln       net.Listener
	host     string // "127.0.0.x:port" = roaClient.host = ROA.Src
	addr     string
	accepted chan net.Conn
	srv      net.Conn
	phase    c16Phase
	stash    []*roaEvent
	timers   []c16Timer
	held     []c16Held
	repBad   bool // a reported-figure divergence has been reported for this case
	syncs    int // completed responses (End of Data handled) so far
	incarn   int // AddServer calls so far

	// the simulated cache
	session uint16
	serial  uint32
	db      map[string]c16Rec
	deltas  map[uint32][]c16Delta // deltas[s] leads from serial s-1 to s
	queries []string              // outstanding queries read from the socket: "rq" | "sq:sid:sn"

	// oracle: what the table must hold for this cache (nil = no expectation right now)
	expect map[string]c16Rec
	why    string
}

type c16Delta struct {
	announce bool
	rec      c16Rec
}

type c16Srv struct {
	t     *testing.T
	o     *vOut
	r     *vRand
	hosts []*c16Host
	m     *roaManager
	trace []string
	seen  map[*time.Timer]int // every lifetime timer the code has armed -> its ordinal
	// reserved: fill the reserved / must-be-ignored fields of the PDUs with non-zero values
	// (Flags bits 1-7 and the zero octets of Prefix PDUs, the zero field of Cache Reset, the
	// protocol version of every PDU); the meaning of a PDU is what its DEFINED bits say
	reserved bool
	dressed  bool // the PDU just sent was dressed
}

func c16NewHosts(t *testing.T, n int) []*c16Host {
	hs := make([]*c16Host, n)
	for i := range hs {
		addr := fmt.Sprintf("127.0.0.%d", i+1)
		ln, err := net.Listen("tcp", addr+":0")
		if err != nil {
			t.Fatalf("listen %s: %v", addr, err)
		}
		h := &c16Host{idx: i, ln: ln, host: ln.Addr().String(), addr: addr, accepted: make(chan net.Conn, 64)}
		go func() {
			for {
				c, err := ln.Accept()
				if err != nil {
					return
				}
				h.accepted <- c
			}
		}()
		hs[i] = h
	}
	return hs
}

func (s *c16Srv) hostOf(src string) *c16Host {
	for _, h := range s.hosts {
		if h.host == src {
			return h
		}
	}
	return nil
}

// recv returns the next event of host h, stashing events of other hosts met on the way.
func (s *c16Srv) recv(h *c16Host) *roaEvent {
	if len(h.stash) > 0 {
		ev := h.stash[0]
		h.stash = h.stash[1:]
		return ev
	}
	for {
		select {
		case ev := <-s.m.eventCh:
			if ev.Src == h.host {
				return ev
			}
			if o := s.hostOf(ev.Src); o != nil {
				o.stash = append(o.stash, ev)
			}
		case <-time.After(20 * time.Second):
			s.t.Fatalf("no event from %s within 20 s; trace: %v", h.host, s.trace)
		}
	}
}

// recvFresh takes the next event of h off the channel, ignoring h's stash
func (s *c16Srv) recvFresh(h *c16Host) *roaEvent {
	for {
		select {
		case ev := <-s.m.eventCh:
			if ev.Src == h.host {
				return ev
			}
			if o := s.hostOf(ev.Src); o != nil {
				o.stash = append(o.stash, ev)
			}
		case <-time.After(20 * time.Second):
			s.t.Fatalf("no fresh event from %s within 20 s; trace: %v", h.host, s.trace)
		}
	}
}

// await moves the next event of h from the channel into h's stash (so that it has happened)
func (s *c16Srv) await(h *c16Host) {
	ev := s.recv(h)
	h.stash = append([]*roaEvent{ev}, h.stash...)
}

func (s *c16Srv) accept(h *c16Host) {
	select {
	case c := <-h.accepted:
		h.srv = c
	case <-time.After(20 * time.Second):
		s.t.Fatalf("client %s did not dial; trace: %v", h.host, s.trace)
	}
}

func (s *c16Srv) client(h *c16Host) *roaClient { return s.m.clientMap[h.host] }

// ---- observation ----------------------------------------------------------------------------

func (s *c16Srv) showROA(r *table.ROA) string {
	fam := 4
	if r.Family == bgp.AFI_IP6 {
		fam = 6
	}
	ones, _ := r.Network.Mask.Size()
	src := -1
	if h := s.hostOf(r.Src); h != nil {
		src = h.idx
	}
	return fmt.Sprintf("%d/%d/%s:%d,%d,%d", fam, ones, c16Bits(r.Network.IP, ones), r.MaxLen, r.AS, src)
}

func c16B(b bool) int {
	if b {
		return 1
	}
	return 0
}

func (s *c16Srv) dump() string {
	l, _ := s.m.table.List(0)
	// sort.Slice is not stable beyond 12 entries: runs of equal (network, max length, AS) are ordered by source
	for a := 0; a < len(l); {
		b := a + 1
		for b < len(l) && l[b].Network.String() == l[a].Network.String() && l[b].MaxLen == l[a].MaxLen && l[b].AS == l[a].AS {
			b++
		}
		run := l[a:b]
		sort.SliceStable(run, func(x, y int) bool { return s.hostOf(run[x].Src).idx < s.hostOf(run[y].Src).idx })
		a = b
	}
	parts := make([]string, 0, len(l)+8)
	parts = append(parts, "T")
	for _, r := range l {
		parts = append(parts, s.showROA(r))
	}
	parts = append(parts, "|", "C")
	for _, h := range s.hosts {
		c := s.client(h)
		if c == nil {
			continue
		}
		conn := "none"
		if c.conn != nil {
			if _, err := c.conn.Write(nil); err != nil {
				conn = "closed"
			} else {
				conn = "open"
			}
		}
		qs := "q"
		if f := reflect.ValueOf(c).Elem().FieldByName("queries"); f.IsValid() {
			for i := 0; i < f.Len(); i++ {
				if uint8(f.Index(i).Uint()) == rtr.RTR_RESET_QUERY {
					qs += "r"
				} else {
					qs += "s"
				}
			}
		}
		parts = append(parts, fmt.Sprintf("%d:%d,%d,%d,%d,%d,%s,%d,%s", h.idx, c.sessionID, c.oldSessionID, c.serialNumber,
			c16B(c.endOfData), len(c.pendingROAs), conn, s.seen[c.timer], qs))
	}
	parts = append(parts, "|", "R")
	rep := s.reported()
	for _, h := range s.hosts {
		if r, ok := rep[h.idx]; ok {
			parts = append(parts, fmt.Sprintf("%d:%d,%d,%d,%d,%d,%d", h.idx, c16B(r.up), r.serial, r.n[0], r.n[1], r.n[2], r.n[3]))
		}
	}
	return strings.Join(parts, " ")
}

type c16Reported struct {
	up     bool
	serial uint32
	n      [4]uint32 // records v4, v6, prefixes v4, v6
}

// reported = what GetServers (ListRpki) says per configured cache
func (s *c16Srv) reported() map[int]c16Reported {
	out := map[int]c16Reported{}
	for _, r := range s.m.GetServers() {
		h := s.hostOf(net.JoinHostPort(r.Config.Address.String(), fmt.Sprint(r.Config.Port)))
		if h == nil {
			s.o.fail("reported-unknown-server", map[string]any{"trace": append([]string{}, s.trace...), "address": r.Config.Address.String(), "port": r.Config.Port})
			continue
		}
		if _, dup := out[h.idx]; dup {
			s.o.fail("reported-server-twice", map[string]any{"trace": append([]string{}, s.trace...), "cache": h.idx})
		}
		out[h.idx] = c16Reported{r.State.Up, r.State.SerialNumber,
			[4]uint32{r.State.RecordsV4, r.State.RecordsV6, r.State.PrefixesV4, r.State.PrefixesV6}}
	}
	return out
}

func c16Recount(recs map[string]c16Rec) [4]uint32 {
	var n [4]uint32
	pf := [2]map[string]bool{{}, {}}
	for _, r := range recs {
		f := 0
		if r.p.Addr().Is6() {
			f = 1
		}
		n[f]++
		pf[f][r.p.String()] = true
	}
	n[2], n[3] = uint32(len(pf[0])), uint32(len(pf[1]))
	return n
}

// view = the records the table holds for h
func (s *c16Srv) view(h *c16Host) map[string]c16Rec {
	l, _ := s.m.table.List(0)
	v := map[string]c16Rec{}
	for _, r := range l {
		if r.Src != h.host {
			continue
		}
		ones, _ := r.Network.Mask.Size()
		a, _ := netip.AddrFromSlice(r.Network.IP)
		rec := c16Rec{netip.PrefixFrom(a, ones), r.MaxLen, r.AS}
		v[rec.key()] = rec
	}
	return v
}

func c16Keys(m map[string]c16Rec) []string {
	k := make([]string, 0, len(m))
	for x := range m {
		k = append(k, x)
	}
	sort.Strings(k)
	return k
}

func c16Copy(m map[string]c16Rec) map[string]c16Rec {
	c := make(map[string]c16Rec, len(m))
	for k, v := range m {
		c[k] = v
	}
	return c
}

// check: the oracle proper
func (s *c16Srv) check() {
	l, _ := s.m.table.List(0)
	seen := map[string]bool{}
	for _, r := range l {
		h := s.hostOf(r.Src)
		if h == nil || s.client(h) == nil {
			s.o.fail("record-of-unconfigured-cache", map[string]any{"trace": append([]string{}, s.trace...), "record": s.showROA(r)})
			return
		}
		k := s.showROA(r)
		if seen[k] {
			s.o.fail("duplicate-record", map[string]any{"trace": append([]string{}, s.trace...), "record": k})
			return
		}
		seen[k] = true
	}
	// every reported figure is a recount of the table's set per source …
	rep := s.reported()
	for _, h := range s.hosts {
		r, ok := rep[h.idx]
		if ok != (s.client(h) != nil) {
			s.o.fail("reported-servers-differ-from-configured", map[string]any{"trace": append([]string{}, s.trace...), "cache": h.idx})
			continue
		}
		if !ok {
			continue
		}
		if want := c16Recount(s.view(h)); r.n != want && !h.repBad {
			h.repBad = true
			s.o.fail("reported-counters-differ-from-table", map[string]any{"trace": append([]string{}, s.trace...), "cache": h.idx,
				"reported_records_v4_v6_prefixes_v4_v6": r.n, "recount_of_the_listed_records": want, "listed": c16Keys(s.view(h))})
		}
		if h.expect != nil {
			if want := c16Recount(h.expect); r.n != want && !h.repBad {
				h.repBad = true
				s.o.fail("reported-counters-differ-from-announced-set", map[string]any{"trace": append([]string{}, s.trace...), "cache": h.idx,
					"reported_records_v4_v6_prefixes_v4_v6": r.n, "recount_of_announced_and_not_withdrawn": want})
			}
			if r.n[2]+r.n[3] > 0 {
				s.o.stat("reported_counters_checked_against_announced_set", 1)
			}
		}
		if c := s.client(h); r.serial != c.serialNumber || r.up != (c.conn != nil) {
			s.o.fail("reported-session-state", map[string]any{"trace": append([]string{}, s.trace...), "cache": h.idx})
		}
	}
	// … and so is the ListRpkiTable listing: the API conversion of the list, entry for entry
	api := newRoaListFromTableStructList(l)
	if len(api) != len(l) {
		s.o.fail("listing-differs-from-table", map[string]any{"trace": append([]string{}, s.trace...), "listed": len(api), "table": len(l)})
	} else {
		for i, a := range api {
			ones, _ := l[i].Network.Mask.Size()
			if a.Asn != l[i].AS || a.Maxlen != uint32(l[i].MaxLen) || a.Prefixlen != uint32(ones) || a.Prefix != l[i].Network.IP.String() ||
				net.JoinHostPort(a.Conf.Address, fmt.Sprint(a.Conf.RemotePort)) != l[i].Src {
				s.o.fail("listing-differs-from-table", map[string]any{"trace": append([]string{}, s.trace...), "entry": i, "listed": fmt.Sprint(a), "record": s.showROA(l[i])})
				break
			}
		}
	}
	for _, h := range s.hosts {
		if h.expect == nil {
			continue
		}
		got, want := c16Keys(s.view(h)), c16Keys(h.expect)
		if strings.Join(got, " ") != strings.Join(want, " ") {
			s.o.fail(h.why, map[string]any{"trace": append([]string{}, s.trace...), "cache": h.idx,
				"table_holds": got, "announced_and_not_withdrawn": want})
			h.expect = nil // report each divergence once
		}
	}
}

// every step: model answer for the step itself, then the dump, then the oracle
func (s *c16Srv) stepDone(answer string, format string, a ...any) {
	line := fmt.Sprintf(format, a...)
	s.trace = append(s.trace, line)
	s.o.ask(answer, "%s", line)
	s.o.ask(s.dump(), "mdump")
	s.check()
}

// ---- steps ----------------------------------------------------------------------------------

func (s *c16Srv) sentSince(h *c16Host, sq0, rq0 int64) string {
	c := s.client(h)
	if c == nil {
		return ""
	}
	out := ""
	nsq := c.state.RpkiMessages.RpkiSent.SerialQuery - sq0
	nrq := c.state.RpkiMessages.RpkiSent.ResetQuery - rq0
	for i := int64(0); i < nsq+nrq; i++ {
		out += " " + s.readQuery(h)
	}
	return out
}

func (s *c16Srv) readQuery(h *c16Host) string {
	h.srv.SetReadDeadline(time.Now().Add(20 * time.Second))
	hdr := make([]byte, 8)
	if _, err := io.ReadFull(h.srv, hdr); err != nil {
		s.t.Fatalf("reading query from %s: %v; trace %v", h.host, err, s.trace)
	}
	n := int(hdr[4])<<24 | int(hdr[5])<<16 | int(hdr[6])<<8 | int(hdr[7])
	body := make([]byte, n-8)
	if _, err := io.ReadFull(h.srv, body); err != nil {
		s.t.Fatalf("reading query body: %v", err)
	}
	msg, err := rtr.ParseRTR(append(hdr, body...))
	if err != nil {
		return "unparsable"
	}
	var q string
	switch m := msg.(type) {
	case *rtr.RTRResetQuery:
		q = "rq"
	case *rtr.RTRSerialQuery:
		q = fmt.Sprintf("sq:%d:%d", m.SessionID, m.SerialNumber)
	default:
		q = fmt.Sprintf("unexpected-%T", msg)
	}
	h.queries = append(h.queries, q)
	return q
}

func (s *c16Srv) counters(h *c16Host) (int64, int64) {
	if c := s.client(h); c != nil {
		return c.state.RpkiMessages.RpkiSent.SerialQuery, c.state.RpkiMessages.RpkiSent.ResetQuery
	}
	return 0, 0
}

func c16OK(err error) string {
	if err != nil {
		return "err"
	}
	return "ok"
}

func (s *c16Srv) addServer(h *c16Host) { s.addServerLifetime(h, 3600) }

func (s *c16Srv) addServerLifetime(h *c16Host, lifetime int64) {
	err := s.m.AddServer(h.host, lifetime)
	if err == nil {
		s.accept(h)
		s.await(h)
		h.phase = c16ConnPending
		h.incarn++
		h.expect, h.why = map[string]c16Rec{}, "new-server-not-empty"
		h.queries = nil
	}
	s.stepDone(c16OK(err), "madd %d", h.idx)
}

// flush delivers the events the deleted client's goroutines still post (all must be ignored)
func (s *c16Srv) flush(h *c16Host) {
	switch h.phase {
	case c16ConnPending:
		s.m.HandleROAEvent(s.recv(h))
		s.stepDone("ok", "mconn %d", h.idx)
	case c16Open:
		s.await(h)
		s.m.HandleROAEvent(s.recv(h))
		s.stepDone("ok", "mdisc %d", h.idx)
	case c16DiscPending:
		s.m.HandleROAEvent(s.recv(h))
		s.stepDone("ok", "mdisc %d", h.idx)
	}
	if h.srv != nil {
		h.srv.Close()
		h.srv = nil
	}
	h.phase = c16Absent
}

func (s *c16Srv) deleteServer(h *c16Host) {
	err := s.m.DeleteServer(h.host)
	if err == nil {
		h.expect, h.why = map[string]c16Rec{}, "delete-server-no-purge"
	}
	s.stepDone(c16OK(err), "mdel %d", h.idx)
	if err == nil {
		s.flush(h)
		h.expect = nil
		h.queries = nil
		s.verdicts(1)
	}
}

func (s *c16Srv) connected(h *c16Host) {
	ev := s.recv(h)
	if ev.EventType != roaConnected {
		s.t.Fatalf("expected roaConnected, got %d; trace %v", ev.EventType, s.trace)
	}
	s.m.HandleROAEvent(ev)
	h.queries = nil
	q := s.readQuery(h) // the Reset Query established() starts with
	// barrier: established() posts this PDU only after its softReset() has returned
	h.phase = c16Open
	b, _ := rtr.NewRTRResetQuery().Serialize()
	h.srv.Write(b)
	bev := s.recv(h)
	s.stepDone("ok "+q, "mconn %d", h.idx)
	s.m.HandleROAEvent(bev)
	s.stepDone("ok", "mpdu %d other", h.idx)
}

// closeConn: the cache closes the connection; established() closes its end and posts roaDisconnected
func (s *c16Srv) closeConn(h *c16Host) {
	h.srv.Close()
	s.await(h)
	h.phase = c16DiscPending
	s.stepDone("ok", "mclose %d", h.idx)
}

func (s *c16Srv) disconnected(h *c16Host) {
	ev := s.recv(h)
	if ev.EventType != roaDisconnected {
		s.t.Fatalf("expected roaDisconnected, got %d; trace %v", ev.EventType, s.trace)
	}
	s.m.HandleROAEvent(ev)
	if h.srv != nil {
		h.srv.Close()
	}
	h.srv = nil
	h.queries = nil
	if c := s.client(h); c != nil && c.timer != nil && s.seen[c.timer] == 0 {
		s.seen[c.timer] = len(s.seen) + 1
		h.timers = append(h.timers, c16Timer{c.timer, s.seen[c.timer], h.syncs, h.incarn})
	}
	if h.expect == nil {
		// the response in progress is lost; what the table holds is retained as it is
		h.why = "changed-while-disconnected"
		h.expect = s.view(h)
	}
	// the handler re-dials at once
	s.accept(h)
	s.await(h)
	h.phase = c16ConnPending
	s.stepDone("ok", "mdisc %d", h.idx)
}

// expire: the oldest lifetime timer of h that the code has left running expires NOW. The real
// timer is made to fire (Stop reports whether the code had left it running, Reset(1ns) runs the
// code's own callback), the event the callback posts is taken off the channel and held.
func (s *c16Srv) expire(h *c16Host) bool {
	for len(h.timers) > 0 {
		t := h.timers[0]
		h.timers = h.timers[1:]
		if !t.t.Stop() {
			continue // the code had stopped it
		}
		t.t.Reset(time.Nanosecond)
		s.hold(h, t)
		return true
	}
	return false
}

// expireWait: the oldest timer of h expires by itself (tiny configured lifetime)
func (s *c16Srv) expireWait(h *c16Host) {
	t := h.timers[0]
	h.timers = h.timers[1:]
	s.hold(h, t)
}

func (s *c16Srv) hold(h *c16Host, t c16Timer) {
	ev := s.recvFresh(h)
	if ev.EventType != roaLifetimeout {
		s.t.Fatalf("expected roaLifetimeout, got %d; trace %v", ev.EventType, s.trace)
	}
	h.held = append(h.held, c16Held{ev, t})
	s.trace = append(s.trace, fmt.Sprintf("(lifetime timer %d of cache %d expires; its event waits in the channel)", t.ord, h.idx))
}

// deliver: the oldest held timeout event of h reaches HandleROAEvent
func (s *c16Srv) deliver(h *c16Host) bool {
	if len(h.held) == 0 {
		return false
	}
	t := h.held[0]
	h.held = h.held[1:]
	if s.client(h) != nil {
		if h.syncs > t.syncedAt || h.incarn != t.incarn {
			// the cache has synchronised (or the server was re-added) since this timer was armed:
			// its lifetime did not expire without a re-sync, nothing may be purged
			if h.expect != nil {
				h.why = "late-lifetime-event-purges-synchronised-cache"
			}
			s.o.stat("timeout_event_stale", 1)
		} else {
			h.expect, h.why = map[string]c16Rec{}, "lifetime-expiry-no-purge"
			s.o.stat("timeout_event_legitimate", 1)
		}
	}
	s.m.HandleROAEvent(t.ev)
	s.stepDone("ok", "mfire %d %d", h.idx, t.ord)
	s.verdicts(1)
	return true
}

// fire: expiry and handling back to back
func (s *c16Srv) fire(h *c16Host) bool {
	if len(h.held) == 0 && !s.expire(h) {
		return false
	}
	return s.deliver(h)
}

func (s *c16Srv) apiCloseFollowUp(h *c16Host, wasOpen bool) {
	if wasOpen {
		s.await(h) // established() notices the closed connection
		h.phase = c16DiscPending
	}
}

func (s *c16Srv) disable(h *c16Host, viaReset bool) {
	sq0, rq0 := s.counters(h)
	wasOpen := h.phase == c16Open
	var err error
	if viaReset {
		err = s.m.Reset(h.addr)
	} else {
		err = s.m.Disable(h.addr)
	}
	if err == nil {
		s.apiCloseFollowUp(h, wasOpen)
		h.expect, h.why = map[string]c16Rec{}, "disable-no-purge"
	}
	s.stepDone(c16OK(err)+s.sentSince(h, sq0, rq0), "mdisable %d", h.idx)
	s.verdicts(1)
}

func (s *c16Srv) softReset(h *c16Host) {
	sq0, rq0 := s.counters(h)
	err := s.m.SoftReset(h.addr)
	if s.client(h) != nil {
		h.expect, h.why = map[string]c16Rec{}, "soft-reset-no-purge"
	}
	s.stepDone(c16OK(err)+s.sentSince(h, sq0, rq0), "msoft %d", h.idx)
}

func (s *c16Srv) enable(h *c16Host) {
	sq0, rq0 := s.counters(h)
	err := s.m.Enable(h.addr)
	s.stepDone(c16OK(err)+s.sentSince(h, sq0, rq0), "menable %d", h.idx)
}

// pdu writes one PDU to the connection and handles the roaRTR event it becomes
func (s *c16Srv) dress(raw []byte) []byte {
	s.dressed = false
	if !s.reserved || !s.r.chance(40) || len(raw) < 8 {
		return raw
	}
	b := append([]byte{}, raw...)
	switch b[1] {
	case rtr.RTR_IPV4_PREFIX, rtr.RTR_IPV6_PREFIX:
		b[8] |= byte(s.r.pick(0x80, 0x02, 0x7e, 0xfe, 0x40)) // bit 0 alone says announce / withdraw
		if s.r.chance(50) {
			b[2], b[3], b[11] = 0xde, 0xad, 0xff // "zero" octets
		}
		s.o.stat("reserved_prefix_flags_and_zero_octets", 1)
	case rtr.RTR_CACHE_RESET:
		b[2], b[3] = 0xff, 0xff
		s.o.stat("reserved_cache_reset_zero_field", 1)
	default:
		if !s.r.chance(50) {
			return raw
		}
	}
	if s.r.chance(60) {
		b[0] = byte(s.r.pick(1, 2, 255)) // protocol version: not looked at by this client
		s.o.stat("reserved_protocol_version", 1)
	}
	s.dressed = true
	return b
}

func (s *c16Srv) pdu(h *c16Host, raw []byte, desc string) {
	sq0, rq0 := s.counters(h)
	raw = s.dress(raw)
	if _, err := h.srv.Write(raw); err != nil {
		s.t.Fatalf("write to %s: %v", h.host, err)
	}
	ev := s.recv(h)
	if ev.EventType != roaRTR {
		s.t.Fatalf("expected roaRTR, got %d; trace %v", ev.EventType, s.trace)
	}
	s.m.HandleROAEvent(ev)
	s.stepDone("ok"+s.sentSince(h, sq0, rq0), "mpdu %d %s", h.idx, desc)
}

func c16Ser(m rtr.RTRMessage) []byte {
	b, _ := m.Serialize()
	return b
}

func (s *c16Srv) pduNotify(h *c16Host, sid uint16, sn uint32) {
	s.pdu(h, c16Ser(rtr.NewRTRSerialNotify(sid, sn)), fmt.Sprintf("notify %d %d", sid, sn))
}
func (s *c16Srv) pduCacheResponse(h *c16Host, sid uint16) {
	if h.expect != nil {
		h.expect = nil // the table is in flux until End of Data
	}
	s.pdu(h, c16Ser(rtr.NewRTRCacheResponse(sid)), fmt.Sprintf("cresp %d", sid))
}
func (s *c16Srv) pduPrefix(h *c16Host, ann bool, r c16Rec) {
	flags := uint8(rtr.WITHDRAWAL)
	if ann {
		flags = rtr.ANNOUNCEMENT
	}
	ones := r.p.Bits()
	s.pdu(h, c16Ser(rtr.NewRTRIPPrefix(r.p.Addr(), uint8(ones), r.maxLen, r.as, flags)),
		fmt.Sprintf("pfx %d %d %d %s %d %d", c16B(ann), r.fam(), ones, c16Bits(r.p.Addr().AsSlice(), ones), r.maxLen, r.as))
	// oracle: right after the PDU the record is buffered or installed iff bit 0 of Flags said "announce"
	c := s.client(h)
	if c == nil {
		return
	}
	_, present := s.view(h)[r.key()]
	for _, p := range c.pendingROAs {
		po, _ := p.Network.Mask.Size()
		pa, _ := netip.AddrFromSlice(p.Network.IP)
		present = present || (netip.PrefixFrom(pa, po) == r.p && p.MaxLen == r.maxLen && p.AS == r.as)
	}
	if present != ann {
		class := "prefix-pdu-not-applied"
		if s.dressed {
			class = "reserved-flags-change-meaning"
		}
		s.o.fail(class, map[string]any{"trace": append([]string{}, s.trace...), "cache": h.idx, "record": r.key(),
			"flags_bit0_announce": ann, "record_buffered_or_installed": present})
	}
}
func (s *c16Srv) pduEndOfData(h *c16Host, sid uint16, sn uint32, expect map[string]c16Rec, why string) {
	h.syncs++
	h.expect, h.why = expect, why
	s.pdu(h, c16Ser(rtr.NewRTREndOfData(sid, sn)), fmt.Sprintf("eod %d %d", sid, sn))
	s.verdicts(2)
}
func (s *c16Srv) pduCacheReset(h *c16Host) {
	s.pdu(h, c16Ser(rtr.NewRTRCacheReset()), "creset")
}
// pduError: the cache answers the oldest outstanding query with an Error Report (No Data Available)
func (s *c16Srv) pduError(h *c16Host) {
	if len(h.queries) > 0 {
		h.queries = h.queries[1:]
	}
	s.pdu(h, c16Ser(rtr.NewRTRErrorReport(rtr.NO_DATA_AVAILABLE, nil, []byte("no data"))), "err")
}

func (s *c16Srv) pduOther(h *c16Host, k int) {
	var raw []byte
	switch k % 5 {
	case 0:
		raw = c16Ser(rtr.NewRTRResetQuery())
	case 1:
		raw = c16Ser(rtr.NewRTRSerialQuery(7, 7))
	case 2:
		raw = []byte{0, 10, 0, 0, 0, 0, 0, 8} // unknown PDU type
	case 3:
		// IPv4 prefix PDU whose max length is shorter than the prefix: ParseRTR rejects it
		// (the constructor refuses such values since the C19 fix, so patch the octets of a valid PDU)
		raw = c16Ser(rtr.NewRTRIPPrefix(netip.MustParseAddr("10.0.0.0"), 24, 24, 100, rtr.ANNOUNCEMENT))
		raw[10] = 16 // max length
	default:
		raw = c16Ser(rtr.NewRTRIPPrefix(netip.MustParseAddr("10.0.0.0"), 8, 8, 100, rtr.ANNOUNCEMENT))
		raw[10] = 33 // max length beyond the address width
	}
	s.pdu(h, raw, "other")
}

// ---- the simulated cache ---------------------------------------------------------------------

var c16Pool = func() []c16Rec {
	var l []c16Rec
	// same address with different lengths (10.0.0.0/8,/16,/24; 0.0.0.0/0,/8; 2001:db8::/32,/48; ::/0,/16)
	// and max-lengths shared across them, so that records differing in exactly one component exist
	for _, p := range []string{"10.0.0.0/8", "10.0.0.0/16", "10.0.0.0/24", "10.1.0.0/16", "10.1.1.0/24", "192.168.0.0/24",
		"0.0.0.0/0", "0.0.0.0/8", "10.1.1.128/25", "2001:db8::/32", "2001:db8::/48", "2001:db8:1::/48", "::/0", "::/16",
		"2001:db8::1/128", "255.255.255.255/32"} {
		pf := netip.MustParsePrefix(p)
		mls := []int{pf.Bits(), pf.Bits() + 4, pf.Addr().BitLen(), 24}
		if pf.Addr().Is6() {
			mls[3] = 48
		}
		seenML := map[int]bool{}
		for _, ml := range mls {
			if ml > pf.Addr().BitLen() || ml < pf.Bits() || seenML[ml] {
				continue
			}
			seenML[ml] = true
			for _, as := range []uint32{0, 100, 65000, 4294967295} {
				l = append(l, c16Rec{pf, uint8(ml), as})
			}
		}
	}
	return l
}()

var c16ASes = []uint32{0, 100, 65000, 4294967295}

// nearDup: a record that differs from x in exactly one component of its identity — prefix
// length (same address), max length, or AS.  (Family and source vary through the pool and
// through several caches holding the same record.)
func (s *c16Srv) nearDup(x c16Rec) c16Rec {
	w := x.p.Addr().BitLen()
	for try := 0; try < 8; try++ {
		y := x
		switch s.r.intn(3) {
		case 0: // another length under which the address is still a valid prefix, within max length
			var ls []int
			for l := 0; l <= int(x.maxLen) && l <= w; l++ {
				if l != x.p.Bits() && netip.PrefixFrom(x.p.Addr(), l).Masked().Addr() == x.p.Addr() {
					ls = append(ls, l)
				}
			}
			if len(ls) == 0 {
				continue
			}
			near := ls[0] // prefer the neighbouring lengths the pool also uses
			for _, l := range ls {
				if l%8 == 0 && s.r.chance(60) {
					near = l
				}
			}
			if s.r.chance(30) {
				near = ls[s.r.intn(len(ls))]
			}
			y.p = netip.PrefixFrom(x.p.Addr(), near)
		case 1:
			ml := s.r.pick(x.p.Bits(), x.p.Bits()+4, w, int(x.maxLen)+1, int(x.maxLen)-1)
			if ml < x.p.Bits() || ml > w || ml == int(x.maxLen) {
				continue
			}
			y.maxLen = uint8(ml)
		default:
			y.as = c16ASes[s.r.intn(len(c16ASes))]
			if y.as == x.as {
				continue
			}
		}
		return y
	}
	return c16Pool[s.r.intn(len(c16Pool))]
}

// applySet: "announced and not withdrawn", in order
func c16ApplySet(base map[string]c16Rec, ds []c16Delta) map[string]c16Rec {
	want := c16Copy(base)
	for _, d := range ds {
		if d.announce {
			want[d.rec.key()] = d.rec
		} else {
			delete(want, d.rec.key())
		}
	}
	return want
}

// withNoise interleaves a response with PDUs about near-duplicates of its records: announced and
// withdrawn again, withdrawn without ever having been announced, withdrawn and re-announced.
// None of them may touch any other record.
func (s *c16Srv) withNoise(ds []c16Delta, base map[string]c16Rec, sloppy bool) []c16Delta {
	var pool []c16Rec
	for _, d := range ds {
		pool = append(pool, d.rec)
	}
	for _, k := range c16Keys(base) {
		pool = append(pool, base[k])
	}
	if len(pool) == 0 {
		pool = append(pool, c16Pool[s.r.intn(len(c16Pool))])
	}
	out := make([]c16Delta, 0, len(ds)+8)
	var owed []c16Delta // withdrawals of near-duplicates announced earlier in this response
	emit := func() {
		x := s.nearDup(pool[s.r.intn(len(pool))])
		switch s.r.intn(4) {
		case 0, 1: // announce now, withdraw later in the same response
			out = append(out, c16Delta{true, x})
			owed = append(owed, c16Delta{false, x})
			s.o.stat("noise_neardup_announce_then_withdraw", 1)
		case 2: // withdrawal of a record never announced
			out = append(out, c16Delta{false, x})
			s.o.stat("noise_neardup_withdraw_unknown", 1)
		default: // withdraw and re-announce
			out = append(out, c16Delta{false, x}, c16Delta{true, x})
			owed = append(owed, c16Delta{false, x})
			s.o.stat("noise_neardup_withdraw_reannounce", 1)
		}
	}
	for i := 0; i <= len(ds); i++ {
		if s.r.chance(30) {
			emit()
		}
		if len(owed) > 0 && s.r.chance(50) {
			out = append(out, owed[0])
			owed = owed[1:]
		}
		if i < len(ds) {
			out = append(out, ds[i])
			if sloppy && s.r.chance(15) && ds[i].announce {
				out = append(out, ds[i]) // duplicate announcement
				s.o.stat("sloppy_duplicate_announce", 1)
			}
			if sloppy && s.r.chance(10) {
				out = append(out, c16Delta{false, c16Pool[s.r.intn(len(c16Pool))]})
				s.o.stat("sloppy_withdraw_random", 1)
			}
		}
	}
	return append(out, owed...)
}

func (s *c16Srv) cacheRestart(h *c16Host) {
	old := h.session
	for h.session == old {
		h.session = uint16(s.r.pick(0, 1, 2, 65535, 4711))
	}
	h.serial = uint32(s.r.pick(0, 1, 5, 2147483647, 2147483648, 4294967294, 4294967295))
	h.deltas = map[uint32][]c16Delta{}
}

func (s *c16Srv) cacheMutate(h *c16Host) {
	h.serial++
	var ds []c16Delta
	n := 1 + s.r.intn(3)
	for i := 0; i < n; i++ {
		rec := c16Pool[s.r.intn(len(c16Pool))]
		if len(h.db) > 0 && s.r.chance(40) { // a near-duplicate of a record the cache holds
			k := c16Keys(h.db)
			rec = s.nearDup(h.db[k[s.r.intn(len(k))]])
		}
		if _, ok := h.db[rec.key()]; ok {
			delete(h.db, rec.key())
			ds = append(ds, c16Delta{false, rec})
		} else if len(h.db) > 0 && s.r.chance(35) {
			k := c16Keys(h.db)
			rec = h.db[k[s.r.intn(len(k))]]
			delete(h.db, rec.key())
			ds = append(ds, c16Delta{false, rec})
		} else {
			h.db[rec.key()] = rec
			ds = append(ds, c16Delta{true, rec})
		}
	}
	h.deltas[h.serial] = ds
}

// netDeltas folds per-serial deltas into the net change, as RFC 8210 caches do
func c16NetDeltas(ds []c16Delta) []c16Delta {
	last := map[string]int{}
	first := map[string]bool{} // announce flag of the first delta of the record
	var order []string
	for i, d := range ds {
		k := d.rec.key()
		if _, ok := last[k]; !ok {
			order = append(order, k)
			first[k] = d.announce
		}
		last[k] = i
	}
	var out []c16Delta
	for _, k := range order {
		d := ds[last[k]]
		if d.announce != first[k] {
			continue // added then removed (or removed then re-added): no net change
		}
		out = append(out, d)
	}
	return out
}

// answer serves the oldest outstanding query of h the way a cache does. `cut` > 0 drops the
// connection after that many PDUs of the response.
func (s *c16Srv) answer(h *c16Host, concat bool, sloppy bool, cut int) {
	noise := sloppy || s.r.chance(40)
	q := h.queries[0]
	h.queries = h.queries[1:]
	sent := 0
	cutNow := func() bool {
		sent++
		if cut > 0 && sent >= cut {
			s.o.stat("response_cut_by_disconnect", 1)
			s.closeConn(h)
			return true
		}
		return false
	}
	before := h.expect
	if q == "rq" {
		s.o.stat("response_to_reset_query", 1)
		s.pduCacheResponse(h, h.session)
		if cutNow() {
			return
		}
		keys := c16Keys(h.db)
		var seq []c16Delta
		for _, i := range s.r.perm(len(keys)) {
			seq = append(seq, c16Delta{true, h.db[keys[i]]})
		}
		if noise {
			seq = s.withNoise(seq, nil, sloppy)
		}
		for _, d := range seq {
			s.pduPrefix(h, d.announce, d.rec)
			if cutNow() {
				return
			}
		}
		// a reset reply replaces: the set semantics of its PDUs, starting from nothing
		s.pduEndOfData(h, h.session, h.serial, c16ApplySet(nil, seq), "reset-reply-not-the-announced-set")
		return
	}
	var sid, sn uint32
	fmt.Sscanf(q, "sq:%d:%d", &sid, &sn)
	servable := uint16(sid) == h.session
	if servable && sn != h.serial {
		for x := sn + 1; ; x++ {
			if _, ok := h.deltas[x]; !ok {
				servable = false
				break
			}
			if x == h.serial {
				break
			}
		}
	}
	if !servable && uint16(sid) != h.session && s.r.chance(45) {
		// a restarted cache that answers the Serial Query of the old session with its data under the
		// NEW session id (no Cache Reset): End of Data with another session id drops the old records —
		// also when the old session id was 0, which is a session id like any other
		s.o.stat("response_new_session_without_reset", 1)
		if sid == 0 || h.session == 0 {
			s.o.stat("response_new_session_from_or_to_session_0", 1)
		}
		s.pduCacheResponse(h, h.session)
		var seq []c16Delta
		for _, k := range c16Keys(h.db) {
			seq = append(seq, c16Delta{true, h.db[k]})
		}
		for _, d := range seq {
			s.pduPrefix(h, true, d.rec)
		}
		// (an earlier answer may already have moved the client to the new session: then this one is merged)
		var want map[string]c16Rec
		if c := s.client(h); c != nil && c.sessionID != h.session {
			want = c16ApplySet(nil, seq)
		} else if before != nil {
			want = c16ApplySet(before, seq)
		}
		s.pduEndOfData(h, h.session, h.serial, want, "new-session-id-does-not-purge")
		return
	}
	if !servable {
		s.o.stat("response_cache_reset", 1)
		s.pduCacheReset(h)
		return
	}
	s.o.stat("response_to_serial_query", 1)
	var ds []c16Delta
	if sn != h.serial {
		for x := sn + 1; ; x++ {
			ds = append(ds, h.deltas[x]...)
			if x == h.serial {
				break
			}
		}
	}
	if !concat {
		ds = c16NetDeltas(ds)
	}
	if noise {
		ds = s.withNoise(ds, before, sloppy)
	}
	annThenWd := false
	seenAnn := map[string]bool{}
	for _, d := range ds {
		if d.announce {
			seenAnn[d.rec.key()] = true
		} else if seenAnn[d.rec.key()] {
			annThenWd = true
		}
	}
	s.pduCacheResponse(h, h.session)
	if cutNow() {
		return
	}
	for _, d := range ds {
		s.pduPrefix(h, d.announce, d.rec)
		if cutNow() {
			return
		}
	}
	var want map[string]c16Rec
	why := "incremental-update-wrong"
	if before != nil {
		// the view before the response, with the PDUs applied in order
		want = c16ApplySet(before, ds)
		if annThenWd {
			why = "announce-then-withdraw-in-one-response"
			s.o.stat("response_with_announce_then_withdraw", 1)
		}
	}
	s.pduEndOfData(h, h.session, h.serial, want, why)
}

func (s *c16Srv) newManager() {
	s.m = newROAManager(table.NewROATable(slog.New(slog.DiscardHandler)), slog.New(slog.DiscardHandler))
	s.seen = map[*time.Timer]int{}
	s.o.op("mreset")
	s.trace = s.trace[:0]
	for _, h := range s.hosts {
		h.phase, h.srv, h.stash, h.timers, h.syncs = c16Absent, nil, nil, nil, 0
		h.held, h.incarn, h.repBad = nil, 0, false
		h.expect, h.queries = nil, nil
		h.db = map[string]c16Rec{}
		h.deltas = map[uint32][]c16Delta{}
		h.session = uint16(s.r.pick(0, 1, 4711, 65535))
		h.serial = uint32(s.r.pick(0, 1, 100, 2147483647, 4294967294, 4294967295))
	}
}

func (s *c16Srv) endCase() {
	for _, h := range s.hosts {
		if s.client(h) != nil {
			s.deleteServer(h)
		}
		for _, t := range h.timers {
			t.t.Stop()
		}
		h.timers, h.held = nil, nil
	}
}

// fullSync brings h to "connected and synchronised" (answering whatever the client asks)
func (s *c16Srv) settle(h *c16Host) {
	for i := 0; i < 6; i++ {
		switch h.phase {
		case c16ConnPending:
			s.connected(h)
		case c16DiscPending:
			s.disconnected(h)
		case c16Open:
			if len(h.queries) == 0 {
				return
			}
			s.answer(h, false, false, 0)
		}
	}
}

func (s *c16Srv) populate(h *c16Host, n int) {
	for i := 0; i < n; i++ {
		rec := c16Pool[s.r.intn(len(c16Pool))]
		if len(h.db) > 0 && s.r.chance(40) {
			k := c16Keys(h.db)
			rec = s.nearDup(h.db[k[s.r.intn(len(k))]])
		}
		h.db[rec.key()] = rec
	}
}

func (s *c16Srv) unsolicitedRec(h *c16Host, ann bool, rec c16Rec) {
	if h.expect != nil {
		h.expect = c16ApplySet(h.expect, []c16Delta{{ann, rec}})
		h.why = "prefix-pdu-after-end-of-data-wrong"
	}
	s.pduPrefix(h, ann, rec)
	s.verdicts(1)
}

// unsolicited: a prefix PDU outside any response, after End of Data — applied at once
func (s *c16Srv) unsolicited(h *c16Host) {
	c := s.client(h)
	if c == nil || !c.endOfData || len(h.queries) > 0 {
		return
	}
	var rec c16Rec
	if v := s.view(h); len(v) > 0 && s.r.chance(75) {
		k := c16Keys(v)
		rec = v[k[s.r.intn(len(k))]]
		if s.r.chance(65) {
			rec = s.nearDup(rec)
		}
	} else {
		rec = c16Pool[s.r.intn(len(c16Pool))]
	}
	s.unsolicitedRec(h, s.r.chance(50), rec)
	s.o.stat("step_prefix_after_end_of_data", 1)
}

// ---- verdicts follow the announced set -------------------------------------------------------------

// verdicts validates routes derived from the announced records against the manager's table: the
// answer is compared with the model, with RFC 6811 recomputed over the records the table lists,
// and — when every configured cache has an expectation — over the announced-and-not-withdrawn sets.
func (s *c16Srv) verdicts(n int) {
	var all []c16Rec
	known := true
	for _, h := range s.hosts {
		if s.client(h) == nil {
			continue
		}
		if h.expect == nil {
			known = false
			continue
		}
		for _, k := range c16Keys(h.expect) {
			all = append(all, h.expect[k])
		}
	}
	l, _ := s.m.table.List(0)
	var listed []c16Rec
	for _, r := range l {
		ones, _ := r.Network.Mask.Size()
		a, _ := netip.AddrFromSlice(r.Network.IP)
		listed = append(listed, c16Rec{netip.PrefixFrom(a, ones), r.MaxLen, r.AS})
	}
	cands := listed
	if len(all) > 0 {
		cands = append(append([]c16Rec{}, listed...), all...)
	}
	if len(cands) == 0 {
		cands = c16Pool
	}
	for i := 0; i < n; i++ {
		base := cands[s.r.intn(len(cands))]
		pfx := base.p
		if s.r.chance(50) { // a more specific route
			l := pfx.Bits() + s.r.pick(1, 4, 8)
			if l > pfx.Addr().BitLen() {
				l = pfx.Addr().BitLen()
			}
			pfx = netip.PrefixFrom(pfx.Addr(), l)
		}
		origin := base.as
		if s.r.chance(25) {
			origin = c16ASes[s.r.intn(len(c16ASes))]
		}
		fam, rf := 4, bgp.RF_IPv4_UC
		if pfx.Addr().Is6() {
			fam, rf = 6, bgp.RF_IPv6_UC
		}
		nlri, _ := bgp.NewIPAddrPrefix(pfx)
		attrs := []bgp.PathAttributeInterface{bgp.NewPathAttributeOrigin(0),
			bgp.NewPathAttributeAsPath([]bgp.AsPathParamInterface{bgp.NewAs4PathParam(bgp.BGP_ASPATH_ATTR_TYPE_SEQ, []uint32{64999, origin})})}
		path := table.NewPath(rf, &table.PeerInfo{LocalAS: 65500, AS: 64999}, bgp.PathNLRI{NLRI: nlri}, false, attrs, time.Unix(1, 0), false)
		got := string(s.m.table.Validate(path).Status)
		s.o.ask(got, "mval %d %d %s 65500 1 2 2 64999 %d", fam, pfx.Bits(), c16Bits(pfx.Addr().AsSlice(), pfx.Bits()), origin)
		spec := func(recs []c16Rec) string {
			covering, matching := 0, 0
			for _, r := range recs {
				if r.p.Addr().Is4() != pfx.Addr().Is4() || r.p.Bits() > pfx.Bits() || !r.p.Contains(pfx.Addr()) {
					continue
				}
				covering++
				if r.as != 0 && r.as == origin && pfx.Bits() <= int(r.maxLen) {
					matching++
				}
			}
			switch {
			case matching > 0:
				return "valid"
			case covering > 0:
				return "invalid"
			}
			return "not-found"
		}
		if want := spec(listed); got != want {
			s.o.fail("rfc6811-status-server", map[string]any{"trace": append([]string{}, s.trace...), "route": pfx.String(), "origin": origin, "got": got, "rfc6811": want})
		}
		if known {
			s.o.stat("verdict_checked_against_announced_set", 1)
			if want := spec(all); got != want {
				s.o.fail("verdict-differs-from-announced-set", map[string]any{"trace": append([]string{}, s.trace...), "route": pfx.String(), "origin": origin, "got": got, "announced_set_says": want})
			}
		}
	}
}

// ---- corpus: the candidate defects, replayed deterministically --------------------------------

func (s *c16Srv) corpus() {
	s.reserved = false
	a, b := s.hosts[0], s.hosts[1]
	recA := c16Rec{netip.MustParsePrefix("10.0.0.0/8"), 24, 100}
	recB := c16Rec{netip.MustParsePrefix("10.1.0.0/16"), 16, 200}
	recC := c16Rec{netip.MustParsePrefix("2001:db8::/32"), 48, 65000}

	// 1. Disable / Reset must purge the cache's records (DeleteAll was given the bare address)
	for _, viaReset := range []bool{false, true} {
		s.newManager()
		a.db[recA.key()], a.db[recC.key()] = recA, recC
		b.db[recA.key()] = recA
		s.addServer(a)
		s.addServer(b)
		s.settle(a)
		s.settle(b)
		s.disable(a, viaReset)
		s.endCase()
	}

	// 2. a Reset Query reply with an unchanged session id must replace, not merge
	s.newManager()
	a.db[recA.key()], a.db[recB.key()] = recA, recB
	s.addServer(a)
	s.settle(a)
	s.closeConn(a)
	s.disconnected(a)
	delete(a.db, recB.key()) // withdrawn at the cache while the router was away
	a.serial++
	a.deltas = map[uint32][]c16Delta{}
	s.settle(a)
	s.endCase()

	// 2b. the same through a Cache Reset answer to a Serial Query
	s.newManager()
	a.db[recA.key()], a.db[recB.key()] = recA, recB
	s.addServer(a)
	s.settle(a)
	delete(a.db, recB.key())
	a.serial += 10 // the cache no longer has the deltas
	a.deltas = map[uint32][]c16Delta{}
	s.pduNotify(a, a.session, a.serial)
	s.settle(a)
	s.endCase()

	// 3. a lifetime timer armed by an earlier disconnect survives the resynchronisation
	s.newManager()
	a.db[recA.key()] = recA
	s.addServer(a)
	s.settle(a)
	s.closeConn(a)
	s.disconnected(a) // timer 1
	s.connected(a)
	s.closeConn(a)
	s.disconnected(a) // timer 2 replaces timer 1 without stopping it
	s.settle(a)       // End of Data stops timer 2 only
	for s.fire(a) {
	}
	s.endCase()

	// 3b. ... or survives DeleteServer and hits the re-added server
	s.newManager()
	a.db[recA.key()] = recA
	s.addServer(a)
	s.settle(a)
	s.closeConn(a)
	s.disconnected(a)
	s.deleteServer(a)
	s.addServer(a)
	s.settle(a)
	for s.fire(a) {
	}
	s.endCase()

	// 3c. the timer has fired, its event waits in the channel while End of Data of the new
	// synchronisation is handled (Stop comes too late), and is handled afterwards
	for variant := 0; variant < 6; variant++ {
		s.newManager()
		a.db[recA.key()] = recA
		s.addServer(a)
		s.settle(a)
		s.closeConn(a)
		s.disconnected(a)
		if variant == 1 {
			s.cacheRestart(a) // the new synchronisation comes with a new session id
		}
		s.connected(a)
		s.expire(a)
		s.settle(a) // End of Data
		if variant == 2 { // … and a further disconnect re-arms the timer before the stale event arrives
			s.closeConn(a)
			s.disconnected(a)
		}
		if variant == 3 { // … or the server is deleted and added again, and synchronises with session id 0
			s.deleteServer(a)
			a.session, a.deltas = 0, map[uint32][]c16Delta{}
			s.addServer(a)
			s.settle(a)
		}
		if variant >= 4 { // … or the re-created server has already armed ITS first timer when the
			// event of the deleted client's timer arrives (same session id / another one)
			s.deleteServer(a)
			if variant == 5 {
				s.cacheRestart(a)
			}
			s.addServer(a)
			s.settle(a)
			s.closeConn(a)
			s.disconnected(a)
		}
		s.deliver(a)
		for s.fire(a) { // the timer armed by the second disconnect is a legitimate one
		}
		s.endCase()
	}
	// 3d. the same with a real 1-second lifetime and no help from the harness
	s.newManager()
	a.db[recA.key()], a.db[recB.key()] = recA, recB
	s.addServerLifetime(a, 1)
	s.settle(a)
	s.closeConn(a)
	s.disconnected(a) // arms the 1 s timer
	s.connected(a)
	a.queries = a.queries[1:]
	s.pduCacheResponse(a, a.session)
	s.pduPrefix(a, true, recA)
	s.pduPrefix(a, true, recB)
	s.expireWait(a) // ≤ 1 s later the timer fires by itself
	s.pduEndOfData(a, a.session, a.serial, c16Copy(a.db), "reset-reply-not-replacing")
	s.deliver(a)
	s.endCase()

	// 3e. record identity is the whole tuple: near-duplicates (same address other length, other
	// max length, other AS) announced and withdrawn around a record inside one response — a
	// reset reply and a serial reply — must leave that record alone
	recA16 := c16Rec{netip.MustParsePrefix("10.0.0.0/16"), 24, 100}
	for _, dup := range []c16Rec{recA16, {recA.p, 32, 100}, {recA.p, 24, 65000}} {
		s.newManager()
		s.addServer(a)
		s.connected(a)
		a.queries = nil
		seq := []c16Delta{{true, recA}, {true, dup}, {false, dup}}
		s.pduCacheResponse(a, a.session)
		for _, d := range seq {
			s.pduPrefix(a, d.announce, d.rec)
		}
		s.pduEndOfData(a, a.session, a.serial, c16ApplySet(nil, seq), "reset-reply-not-the-announced-set")
		// serial reply: withdraw-unknown near-duplicate first, then announce / withdraw in the other order
		seq = []c16Delta{{false, dup}, {true, dup}, {true, recB}, {false, dup}}
		before := a.expect
		s.pduCacheResponse(a, a.session)
		for _, d := range seq {
			s.pduPrefix(a, d.announce, d.rec)
		}
		a.serial++
		s.pduEndOfData(a, a.session, a.serial, c16ApplySet(before, seq), "incremental-update-wrong")
		// after End of Data: the near-duplicate comes and goes while the record stays
		s.unsolicitedRec(a, true, dup)
		s.unsolicitedRec(a, false, dup)
		s.endCase()
	}

	// 3f. what is reported: two caches hold records for one prefix whose entries interleave in the
	// bucket order (A: max length 16 and 24, B: 20); each has ONE prefix — after the full
	// synchronisation, after a serial update, after B is removed, after A's lifetime runs out
	{
		p16 := netip.MustParsePrefix("10.1.0.0/16")
		s.newManager()
		a.db = map[string]c16Rec{}
		b.db = map[string]c16Rec{}
		for _, x := range []c16Rec{{p16, 16, 100}, {p16, 24, 100}, {netip.MustParsePrefix("2001:db8::/32"), 32, 100}, {netip.MustParsePrefix("2001:db8::/32"), 48, 100}} {
			a.db[x.key()] = x
		}
		for _, x := range []c16Rec{{p16, 20, 100}, {p16, 16, 200}, {netip.MustParsePrefix("2001:db8::/32"), 40, 100}} {
			b.db[x.key()] = x
		}
		s.addServer(a)
		s.addServer(b)
		s.settle(a)
		s.settle(b)
		s.cacheMutate(b)
		s.pduNotify(b, b.session, b.serial)
		s.settle(b)
		s.deleteServer(b)
		s.closeConn(a)
		s.disconnected(a)
		for s.fire(a) {
		}
		s.endCase()
	}

	// 3g. reserved bits: an announcement whose Flags carry reserved bits is an announcement, also for a
	// record already installed; session id 0 is a session id: End of Data with another one purges
	s.newManager()
	s.addServer(a)
	s.connected(a)
	a.queries = nil
	for _, fl := range []byte{0x81, 0x03, 0xff} {
		raw := c16Ser(rtr.NewRTRIPPrefix(recA.p.Addr(), uint8(recA.p.Bits()), recA.maxLen, recA.as, rtr.ANNOUNCEMENT))
		s.pduCacheResponse(a, 0)
		raw[8] = fl
		s.pdu(a, raw, "pfx 1 4 8 10 24 100")
		raw2 := c16Ser(rtr.NewRTRIPPrefix(recB.p.Addr(), uint8(recB.p.Bits()), recB.maxLen, recB.as, rtr.WITHDRAWAL))
		raw2[8] = fl &^ 1
		s.pdu(a, raw2, "pfx 0 4 16 2561 16 200")
		s.pduEndOfData(a, 0, 7, map[string]c16Rec{recA.key(): recA}, "reserved-flags-change-meaning")
	}
	s.pduCacheResponse(a, 5) // no query outstanding: only the new session id says "replace"
	s.pduPrefix(a, true, recB)
	s.pduEndOfData(a, 5, 1, map[string]c16Rec{recB.key(): recB}, "new-session-id-does-not-purge")
	s.endCase()

	// 4. announce-then-withdraw inside one response
	s.newManager()
	a.db[recA.key()] = recA
	s.addServer(a)
	s.settle(a)
	a.serial++
	a.db[recB.key()] = recB
	a.deltas[a.serial] = []c16Delta{{true, recB}}
	a.serial++
	delete(a.db, recB.key())
	a.deltas[a.serial] = []c16Delta{{false, recB}}
	s.pduNotify(a, a.session, a.serial)
	if len(a.queries) > 0 {
		s.answer(a, true, false, 0)
	}
	s.endCase()

	// 5. serial number arithmetic around the wrap
	s.newManager()
	a.serial = 4294967295
	a.db[recA.key()] = recA
	s.addServer(a)
	s.settle(a)
	s.cacheMutate(a) // serial wraps to 0
	s.pduNotify(a, a.session, a.serial)
	s.settle(a)
	s.pduNotify(a, a.session, a.serial)            // equal: nothing
	s.pduNotify(a, a.session, a.serial-1)          // older: reset query
	s.pduNotify(a, a.session, a.serial+2147483648) // antipode
	s.pduNotify(a, a.session, a.serial+2147483647)
	a.queries = nil
	s.endCase()
}

func TestVerifC16Server(t *testing.T) {
	o := vOpen(t)
	defer o.close()
	r := &vRand{s: o.seed*7919 + 1616}
	s := &c16Srv{t: t, o: o, r: r, hosts: c16NewHosts(t, 3)}
	defer func() {
		for _, h := range s.hosts {
			h.ln.Close()
		}
	}()

	// `before` on boundary values and random pairs
	bv := []uint32{0, 1, 2, 2147483646, 2147483647, 2147483648, 2147483649, 4294967294, 4294967295}
	// oracle: RFC 1982 comparison on 32 bits, computed in 64-bit arithmetic
	askBefore := func(x, y uint32) {
		got := before(x, y)
		d := (int64(x) - int64(y) + (1 << 32)) % (1 << 32)
		if want := d >= 1<<31; got != want {
			o.fail("serial-compare", map[string]any{"a": x, "b": y, "before": got, "rfc1982": want})
		}
		o.ask(fmt.Sprint(c16B(got)), "before %d %d", x, y)
	}
	for _, x := range bv {
		for _, y := range bv {
			askBefore(x, y)
		}
	}
	for i := 0; i < 300; i++ {
		x := r.u32()
		y := x + uint32(r.pick(0, 1, 2147483647, 2147483648, 2147483649, 4294967295, int(r.u32()>>1)))
		askBefore(x, y)
	}

	s.corpus()

	cases := 1000
	if o.thorough {
		cases = 8000
	}
	for c := 0; c < cases; c++ {
		s.newManager()
		chaos := c%4 == 3   // arbitrary PDU order, no conformance
		concat := c%4 == 1  // the cache concatenates per-serial deltas instead of netting them
		sloppy := c%3 == 0  // duplicate announcements, withdrawals of unknown records
		s.reserved = c%2 == 0
		nh := 1 + r.intn(3) // configured caches
		for i := 0; i < nh; i++ {
			s.populate(s.hosts[i], r.intn(6))
			if i > 0 && r.chance(60) { // another cache holds near-duplicates (same prefix, interleaving max length / AS)
				for _, k := range c16Keys(s.hosts[0].db) {
					if r.chance(70) {
						x := s.hosts[0].db[k]
						y := x
						if r.chance(50) {
							y.as = c16ASes[r.intn(len(c16ASes))]
						}
						if ml := int(x.maxLen) + r.pick(-2, -1, 1, 2, 3); ml >= x.p.Bits() && ml <= x.p.Addr().BitLen() {
							y.maxLen = uint8(ml)
						}
						s.hosts[i].db[y.key()] = y
					}
				}
				o.stat("case_caches_share_prefixes", 1)
			}
			if i > 0 && r.chance(50) { // two caches announcing the same records
				for _, k := range c16Keys(s.hosts[0].db) {
					if r.chance(60) {
						s.hosts[i].db[k] = s.hosts[0].db[k]
					}
				}
			}
		}
		steps := 25 + r.intn(40)
		for st := 0; st < steps; st++ {
			h := s.hosts[r.intn(nh)]
			if s.client(h) == nil {
				if st < 6 || r.chance(60) {
					s.addServer(h)
					o.stat("step_add_server", 1)
				}
				continue
			}
			if len(h.held) > 0 && r.chance(20) {
				s.deliver(h)
				o.stat("step_late_timeout_delivered", 1)
				continue
			}
			if len(h.held) > 0 && !chaos && r.chance(12) {
				// the server is deleted and created again while a timeout event of its old timer is
				// still on its way; the new client synchronises, loses its session, then the event arrives
				s.deleteServer(h)
				s.addServer(h)
				s.settle(h)
				if h.phase == c16Open && r.chance(70) {
					s.closeConn(h)
					s.disconnected(h)
				}
				s.deliver(h)
				o.stat("step_recreated_server_gets_old_timeout", 1)
				continue
			}
			k := r.intn(100)
			switch {
			case h.phase == c16ConnPending && k < 70:
				s.connected(h)
				o.stat("step_connected", 1)
			case h.phase == c16DiscPending && k < 70:
				s.disconnected(h)
				o.stat("step_disconnected", 1)
			case h.phase == c16Open && chaos && k < 70:
				s.chaosPdu(h)
			case h.phase == c16Open && len(h.queries) > 0 && k < 55:
				if r.chance(6) {
					s.pduError(h) // "No Data Available"
					o.stat("response_error_report", 1)
					break
				}
				cut := 0
				if r.chance(12) {
					cut = 1 + r.intn(4)
				}
				s.answer(h, concat, sloppy, cut)
			case h.phase == c16Open && k < 70:
				switch r.intn(6) {
				case 0, 1, 2:
					s.cacheMutate(h)
					s.pduNotify(h, h.session, h.serial)
					o.stat("step_mutate_notify", 1)
				case 3:
					s.pduNotify(h, h.session, h.serial) // nothing new
					o.stat("step_notify_same", 1)
				case 4:
					s.pduNotify(h, h.session, h.serial-uint32(r.pick(1, 2, 1000))) // an older serial
					o.stat("step_notify_older", 1)
				default:
					if r.chance(50) {
						s.unsolicited(h)
					} else {
						s.pduOther(h, r.intn(5))
						o.stat("step_pdu_other", 1)
					}
				}
			case k < 76:
				if h.phase == c16Open {
					if r.chance(40) {
						s.cacheRestart(h)
						if r.chance(50) {
							s.populate(h, r.intn(4))
						}
						o.stat("step_cache_restart", 1)
					} else if r.chance(50) {
						s.cacheMutate(h) // changes while the router is away
					}
					s.closeConn(h)
					o.stat("step_close", 1)
				}
			case k < 82:
				if r.chance(35) {
					if s.expire(h) { // the event is handled later
						o.stat("step_lifetime_expired_event_held", 1)
					}
				} else if s.fire(h) {
					o.stat("step_lifetime_fired", 1)
				}
			case k < 87:
				s.disable(h, r.chance(50))
				o.stat("step_disable", 1)
			case k < 91:
				s.softReset(h)
				o.stat("step_soft_reset", 1)
			case k < 94:
				s.enable(h)
				o.stat("step_enable", 1)
			case k < 97:
				s.deleteServer(h)
				o.stat("step_delete_server", 1)
			default:
				s.addServer(h) // already configured: error
				o.stat("step_add_existing", 1)
			}
		}
		if !chaos && r.chance(70) {
			for i := 0; i < nh; i++ {
				if s.client(s.hosts[i]) != nil {
					s.settle(s.hosts[i])
				}
			}
			o.stat("case_settled_at_end", 1)
		}
		for i := 0; i < nh; i++ { // whatever still waits in the channel arrives now
			for s.deliver(s.hosts[i]) {
				o.stat("step_late_timeout_delivered", 1)
			}
		}
		if c < 3 {
			n := len(s.trace)
			if n > 12 {
				n = 12
			}
			o.sample(strings.Join(s.trace[:n], "; "))
		}
		s.endCase()
	}
}

// chaosPdu: any PDU at any time (the oracle then only keeps its structural checks)
func (s *c16Srv) chaosPdu(h *c16Host) {
	h.expect = nil
	h.queries = nil
	r := s.r
	sid := uint16(r.pick(int(h.session), int(h.session), 0, 1, 65535))
	sn := uint32(r.pick(int(h.serial), 0, 1, 2147483648, 4294967295))
	switch r.intn(12) {
	case 0:
		s.pduNotify(h, sid, sn)
	case 1, 2:
		s.pdu(h, c16Ser(rtr.NewRTRCacheResponse(sid)), fmt.Sprintf("cresp %d", sid))
	case 3, 4, 5, 6:
		s.pduPrefix(h, true, c16Pool[r.intn(len(c16Pool))])
	case 7, 8:
		s.pduPrefix(h, false, c16Pool[r.intn(len(c16Pool))])
	case 9, 10:
		h.syncs++
		s.pdu(h, c16Ser(rtr.NewRTREndOfData(sid, sn)), fmt.Sprintf("eod %d %d", sid, sn))
	default:
		switch r.intn(3) {
		case 0:
			s.pduCacheReset(h)
		case 1:
			s.pduError(h)
		default:
			s.pduOther(h, r.intn(5))
		}
	}
	h.queries = nil
	s.o.stat("step_chaos_pdu", 1)
}
