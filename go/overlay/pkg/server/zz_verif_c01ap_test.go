//go:build verif

package server

// C01, ADD-PATH send branch (working id C01AP): correspondence harness + model-independent
// oracle on the white-box world (zz_verif_world_test.go).  Random histories with several
// ADD-PATH-send peers (send-max 1..4) and ADD-PATH-receive sources over TWO prefixes, so that a
// destination regularly has 5-8 candidate paths and send-max is exceeded; withdrawals of sent and
// of held-back paths, replacements that the export filter rejects toward one of the targets,
// session flaps of sources and targets, DeletePeer / AddPeer, locally injected routes, soft reset
// out and ROUTE-REFRESH.  After every flush point, for every ADD-PATH-send peer:
//   asks   apview (what the far end holds, keyed prefix#local-path-id), apsent (peer.sentPaths),
//          apheld (peer.sendMaxPathFiltered), and per prefix ribid (Loc-RIB order with the local
//          path identifiers) are compared with Model/AddPathSend.lean;
//   oracle (implementation only): (1) every advertised route is a current Loc-RIB path that passes
//          the real s.filterpath, (2) exactly min(send-max, #eligible) are advertised, (3) each
//          under the identifier the Loc-RIB gave the path, identifiers distinct and unchanged
//          while the path stays, (4) advertised identifiers == peer.sentPaths, (5) held-back marks
//          only on eligible paths that are not advertised.

import (
	"context"
	"fmt"
	"net/netip"
	"os"
	"sort"
	"strings"
	"testing"
	"time"

	"github.com/osrg/gobgp/v4/api"
	"github.com/osrg/gobgp/v4/internal/pkg/table"
	"github.com/osrg/gobgp/v4/pkg/packet/bgp"
)

var apPrefixes = []string{"10.7.0.0/24", "10.8.0.0/24"}

func apNlri(i int) bgp.NLRI {
	n, _ := bgp.NewIPAddrPrefix(netip.MustParsePrefix(apPrefixes[i]))
	return n
}

func apPfxIndex(s string) int {
	for i, p := range apPrefixes {
		if p == s {
			return i
		}
	}
	return -1
}

func apU32(a netip.Addr) uint32 {
	b := a.As4()
	return uint32(b[0])<<24 | uint32(b[1])<<16 | uint32(b[2])<<8 | uint32(b[3])
}

func apIP(v int) netip.Addr {
	return netip.AddrFrom4([4]byte{byte(v >> 24), byte(v >> 16), byte(v >> 8), byte(v)})
}

type apRoute struct {
	pfx, pathID, marker int
	lp                  *uint32
	origin              uint8
	med                 *uint32
	segs                [][]uint32 // each: typ followed by members
	// wire form of the announcement (harness only; the model does not see it):
	// 0 = NEXT_HOP attribute, 1 = IPv4 NLRI in MP_REACH_NLRI with an IPv4 next hop,
	// 2 = IPv4 NLRI in MP_REACH_NLRI with an IPv6 next hop (extended next hop, RFC 8950)
	nh int
}

// line renders the route in the format lean/Driver/World.lean parseRoute reads
func (r *apRoute) line() string {
	var sb strings.Builder
	fmt.Fprintf(&sb, "%d %d %d", r.pfx, r.pathID, r.marker)
	if r.lp != nil {
		fmt.Fprintf(&sb, " 1 %d", *r.lp)
	} else {
		sb.WriteString(" 0 0")
	}
	fmt.Fprintf(&sb, " %d", r.origin)
	if r.med != nil {
		fmt.Fprintf(&sb, " 1 %d", *r.med)
	} else {
		sb.WriteString(" 0 0")
	}
	sb.WriteString(" 0 0 0 0") // no ORIGINATOR_ID, no CLUSTER_LIST, no further communities
	fmt.Fprintf(&sb, " %d", len(r.segs))
	for _, s := range r.segs {
		fmt.Fprintf(&sb, " %d %d", s[0], len(s)-1)
		for _, a := range s[1:] {
			fmt.Fprintf(&sb, " %d", a)
		}
	}
	if r.nh != 0 {
		fmt.Fprintf(&sb, " nh%d", r.nh) // trailing harness-only token, stripped before the model sees the line
	}
	return sb.String()
}

// apModelLine strips the trailing harness-only tokens (wire form) of a protocol line.
func apModelLine(line string) string {
	f := strings.Fields(line)
	for len(f) > 0 && (f[len(f)-1] == "nh1" || f[len(f)-1] == "nh2" || f[len(f)-1] == "mp") {
		f = f[:len(f)-1]
	}
	return strings.Join(f, " ")
}

func apParseRoute(f []string) *apRoute {
	n := func(i int) int { v := 0; fmt.Sscan(f[i], &v); return v }
	rt := &apRoute{pfx: n(0), pathID: n(1), marker: n(2), origin: uint8(n(5))}
	if n(3) == 1 {
		v := uint32(n(4))
		rt.lp = &v
	}
	if n(6) == 1 {
		v := uint32(n(7))
		rt.med = &v
	}
	i := 10 + n(10) + 1 // cluster list
	i += n(i) + 1       // communities
	for k := n(i); k > 0; k-- {
		typ, cnt := n(i+1), n(i+2)
		seg := []uint32{uint32(typ)}
		for j := 0; j < cnt; j++ {
			seg = append(seg, uint32(n(i+3+j)))
		}
		rt.segs = append(rt.segs, seg)
		i += 2 + cnt
	}
	if i+1 < len(f) && strings.HasPrefix(f[i+1], "nh") {
		fmt.Sscanf(f[i+1], "nh%d", &rt.nh)
	}
	return rt
}

// attrs builds the attributes in the route's wire form; `nexthop` is the sender's IPv4 address,
// its last octet also makes the IPv6 next hop.
func (r *apRoute) attrs(nexthop netip.Addr) []bgp.PathAttributeInterface {
	attrs := []bgp.PathAttributeInterface{bgp.NewPathAttributeOrigin(r.origin)}
	params := make([]bgp.AsPathParamInterface, 0, len(r.segs))
	for _, s := range r.segs {
		params = append(params, bgp.NewAs4PathParam(uint8(s[0]), append([]uint32{}, s[1:]...)))
	}
	attrs = append(attrs, bgp.NewPathAttributeAsPath(params))
	switch r.nh {
	case 0:
		nh, _ := bgp.NewPathAttributeNextHop(nexthop)
		attrs = append(attrs, nh)
	default:
		nhAddr := nexthop
		if r.nh == 2 {
			b := nexthop.As4()
			nhAddr = netip.AddrFrom16([16]byte{0x20, 0x01, 0x0d, 0xb8, 12: 0, 13: 0, 14: b[2], 15: b[3]})
		}
		mp, err := bgp.NewPathAttributeMpReachNLRI(bgp.RF_IPv4_UC, []bgp.PathNLRI{{NLRI: apNlri(r.pfx), ID: uint32(r.pathID)}}, nhAddr)
		if err != nil {
			panic(err)
		}
		attrs = append(attrs, mp)
	}
	if r.med != nil {
		attrs = append(attrs, bgp.NewPathAttributeMultiExitDisc(*r.med))
	}
	if r.lp != nil {
		attrs = append(attrs, bgp.NewPathAttributeLocalPref(*r.lp))
	}
	return append(attrs, bgp.NewPathAttributeCommunities([]uint32{0xfffe0000 | uint32(r.marker)}))
}

func (r *apRoute) msg(from *vwPeer) *bgp.BGPMessage {
	if r.nh != 0 {
		return bgp.NewBGPUpdateMessage(nil, r.attrs(from.spec.addr), nil) // the NLRI is in MP_REACH_NLRI
	}
	return bgp.NewBGPUpdateMessage(nil, r.attrs(from.spec.addr), []bgp.PathNLRI{{NLRI: apNlri(r.pfx), ID: uint32(r.pathID)}})
}

func apLocalPath(rt *apRoute, withdraw bool, ts time.Time) *table.Path {
	nlri := bgp.PathNLRI{NLRI: apNlri(rt.pfx)}
	if withdraw {
		return table.NewPath(bgp.RF_IPv4_UC, nil, nlri, true, nil, ts, false)
	}
	return table.NewPath(bgp.RF_IPv4_UC, nil, nlri, false, rt.attrs(netip.MustParseAddr("10.255.0.1")), ts, false)
}

var apKinds = []string{"ebgp", "ibgp", "rrc", "rsc"}

type apScenario struct {
	w       *vWorld
	o       *vOut // nil in replay mode
	history []string
	verbose bool
	// id-stability tracker (oracle 3): prefix index -> "source address/remote path-id" -> local id
	lidSeen [2]map[string]uint32
	// which (peer, key) the harness believes announced and not withdrawn (generator aid only)
	latest map[int]map[string]bool
}

func newApScenario(t testing.TB, o *vOut) *apScenario {
	sc := &apScenario{w: newVWorld(t, 65000, "10.255.0.1"), o: o, latest: map[int]map[string]bool{}}
	sc.lidSeen[0], sc.lidSeen[1] = map[string]uint32{}, map[string]uint32{}
	sc.emit("world %d %d", sc.w.as, apU32(sc.w.rid))
	return sc
}

func (sc *apScenario) emit(f string, a ...any) {
	if sc.o != nil {
		sc.o.op(f, a...)
	}
}

func (sc *apScenario) forget(pfx int, addr netip.Addr, pathID int) {
	delete(sc.lidSeen[pfx], fmt.Sprintf("%s/%d", addr, pathID))
}

func (sc *apScenario) forgetPeer(addr netip.Addr) {
	for pi := range sc.lidSeen {
		for k := range sc.lidSeen[pi] {
			if strings.HasPrefix(k, addr.String()+"/") {
				delete(sc.lidSeen[pi], k)
			}
		}
	}
}

// do executes one protocol line on the real server and hands it to the model.
func (sc *apScenario) do(line string) {
	w := sc.w
	f := strings.Fields(line)
	n := func(i int) int { v := 0; fmt.Sscan(f[i], &v); return v }
	sc.history = append(sc.history, line)
	model := apModelLine(line)
	switch f[0] {
	case "peer":
		w.addPeer(vwPeerSpec{kind: apKinds[n(2)], as: uint32(n(3)), rid: apIP(n(4)), addr: apIP(n(5)), sendMax: uint8(n(6)), addPathRx: n(7) == 1, allowOwnAs: uint8(n(8))})
		sc.latest[n(1)] = map[string]bool{}
	case "up":
		w.sessionUp(w.peers[n(1)], nil)
	case "down":
		w.sessionDown(w.peers[n(1)], fsmReadFailed)
		sc.forgetPeer(w.peers[n(1)].spec.addr)
		sc.latest[n(1)] = map[string]bool{}
	case "del":
		w.delPeer(w.peers[n(1)])
		sc.forgetPeer(w.peers[n(1)].spec.addr)
		sc.latest[n(1)] = map[string]bool{}
	case "ann":
		rt := apParseRoute(f[2:])
		vp := w.peers[n(1)]
		// a route the inbound loop check rejects leaves the Loc-RIB: its identifier may change
		for _, s := range rt.segs {
			for _, a := range s[1:] {
				if a == w.as {
					sc.forget(rt.pfx, vp.spec.addr, rt.pathID)
				}
			}
		}
		w.recv(vp, rt.msg(vp))
		sc.latest[n(1)][fmt.Sprintf("%d#%d", rt.pfx, rt.pathID)] = true
	case "wd":
		vp := w.peers[n(1)]
		wdNlri := []bgp.PathNLRI{{NLRI: apNlri(n(2)), ID: uint32(n(3))}}
		if f[len(f)-1] == "mp" {
			// the withdrawal travels in MP_UNREACH_NLRI (AFI 1 / SAFI 1)
			un, _ := bgp.NewPathAttributeMpUnreachNLRI(bgp.RF_IPv4_UC, wdNlri)
			w.recv(vp, bgp.NewBGPUpdateMessage(nil, []bgp.PathAttributeInterface{un}, nil))
		} else {
			w.recv(vp, bgp.NewBGPUpdateMessage(wdNlri, nil, nil))
		}
		sc.forget(n(2), vp.spec.addr, n(3))
		delete(sc.latest[n(1)], fmt.Sprintf("%d#%d", n(2), n(3)))
	case "ladd":
		w.local(apLocalPath(apParseRoute(f[1:]), false, w.now()))
	case "ldel":
		w.local(apLocalPath(&apRoute{pfx: n(1)}, true, w.now()))
		sc.forget(n(1), netip.Addr{}, 0)
	case "sout":
		if err := w.s.ResetPeer(context.Background(), &api.ResetPeerRequest{Address: w.peers[n(1)].spec.addr.String(), Soft: true, Direction: api.ResetPeerRequest_DIRECTION_OUT}); err != nil {
			w.t.Fatalf("ResetPeer: %v", err)
		}
	case "rr":
		// a ROUTE-REFRESH from the peer is answered like a soft reset out
		if w.peers[n(1)].up {
			w.recv(w.peers[n(1)], bgp.NewBGPRouteRefreshMessage(bgp.AFI_IP, 0, bgp.SAFI_UNICAST))
			model = "sout " + f[1]
		} else {
			model = ""
		}
	case "racewd", "raceann":
		// The table update of a received UPDATE (under the prefix bucket lock) happens BEFORE the
		// target's session comes up and reads the table for its initial transfer, and the
		// fan-out of the update runs AFTER that transfer has released the peer's refresh lock
		// (the fan-out waits on that lock; session up does not take the bucket lock): the model's
		// `upBetween`.
		tgt, src := w.peers[n(1)], w.peers[n(2)]
		var m *bgp.BGPMessage
		if f[0] == "racewd" {
			m = bgp.NewBGPUpdateMessage([]bgp.PathNLRI{{NLRI: apNlri(n(3)), ID: uint32(n(4))}}, nil, nil)
			sc.forget(n(3), src.spec.addr, n(4))
			delete(sc.latest[n(2)], fmt.Sprintf("%d#%d", n(3), n(4)))
			model = fmt.Sprintf("upbetween %s wd %s %s %s", f[1], f[2], f[3], f[4])
		} else {
			rt := apParseRoute(f[3:])
			m = rt.msg(src)
			sc.latest[n(2)][fmt.Sprintf("%d#%d", rt.pfx, rt.pathID)] = true
			model = apModelLine("upbetween " + f[1] + " ann " + strings.Join(f[2:], " "))
		}
		sc.raceRecv(src, m, func() { w.sessionUp(tgt, nil) })
	case "flush":
		model = ""
	default:
		w.t.Fatalf("unknown line %q", line)
	}
	if model != "" {
		sc.emit("%s", model)
	}
	if sc.verbose {
		fmt.Println(line)
	}
}

// raceRecv is handleFSMMessage(fsmMsgBGPMessage) + propagateUpdate for one UPDATE with `between`
// run after the table update and before the fan-out (both under the prefix bucket lock).
func (sc *apScenario) raceRecv(vp *vwPeer, m *bgp.BGPMessage, between func()) {
	s := sc.w.s
	paths, _, _ := vp.p.handleUpdate(&fsmMsg{MsgType: fsmMsgBGPMessage, MsgData: m, timestamp: sc.w.now()})
	for i, path := range paths {
		bucket := s.shared.propagateBucket(path)
		bucket.Lock()
		if !vp.p.isIBGPPeer() && !vp.p.isRouteServerClient() {
			path.RemoveLocalPref()
		}
		opts := &table.PolicyOptions{Validate: s.roaTable.Validate, Info: vp.p.peerInfo.Load()}
		if p := s.policy.ApplyPolicy(table.GLOBAL_RIB_NAME, table.POLICY_DIRECTION_IMPORT, path, opts); p != nil {
			path = p
		} else {
			path = path.Clone(true)
		}
		dsts := s.globalRib.Update(path)
		if i == 0 {
			between()
		}
		if len(dsts) > 0 {
			s.propagateUpdateToNeighbors(s.globalRib, vp.p, path, dsts, true)
		}
		bucket.Unlock()
	}
}

type apIDs [][2]int // (prefix index, local id)

func (l apIDs) String() string {
	sort.Slice(l, func(i, j int) bool { return l[i][0] < l[j][0] || l[i][0] == l[j][0] && l[i][1] < l[j][1] })
	var sb strings.Builder
	for _, e := range l {
		fmt.Fprintf(&sb, " %d#%d", e[0], e[1])
	}
	return sb.String()
}

func apSent(p *peer) apIDs {
	var l apIDs
	p.sentPaths.Range(func(k, v any) bool {
		pi := apPfxIndex(k.(table.PathDestLocalKey).Prefix)
		for id := range v.(pathIDSet) {
			l = append(l, [2]int{pi, int(id)})
		}
		return true
	})
	return l
}

func apHeld(p *peer) apIDs {
	var l apIDs
	p.sendMaxPathFiltered.Range(func(k, _ any) bool {
		key := k.(table.PathLocalKey)
		l = append(l, [2]int{apPfxIndex(key.Prefix), int(key.Id)})
		return true
	})
	return l
}

// apViewString renders the far end's view with prefix indices
func apViewString(vp *vwPeer) string {
	type e struct {
		p, id  int
		marker uint32
	}
	var es []e
	for k, h := range vp.view {
		parts := strings.Split(k, "#")
		id := 0
		fmt.Sscan(parts[1], &id)
		es = append(es, e{apPfxIndex(parts[0]), id, h.marker})
	}
	sort.Slice(es, func(i, j int) bool { return es[i].p < es[j].p || es[i].p == es[j].p && es[i].id < es[j].id })
	var sb strings.Builder
	for _, x := range es {
		fmt.Fprintf(&sb, " %d#%d=%d", x.p, x.id, x.marker)
	}
	return sb.String()
}

func (sc *apScenario) known(pi int) []*table.Path {
	d := sc.w.s.globalRib.GetDestination(table.NewPath(bgp.RF_IPv4_UC, nil, bgp.PathNLRI{NLRI: apNlri(pi)}, true, nil, sc.w.now(), false))
	if d == nil {
		return nil
	}
	return d.GetAllKnownPathList()
}

func (sc *apScenario) fail(class string, det map[string]any) {
	det["history"] = append([]string{}, sc.history...)
	if sc.o != nil {
		sc.o.fail(class, det)
	}
	if sc.verbose {
		fmt.Printf("    ORACLE %s %v\n", class, det["peer"])
	}
}

// oracle: the five invariants, from the implementation's own tables and the real filterpath.
func (sc *apScenario) oracle() {
	w := sc.w
	for pi := range apPrefixes {
		known := sc.known(pi)
		ids := map[uint32]bool{}
		present := map[string]bool{}
		for _, p := range known {
			if p.LocalID() == 0 || ids[p.LocalID()] {
				sc.fail("addpath:loc-rib-id-zero-or-duplicate", map[string]any{"prefix": apPrefixes[pi], "id": p.LocalID()})
			}
			ids[p.LocalID()] = true
			key := fmt.Sprintf("%s/%d", p.GetSource().Address, p.RemoteID())
			if p.IsLocal() {
				key = fmt.Sprintf("%s/%d", netip.Addr{}, 0)
			}
			present[key] = true
			if old, ok := sc.lidSeen[pi][key]; ok && old != p.LocalID() {
				sc.fail("addpath:path-id-changed", map[string]any{"prefix": apPrefixes[pi], "path": key, "was": old, "is": p.LocalID()})
			}
			sc.lidSeen[pi][key] = p.LocalID()
		}
		for k := range sc.lidSeen[pi] {
			if !present[k] {
				delete(sc.lidSeen[pi], k)
			}
		}
		for _, vp := range w.peers {
			if vp.deleted || !vp.up || vp.spec.sendMax == 0 {
				continue
			}
			eligible := map[uint32]uint32{} // marker -> local id
			eligID := map[uint32]bool{}
			v6nh := map[uint32]bool{} // marker -> exported with an IPv6 next hop (per-path MP_REACH message)
			for _, p := range known {
				if e := w.s.filterpath(vp.p, p, nil); e != nil && !e.IsWithdraw {
					eligible[vwMarker(p.GetPathAttrs())] = p.LocalID()
					eligID[p.LocalID()] = true
					v6nh[vwMarker(p.GetPathAttrs())] = !e.GetNexthop().Is4()
				}
			}
			view := map[uint32]uint32{} // id -> marker
			for k, h := range vp.view {
				parts := strings.Split(k, "#")
				if parts[0] != apPrefixes[pi] {
					continue
				}
				id := uint32(0)
				fmt.Sscan(parts[1], &id)
				view[id] = h.marker
			}
			sent, held := map[uint32]bool{}, map[uint32]bool{}
			for _, e := range apSent(vp.p) {
				if e[0] == pi {
					sent[uint32(e[1])] = true
				}
			}
			for _, e := range apHeld(vp.p) {
				if e[0] == pi {
					held[uint32(e[1])] = true
				}
			}
			det := func() map[string]any {
				return map[string]any{"peer": vp.spec.addr.String(), "send_max": vp.spec.sendMax, "prefix": apPrefixes[pi],
					"eligible(marker:id)": fmt.Sprint(eligible), "view(id:marker)": fmt.Sprint(view), "sent": fmt.Sprint(sent), "held": fmt.Sprint(held)}
			}
			for id, m := range view {
				if sc.o != nil {
					if v6nh[m] {
						sc.o.stat("advertised_with_ipv6_next_hop", 1)
					} else {
						sc.o.stat("advertised_with_ipv4_next_hop", 1)
					}
				}
				lid, ok := eligible[m]
				if !ok {
					sc.fail("addpath:ineligible-or-gone-route-advertised", det())
				} else if lid != id {
					sc.fail("addpath:path-id-not-the-loc-rib-id", det())
				}
			}
			want := len(eligible)
			if want > int(vp.spec.sendMax) {
				want = int(vp.spec.sendMax)
			}
			if len(view) > int(vp.spec.sendMax) {
				sc.fail("addpath:more-than-send-max", det())
			} else if len(view) < want {
				sc.fail("addpath:eligible-route-missing", det())
			}
			same := len(view) == len(sent)
			for id := range view {
				same = same && sent[id]
			}
			if !same {
				sc.fail("addpath:bookkeeping!=advertised", det())
			}
			for id := range held {
				if !eligID[id] || sent[id] {
					sc.fail("addpath:held-back-mark-stale", det())
				}
			}
		}
	}
}

// check: flush everything, ask the model, run the oracle
func (sc *apScenario) check() {
	w := sc.w
	for _, vp := range w.peers {
		w.flush(vp)
	}
	if sc.o != nil {
		for i, vp := range w.peers {
			if vp.deleted || vp.spec.sendMax == 0 {
				continue
			}
			sc.o.ask("apview"+apViewString(vp), "apview %d", i)
			sc.o.ask("apsent"+apSent(vp.p).String(), "apsent %d", i)
			sc.o.ask("apheld"+apHeld(vp.p).String(), "apheld %d", i)
			sc.o.stat("asks_peer_state", 3)
			if len(apHeld(vp.p)) > 0 {
				sc.o.stat("checks_with_held_back_paths", 1)
			}
		}
		for pi := range apPrefixes {
			s := "ribid"
			for _, p := range sc.known(pi) {
				s += fmt.Sprintf(" %d@%d", vwMarker(p.GetPathAttrs()), p.LocalID())
			}
			sc.o.ask(s, "ribid %d", pi)
			sc.o.stat(fmt.Sprintf("known_paths_%d", len(sc.known(pi))), 1)
		}
	}
	if sc.verbose {
		for i, vp := range w.peers {
			if vp.spec.sendMax > 0 {
				fmt.Printf("    peer %d up=%v k=%d view:%s | sent:%s | held:%s\n", i, vp.up, vp.spec.sendMax, apViewString(vp), apSent(vp.p), apHeld(vp.p))
			}
		}
		for pi := range apPrefixes {
			s := ""
			for _, p := range sc.known(pi) {
				s += fmt.Sprintf(" %d@%d", vwMarker(p.GetPathAttrs()), p.LocalID())
			}
			fmt.Printf("    rib %d:%s\n", pi, s)
		}
	}
	sc.oracle()
}

// ---------------------------------------------------------------------------------------------
// deterministic corpus: minimised histories of defects found (run first)

var apCorpus = map[string][]string{
	// A held-back path is replaced by a version the export filter rejects (AS loop toward the
	// target); on the pinned tree its held-back mark stayed, the next version was advertised with
	// the mark still set, and its withdrawal was swallowed: the peer kept 10.7.0.0/24 #2 for ever.
	"held-mark-survives-filtered-replacement": {
		"peer 0 0 65001 167772161 3232235521 1 0 0",
		"peer 1 0 65002 167772162 3232235522 0 1 0",
		"up 0", "up 1",
		"ann 1 0 0 1 0 0 0 0 0 0 0 0 0 1 2 1 65002",
		"ann 1 0 1 2 0 0 0 0 0 0 0 0 0 1 2 2 65002 300",
		"ann 1 0 1 3 0 0 0 0 0 0 0 0 0 1 2 2 65002 65001",
		"wd 1 0 0",
		"ann 1 0 1 4 0 0 0 0 0 0 0 0 0 1 2 2 65002 300",
		"wd 1 0 1",
	},
	// The withdrawal of path-id 2 updates the table, THEN the target's session comes up and its
	// initial transfer reads the destination (two paths left: one advertised, one held back by
	// send-max 1), THEN the fan-out of the withdrawal runs: on the pinned tree it "withdrew" the
	// never-advertised path and promoted the held-back one into a slot that was never freed:
	// two routes toward a peer with send-max 1.
	"withdrawal-fanned-out-after-initial-transfer": {
		"peer 0 0 65001 167772161 3232235521 1 0 0",
		"peer 1 0 65002 167772162 3232235522 0 1 0",
		"up 1",
		"ann 1 0 0 1 0 0 0 0 0 0 0 0 0 1 2 1 65002",
		"ann 1 0 1 2 0 0 0 0 0 0 0 0 0 1 2 2 65002 300",
		"ann 1 0 2 3 0 0 0 0 0 0 0 0 0 1 2 3 65002 300 400",
		"racewd 0 1 0 2",
	},
	// Not a defect of the unchanged tree: the wire forms meet in one destination. An RR client
	// with ADD-PATH send (send-max 2) is sent two IPv4 routes with IPv6 next hops (RFC 8950: one
	// MP_REACH_NLRI message per path, which must carry the local path-id) while a third, received
	// as IPv4-in-MP_REACH with an IPv4 next hop, is held back; the first is withdrawn through
	// MP_UNREACH_NLRI (promotion), the second is replaced by a NEXT_HOP-attribute version and
	// withdrawn. A seeded change that dropped the path-id from the per-path message was missed
	// before the generator mixed the forms.
	"addpath-x-extended-nexthop": {
		"peer 0 2 65000 167772161 3232235521 2 0 0",
		"peer 1 0 65002 167772162 3232235522 0 1 0",
		"up 0", "up 1",
		"ann 1 0 0 1 0 0 0 0 0 0 0 0 0 1 2 1 65002 nh2",
		"ann 1 0 1 2 0 0 0 0 0 0 0 0 0 1 2 2 65002 300 nh2",
		"ann 1 0 2 3 0 0 0 0 0 0 0 0 0 1 2 3 65002 300 400 nh1",
		"wd 1 0 0 mp",
		"ann 1 0 1 4 0 0 0 0 0 0 0 0 0 1 2 2 65002 300",
		"wd 1 0 1",
	},
}

func apRunCorpus(t *testing.T, o *vOut) {
	names := make([]string, 0, len(apCorpus))
	for k := range apCorpus {
		names = append(names, k)
	}
	sort.Strings(names)
	for _, name := range names {
		sc := newApScenario(t, o)
		for _, l := range apCorpus[name] {
			sc.do(l)
			sc.check()
		}
		sc.w.stop()
		o.stat("corpus_cases", 1)
	}
}

// ---------------------------------------------------------------------------------------------
// random histories

func apGenRoute(r *vRand, sc *apScenario, marker int, from *vwPeer, targets []*vwPeer) *apRoute {
	rt := &apRoute{pfx: r.intn(len(apPrefixes)), marker: marker, origin: uint8(r.pick(0, 0, 1, 2))}
	if from != nil && from.spec.addPathRx {
		rt.pathID = r.intn(4)
	}
	if r.chance(45) {
		v := uint32(r.pick(50, 100, 100, 200, 300))
		rt.lp = &v
	}
	if r.chance(40) {
		v := uint32(r.pick(0, 10, 20))
		rt.med = &v
	}
	var seq []uint32
	if from != nil && from.spec.kind == "ebgp" {
		seq = append(seq, from.spec.as)
	}
	for n := r.intn(3); n > 0; n-- {
		seq = append(seq, uint32(r.pick(100, 200, 300, 400)))
	}
	// toward an eBGP target whose AS is in the AS_PATH the route is not exportable
	if r.chance(22) && len(targets) > 0 {
		seq = append(seq, targets[r.intn(len(targets))].spec.as)
	}
	// the local AS: rejected on ingress (leaves the Loc-RIB)
	if from != nil && r.chance(4) {
		seq = append(seq, sc.w.as)
	}
	if len(seq) > 0 {
		rt.segs = append(rt.segs, append([]uint32{2}, seq...))
	}
	// wire form: NEXT_HOP attribute / IPv4-in-MP_REACH / IPv6 next hop in MP_REACH (RFC 8950),
	// mixed within one destination
	rt.nh = r.pick(0, 0, 0, 1, 2, 2)
	return rt
}

func apRun(t *testing.T, o *vOut, r *vRand, nOps int, idx int) {
	sc := newApScenario(t, o)
	w := sc.w
	defer w.stop()
	marker := 0
	ridPool := r.perm(12)
	mkPeer := func(i int, target, source bool) string {
		k := []string{"ebgp", "ebgp", "ibgp", "rrc"}[r.intn(4)]
		as := uint32(65000)
		if k == "ebgp" {
			as = uint32(65001 + r.intn(4))
		}
		sendMax, rx := 0, 0
		if target {
			sendMax = 1 + r.intn(4)
		}
		if source {
			rx = 1
		}
		o.stat("peer_kind_"+k, 1)
		if target {
			o.stat(fmt.Sprintf("target_send_max_%d", sendMax), 1)
		}
		return fmt.Sprintf("peer %d %d %d %d %d %d %d 0", i, apKindIdx(k), as, apU32(netip.AddrFrom4([4]byte{10, 0, 0, byte(1 + ridPool[i])})),
			apU32(netip.AddrFrom4([4]byte{192, 168, 0, byte(1 + i)})), sendMax, rx)
	}
	nT, nS := 2+r.intn(2), 2+r.intn(2)
	for i := 0; i < nT; i++ {
		sc.do(mkPeer(i, true, r.chance(40)))
	}
	for i := nT; i < nT+nS; i++ {
		sc.do(mkPeer(i, r.chance(15), r.chance(85)))
	}
	targets := func() []*vwPeer {
		var l []*vwPeer
		for _, vp := range w.peers {
			if !vp.deleted && vp.spec.sendMax > 0 && vp.spec.kind == "ebgp" {
				l = append(l, vp)
			}
		}
		return l
	}
	for i := range w.peers {
		if r.chance(85) {
			sc.do(fmt.Sprintf("up %d", i))
		}
	}
	// raceUp: target i comes up between the table update and the fan-out of another peer's UPDATE
	raceUp := func(i int) bool {
		vp := w.peers[i]
		var srcs []int
		for k, q := range w.peers {
			if q.up && !q.deleted && q != vp {
				srcs = append(srcs, k)
			}
		}
		if len(srcs) == 0 {
			return false
		}
		si := srcs[r.intn(len(srcs))]
		if keys := sc.latest[si]; len(keys) > 0 && r.chance(60) {
			ks := make([]string, 0, len(keys))
			for k := range keys {
				ks = append(ks, k)
			}
			sort.Strings(ks)
			pfx, pid := 0, 0
			fmt.Sscanf(ks[r.intn(len(ks))], "%d#%d", &pfx, &pid)
			sc.do(fmt.Sprintf("racewd %d %d %d %d", i, si, pfx, pid))
			o.stat("op_up_between_withdraw_and_fanout", 1)
		} else {
			marker++
			rt := apGenRoute(r, sc, marker, w.peers[si], targets())
			sc.do(fmt.Sprintf("raceann %d %d %s", i, si, rt.line()))
			o.stat("op_up_between_announce_and_fanout", 1)
		}
		return true
	}
	for n := 0; n < nOps; n++ {
		i := r.intn(len(w.peers))
		vp := w.peers[i]
		x := r.intn(200)
		if vp.deleted && x < 190 {
			continue
		}
		if !vp.deleted && !vp.up && x >= 10 && r.chance(35) {
			// a session that went down usually comes back
			if !(vp.spec.sendMax > 0 && r.chance(45) && raceUp(i)) {
				sc.do(fmt.Sprintf("up %d", i))
				o.stat("op_up", 1)
			}
			continue
		}
		switch {
		case x < 10 && !vp.up && vp.spec.sendMax > 0 && r.chance(60) && raceUp(i):
		case x < 10:
			if vp.up {
				sc.do(fmt.Sprintf("down %d", i))
				o.stat("op_down", 1)
			} else {
				sc.do(fmt.Sprintf("up %d", i))
				o.stat("op_up", 1)
			}
		case x < 134:
			if !vp.up {
				continue
			}
			marker++
			rt := apGenRoute(r, sc, marker, vp, targets())
			if sc.latest[i][fmt.Sprintf("%d#%d", rt.pfx, rt.pathID)] {
				o.stat("op_replace", 1)
			} else {
				o.stat("op_ann_new", 1)
			}
			sc.do(fmt.Sprintf("ann %d %s", i, rt.line()))
		case x < 166:
			if !vp.up {
				continue
			}
			pfx, pid := r.intn(len(apPrefixes)), 0
			if vp.spec.addPathRx {
				pid = r.intn(4)
			}
			if keys := sc.latest[i]; len(keys) > 0 && r.chance(80) {
				// withdraw something that is there (map order is not used: pick by sorted key)
				ks := make([]string, 0, len(keys))
				for k := range keys {
					ks = append(ks, k)
				}
				sort.Strings(ks)
				fmt.Sscanf(ks[r.intn(len(ks))], "%d#%d", &pfx, &pid)
			}
			if r.chance(25) {
				sc.do(fmt.Sprintf("wd %d %d %d mp", i, pfx, pid))
				o.stat("op_wd_in_mp_unreach", 1)
			} else {
				sc.do(fmt.Sprintf("wd %d %d %d", i, pfx, pid))
			}
			o.stat("op_wd", 1)
		case x < 176:
			if r.chance(65) {
				marker++
				rt := apGenRoute(r, sc, marker, nil, targets())
				sc.do("ladd " + rt.line())
				o.stat("op_local_add", 1)
			} else {
				sc.do(fmt.Sprintf("ldel %d 0", r.intn(len(apPrefixes))))
				o.stat("op_local_del", 1)
			}
		case x < 186:
			if !vp.up || vp.spec.sendMax == 0 {
				continue
			}
			if r.chance(50) {
				sc.do(fmt.Sprintf("sout %d", i))
			} else {
				sc.do(fmt.Sprintf("rr %d", i))
			}
			o.stat("op_soft_reset_out", 1)
		case x < 190:
			if len(w.peers) >= 8 {
				continue
			}
			k := len(w.peers)
			sc.do(mkPeer(k, r.chance(50), r.chance(60)))
			o.stat("op_add_peer", 1)
			if r.chance(75) {
				sc.do(fmt.Sprintf("up %d", k))
			}
		case x >= 193:
			continue
		default:
			live := 0
			for _, q := range w.peers {
				if !q.deleted {
					live++
				}
			}
			if vp.deleted || live < 4 {
				continue
			}
			sc.do(fmt.Sprintf("del %d", i))
			o.stat("op_del_peer", 1)
		}
		if r.chance(40) {
			sc.check()
		}
	}
	sc.check()
	if idx < 2 {
		o.sample(strings.Join(sc.history, " ; "))
	}
}

func TestVerifC01AP(t *testing.T) {
	o := vOpen(t)
	defer o.close()
	apRunCorpus(t, o)
	r := &vRand{s: o.seed*15485863 + 5}
	n := 120
	if o.thorough {
		n = 1200
	}
	for i := 0; i < n; i++ {
		apRun(t, o, r, 40+r.intn(70), i)
		o.stat("histories", 1)
	}
}

// TestVerifC01APReplay re-runs a recorded history (VERIF_REPLAY_FILE, one protocol line per line)
// on the real code, printing the ADD-PATH peers' views and bookkeeping and the oracle's verdicts.
func TestVerifC01APReplay(t *testing.T) {
	file := os.Getenv("VERIF_REPLAY_FILE")
	if file == "" {
		t.Skip("VERIF_REPLAY_FILE not set")
	}
	data, err := os.ReadFile(file)
	if err != nil {
		t.Fatal(err)
	}
	sc := newApScenario(t, nil)
	sc.verbose = true
	defer sc.w.stop()
	for _, line := range strings.Split(string(data), "\n") {
		line = strings.TrimSpace(line)
		if line == "" || strings.HasPrefix(line, "world") {
			continue
		}
		sc.do(line)
		sc.check()
	}
}

func apKindIdx(k string) int {
	for i, s := range apKinds {
		if s == k {
			return i
		}
	}
	return 0
}
