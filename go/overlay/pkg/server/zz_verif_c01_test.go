//go:build verif

package server

// C01 / C02 correspondence harness on the "world" (zz_verif_world_test.go): random histories of
// session up/down, announcements, replacements and withdrawals over a small prefix pool and
// 3-5 peers of different kinds; after every flush point the per-peer views (what the far end
// holds after applying every UPDATE written), the Loc-RIB order and each Adj-RIB-In are
// compared with the Lean model (Model/World.lean), and two model-independent oracles run:
//   C01: accumulated view == fresh export of the current Loc-RIB (the real s.filterpath on the
//        current best path with old = nil), for every established peer and prefix;
//   C02: Adj-RIB-In == latest un-withdrawn announcement per (prefix, path-id) of the current
//        session; Loc-RIB == those that pass the loop checks; accepted counter == their number.

import (
	"encoding/binary"
	"fmt"
	"net/netip"
	"os"
	"sort"
	"runtime"
	"strings"
	"testing"
	"time"

	"github.com/eapache/channels"

	"github.com/osrg/gobgp/v4/internal/pkg/table"
	"github.com/osrg/gobgp/v4/pkg/apiutil"
	"github.com/osrg/gobgp/v4/pkg/packet/bgp"
)

type c01Route struct {
	pfx, pathID, marker int
	lp                  *uint32
	origin              uint8
	med                 *uint32
	originator          *netip.Addr
	cluster             []netip.Addr
	comms               []uint32
	segs                [][]uint32 // each: typ followed by members
	// nh: NEXT_HOP when it is not the announcing peer's own address — a "twin" of another
	// internal peer's route carries that route's attributes octet for octet (same marker too)
	nh netip.Addr
}

func c01U32(a netip.Addr) uint32 { b := a.As4(); return binary.BigEndian.Uint32(b[:]) }

func (r *c01Route) line() string {
	var sb strings.Builder
	fmt.Fprintf(&sb, "%d %d %d", r.pfx, r.pathID, r.marker)
	if r.lp != nil {
		fmt.Fprintf(&sb, " 1 %d", *r.lp)
	} else {
		sb.WriteString(" 0 0")
	}
	fmt.Fprintf(&sb, " %d", r.origin)
	if r.med != nil {
		fmt.Fprintf(&sb, " 1 %d", *r.med)
	} else {
		sb.WriteString(" 0 0")
	}
	if r.originator != nil {
		fmt.Fprintf(&sb, " 1 %d", c01U32(*r.originator))
	} else {
		sb.WriteString(" 0 0")
	}
	fmt.Fprintf(&sb, " %d", len(r.cluster))
	for _, c := range r.cluster {
		fmt.Fprintf(&sb, " %d", c01U32(c))
	}
	fmt.Fprintf(&sb, " %d", len(r.comms))
	for _, c := range r.comms {
		fmt.Fprintf(&sb, " %d", c)
	}
	fmt.Fprintf(&sb, " %d", len(r.segs))
	for _, s := range r.segs {
		fmt.Fprintf(&sb, " %d %d", s[0], len(s)-1)
		for _, a := range s[1:] {
			fmt.Fprintf(&sb, " %d", a)
		}
	}
	if r.nh.IsValid() {
		// ignored by the model (its routes have no next hop); needed to replay the history
		fmt.Fprintf(&sb, " nh %d", c01U32(r.nh))
	}
	return sb.String()
}

var c01Prefixes = []string{"10.1.0.0/24", "10.2.0.0/24", "10.3.0.0/16"}

func c01Nlri(i int) bgp.NLRI {
	n, _ := bgp.NewIPAddrPrefix(netip.MustParsePrefix(c01Prefixes[i]))
	return n
}

func (r *c01Route) msg(from *vwPeer) *bgp.BGPMessage {
	attrs := []bgp.PathAttributeInterface{bgp.NewPathAttributeOrigin(r.origin)}
	params := make([]bgp.AsPathParamInterface, 0, len(r.segs))
	for _, s := range r.segs {
		params = append(params, bgp.NewAs4PathParam(uint8(s[0]), append([]uint32{}, s[1:]...)))
	}
	attrs = append(attrs, bgp.NewPathAttributeAsPath(params))
	nha := from.spec.addr
	if r.nh.IsValid() {
		nha = r.nh
	}
	nh, _ := bgp.NewPathAttributeNextHop(nha)
	attrs = append(attrs, nh)
	if r.med != nil {
		attrs = append(attrs, bgp.NewPathAttributeMultiExitDisc(*r.med))
	}
	if r.lp != nil {
		attrs = append(attrs, bgp.NewPathAttributeLocalPref(*r.lp))
	}
	comms := append([]uint32{0xfffe0000 | uint32(r.marker)}, r.comms...)
	attrs = append(attrs, bgp.NewPathAttributeCommunities(comms))
	if r.originator != nil {
		a, _ := bgp.NewPathAttributeOriginatorId(*r.originator)
		attrs = append(attrs, a)
	}
	if len(r.cluster) > 0 {
		a, _ := bgp.NewPathAttributeClusterList(r.cluster)
		attrs = append(attrs, a)
	}
	return bgp.NewBGPUpdateMessage(nil, attrs, []bgp.PathNLRI{{NLRI: c01Nlri(r.pfx), ID: uint32(r.pathID)}})
}

// c01LocalPath builds the table.Path a locally injected route becomes after API conversion
// (source nil = table.localSource).
func c01LocalPath(rt *c01Route, withdraw bool, ts time.Time) *table.Path {
	nlri := bgp.PathNLRI{NLRI: c01Nlri(rt.pfx)}
	if withdraw {
		return table.NewPath(bgp.RF_IPv4_UC, nil, nlri, true, nil, ts, false)
	}
	attrs := []bgp.PathAttributeInterface{bgp.NewPathAttributeOrigin(rt.origin)}
	params := make([]bgp.AsPathParamInterface, 0, len(rt.segs))
	for _, s := range rt.segs {
		params = append(params, bgp.NewAs4PathParam(uint8(s[0]), append([]uint32{}, s[1:]...)))
	}
	attrs = append(attrs, bgp.NewPathAttributeAsPath(params))
	nh, _ := bgp.NewPathAttributeNextHop(netip.MustParseAddr("10.255.0.1"))
	attrs = append(attrs, nh)
	if rt.med != nil {
		attrs = append(attrs, bgp.NewPathAttributeMultiExitDisc(*rt.med))
	}
	if rt.lp != nil {
		attrs = append(attrs, bgp.NewPathAttributeLocalPref(*rt.lp))
	}
	attrs = append(attrs, bgp.NewPathAttributeCommunities([]uint32{0xfffe0000 | uint32(rt.marker)}))
	return table.NewPath(bgp.RF_IPv4_UC, nil, nlri, false, attrs, ts, false)
}

func c01Kind(k string) int {
	switch k {
	case "ebgp":
		return 0
	case "ibgp":
		return 1
	case "rrc":
		return 2
	}
	return 3
}

type c01Scenario struct {
	w      *vWorld
	o      *vOut
	r      *vRand
	marker int
	// oracle bookkeeping (C02): per peer, latest un-withdrawn announcement per key
	latest []map[string]*c01Route
	local  map[string]*c01Route // locally injected routes, by "pfx#pathid"
	// best-path watcher (C02): events are read straight from the watcher's queue
	bw       *watcher
	bestSeen map[string]uint32 // prefix -> marker, rebuilt by replaying the notification stream
}

// c01WatchBest registers a best-path watcher without its pump goroutine, so that the harness
// can read every notification synchronously from the queue notifyWatcher fills.
func (sc *c01Scenario) watchBest() {
	w := &watcher{s: sc.w.s, ch: channels.NewInfiniteChannel(), realCh: make(chan watchEvent, 1), filters: map[watchEventType]func(watchEvent) bool{}}
	sc.w.s.watcherMu.Lock()
	sc.w.s.watcherMap[watchEventTypeBestPath] = append(sc.w.s.watcherMap[watchEventTypeBestPath], w)
	sc.w.s.watcherMu.Unlock()
	sc.bw, sc.bestSeen = w, map[string]uint32{}
}

func (sc *c01Scenario) unwatchBest() {
	s := sc.w.s
	s.watcherMu.Lock()
	l := s.watcherMap[watchEventTypeBestPath]
	for i, v := range l {
		if v == sc.bw {
			s.watcherMap[watchEventTypeBestPath] = append(l[:i], l[i+1:]...)
			break
		}
	}
	s.watcherMu.Unlock()
	sc.bw.ch.Close()
	for range sc.bw.ch.Out() {
	}
}

// replayBest applies every queued best-path notification, in order.
func (sc *c01Scenario) replayBest() {
	ch := sc.bw.ch
	for {
		select {
		case o := <-ch.Out():
			if ev, ok := o.(*watchEventBestPath); ok {
				for _, p := range ev.PathList {
					if p == nil {
						continue
					}
					if p.IsWithdraw {
						delete(sc.bestSeen, p.GetNlri().String())
					} else {
						sc.bestSeen[p.GetNlri().String()] = vwMarker(p.GetPathAttrs())
					}
				}
			}
			continue
		default:
		}
		if ch.Len() > 0 {
			runtime.Gosched()
			continue
		}
		time.Sleep(50 * time.Microsecond)
		if ch.Len() == 0 {
			select {
			case o := <-ch.Out():
				if ev, ok := o.(*watchEventBestPath); ok {
					for _, p := range ev.PathList {
						if p == nil {
							continue
						}
						if p.IsWithdraw {
							delete(sc.bestSeen, p.GetNlri().String())
						} else {
							sc.bestSeen[p.GetNlri().String()] = vwMarker(p.GetPathAttrs())
						}
					}
				}
				continue
			default:
			}
			return
		}
	}
}

// oracleBestStream (C02): the best-path notification stream replayed in order reproduces the
// current best-path table.
func (sc *c01Scenario) oracleBestStream(history []string) {
	sc.replayBest()
	want := map[string]uint32{}
	for _, p := range sc.w.s.globalRib.GetBestPathList(table.GLOBAL_RIB_NAME, 0, []bgp.Family{bgp.RF_IPv4_UC}) {
		want[p.GetNlri().String()] = vwMarker(p.GetPathAttrs())
	}
	for _, pf := range c01Prefixes {
		if sc.bestSeen[pf] != want[pf] {
			sc.o.fail("best-stream-replay!=best-table", map[string]any{"prefix": pf, "replayed_marker": sc.bestSeen[pf], "table_marker": want[pf], "history": append([]string{}, history...)})
			sc.bestSeen[pf] = want[pf] // report each divergence once
			if want[pf] == 0 {
				delete(sc.bestSeen, pf)
			}
		}
	}
}

func c01GenRoute(r *vRand, sc *c01Scenario, from *vwPeer) *c01Route {
	sc.marker++
	rt := &c01Route{pfx: r.intn(len(c01Prefixes)), marker: sc.marker, origin: uint8(r.pick(0, 0, 1, 2))}
	if from.spec.addPathRx {
		rt.pathID = r.intn(3)
	}
	if r.chance(40) {
		v := uint32(r.pick(50, 100, 100, 200))
		rt.lp = &v
	}
	if r.chance(40) {
		v := uint32(r.pick(0, 10, 20))
		rt.med = &v
	}
	// AS_PATH: plausible for the peer kind, sometimes containing the local AS (inbound loop),
	// another peer's AS (export loop prevention) or odd segment types
	var seq []uint32
	if from.spec.kind == "ebgp" {
		seq = append(seq, from.spec.as)
	}
	for n := r.intn(3); n > 0; n-- {
		seq = append(seq, uint32(r.pick(100, 200, 300, 65001, 65002, 65003, 65000)))
	}
	if len(seq) > 0 {
		rt.segs = append(rt.segs, append([]uint32{2}, seq...))
	}
	if r.chance(12) {
		rt.segs = append(rt.segs, []uint32{1, uint32(r.pick(100, 65002, 65000)), 400})
	}
	if r.chance(6) {
		// a leading AS_CONFED_SEQUENCE; sometimes it holds the local AS (a loop among confederation
		// members), also as the ONLY segment of the path (AS_PATH length 0 by the counting rules)
		rt.segs = append([][]uint32{{3, uint32(r.pick(65100, 65100, 65000))}}, rt.segs...)
	}
	if from.spec.kind != "ebgp" {
		if r.chance(25) {
			a := netip.AddrFrom4([4]byte{10, 0, 0, byte(1 + r.intn(6))})
			if r.chance(25) {
				a = sc.w.rid
			}
			rt.originator = &a
		}
		if r.chance(25) {
			for n := 1 + r.intn(2); n > 0; n-- {
				a := netip.AddrFrom4([4]byte{10, 9, 0, byte(1 + r.intn(3))})
				if r.chance(30) {
					a = sc.w.rid
				}
				rt.cluster = append(rt.cluster, a)
			}
		}
	}
	if r.chance(20) {
		rt.comms = []uint32{uint32(r.pick(6553600, 6553601))}
	}
	return rt
}

// c01Twin: a copy of a route another INTERNAL peer currently announces, to be announced by
// internal peer i with the same attributes octet for octet (same next hop, same marker): two
// route reflectors / iBGP peers relaying one external route. Only the source tells the two apart.
func c01Twin(r *vRand, sc *c01Scenario, i int) *c01Route {
	w := sc.w
	vp := w.peers[i]
	if vp.spec.kind == "ebgp" {
		return nil
	}
	for k, q := range w.peers {
		if k == i || q.deleted || !q.up || q.spec.kind == "ebgp" || len(sc.latest[k]) == 0 {
			continue
		}
		keys := make([]string, 0, len(sc.latest[k]))
		for key := range sc.latest[k] {
			keys = append(keys, key)
		}
		sort.Strings(keys)
		cp := *sc.latest[k][keys[r.intn(len(keys))]]
		if !cp.nh.IsValid() {
			cp.nh = q.spec.addr
		}
		if !vp.spec.addPathRx {
			cp.pathID = 0
		}
		return &cp
	}
	return nil
}

func c01SrcKind(w *vWorld, p *table.Path) string {
	if p == nil {
		return "none"
	}
	if p.IsLocal() {
		return "local"
	}
	for _, vp := range w.peers {
		if vp.spec.addr == p.GetSource().Address {
			return vp.spec.kind
		}
	}
	return "unknown"
}

// c01OracleC01: the accumulated view of every established peer equals the fresh export of the
// current Loc-RIB.
func (sc *c01Scenario) oracleC01(history []string) {
	w := sc.w
	for _, vp := range w.peers {
		if !vp.up {
			continue
		}
		if vp.spec.sendMax > 0 {
			sc.oracleAddPath(vp, history)
			continue
		}
		for i := range c01Prefixes {
			key := fmt.Sprintf("%s#0", c01Prefixes[i])
			var best *table.Path
			for _, p := range w.s.globalRib.GetBestPathList(table.GLOBAL_RIB_NAME, 0, []bgp.Family{bgp.RF_IPv4_UC}) {
				if p.GetNlri().String() == c01Prefixes[i] {
					best = p
				}
			}
			want := uint32(0)
			var exp *table.Path
			if best != nil {
				if exp = w.s.filterpath(vp.p, best, nil); exp != nil && !exp.IsWithdraw {
					want = vwMarker(exp.GetPathAttrs())
				}
			}
			have := vp.view[key].marker
			if have != want {
				var heldSrc string = "none"
				if have != 0 {
					heldSrc = "gone"
					for _, p := range w.s.globalRib.GetPathList(table.GLOBAL_RIB_NAME, 0, []bgp.Family{bgp.RF_IPv4_UC}) {
						if vwMarker(p.GetPathAttrs()) == have {
							heldSrc = c01SrcKind(w, p)
						}
					}
				}
				cls := fmt.Sprintf("view!=fresh-export:target=%s,held-src=%s,best-src=%s,want=%v", vp.spec.kind, heldSrc, c01SrcKind(w, best), want != 0)
				sc.o.fail(cls, map[string]any{"peer": vp.spec.addr.String(), "prefix": c01Prefixes[i], "holds_marker": have, "fresh_export_marker": want, "history": append([]string{}, history...)})
			}
		}
	}
}

// oracleAddPath: toward a peer with ADD-PATH send, per destination: only eligible paths are
// advertised (eligible = passes the real filterpath with old = nil), exactly min(send-max,
// #eligible) of them, each under the path identifier the Loc-RIB assigned to it (stable).
func (sc *c01Scenario) oracleAddPath(vp *vwPeer, history []string) {
	w := sc.w
	for i := range c01Prefixes {
		// (marker, local id) pairs: twins of one route announced by two internal peers share a marker
		eligible := map[[2]uint32]bool{}
		eligibleMarker := map[uint32]bool{}
		for _, p := range w.s.globalRib.GetPathList(table.GLOBAL_RIB_NAME, 0, []bgp.Family{bgp.RF_IPv4_UC}) {
			if p.GetNlri().String() != c01Prefixes[i] {
				continue
			}
			if e := w.s.filterpath(vp.p, p, nil); e != nil && !e.IsWithdraw {
				m := vwMarker(p.GetPathAttrs())
				eligible[[2]uint32{m, p.LocalID()}] = true
				eligibleMarker[m] = true
			}
		}
		var held [][2]uint32 // (marker, advertised id)
		ids := map[uint32]bool{}
		for k, h := range vp.view {
			parts := strings.Split(k, "#")
			if parts[0] != c01Prefixes[i] {
				continue
			}
			id := uint32(0)
			fmt.Sscan(parts[1], &id)
			held = append(held, [2]uint32{h.marker, id})
			ids[id] = true
		}
		sort.Slice(held, func(a, b int) bool { return held[a][0] < held[b][0] || held[a][0] == held[b][0] && held[a][1] < held[b][1] })
		det := map[string]any{"peer": vp.spec.addr.String(), "send_max": vp.spec.sendMax, "prefix": c01Prefixes[i], "eligible": fmt.Sprint(eligible), "held": fmt.Sprint(held), "history": append([]string{}, history...)}
		for _, h := range held {
			if !eligibleMarker[h[0]] {
				sc.o.fail("addpath:ineligible-or-gone-route-advertised", det)
			} else if !eligible[h] {
				sc.o.fail("addpath:path-id-not-stable", det)
			}
		}
		want := len(eligible)
		if want > int(vp.spec.sendMax) {
			want = int(vp.spec.sendMax)
		}
		if len(held) > int(vp.spec.sendMax) {
			sc.o.fail("addpath:more-than-send-max", det)
		} else if len(held) < want {
			sc.o.fail("addpath:eligible-route-missing", det)
		}
		if len(ids) != len(held) {
			sc.o.fail("addpath:two-routes-one-id", det)
		}
	}
}

// oracleC02: Adj-RIB-In and Loc-RIB against the op log.
func (sc *c01Scenario) oracleC02(history []string) {
	w := sc.w
	wantRib := map[string][]int{}
	for _, rt := range sc.local {
		wantRib[c01Prefixes[rt.pfx]] = append(wantRib[c01Prefixes[rt.pfx]], rt.marker)
	}
	for i, vp := range w.peers {
		if vp.deleted {
			continue
		}
		wantAdj := []string{}
		accepted := 0
		for _, rt := range sc.latest[i] {
			rej := false
			cnt := 0
			for _, s := range rt.segs {
				for _, a := range s[1:] {
					if a == w.as {
						cnt++
					}
				}
			}
			if cnt > int(vp.spec.allowOwnAs) {
				rej = true
			}
			if vp.spec.as == w.as && rt.originator != nil && *rt.originator == w.rid {
				rej = true
			}
			tag := ""
			if rej {
				tag = "r"
			} else {
				accepted++
				wantRib[c01Prefixes[rt.pfx]] = append(wantRib[c01Prefixes[rt.pfx]], rt.marker)
			}
			wantAdj = append(wantAdj, fmt.Sprintf("%s#%d=%d%s", c01Prefixes[rt.pfx], rt.pathID, rt.marker, tag))
		}
		sort.Strings(wantAdj)
		haveAdj := []string{}
		for _, p := range vp.p.adjRibIn.PathList([]bgp.Family{bgp.RF_IPv4_UC}, false) {
			tag := ""
			if p.IsRejected() {
				tag = "r"
			}
			haveAdj = append(haveAdj, fmt.Sprintf("%s#%d=%d%s", p.GetNlri().String(), p.RemoteID(), vwMarker(p.GetPathAttrs()), tag))
		}
		sort.Strings(haveAdj)
		if strings.Join(haveAdj, " ") != strings.Join(wantAdj, " ") {
			sc.o.fail("adj-in!=latest-unwithdrawn", map[string]any{"peer": vp.spec.addr.String(), "have": haveAdj, "want": wantAdj, "history": append([]string{}, history...)})
		}
		if n := vp.p.adjRibIn.Accepted([]bgp.Family{bgp.RF_IPv4_UC}); n != accepted {
			sc.o.fail("accepted-counter", map[string]any{"peer": vp.spec.addr.String(), "have": n, "want": accepted, "history": append([]string{}, history...)})
		}
		if n := vp.p.adjRibIn.Count([]bgp.Family{bgp.RF_IPv4_UC}); n != len(wantAdj) {
			sc.o.fail("received-counter", map[string]any{"peer": vp.spec.addr.String(), "have": n, "want": len(wantAdj)})
		}
	}
	haveRib := map[string][]int{}
	for _, p := range w.s.globalRib.GetPathList(table.GLOBAL_RIB_NAME, 0, []bgp.Family{bgp.RF_IPv4_UC}) {
		haveRib[p.GetNlri().String()] = append(haveRib[p.GetNlri().String()], int(vwMarker(p.GetPathAttrs())))
	}
	for _, pf := range c01Prefixes {
		a, b := append([]int{}, haveRib[pf]...), append([]int{}, wantRib[pf]...)
		sort.Ints(a)
		sort.Ints(b)
		if fmt.Sprint(a) != fmt.Sprint(b) {
			sc.o.fail("loc-rib!=accepted-latest", map[string]any{"prefix": pf, "have": a, "want": b, "history": append([]string{}, history...)})
		}
	}
}

func c01Run(t *testing.T, o *vOut, r *vRand, nOps int, idx int, addPathMode bool) {
	w := newVWorld(t, 65000, "10.255.0.1")
	defer w.stop()
	sc := &c01Scenario{w: w, o: o, r: r, local: map[string]*c01Route{}}
	sc.watchBest()
	defer sc.unwatchBest()
	o.op("world %d %d", w.as, c01U32(w.rid))
	nPeers := 3 + r.intn(3)
	peerLines := []string{}
	kinds := []string{"ebgp", "ebgp", "ibgp", "ibgp", "rrc", "rrc"}
	ridPool := r.perm(8)
	mkPeer := func(i int) string {
		k := kinds[r.intn(len(kinds))]
		sp := vwPeerSpec{kind: k, as: 65000, rid: netip.AddrFrom4([4]byte{10, 0, 0, byte(1 + ridPool[i])}),
			addr: netip.AddrFrom4([4]byte{192, 168, 0, byte(1 + i)})}
		if k == "ebgp" {
			sp.as = uint32(65001 + r.intn(3))
			if r.chance(15) {
				sp.allowOwnAs = 1
			}
		}
		// parallel sessions to the same router: same router-id (and AS) on two addresses
		if i > 0 && r.chance(15) {
			prev := w.peers[r.intn(i)].spec
			if prev.kind == k || (prev.kind != "ebgp" && k != "ebgp") {
				sp.rid, sp.as = prev.rid, prev.as
			}
		}
		if addPathMode && r.chance(35) {
			sp.sendMax = uint8(1 + r.intn(3))
		}
		if addPathMode && r.chance(35) {
			sp.addPathRx = true
		}
		w.addPeer(sp)
		sc.latest = append(sc.latest, map[string]*c01Route{})
		rx := 0
		if sp.addPathRx {
			rx = 1
		}
		o.stat("peer_kind_"+k, 1)
		return fmt.Sprintf("peer %d %d %d %d %d %d %d %d", i, c01Kind(k), sp.as, c01U32(sp.rid), c01U32(sp.addr), sp.sendMax, rx, sp.allowOwnAs)
	}
	for i := 0; i < nPeers; i++ {
		peerLines = append(peerLines, mkPeer(i))
		o.op("%s", peerLines[len(peerLines)-1])
	}
	history := append([]string{}, peerLines...)
	note := func(f string, a ...any) {
		s := fmt.Sprintf(f, a...)
		history = append(history, s)
		o.op("%s", s)
	}
	// most peers come up early
	for i, vp := range w.peers {
		if r.chance(80) {
			w.sessionUp(vp, nil)
			note("up %d", i)
		}
	}
	check := func() {
		for _, vp := range w.peers {
			w.flush(vp)
		}
		for i, vp := range w.peers {
			if vp.deleted {
				continue
			}
			if vp.up && vp.spec.sendMax == 0 {
				o.ask("view"+vp.viewString2(), "view %d", i)
			}
			adj := []string{}
			for _, p := range vp.p.adjRibIn.PathList([]bgp.Family{bgp.RF_IPv4_UC}, false) {
				pi := 0
				for k, s := range c01Prefixes {
					if s == p.GetNlri().String() {
						pi = k
					}
				}
				tag := ""
				if p.IsRejected() {
					tag = "r"
				}
				adj = append(adj, fmt.Sprintf("%d#%d=%d%s", pi, p.RemoteID(), vwMarker(p.GetPathAttrs()), tag))
			}
			sort.Strings(adj)
			s := ""
			for _, a := range adj {
				s += " " + a
			}
			o.ask(fmt.Sprintf("adjin%s | count %d accepted %d", s, vp.p.adjRibIn.Count([]bgp.Family{bgp.RF_IPv4_UC}), vp.p.adjRibIn.Accepted([]bgp.Family{bgp.RF_IPv4_UC})), "adjin %d", i)
		}
		for k, pf := range c01Prefixes {
			s := "rib"
			if d := w.s.globalRib.GetDestination(table.NewPath(bgp.RF_IPv4_UC, nil, bgp.PathNLRI{NLRI: c01Nlri(k)}, true, nil, w.now(), false)); d != nil {
				for _, p := range d.GetAllKnownPathList() {
					s += fmt.Sprintf(" %d", vwMarker(p.GetPathAttrs()))
				}
			}
			_ = pf
			o.ask(s, "rib %d", k)
		}
		sc.oracleC01(history)
		sc.oracleC02(history)
		sc.oracleBestStream(history)
	}
	for n := 0; n < nOps; n++ {
		i := r.intn(len(w.peers))
		vp := w.peers[i]
		x := r.intn(100)
		if vp.deleted && x < 93 {
			continue
		}
		switch {
		case x < 8:
			if vp.up {
				w.sessionDown(vp, fsmReadFailed)
				sc.latest[i] = map[string]*c01Route{}
				note("down %d", i)
				o.stat("op_down", 1)
			} else {
				w.sessionUp(vp, nil)
				note("up %d", i)
				o.stat("op_up", 1)
			}
		case x >= 96:
			// locally injected route (API AddPath) or its removal (DeletePath)
			if r.chance(65) {
				sc.marker++
				rt := &c01Route{pfx: r.intn(len(c01Prefixes)), marker: sc.marker, origin: uint8(r.pick(0, 2))}
				if r.chance(30) {
					v := uint32(r.pick(100, 200))
					rt.lp = &v
				}
				if r.chance(30) {
					v := uint32(r.pick(0, 10))
					rt.med = &v
				}
				if r.chance(30) {
					rt.segs = [][]uint32{{2, uint32(r.pick(65001, 65002, 300))}}
				}
				p := c01LocalPath(rt, false, w.now())
				w.local(p)
				sc.local[fmt.Sprintf("%d#0", rt.pfx)] = rt
				note("ladd %s", rt.line())
				o.stat("op_local_add", 1)
			} else if len(sc.local) > 0 && r.chance(25) {
				// the "delete all locally generated paths" form of DeletePath (no path, no UUID),
				// through the real management call; for the model it is one ldel per local route
				if err := w.s.DeletePath(apiutil.DeletePathRequest{DeleteAll: true}); err != nil {
					t.Fatalf("DeletePath(all): %v", err)
				}
				keys := make([]string, 0, len(sc.local))
				for k := range sc.local {
					keys = append(keys, k)
				}
				sort.Strings(keys)
				for _, k := range keys {
					note("ldel %d 0", sc.local[k].pfx)
					delete(sc.local, k)
				}
				o.stat("op_local_del_all", 1)
			} else {
				pfx := r.intn(len(c01Prefixes))
				w.local(c01LocalPath(&c01Route{pfx: pfx}, true, w.now()))
				delete(sc.local, fmt.Sprintf("%d#0", pfx))
				note("ldel %d 0", pfx)
				o.stat("op_local_del", 1)
			}
			if r.chance(35) {
				check()
			}
			continue
		case x >= 91 && x < 93:
			// a peer is added to the configuration at run time (AddPeer); it usually comes up soon
			if len(w.peers) >= 8 {
				continue
			}
			k := len(w.peers)
			note("%s", mkPeer(k))
			o.stat("op_add_peer", 1)
			if r.chance(70) {
				w.sessionUp(w.peers[k], nil)
				note("up %d", k)
			}
			if r.chance(35) {
				check()
			}
			continue
		case x >= 93:
			// the peer is deleted from the configuration (DeletePeer)
			if vp.deleted || len(w.peers) < 3 {
				continue
			}
			w.delPeer(vp)
			sc.latest[i] = map[string]*c01Route{}
			note("del %d", i)
			o.stat("op_del_peer", 1)
			if r.chance(35) {
				check()
			}
			continue
		case x < 12:
			// a session comes up while another peer's UPDATE is being processed: the UPDATE is
			// handled after the initial table transfer of the new session and before the FSM
			// goroutine publishes its state (fsmHandler.loop stores the state after the callback)
			if vp.up {
				continue
			}
			var src *vwPeer
			si := 0
			for k, q := range w.peers {
				if q.up && !q.deleted && q != vp {
					src, si = q, k
				}
			}
			if src == nil {
				continue
			}
			rt := c01GenRoute(r, sc, src)
			w.sessionUp(vp, func() { w.recv(src, rt.msg(src)) })
			sc.latest[si][fmt.Sprintf("%d#%d", rt.pfx, rt.pathID)] = rt
			note("up %d", i)
			note("ann %d %s", si, rt.line())
			o.stat("op_up_with_update_in_window", 1)
		case x < 70:
			if !vp.up {
				continue
			}
			rt := c01GenRoute(r, sc, vp)
			key := fmt.Sprintf("%d#%d", rt.pfx, rt.pathID)
			if prev := sc.latest[i][key]; prev != nil && r.chance(12) {
				// re-announce exactly the stored route (timestamp retention path)
				cp := *prev
				rt = &cp
				o.stat("op_reannounce_identical", 1)
			} else if tw := c01Twin(r, sc, i); tw != nil && r.chance(10) {
				rt, key = tw, fmt.Sprintf("%d#%d", tw.pfx, tw.pathID)
				o.stat("op_ann_twin_of_other_peer", 1)
			}
			w.recv(vp, rt.msg(vp))
			sc.latest[i][key] = rt
			note("ann %d %s", i, rt.line())
			o.stat("op_ann", 1)
		default:
			if !vp.up {
				continue
			}
			pfx, pid := r.intn(len(c01Prefixes)), 0
			if vp.spec.addPathRx {
				pid = r.intn(3)
			}
			w.recv(vp, bgp.NewBGPUpdateMessage([]bgp.PathNLRI{{NLRI: c01Nlri(pfx), ID: uint32(pid)}}, nil, nil))
			delete(sc.latest[i], fmt.Sprintf("%d#%d", pfx, pid))
			note("wd %d %d %d", i, pfx, pid)
			o.stat("op_wd", 1)
		}
		if r.chance(35) {
			check()
		}
	}
	check()
	if idx < 2 {
		o.sample(strings.Join(history, " ; "))
	}
}

// viewString2 renders the view with prefix indices (the model knows prefixes by index).
func (vp *vwPeer) viewString2() string {
	type e struct {
		p, id  int
		marker uint32
	}
	var es []e
	for k, h := range vp.view {
		parts := strings.Split(k, "#")
		pi := 0
		for i, s := range c01Prefixes {
			if s == parts[0] {
				pi = i
			}
		}
		id := 0
		fmt.Sscan(parts[1], &id)
		es = append(es, e{pi, id, h.marker})
	}
	sort.Slice(es, func(i, j int) bool { return es[i].p < es[j].p || es[i].p == es[j].p && es[i].id < es[j].id })
	var sb strings.Builder
	for _, x := range es {
		fmt.Fprintf(&sb, " %d#%d=%d", x.p, x.id, x.marker)
	}
	return sb.String()
}

// c02PrefixLimitCase (oracle only, C02): the UPDATE that takes a peer over its prefix limit is
// applied to the Adj-RIB-In and the session is shut; whatever that UPDATE withdrew must leave the
// Loc-RIB as well — after the teardown no route of the peer may be left anywhere.
func c02PrefixLimitCase(t *testing.T, o *vOut) {
	for _, withWithdraw := range []bool{false, true} {
		w := newVWorld(t, 65000, "10.255.0.1")
		src := w.addPeer(vwPeerSpec{kind: "ebgp", as: 65001, rid: netip.MustParseAddr("10.0.0.1"), addr: netip.MustParseAddr("192.168.0.1"), maxPrefixes: 2})
		obs := w.addPeer(vwPeerSpec{kind: "ebgp", as: 65002, rid: netip.MustParseAddr("10.0.0.2"), addr: netip.MustParseAddr("192.168.0.2")})
		w.sessionUp(src, nil)
		w.sessionUp(obs, nil)
		mk := func(i int) *c01Route { return &c01Route{pfx: i, marker: 100 + i, segs: [][]uint32{{2, 65001}}} }
		w.recv(src, mk(0).msg(src))
		w.recv(src, mk(1).msg(src))
		// one UPDATE: (withdraw prefix 0,) announce prefix 2 and a fourth prefix -> 3 or 4 > 2
		u := mk(2).msg(src)
		body := u.Body.(*bgp.BGPUpdate)
		extra, _ := bgp.NewIPAddrPrefix(netip.MustParsePrefix("10.9.0.0/24"))
		body.NLRI = append(body.NLRI, bgp.PathNLRI{NLRI: extra})
		if !withWithdraw {
			extra2, _ := bgp.NewIPAddrPrefix(netip.MustParsePrefix("10.9.1.0/24"))
			body.NLRI = append(body.NLRI, bgp.PathNLRI{NLRI: extra2})
		} else {
			body.WithdrawnRoutes = []bgp.PathNLRI{{NLRI: c01Nlri(0)}}
			extra2, _ := bgp.NewIPAddrPrefix(netip.MustParsePrefix("10.9.1.0/24"))
			body.NLRI = append(body.NLRI, bgp.PathNLRI{NLRI: extra2})
		}
		w.recv(src, u)
		o.stat("prefix_limit_cases", 1)
		// the session is shut (Cease / maximum number of prefixes reached): not graceful
		w.sessionDown(src, fsmReadFailed)
		w.flush(obs)
		var left []string
		for _, p := range w.s.globalRib.GetPathList(table.GLOBAL_RIB_NAME, 0, []bgp.Family{bgp.RF_IPv4_UC}) {
			if !p.IsLocal() && p.GetSource().Address == src.spec.addr {
				left = append(left, p.GetNlri().String())
			}
		}
		sort.Strings(left)
		if len(left) > 0 {
			o.fail("loc-rib-keeps-route-of-torn-down-session:prefix-limit-update", map[string]any{"left_in_loc_rib": left, "the_update_withdrew_a_route": withWithdraw,
				"history": "peer max-prefixes 2; announce 10.1.0.0/24, 10.2.0.0/24; one UPDATE withdrawing 10.1.0.0/24 (if so) and announcing three more; session shut for the prefix limit"})
		}
		if len(obs.view) > 0 {
			o.fail("peer-keeps-route-of-torn-down-session:prefix-limit-update", map[string]any{"observer_holds": obs.viewString2(), "the_update_withdrew_a_route": withWithdraw})
		}
		w.stop()
	}
}

func TestVerifC01(t *testing.T) {
	o := vOpen(t)
	defer o.close()
	c02PrefixLimitCase(t, o)
	r := &vRand{s: o.seed*104729 + 11}
	n := 250
	if o.thorough {
		n = 2500
	}
	for i := 0; i < n; i++ {
		c01Run(t, o, r, 20+r.intn(60), i, i%3 == 2)
		o.stat("histories", 1)
	}
}

// c01ParseRoute is the inverse of (*c01Route).line.
func c01ParseRoute(f []string) *c01Route {
	n := func(i int) int { v := 0; fmt.Sscan(f[i], &v); return v }
	rt := &c01Route{pfx: n(0), pathID: n(1), marker: n(2), origin: uint8(n(5))}
	if n(3) == 1 {
		v := uint32(n(4))
		rt.lp = &v
	}
	if n(6) == 1 {
		v := uint32(n(7))
		rt.med = &v
	}
	ip := func(v int) netip.Addr { return netip.AddrFrom4([4]byte{byte(v >> 24), byte(v >> 16), byte(v >> 8), byte(v)}) }
	if n(8) == 1 {
		a := ip(n(9))
		rt.originator = &a
	}
	i := 10
	for k := n(i); k > 0; k-- {
		i++
		rt.cluster = append(rt.cluster, ip(n(i)))
	}
	i++
	for k := n(i); k > 0; k-- {
		i++
		rt.comms = append(rt.comms, uint32(n(i)))
	}
	i++
	for k := n(i); k > 0; k-- {
		typ, cnt := n(i+1), n(i+2)
		seg := []uint32{uint32(typ)}
		for j := 0; j < cnt; j++ {
			seg = append(seg, uint32(n(i+3+j)))
		}
		rt.segs = append(rt.segs, seg)
		i += 2 + cnt
	}
	if i+2 < len(f) && f[i+1] == "nh" {
		rt.nh = ip(n(i + 2))
	}
	return rt
}

// TestVerifC01Replay re-runs a recorded history (VERIF_REPLAY_FILE: one protocol line per line,
// `peer`, `up`, `down`, `ann`, `wd`) on the real code and prints every view after every step.
func TestVerifC01Replay(t *testing.T) {
	file := os.Getenv("VERIF_REPLAY_FILE")
	if file == "" {
		t.Skip("VERIF_REPLAY_FILE not set")
	}
	data, err := os.ReadFile(file)
	if err != nil {
		t.Fatal(err)
	}
	w := newVWorld(t, 65000, "10.255.0.1")
	defer w.stop()
	kinds := []string{"ebgp", "ibgp", "rrc", "rsc"}
	ip := func(v int) netip.Addr { return netip.AddrFrom4([4]byte{byte(v >> 24), byte(v >> 16), byte(v >> 8), byte(v)}) }
	for _, line := range strings.Split(string(data), "\n") {
		f := strings.Fields(line)
		if len(f) == 0 {
			continue
		}
		n := func(i int) int { v := 0; fmt.Sscan(f[i], &v); return v }
		switch f[0] {
		case "peer":
			w.addPeer(vwPeerSpec{kind: kinds[n(2)], as: uint32(n(3)), rid: ip(n(4)), addr: ip(n(5)), sendMax: uint8(n(6)), addPathRx: n(7) == 1, allowOwnAs: uint8(n(8))})
		case "up":
			w.sessionUp(w.peers[n(1)], nil)
		case "down":
			w.sessionDown(w.peers[n(1)], fsmReadFailed)
		case "ann":
			w.recv(w.peers[n(1)], c01ParseRoute(f[2:]).msg(w.peers[n(1)]))
		case "wd":
			w.recv(w.peers[n(1)], bgp.NewBGPUpdateMessage([]bgp.PathNLRI{{NLRI: c01Nlri(n(2)), ID: uint32(n(3))}}, nil, nil))
		case "ladd":
			w.local(c01LocalPath(c01ParseRoute(f[1:]), false, w.now()))
		case "ldel":
			w.local(c01LocalPath(&c01Route{pfx: n(1)}, true, w.now()))
		case "del":
			w.delPeer(w.peers[n(1)])
		case "flush":
		default:
			continue
		}
		out := line + "\n"
		if os.Getenv("VERIF_REPLAY_NOFLUSH") != "" && f[0] != "flush" {
			fmt.Print(out)
			continue
		}
		for i, vp := range w.peers {
			w.flush(vp)
			out += fmt.Sprintf("    peer %d (%s up=%v) view:%s\n", i, vp.spec.kind, vp.up, vp.viewString2())
		}
		for k := range c01Prefixes {
			if d := w.s.globalRib.GetDestination(table.NewPath(bgp.RF_IPv4_UC, nil, bgp.PathNLRI{NLRI: c01Nlri(k)}, true, nil, w.now(), false)); d != nil {
				out += fmt.Sprintf("    rib %d:", k)
				for _, p := range d.GetAllKnownPathList() {
					out += fmt.Sprintf(" %d", vwMarker(p.GetPathAttrs()))
				}
				out += "\n"
			}
		}
		fmt.Print(out)
	}
}
