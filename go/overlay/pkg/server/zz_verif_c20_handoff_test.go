//go:build verif

package server

// C20 (iii): goroutine hand-offs that are JOINED.
//
// A goroutine that its spawner joins (the goroutine calls wg.Done(), the spawner — a per-state FSM
// handler, the outgoing-connection manager, a server loop — later calls wg.Wait()) must be able to finish
// without the spawner's help: at join time the spawner is no longer receiving.  So every channel send such
// a goroutine performs must either be cancellable (a `select` with another branch / nonblockSendChannel)
// or go to a channel whose capacity is at least the number of sends the goroutine can make on it.
//
// Extracted from the AST of pkg/server on every run (same loaded packages as the lock extractor):
//   (spawner, goroutine function, channel, capacity, max number of blocking sends on one path, cancellable)
// and asked against the Lean rule `handoffOk` (Model/Handoff.lean; theorem: a producer with at most `cap`
// sends on a channel of capacity `cap` never blocks, whatever the consumer does; on an unbuffered channel
// it blocks for ever once the consumer has left).  Shapes the translator cannot resolve are loud.

import (
	"fmt"
	"go/ast"
	"go/token"
	"go/types"
	"regexp"
	"sort"
	"strconv"
	"strings"
)

type c20HandoffFact struct {
	spawner, gor, ch string
	capacity         int // -1 = unresolved
	sends            int // max blocking sends on one path; 999 = unbounded (in a loop)
	cancellable      int // sends that cannot block (select with another branch, nonblockSendChannel)
	site             string
}

const c20Unbounded = 999

var c20WgRe = regexp.MustCompile(`(?i)wg|wait`)

type c20HO struct {
	x     *c20X
	p     *c20Pkg
	fr    *c20Frame
	makes map[types.Object]ast.Expr // struct field / variable -> make(chan …) expression assigned to it
}

// counts per channel key
type c20Cnt struct {
	block  map[string]int
	cancel map[string]int
	expr   map[string]ast.Expr
}

func newC20Cnt() *c20Cnt {
	return &c20Cnt{block: map[string]int{}, cancel: map[string]int{}, expr: map[string]ast.Expr{}}
}
func (c *c20Cnt) addSeq(o *c20Cnt) {
	for k, v := range o.block {
		c.block[k] = c20Sat(c.block[k] + v)
	}
	for k, v := range o.cancel {
		c.cancel[k] += v
	}
	for k, v := range o.expr {
		c.expr[k] = v
	}
}
func (c *c20Cnt) addAlt(o *c20Cnt) {
	for k, v := range o.block {
		if v > c.block[k] {
			c.block[k] = v
		}
	}
	for k, v := range o.cancel {
		if v > c.cancel[k] {
			c.cancel[k] = v
		}
	}
	for k, v := range o.expr {
		c.expr[k] = v
	}
}
func c20Sat(n int) int {
	if n > c20Unbounded {
		return c20Unbounded
	}
	return n
}

// chanKey maps a channel expression (in the scope where it is written) to an expression in the
// SPAWNER's scope through the parameter bindings, and gives it a printable key.
func (h *c20HO) chanKey(e ast.Expr, bind map[types.Object]ast.Expr) (string, ast.Expr, bool) {
	e = ast.Unparen(e)
	switch e := e.(type) {
	case *ast.Ident:
		obj := h.p.info.Uses[e]
		if b, ok := bind[obj]; ok {
			return h.chanKey(b, nil)
		}
		return e.Name, e, true
	case *ast.SelectorExpr:
		if sel, ok := h.p.info.Selections[e]; ok {
			if v, ok := sel.Obj().(*types.Var); ok {
				if o, ok := h.x.owner[v]; ok {
					return o, e, true
				}
			}
		}
		return types.ExprString(e), e, true
	case *ast.CallExpr:
		if sel, ok := e.Fun.(*ast.SelectorExpr); ok && sel.Sel.Name == "In" {
			return "", nil, false // channels.InfiniteChannel: sends never block
		}
	case *ast.UnaryExpr:
		return h.chanKey(e.X, bind)
	}
	return "?" + types.ExprString(e), e, true
}

// stmts evaluates a statement list: sequential composition of the send counts
func (h *c20HO) stmts(list []ast.Stmt, bind map[types.Object]ast.Expr, depth int) *c20Cnt {
	out := newC20Cnt()
	for i, s := range list {
		c := h.stmt(s, bind, depth)
		// `ch <- v; return` inside a loop body is a single send: mark by leaving the count as is; the
		// loop rule below multiplies only when the send is not followed by a return
		if i+1 < len(list) {
			if _, isRet := list[i+1].(*ast.ReturnStmt); isRet {
				for k := range c.block {
					c.expr["ret:"+k] = nil
				}
			}
		}
		out.addSeq(c)
	}
	return out
}

func (h *c20HO) send(s *ast.SendStmt, bind map[types.Object]ast.Expr, cancellable bool) *c20Cnt {
	c := newC20Cnt()
	k, e, ok := h.chanKey(s.Chan, bind)
	if !ok {
		return c
	}
	c.expr[k] = e
	if cancellable {
		c.cancel[k] = 1
	} else {
		c.block[k] = 1
	}
	return c
}

func (h *c20HO) stmt(s ast.Stmt, bind map[types.Object]ast.Expr, depth int) *c20Cnt {
	switch s := s.(type) {
	case nil:
		return newC20Cnt()
	case *ast.SendStmt:
		c := h.send(s, bind, false)
		c.addSeq(h.exprCalls(s.Value, bind, depth))
		return c
	case *ast.BlockStmt:
		return h.stmts(s.List, bind, depth)
	case *ast.LabeledStmt:
		return h.stmt(s.Stmt, bind, depth)
	case *ast.IfStmt:
		c := h.stmt(s.Init, bind, depth)
		c.addSeq(h.exprCalls(s.Cond, bind, depth))
		alt := h.stmts(s.Body.List, bind, depth)
		alt.addAlt(h.stmt(s.Else, bind, depth))
		c.addSeq(alt)
		return c
	case *ast.ForStmt, *ast.RangeStmt:
		var body *ast.BlockStmt
		if f, ok := s.(*ast.ForStmt); ok {
			body = f.Body
		} else {
			body = s.(*ast.RangeStmt).Body
		}
		c := h.stmts(body.List, bind, depth)
		for k, v := range c.block {
			if v > 0 {
				if _, once := c.expr["ret:"+k]; !once {
					c.block[k] = c20Unbounded
				}
			}
		}
		return c
	case *ast.SwitchStmt, *ast.TypeSwitchStmt, *ast.SelectStmt:
		var clauses []ast.Stmt
		isSelect := false
		switch s := s.(type) {
		case *ast.SwitchStmt:
			clauses = s.Body.List
		case *ast.TypeSwitchStmt:
			clauses = s.Body.List
		case *ast.SelectStmt:
			clauses, isSelect = s.Body.List, true
		}
		out := newC20Cnt()
		for _, cl := range clauses {
			c := newC20Cnt()
			switch cl := cl.(type) {
			case *ast.CaseClause:
				c = h.stmts(cl.Body, bind, depth)
			case *ast.CommClause:
				if snd, ok := cl.Comm.(*ast.SendStmt); ok {
					c.addSeq(h.send(snd, bind, isSelect && len(clauses) > 1))
				}
				c.addSeq(h.stmts(cl.Body, bind, depth))
			}
			out.addAlt(c)
		}
		return out
	case *ast.ExprStmt:
		return h.exprCalls(s.X, bind, depth)
	case *ast.AssignStmt:
		c := newC20Cnt()
		for _, r := range s.Rhs {
			c.addSeq(h.exprCalls(r, bind, depth))
		}
		return c
	case *ast.ReturnStmt:
		c := newC20Cnt()
		for _, r := range s.Results {
			c.addSeq(h.exprCalls(r, bind, depth))
		}
		return c
	case *ast.DeferStmt:
		return h.exprCalls(s.Call, bind, depth)
	case *ast.DeclStmt:
		c := newC20Cnt()
		ast.Inspect(s, func(nd ast.Node) bool {
			if ce, ok := nd.(*ast.CallExpr); ok {
				c.addSeq(h.exprCalls(ce, bind, depth))
				return false
			}
			return true
		})
		return c
	}
	return newC20Cnt()
}

// exprCalls: sends performed by the calls inside an expression (callees of this package that are given
// one of the tracked channels, literals called or deferred in place, nonblockSendChannel)
func (h *c20HO) exprCalls(e ast.Expr, bind map[types.Object]ast.Expr, depth int) *c20Cnt {
	out := newC20Cnt()
	if e == nil || depth > 3 {
		return out
	}
	ast.Inspect(e, func(nd ast.Node) bool {
		switch nd := nd.(type) {
		case *ast.FuncLit:
			return false // only runs if called; handled when it is the callee below
		case *ast.CallExpr:
			if lit, ok := ast.Unparen(nd.Fun).(*ast.FuncLit); ok {
				out.addSeq(h.stmts(lit.Body.List, bind, depth+1))
				return true
			}
			if id, ok := nd.Fun.(*ast.Ident); ok && id.Name == "nonblockSendChannel" && len(nd.Args) == 2 {
				if k, ex, ok := h.chanKey(nd.Args[0], bind); ok {
					out.cancel[k]++
					out.expr[k] = ex
				}
				return true
			}
			g := h.x.staticCallee(h.fr, nd)
			if g == nil || g.pkg != h.p || g.decl.Type.Params == nil {
				return true
			}
			// bind the callee's channel-typed parameters
			nb := map[types.Object]ast.Expr{}
			i := 0
			for _, fld := range g.decl.Type.Params.List {
				_, isChan := fld.Type.(*ast.ChanType)
				for _, nm := range fld.Names {
					if isChan && i < len(nd.Args) {
						if _, ex, ok := h.chanKey(nd.Args[i], bind); ok && ex != nil {
							nb[g.pkg.info.Defs[nm]] = ex
						}
					}
					i++
				}
				if len(fld.Names) == 0 {
					i++
				}
			}
			if len(nb) > 0 {
				out.addSeq(h.stmts(g.decl.Body.List, nb, depth+1))
			}
		}
		return true
	})
	return out
}

// capacityOf resolves the capacity of a channel expression written in the spawner's scope
func (h *c20HO) capacityOf(e ast.Expr, depth int) int {
	if e == nil || depth > 4 {
		return -1
	}
	e = ast.Unparen(e)
	if call, ok := e.(*ast.CallExpr); ok {
		if id, ok := call.Fun.(*ast.Ident); ok && id.Name == "make" && len(call.Args) >= 1 {
			if _, isChan := call.Args[0].(*ast.ChanType); isChan {
				if len(call.Args) == 1 {
					return 0
				}
				if lit, ok := call.Args[1].(*ast.BasicLit); ok && lit.Kind == token.INT {
					n, err := strconv.Atoi(lit.Value)
					if err == nil {
						return n
					}
				}
				if tv, ok := h.p.info.Types[call.Args[1]]; ok && tv.Value != nil {
					if n, err := strconv.Atoi(tv.Value.ExactString()); err == nil {
						return n
					}
				}
				return -1
			}
		}
		return -1
	}
	var obj types.Object
	switch e := e.(type) {
	case *ast.Ident:
		obj = h.p.info.Uses[e]
		if obj == nil {
			obj = h.p.info.Defs[e]
		}
	case *ast.SelectorExpr:
		if sel, ok := h.p.info.Selections[e]; ok {
			obj = sel.Obj()
		}
	}
	if obj == nil {
		return -1
	}
	if m, ok := h.makes[obj]; ok {
		return h.capacityOf(m, depth+1)
	}
	if rhs, _, ok := h.x.defOf(h.p, obj); ok {
		return h.capacityOf(rhs, depth+1)
	}
	return -1
}

// localLit: `go f(x)` where f is a local variable bound once to a function literal
func (h *c20HO) localLit(fun ast.Expr) *ast.FuncLit {
	id, ok := ast.Unparen(fun).(*ast.Ident)
	if !ok {
		return nil
	}
	obj := h.p.info.Uses[id]
	if obj == nil {
		return nil
	}
	if rhs, _, ok := h.x.defOf(h.p, obj); ok {
		if lit, ok := ast.Unparen(rhs).(*ast.FuncLit); ok {
			return lit
		}
	}
	return nil
}

func c20HasDone(body *ast.BlockStmt) bool {
	found := false
	ast.Inspect(body, func(nd ast.Node) bool {
		if c, ok := nd.(*ast.CallExpr); ok && len(c.Args) == 0 {
			if sel, ok := c.Fun.(*ast.SelectorExpr); ok && sel.Sel.Name == "Done" && c20WgRe.MatchString(types.ExprString(sel.X)) {
				found = true
			}
		}
		return !found
	})
	return found
}

// c20Handoffs extracts the hand-off facts of one package
func (x *c20X) c20Handoffs(p *c20Pkg) (facts []c20HandoffFact, loud []string, joined, unjoined int) {
	h := &c20HO{x: x, p: p, fr: &c20Frame{pkg: p, env: newC20Env()}, makes: map[types.Object]ast.Expr{}}
	// field: make(chan …) in composite literals, x.f = make(chan …)
	for _, f := range p.files {
		ast.Inspect(f, func(nd ast.Node) bool {
			switch nd := nd.(type) {
			case *ast.KeyValueExpr:
				if id, ok := nd.Key.(*ast.Ident); ok {
					if call, ok := nd.Value.(*ast.CallExpr); ok {
						if fid, ok := call.Fun.(*ast.Ident); ok && fid.Name == "make" {
							if o := p.info.Uses[id]; o != nil {
								h.makes[o] = call
							}
						}
					}
				}
			case *ast.AssignStmt:
				if len(nd.Lhs) == len(nd.Rhs) {
					for i, l := range nd.Lhs {
						if sel, ok := l.(*ast.SelectorExpr); ok {
							if call, ok := nd.Rhs[i].(*ast.CallExpr); ok {
								if fid, ok := call.Fun.(*ast.Ident); ok && fid.Name == "make" {
									if s, ok := p.info.Selections[sel]; ok {
										h.makes[s.Obj()] = call
									}
								}
							}
						}
					}
				}
			}
			return true
		})
	}
	for _, f := range p.files {
		for _, d := range f.Decls {
			fd, ok := d.(*ast.FuncDecl)
			if !ok || fd.Body == nil {
				continue
			}
			spawner := fd.Name.Name
			if fd.Recv != nil && len(fd.Recv.List) > 0 {
				spawner = c20RecvName(fd.Recv.List[0].Type) + "." + spawner
			}
			ast.Inspect(fd.Body, func(nd ast.Node) bool {
				gs, ok := nd.(*ast.GoStmt)
				if !ok {
					return true
				}
				site := x.posStr(p, gs.Pos())
				var body *ast.BlockStmt
				var ftype *ast.FuncType
				var fpkg *c20Pkg = p
				name := ""
				if lit, ok := ast.Unparen(gs.Call.Fun).(*ast.FuncLit); ok {
					body, ftype, name = lit.Body, lit.Type, "func@"+site
				} else if g := x.staticCallee(h.fr, gs.Call); g != nil {
					body, ftype, name, fpkg = g.decl.Body, g.decl.Type, g.name, g.pkg
				} else if lit := h.localLit(gs.Call.Fun); lit != nil {
					body, ftype, name = lit.Body, lit.Type, types.ExprString(gs.Call.Fun)+"@"+site
				} else {
					loud = append(loud, "go-target-unresolved "+spawner+" "+types.ExprString(gs.Call.Fun))
					return true
				}
				if fpkg != p {
					return true
				}
				if !c20HasDone(body) {
					unjoined++
					return true
				}
				joined++
				bind := map[types.Object]ast.Expr{}
				i := 0
				if ftype.Params != nil {
					for _, fld := range ftype.Params.List {
						for _, nm := range fld.Names {
							if i < len(gs.Call.Args) {
								bind[p.info.Defs[nm]] = gs.Call.Args[i]
							}
							i++
						}
						if len(fld.Names) == 0 {
							i++
						}
					}
				}
				cnt := h.stmts(body.List, bind, 0)
				keys := map[string]bool{}
				for k := range cnt.block {
					keys[k] = true
				}
				for k := range cnt.cancel {
					keys[k] = true
				}
				for k := range keys {
					fct := c20HandoffFact{spawner: spawner, gor: name, ch: strings.ReplaceAll(k, " ", ""), sends: cnt.block[k], cancellable: cnt.cancel[k], site: site}
					fct.capacity = h.capacityOf(cnt.expr[k], 0)
					if fct.capacity < 0 && fct.sends > 0 {
						loud = append(loud, fmt.Sprintf("handoff-capacity-unresolved %s -> %s channel %s", spawner, name, k))
					}
					facts = append(facts, fct)
				}
				return true
			})
		}
	}
	sort.Slice(facts, func(i, j int) bool {
		a, b := facts[i], facts[j]
		return fmt.Sprint(a.spawner, a.gor, a.ch, a.site) < fmt.Sprint(b.spawner, b.gor, b.ch, b.site)
	})
	sort.Strings(loud)
	return facts, loud, joined, unjoined
}

// c20HandoffOK is the Go-side restatement of the rule
func c20HandoffOK(f c20HandoffFact) bool {
	return f.sends == 0 || (f.capacity >= 0 && f.sends <= f.capacity)
}

func c20ReportHandoffs(o *vOut, x *c20X) {
	for _, p := range x.pkgs {
		if p.name != "server" {
			continue
		}
		facts, loud, joined, unjoined := x.c20Handoffs(p)
		for _, l := range loud {
			o.fail("extractor-unknown-shape", map[string]string{"shape": l})
		}
		o.stat("handoff_joined_goroutine_spawns", joined)
		o.stat("handoff_unjoined_goroutine_spawns", unjoined)
		for _, f := range facts {
			c := f.capacity
			if c < 0 {
				c = 0
			}
			o.ask("ok", "handoff %s %s %s %d %d %d", f.spawner, f.gor, f.ch, c, f.sends, f.cancellable)
			o.stat("handoff_facts", 1)
			if !c20HandoffOK(f) {
				sends := fmt.Sprint(f.sends)
				if f.sends >= c20Unbounded {
					sends = "unbounded (in a loop)"
				}
				o.fail("joined-goroutine-may-block-on-send", map[string]any{
					"spawner": f.spawner, "goroutine": f.gor, "spawned_at": f.site, "channel": f.ch,
					"capacity": f.capacity, "blocking_sends": sends,
					"rule": "a goroutine the spawner joins with wg.Wait() must finish without a receiver: each blocking send needs a free buffer slot (sends <= capacity) or a cancel branch; otherwise the spawner hangs in wg.Wait() as soon as it leaves its select loop before receiving (shutdown / timer / error branches)"})
			}
		}
		o.sample(fmt.Sprintf("hand-offs: %d joined goroutine spawns, %d facts, e.g. %+v", joined, len(facts), facts[:min(2, len(facts))]))
	}
}
