//go:build verif

package server

// C01 / C02, the INTERLEAVING part of the quantifier ("all interleavings of the per-peer receive
// goroutines, per-prefix propagation buckets, management loop"). The Lean theorems
// (C01_quiescent, locrib_within_adjin, adjin_within_locrib) hold for every SERIALISATION of the
// lock-protected regions; that the Go code really executes one region at a time per destination
// is C20's lock discipline plus this harness: several goroutines play the per-peer receive
// goroutines (each delivers its own peer's UPDATE burst through handleFSMMessage, exactly as
// fsmHandler.loop's callback does, and may end its session in the middle of the burst), one
// plays the management path (AddPath / DeletePath) and one brings a late peer up — all on ONE
// small prefix pool, at the same time. At quiescence the model-independent oracles of the
// sequential harness must hold: every established peer holds exactly the fresh export of the
// current Loc-RIB, every Adj-RIB-In is the latest un-withdrawn announcement per key of its own
// (per-peer ordered) burst, and the Loc-RIB is exactly the accepted entries plus local routes.
// Oracle only: an interleaving is not replayable, so there is no model comparison here; the
// failing round's scripts are the replay.

import (
	"fmt"
	"net/netip"
	"runtime"
	"sync"
	"testing"
	"time"

	"github.com/osrg/gobgp/v4/internal/pkg/table"
	"github.com/osrg/gobgp/v4/pkg/packet/bgp"
)

type c01ConcEv struct {
	msg  *bgp.BGPMessage
	ts   time.Time
	down bool
}

func c01ConcRound(t *testing.T, o *vOut, r *vRand, idx int) {
	w := newVWorld(t, 65000, "10.255.0.1")
	defer w.stop()
	sc := &c01Scenario{w: w, o: o, r: r, local: map[string]*c01Route{}}
	kinds := []string{"ebgp", "ebgp", "ibgp", "ibgp", "rrc", "rrc"}
	nPeers := 4 + r.intn(3)
	ridPool := r.perm(8)
	history := []string{}
	for i := 0; i < nPeers; i++ {
		k := kinds[r.intn(len(kinds))]
		sp := vwPeerSpec{kind: k, as: 65000, rid: netip.AddrFrom4([4]byte{10, 0, 0, byte(1 + ridPool[i])}),
			addr: netip.AddrFrom4([4]byte{192, 168, 0, byte(1 + i)})}
		if k == "ebgp" {
			sp.as = uint32(65001 + r.intn(3))
		}
		w.addPeer(sp)
		sc.latest = append(sc.latest, map[string]*c01Route{})
		history = append(history, fmt.Sprintf("peer %d %d %d %d %d 0 0 0", i, c01Kind(k), sp.as, c01U32(sp.rid), c01U32(sp.addr)))
		o.stat("conc_peer_kind_"+k, 1)
	}
	late := -1
	if r.chance(60) {
		late = r.intn(nPeers)
	}
	for i, vp := range w.peers {
		if i != late {
			w.sessionUp(vp, nil)
			history = append(history, fmt.Sprintf("up %d", i))
		}
	}
	// a little common history first, so that the concurrent phase replaces and withdraws
	for n := r.intn(6); n > 0; n-- {
		i := r.intn(nPeers)
		if i == late {
			continue
		}
		rt := c01GenRoute(r, sc, w.peers[i])
		w.recv(w.peers[i], rt.msg(w.peers[i]))
		sc.latest[i][fmt.Sprintf("%d#%d", rt.pfx, rt.pathID)] = rt
		history = append(history, fmt.Sprintf("ann %d %s", i, rt.line()))
	}
	// the scripts of the concurrent phase, generated sequentially (deterministic per seed)
	scripts := make([][]c01ConcEv, nPeers)
	hot := r.intn(len(c01Prefixes))
	for i, vp := range w.peers {
		if i == late {
			continue
		}
		n := 10 + r.intn(30)
		goesDown := r.chance(20)
		downAt := r.intn(n)
		for k := 0; k < n; k++ {
			if goesDown && k == downAt {
				scripts[i] = append(scripts[i], c01ConcEv{down: true})
				sc.latest[i] = map[string]*c01Route{}
				history = append(history, fmt.Sprintf("[g%d] down %d", i, i))
				o.stat("conc_down_mid_burst", 1)
				break
			}
			if r.chance(72) {
				rt := c01GenRoute(r, sc, vp)
				if r.chance(75) {
					rt.pfx = hot // most of the burst hits ONE destination: contention on its bucket
				}
				scripts[i] = append(scripts[i], c01ConcEv{msg: rt.msg(vp), ts: w.now()})
				sc.latest[i][fmt.Sprintf("%d#%d", rt.pfx, rt.pathID)] = rt
				history = append(history, fmt.Sprintf("[g%d] ann %d %s", i, i, rt.line()))
				o.stat("conc_ann", 1)
			} else {
				pfx := r.intn(len(c01Prefixes))
				if r.chance(75) {
					pfx = hot
				}
				m := bgp.NewBGPUpdateMessage([]bgp.PathNLRI{{NLRI: c01Nlri(pfx)}}, nil, nil)
				scripts[i] = append(scripts[i], c01ConcEv{msg: m, ts: w.now()})
				delete(sc.latest[i], fmt.Sprintf("%d#0", pfx))
				history = append(history, fmt.Sprintf("[g%d] wd %d %d 0", i, i, pfx))
				o.stat("conc_wd", 1)
			}
		}
	}
	var locals []*table.Path
	for n := r.intn(6); n > 0; n-- {
		if r.chance(65) {
			sc.marker++
			rt := &c01Route{pfx: r.intn(len(c01Prefixes)), marker: sc.marker, origin: uint8(r.pick(0, 2))}
			if r.chance(30) {
				v := uint32(r.pick(100, 200))
				rt.lp = &v
			}
			locals = append(locals, c01LocalPath(rt, false, w.now()))
			sc.local[fmt.Sprintf("%d#0", rt.pfx)] = rt
			history = append(history, "[mgmt] ladd "+rt.line())
		} else {
			pfx := r.intn(len(c01Prefixes))
			locals = append(locals, c01LocalPath(&c01Route{pfx: pfx}, true, w.now()))
			delete(sc.local, fmt.Sprintf("%d#0", pfx))
			history = append(history, fmt.Sprintf("[mgmt] ldel %d 0", pfx))
		}
		o.stat("conc_local", 1)
	}
	yields := make([][]int, nPeers)
	for i := range yields {
		for range scripts[i] {
			yields[i] = append(yields[i], r.intn(4))
		}
	}
	// --- the concurrent phase
	var wg sync.WaitGroup
	start := make(chan struct{})
	for i := range w.peers {
		if len(scripts[i]) == 0 {
			continue
		}
		wg.Add(1)
		go func(i int) {
			defer wg.Done()
			vp := w.peers[i]
			<-start
			for k, ev := range scripts[i] {
				for y := yields[i][k]; y > 0; y-- {
					runtime.Gosched()
				}
				if ev.down {
					w.sessionDown(vp, fsmReadFailed)
					return
				}
				w.s.handleFSMMessage(vp.p, &fsmMsg{MsgType: fsmMsgBGPMessage, MsgData: ev.msg, timestamp: ev.ts})
			}
		}(i)
	}
	if len(locals) > 0 {
		wg.Add(1)
		go func() {
			defer wg.Done()
			<-start
			for _, p := range locals {
				w.local(p)
				runtime.Gosched()
			}
		}()
	}
	if late >= 0 {
		wg.Add(1)
		go func() {
			defer wg.Done()
			<-start
			for y := r.intn(40); y > 0; y-- {
				runtime.Gosched()
			}
			w.sessionUp(w.peers[late], nil)
		}()
		history = append(history, fmt.Sprintf("[late] up %d", late))
		o.stat("conc_late_up", 1)
	}
	close(start)
	wg.Wait()
	// --- quiescence
	for _, vp := range w.peers {
		w.flush(vp)
	}
	before := o.nFail
	sc.oracleC01(history)
	sc.oracleC02(history)
	if o.nFail > before {
		o.stat("conc_rounds_failed", 1)
	}
	o.stat("conc_rounds", 1)
	if idx < 1 {
		o.sample(fmt.Sprint(history))
	}
}

func TestVerifC01Conc(t *testing.T) {
	o := vOpen(t)
	defer o.close()
	r := &vRand{s: o.seed*7919 + 5}
	n := 150
	if o.thorough {
		n = 2500
	}
	prev := runtime.GOMAXPROCS(0)
	if prev < 4 {
		runtime.GOMAXPROCS(4)
		defer runtime.GOMAXPROCS(prev)
	}
	for i := 0; i < n; i++ {
		c01ConcRound(t, o, r, i)
	}
}
