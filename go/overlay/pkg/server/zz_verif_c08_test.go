//go:build verif

package server

// C08 correspondence harness (core level): drives the real buildopen / capabilitiesFromConfig,
// bgp.ValidateOpenMsg (through fsm.handleOpen), fsm.stateChange(ESTABLISHED) (and through it
// open2Cap / CreateRfMap), recvMessageWithError's length gate and keepaliveTicker on generated
// neighbour configurations x OPEN messages (one to three consecutive OPENs on the same fsm), prints
// the negotiated state (compared line by line with the Lean model Negotiate.*), and checks the
// property itself on (configuration, OPEN bytes, resulting fsm fields) without the model.

import (
	"bytes"
	"context"
	"encoding/binary"
	"fmt"
	"io"
	"log/slog"
	"math"
	"net"
	"net/netip"
	"slices"
	"sort"
	"strings"
	"sync"
	"testing"
	"testing/synctest"
	"time"

	"github.com/osrg/gobgp/v4/internal/pkg/table"
	"github.com/osrg/gobgp/v4/pkg/config/oc"
	"github.com/osrg/gobgp/v4/pkg/packet/bgp"
)

// ---------------------------------------------------------------- configuration side

type c08Af struct {
	fam      bgp.Family
	recv     bool
	sendMax  uint8
	mpGr     bool
	llgr     bool
	llgrTime uint32
}

func (a c08Af) mode() uint8 {
	m := uint8(0)
	if a.recv {
		m |= 1
	}
	if a.sendMax > 0 {
		m |= 2
	}
	return m
}

type c08Cfg struct {
	localAs, peerAs uint32 // localAs: the neighbour's EFFECTIVE Config.LocalAs (filled in by resolve from the real defaults)
	// how the configuration is GIVEN: the global AS, the neighbour's configured local-as (0 = none),
	// the confederation (identifier used towards peers outside it; members = confed below)
	globalAs, cfgLocalAs uint32
	confedEn             bool
	confedID             uint32
	resolved             bool
	dflInternal          bool   // Config.PeerType == INTERNAL as the real defaults derive it
	announcedAs          uint32 // the AS our OPEN announced on this session (read from its octets)
	routerID        uint32
	hold            int
	ka3             int
	sendSw          bool
	grEn, grHelper  bool
	grNotif, grLlgr bool
	grTime          uint16
	localRestarting bool
	treatAsWd       bool
	confed          []uint32
	afs             []c08Af
}

func (c *c08Cfg) internal() bool {
	if c.resolved {
		return c.dflInternal
	}
	return c.peerAs == c.localAs
}

func (c *c08Cfg) global() *oc.Global {
	g := &oc.Global{}
	g.Config.As = c.globalAs
	g.Config.RouterId = c08U32Addr(c.routerID)
	g.Confederation.Config.Enabled = c.confedEn
	g.Confederation.Config.Identifier = c.confedID
	g.Confederation.Config.MemberAsList = append([]uint32{}, c.confed...)
	return g
}

// resolve lets the REAL configuration layer (oc.SetDefaultNeighborConfigValues) derive the
// neighbour's LocalAs and PeerType from the global AS, the configured local-as, the confederation
// and the configured peer-as. Cases written with a literal localAs and no global AS mean "global =
// local, no override".
func (c *c08Cfg) resolve(t testing.TB) {
	if c.globalAs == 0 {
		c.globalAs = c.localAs
	}
	scratch := &oc.Neighbor{}
	scratch.Config.NeighborAddress = netip.MustParseAddr("10.9.9.9")
	scratch.Config.PeerAs = c.peerAs
	scratch.Config.LocalAs = c.cfgLocalAs
	if err := oc.SetDefaultNeighborConfigValues(scratch, nil, c.global()); err != nil {
		t.Fatalf("defaults: %v", err)
	}
	c.localAs = scratch.Config.LocalAs
	c.dflInternal = scratch.Config.PeerType == oc.PEER_TYPE_INTERNAL
	c.resolved = true
}

// specLocalAs: the AS the neighbour must speak with, stated independently of the code and the model
func (c *c08Cfg) specLocalAs() uint32 {
	if c.cfgLocalAs != 0 {
		return c.cfgLocalAs
	}
	if c.confedEn && c.peerAs != c.globalAs && !slices.Contains(c.confed, c.peerAs) {
		return c.confedID
	}
	return c.globalAs
}

func c08B(b bool) int {
	if b {
		return 1
	}
	return 0
}

func c08U32Addr(v uint32) netip.Addr {
	var b [4]byte
	binary.BigEndian.PutUint32(b[:], v)
	return netip.AddrFrom4(b)
}

func c08AddrU32(a netip.Addr) uint32 {
	if !a.Is4() {
		return 0
	}
	b := a.As4()
	return binary.BigEndian.Uint32(b[:])
}

func (c *c08Cfg) line() string {
	var sb strings.Builder
	fmt.Fprintf(&sb, "cfg %d %d %d %d %d %d %d %d %d %d %d %d %d %d %d", c.localAs, c.peerAs, c08B(c.internal()),
		c.routerID, c.hold, c.ka3, c08B(c.sendSw), c08B(c.grEn), c08B(c.grHelper), c08B(c.grNotif), c08B(c.grLlgr),
		c.grTime, c08B(c.localRestarting), c08B(c.treatAsWd), len(c.confed))
	for _, m := range c.confed {
		fmt.Fprintf(&sb, " %d", m)
	}
	fmt.Fprintf(&sb, " %d", len(c.afs))
	for _, a := range c.afs {
		fmt.Fprintf(&sb, " %d %d %d %d %d %d", uint32(a.fam), c08B(a.recv), a.sendMax, c08B(a.mpGr), c08B(a.llgr), a.llgrTime)
	}
	return sb.String()
}

// build mirrors what oc.SetDefaultNeighborConfigValues leaves behind for the fields the
// negotiation reads (PeerType from the configured AS numbers, State.Family from the name, …).
func (c *c08Cfg) build() (*oc.Global, *oc.Neighbor) {
	g := c.global()
	n := &oc.Neighbor{}
	n.Config.NeighborAddress = netip.MustParseAddr("10.9.9.9")
	n.State.NeighborAddress = n.Config.NeighborAddress
	n.Config.LocalAs = c.localAs
	n.State.LocalAs = c.localAs
	n.Config.PeerAs = c.peerAs
	n.State.PeerAs = c.peerAs
	n.Config.PeerType = oc.PEER_TYPE_EXTERNAL
	if c.internal() {
		n.Config.PeerType = oc.PEER_TYPE_INTERNAL
	}
	n.State.PeerType = n.Config.PeerType
	n.Config.SendSoftwareVersion = c.sendSw
	n.Timers.Config.HoldTime = float64(c.hold)
	n.Timers.Config.KeepaliveInterval = float64(c.ka3) / 3
	n.ErrorHandling.Config.TreatAsWithdraw = c.treatAsWd
	n.GracefulRestart.Config.Enabled = c.grEn
	n.GracefulRestart.Config.HelperOnly = c.grHelper
	n.GracefulRestart.Config.NotificationEnabled = c.grNotif
	n.GracefulRestart.Config.LongLivedEnabled = c.grLlgr
	n.GracefulRestart.Config.RestartTime = c.grTime
	n.GracefulRestart.State.LocalRestarting = c.localRestarting
	for _, a := range c.afs {
		name := oc.AfiSafiType(bgp.AddressFamilyNameMap[a.fam])
		af := oc.AfiSafi{}
		af.Config.AfiSafiName = name
		af.Config.Enabled = true
		af.State.AfiSafiName = name
		af.State.Family = a.fam
		af.AddPaths.Config.Receive = a.recv
		af.AddPaths.State.Receive = a.recv
		af.AddPaths.Config.SendMax = a.sendMax
		af.AddPaths.State.SendMax = a.sendMax
		af.MpGracefulRestart.Config.Enabled = a.mpGr
		af.MpGracefulRestart.State.Enabled = a.mpGr
		af.LongLivedGracefulRestart.Config.Enabled = a.llgr
		af.LongLivedGracefulRestart.Config.RestartTime = a.llgrTime
		n.AfiSafis = append(n.AfiSafis, af)
	}
	return g, n
}

var c08Pool = []bgp.Family{bgp.RF_IPv4_UC, bgp.RF_IPv6_UC, bgp.RF_IPv4_VPN, bgp.RF_IPv6_VPN, bgp.RF_EVPN,
	bgp.RF_RTC_UC, bgp.RF_IPv4_MPLS, bgp.RF_FS_IPv4_UC, bgp.RF_IPv4_MC, bgp.RF_LS}

const c08UnknownFam = bgp.Family(3<<16 | 77)

func c08GenCfg(r *vRand, thorough bool) *c08Cfg {
	c := &c08Cfg{}
	c.globalAs = uint32(r.pick(64512, 65001, 65001, 65535, 65536, 4200000000, 4200000000, 23456, 1))
	if r.chance(35) { // per-neighbour local-as override
		c.cfgLocalAs = uint32(r.pick(65100, 65002, 64513, 70000, 4200000001, int(c.globalAs)))
	}
	if r.chance(20) { // confederation: the identifier is spoken towards peers outside it
		c.confedEn = true
		c.confedID = uint32(r.pick(64999, 4200000999, 65002))
	}
	c.localAs = c.globalAs // provisional, see resolve
	c.routerID = uint32(r.pick(0x0a000001, 0xc0a80101, 1, 0xfffffffe))
	c.hold = r.pick(0, 3, 9, 10, 30, 90, 90, 90, 180, 65535, 4, 100)
	if r.chance(3) {
		c.hold = r.pick(1, 2)
	}
	if r.chance(60) {
		c.ka3 = c.hold // the default: a third of the hold time
	} else {
		c.ka3 = 3 * r.pick(0, 1, 3, 10, 30, 60, 100)
	}
	c.sendSw = r.chance(30)
	c.treatAsWd = r.chance(50)
	c.grEn = r.chance(55)
	c.grHelper = r.chance(20)
	c.grNotif = r.chance(50)
	c.grLlgr = r.chance(45)
	c.grTime = uint16(r.pick(0, 90, 120, 120, 4095, 300))
	c.localRestarting = r.chance(15)
	if r.chance(25) {
		c.confed = []uint32{65100, uint32(r.pick(65101, 70000))}
	}
	naf := r.pick(0, 1, 1, 2, 2, 3, 3, 4, 5, 6)
	perm := r.perm(len(c08Pool))
	for i := 0; i < naf; i++ {
		a := c08Af{fam: c08Pool[perm[i]]}
		if i == 0 && r.chance(60) {
			a.fam = bgp.RF_IPv4_UC
		}
		a.recv = r.chance(40)
		a.sendMax = uint8(r.pick(0, 0, 0, 1, 1, 2, 8, 255))
		a.mpGr = r.chance(60)
		a.llgr = r.chance(50)
		a.llgrTime = uint32(r.pick(0, 3600, 86400, 16777215))
		dup := false
		for _, b := range c.afs {
			if b.fam == a.fam {
				dup = true
			}
		}
		if dup && !r.chance(15) {
			continue
		}
		c.afs = append(c.afs, a)
	}
	return c
}

// ---------------------------------------------------------------- OPEN side

type c08OpenSpec struct {
	version uint8
	myAS    uint16
	hold    uint16
	id      uint32
	params  []bgp.OptionParameterInterface
}

func c08RandMode(r *vRand) bgp.BGPAddPathMode {
	return bgp.BGPAddPathMode(r.pick(0, 1, 2, 3, 1, 2, 3, 3, 7, 4, 254))
}

func c08RandFam(r *vRand, local []c08Af) bgp.Family {
	if len(local) > 0 && r.chance(60) {
		return local[r.intn(len(local))].fam
	}
	if r.chance(8) {
		return c08UnknownFam
	}
	return c08Pool[r.intn(len(c08Pool))]
}

// c08GenCaps produces the capability list of a peer whose real AS is realAS.
func c08GenCaps(r *vRand, c *c08Cfg, realAS uint32, o *vOut) []bgp.ParameterCapabilityInterface {
	caps := []bgp.ParameterCapabilityInterface{}
	// multiprotocol
	switch {
	case r.chance(20):
		o.stat("open_mp_absent", 1)
	default:
		for _, a := range c.afs {
			if r.chance(70) {
				caps = append(caps, bgp.NewCapMultiProtocol(a.fam))
			}
		}
		for n := r.pick(0, 0, 1, 2); n > 0; n-- {
			caps = append(caps, bgp.NewCapMultiProtocol(c08RandFam(r, c.afs)))
		}
	}
	// 4-octet AS
	switch {
	case realAS > 65535:
		if !r.chance(4) {
			caps = append(caps, bgp.NewCapFourOctetASNumber(realAS))
		}
	case r.chance(70):
		v := realAS
		if r.chance(6) {
			v = uint32(r.pick(int(c.localAs), 65010, 70000))
		}
		caps = append(caps, bgp.NewCapFourOctetASNumber(v))
		if r.chance(5) {
			caps = append(caps, bgp.NewCapFourOctetASNumber(uint32(r.pick(int(realAS), int(c.localAs), 77777))))
		}
	}
	// ADD-PATH: zero to three capabilities, possibly repeating / contradicting a family
	for n := r.pick(0, 0, 1, 1, 1, 2, 3); n > 0; n-- {
		ts := []*bgp.CapAddPathTuple{}
		for k := r.pick(1, 1, 2, 3, 4); k > 0; k-- {
			ts = append(ts, bgp.NewCapAddPathTuple(c08RandFam(r, c.afs), c08RandMode(r)))
		}
		if r.chance(25) && len(ts) > 0 {
			ts = append(ts, bgp.NewCapAddPathTuple(ts[0].Family, c08RandMode(r)))
		}
		caps = append(caps, bgp.NewCapAddPath(ts))
	}
	// extended message
	if r.chance(50) {
		caps = append(caps, bgp.NewCapExtendedMessage())
		if r.chance(8) {
			caps = append(caps, bgp.NewCapExtendedMessage())
		}
	}
	// graceful restart / LLGR
	if r.chance(50) {
		for n := r.pick(1, 1, 1, 1, 1, 1, 1, 2); n > 0; n-- {
			ts := []*bgp.CapGracefulRestartTuple{}
			for k := r.pick(0, 1, 1, 2, 3); k > 0; k-- {
				f := c08RandFam(r, c.afs)
				ts = append(ts, &bgp.CapGracefulRestartTuple{AFI: f.Afi(), SAFI: f.Safi(), Flags: uint8(r.pick(0, 0x80, 0x80, 3))})
			}
			g := bgp.NewCapGracefulRestart(false, false, uint16(r.pick(0, 1, 90, 120, 4095)), ts)
			g.Flags = uint8(r.pick(0, 0, 4, 4, 8, 12, 1, 15))
			caps = append(caps, g)
		}
	}
	if r.chance(35) {
		ts := []*bgp.CapLongLivedGracefulRestartTuple{}
		for k := r.pick(0, 1, 1, 2, 3); k > 0; k-- {
			f := c08RandFam(r, c.afs)
			ts = append(ts, &bgp.CapLongLivedGracefulRestartTuple{AFI: f.Afi(), SAFI: f.Safi(), Flags: uint8(r.pick(0, 0x80)),
				RestartTime: uint32(r.pick(0, 1, 3600, 16777215))})
		}
		caps = append(caps, bgp.NewCapLongLivedGracefulRestart(ts))
	}
	// capabilities the negotiation only counts
	if r.chance(70) {
		caps = append(caps, bgp.NewCapRouteRefresh())
	}
	if r.chance(15) {
		caps = append(caps, bgp.NewCapEnhancedRouteRefresh())
	}
	if r.chance(10) {
		caps = append(caps, bgp.NewCapRouteRefreshCisco())
	}
	if r.chance(15) {
		caps = append(caps, bgp.NewCapFQDN("h", "d"))
	}
	if r.chance(10) {
		caps = append(caps, bgp.NewCapSoftwareVersion("x/1"))
	}
	if r.chance(10) {
		caps = append(caps, bgp.NewCapCarryingLabelInfo())
	}
	if r.chance(12) {
		caps = append(caps, bgp.NewCapExtendedNexthop([]*bgp.CapExtendedNexthopTuple{bgp.NewCapExtendedNexthopTuple(bgp.RF_IPv4_UC, bgp.AFI_IP6)}))
	}
	for n := r.pick(0, 0, 0, 1, 2); n > 0; n-- {
		caps = append(caps, bgp.NewCapUnknown(bgp.BGPCapabilityCode(r.pick(3, 66, 67, 99, 200, 255)), make([]byte, r.pick(0, 1, 3))))
	}
	// wire order is arbitrary
	p := r.perm(len(caps))
	out := make([]bgp.ParameterCapabilityInterface, len(caps))
	for i, j := range p {
		out[i] = caps[j]
	}
	return out
}

func c08Pack(r *vRand, caps []bgp.ParameterCapabilityInterface) []bgp.OptionParameterInterface {
	params := []bgp.OptionParameterInterface{}
	switch r.pick(0, 0, 1, 2) {
	case 0: // every capability in its own parameter (what most speakers do)
		for _, c := range caps {
			params = append(params, bgp.NewOptionParameterCapability([]bgp.ParameterCapabilityInterface{c}))
		}
	case 1: // one parameter
		if len(caps) > 0 {
			params = append(params, bgp.NewOptionParameterCapability(caps))
		}
	default:
		for i := 0; i < len(caps); {
			k := 1 + r.intn(3)
			if i+k > len(caps) {
				k = len(caps) - i
			}
			params = append(params, bgp.NewOptionParameterCapability(caps[i:i+k]))
			i += k
		}
	}
	if r.chance(8) {
		u := &bgp.OptionParameterUnknown{ParamType: uint8(r.pick(1, 77, 255)), Value: make([]byte, r.pick(1, 2, 4))}
		at := r.intn(len(params) + 1)
		params = slices.Insert(params, at, bgp.OptionParameterInterface(u))
	}
	return params
}

func c08ParamsLen(params []bgp.OptionParameterInterface) int {
	n := 0
	for _, p := range params {
		b, _ := p.Serialize()
		n += len(b)
	}
	return n
}

func c08GenOpen(r *vRand, c *c08Cfg, realAS uint32, o *vOut) *c08OpenSpec {
	s := &c08OpenSpec{version: 4}
	if r.chance(3) {
		s.version = uint8(r.pick(3, 5, 0))
	}
	if realAS > 65535 {
		s.myAS = bgp.AS_TRANS
	} else {
		s.myAS = uint16(realAS)
	}
	s.hold = uint16(r.pick(0, 1, 2, 3, 4, 9, 10, 30, 90, 90, 90, 180, 240, 65535, c.hold&0xffff, (c.hold+1)&0xffff))
	s.id = uint32(r.pick(0x0a000002, 0xc0a80102, 0xffffffff, 2))
	if r.chance(3) {
		s.id = 0
	}
	if r.chance(8) {
		s.id = c.routerID
	}
	caps := c08GenCaps(r, c, realAS, o)
	for {
		s.params = c08Pack(r, caps)
		if c08ParamsLen(s.params) <= 255 || len(caps) == 0 {
			break
		}
		caps = caps[:len(caps)-1]
		o.stat("open_trimmed_to_255", 1)
	}
	return s
}

func (s *c08OpenSpec) message() *bgp.BGPMessage {
	return &bgp.BGPMessage{
		Header: bgp.BGPHeader{Type: bgp.BGP_MSG_OPEN},
		Body:   &bgp.BGPOpen{Version: s.version, MyAS: s.myAS, HoldTime: s.hold, ID: c08U32Addr(s.id), OptParams: s.params},
	}
}

// ---------------------------------------------------------------- printing what the code produced

func c08Fam(afi uint16, safi uint8) uint32 { return uint32(afi)<<16 | uint32(safi) }

// c08CapArgs renders a DECODED capability as `code nArgs args…` (the protocol's encoding)
func c08CapArgs(c bgp.ParameterCapabilityInterface) string {
	args := []uint32{}
	switch v := c.(type) {
	case *bgp.CapMultiProtocol:
		args = append(args, uint32(v.CapValue))
	case *bgp.CapFourOctetASNumber:
		args = append(args, v.CapValue)
	case *bgp.CapAddPath:
		for _, t := range v.Tuples {
			args = append(args, uint32(t.Family), uint32(t.Mode))
		}
	case *bgp.CapGracefulRestart:
		args = append(args, uint32(v.Flags), uint32(v.Time))
		for _, t := range v.Tuples {
			args = append(args, c08Fam(t.AFI, t.SAFI), uint32(t.Flags))
		}
	case *bgp.CapLongLivedGracefulRestart:
		for _, t := range v.Tuples {
			args = append(args, c08Fam(t.AFI, t.SAFI), uint32(t.Flags), t.RestartTime)
		}
	case *bgp.CapExtendedNexthop:
		for _, t := range v.Tuples {
			args = append(args, uint32(t.NLRIAFI), uint32(t.NLRISAFI), uint32(t.NexthopAFI))
		}
	}
	var sb strings.Builder
	fmt.Fprintf(&sb, "%d %d", uint8(c.Code()), len(args))
	for _, a := range args {
		fmt.Fprintf(&sb, " %d", a)
	}
	return sb.String()
}

func c08OpenLine(b *bgp.BGPOpen) string {
	var sb strings.Builder
	fmt.Fprintf(&sb, "open %d %d %d %d %d", b.Version, b.MyAS, b.HoldTime, c08AddrU32(b.ID), len(b.OptParams))
	for _, p := range b.OptParams {
		if pc, ok := p.(*bgp.OptionParameterCapability); ok {
			fmt.Fprintf(&sb, " 1 %d", len(pc.Capability))
			for _, c := range pc.Capability {
				sb.WriteString(" " + c08CapArgs(c))
			}
		} else {
			sb.WriteString(" 0")
		}
	}
	return sb.String()
}

func c08OpenCaps(b *bgp.BGPOpen) []bgp.ParameterCapabilityInterface {
	out := []bgp.ParameterCapabilityInterface{}
	for _, p := range b.OptParams {
		if pc, ok := p.(*bgp.OptionParameterCapability); ok {
			out = append(out, pc.Capability...)
		}
	}
	return out
}

func c08OpenStr(b *bgp.BGPOpen) string {
	var sb strings.Builder
	fmt.Fprintf(&sb, "o %d %d %d %d", b.Version, b.MyAS, b.HoldTime, c08AddrU32(b.ID))
	for _, c := range c08OpenCaps(b) {
		sb.WriteString(" | " + c08CapArgs(c))
	}
	return sb.String()
}

func c08Pairs(m map[uint32]uint32) string {
	keys := make([]uint32, 0, len(m))
	for k := range m {
		keys = append(keys, k)
	}
	slices.Sort(keys)
	parts := make([]string, 0, len(keys))
	for _, k := range keys {
		parts = append(parts, fmt.Sprintf("%d:%d", k, m[k]))
	}
	return strings.Join(parts, " ")
}

func c08FamilyMap(f *fsm) map[bgp.Family]bgp.BGPAddPathMode {
	return f.familyMap.Load().(map[bgp.Family]bgp.BGPAddPathMode)
}

func c08StateStr(f *fsm) string {
	conf := f.pConf.ReadOnly()
	capCount := map[uint32]uint32{}
	for code, l := range f.capMap {
		capCount[uint32(code)] = uint32(len(l))
	}
	ap := []string{}
	for _, c := range f.capMap[bgp.BGP_CAP_ADD_PATH] {
		for _, t := range c.(*bgp.CapAddPath).Tuples {
			ap = append(ap, fmt.Sprintf("%d:%d", uint32(t.Family), uint8(t.Mode)))
		}
	}
	fam := map[uint32]uint32{}
	for k, v := range c08FamilyMap(f) {
		fam[uint32(k)] = uint32(v)
	}
	afs := []string{}
	for _, a := range conf.AfiSafis {
		afs = append(afs, fmt.Sprintf("%d%d%d%d%d:%d", c08B(a.MpGracefulRestart.State.Enabled), c08B(a.MpGracefulRestart.State.Received),
			c08B(a.MpGracefulRestart.State.EndOfRibReceived), c08B(a.LongLivedGracefulRestart.State.Enabled),
			c08B(a.LongLivedGracefulRestart.State.Received), a.LongLivedGracefulRestart.State.PeerRestartTime))
	}
	gs := conf.GracefulRestart.State
	return fmt.Sprintf("caps %s | ap %s | fam %s | ext %d as2 %d hold %d ka3 %d internal %d peeras %d rid %d ebgp %d confed %d taw %d | gr %d prt %d notif %d llgr %d af %s",
		c08Pairs(capCount), strings.Join(ap, " "), c08Pairs(fam), c08B(f.extendedMessage.Load()), c08B(f.twoByteAsTrans),
		int64(conf.Timers.State.NegotiatedHoldTime), int64(math.Round(conf.Timers.State.KeepaliveInterval*3)),
		c08B(conf.State.PeerType == oc.PEER_TYPE_INTERNAL), conf.State.PeerAs, c08AddrU32(conf.State.RemoteRouterId),
		c08B(f.isEBGP), c08B(f.isConfed), c08B(f.isTreatAsWithdraw),
		c08B(gs.Enabled), gs.PeerRestartTime, c08B(gs.NotificationEnabled), c08B(gs.LongLivedEnabled), strings.Join(afs, " "))
}

// ---------------------------------------------------------------- a connection that is only an address and a byte source

type c08Conn struct {
	net.Conn
	rd io.Reader
}

func (c *c08Conn) RemoteAddr() net.Addr {
	return &net.TCPAddr{IP: net.ParseIP("10.9.9.9").To4(), Port: 179}
}
func (c *c08Conn) LocalAddr() net.Addr {
	return &net.TCPAddr{IP: net.ParseIP("10.9.9.1").To4(), Port: 40000}
}
func (c *c08Conn) Read(b []byte) (int, error)         { return c.rd.Read(b) }
func (c *c08Conn) Write(b []byte) (int, error)        { return len(b), nil }
func (c *c08Conn) Close() error                       { return nil }
func (c *c08Conn) SetDeadline(time.Time) error        { return nil }
func (c *c08Conn) SetReadDeadline(time.Time) error    { return nil }
func (c *c08Conn) SetWriteDeadline(time.Time) error   { return nil }

type c08Bytes struct {
	b []byte
}

func (s *c08Bytes) Read(p []byte) (int, error) {
	if len(s.b) == 0 {
		return 0, io.EOF
	}
	n := copy(p, s.b)
	s.b = s.b[n:]
	return n, nil
}

func c08NewFSM(c *c08Cfg) (*fsm, *fsmHandler) {
	g, n := c.build()
	f := newFSM(g, n, bgp.BGP_FSM_IDLE, slog.New(slog.DiscardHandler))
	f.conn = &c08Conn{}
	h := &fsmHandler{fsm: f, outgoing: f.outgoingCh, callback: func(*fsmMsg) {}}
	f.h = h
	return f, h
}

func c08Free(f *fsm) { f.outgoingCh.Close() }

// c08RecvMax finds, by behaviour, the largest length recvMessageWithError's gate accepts for a type.
func c08RecvMax(h *fsmHandler, typ uint8) int {
	probe := func(l int) bool { // true = refused as too large
		buf := make([]byte, l)
		for i := 0; i < 16; i++ {
			buf[i] = 0xff
		}
		binary.BigEndian.PutUint16(buf[16:18], uint16(l))
		buf[18] = typ
		h.fsm.conn = &c08Conn{rd: &c08Bytes{b: buf}}
		fmsg, err := h.recvMessageWithError(h.fsm.conn, make(chan fsmStateReason, 4))
		if err == nil || fmsg == nil {
			return false
		}
		me, ok := fmsg.MsgData.(*bgp.MessageError)
		return ok && me.TypeCode == bgp.BGP_ERROR_MESSAGE_HEADER_ERROR && me.SubTypeCode == bgp.BGP_ERROR_SUB_BAD_MESSAGE_LENGTH &&
			strings.Contains(me.Message, "too large")
	}
	switch {
	case probe(4096):
		return -1 // never expected
	case probe(4097):
		return 4096
	case probe(65535):
		return -2
	}
	return 65535
}

// c08Ticker measures keepaliveTicker in the bubble's virtual time.
func c08Ticker(f *fsm) string {
	tk := keepaliveTicker(f)
	if tk.C == nil {
		return "none"
	}
	t0 := time.Now()
	<-tk.C
	d := time.Since(t0)
	tk.Stop()
	return fmt.Sprint(int64(d / time.Second))
}

// ---------------------------------------------------------------- the property, stated on the implementation alone

type c08Remote struct {
	realAS   uint32
	mp       map[bgp.Family]bool
	mpAbsent bool
	apAny    map[bgp.Family]uint8 // OR of the modes of all tuples of the family
	apLast   map[bgp.Family]uint8
	apConfl  map[bgp.Family]bool // tuples of the family disagree
	as4      bool
	ext      bool
	gr       bool
	llgr     bool
}

func c08Analyse(b *bgp.BGPOpen) *c08Remote {
	r := &c08Remote{realAS: uint32(b.MyAS), mp: map[bgp.Family]bool{}, apAny: map[bgp.Family]uint8{},
		apLast: map[bgp.Family]uint8{}, apConfl: map[bgp.Family]bool{}}
	for _, c := range c08OpenCaps(b) {
		switch v := c.(type) {
		case *bgp.CapMultiProtocol:
			r.mp[v.CapValue] = true
		case *bgp.CapFourOctetASNumber:
			r.as4 = true
			r.realAS = v.CapValue
		case *bgp.CapAddPath:
			for _, t := range v.Tuples {
				if old, seen := r.apLast[t.Family]; seen && old&3 != uint8(t.Mode)&3 {
					r.apConfl[t.Family] = true
				}
				r.apAny[t.Family] |= uint8(t.Mode)
				r.apLast[t.Family] = uint8(t.Mode)
			}
		case *bgp.CapExtendedMessage:
			r.ext = true
		case *bgp.CapGracefulRestart:
			r.gr = true
		case *bgp.CapLongLivedGracefulRestart:
			r.llgr = true
		}
	}
	if len(r.mp) == 0 {
		r.mpAbsent = true
		r.mp[bgp.RF_IPv4_UC] = true
	}
	return r
}

func c08Detail(c *c08Cfg, opens []string, what string) map[string]any {
	return map[string]any{"cfg": c.line(), "gcfg": c.gline(), "opens": opens, "what": what}
}

// c08CheckSession: the property's clauses on (configuration, received OPEN, fsm after stateChange)
func c08CheckSession(o *vOut, c *c08Cfg, b *bgp.BGPOpen, f *fsm, recvMax map[uint8]int, ticker string, opens []string) {
	rm := c08Analyse(b)
	conf := f.pConf.ReadOnly()
	bad := func(class, what string) { o.fail(class, c08Detail(c, opens, what)) }
	// hold time = min; keepalive
	hold := int(conf.Timers.State.NegotiatedHoldTime)
	want := min(c.hold, int(b.HoldTime))
	if hold != want {
		bad("hold-not-min", fmt.Sprintf("negotiated %d, local %d remote %d", hold, c.hold, b.HoldTime))
	}
	ka3 := int(math.Round(conf.Timers.State.KeepaliveInterval * 3))
	if hold < c.hold && ka3 != hold {
		bad("keepalive-not-third", fmt.Sprintf("hold %d keepalive*3 %d", hold, ka3))
	}
	if hold >= c.hold && ka3 != c.ka3 {
		bad("keepalive-not-configured", fmt.Sprintf("hold %d keepalive*3 %d configured*3 %d", hold, ka3, c.ka3))
	}
	if (hold == 0) != (ticker == "none") {
		bad("keepalive-timer-vs-hold-zero", fmt.Sprintf("hold %d ticker %s", hold, ticker))
	}
	if hold != 0 && ticker != "none" {
		sec := ka3 / 3
		if sec == 0 {
			sec = 1
		}
		if ticker != fmt.Sprint(sec) {
			bad("keepalive-ticker-period", fmt.Sprintf("ka3 %d ticker %s", ka3, ticker))
		}
	}
	// families = local ∩ remote*
	fm := c08FamilyMap(f)
	local := map[bgp.Family]c08Af{}
	for _, a := range c.afs {
		local[a.fam] = a // duplicates: the generator's rare repeated family, last one is what CreateRfMap keeps
	}
	dupLocal := len(local) != len(c.afs)
	for fam := range local {
		_, neg := fm[fam]
		if neg != rm.mp[fam] {
			bad("families-not-intersection", fmt.Sprintf("family %d negotiated %v remote* %v", uint32(fam), neg, rm.mp[fam]))
		}
	}
	for fam := range fm {
		if _, ok := local[fam]; !ok {
			bad("families-not-intersection", fmt.Sprintf("family %d negotiated but not configured", uint32(fam)))
		}
	}
	// ADD-PATH: a direction only where the peer announced the complementary one (and we have it)
	for fam, m := range fm {
		a := local[fam]
		lsend, lrecv := a.sendMax > 0, a.recv
		anyRecv, anySend := rm.apAny[fam]&1 != 0, rm.apAny[fam]&2 != 0
		send, recv := m&bgp.BGP_ADD_PATH_SEND != 0, m&bgp.BGP_ADD_PATH_RECEIVE != 0
		if dupLocal {
			continue
		}
		if send && !(lsend && anyRecv) || recv && !(lrecv && anySend) {
			bad("addpath-without-complement", fmt.Sprintf("family %d mode %d local send %v recv %v remote any %d", uint32(fam), m, lsend, lrecv, rm.apAny[fam]))
		}
		if !rm.apConfl[fam] {
			if send != (lsend && anyRecv) || recv != (lrecv && anySend) {
				bad("addpath-not-negotiated", fmt.Sprintf("family %d mode %d local send %v recv %v remote %d", uint32(fam), m, lsend, lrecv, rm.apAny[fam]))
			}
		} else {
			o.stat("addpath_conflicting_tuples", 1)
			if send != (lsend && anyRecv) || recv != (lrecv && anySend) {
				o.stat("addpath_conflict_last_tuple_decided", 1)
			}
		}
		if m&^3 != 0 {
			bad("addpath-mode-range", fmt.Sprintf("family %d mode %d", uint32(fam), m))
		}
	}
	// 4-octet AS only if both; we always announce it
	if f.twoByteAsTrans != !rm.as4 {
		bad("as4-not-both", fmt.Sprintf("twoByteAsTrans %v remote as4 %v", f.twoByteAsTrans, rm.as4))
	}
	// extended message only if the peer announced it (we always do); never for OPEN / KEEPALIVE
	if f.extendedMessage.Load() != rm.ext {
		bad("extmsg-not-both", fmt.Sprintf("extendedMessage %v remote %v", f.extendedMessage.Load(), rm.ext))
	}
	for typ, mx := range recvMax {
		wantMax := 4096
		if rm.ext && (typ == bgp.BGP_MSG_UPDATE || typ == bgp.BGP_MSG_NOTIFICATION || typ == bgp.BGP_MSG_ROUTE_REFRESH) {
			wantMax = 65535
		}
		if mx != wantMax {
			bad("recv-length-gate", fmt.Sprintf("type %d accepts up to %d, want %d (remote ext %v)", typ, mx, wantMax, rm.ext))
		}
	}
	// peer type and AS from the real remote AS
	if conf.State.PeerAs != rm.realAS {
		bad("peer-as-not-real", fmt.Sprintf("State.PeerAs %d real %d", conf.State.PeerAs, rm.realAS))
	}
	// internal iff the AS in the peer's OPEN equals the AS OUR OPEN announced on this session
	if (conf.State.PeerType == oc.PEER_TYPE_INTERNAL) != (rm.realAS == c.announcedAs) {
		bad("peer-type-not-real-as", fmt.Sprintf("State.PeerType %v, peer's OPEN says AS %d, our OPEN announced AS %d (global AS %d, configured local-as %d, peer-as %d)",
			conf.State.PeerType, rm.realAS, c.announcedAs, c.globalAs, c.cfgLocalAs, c.peerAs))
	}
	if f.isEBGP != (rm.realAS != c.announcedAs) {
		bad("isebgp-not-real-as", fmt.Sprintf("fsm.isEBGP %v, peer's OPEN says AS %d, our OPEN announced AS %d (global AS %d, configured local-as %d, peer-as %d)",
			f.isEBGP, rm.realAS, c.announcedAs, c.globalAs, c.cfgLocalAs, c.peerAs))
	}
	if f.isConfed != slices.Contains(c.confed, rm.realAS) {
		bad("isconfed-not-real-as", fmt.Sprintf("fsm.isConfed %v real AS %d members %v configured peer-as %d", f.isConfed, rm.realAS, c.confed, c.peerAs))
	}
}

// c08CheckOpenSent: the OPEN we send reflects the configuration (on the decoded bytes)
func c08CheckOpenSent(o *vOut, c *c08Cfg, b *bgp.BGPOpen) {
	bad := func(class, what string) { o.fail(class, c08Detail(c, nil, what)) }
	wantAS := c.localAs
	if wantAS > 65535 {
		wantAS = bgp.AS_TRANS
	}
	if uint32(b.MyAS) != wantAS || b.Version != 4 || int(b.HoldTime) != c.hold || c08AddrU32(b.ID) != c.routerID {
		bad("open-fixed-fields", fmt.Sprintf("version %d as %d hold %d id %d", b.Version, b.MyAS, b.HoldTime, c08AddrU32(b.ID)))
	}
	mp := []uint32{}
	as4 := []uint32{}
	ext, nGr, nLlgr, nAp := 0, 0, 0, 0
	var gr *bgp.CapGracefulRestart
	var llgr *bgp.CapLongLivedGracefulRestart
	ap := map[bgp.Family][]uint8{}
	for _, cp := range c08OpenCaps(b) {
		switch v := cp.(type) {
		case *bgp.CapMultiProtocol:
			mp = append(mp, uint32(v.CapValue))
		case *bgp.CapFourOctetASNumber:
			as4 = append(as4, v.CapValue)
		case *bgp.CapExtendedMessage:
			ext++
		case *bgp.CapGracefulRestart:
			nGr++
			gr = v
		case *bgp.CapLongLivedGracefulRestart:
			nLlgr++
			llgr = v
		case *bgp.CapAddPath:
			nAp++
			for _, t := range v.Tuples {
				ap[t.Family] = append(ap[t.Family], uint8(t.Mode))
			}
		}
	}
	wantMp := []uint32{}
	for _, a := range c.afs {
		wantMp = append(wantMp, uint32(a.fam))
	}
	slices.Sort(mp)
	slices.Sort(wantMp)
	if !slices.Equal(mp, wantMp) {
		bad("open-families", fmt.Sprintf("multiprotocol %v configured %v", mp, wantMp))
	}
	if len(as4) != 1 || as4[0] != c.localAs {
		bad("open-as4", fmt.Sprintf("4-octet AS capability %v local AS %d", as4, c.localAs))
	}
	if ext != 1 {
		bad("open-extmsg", fmt.Sprintf("%d extended message capabilities", ext))
	}
	wantAp := map[bgp.Family][]uint8{}
	for _, a := range c.afs {
		if a.mode() != 0 {
			wantAp[a.fam] = append(wantAp[a.fam], a.mode())
		}
	}
	if fmt.Sprint(ap) != fmt.Sprint(wantAp) || nAp > 1 {
		bad("open-addpath", fmt.Sprintf("add-path %v configured %v", ap, wantAp))
	}
	if (nGr == 1) != c.grEn || nGr > 1 || (nLlgr == 1) != (c.grEn && c.grLlgr) || nLlgr > 1 {
		bad("open-gr-presence", fmt.Sprintf("%d GR %d LLGR capabilities, enabled %v llgr %v", nGr, nLlgr, c.grEn, c.grLlgr))
	}
	if gr != nil {
		if (gr.Flags&8 != 0) != c.localRestarting || (gr.Flags&4 != 0) != c.grNotif || gr.Flags&3 != 0 || gr.Time != c.grTime {
			bad("open-gr-flags-time", fmt.Sprintf("flags %d time %d; restarting %v notification %v restart-time %d", gr.Flags, gr.Time, c.localRestarting, c.grNotif, c.grTime))
		}
		got, wantT := []uint32{}, []uint32{}
		for _, t := range gr.Tuples {
			got = append(got, c08Fam(t.AFI, t.SAFI))
		}
		for _, a := range c.afs {
			if a.mpGr && !c.grHelper {
				wantT = append(wantT, uint32(a.fam))
			}
		}
		if !slices.Equal(got, wantT) {
			bad("open-gr-tuples", fmt.Sprintf("tuples %v configured %v", got, wantT))
		}
	}
	if llgr != nil {
		got, wantT := []string{}, []string{}
		for _, t := range llgr.Tuples {
			got = append(got, fmt.Sprintf("%d/%d", c08Fam(t.AFI, t.SAFI), t.RestartTime))
		}
		for _, a := range c.afs {
			if a.llgr && !c.grHelper {
				wantT = append(wantT, fmt.Sprintf("%d/%d", uint32(a.fam), a.llgrTime))
			}
		}
		if !slices.Equal(got, wantT) {
			bad("open-llgr-tuples", fmt.Sprintf("tuples %v configured %v", got, wantT))
		}
	}
}

// ---------------------------------------------------------------- the run

// c08Roundtrip: what the peer's bytes decode to (the message the fsm would hold in recvOpen)
func c08Roundtrip(m *bgp.BGPMessage) (*bgp.BGPMessage, error) {
	m.Header.Len = 0
	buf, err := m.Serialize()
	if err != nil {
		return nil, err
	}
	return bgp.ParseBGPMessage(buf)
}

func c08PickRealAS(r *vRand, c *c08Cfg) uint32 {
	switch r.pick(0, 0, 0, 1, 1, 2, 2, 3, 4, 4) {
	case 4: // the ASes the configuration mentions: global, configured local-as, confederation identifier / member
		cands := []int{int(c.globalAs), int(c.globalAs)}
		if c.cfgLocalAs != 0 {
			cands = append(cands, int(c.cfgLocalAs), int(c.cfgLocalAs))
		}
		if c.confedEn {
			cands = append(cands, int(c.confedID))
		}
		for _, m := range c.confed {
			cands = append(cands, int(m))
		}
		return uint32(r.pick(cands...))
	case 0:
		return c.localAs // iBGP
	case 1:
		return uint32(r.pick(64513, 65002, 65100, 65101, 100))
	case 2:
		return uint32(r.pick(65536, 70000, 4200000001))
	}
	return bgp.AS_TRANS
}

func (c *c08Cfg) gline() string {
	return fmt.Sprintf("gcfg %d %d %d %d", c.globalAs, c.cfgLocalAs, c08B(c.confedEn), c.confedID)
}

// c08Defaults: the neighbour's LocalAs / PeerType as the real configuration layer derived them,
// against the model's applyDefaults and against the rule stated independently of both
func c08Defaults(o *vOut, c *c08Cfg) {
	o.op("%s", c.line())
	o.op("%s", c.gline())
	o.ask(fmt.Sprintf("%d %d", c.localAs, c08B(c.internal())), "localas")
	if c.localAs != c.specLocalAs() || c.internal() != (c.peerAs == c.specLocalAs()) {
		o.fail("local-as-defaults", c08Detail(c, nil, fmt.Sprintf("neighbour LocalAs %d internal %v; global AS %d, configured local-as %d, confederation %v id %d members %v, peer-as %d",
			c.localAs, c.internal(), c.globalAs, c.cfgLocalAs, c.confedEn, c.confedID, c.confed, c.peerAs)))
	}
	switch {
	case c.cfgLocalAs != 0 && c.cfgLocalAs != c.globalAs:
		o.stat("localas_override", 1)
	case c.localAs != c.globalAs:
		o.stat("localas_confed_identifier", 1)
	default:
		o.stat("localas_global", 1)
	}
}

func c08Case(o *vOut, r *vRand, c *c08Cfg, specs []*c08OpenSpec) {
	c.resolve(o.t)
	c08Defaults(o, c)
	f, h := c08NewFSM(c)
	defer c08Free(f)
	opens := []string{}

	// the OPEN we send
	{
		g, n := c.build()
		sent, err := c08Roundtrip(buildopen(g, n))
		if err != nil {
			o.stat("buildopen_undecodable", 1)
			o.fail("open-sent-undecodable", c08Detail(c, nil, err.Error()))
		} else {
			body := sent.Body.(*bgp.BGPOpen)
			o.ask(c08OpenStr(body), "buildopen")
			c08CheckOpenSent(o, c, body)
			c.announcedAs = c08Analyse(body).realAS
		}
	}

	var last *bgp.BGPOpen
	for k, s := range specs {
		msg, err := c08Roundtrip(s.message())
		if err != nil {
			o.stat("open_undecodable", 1)
			continue
		}
		body := msg.Body.(*bgp.BGPOpen)
		line := c08OpenLine(body)
		opens = append(opens, line)
		o.op("%s", line)
		rm := c08Analyse(body)

		// acceptance (fsm.handleOpen → bgp.ValidateOpenMsg)
		next, _, notif := f.handleOpen(&fsmMsg{MsgType: fsmMsgBGPMessage, MsgData: msg})
		ans := ""
		if next == bgp.BGP_FSM_OPENCONFIRM {
			ans = fmt.Sprintf("ok %d", rm.realAS)
			o.stat("open_accepted", 1)
		} else {
			sub := notif.Body.(*bgp.BGPNotification).ErrorSubcode
			name := map[uint8]string{bgp.BGP_ERROR_SUB_UNSUPPORTED_VERSION_NUMBER: "version", bgp.BGP_ERROR_SUB_BAD_BGP_IDENTIFIER: "badId",
				bgp.BGP_ERROR_SUB_BAD_PEER_AS: "badPeerAs", bgp.BGP_ERROR_SUB_UNACCEPTABLE_HOLD_TIME: "holdTime"}[sub]
			ans = "err " + name
			o.stat("open_refused_"+name, 1)
		}
		o.ask(ans, "validate")
		accepted := next == bgp.BGP_FSM_OPENCONFIRM
		if accepted && (body.HoldTime == 1 || body.HoldTime == 2) {
			o.fail("hold-1-2-accepted", c08Detail(c, opens, "hold time 1 or 2 accepted"))
		}
		if accepted && (body.Version != 4 || c08AddrU32(body.ID) == 0 || (c.peerAs != 0 && rm.realAS != c.peerAs) ||
			(rm.realAS == c.localAs && c08AddrU32(body.ID) == c.routerID)) {
			o.fail("open-accepted-wrongly", c08Detail(c, opens, "version / identifier / AS check"))
		}
		if !accepted && body.Version == 4 && c08AddrU32(body.ID) != 0 && (c.peerAs == 0 || rm.realAS == c.peerAs) &&
			!(rm.realAS == c.localAs && c08AddrU32(body.ID) == c.routerID) && (body.HoldTime == 0 || body.HoldTime >= 3) {
			o.fail("open-refused-wrongly", c08Detail(c, opens, ans))
		}
		if !accepted {
			continue
		}

		// the session: stateChange(ESTABLISHED) with this OPEN
		if last != nil {
			// the previous session went down: BgpServer.handleFSMMessage clears EndOfRibReceived
			conf := f.pConf.ReadCopy()
			for i := range conf.AfiSafis {
				conf.AfiSafis[i].MpGracefulRestart.State.EndOfRibReceived = false
			}
			f.pConf.Update(&conf)
			o.op("peerdown")
		}
		f.conn = &c08Conn{}
		f.recvOpen = msg
		f.stateChange(bgp.BGP_FSM_ESTABLISHED, newfsmStateReason(fsmOpenMsgNegotiated, nil, nil))
		o.ask(c08StateStr(f), "est")
		recvMax := map[uint8]int{}
		for _, typ := range []uint8{1, 2, 3, 4, 5, 9} {
			mx := c08RecvMax(h, typ)
			recvMax[typ] = mx
			o.ask(fmt.Sprint(mx), "recvmax %d", typ)
		}
		ticker := c08Ticker(f)
		o.ask(ticker, "ticker")
		c08CheckSession(o, c, body, f, recvMax, ticker, opens)
		c08Boundaries(o, r, c, rm, f, h, opens)
		c08Consumption(o, c, rm, f, h, opens)

		// coverage counters
		fm := c08FamilyMap(f)
		o.stat(fmt.Sprintf("families_negotiated_%d", min(len(fm), 4)), 1)
		for _, m := range fm {
			o.stat(fmt.Sprintf("addpath_mode_%d", m), 1)
		}
		o.stat(fmt.Sprintf("ext_%d", c08B(rm.ext)), 1)
		o.stat(fmt.Sprintf("as2_%d", c08B(f.twoByteAsTrans)), 1)
		conf := f.pConf.ReadOnly()
		switch hold := int(conf.Timers.State.NegotiatedHoldTime); {
		case hold == 0:
			o.stat("hold_zero", 1)
		case hold < c.hold:
			o.stat("hold_remote_smaller", 1)
		default:
			o.stat("hold_local", 1)
		}
		if c.peerAs == 0 {
			o.stat("peer_as_unconfigured", 1)
		}
		if rm.mpAbsent {
			o.stat("est_mp_absent", 1)
		}
		if conf.GracefulRestart.State.Enabled {
			o.stat("gr_negotiated", 1)
		}
		if conf.GracefulRestart.State.LongLivedEnabled {
			o.stat("llgr_negotiated", 1)
		}

		// a later session on the same peer must not depend on the earlier ones: compare with a
		// fresh fsm given only this OPEN
		if last != nil {
			o.stat("second_session", 1)
			f2, _ := c08NewFSM(c)
			f2.recvOpen = msg
			f2.stateChange(bgp.BGP_FSM_ESTABLISHED, newfsmStateReason(fsmOpenMsgNegotiated, nil, nil))
			a, b := c08StateStr(f), c08StateStr(f2)
			c08Free(f2)
			if a != b {
				ia, ib := strings.Index(a, " | gr "), strings.Index(b, " | gr ")
				if a[:ia] != b[:ib] {
					o.fail("session-depends-on-previous-open", c08Detail(c, opens, "same OPEN, fresh fsm: "+b+" ; after history: "+a))
				} else {
					o.fail("stale-gr-flags-after-renegotiation", c08Detail(c, opens, "same OPEN, fresh fsm: "+b[ib:]+" ; after history: "+a[ia:]))
				}
			}
		}
		last = body
		if k == 0 {
			o.sample(c.line() + " ; " + line + " => " + c08StateStr(f))
		}
	}
}

// c08Mutate derives the OPEN of a re-established session from the previous one
func c08Mutate(r *vRand, c *c08Cfg, realAS uint32, prev *c08OpenSpec, o *vOut) *c08OpenSpec {
	if r.chance(35) {
		return c08GenOpen(r, c, realAS, o)
	}
	s := &c08OpenSpec{version: 4, myAS: prev.myAS, hold: prev.hold, id: prev.id}
	if r.chance(40) {
		s.hold = uint16(r.pick(0, 3, 30, 90, 240))
	}
	caps := []bgp.ParameterCapabilityInterface{}
	for _, p := range prev.params {
		if pc, ok := p.(*bgp.OptionParameterCapability); ok {
			caps = append(caps, pc.Capability...)
		}
	}
	drop := bgp.BGPCapabilityCode(r.pick(64, 64, 71, 6, 65, 69, 1, 0))
	if realAS > 65535 && drop == 65 {
		drop = 64
	}
	kept := []bgp.ParameterCapabilityInterface{}
	for _, cp := range caps {
		if cp.Code() != drop {
			kept = append(kept, cp)
		}
	}
	s.params = c08Pack(r, kept)
	for c08ParamsLen(s.params) > 255 && len(kept) > 0 {
		kept = kept[:len(kept)-1]
		s.params = c08Pack(r, kept)
	}
	return s
}

func TestVerifC08(t *testing.T) {
	synctest.Test(t, func(t *testing.T) {
		o := vOpen(t)
		defer o.close()
		r := &vRand{s: o.seed*7919 + 8}

		// corpus: minimised past findings, run first
		c08Corpus(o, r)
		c08ConsumptionMatrix(o, r)

		n := 2500
		if o.thorough {
			n = 20000
		}
		for i := 0; i < n; i++ {
			c := c08GenCfg(r, o.thorough)
			c.resolve(t) // provisional (peer-as still 0): the AS an iBGP peer would have
			realAS := c08PickRealAS(r, c)
			switch r.pick(0, 0, 0, 0, 0, 0, 1, 1, 2) {
			case 0:
				c.peerAs = realAS
			case 1:
				c.peerAs = 0
			default:
				c.peerAs = uint32(r.pick(65002, 70000, int(c.localAs)))
			}
			if len(c.confed) > 0 && r.chance(40) {
				c.confed[1] = realAS // the peer sits in another member AS of our confederation
			}
			specs := []*c08OpenSpec{c08GenOpen(r, c, realAS, o)}
			for k := r.pick(0, 0, 1, 1, 1, 2); k > 0; k-- {
				specs = append(specs, c08Mutate(r, c, realAS, specs[len(specs)-1], o))
			}
			c08Case(o, r, c, specs)
		}
		keys := []string{}
		for k := range o.stats {
			keys = append(keys, k)
		}
		sort.Strings(keys)
	})
}

// c08Corpus: minimised inputs of the two defects found on the unchanged tree (both repaired on
// branch wt-C08); the oracles inside c08Case report them again if they come back.
func c08Corpus(o *vOut, r *vRand) {
	v4 := c08Af{fam: bgp.RF_IPv4_UC, mpGr: true}
	caps := func(cs ...bgp.ParameterCapabilityInterface) []bgp.OptionParameterInterface {
		return []bgp.OptionParameterInterface{bgp.NewOptionParameterCapability(cs)}
	}
	// 1. peer-as not configured (dynamic / unnumbered neighbour), the peer is in OUR AS: the session
	//    must be treated as internal (fsm.isEBGP false); and in another member AS of our
	//    confederation: fsm.isConfed true.
	c1 := &c08Cfg{localAs: 65001, peerAs: 0, routerID: 0x0a000001, hold: 90, ka3: 90, afs: []c08Af{v4}, confed: []uint32{65100, 65101}}
	c08Case(o, r, c1, []*c08OpenSpec{{version: 4, myAS: 65001, hold: 90, id: 0x0a000002,
		params: caps(bgp.NewCapMultiProtocol(bgp.RF_IPv4_UC), bgp.NewCapFourOctetASNumber(65001))}})
	c08Case(o, r, c1, []*c08OpenSpec{{version: 4, myAS: 65101, hold: 90, id: 0x0a000002,
		params: caps(bgp.NewCapMultiProtocol(bgp.RF_IPv4_UC), bgp.NewCapFourOctetASNumber(65101))}})
	// 1b. the neighbour speaks with a local-as that is not the global AS (per-neighbour override), peer-as
	//     unconfigured: internal iff the peer's AS equals the AS OUR OPEN announced, not the global AS.
	for _, peerAS := range []uint16{65100, 65000} {
		c3 := &c08Cfg{globalAs: 65000, cfgLocalAs: 65100, peerAs: 0, routerID: 0x0a000001, hold: 90, ka3: 90, afs: []c08Af{v4}}
		c08Case(o, r, c3, []*c08OpenSpec{{version: 4, myAS: peerAS, hold: 90, id: 0x0a000002,
			params: caps(bgp.NewCapMultiProtocol(bgp.RF_IPv4_UC), bgp.NewCapFourOctetASNumber(uint32(peerAS)))}})
		// the same with the confederation identifier spoken towards a peer outside the confederation
		c4 := &c08Cfg{globalAs: 65000, confedEn: true, confedID: 65100, confed: []uint32{65001}, peerAs: 0, routerID: 0x0a000001, hold: 90, ka3: 90, afs: []c08Af{v4}}
		c08Case(o, r, c4, []*c08OpenSpec{{version: 4, myAS: peerAS, hold: 90, id: 0x0a000002,
			params: caps(bgp.NewCapMultiProtocol(bgp.RF_IPv4_UC), bgp.NewCapFourOctetASNumber(uint32(peerAS)))}})
	}
	// 2. the peer first announces Graceful Restart (+ N bit, LLGR), then comes back without: nothing
	//    of the first negotiation may survive.
	c2 := &c08Cfg{localAs: 65001, peerAs: 65002, routerID: 0x0a000001, hold: 90, ka3: 90, afs: []c08Af{v4},
		grEn: true, grNotif: true, grLlgr: true, grTime: 120}
	g := bgp.NewCapGracefulRestart(false, true, 120, []*bgp.CapGracefulRestartTuple{bgp.NewCapGracefulRestartTuple(bgp.RF_IPv4_UC, true)})
	l := bgp.NewCapLongLivedGracefulRestart([]*bgp.CapLongLivedGracefulRestartTuple{bgp.NewCapLongLivedGracefulRestartTuple(bgp.RF_IPv4_UC, true, 3600)})
	c08Case(o, r, c2, []*c08OpenSpec{
		{version: 4, myAS: 65002, hold: 90, id: 0x0a000002, params: caps(bgp.NewCapMultiProtocol(bgp.RF_IPv4_UC), g, l)},
		{version: 4, myAS: 65002, hold: 90, id: 0x0a000002, params: caps(bgp.NewCapMultiProtocol(bgp.RF_IPv4_UC))}})
}

// ---------------------------------------------------------------- boundary sizes of what is emitted and accepted

// c08RecConn records what is written, message by message (every Write of the fsm is one message).
type c08RecConn struct {
	c08Conn
	mu     sync.Mutex
	writes [][]byte
}

func (c *c08RecConn) Write(b []byte) (int, error) {
	c.mu.Lock()
	c.writes = append(c.writes, append([]byte{}, b...))
	c.mu.Unlock()
	return len(b), nil
}

// c08Padded builds, by construction, a message whose serialisation is exactly `total` octets long
// (19-octet header included): an UPDATE without routes carrying one unknown optional transitive
// attribute, or a NOTIFICATION with padded data.
func c08Padded(typ uint8, total int) *bgp.BGPMessage {
	if typ == bgp.BGP_MSG_NOTIFICATION {
		return bgp.NewBGPNotificationMessage(bgp.BGP_ERROR_UPDATE_MESSAGE_ERROR, bgp.BGP_ERROR_SUB_MALFORMED_ATTRIBUTE_LIST,
			make([]byte, total-bgp.BGP_HEADER_LENGTH-2))
	}
	// 2 (withdrawn length) + 2 (attribute length) + 4 (flags, type, extended length) + value
	val := make([]byte, total-bgp.BGP_HEADER_LENGTH-8)
	return bgp.NewBGPUpdateMessage(nil, []bgp.PathAttributeInterface{
		bgp.NewPathAttributeUnknown(bgp.BGP_ATTR_FLAG_OPTIONAL|bgp.BGP_ATTR_FLAG_TRANSITIVE, 250, val)}, nil)
}

// c08SizedPath: a local IPv4 route whose single-route UPDATE is exactly `total` octets long when
// `pathID` says whether the NLRI carries a path identifier. The AS_PATH is empty, so the 2-octet
// down-conversion of sendMessageloop does not change the size.
func c08SizedPath(total int, pathID bool) (*table.Path, int) {
	nlri, _ := bgp.NewIPAddrPrefix(netip.MustParsePrefix("10.88.0.0/24"))
	nh, _ := bgp.NewPathAttributeNextHop(netip.MustParseAddr("10.9.9.1"))
	fixed := []bgp.PathAttributeInterface{bgp.NewPathAttributeOrigin(0), bgp.NewPathAttributeAsPath(nil), nh}
	n := bgp.BGP_HEADER_LENGTH + 4 + 4 // header, the two length fields, the /24
	if pathID {
		n += 4
	}
	for _, a := range fixed {
		b, _ := a.Serialize()
		n += len(b)
	}
	n += 4 // flags, type, extended length of the padding attribute
	val := make([]byte, total-n)
	attrs := append(fixed, bgp.NewPathAttributeUnknown(bgp.BGP_ATTR_FLAG_OPTIONAL|bgp.BGP_ATTR_FLAG_TRANSITIVE, 250, val))
	return table.NewPath(bgp.RF_IPv4_UC, nil, bgp.PathNLRI{NLRI: nlri}, false, attrs, time.Now(), false), n + len(val)
}

func c08HeaderLen(b []byte) int {
	if len(b) < bgp.BGP_HEADER_LENGTH {
		return -1
	}
	return int(binary.BigEndian.Uint16(b[16:18]))
}

// c08Boundaries: for the session just negotiated, messages whose TOTAL length is exactly at, one
// below, one above and up to a header's length above the session maximum (4096, and 65535 with
// Extended Message), through (a) Serialize under the options `send` of sendMessageloop passes,
// (b) the real fsm.sendNotification, (c) the real sendMessageloop fed with a route sized so that
// its UPDATE lands on the boundary, (d) the receive gate at the same totals.
func c08Boundaries(o *vOut, r *vRand, c *c08Cfg, rm *c08Remote, f *fsm, h *fsmHandler, opens []string) {
	bad := func(class, what string) { o.fail(class, c08Detail(c, opens, what)) }
	specMax := func(typ uint8) int {
		if rm.ext && (typ == bgp.BGP_MSG_UPDATE || typ == bgp.BGP_MSG_NOTIFICATION || typ == bgp.BGP_MSG_ROUTE_REFRESH) {
			return bgp.BGP_MAX_EXTENDED_MESSAGE_LENGTH
		}
		return bgp.BGP_MAX_MESSAGE_LENGTH
	}
	totals := []int{4095, 4096, 4097, 4096 + bgp.BGP_HEADER_LENGTH, 4096 + bgp.BGP_HEADER_LENGTH + 1}
	if rm.ext || r.chance(10) {
		totals = append(totals, 65534, 65535, 65536, 65535+bgp.BGP_HEADER_LENGTH, 65535+bgp.BGP_HEADER_LENGTH+1)
	}
	ext := f.extendedMessage.Load()

	// (a) Serialize under the session's send options
	for _, typ := range []uint8{bgp.BGP_MSG_UPDATE, bgp.BGP_MSG_NOTIFICATION} {
		for _, total := range totals {
			m := c08Padded(typ, total)
			buf, err := m.Serialize(&bgp.MarshallingOption{AddPath: c08FamilyMap(f), ExtendedMessage: ext})
			written := 0
			if err == nil {
				written = len(buf)
			}
			o.ask(fmt.Sprint(written), "sendwrites %d %d", typ, total)
			o.stat(fmt.Sprintf("boundary_serialize_ext_%d_%s", c08B(rm.ext), c08Rel(total, specMax(typ))), 1)
			switch {
			case written > specMax(typ):
				bad("sent-oversized-message", fmt.Sprintf("Serialize under the session's options produced a %d-octet type-%d message, session maximum %d", written, typ, specMax(typ)))
			case written == 0 && total <= specMax(typ):
				bad("send-refused-fitting-message", fmt.Sprintf("a %d-octet type-%d message does not serialise, session maximum %d", total, typ, specMax(typ)))
			case written != 0 && (written != total || c08HeaderLen(buf) != total):
				bad("sent-length-field-wrong", fmt.Sprintf("a %d-octet type-%d message serialised to %d octets with length field %d", total, typ, written, c08HeaderLen(buf)))
			}
		}
	}

	// (b) fsm.sendNotification (no options: never extended)
	for _, total := range []int{4096, 4097, 4096 + bgp.BGP_HEADER_LENGTH} {
		rec := &c08RecConn{}
		_ = f.sendNotification(rec, c08Padded(bgp.BGP_MSG_NOTIFICATION, total))
		written := 0
		for _, w := range rec.writes {
			written += len(w)
		}
		o.ask(fmt.Sprint(written), "notifwrites %d", total)
		if written > specMax(bgp.BGP_MSG_NOTIFICATION) {
			bad("sent-oversized-message", fmt.Sprintf("sendNotification wrote a %d-octet NOTIFICATION, session maximum %d", written, specMax(bgp.BGP_MSG_NOTIFICATION)))
		}
	}

	// (c) the real sendMessageloop with a route whose UPDATE has a chosen total length
	mx := 4096
	if ext {
		mx = 65535
	}
	pathID := c08FamilyMap(f)[bgp.RF_IPv4_UC]&bgp.BGP_ADD_PATH_SEND != 0
	cands := []int{mx - 1, mx, mx + 1, mx + bgp.BGP_HEADER_LENGTH, mx + bgp.BGP_HEADER_LENGTH + 1, mx + 1 + r.intn(bgp.BGP_HEADER_LENGTH-1)}
	for _, i := range r.perm(len(cands))[:2] {
		p, total := c08SizedPath(cands[i], pathID)
		rec := &c08RecConn{}
		ctx, cancel := context.WithCancel(context.Background())
		wg := &sync.WaitGroup{}
		wg.Add(1)
		go h.sendMessageloop(ctx, rec, make(chan fsmStateReason, 3), wg)
		h.outgoing.In() <- &fsmOutgoingMsg{Paths: []*table.Path{p}}
		synctest.Wait()
		cancel()
		wg.Wait()
		written, nUpd := 0, 0
		for _, w := range rec.writes {
			if len(w) > bgp.BGP_HEADER_LENGTH && w[18] == bgp.BGP_MSG_UPDATE {
				nUpd++
				written = len(w)
				if len(w) > specMax(bgp.BGP_MSG_UPDATE) {
					bad("sent-oversized-message", fmt.Sprintf("sendMessageloop wrote a %d-octet UPDATE (length field %d) for a route needing %d octets, session maximum %d",
						len(w), c08HeaderLen(w), total, specMax(bgp.BGP_MSG_UPDATE)))
				}
				if c08HeaderLen(w) != len(w) {
					bad("sent-length-field-wrong", fmt.Sprintf("sendMessageloop wrote %d octets with length field %d", len(w), c08HeaderLen(w)))
				}
			}
		}
		if nUpd > 1 {
			written = -nUpd
		}
		o.ask(fmt.Sprint(written), "sendwrites 2 %d", total)
		o.stat(fmt.Sprintf("boundary_sendloop_ext_%d_%s", c08B(rm.ext), c08Rel(total, specMax(bgp.BGP_MSG_UPDATE))), 1)
		if nUpd == 0 && total <= specMax(bgp.BGP_MSG_UPDATE) {
			bad("send-refused-fitting-message", fmt.Sprintf("sendMessageloop did not send the route whose UPDATE is %d octets, session maximum %d", total, specMax(bgp.BGP_MSG_UPDATE)))
		}
	}

	// (d) the receive gate at the same totals (header only matters: the gate reads hd.Len)
	for _, typ := range []uint8{bgp.BGP_MSG_UPDATE, bgp.BGP_MSG_NOTIFICATION, bgp.BGP_MSG_KEEPALIVE} {
		for _, total := range []int{4096, 4097, 65535} {
			refused := c08GateRefuses(h, typ, total)
			o.ask(fmt.Sprint(c08B(!refused)), "recvfits %d %d", typ, total)
			if refused != (total > specMax(typ)) {
				bad("recv-length-gate", fmt.Sprintf("type %d, %d octets: refused %v, session maximum %d", typ, total, refused, specMax(typ)))
			}
		}
	}
}

func c08Rel(total, mx int) string {
	switch {
	case total < mx:
		return "below"
	case total == mx:
		return "at"
	case total <= mx+bgp.BGP_HEADER_LENGTH:
		return "above_within_header"
	}
	return "above"
}

// c08GateRefuses: does recvMessageWithError refuse a message of this type and total length as too large
func c08GateRefuses(h *fsmHandler, typ uint8, total int) bool {
	buf := make([]byte, total)
	for i := 0; i < 16; i++ {
		buf[i] = 0xff
	}
	binary.BigEndian.PutUint16(buf[16:18], uint16(total))
	buf[18] = typ
	h.fsm.conn = &c08Conn{rd: &c08Bytes{b: buf}}
	fmsg, err := h.recvMessageWithError(h.fsm.conn, make(chan fsmStateReason, 4))
	if err == nil || fmsg == nil {
		return false
	}
	me, ok := fmsg.MsgData.(*bgp.MessageError)
	return ok && me.TypeCode == bgp.BGP_ERROR_MESSAGE_HEADER_ERROR && me.SubTypeCode == bgp.BGP_ERROR_SUB_BAD_MESSAGE_LENGTH &&
		strings.Contains(me.Message, "too large")
}

// ---------------------------------------------------------------- the negotiated values where they are USED

// c08Wire is a hand-written wire encoding of one route of a family (no gobgp code involved): the
// NLRI octets WITHOUT path identifier, the next hop octets of MP_REACH_NLRI, and the same route as
// a gobgp object for the send path.
type c08Wire struct {
	fam  bgp.Family
	nlri []byte
	nh   []byte
	obj  bgp.NLRI
	nhIP netip.Addr
}

func c08WireFor(fam bgp.Family) *c08Wire {
	v4 := []byte{10, 99, 7}                   // 10.99.7.0/24
	v6 := []byte{0x20, 0x01, 0x0d, 0xb8, 0, 7} // 2001:db8:7::/48
	p4, p6 := netip.MustParsePrefix("10.99.7.0/24"), netip.MustParsePrefix("2001:db8:7::/48")
	nh4, nh6 := netip.MustParseAddr("10.9.9.1"), netip.MustParseAddr("2001:db8::1")
	label := []byte{0x00, 0x06, 0x41}              // label 100, bottom of stack
	rd := []byte{0, 0, 0, 100, 0, 0, 0, 1}         // type 0, 100:1
	rdObj := bgp.NewRouteDistinguisherTwoOctetAS(100, 1)
	cat := func(parts ...[]byte) []byte { return bytes.Join(parts, nil) }
	w := &c08Wire{fam: fam}
	switch fam {
	case bgp.RF_IPv4_UC, bgp.RF_IPv4_MC:
		w.nlri, w.nh, w.nhIP = cat([]byte{24}, v4), nh4.AsSlice(), nh4
		w.obj, _ = bgp.NewIPAddrPrefix(p4)
	case bgp.RF_IPv6_UC:
		w.nlri, w.nh, w.nhIP = cat([]byte{48}, v6), nh6.AsSlice(), nh6
		w.obj, _ = bgp.NewIPAddrPrefix(p6)
	case bgp.RF_IPv4_MPLS:
		w.nlri, w.nh, w.nhIP = cat([]byte{24 + 24}, label, v4), nh4.AsSlice(), nh4
		w.obj, _ = bgp.NewLabeledIPAddrPrefix(p4, *bgp.NewMPLSLabelStack(100))
	case bgp.RF_IPv4_VPN:
		w.nlri, w.nh, w.nhIP = cat([]byte{24 + 64 + 24}, label, rd, v4), cat(make([]byte, 8), nh4.AsSlice()), nh4
		w.obj, _ = bgp.NewLabeledVPNIPAddrPrefix(p4, *bgp.NewMPLSLabelStack(100), rdObj)
	case bgp.RF_IPv6_VPN:
		w.nlri, w.nh, w.nhIP = cat([]byte{24 + 64 + 48}, label, rd, v6), cat(make([]byte, 8), nh6.AsSlice()), nh6
		w.obj, _ = bgp.NewLabeledVPNIPAddrPrefix(p6, *bgp.NewMPLSLabelStack(100), rdObj)
	case bgp.RF_EVPN: // route type 3 (inclusive multicast ethernet tag)
		w.nlri, w.nh, w.nhIP = cat([]byte{3, 17}, rd, []byte{0, 0, 0, 0, 32}, nh4.AsSlice()), nh4.AsSlice(), nh4
		w.obj, _ = bgp.NewEVPNMulticastEthernetTagRoute(rdObj, 0, nh4)
	default:
		return nil
	}
	return w
}

func c08Attr(flags, typ uint8, val []byte) []byte {
	if len(val) > 255 {
		return append([]byte{flags | 0x10, typ, byte(len(val) >> 8), byte(len(val))}, val...)
	}
	return append([]byte{flags, typ, byte(len(val))}, val...)
}

// c08PeerUpdate: the octets a peer puts on the wire for announcing (or withdrawing) the route, with
// or without a path identifier, AS numbers `asWidth` octets wide.
func (w *c08Wire) peerUpdate(withdraw, withID bool, pathID uint32, as uint32, asWidth int) []byte {
	n := w.nlri
	if withID {
		n = append(binary.BigEndian.AppendUint32(nil, pathID), n...)
	}
	withdrawn, attrs, nlri := []byte{}, []byte{}, []byte{}
	afi := binary.BigEndian.AppendUint16(nil, w.fam.Afi())
	if withdraw {
		if w.fam == bgp.RF_IPv4_UC {
			withdrawn = n
		} else {
			attrs = c08Attr(0x80, 15, bytes.Join([][]byte{afi, {w.fam.Safi()}, n}, nil))
		}
	} else {
		seg := []byte{2, 1}
		if asWidth == 4 {
			seg = binary.BigEndian.AppendUint32(seg, as)
		} else {
			seg = binary.BigEndian.AppendUint16(seg, uint16(as))
		}
		attrs = append(attrs, c08Attr(0x40, 1, []byte{0})...)
		attrs = append(attrs, c08Attr(0x40, 2, seg)...)
		if w.fam == bgp.RF_IPv4_UC {
			attrs = append(attrs, c08Attr(0x40, 3, w.nh)...)
			nlri = n
		} else {
			attrs = append(attrs, c08Attr(0x80, 14, bytes.Join([][]byte{afi, {w.fam.Safi(), byte(len(w.nh))}, w.nh, {0}, n}, nil))...)
		}
	}
	body := binary.BigEndian.AppendUint16(nil, uint16(len(withdrawn)))
	body = append(body, withdrawn...)
	body = binary.BigEndian.AppendUint16(body, uint16(len(attrs)))
	body = append(body, attrs...)
	body = append(body, nlri...)
	msg := bytes.Repeat([]byte{0xff}, 16)
	msg = binary.BigEndian.AppendUint16(msg, uint16(19+len(body)))
	msg = append(msg, bgp.BGP_MSG_UPDATE)
	return append(msg, body...)
}

// c08Received: what the real receive path (recvMessageWithError with the fsm's options) makes of the
// octets: the routes announced / withdrawn as (path id, NLRI octets) and the AS numbers of AS_PATH.
func c08Received(h *fsmHandler, raw []byte) (routes []string, ases []uint32, ok bool) {
	h.fsm.conn = &c08Conn{rd: &c08Bytes{b: raw}}
	fmsg, err := h.recvMessageWithError(h.fsm.conn, make(chan fsmStateReason, 4))
	if err != nil || fmsg == nil || fmsg.handling != bgp.ERROR_HANDLING_NONE {
		return nil, nil, false
	}
	m, isMsg := fmsg.MsgData.(*bgp.BGPMessage)
	if !isMsg || m.Header.Type != bgp.BGP_MSG_UPDATE {
		return nil, nil, false
	}
	up := m.Body.(*bgp.BGPUpdate)
	add := func(kind string, l []bgp.PathNLRI) {
		for _, p := range l {
			b, _ := p.NLRI.Serialize()
			routes = append(routes, fmt.Sprintf("%s %d %x", kind, p.ID, b))
		}
	}
	add("w", up.WithdrawnRoutes)
	add("a", up.NLRI)
	for _, a := range up.PathAttributes {
		switch p := a.(type) {
		case *bgp.PathAttributeMpReachNLRI:
			add("a", p.Value)
		case *bgp.PathAttributeMpUnreachNLRI:
			add("w", p.Value)
		case *bgp.PathAttributeAsPath:
			for _, seg := range p.Value {
				ases = append(ases, seg.GetAS()...)
			}
		}
	}
	return routes, ases, true
}

// c08SentNLRI: run the real sendMessageloop with one path and cut the NLRI octets (and the AS_PATH /
// AS4_PATH attribute values) out of the UPDATE it writes, by walking the wire format by hand.
func c08SentNLRI(h *fsmHandler, p *table.Path, fam bgp.Family, withdraw bool) (nlri []byte, asPath []byte, as4Path bool, ok bool) {
	rec := &c08RecConn{}
	ctx, cancel := context.WithCancel(context.Background())
	wg := &sync.WaitGroup{}
	wg.Add(1)
	go h.sendMessageloop(ctx, rec, make(chan fsmStateReason, 3), wg)
	h.outgoing.In() <- &fsmOutgoingMsg{Paths: []*table.Path{p}}
	synctest.Wait()
	cancel()
	wg.Wait()
	for _, w := range rec.writes {
		if len(w) < 23 || w[18] != bgp.BGP_MSG_UPDATE {
			continue
		}
		body := w[19:]
		wl := int(binary.BigEndian.Uint16(body[0:2]))
		if 2+wl+2 > len(body) {
			return nil, nil, false, false
		}
		withdrawn := body[2 : 2+wl]
		al := int(binary.BigEndian.Uint16(body[2+wl : 4+wl]))
		if 4+wl+al > len(body) {
			return nil, nil, false, false
		}
		attrs, tail := body[4+wl:4+wl+al], body[4+wl+al:]
		if fam == bgp.RF_IPv4_UC {
			nlri = tail
			if withdraw {
				nlri = withdrawn
			}
		}
		for len(attrs) >= 3 {
			flags, typ := attrs[0], attrs[1]
			hl, vl := 3, int(attrs[2])
			if flags&0x10 != 0 {
				if len(attrs) < 4 {
					return nil, nil, false, false
				}
				hl, vl = 4, int(binary.BigEndian.Uint16(attrs[2:4]))
			}
			if hl+vl > len(attrs) {
				return nil, nil, false, false
			}
			val := attrs[hl : hl+vl]
			switch typ {
			case 2:
				asPath = val
			case 17:
				as4Path = true
			case 14:
				if !withdraw && len(val) >= 5 && 4+int(val[3])+1 <= len(val) {
					nlri = val[4+int(val[3])+1:]
				}
			case 15:
				if withdraw && len(val) >= 3 {
					nlri = val[3:]
				}
			}
			attrs = attrs[hl+vl:]
		}
		return nlri, asPath, as4Path, true
	}
	return nil, nil, false, false
}

// c08Consumption: the negotiated values judged where they are USED.  For every family active on the
// session (whatever ADD-PATH mode came out: none / receive / send / both) an announcement and a
// withdrawal, hand-encoded with and without path identifiers and with 2- or 4-octet AS numbers, go
// through the real receive path, and a route of the family goes through the real send path.
// Judged without the model: exactly the encoding the PROPERTY prescribes (path identifiers iff the
// complementary direction was announced by the peer and configured here; 4-octet AS numbers iff the
// peer announced the capability) decodes to the route that was sent, and is what is emitted.
func c08Consumption(o *vOut, c *c08Cfg, rm *c08Remote, f *fsm, h *fsmHandler, opens []string) {
	bad := func(class, what string) { o.fail(class, c08Detail(c, opens, what)) }
	local := map[bgp.Family]c08Af{}
	for _, a := range c.afs {
		local[a.fam] = a
	}
	dupLocal := len(local) != len(c.afs)
	fams := []bgp.Family{}
	for fam := range c08FamilyMap(f) {
		fams = append(fams, fam)
	}
	slices.Sort(fams)
	asWidth, as := 2, uint32(65010)
	if rm.as4 {
		asWidth, as = 4, 70000
	}
	tri := func(yes, no bool) string {
		switch {
		case yes && !no:
			return "1"
		case no && !yes:
			return "0"
		}
		return "x"
	}
	for _, fam := range fams {
		w := c08WireFor(fam)
		if w == nil {
			o.stat("consumption_family_not_hand_encoded", 1)
			continue
		}
		if b, _ := w.obj.Serialize(); !bytes.Equal(b, w.nlri) {
			o.t.Fatalf("hand encoding of family %v differs from the object's: %x vs %x", fam, w.nlri, b)
		}
		// receive: which of the two encodings decodes to the route that was sent
		good := func(withdraw, withID bool) bool {
			routes, ases, ok := c08Received(h, w.peerUpdate(withdraw, withID, 77, as, asWidth))
			id, kind := 0, "a"
			if withID {
				id = 77
			}
			if withdraw {
				kind = "w"
			}
			if !ok || len(routes) != 1 || routes[0] != fmt.Sprintf("%s %d %x", kind, id, w.nlri) {
				return false
			}
			return withdraw || (len(ases) == 1 && ases[0] == as)
		}
		recvA, recvW := tri(good(false, true), good(false, false)), tri(good(true, true), good(true, false))
		recv := recvA
		if recvA != recvW {
			recv = "x"
		}
		// send: what the real sendMessageloop writes for a route / a withdrawal of the family
		attrs := []bgp.PathAttributeInterface{bgp.NewPathAttributeOrigin(0),
			bgp.NewPathAttributeAsPath([]bgp.AsPathParamInterface{bgp.NewAs4PathParam(2, []uint32{70000})})}
		if fam == bgp.RF_IPv4_UC {
			nh, _ := bgp.NewPathAttributeNextHop(w.nhIP)
			attrs = append(attrs, nh)
		} else {
			mp, _ := bgp.NewPathAttributeMpReachNLRI(fam, []bgp.PathNLRI{{NLRI: w.obj}}, w.nhIP)
			attrs = append(attrs, mp)
		}
		sentID := func(withdraw bool) (string, []byte, bool) {
			p := table.NewPath(fam, nil, bgp.PathNLRI{NLRI: w.obj}, withdraw, attrs, time.Now(), false)
			n, asp, as4p, ok := c08SentNLRI(h, p, fam, withdraw)
			if !ok {
				return "x", nil, false
			}
			return tri(len(n) == 4+len(w.nlri) && bytes.Equal(n[4:], w.nlri), bytes.Equal(n, w.nlri)), asp, as4p
		}
		sendA, asp, as4p := sentID(false)
		sendW, _, _ := sentID(true)
		send := sendA
		if sendA != sendW {
			send = "x"
		}
		as4wire := tri(bytes.Equal(asp, []byte{2, 1, 0, 1, 0x11, 0x70}) && !as4p, bytes.Equal(asp, []byte{2, 1, 0x5b, 0xa0}) && as4p)
		o.ask(fmt.Sprintf("recv %s send %s as4 %s", recv, send, as4wire), "apuse %d", uint32(fam))
		o.stat(fmt.Sprintf("consumption_mode_%d", c08FamilyMap(f)[fam]), 1)
		o.stat(fmt.Sprintf("consumption_family_%d", uint32(fam)), 1)

		if as4wire != fmt.Sprint(c08B(rm.as4)) {
			bad("as4-not-consumed-on-send", fmt.Sprintf("family %d: AS_PATH on the wire %x AS4_PATH %v, peer announced 4-octet AS %v", uint32(fam), asp, as4p, rm.as4))
		}
		if dupLocal || rm.apConfl[fam] {
			continue
		}
		a := local[fam]
		wantRecv := a.recv && rm.apAny[fam]&2 != 0
		wantSend := a.sendMax > 0 && rm.apAny[fam]&1 != 0
		if recvA == "x" && recvW == fmt.Sprint(c08B(wantRecv)) {
			// the withdrawal (no AS_PATH) is read correctly, the announcement in neither form: the AS width
			bad("as4-not-consumed-on-receive", fmt.Sprintf("family %d: an announcement with %d-octet AS numbers (peer announced 4-octet AS: %v) does not decode to the route and AS sent", uint32(fam), asWidth, rm.as4))
		} else if recv != fmt.Sprint(c08B(wantRecv)) {
			bad("addpath-not-consumed-on-receive", fmt.Sprintf("family %d, negotiated mode %d: received NLRI decode correctly with path identifiers: announce %s withdraw %s (1 = only with, 0 = only without, x = neither/both); the session must expect them: %v",
				uint32(fam), c08FamilyMap(f)[fam], recvA, recvW, wantRecv))
		}
		if send != fmt.Sprint(c08B(wantSend)) {
			bad("addpath-not-consumed-on-send", fmt.Sprintf("family %d, negotiated mode %d: sent NLRI carry path identifiers: announce %s withdraw %s; the session must write them: %v",
				uint32(fam), c08FamilyMap(f)[fam], sendA, sendW, wantSend))
		}
	}
}

// c08ConsumptionMatrix: every hand-encoded family x every negotiated ADD-PATH mode, by construction
// (local mode x remote mode, 16 combinations each), with and without the 4-octet AS capability.
func c08ConsumptionMatrix(o *vOut, r *vRand) {
	fams := []bgp.Family{bgp.RF_IPv4_UC, bgp.RF_IPv6_UC, bgp.RF_IPv4_MC, bgp.RF_IPv4_MPLS, bgp.RF_IPv4_VPN, bgp.RF_IPv6_VPN, bgp.RF_EVPN}
	for _, fam := range fams {
		for lm := 0; lm < 4; lm++ {
			for rmode := 0; rmode < 4; rmode++ {
				c := &c08Cfg{localAs: 65001, peerAs: 65002, routerID: 0x0a000001, hold: 90, ka3: 90,
					afs: []c08Af{{fam: fam, recv: lm&1 != 0, sendMax: uint8(lm & 2)}}}
				caps := []bgp.ParameterCapabilityInterface{bgp.NewCapMultiProtocol(fam)}
				if rmode != 0 {
					caps = append(caps, bgp.NewCapAddPath([]*bgp.CapAddPathTuple{bgp.NewCapAddPathTuple(fam, bgp.BGPAddPathMode(rmode))}))
				}
				if (lm+rmode)%2 == 0 {
					caps = append(caps, bgp.NewCapFourOctetASNumber(65002))
				}
				c08Case(o, r, c, []*c08OpenSpec{{version: 4, myAS: 65002, hold: 90, id: 0x0a000002,
					params: []bgp.OptionParameterInterface{bgp.NewOptionParameterCapability(caps)}}})
			}
		}
	}
}
