//go:build verif

package server

// C15, sessions with SEVERAL address families and DIFFERENT per-family settings (oracle only —
// Model/SoftReset.lean is single-family). Target peers negotiate IPv4- and IPv6-unicast with
// ADD-PATH send on none, one or both of the families (send-max above the number of sources, so
// "min(send-max, eligible)" is "every eligible path"); three eBGP sources announce the same
// prefixes in both families, so every destination holds several Loc-RIB paths. Export policies
// are the real ones of the main harness (their prefix-sets are IPv4 sets: they never match an
// IPv6 route, so the two families are filtered differently). Re-advertisements that span all
// families (ResetPeer soft out / both — the API always passes family 0 — and the initial table
// transfer of a session coming up) and single-family ROUTE-REFRESH messages are interleaved
// with route changes and export policy changes. Oracle, per target, family and prefix, whenever
// the export policy has not changed since the family was last re-advertised to the target:
//   family without ADD-PATH send: the peer holds exactly the fresh export of the best path,
//       under path-id 0, and nothing else;
//   family with ADD-PATH send: exactly the fresh export of every eligible path, each under the
//       local path-id the Loc-RIB gave it.

import (
	"context"
	"fmt"
	"net"
	"net/netip"
	"sort"
	"strings"
	"testing"
	"time"

	"github.com/osrg/gobgp/v4/api"
	"github.com/osrg/gobgp/v4/internal/pkg/table"
	"github.com/osrg/gobgp/v4/pkg/packet/bgp"
)

var c15mfPrefixes = map[bgp.Family][]string{
	bgp.RF_IPv4_UC: {"10.1.0.0/24", "10.2.0.0/24"},
	bgp.RF_IPv6_UC: {"2001:db8:1::/48", "2001:db8:2::/48"},
}
var c15mfFamilies = []bgp.Family{bgp.RF_IPv4_UC, bgp.RF_IPv6_UC}

func c15Sleep() { time.Sleep(100 * time.Microsecond) }

type c15mfPeer struct {
	vp      *vwPeer
	sendMax map[bgp.Family]uint8
	source  bool
	synced  map[bgp.Family]bool
}

type c15mfWorld struct {
	cw    *c15World
	peers []*c15mfPeer
	hist  []string
}

func (m *c15mfWorld) note(f string, a ...any) { m.hist = append(m.hist, fmt.Sprintf(f, a...)) }

func (m *c15mfWorld) addPeer(sp vwPeerSpec, sendMax map[bgp.Family]uint8, source bool) *c15mfPeer {
	w := m.cw.w
	fam := func(afi api.Family_Afi, f bgp.Family) *api.AfiSafi {
		return &api.AfiSafi{
			Config:   &api.AfiSafiConfig{Family: &api.Family{Afi: afi, Safi: api.Family_SAFI_UNICAST}, Enabled: true},
			AddPaths: &api.AddPaths{Config: &api.AddPathsConfig{SendMax: uint32(sendMax[f])}},
		}
	}
	pr := &api.Peer{
		Conf:      &api.PeerConf{NeighborAddress: sp.addr.String(), PeerAsn: sp.as},
		Transport: &api.Transport{PassiveMode: true},
		AfiSafis:  []*api.AfiSafi{fam(api.Family_AFI_IP, bgp.RF_IPv4_UC), fam(api.Family_AFI_IP6, bgp.RF_IPv6_UC)},
	}
	if sp.kind == "rrc" {
		pr.RouteReflector = &api.RouteReflector{RouteReflectorClient: true, RouteReflectorClusterId: w.rid.String()}
	}
	if err := w.s.AddPeer(context.Background(), &api.AddPeerRequest{Peer: pr}); err != nil {
		w.t.Fatalf("AddPeer: %v", err)
	}
	vp := &vwPeer{spec: sp, view: map[string]vwHeld{}}
	if err := w.s.mgmtOperation(func() error { vp.p = w.s.neighborMap[sp.addr]; return nil }, true); err != nil || vp.p == nil {
		w.t.Fatalf("peer lookup: %v", err)
	}
	for i := 0; vp.p.fsm.state.Load() != bgp.BGP_FSM_ACTIVE; i++ {
		if i > 100000 {
			w.t.Fatalf("fsm goroutine did not reach ACTIVE")
		}
		c15Sleep()
	}
	c15Sleep()
	c15Sleep()
	w.peers = append(w.peers, vp)
	m.cw.views = append(m.cw.views, map[int]c15Held{})
	p := &c15mfPeer{vp: vp, sendMax: sendMax, source: source, synced: map[bgp.Family]bool{}}
	m.peers = append(m.peers, p)
	m.note("peer %d %s as=%d addr=%s sendmax4=%d sendmax6=%d", len(m.peers)-1, sp.kind, sp.as, sp.addr, sendMax[bgp.RF_IPv4_UC], sendMax[bgp.RF_IPv6_UC])
	return p
}

func (m *c15mfWorld) up(i int) {
	w := m.cw.w
	p := m.peers[i]
	vp := p.vp
	caps := []bgp.ParameterCapabilityInterface{
		bgp.NewCapMultiProtocol(bgp.RF_IPv4_UC), bgp.NewCapMultiProtocol(bgp.RF_IPv6_UC),
		bgp.NewCapRouteRefresh(), bgp.NewCapFourOctetASNumber(vp.spec.as),
	}
	var tuples []*bgp.CapAddPathTuple
	for _, f := range c15mfFamilies {
		if p.sendMax[f] > 0 {
			tuples = append(tuples, bgp.NewCapAddPathTuple(f, bgp.BGP_ADD_PATH_RECEIVE))
		}
	}
	if len(tuples) > 0 {
		caps = append(caps, bgp.NewCapAddPath(tuples))
	}
	open, err := bgp.NewBGPOpenMessage(uint16(vp.spec.as), 90, vp.spec.rid, []bgp.OptionParameterInterface{bgp.NewOptionParameterCapability(caps)})
	if err != nil {
		w.t.Fatal(err)
	}
	f := vp.p.fsm
	f.conn = &vwConn{local: &net.TCPAddr{IP: net.IP(w.rid.AsSlice()), Port: 179}, remote: &net.TCPAddr{IP: net.IP(vp.spec.addr.AsSlice()), Port: 30000}}
	f.recvOpen = open
	reason := newfsmStateReason(fsmOpenMsgNegotiated, nil, nil)
	f.stateChange(bgp.BGP_FSM_ESTABLISHED, reason)
	w.s.handleFSMMessage(vp.p, &fsmMsg{MsgType: fsmMsgStateChange, MsgData: bgp.BGP_FSM_ESTABLISHED, StateReason: reason, timestamp: w.now()})
	f.state.Store(bgp.BGP_FSM_ESTABLISHED)
	vp.up = true
	for _, fm := range c15mfFamilies {
		p.synced[fm] = true // the initial transfer spans every negotiated family
	}
	m.note("up %d", i)
}

func (m *c15mfWorld) down(i int) {
	m.cw.w.sessionDown(m.peers[i].vp, fsmReadFailed)
	m.note("down %d", i)
}

type c15mfRoute struct {
	fam    bgp.Family
	pfx    int
	marker int
	seq    []uint32
	med    *uint32
	comms  []uint32
}

func c15mfNlri(f bgp.Family, k int) bgp.NLRI {
	n, _ := bgp.NewIPAddrPrefix(netip.MustParsePrefix(c15mfPrefixes[f][k]))
	return n
}

func (m *c15mfWorld) announce(i int, rt *c15mfRoute) {
	vp := m.peers[i].vp
	attrs := []bgp.PathAttributeInterface{bgp.NewPathAttributeOrigin(0),
		bgp.NewPathAttributeAsPath([]bgp.AsPathParamInterface{bgp.NewAs4PathParam(2, append([]uint32{}, rt.seq...))})}
	if rt.med != nil {
		attrs = append(attrs, bgp.NewPathAttributeMultiExitDisc(*rt.med))
	}
	attrs = append(attrs, bgp.NewPathAttributeCommunities(append([]uint32{0xfffe0000 | uint32(rt.marker)}, rt.comms...)))
	nlri := []bgp.PathNLRI{{NLRI: c15mfNlri(rt.fam, rt.pfx)}}
	var msg *bgp.BGPMessage
	if rt.fam == bgp.RF_IPv4_UC {
		nh, _ := bgp.NewPathAttributeNextHop(vp.spec.addr)
		msg = bgp.NewBGPUpdateMessage(nil, append(attrs, nh), nlri)
	} else {
		a4 := vp.spec.addr.As4()
		nh := netip.AddrFrom16([16]byte{0x20, 0x01, 0x0d, 0xb8, 0xff, 0xff, 0, 0, 0, 0, 0, 0, 0, 0, 0, a4[3]})
		mp, err := bgp.NewPathAttributeMpReachNLRI(rt.fam, nlri, nh)
		if err != nil {
			m.cw.t.Fatal(err)
		}
		msg = bgp.NewBGPUpdateMessage(nil, append(attrs, mp), nil)
	}
	m.cw.w.recv(vp, msg)
	m.note("ann %d %s marker=%d aspath=%v med=%v comms=%v", i, c15mfPrefixes[rt.fam][rt.pfx], rt.marker, rt.seq, rt.med != nil, rt.comms)
}

func (m *c15mfWorld) withdraw(i int, f bgp.Family, k int) {
	vp := m.peers[i].vp
	nlri := []bgp.PathNLRI{{NLRI: c15mfNlri(f, k)}}
	var msg *bgp.BGPMessage
	if f == bgp.RF_IPv4_UC {
		msg = bgp.NewBGPUpdateMessage(nlri, nil, nil)
	} else {
		mp, err := bgp.NewPathAttributeMpUnreachNLRI(f, nlri)
		if err != nil {
			m.cw.t.Fatal(err)
		}
		msg = bgp.NewBGPUpdateMessage(nil, []bgp.PathAttributeInterface{mp}, nil)
	}
	m.cw.w.recv(vp, msg)
	m.note("wd %d %s", i, c15mfPrefixes[f][k])
}

func (m *c15mfWorld) flushAll() {
	for _, p := range m.peers {
		m.cw.w.flush(p.vp)
	}
}

// oracle: see the file comment. `after` names the operation for the class.
func (m *c15mfWorld) oracle(o *vOut, i int, after string) {
	p := m.peers[i]
	vp := p.vp
	if !vp.up {
		return
	}
	s := m.cw.w.s
	for _, f := range c15mfFamilies {
		if !p.synced[f] {
			continue
		}
		o.stat("mf_oracle_family_checks", 1)
		want := map[string]string{}
		if p.sendMax[f] > 0 {
			for _, path := range s.globalRib.GetPathList(table.GLOBAL_RIB_NAME, 0, []bgp.Family{f}) {
				if e := s.filterpath(vp.p, path, nil); e != nil && !e.IsWithdraw {
					want[fmt.Sprintf("%s#%d", path.GetNlri().String(), path.LocalID())] = vwDigest(e.GetPathAttrs())
				}
			}
		} else {
			for _, path := range s.globalRib.GetBestPathList(table.GLOBAL_RIB_NAME, 0, []bgp.Family{f}) {
				if e := s.filterpath(vp.p, path, nil); e != nil && !e.IsWithdraw {
					want[fmt.Sprintf("%s#0", path.GetNlri().String())] = vwDigest(e.GetPathAttrs())
				}
			}
		}
		have := map[string]string{}
		for k, h := range vp.view {
			pf := strings.SplitN(k, "#", 2)[0]
			for _, x := range c15mfPrefixes[f] {
				if x == pf {
					have[k] = h.digest
				}
			}
		}
		render := func(mm map[string]string) []string {
			var l []string
			for k, v := range mm {
				l = append(l, k+"="+v)
			}
			sort.Strings(l)
			return l
		}
		hs, ws := render(have), render(want)
		if sm := int(p.sendMax[f]); sm > 0 {
			// ADD-PATH send with send-max: WHICH eligible paths the peer holds depends on the
			// arrival order (first come, first served); per prefix it must hold
			// min(send-max, #eligible) of them, each under its local path-id with the attributes
			// the CURRENT export policy gives it, and nothing else
			for _, pf := range c15mfPrefixes[f] {
				nHave, nWant := 0, 0
				for k, dg := range have {
					if strings.SplitN(k, "#", 2)[0] != pf {
						continue
					}
					nHave++
					cls := ""
					switch w, ok := want[k]; {
					case !ok:
						cls = "holds-ineligible-path"
					case w != dg:
						cls = "holds-stale-attributes"
					}
					if cls != "" {
						o.fail(fmt.Sprintf("addpath-view!=fresh-export:%s:%s:sendmax=%s:%s", f.String(), cls, c15mfSM(sm), strings.Fields(after)[0]),
							map[string]any{"peer": i, "family": f.String(), "send_max": sm, "prefix": pf, "key": k, "holds": hs, "eligible_fresh_exports": ws, "after": after, "history": append([]string{}, m.hist...)})
					}
				}
				for k := range want {
					if strings.SplitN(k, "#", 2)[0] == pf {
						nWant++
					}
				}
				o.stat(fmt.Sprintf("mf_addpath_prefix_checks_sendmax_%s_eligible_%d", c15mfSM(sm), nWant), 1)
				if nWant > sm {
					nWant = sm
				}
				if nHave != nWant {
					cls := "fewer-than-min(send-max,eligible)"
					if nHave > nWant {
						cls = "more-than-send-max"
					}
					o.fail(fmt.Sprintf("addpath-view!=fresh-export:%s:%s:sendmax=%s:%s", f.String(), cls, c15mfSM(sm), strings.Fields(after)[0]),
						map[string]any{"peer": i, "family": f.String(), "send_max": sm, "prefix": pf, "holds": hs, "eligible_fresh_exports": ws, "after": after, "history": append([]string{}, m.hist...)})
				}
			}
			continue
		}
		if strings.Join(hs, " ") != strings.Join(ws, " ") {
			mode := "best-only"
			if p.sendMax[f] > 0 {
				mode = "add-path"
			}
			cls := fmt.Sprintf("family-view!=fresh-export:%s:%s:%s", f.String(), mode, strings.Fields(after)[0])
			o.fail(cls, map[string]any{"peer": i, "family": f.String(), "holds": hs, "fresh_export": ws, "after": after, "history": append([]string{}, m.hist...)})
		}
	}
}

// snapshot of what peer i holds and of its sentPaths
func (m *c15mfWorld) snap(i int) string {
	vp := m.peers[i].vp
	var l []string
	for k, h := range vp.view {
		l = append(l, k+"="+h.digest)
	}
	sort.Strings(l)
	var sent []string
	vp.p.sentPaths.Range(func(k, v any) bool {
		ids := []int{}
		for id := range v.(pathIDSet) {
			ids = append(ids, int(id))
		}
		sort.Ints(ids)
		if len(ids) > 0 {
			sent = append(sent, fmt.Sprintf("%s%v", k.(table.PathDestLocalKey).Prefix, ids))
		}
		return true
	})
	sort.Strings(sent)
	return strings.Join(l, " ") + " | sent: " + strings.Join(sent, " ")
}

// repeat: the same re-advertisement again changes neither the view nor sentPaths
func (m *c15mfWorld) repeat(o *vOut, i int, how string) {
	before := m.snap(i)
	m.cw.reset([]string{how, fmt.Sprint(i)})
	m.note("%s %d (repeat)", how, i)
	m.flushAll()
	if after := m.snap(i); after != before {
		o.fail("mf-repeat-changes-state:"+how, map[string]any{"peer": i, "before": before, "after": after, "history": append([]string{}, m.hist...)})
	}
	o.stat("mf_repeats", 1)
}

// c15mfEdgeCase: deterministic send-max = 1 histories. One IPv4 prefix, two sources; the target
// has ADD-PATH send with send-max 1 and holds the path that arrived FIRST, which is not the best
// one (the better path arrived later and is held back). `rejectHeld`: the export policy changes
// to reject the path the peer holds and accept the other one; otherwise it changes to add a
// community to everything. After the soft reset out (`how`) the peer must hold exactly one
// eligible path with the attributes of the current policy, and a second reset changes nothing.
func c15mfEdgeCase(t *testing.T, o *vOut, how string, rejectHeld bool) {
	cw := newC15World(t)
	defer cw.w.stop()
	m := &c15mfWorld{cw: cw}
	for i := 0; i < 2; i++ {
		m.addPeer(vwPeerSpec{kind: "ebgp", as: uint32(65001 + i), rid: c15IP(10, 0, 0, byte(1+i)), addr: c15IP(192, 168, 0, byte(1+i))},
			map[bgp.Family]uint8{}, true)
	}
	m.addPeer(vwPeerSpec{kind: "ibgp", as: 65000, rid: c15IP(10, 0, 0, 11), addr: c15IP(192, 168, 0, 11)},
		map[bgp.Family]uint8{bgp.RF_IPv4_UC: 1}, false)
	for i := 0; i < 3; i++ {
		m.up(i)
	}
	// first (longer AS_PATH, tagged 65533:1), then the better one (tagged 65533:2): held back
	m.announce(0, &c15mfRoute{fam: bgp.RF_IPv4_UC, pfx: 0, marker: 1, seq: []uint32{65001, 100, 200}, comms: []uint32{c15Tags[0]}})
	m.announce(1, &c15mfRoute{fam: bgp.RF_IPv4_UC, pfx: 0, marker: 2, seq: []uint32{65002}, comms: []uint32{c15Tags[1]}})
	m.flushAll()
	m.oracle(o, 2, "check")
	var pol c15Pol
	if rejectHeld {
		pol = c15Pol{dflt: true, stmts: []c15Stmt{{anyPeer: true, hasComm: true, comms: []uint32{c15Tags[0]}, route: 2}}}
	} else {
		v := uint32(0xfffc0001)
		pol = c15Pol{dflt: true, stmts: []c15Stmt{{anyPeer: true, add: &v}}}
	}
	cw.install(1, pol, 0)
	m.note("%s", pol.line("exp"))
	if how == "refresh" {
		cw.w.recv(m.peers[2].vp, bgp.NewBGPRouteRefreshMessage(bgp.AFI_IP, 0, bgp.SAFI_UNICAST))
	} else {
		cw.reset([]string{how, "2"})
	}
	m.note("%s 2", how)
	m.flushAll()
	m.oracle(o, 2, how)
	if how != "refresh" {
		m.repeat(o, 2, how)
	}
	if rejectHeld {
		// the path the reset has just advertised (it had been held back before) is withdrawn by
		// its source: the peer must not keep it
		m.withdraw(1, bgp.RF_IPv4_UC, 0)
		m.flushAll()
		m.oracle(o, 2, "withdraw-after-"+how)
	}
	o.stat("mf_edge_cases", 1)
}

func c15mfSM(sm int) string {
	if sm > 3 {
		return "many"
	}
	return fmt.Sprint(sm)
}

func c15mfHistory(t *testing.T, o *vOut, r *vRand, idx int) {
	cw := newC15World(t)
	cw.r = r
	defer cw.w.stop()
	m := &c15mfWorld{cw: cw}
	// three eBGP sources, no ADD-PATH
	for i := 0; i < 3; i++ {
		m.addPeer(vwPeerSpec{kind: "ebgp", as: uint32(65001 + i), rid: c15IP(10, 0, 0, byte(1+i)), addr: c15IP(192, 168, 0, byte(1+i))},
			map[bgp.Family]uint8{}, true)
	}
	// two or three targets with different per-family ADD-PATH send settings
	// send-max at the edges: 1 (the smallest value that enables ADD-PATH sending), 2, 3 (= the
	// number of sources, i.e. of paths a prefix can have), 8 (more than there are paths)
	sms := []uint8{1, 1, 2, 3, 8}
	sm := func() uint8 { return sms[r.intn(len(sms))] }
	nT := 2 + r.intn(2)
	for k := 0; k < nT; k++ {
		var sh [2]uint8
		switch x := r.intn(100); {
		case k == 0 || x < 35:
			// ADD-PATH send on exactly one family
			sh[r.intn(2)] = sm()
		case x < 80:
			sh = [2]uint8{sm(), sm()}
		}
		kind := r.pickStr("ebgp", "ibgp", "rrc")
		sp := vwPeerSpec{kind: kind, as: 65000, rid: c15IP(10, 0, 0, byte(11+k)), addr: c15IP(192, 168, 0, byte(11+k))}
		if kind == "ebgp" {
			sp.as = uint32(65011 + k)
		}
		m.addPeer(sp, map[bgp.Family]uint8{bgp.RF_IPv4_UC: sh[0], bgp.RF_IPv6_UC: sh[1]}, false)
		o.stat(fmt.Sprintf("mf_target_sendmax_%s_%s", c15mfSM(int(sh[0])), c15mfSM(int(sh[1]))), 1)
	}
	nP := len(m.peers)
	setExp := func(pol c15Pol) {
		cw.install(1, pol, 0)
		m.note("%s", pol.line("exp"))
		for _, p := range m.peers {
			p.synced = map[bgp.Family]bool{}
		}
	}
	if r.chance(70) {
		setExp(c15GenPol(r, 1, nP))
	}
	for i := 0; i < 3; i++ {
		m.up(i)
	}
	marker := 0
	gen := func(i int) *c15mfRoute {
		marker++
		rt := &c15mfRoute{fam: c15mfFamilies[r.intn(2)], pfx: r.intn(2), marker: marker, seq: []uint32{m.peers[i].vp.spec.as}}
		for n := r.intn(3); n > 0; n-- {
			rt.seq = append(rt.seq, uint32(r.pick(100, 200, 300)))
		}
		if r.chance(40) {
			v := uint32(r.pick(0, 10, 20))
			rt.med = &v
		}
		for _, tg := range c15Tags {
			if r.chance(40) {
				rt.comms = append(rt.comms, tg)
			}
		}
		return rt
	}
	// every source announces (almost) every prefix of both families: several paths per prefix
	for i := 0; i < 3; i++ {
		for _, f := range c15mfFamilies {
			for k := 0; k < 2; k++ {
				if r.chance(85) {
					rt := gen(i)
					rt.fam, rt.pfx = f, k
					m.announce(i, rt)
				}
			}
		}
	}
	for i := 3; i < nP; i++ {
		if r.chance(85) {
			m.up(i)
		}
	}
	check := func(after string) {
		m.flushAll()
		for i := 3; i < nP; i++ {
			m.oracle(o, i, after)
		}
	}
	check("check")
	for n := 10 + r.intn(16); n > 0; n-- {
		switch x := r.intn(100); {
		case x < 40:
			i := r.intn(3)
			m.announce(i, gen(i))
			o.stat("mf_ann", 1)
		case x < 52:
			m.withdraw(r.intn(3), c15mfFamilies[r.intn(2)], r.intn(2))
			o.stat("mf_wd", 1)
		case x < 64:
			setExp(c15Mutate(r, 1, nP, cw.cur[1]))
			o.stat("mf_policy_change", 1)
		case x < 82:
			// re-advertisement spanning all families (the API always passes family 0)
			i := 3 + r.intn(nP-3)
			if !m.peers[i].vp.up {
				continue
			}
			m.flushAll()
			how := r.pickStr("softout", "softout", "softboth")
			cw.reset([]string{how, fmt.Sprint(i)})
			m.note("%s %d", how, i)
			for _, f := range c15mfFamilies {
				m.peers[i].synced[f] = true
			}
			m.flushAll()
			m.oracle(o, i, how)
			o.stat("mf_reset_"+how, 1)
			if r.chance(50) {
				m.repeat(o, i, how)
			}
		case x < 94:
			// single-family ROUTE-REFRESH
			i := 3 + r.intn(nP-3)
			if !m.peers[i].vp.up {
				continue
			}
			m.flushAll()
			f := c15mfFamilies[r.intn(2)]
			afi := uint16(bgp.AFI_IP)
			if f == bgp.RF_IPv6_UC {
				afi = bgp.AFI_IP6
			}
			cw.w.recv(m.peers[i].vp, bgp.NewBGPRouteRefreshMessage(afi, 0, bgp.SAFI_UNICAST))
			m.note("refresh %d %s", i, f.String())
			m.peers[i].synced[f] = true
			m.flushAll()
			m.oracle(o, i, "refresh-"+f.String())
			o.stat("mf_refresh_"+f.String(), 1)
		default:
			i := 3 + r.intn(nP-3)
			if m.peers[i].vp.up {
				m.down(i)
			} else {
				m.up(i)
				m.flushAll()
				m.oracle(o, i, "initial-transfer")
				o.stat("mf_initial_transfer", 1)
			}
		}
		if r.chance(30) {
			check("check")
		}
	}
	// the complete re-advertisement
	m.flushAll()
	cw.reset([]string{"softoutall"})
	m.note("softoutall")
	for _, p := range m.peers {
		for _, f := range c15mfFamilies {
			p.synced[f] = true
		}
	}
	check("softoutall")
	o.stat("mf_histories", 1)
	if idx < 1 {
		o.sample(strings.Join(m.hist, " ; "))
	}
}

func TestVerifC15MF(t *testing.T) {
	o := vOpen(t)
	defer o.close()
	defer func(v bool) { table.SelectionOptions.AlwaysCompareMed = v }(table.SelectionOptions.AlwaysCompareMed)
	for _, how := range []string{"softout", "refresh"} {
		for _, rej := range []bool{true, false} {
			c15mfEdgeCase(t, o, how, rej)
		}
	}
	r := &vRand{s: o.seed*49979687 + 19}
	n := 50
	if o.thorough {
		n = 900
	}
	for i := 0; i < n; i++ {
		c15mfHistory(t, o, r, i)
	}
}
