//go:build verif

package server

// C09 correspondence harness, part 2 (package server): drives the real filterpath,
// (*BgpServer).filterpath (prePolicyFilterpath + UpdatePathAttrs + postFilterpath, no export policy
// assigned) and the inbound loop checks of (*peer).handleUpdate / hasOwnASLoop over generated
// worlds (global config x neighbors x routes), compares every answer with the Lean model
// (Model/Export.lean: filter, exportPath, inboundReject, hasOwnASLoop) and restates the
// loop-prevention clauses of the property on the implementation alone.

import (
	"encoding/hex"
	"fmt"
	"io"
	"log/slog"
	"math/big"
	"net/netip"
	"slices"
	"strings"
	"testing"
	"time"

	"github.com/osrg/gobgp/v4/internal/pkg/table"
	"github.com/osrg/gobgp/v4/pkg/config/oc"
	"github.com/osrg/gobgp/v4/pkg/packet/bgp"
)

// ---------- encoding (same vocabulary as the package-table harness) ----------

func c09Addr(a netip.Addr) (int, string) {
	if !a.IsValid() {
		return 0, "0"
	}
	if a.Is4() {
		b := a.As4()
		return 4, new(big.Int).SetBytes(b[:]).String()
	}
	b := a.As16()
	return 6, new(big.Int).SetBytes(b[:]).String()
}
func c09AddrDef(a netip.Addr) string { k, v := c09Addr(a); return fmt.Sprintf("%d %s", k, v) }
func c09AddrR(a netip.Addr) string   { k, v := c09Addr(a); return fmt.Sprintf("%d:%s", k, v) }
func c09V4(a netip.Addr) string      { _, v := c09Addr(a); return v }
func c09Hex(b []byte) string {
	if len(b) == 0 {
		return "-"
	}
	return hex.EncodeToString(b)
}
func c09NlriTok(l []bgp.PathNLRI) string {
	var sb strings.Builder
	for _, n := range l {
		fmt.Fprintf(&sb, "%s#%d;", n.NLRI.String(), n.ID)
	}
	return c09Hex([]byte(sb.String()))
}
func c09U32s(l []uint32) string {
	s := make([]string, len(l))
	for i, v := range l {
		s[i] = fmt.Sprint(v)
	}
	return strings.Join(s, ",")
}
func c09U32Def(l []uint32) string {
	var sb strings.Builder
	fmt.Fprintf(&sb, "%d", len(l))
	for _, v := range l {
		fmt.Fprintf(&sb, " %d", v)
	}
	return sb.String()
}
func c09B(x bool) int {
	if x {
		return 1
	}
	return 0
}

func c09AttrDef(a bgp.PathAttributeInterface) string {
	h := fmt.Sprintf("%d %d ", uint8(a.GetType()), uint8(a.GetFlags()))
	switch v := a.(type) {
	case *bgp.PathAttributeAsPath:
		var sb strings.Builder
		fmt.Fprintf(&sb, "P %d", len(v.Value))
		for _, p := range v.Value {
			fmt.Fprintf(&sb, " %d %s", p.GetType(), c09U32Def(p.GetAS()))
		}
		return h + sb.String()
	case *bgp.PathAttributeNextHop:
		return h + "N " + c09AddrDef(v.Value)
	case *bgp.PathAttributeMpReachNLRI:
		return h + fmt.Sprintf("M %d %s %s %s", uint32(bgp.NewFamily(v.AFI, v.SAFI)), c09AddrDef(v.Nexthop), c09AddrDef(v.LinkLocalNexthop), c09NlriTok(v.Value))
	case *bgp.PathAttributeOrigin:
		return h + fmt.Sprintf("V %d", v.Value)
	case *bgp.PathAttributeMultiExitDisc:
		return h + fmt.Sprintf("V %d", v.Value)
	case *bgp.PathAttributeLocalPref:
		return h + fmt.Sprintf("V %d", v.Value)
	case *bgp.PathAttributeOriginatorId:
		return h + "O " + c09AddrDef(v.Value)
	case *bgp.PathAttributeClusterList:
		var sb strings.Builder
		fmt.Fprintf(&sb, "C %d", len(v.Value))
		for _, c := range v.Value {
			sb.WriteString(" " + c09V4(c))
		}
		return h + sb.String()
	case *bgp.PathAttributeCommunities:
		return h + "K " + c09U32Def(v.Value)
	case *bgp.PathAttributeUnknown:
		return h + "R " + c09Hex(v.Value)
	}
	b, _ := a.Serialize()
	return h + "R " + c09Hex(b)
}

func c09AttrR(a bgp.PathAttributeInterface) string {
	h := fmt.Sprintf("%d=", uint8(a.GetType()))
	switch v := a.(type) {
	case *bgp.PathAttributeAsPath:
		segs := make([]string, len(v.Value))
		for i, p := range v.Value {
			segs[i] = fmt.Sprintf("%d:%s", p.GetType(), c09U32s(p.GetAS()))
		}
		return h + "P" + strings.Join(segs, "/")
	case *bgp.PathAttributeNextHop:
		return h + "N" + c09AddrR(v.Value)
	case *bgp.PathAttributeMpReachNLRI:
		return h + fmt.Sprintf("M%d:%s:%s:%s", uint32(bgp.NewFamily(v.AFI, v.SAFI)), c09AddrR(v.Nexthop), c09AddrR(v.LinkLocalNexthop), c09NlriTok(v.Value))
	case *bgp.PathAttributeOrigin:
		return h + fmt.Sprintf("V%d", v.Value)
	case *bgp.PathAttributeMultiExitDisc:
		return h + fmt.Sprintf("V%d", v.Value)
	case *bgp.PathAttributeLocalPref:
		return h + fmt.Sprintf("V%d", v.Value)
	case *bgp.PathAttributeOriginatorId:
		return h + "O" + c09AddrR(v.Value)
	case *bgp.PathAttributeClusterList:
		s := make([]string, len(v.Value))
		for i, c := range v.Value {
			s[i] = c09V4(c)
		}
		return h + "C" + strings.Join(s, ",")
	case *bgp.PathAttributeCommunities:
		return h + "K" + c09U32s(v.Value)
	case *bgp.PathAttributeUnknown:
		return h + fmt.Sprintf("R%d:%s", uint8(a.GetFlags()), c09Hex(v.Value))
	}
	b, _ := a.Serialize()
	return h + fmt.Sprintf("R%d:%s", uint8(a.GetFlags()), c09Hex(b))
}

func c09AttrsR(l []bgp.PathAttributeInterface) string {
	s := make([]string, len(l))
	for i, a := range l {
		s[i] = c09AttrR(a)
	}
	return strings.Join(s, ";")
}

// a generated stored route: the root attributes are known to the harness, so the definition line
// needs no access to table.Path internals
type c09Route struct {
	id    int
	path  *table.Path
	attrs []bgp.PathAttributeInterface
	src   *c09Peer // nil = locally originated
	nlri  bgp.NLRI
}

func (rt *c09Route) def() string {
	var sb strings.Builder
	s := rt.path.GetSource()
	fmt.Fprintf(&sb, "%d %s %s %s %d %d %d %s 0", s.AS, c09AddrDef(s.ID), c09AddrDef(s.LocalID), c09AddrDef(s.Address),
		c09B(s.RouteReflectorClient), uint32(rt.path.GetFamily()), c09B(rt.path.IsWithdraw),
		c09NlriTok([]bgp.PathNLRI{{NLRI: rt.nlri, ID: 0}}))
	fmt.Fprintf(&sb, " %d", len(rt.attrs))
	for _, a := range rt.attrs {
		sb.WriteString(" " + c09AttrDef(a))
	}
	sb.WriteString(" 0")
	return sb.String()
}

// snapshot of everything observable of a stored path through the public API
func c09Snap(p *table.Path) string {
	if p == nil {
		return "nil"
	}
	return fmt.Sprintf("w%d nhinv%d %s | %s", c09B(p.IsWithdraw), c09B(p.IsNexthopInvalid), p.String(), c09AttrsR(p.GetPathAttrs()))
}

func c09Flat(p *table.Path) string {
	return fmt.Sprintf("w%d | %s", c09B(p.IsWithdraw), c09AttrsR(p.GetPathAttrs()))
}

type c09Peer struct {
	peer *peer
	conf *oc.Neighbor
	info *table.PeerInfo
	v6   bool // IPv6 unicast negotiated
	llgr map[bgp.Family]bool
}

func (p *c09Peer) def(family bgp.Family) string {
	c := p.conf
	pt := 2
	switch c.State.PeerType {
	case oc.PEER_TYPE_INTERNAL:
		pt = 0
	case oc.PEER_TYPE_EXTERNAL:
		pt = 1
	}
	rp := 0
	switch p.info.RemovePrivateAs {
	case oc.REMOVE_PRIVATE_AS_OPTION_ALL:
		rp = 1
	case oc.REMOVE_PRIVATE_AS_OPTION_REPLACE:
		rp = 2
	}
	fam := family == bgp.RF_IPv4_UC || (family == bgp.RF_IPv6_UC && p.v6)
	return fmt.Sprintf("peer %d %d %d %s %d %s %d %d %s %s %d %d %d %d", pt, p.info.AS, p.info.LocalAS, c09AddrDef(p.info.LocalAddress),
		c09B(p.info.RouteReflectorClient), c09V4(p.info.RouteReflectorClusterID), c09B(p.info.RouteServerClient), rp,
		c09AddrDef(c.State.RemoteRouterId), c09AddrDef(c.State.NeighborAddress),
		c09B(c.AsPathOptions.Config.AllowAsPathLoopLocal), c09B(c.AsPathOptions.State.ReplacePeerAs), c09B(fam),
		c09B(c.GracefulRestart.Config.LongLivedEnabled && p.llgr[family]))
}

func c09GlobalDef(g *oc.Global) string {
	return fmt.Sprintf("g %d %s %d %d %s", g.Config.As, c09AddrDef(g.Config.RouterId), c09B(g.Confederation.Config.Enabled),
		g.Confederation.Config.Identifier, c09U32Def(g.Confederation.Config.MemberAsList))
}

// ---------- generator ----------

type c09World struct {
	r      *vRand
	g      *oc.Global
	rib    *table.TableManager
	peers  []*c09Peer
	asPool []uint32
	cids   []netip.Addr // cluster ids in use on this router
	logger *slog.Logger
	nextID int
	nLearned, nLocalAs int
}

func c09IP(a, b, c, d int) netip.Addr {
	return netip.AddrFrom4([4]byte{byte(a), byte(b), byte(c), byte(d)})
}

func (w *c09World) as() uint32 { return w.asPool[w.r.intn(len(w.asPool))] }

func c09NewWorld(t *testing.T, r *vRand, logger *slog.Logger) *c09World {
	w := &c09World{r: r, logger: logger}
	w.g = &oc.Global{}
	w.g.Config.As = uint32(r.pick(65000, 65000, 100, 70000))
	w.g.Config.RouterId = c09IP(10, 255, 0, 1+r.intn(3))
	others := []uint32{200, 300, 64512, 65001, 65002, 4200000000, 23456, 80000}
	w.asPool = append([]uint32{w.g.Config.As}, others...)
	if r.chance(35) {
		w.g.Confederation.Config.Enabled = true
		w.g.Confederation.Config.Identifier = uint32(r.pick(500, 500, int(w.g.Config.As)))
		w.g.Confederation.Config.MemberAsList = []uint32{65001, 65002}
		w.asPool = append(w.asPool, w.g.Confederation.Config.Identifier)
	}
	w.rib = table.NewTableManager(logger, []bgp.Family{bgp.RF_IPv4_UC, bgp.RF_IPv6_UC})
	n := 4 + r.intn(4)
	for i := 0; i < n; i++ {
		w.peers = append(w.peers, w.newPeer(t, i))
	}
	return w
}

func (w *c09World) newPeer(t *testing.T, i int) *c09Peer {
	r := w.r
	n := &oc.Neighbor{}
	addr := c09IP(10, 0, 0, 10+i)
	n.Config.NeighborAddress = addr
	ibgp := r.chance(50)
	if ibgp {
		n.Config.PeerAs = w.g.Config.As
	} else {
		n.Config.PeerAs = w.asPool[1+r.intn(len(w.asPool)-1)]
		if w.g.Confederation.Config.Enabled && r.chance(40) {
			n.Config.PeerAs = w.g.Confederation.Config.MemberAsList[r.intn(2)]
		}
	}
	// per-neighbor local-as override (differs from the global AS; sometimes equal to the peer's AS,
	// which makes the session internal)
	if r.chance(20) {
		n.Config.LocalAs = uint32(r.pick(101, 65010, 65010, int(n.Config.PeerAs)))
	}
	// the two ways the code learns the peer's AS and the session type: configured, or - peer-as not
	// configured (unnumbered / interface / "accept the AS from the OPEN" neighbors) - learned when the
	// session is established (fsm.stateChange(ESTABLISHED): State.PeerAs from the OPEN, State.PeerType
	// from comparing it with the local AS).  Config.PeerAs stays 0 for those.
	remoteAS := n.Config.PeerAs
	learned := r.chance(25)
	if learned {
		n.Config.PeerAs = 0
	}
	policy := table.NewRoutingPolicy(w.logger)
	// no export policy; default accept for the global table and for this peer's own table
	if err := policy.Reset(&oc.RoutingPolicy{}, map[string]oc.ApplyPolicy{table.GLOBAL_RIB_NAME: {}, addr.String(): {}}); err != nil {
		t.Fatal(err)
	}
	build := func() error {
		n.State = oc.NeighborState{}
		n.RouteReflector.Config.RouteReflectorClient = (ibgp && r.chance(50)) || r.chance(4)
		if n.RouteReflector.Config.RouteReflectorClient && r.chance(50) {
			n.RouteReflector.Config.RouteReflectorClusterId = c09IP(10, 254, 0, 1+r.intn(2))
		}
		n.RouteServer.Config.RouteServerClient = r.chance(10)
		n.AsPathOptions.Config.AllowAsPathLoopLocal = r.chance(30)
		n.AsPathOptions.Config.AllowOwnAs = uint8(r.pick(0, 0, 0, 1, 2))
		n.GracefulRestart.Config.LongLivedEnabled = r.chance(35)
		n.AfiSafis = []oc.AfiSafi{{Config: oc.AfiSafiConfig{AfiSafiName: oc.AFI_SAFI_TYPE_IPV4_UNICAST, Enabled: true}},
			{Config: oc.AfiSafiConfig{AfiSafiName: oc.AFI_SAFI_TYPE_IPV6_UNICAST, Enabled: true}}}
		return oc.SetDefaultNeighborConfigValues(n, nil, w.g)
	}
	if err := build(); err != nil {
		t.Fatal(err)
	}
	if n.State.PeerType == oc.PEER_TYPE_EXTERNAL {
		// only legal on eBGP sessions (SetDefaultNeighborConfigValues refuses them otherwise)
		n.AsPathOptions.Config.ReplacePeerAs = r.chance(25)
		switch r.intn(4) {
		case 0:
			n.Config.RemovePrivateAs = oc.REMOVE_PRIVATE_AS_OPTION_ALL
		case 1:
			n.Config.RemovePrivateAs = oc.REMOVE_PRIVATE_AS_OPTION_REPLACE
		}
		n.State.LocalAs = 0
		if err := oc.SetDefaultNeighborConfigValues(n, nil, w.g); err != nil {
			t.Fatal(err)
		}
	}
	if learned {
		n.State.PeerAs = remoteAS
		n.State.PeerType = oc.PEER_TYPE_EXTERNAL
		if n.Config.LocalAs == remoteAS {
			n.State.PeerType = oc.PEER_TYPE_INTERNAL
		}
	}
	// router id of the remote speaker: mostly its own, sometimes shared with the previous peer
	// (parallel sessions to one router), rarely not yet known
	switch {
	case r.chance(5):
	case i > 0 && r.chance(15):
		n.State.RemoteRouterId = w.peers[i-1].conf.State.RemoteRouterId
	default:
		n.State.RemoteRouterId = c09IP(10, 1, 0, 10+i)
	}
	cp := &c09Peer{conf: n, llgr: map[bgp.Family]bool{}}
	for j := range n.AfiSafis {
		en := r.chance(60)
		n.AfiSafis[j].LongLivedGracefulRestart.State.Enabled = en
		cp.llgr[n.AfiSafis[j].State.Family] = en
	}
	p := newPeer(w.g, n, bgp.BGP_FSM_IDLE, w.rib, policy, w.logger)
	rfmap := map[bgp.Family]bgp.BGPAddPathMode{bgp.RF_IPv4_UC: bgp.BGP_ADD_PATH_NONE}
	cp.v6 = r.chance(70)
	if cp.v6 {
		rfmap[bgp.RF_IPv6_UC] = bgp.BGP_ADD_PATH_NONE
	}
	p.fsm.familyMap.Store(rfmap)
	local := c09IP(10, 0, 0, 1)
	if r.chance(20) {
		local = netip.MustParseAddr("2001:db8::1")
	}
	cp.info = table.NewPeerInfo(w.g, n, n.State.PeerAs, n.Config.LocalAs, n.State.RemoteRouterId, w.g.Config.RouterId, addr, local)
	p.peerInfo.Store(cp.info)
	cp.peer = p
	switch {
	case learned:
		w.nLearned++
	case n.Config.LocalAs != w.g.Config.As && !(w.g.Confederation.Config.Enabled && n.Config.LocalAs == w.g.Confederation.Config.Identifier):
		w.nLocalAs++
	}
	if n.RouteReflector.Config.RouteReflectorClient {
		w.cids = append(w.cids, n.RouteReflector.State.RouteReflectorClusterId)
	}
	return cp
}

func (w *c09World) asPath() *bgp.PathAttributeAsPath {
	r := w.r
	n := r.pick(0, 1, 1, 1, 2, 2, 3)
	params := make([]bgp.AsPathParamInterface, 0, n+2)
	for i := 0; i < n; i++ {
		typ := uint8(r.pick(2, 2, 2, 2, 2, 1, 3, 3, 4))
		m := r.pick(1, 1, 2, 2, 3, 4)
		as := make([]uint32, m, m+2)
		for j := range as {
			as[j] = w.as()
			if typ >= 3 && w.g.Confederation.Config.Enabled && r.chance(50) {
				as[j] = w.g.Confederation.Config.MemberAsList[r.intn(2)]
			}
			if r.chance(15) && len(w.peers) > 0 {
				as[j] = w.peers[r.intn(len(w.peers))].conf.State.PeerAs
			}
		}
		params = append(params, bgp.NewAs4PathParam(typ, as))
	}
	return bgp.NewPathAttributeAsPath(params)
}

func (w *c09World) route(forInbound bool) *c09Route {
	r := w.r
	w.nextID++
	rt := &c09Route{id: w.nextID}
	family := bgp.Family(bgp.RF_IPv4_UC)
	if !forInbound && r.chance(25) {
		family = bgp.RF_IPv6_UC
	}
	if family == bgp.RF_IPv4_UC {
		n, _ := bgp.NewIPAddrPrefix(netip.MustParsePrefix(fmt.Sprintf("10.%d.0.0/16", 100+r.intn(3))))
		rt.nlri = n
	} else {
		n, _ := bgp.NewIPAddrPrefix(netip.MustParsePrefix(fmt.Sprintf("2001:db8:%d::/48", r.intn(3))))
		rt.nlri = n
	}
	if forInbound || !r.chance(22) {
		rt.src = w.peers[r.intn(len(w.peers))]
	}
	attrs := make([]bgp.PathAttributeInterface, 0, 16)
	attrs = append(attrs, bgp.NewPathAttributeOrigin(uint8(r.intn(3))))
	if r.chance(92) {
		attrs = append(attrs, w.asPath())
	}
	if family == bgp.RF_IPv4_UC {
		nh := c09IP(10, 0, 1, 1+r.intn(5))
		if rt.src == nil && r.chance(40) {
			nh = c09IP(0, 0, 0, 0)
		}
		a, _ := bgp.NewPathAttributeNextHop(nh)
		attrs = append(attrs, a)
	}
	if r.chance(40) {
		attrs = append(attrs, bgp.NewPathAttributeMultiExitDisc(uint32(r.pick(0, 10, 4294967295))))
	}
	if r.chance(50) {
		attrs = append(attrs, bgp.NewPathAttributeLocalPref(uint32(r.pick(0, 100, 200))))
	}
	if r.chance(40) {
		n := 1 + r.intn(3)
		cs := make([]uint32, n, n+2)
		for i := range cs {
			cs[i] = uint32(r.pick(65000<<16|1, int(bgp.COMMUNITY_LLGR_STALE), int(bgp.COMMUNITY_NO_LLGR), 100<<16|7))
		}
		attrs = append(attrs, bgp.NewPathAttributeCommunities(cs))
	}
	if r.chance(30) {
		id := c09IP(10, 1, 0, 10+r.intn(6))
		if r.chance(35) {
			id = w.g.Config.RouterId
		}
		a, _ := bgp.NewPathAttributeOriginatorId(id)
		attrs = append(attrs, a)
	}
	if r.chance(35) {
		n := 1 + r.intn(3)
		cl := make([]netip.Addr, n)
		for i := range cl {
			switch {
			case r.chance(35) && len(w.cids) > 0:
				cl[i] = w.cids[r.intn(len(w.cids))]
			case r.chance(15):
				cl[i] = w.g.Config.RouterId
			default:
				cl[i] = c09IP(10, 253, 0, 1+r.intn(4))
			}
		}
		a, _ := bgp.NewPathAttributeClusterList(cl)
		attrs = append(attrs, a)
	}
	if family == bgp.RF_IPv6_UC {
		nh := netip.MustParseAddr(fmt.Sprintf("2001:db8:ffff::%d", 1+r.intn(5)))
		if rt.src == nil && r.chance(40) {
			nh = netip.IPv6Unspecified()
		}
		a, _ := bgp.NewPathAttributeMpReachNLRI(family, []bgp.PathNLRI{{NLRI: rt.nlri}}, nh)
		attrs = append(attrs, a)
	}
	for _, ty := range []uint8{16, 26, 99, 128, 200} {
		if r.chance(10) {
			val := []byte{byte(r.intn(256)), byte(r.intn(256))}
			attrs = append(attrs, bgp.NewPathAttributeUnknown(bgp.BGPAttrFlag(r.pick(0x80, 0xC0, 0xE0, 0x40)), bgp.BGPAttrType(ty), val))
		}
	}
	rt.attrs = attrs
	var src *table.PeerInfo
	if rt.src != nil {
		src = rt.src.info
	}
	withdraw := !forInbound && r.chance(8)
	rt.path = table.NewPath(family, src, bgp.PathNLRI{NLRI: rt.nlri}, withdraw, attrs, time.Unix(int64(1000+rt.id), 0), false)
	return rt
}

// ---------- model-independent restatement of the loop-prevention clauses ----------

func c09AllAS(a *bgp.PathAttributeAsPath, confed bool) []uint32 {
	out := []uint32{}
	if a == nil {
		return out
	}
	for _, p := range a.Value {
		isConfed := p.GetType() == bgp.BGP_ASPATH_ATTR_TYPE_CONFED_SEQ || p.GetType() == bgp.BGP_ASPATH_ATTR_TYPE_CONFED_SET
		if isConfed == confed {
			out = append(out, p.GetAS()...)
		}
	}
	return out
}

func c09FindAttr(l []bgp.PathAttributeInterface, t bgp.BGPAttrType) bgp.PathAttributeInterface {
	for _, a := range l {
		if a.GetType() == t {
			return a
		}
	}
	return nil
}

func c09ExportOracle(w *c09World, tp *c09Peer, rt *c09Route, old *c09Route, out *table.Path, o *vOut) []string {
	bad := []string{}
	announced := out != nil && !out.IsWithdraw
	if !announced {
		return bad
	}
	if out.GetTimestamp() != rt.path.GetTimestamp() {
		return []string{"export:announces-something-else-than-the-new-path"}
	}
	c := tp.conf
	src := rt.path.GetSource()
	local := rt.path.IsLocal()
	ext := c.State.PeerType == oc.PEER_TYPE_EXTERNAL
	ibgp := c.State.PeerType == oc.PEER_TYPE_INTERNAL
	rs := c.RouteServer.Config.RouteServerClient
	rr := c.RouteReflector.Config.RouteReflectorClient
	// (1) never back to the router it came from
	if !local && src.ID.IsValid() && src.ID == c.State.RemoteRouterId {
		bad = append(bad, "loop:advertised-back-to-source-router")
	}
	oa := out.GetPathAttrs()
	var outAs *bgp.PathAttributeAsPath
	if a := c09FindAttr(oa, bgp.BGP_ATTR_TYPE_AS_PATH); a != nil {
		outAs = a.(*bgp.PathAttributeAsPath)
	}
	// (2) never to a peer whose AS is in the AS_PATH (route-server clients see the path
	// untouched and judge for themselves; local routes are exempt under allow-as-path-loop-local)
	if !rs && !(local && c.AsPathOptions.Config.AllowAsPathLoopLocal) {
		if slices.Contains(c09AllAS(outAs, false), c.State.PeerAs) {
			bad = append(bad, "loop:peer-as-in-as-path")
		}
		if ext && slices.Contains(c09AllAS(outAs, true), c.State.PeerAs) {
			bad = append(bad, "loop:peer-as-in-confed-segment")
		}
		if !c.AsPathOptions.State.ReplacePeerAs && slices.Contains(c09AllAS(rt.path.GetAsPath(), false), c.State.PeerAs) {
			bad = append(bad, "loop:peer-as-in-stored-as-path")
		}
	}
	// (3) iBGP-learned routes go to iBGP peers only when one side is a client
	if ibgp && !rs && !local && src.AS == c.State.PeerAs && !src.RouteReflectorClient && !rr {
		bad = append(bad, "loop:non-client-to-non-client")
	}
	// (4) reflected routes that already passed through this cluster
	if ibgp && rr && !local {
		if a := rt.path.GetClusterList(); slices.Contains(a, c.RouteReflector.State.RouteReflectorClusterId) {
			bad = append(bad, "loop:cluster-id-reflected-to-client")
		}
	}
	// (5) attribute clauses visible only after postFilterpath
	lp := c09FindAttr(oa, bgp.BGP_ATTR_TYPE_LOCAL_PREF)
	switch {
	case rs:
		o.stat("announce_rs_client", 1)
		ia := rt.path.GetPathAttrs()
		if c.AsPathOptions.State.ReplacePeerAs {
			break
		}
		if len(ia) != len(oa) {
			bad = append(bad, "rs-client:route-changed")
			break
		}
		for i := range ia {
			if ia[i] != oa[i] {
				bad = append(bad, "rs-client:route-changed")
				break
			}
		}
	case ext:
		o.stat("announce_ebgp", 1)
		if lp != nil {
			bad = append(bad, "ebgp:local-pref-sent")
		}
		if outAs == nil || len(outAs.Value) == 0 || len(outAs.Value[0].GetAS()) == 0 || outAs.Value[0].GetAS()[0] != c.Config.LocalAs {
			bad = append(bad, "ebgp:local-as-not-first")
		}
		if c09FindAttr(oa, bgp.BGP_ATTR_TYPE_ORIGINATOR_ID) != nil || c09FindAttr(oa, bgp.BGP_ATTR_TYPE_CLUSTER_LIST) != nil {
			bad = append(bad, "ebgp:rr-attributes-sent")
		}
		if !local && c09FindAttr(oa, bgp.BGP_ATTR_TYPE_MULTI_EXIT_DISC) != nil {
			bad = append(bad, "ebgp:foreign-med-sent")
		}
		if nh := out.GetNexthop(); nh != tp.info.LocalAddress && (!local || rt.path.GetNexthop().IsUnspecified()) {
			bad = append(bad, "ebgp:next-hop-not-local-address")
		}
		for _, a := range oa {
			if _, known := bgp.PathAttrFlags[a.GetType()]; !known && a.GetFlags()&bgp.BGP_ATTR_FLAG_TRANSITIVE == 0 {
				bad = append(bad, "ebgp:unknown-non-transitive-sent")
				break
			}
		}
	case ibgp:
		o.stat("announce_ibgp", 1)
		if lp == nil {
			bad = append(bad, "ibgp:local-pref-missing")
		}
		// same content (replace-peer-as on a session that turned out internal rebuilds the attribute
		// with peer AS = local AS, i.e. unchanged)
		if in := rt.path.GetAsPath(); in != nil && (outAs == nil || c09AttrR(outAs) != c09AttrR(in)) {
			bad = append(bad, "ibgp:as-path-changed")
		}
		if !(local && rt.path.GetNexthop().IsUnspecified()) && out.GetNexthop() != rt.path.GetNexthop() {
			bad = append(bad, "ibgp:next-hop-changed")
		}
		cl := c09FindAttr(oa, bgp.BGP_ATTR_TYPE_CLUSTER_LIST)
		if rr {
			o.stat("announce_rr_client", 1)
			if cl == nil || len(cl.(*bgp.PathAttributeClusterList).Value) == 0 || cl.(*bgp.PathAttributeClusterList).Value[0] != c.RouteReflector.State.RouteReflectorClusterId {
				bad = append(bad, "rr-client:cluster-id-not-prepended")
			}
			if c09FindAttr(oa, bgp.BGP_ATTR_TYPE_ORIGINATOR_ID) == nil && (local || src.ID.Is4()) {
				bad = append(bad, "rr-client:originator-id-missing")
			}
		} else if cl != nil || c09FindAttr(oa, bgp.BGP_ATTR_TYPE_ORIGINATOR_ID) != nil {
			bad = append(bad, "ibgp:rr-attributes-to-non-client")
		}
	}
	return bad
}

// replace-peer-as restated as a metamorphosis (no model, no knowledge of where the code reads the
// peer's AS from): with replace-peer-as on, a stored route must be treated exactly like the same
// route with every occurrence of the peer's AS in its AS_PATH already replaced by the session's
// local AS.
func c09ReplacePeerAsOracle(s *BgpServer, tp *c09Peer, rt *c09Route, oldPath *table.Path, out *table.Path, o *vOut) string {
	c := tp.conf
	if !c.AsPathOptions.State.ReplacePeerAs || rt.path.IsWithdraw {
		return ""
	}
	asp := rt.path.GetAsPath()
	peerAS := c.State.PeerAs
	if asp == nil || !slices.Contains(append(c09AllAS(asp, false), c09AllAS(asp, true)...), peerAS) {
		return ""
	}
	o.stat("replace_peer_as_applies", 1)
	params := make([]bgp.AsPathParamInterface, 0, len(asp.Value))
	for _, p := range asp.Value {
		as := slices.Clone(p.GetAS())
		for i := range as {
			if as[i] == peerAS {
				as[i] = c.Config.LocalAs
			}
		}
		params = append(params, bgp.NewAs4PathParam(p.GetType(), as))
	}
	attrs2 := make([]bgp.PathAttributeInterface, 0, len(rt.attrs))
	for _, a := range rt.attrs {
		if a.GetType() == bgp.BGP_ATTR_TYPE_AS_PATH {
			attrs2 = append(attrs2, bgp.NewPathAttributeAsPath(params))
		} else {
			attrs2 = append(attrs2, a)
		}
	}
	p2 := table.NewPath(rt.path.GetFamily(), rt.path.GetSource(), bgp.PathNLRI{NLRI: rt.nlri}, false, attrs2, rt.path.GetTimestamp(), false)
	kind := func(x *table.Path) string {
		switch {
		case x == nil:
			return "nothing"
		case x.IsWithdraw:
			return "withdraw"
		}
		return "update " + c09AttrsR(x.GetPathAttrs())
	}
	out2 := s.filterpath(tp.peer, p2, oldPath)
	if kind(out) != kind(out2) {
		return "replace-peer-as:peer-as-not-replaced"
	}
	return ""
}

func c09Guard(f func() string) (s string) {
	defer func() {
		if e := recover(); e != nil {
			s = "panic"
		}
	}()
	return f()
}

// corpus: deterministic replays of the two recorded findings, run before the random stream
func c09ServerCorpus(t *testing.T, o *vOut, s *BgpServer, logger *slog.Logger) {
	mk := func(g *oc.Global, i int, peerAs uint32, rr bool) *c09Peer {
		n := &oc.Neighbor{}
		addr := c09IP(10, 0, 0, 10+i)
		n.Config.NeighborAddress = addr
		n.Config.PeerAs = peerAs
		n.RouteReflector.Config.RouteReflectorClient = rr
		n.AfiSafis = []oc.AfiSafi{{Config: oc.AfiSafiConfig{AfiSafiName: oc.AFI_SAFI_TYPE_IPV4_UNICAST, Enabled: true}}}
		if err := oc.SetDefaultNeighborConfigValues(n, nil, g); err != nil {
			t.Fatal(err)
		}
		n.State.RemoteRouterId = c09IP(10, 1, 0, 10+i)
		policy := table.NewRoutingPolicy(logger)
		if err := policy.Reset(&oc.RoutingPolicy{}, map[string]oc.ApplyPolicy{table.GLOBAL_RIB_NAME: {}}); err != nil {
			t.Fatal(err)
		}
		rib := table.NewTableManager(logger, []bgp.Family{bgp.RF_IPv4_UC})
		p := newPeer(g, n, bgp.BGP_FSM_IDLE, rib, policy, logger)
		p.fsm.familyMap.Store(map[bgp.Family]bgp.BGPAddPathMode{bgp.RF_IPv4_UC: bgp.BGP_ADD_PATH_NONE})
		cp := &c09Peer{conf: n, llgr: map[bgp.Family]bool{}, peer: p}
		cp.info = table.NewPeerInfo(g, n, n.State.PeerAs, n.Config.LocalAs, n.State.RemoteRouterId, g.Config.RouterId, addr, c09IP(10, 0, 0, 1))
		p.peerInfo.Store(cp.info)
		return cp
	}
	nl, _ := bgp.NewIPAddrPrefix(netip.MustParsePrefix("10.100.0.0/16"))
	nh, _ := bgp.NewPathAttributeNextHop(c09IP(10, 0, 1, 1))
	// (1) confederation: member AS 65002 is sent a route whose AS_CONFED_SEQUENCE already holds 65002
	{
		g := &oc.Global{}
		g.Config.As = 100
		g.Config.RouterId = c09IP(10, 255, 0, 1)
		g.Confederation.Config.Enabled = true
		g.Confederation.Config.Identifier = 500
		g.Confederation.Config.MemberAsList = []uint32{65001, 65002}
		src, dst := mk(g, 0, 65001, false), mk(g, 1, 65002, false)
		attrs := []bgp.PathAttributeInterface{bgp.NewPathAttributeOrigin(0),
			bgp.NewPathAttributeAsPath([]bgp.AsPathParamInterface{bgp.NewAs4PathParam(bgp.BGP_ASPATH_ATTR_TYPE_CONFED_SEQ, []uint32{65001, 65002})}), nh}
		rt := &c09Route{id: 1, attrs: attrs, src: src, nlri: nl}
		rt.path = table.NewPath(bgp.RF_IPv4_UC, src.info, bgp.PathNLRI{NLRI: nl}, false, attrs, time.Unix(900, 0), false)
		o.op("%s", c09GlobalDef(g))
		o.op("path %s", rt.def())
		o.op("old none")
		o.op("%s", dst.def(bgp.RF_IPv4_UC))
		out := s.filterpath(dst.peer, rt.path, nil)
		res := "nothing"
		if out != nil {
			res = "update " + c09Flat(out)
		}
		o.ask(res, "exportf")
		if out != nil && !out.IsWithdraw && slices.Contains(c09AllAS(out.GetAsPath(), true), uint32(65002)) {
			o.fail("loop:peer-as-in-confed-segment", map[string]any{"corpus": 1, "global": c09GlobalDef(g), "peer": dst.def(bgp.RF_IPv4_UC), "path": rt.def(), "out": res})
		}
	}
	// (2) route reflection: a route from a non-client iBGP peer carrying this router's cluster-id
	{
		g := &oc.Global{}
		g.Config.As = 65000
		g.Config.RouterId = c09IP(10, 255, 0, 1)
		client, other := mk(g, 0, 65000, true), mk(g, 1, 65000, false)
		cid := client.conf.RouteReflector.State.RouteReflectorClusterId // = router id
		cl, _ := bgp.NewPathAttributeClusterList([]netip.Addr{cid})
		og, _ := bgp.NewPathAttributeOriginatorId(c09IP(10, 1, 0, 77))
		attrs := []bgp.PathAttributeInterface{bgp.NewPathAttributeOrigin(0), bgp.NewPathAttributeAsPath(nil), nh,
			bgp.NewPathAttributeLocalPref(100), og, cl}
		rt := &c09Route{id: 2, attrs: attrs, src: other, nlri: nl}
		rt.path = table.NewPath(bgp.RF_IPv4_UC, other.info, bgp.PathNLRI{NLRI: nl}, false, attrs, time.Unix(901, 0), false)
		o.op("%s", c09GlobalDef(g))
		o.op("path %s", rt.def())
		msg := bgp.NewBGPUpdateMessage(nil, attrs, []bgp.PathNLRI{{NLRI: nl}})
		paths, _, _ := other.peer.handleUpdate(&fsmMsg{MsgType: fsmMsgBGPMessage, MsgData: msg, timestamp: time.Unix(5000, 0)})
		o.ask(fmt.Sprint(c09B(len(paths) == 0)), "inbound %d %d 1", other.conf.Config.LocalAs, other.conf.AsPathOptions.Config.AllowOwnAs)
		if len(paths) != 0 {
			o.fail("inbound:local-cluster-id-accepted", map[string]any{"corpus": 2, "global": c09GlobalDef(g), "peer": other.def(bgp.RF_IPv4_UC), "path": rt.def()})
		}
	}
}

func TestVerifC09Server(t *testing.T) {
	o := vOpen(t)
	defer o.close()
	r := &vRand{s: o.seed*104729 + 17}
	logger := slog.New(slog.NewTextHandler(io.Discard, nil))
	s := NewBgpServer()

	c09ServerCorpus(t, o, s, logger)

	nWorlds := 300
	if o.thorough {
		nWorlds = 2500
	}
	for wi := 0; wi < nWorlds; wi++ {
		w := c09NewWorld(t, r, logger)
		o.stat("peers_total", len(w.peers))
		o.stat("peers_as_learned_from_open", w.nLearned)
		o.stat("peers_local_as_override", w.nLocalAs)
		o.op("%s", c09GlobalDef(w.g))
		routes := make([]*c09Route, 0, 12)
		for i := 0; i < 10; i++ {
			routes = append(routes, w.route(false))
		}
		for ri, rt := range routes {
			def := rt.def()
			o.op("path %s", def)
			if wi == 0 && ri < 3 {
				o.sample("path " + def)
			}
			// the previous best: none, another stored route, or (rarely) the same source's older version
			var old *c09Route
			if r.chance(65) {
				old = routes[r.intn(len(routes))]
				if old == rt || old.path.IsWithdraw || old.path.GetFamily() != rt.path.GetFamily() {
					old = nil
				}
			}
			if old != nil {
				o.op("old %s", old.def())
				o.stat("old_present", 1)
			} else {
				o.op("old none")
				o.stat("old_none", 1)
			}
			var oldPath *table.Path
			if old != nil {
				oldPath = old.path
			}
			snapNew, snapOld := c09Snap(rt.path), c09Snap(oldPath)
			for _, tp := range w.peers {
				o.op("%s", tp.def(rt.path.GetFamily()))
				// filterpath
				fres := c09Guard(func() string {
					res := filterpath(tp.peer, rt.path, oldPath)
					switch {
					case res == nil:
						return "drop"
					case res == rt.path:
						return "path"
					case res.IsWithdraw && oldPath != nil && res.GetTimestamp() == oldPath.GetTimestamp():
						return "wdold"
					}
					return "other"
				})
				o.ask(fres, "filter")
				o.stat("filter_"+fres, 1)
				// the whole export pipeline
				var out *table.Path
				eres := c09Guard(func() string {
					out = s.filterpath(tp.peer, rt.path, oldPath)
					switch {
					case out == nil:
						return "nothing"
					case out.IsWithdraw && oldPath != nil && out.GetTimestamp() == oldPath.GetTimestamp() && !(fres == "path"):
						return "wdold"
					case out.IsWithdraw && !rt.path.IsWithdraw:
						return "wdself " + c09Flat(out)
					}
					return "update " + c09Flat(out)
				})
				o.ask(eres, "exportf")
				o.stat("export_"+strings.SplitN(eres, " ", 2)[0], 1)
				if eres == "panic" || fres == "panic" {
					o.fail("panic:filterpath", map[string]any{"global": c09GlobalDef(w.g), "peer": tp.def(rt.path.GetFamily()), "path": def})
					continue
				}
				for _, b := range c09ExportOracle(w, tp, rt, old, out, o) {
					o.fail(b, map[string]any{"global": c09GlobalDef(w.g), "peer": tp.def(rt.path.GetFamily()), "path": def, "old": snapOld, "out": eres})
				}
				if b := c09ReplacePeerAsOracle(s, tp, rt, oldPath, out, o); b != "" {
					o.fail(b, map[string]any{"global": c09GlobalDef(w.g), "peer": tp.def(rt.path.GetFamily()), "path": def, "old": snapOld, "out": eres,
						"config_peer_as": tp.conf.Config.PeerAs, "state_peer_as": tp.conf.State.PeerAs})
				}
				if tp.conf.Config.PeerAs == 0 {
					o.stat("export_to_peer_with_as_learned_from_open", 1)
				}
				if now := c09Snap(rt.path); now != snapNew {
					o.fail("stored-route-altered:export", map[string]any{"before": snapNew, "after": now, "peer": tp.def(rt.path.GetFamily())})
					snapNew = now
				}
				if now := c09Snap(oldPath); now != snapOld {
					o.fail("stored-route-altered:export-old", map[string]any{"before": snapOld, "after": now, "peer": tp.def(rt.path.GetFamily())})
					snapOld = now
				}
			}
		}

		// inbound loop checks through the real handleUpdate
		for i := 0; i < 12; i++ {
			rt := w.route(true)
			tp := rt.src
			c := tp.conf
			o.op("path %s", rt.def())
			var aspath *bgp.PathAttributeAsPath
			if a := c09FindAttr(rt.attrs, bgp.BGP_ATTR_TYPE_AS_PATH); a != nil {
				aspath = a.(*bgp.PathAttributeAsPath)
			}
			if aspath != nil {
				own, lim, cid, ce := w.as(), r.intn(3), w.as(), r.chance(50)
				o.ask(fmt.Sprint(c09B(hasOwnASLoop(own, lim, aspath, cid, ce))), "ownloop %d %d %d %d", own, lim, cid, c09B(ce))
			}
			msg := bgp.NewBGPUpdateMessage(nil, rt.attrs, []bgp.PathNLRI{{NLRI: rt.nlri}})
			accepted := -1
			res := c09Guard(func() string {
				paths, _, _ := tp.peer.handleUpdate(&fsmMsg{MsgType: fsmMsgBGPMessage, MsgData: msg, timestamp: time.Unix(5000, 0)})
				// a rejected route is handed on as a withdrawal of whatever it replaces (it stays
				// in the Adj-RIB-In only); "used" = handed on as an announcement
				accepted = 0
				for _, p := range paths {
					if !p.IsWithdraw {
						accepted++
					}
				}
				return fmt.Sprint(c09B(accepted == 0))
			})
			ibgp := c.State.PeerType == oc.PEER_TYPE_INTERNAL
			o.ask(res, "inbound %d %d %d", c.Config.LocalAs, c.AsPathOptions.Config.AllowOwnAs, c09B(ibgp))
			o.stat("inbound_reject_"+res, 1)
			// restatement: local AS (or the confederation identifier) more often than allow-own-as,
			// own router id as ORIGINATOR_ID, a local cluster id in CLUSTER_LIST => not used
			det := map[string]any{"global": c09GlobalDef(w.g), "peer": tp.def(bgp.RF_IPv4_UC), "path": rt.def()}
			cnt := 0
			for _, as := range append(c09AllAS(aspath, false), c09AllAS(aspath, true)...) {
				if as == c.Config.LocalAs || (w.g.Confederation.Config.Enabled && as == w.g.Confederation.Config.Identifier) {
					cnt++
				}
			}
			if cnt > int(c.AsPathOptions.Config.AllowOwnAs) && accepted != 0 {
				o.fail("inbound:own-as-loop-accepted", det)
			}
			if a := c09FindAttr(rt.attrs, bgp.BGP_ATTR_TYPE_ORIGINATOR_ID); ibgp && a != nil && a.(*bgp.PathAttributeOriginatorId).Value == w.g.Config.RouterId && accepted != 0 {
				o.fail("inbound:own-originator-id-accepted", det)
			}
			if a := c09FindAttr(rt.attrs, bgp.BGP_ATTR_TYPE_CLUSTER_LIST); ibgp && a != nil && accepted != 0 {
				for _, cid := range a.(*bgp.PathAttributeClusterList).Value {
					if slices.Contains(w.cids, cid) {
						o.stat("inbound_local_cluster_id_accepted", 1)
						o.fail("inbound:local-cluster-id-accepted", det)
						break
					}
				}
			}
		}
	}
}
