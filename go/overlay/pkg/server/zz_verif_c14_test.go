//go:build verif

package server

// C14 sender-level harness: the 2-octet down-conversion as the SENDER really applies it.
//
// One fsm per case is established by the real fsm.stateChange(ESTABLISHED) against a peer OPEN
// WITHOUT the 4-octet AS capability (that is what sets fsm.twoByteAsTrans; a share of the cases
// uses an OPEN WITH the capability as the control: nothing may be converted then).  A batch of
// routes - one to three attribute groups, each group's routes sharing ONE attribute slice and
// spanning one to four UPDATEs, host routes included so that the packer fills the UPDATEs - is
// handed to the real sendMessageloop over a capturing connection inside a testing/synctest bubble.
//
// The session negotiates IPv4 unicast, IPv6 unicast and VPNv4; a group's routes are IPv4 unicast
// (NLRI field), IPv6 unicast or VPNv4 (MP_REACH_NLRI), or IPv4 unicast with an IPv6 next hop
// (RFC 8950, MP_REACH_NLRI, one UPDATE per route); batches mix families and carry withdrawals
// (withdrawn-routes field and MP_UNREACH_NLRI).
//
// Oracle (no model): EVERY UPDATE on the wire that announces routes - whatever field carries them -, parsed with Use2ByteAS as the OLD peer's neighbour
// would and reconstructed by the real UpdatePathAttrs4ByteAs / UpdatePathAggregator4ByteAs, gives
// back the AS_PATH (4-octet confederation members → AS_TRANS) and the AGGREGATOR of the group its
// prefixes belong to; every prefix arrives exactly once; the attribute slices handed to the sender,
// their elements (identity and octets) and the routes' attributes are untouched afterwards.
// Correspondence: the AS_PATH/AS4_PATH and AGGREGATOR/AS4_AGGREGATOR of every UPDATE on the wire
// equal `down p` / `aggDown as` of the Lean model, and the reconstruction equals `upAttr`.
//
//   wire-roundtrip-lost:first-update-of-group / :later-update-of-group
//   wire-malformed-for-2-octet-peer   AGGREGATOR not in 6-octet form / AS_TRANS+AS4_AGGREGATOR rule broken / bad AS4_PATH
//   wire-routes-lost            a prefix missing, duplicated, or in an UPDATE of foreign attributes
//   wire-unreadable             stream does not frame / an UPDATE does not parse with the session's options
//   wire-converted-for-4-octet-peer   AS_TRANS substitution / AS4_* sent to a peer that has the capability
//   down-mutates-input          the sender changed the attribute slice / objects of the routes

import (
	"context"
	"encoding/binary"
	"encoding/hex"
	"fmt"
	"io"
	"log/slog"
	"net"
	"net/netip"
	"strings"
	"sync"
	"testing"
	"testing/synctest"
	"time"

	"github.com/eapache/channels"
	"github.com/osrg/gobgp/v4/internal/pkg/table"
	"github.com/osrg/gobgp/v4/pkg/config/oc"
	"github.com/osrg/gobgp/v4/pkg/packet/bgp"
)

type c14sSeg struct {
	typ uint8
	as  []uint32
}

func c14sConfed(t uint8) bool { return t == 3 || t == 4 }

func c14sFmt(segs []c14sSeg) string {
	var sb strings.Builder
	fmt.Fprintf(&sb, "%d", len(segs))
	for _, s := range segs {
		fmt.Fprintf(&sb, " %d %d", s.typ, len(s.as))
		for _, a := range s.as {
			fmt.Fprintf(&sb, " %d", a)
		}
	}
	return sb.String()
}

func c14sFromParams(ps []bgp.AsPathParamInterface) []c14sSeg {
	out := make([]c14sSeg, 0, len(ps))
	for _, p := range ps {
		out = append(out, c14sSeg{p.GetType(), append([]uint32{}, p.GetAS()...)})
	}
	return out
}

func c14sFrom4(ps []*bgp.As4PathParam) []c14sSeg {
	out := make([]c14sSeg, 0, len(ps))
	for _, p := range ps {
		out = append(out, c14sSeg{p.Type, append([]uint32{}, p.AS...)})
	}
	return out
}

// one item per AS of a SEQUENCE, one item per SET / confederation segment
func c14sFlat(segs []c14sSeg) string {
	var sb strings.Builder
	for _, s := range segs {
		if s.typ == 2 {
			for _, a := range s.as {
				fmt.Fprintf(&sb, "%d ", a)
			}
		} else {
			fmt.Fprintf(&sb, "%d%v ", s.typ, s.as)
		}
	}
	return sb.String()
}

func c14sConfedTrans(p []c14sSeg) []c14sSeg {
	out := make([]c14sSeg, 0, len(p))
	for _, s := range p {
		as := append([]uint32{}, s.as...)
		if c14sConfed(s.typ) {
			for i, a := range as {
				if a > 65535 {
					as[i] = bgp.AS_TRANS
				}
			}
		}
		out = append(out, c14sSeg{s.typ, as})
	}
	return out
}

func c14sAS(r *vRand, four bool) uint32 {
	if four {
		return uint32(r.pick(65536, 4294967295, 4200000001, 70000+r.intn(400000), 70000+r.intn(400000)))
	}
	return uint32(r.pick(int(bgp.AS_TRANS), 65535, 1+r.intn(65000), 1+r.intn(65000), 1+r.intn(65000)))
}

// an RFC-valid AS_PATH: leading confederation run, then SEQUENCE/SET mix
func c14sGenPath(r *vRand) []c14sSeg {
	mode := r.intn(5) // 0 no 4-octet ASN, 1 confed only, 2 plain only, 3 both, 4 all
	gen := func(typ uint8, n int, w int) c14sSeg {
		as := make([]uint32, n)
		for i := range as {
			as[i] = c14sAS(r, w == 2 || (w == 1 && r.chance(40)))
		}
		return c14sSeg{typ, as}
	}
	cw, pw := 0, 0
	switch mode {
	case 1:
		cw = 1
	case 2:
		pw = 1
	case 3:
		cw, pw = 1, 1
	case 4:
		cw, pw = 2, 2
	}
	p := []c14sSeg{}
	if r.chance(35) {
		for i, n := 0, 1+r.intn(2); i < n; i++ {
			p = append(p, gen(uint8(r.pick(3, 3, 4)), 1+r.intn(4), cw))
		}
	}
	for i, n := 0, r.pick(1, 1, 2, 2, 3); i < n; i++ {
		t := uint8(2)
		if r.chance(20) {
			t = 1
		}
		cnt := 1 + r.intn(6)
		if r.chance(6) {
			cnt = r.pick(60, 120, 255)
		}
		p = append(p, gen(t, cnt, pw))
	}
	return p
}

type c14sConn struct {
	mu  sync.Mutex
	buf []byte
}

func (c *c14sConn) Write(b []byte) (int, error) {
	c.mu.Lock()
	c.buf = append(c.buf, b...)
	c.mu.Unlock()
	return len(b), nil
}
func (c *c14sConn) Read(b []byte) (int, error)       { select {} }
func (c *c14sConn) Close() error                     { return nil }
func (c *c14sConn) SetDeadline(time.Time) error      { return nil }
func (c *c14sConn) SetReadDeadline(time.Time) error  { return nil }
func (c *c14sConn) SetWriteDeadline(time.Time) error { return nil }
func (c *c14sConn) LocalAddr() net.Addr {
	return &net.TCPAddr{IP: net.IPv4(10, 0, 0, 1).To4(), Port: 179}
}
func (c *c14sConn) RemoteAddr() net.Addr {
	return &net.TCPAddr{IP: net.IPv4(10, 0, 0, 2).To4(), Port: 40000}
}

// address family / encoding of a group's routes
const (
	c14sV4     = 0 // IPv4 unicast, NLRI field, NEXT_HOP
	c14sV6     = 1 // IPv6 unicast, MP_REACH_NLRI
	c14sVPN4   = 2 // VPNv4, MP_REACH_NLRI
	c14sV4NHv6 = 3 // IPv4 unicast with IPv6 next hop, MP_REACH_NLRI, one UPDATE per route
)

var c14sFamName = []string{"ipv4-unicast", "ipv6-unicast", "l3vpn-ipv4-unicast", "ipv4-unicast-ipv6-nexthop"}

type c14sGroup struct {
	fam    int
	nwd    int // withdrawals of this family sent along
	wdSeen int
	path   []c14sSeg
	hasAgg bool
	aggAS  uint32
	attrs  []bgp.PathAttributeInterface // THE slice every route of the group holds
	ident  []bgp.PathAttributeInterface
	ser    []string
	n      int
	plen   int
	seen   int
	msgs   int
}

func c14sBytes(a bgp.PathAttributeInterface) string {
	b, _ := a.Serialize()
	return hex.EncodeToString(b)
}

var c14sAggAddr = netip.MustParseAddr("192.0.2.14")

// the i-th prefix of group gi (wd: from the range used for withdrawals); the group is readable
// from the prefix
func c14sNlri(fam, gi, i, plen int, wd bool) (bgp.Family, bgp.NLRI) {
	tag := byte(10 + gi)
	if wd {
		tag = byte(110 + gi)
	}
	switch fam {
	case c14sV6:
		a := [16]byte{0x20, 0x01, 0x0d, 0xb8, tag, 0, byte(i >> 8), byte(i)}
		n, _ := bgp.NewIPAddrPrefix(netip.PrefixFrom(netip.AddrFrom16(a), 64))
		return bgp.RF_IPv6_UC, n
	case c14sVPN4:
		pfx := netip.PrefixFrom(netip.AddrFrom4([4]byte{tag, byte(i >> 8), byte(i), 0}), 24)
		n, _ := bgp.NewLabeledVPNIPAddrPrefix(pfx, *bgp.NewMPLSLabelStack(uint32(100 + gi)), bgp.NewRouteDistinguisherTwoOctetAS(65000, uint32(gi)))
		return bgp.RF_IPv4_VPN, n
	default:
		v := uint32(i) << (32 - plen)
		n, _ := bgp.NewIPAddrPrefix(netip.PrefixFrom(netip.AddrFrom4([4]byte{tag, byte(v >> 16), byte(v >> 8), byte(v)}), plen))
		return bgp.RF_IPv4_UC, n
	}
}

// (group index, is from the withdrawal range, ok)
func c14sGroupOf(n bgp.NLRI) (int, bool, bool) {
	var tag int
	switch x := n.(type) {
	case *bgp.IPAddrPrefix:
		if x.Prefix.Addr().Is4() {
			tag = int(x.Prefix.Addr().As4()[0])
		} else {
			tag = int(x.Prefix.Addr().As16()[4])
		}
	case *bgp.LabeledVPNIPAddrPrefix:
		tag = int(x.Prefix.Addr().As4()[0])
	default:
		return 0, false, false
	}
	switch {
	case tag >= 110 && tag < 120:
		return tag - 110, true, true
	case tag >= 10 && tag < 20:
		return tag - 10, false, true
	}
	return 0, false, false
}

func c14sCase(t *testing.T, o *vOut, r *vRand, groups []*c14sGroup, fourOctetPeer, ext bool, tag string) {
	synctest.Test(t, func(t *testing.T) {
		logger := slog.New(slog.NewTextHandler(io.Discard, nil))
		conn := &c14sConn{}
		neigh := &oc.Neighbor{}
		for _, af := range []struct {
			n oc.AfiSafiType
			f bgp.Family
		}{{oc.AFI_SAFI_TYPE_IPV4_UNICAST, bgp.RF_IPv4_UC}, {oc.AFI_SAFI_TYPE_IPV6_UNICAST, bgp.RF_IPv6_UC}, {oc.AFI_SAFI_TYPE_L3VPN_IPV4_UNICAST, bgp.RF_IPv4_VPN}} {
			neigh.AfiSafis = append(neigh.AfiSafis, oc.AfiSafi{
				Config: oc.AfiSafiConfig{AfiSafiName: af.n, Enabled: true},
				State:  oc.AfiSafiState{AfiSafiName: af.n, Enabled: true, Family: af.f},
			})
		}
		f := newFSM(&oc.Global{}, neigh, bgp.BGP_FSM_IDLE, logger)
		f.conn = conn
		h := &fsmHandler{fsm: f, outgoing: channels.NewInfiniteChannel(), callback: func(*fsmMsg) {}}
		f.h = h
		defer func() {
			h.outgoing.Close()
			f.outgoingCh.Close()
			synctest.Wait()
		}()

		// the peer's OPEN: an OLD speaker has no 4-octet AS capability
		caps := []bgp.ParameterCapabilityInterface{bgp.NewCapMultiProtocol(bgp.RF_IPv4_UC), bgp.NewCapMultiProtocol(bgp.RF_IPv6_UC), bgp.NewCapMultiProtocol(bgp.RF_IPv4_VPN)}
		if fourOctetPeer {
			caps = append(caps, bgp.NewCapFourOctetASNumber(65002))
		}
		if ext {
			caps = append(caps, bgp.NewCapExtendedMessage())
		}
		f.recvOpen, _ = bgp.NewBGPOpenMessage(65002, 0, netip.MustParseAddr("10.0.0.2"),
			[]bgp.OptionParameterInterface{bgp.NewOptionParameterCapability(caps)})
		f.stateChange(bgp.BGP_FSM_ESTABLISHED, newfsmStateReason(fsmOpenMsgNegotiated, nil, nil))
		if f.twoByteAsTrans == fourOctetPeer {
			t.Fatalf("C14 sender harness: twoByteAsTrans=%v for fourOctetPeer=%v", f.twoByteAsTrans, fourOctetPeer)
		}
		limit := bgp.BGP_MAX_MESSAGE_LENGTH
		if ext && f.extendedMessage.Load() {
			limit = bgp.BGP_MAX_EXTENDED_MESSAGE_LENGTH
		}

		gdesc := []map[string]any{}
		paths := []*table.Path{}
		for gi, g := range groups {
			params := make([]bgp.AsPathParamInterface, 0, len(g.path))
			for _, s := range g.path {
				params = append(params, bgp.NewAs4PathParam(s.typ, append([]uint32{}, s.as...)))
			}
			// the attribute objects every route of the group shares
			g.attrs = []bgp.PathAttributeInterface{bgp.NewPathAttributeOrigin(uint8(gi % 3)), bgp.NewPathAttributeAsPath(params)}
			if g.fam == c14sV4 {
				nh, _ := bgp.NewPathAttributeNextHop(netip.AddrFrom4([4]byte{192, 0, 2, byte(1 + gi)}))
				g.attrs = append(g.attrs, nh)
			}
			if g.hasAgg {
				ag, _ := bgp.NewPathAttributeAggregator(g.aggAS, c14sAggAddr)
				g.attrs = append(g.attrs, ag)
			}
			g.ident = append([]bgp.PathAttributeInterface{}, g.attrs...)
			g.ser = nil
			for _, a := range g.attrs {
				g.ser = append(g.ser, c14sBytes(a))
			}
			nh6 := netip.AddrFrom16([16]byte{0x20, 0x01, 0x0d, 0xb8, 0xff, byte(gi), 15: 1})
			nh4 := netip.AddrFrom4([4]byte{192, 0, 2, byte(1 + gi)})
			for i := 0; i < g.n+g.nwd; i++ {
				wd := i >= g.n
				idx := i
				if wd {
					idx = i - g.n
				}
				fam, n := c14sNlri(g.fam, gi, idx, g.plen, wd)
				pn := bgp.PathNLRI{NLRI: n}
				if wd {
					paths = append(paths, table.NewPath(fam, nil, pn, true, nil, time.Unix(1700000000, 0), false))
					continue
				}
				attrs := g.attrs
				if g.fam != c14sV4 {
					// MP families: the route's own MP_REACH_NLRI next to the shared attribute objects
					nh := nh6
					if g.fam == c14sVPN4 {
						nh = nh4
					}
					mp, err := bgp.NewPathAttributeMpReachNLRI(fam, []bgp.PathNLRI{pn}, nh)
					if err != nil {
						t.Fatalf("C14 sender harness: MP_REACH_NLRI: %v", err)
					}
					attrs = append(append(make([]bgp.PathAttributeInterface, 0, len(g.attrs)+1), g.attrs...), mp)
				}
				paths = append(paths, table.NewPath(fam, nil, pn, false, attrs, time.Unix(1700000000, 0), false))
			}
			gdesc = append(gdesc, map[string]any{"as_path": c14sFmt(g.path), "has_aggregator": g.hasAgg, "aggregator_as": g.aggAS, "prefixes": g.n, "prefix_len": g.plen, "family": c14sFamName[g.fam], "withdrawals": g.nwd})
		}
		detail := func(extra map[string]any) map[string]any {
			extra["case"] = tag
			extra["peer_has_4_octet_as_capability"] = fourOctetPeer
			extra["extended_message"] = ext
			extra["groups"] = gdesc
			return extra
		}
		// interleave the groups' routes a little, as a table dump does not
		if r.chance(50) && len(groups) > 1 {
			for i := len(paths) - 1; i > 0; i-- {
				j := r.intn(i + 1)
				paths[i], paths[j] = paths[j], paths[i]
			}
		}

		// the real sender
		ctx, cancel := context.WithCancel(context.Background())
		wg := &sync.WaitGroup{}
		wg.Add(1)
		reasonCh := make(chan fsmStateReason, 3)
		rest := paths
		for len(rest) > 0 {
			n := len(rest)
			if r.chance(40) && n > 1 {
				n = 1 + r.intn(n)
			}
			h.outgoing.In() <- &fsmOutgoingMsg{Paths: rest[:n]}
			rest = rest[n:]
		}
		synctest.Wait()
		go h.sendMessageloop(ctx, conn, reasonCh, wg)
		synctest.Wait()
		cancel()
		wg.Wait()
		conn.mu.Lock()
		stream := conn.buf
		conn.buf = nil
		conn.mu.Unlock()

		popt := &bgp.MarshallingOption{Use2ByteAS: !fourOctetPeer, ExtendedMessage: limit > 4096}
		nUpd := 0
		for len(stream) > 0 {
			if len(stream) < 19 {
				o.fail("wire-unreadable", detail(map[string]any{"why": "trailing octets"}))
				break
			}
			l := int(binary.BigEndian.Uint16(stream[16:18]))
			if l < 19 || l > len(stream) || l > limit {
				o.fail("wire-unreadable", detail(map[string]any{"why": fmt.Sprintf("length field %d (limit %d, %d octets left)", l, limit, len(stream))}))
				break
			}
			raw := stream[:l]
			stream = stream[l:]
			if raw[18] != bgp.BGP_MSG_UPDATE {
				continue
			}
			m, err := bgp.ParseBGPMessage(raw, popt)
			if err != nil {
				cls := "wire-unreadable"
				if !fourOctetPeer {
					// what the OLD peer (which reads 2-octet AS numbers) makes of it
					cls = "wire-malformed-for-2-octet-peer"
				}
				_, err4 := bgp.ParseBGPMessage(raw, &bgp.MarshallingOption{ExtendedMessage: limit > 4096})
				o.fail(cls, detail(map[string]any{"why": "UPDATE does not parse with the session's options: " + err.Error(), "update": nUpd,
					"parses_when_read_with_4_octet_as_numbers": err4 == nil, "hex_head": hex.EncodeToString(raw[:min(len(raw), 96)])}))
				continue
			}
			u := m.Body.(*bgp.BGPUpdate)
			ann := append([]bgp.PathNLRI{}, u.NLRI...)
			wds := append([]bgp.PathNLRI{}, u.WithdrawnRoutes...)
			viaMP := false
			for _, a := range u.PathAttributes {
				switch x := a.(type) {
				case *bgp.PathAttributeMpReachNLRI:
					ann = append(ann, x.Value...)
					viaMP = true
				case *bgp.PathAttributeMpUnreachNLRI:
					wds = append(wds, x.Value...)
				}
			}
			for _, w := range wds {
				gi, wd, ok := c14sGroupOf(w.NLRI)
				if !ok || !wd || gi >= len(groups) {
					o.fail("wire-routes-lost", detail(map[string]any{"why": "withdrawal of a prefix that was not withdrawn: " + w.NLRI.String()}))
					continue
				}
				groups[gi].wdSeen++
			}
			if len(ann) == 0 {
				continue
			}
			nUpd++
			gi, wd, ok := c14sGroupOf(ann[0].NLRI)
			if !ok || wd || gi >= len(groups) {
				o.fail("wire-routes-lost", detail(map[string]any{"why": "unknown prefix " + ann[0].NLRI.String()}))
				continue
			}
			g := groups[gi]
			for _, n := range ann {
				if gj, wd, ok := c14sGroupOf(n.NLRI); !ok || wd || gj != gi {
					o.fail("wire-routes-lost", detail(map[string]any{"why": "one UPDATE carries prefixes of two attribute groups", "update": nUpd}))
					break
				}
			}
			if viaMP {
				o.stat("send_updates_mp_reach", 1)
			}
			g.seen += len(ann)
			g.msgs++
			nth := g.msgs
			cls := "wire-roundtrip-lost:later-update-of-group"
			if nth == 1 {
				cls = "wire-roundtrip-lost:first-update-of-group"
			}
			md := func(why string) map[string]any {
				return detail(map[string]any{"why": why, "group": gi, "update_of_group": nth, "nlris": len(ann), "family": c14sFamName[g.fam]})
			}
			var rx2 *bgp.PathAttributeAsPath
			var rx4 *bgp.PathAttributeAs4Path
			var rxa *bgp.PathAttributeAggregator
			var rxa4 *bgp.PathAttributeAs4Aggregator
			for _, a := range u.PathAttributes {
				switch x := a.(type) {
				case *bgp.PathAttributeAsPath:
					rx2 = x
				case *bgp.PathAttributeAs4Path:
					rx4 = x
				case *bgp.PathAttributeAggregator:
					rxa = x
				case *bgp.PathAttributeAs4Aggregator:
					rxa4 = x
				}
			}
			if rx2 == nil || (g.hasAgg && rxa == nil) {
				o.fail(cls, md("AS_PATH or AGGREGATOR missing on the wire"))
				continue
			}
			a := c14sFromParams(rx2.Value)
			if fourOctetPeer {
				// control: a NEW peer gets the attributes as they are
				if rx4 != nil || rxa4 != nil || c14sFmt(a) != c14sFmt(g.path) || (g.hasAgg && rxa.Value.AS != g.aggAS) {
					o.fail("wire-converted-for-4-octet-peer", md("got "+c14sFmt(a)))
				}
				o.stat("send_updates_4octet_peer", 1)
				continue
			}
			// what an OLD speaker can digest (RFC 6793 4.2.2): 6-octet AGGREGATOR, AS_TRANS +
			// AS4_AGGREGATOR iff the AS needs 4 octets, no confederation segment in AS4_PATH
			if g.hasAgg {
				okAgg := rxa.Length == 6 && rxa.Value.Address == c14sAggAddr
				if g.aggAS > 65535 {
					okAgg = okAgg && rxa.Value.AS == bgp.AS_TRANS && rxa4 != nil && rxa4.Value.AS == g.aggAS
				} else {
					okAgg = okAgg && rxa.Value.AS == g.aggAS && rxa4 == nil
				}
				if !okAgg {
					o.fail("wire-malformed-for-2-octet-peer", md(fmt.Sprintf("AGGREGATOR value of %d octets, AS %d, AS4_AGGREGATOR present=%v", rxa.Length, rxa.Value.AS, rxa4 != nil)))
				}
			}
			if rx4 != nil {
				if len(rx4.Value) == 0 {
					o.fail("wire-malformed-for-2-octet-peer", md("AS4_PATH without a segment"))
				}
				for _, sg := range rx4.Value {
					if c14sConfed(sg.Type) {
						o.fail("wire-malformed-for-2-octet-peer", md("confederation segment in AS4_PATH"))
						break
					}
				}
			}
			// correspondence: what is on the wire is the model's down conversion of the group's attributes
			ans := c14sFmt(a) + " | "
			var a4 []c14sSeg
			if rx4 != nil {
				a4 = c14sFrom4(rx4.Value)
				ans += c14sFmt(a4)
			} else {
				ans += "-"
			}
			o.ask(ans, "down %s", c14sFmt(g.path))
			if g.hasAgg {
				x := "-"
				if rxa4 != nil {
					x = fmt.Sprint(rxa4.Value.AS)
				}
				o.ask(fmt.Sprintf("%d %s", rxa.Value.AS, x), "aggdown %d", g.aggAS)
			}
			line := fmt.Sprintf("up %d %s", rx2.Length, c14sFmt(a))
			if rx4 != nil {
				line += " 1 " + c14sFmt(a4)
			} else {
				line += " 0"
			}
			// reconstruction as recvMessageloop of a 4-octet speaker does it
			table.UpdatePathAttrs4ByteAs(logger, u)
			aggErr := table.UpdatePathAggregator4ByteAs(u)
			var got *bgp.PathAttributeAsPath
			var gotAgg *bgp.PathAttributeAggregator
			left := false
			for _, x := range u.PathAttributes {
				switch y := x.(type) {
				case *bgp.PathAttributeAsPath:
					got = y
				case *bgp.PathAttributeAggregator:
					gotAgg = y
				case *bgp.PathAttributeAs4Path, *bgp.PathAttributeAs4Aggregator:
					left = true
				}
			}
			if got == nil {
				o.fail(cls, md("AS_PATH lost in reconstruction"))
				continue
			}
			res := c14sFromParams(got.Value)
			o.ask(fmt.Sprintf("%s len %d", c14sFmt(res), got.Len()), "%s", line)
			want := c14sConfedTrans(g.path)
			if c14sFlat(res) != c14sFlat(want) {
				o.fail(cls, md("AS_PATH after reconstruction "+c14sFmt(res)+", want "+c14sFmt(want)))
			}
			if left {
				o.fail(cls, md("AS4_PATH / AS4_AGGREGATOR left after reconstruction"))
			}
			if g.hasAgg {
				if aggErr != nil || gotAgg == nil || gotAgg.Value.AS != g.aggAS || gotAgg.Value.Address != c14sAggAddr {
					s := "lost"
					if gotAgg != nil {
						s = fmt.Sprint(gotAgg.Value.AS, " ", gotAgg.Value.Address)
					}
					o.fail(cls, md(fmt.Sprintf("AGGREGATOR after reconstruction %s, want %d %s", s, g.aggAS, c14sAggAddr)))
				}
			} else if rxa != nil || rxa4 != nil {
				o.fail(cls, md("AGGREGATOR invented"))
			}
			if nth == 1 {
				o.stat("send_first_updates", 1)
			} else {
				o.stat("send_later_updates", 1)
			}
		}
		for gi, g := range groups {
			o.stat(fmt.Sprintf("send_group_spans_%d", min(g.msgs, 5)), 1)
			o.stat("send_groups_"+c14sFamName[g.fam], 1)
			if g.seen != g.n {
				o.fail("wire-routes-lost", detail(map[string]any{"why": fmt.Sprintf("group %d: %d of %d prefixes on the wire", gi, g.seen, g.n)}))
			}
			if g.wdSeen != g.nwd {
				o.fail("wire-routes-lost", detail(map[string]any{"why": fmt.Sprintf("group %d: %d of %d withdrawals on the wire", gi, g.wdSeen, g.nwd)}))
			}
			if g.nwd > 0 {
				o.stat("send_groups_with_withdrawals", 1)
			}
			// the routes still hold what they held (they stay in the RIB and go to other peers)
			bad := len(g.attrs) != len(g.ident)
			for i := 0; !bad && i < len(g.ident); i++ {
				bad = g.attrs[i] != g.ident[i] || c14sBytes(g.attrs[i]) != g.ser[i]
			}
			if bad {
				o.fail("down-mutates-input", detail(map[string]any{"why": fmt.Sprintf("sending changed the attribute slice shared by the routes of group %d", gi)}))
			}
		}
		f.stateChange(bgp.BGP_FSM_IDLE, newfsmStateReason(fsmReadFailed, nil, nil))
	})
}

func TestVerifC14Send(t *testing.T) {
	o := vOpen(t)
	defer o.close()
	r := &vRand{s: o.seed*7919 + 1414}
	seg := func(typ uint8, as ...uint32) c14sSeg { return c14sSeg{typ, as} }

	// corpus: the aggregator of a 4-octet AS over 1800 prefixes (3 UPDATEs), AS_PATH with 4-octet ASNs
	c14sCase(t, o, r, []*c14sGroup{{path: []c14sSeg{seg(2, 65001, 4200000001, 300)}, hasAgg: true, aggAS: 4200000001, n: 1800, plen: 24}}, false, false, "corpus-send-agg4-3-updates")
	// two groups, host routes (UPDATEs filled to the limit), confederation run + leading SET
	c14sCase(t, o, r, []*c14sGroup{
		{path: []c14sSeg{seg(3, 65010, 70000), seg(1, 70001, 3), seg(2, 400000, 5)}, hasAgg: true, aggAS: 300000, n: 1700, plen: 32},
		{path: []c14sSeg{seg(2, 65000, 400000, 300000, 64512)}, hasAgg: true, aggAS: 64999, n: 900, plen: 32},
	}, false, false, "corpus-send-two-groups-tight")
	// control: the same towards a 4-octet peer
	c14sCase(t, o, r, []*c14sGroup{{path: []c14sSeg{seg(2, 65001, 4200000001, 300)}, hasAgg: true, aggAS: 4200000001, n: 1800, plen: 24}}, true, false, "corpus-send-4-octet-peer")

	// MP families: IPv6 unicast spanning several UPDATEs + VPNv4 + IPv4 with IPv6 next hop, with withdrawals
	c14sCase(t, o, r, []*c14sGroup{
		{fam: c14sV6, path: []c14sSeg{seg(2, 65001, 4200000001, 300)}, hasAgg: true, aggAS: 4200000001, n: 1000, nwd: 30, plen: 64},
		{fam: c14sVPN4, path: []c14sSeg{seg(3, 65010, 70000), seg(1, 70001, 3), seg(2, 400000, 5)}, hasAgg: true, aggAS: 300000, n: 300, nwd: 5, plen: 24},
		{fam: c14sV4NHv6, path: []c14sSeg{seg(2, 65000, 400000)}, hasAgg: true, aggAS: 70000, n: 12, plen: 24},
		{fam: c14sV4, path: []c14sSeg{seg(2, 65000, 400000, 300000, 64512)}, hasAgg: true, aggAS: 64999, n: 900, nwd: 40, plen: 24},
	}, false, false, "corpus-send-mp-families")

	n := 45
	if o.thorough {
		n = 320
	}
	for i := 0; i < n; i++ {
		fourOctetPeer := r.chance(12)
		ext := r.chance(12)
		limit := 4096
		if ext {
			limit = 65535
		}
		ng := r.pick(1, 1, 2, 2, 3)
		if ext {
			ng = r.pick(1, 2)
		}
		groups := []*c14sGroup{}
		for gi := 0; gi < ng; gi++ {
			g := &c14sGroup{path: c14sGenPath(r), hasAgg: r.chance(75), fam: r.pick(c14sV4, c14sV4, c14sV6, c14sV6, c14sVPN4, c14sV4NHv6)}
			if r.chance(35) {
				g.nwd = 1 + r.intn(40)
			}
			if g.hasAgg {
				g.aggAS = c14sAS(r, r.chance(65))
			}
			alen := 0
			for _, s := range g.path {
				alen += 2 + 4*len(s.as)
			}
			g.plen = r.pick(20, 24, 24, 24, 32, 32, 25)
			per := 5
			switch g.fam {
			case c14sV6:
				per = 9
			case c14sVPN4:
				per = 15
			}
			room := (limit - 23 - alen - 80) / per
			if room < 20 {
				room = 20
			}
			// spans: 1 UPDATE (30%), else 2..4
			if r.chance(30) {
				g.n = 1 + r.intn(room)
			} else {
				g.n = room + 1 + r.intn(3*room)
			}
			if g.plen < 24 && g.n >= 1<<(g.plen-8) {
				g.n = 1<<(g.plen-8) - 1
			}
			if g.n >= 1<<16 {
				g.n = 1<<16 - 1
			}
			if g.fam == c14sV4NHv6 {
				g.n = 1 + r.intn(25) // one UPDATE per route
				g.plen = 24
			}
			groups = append(groups, g)
		}
		if i < 2 {
			o.sample(fmt.Sprintf("send groups=%d first: %s agg=%d n=%d /%d", ng, c14sFmt(groups[0].path), groups[0].aggAS, groups[0].n, groups[0].plen))
		}
		c14sCase(t, o, r, groups, fourOctetPeer, ext, "send")
	}
}
