//go:build verif

package server

// C18, api.Path level correspondence: apiutil2Path followed by toPathApiUtil (the pair AddPath /
// ListPath run at the two ends of the RIB) on generated apiutil.Path values, answered by the Lean
// model (apiutil2table / table2apiutil of lean/Model/ApiConvX.lean, op `tpath`).  Small attribute
// vocabulary (ORIGIN, NEXT_HOP, MED, unknown incl. type codes 3 and 14, MP_REACH_NLRI of IPv4 / IPv6
// prefixes): the attribute converters themselves are tied in package apiutil.

import (
	"encoding/hex"
	"fmt"
	"net/netip"
	"strings"
	"testing"

	"github.com/osrg/gobgp/v4/pkg/apiutil"
	"github.com/osrg/gobgp/v4/pkg/packet/bgp"
)

func vC18PHex(b []byte) string {
	if len(b) == 0 {
		return "-"
	}
	return hex.EncodeToString(b)
}

func vC18PAddr(a netip.Addr) string {
	if !a.IsValid() {
		return "-"
	}
	return vC18PHex(a.AsSlice())
}

func vC18PB(b bool) string {
	if b {
		return "1"
	}
	return "0"
}

func vC18PNlri(n bgp.NLRI) string {
	p := n.(*bgp.IPAddrPrefix)
	return fmt.Sprintf("ip %d %s", p.Prefix.Bits(), vC18PAddr(p.Prefix.Addr()))
}

func vC18PAttrDesc(a bgp.PathAttributeInterface) string {
	switch v := a.(type) {
	case *bgp.PathAttributeOrigin:
		return fmt.Sprintf("c %d %d %d o %d", v.Flags, v.Type, v.Length, v.Value)
	case *bgp.PathAttributeNextHop:
		return fmt.Sprintf("c %d %d %d h %s", v.Flags, v.Type, v.Length, vC18PAddr(v.Value))
	case *bgp.PathAttributeMultiExitDisc:
		return fmt.Sprintf("c %d %d %d m %d", v.Flags, v.Type, v.Length, v.Value)
	case *bgp.PathAttributeUnknown:
		return fmt.Sprintf("c %d %d %d u %s", v.Flags, v.Type, v.Length, vC18PHex(v.Value))
	case *bgp.PathAttributeMpReachNLRI:
		ns := []string{fmt.Sprint(len(v.Value))}
		for _, p := range v.Value {
			ns = append(ns, fmt.Sprintf("%d %s", p.ID, vC18PNlri(p.NLRI)))
		}
		return fmt.Sprintf("x %d %d %d R %d %d %s %s %s", v.Flags, v.Type, v.Length, v.AFI, v.SAFI, vC18PAddr(v.Nexthop), vC18PAddr(v.LinkLocalNexthop), strings.Join(ns, " "))
	}
	panic("unmodelled attribute in the C18 path harness")
}

func TestVerifC18Path(t *testing.T) {
	o := vOpen(t)
	defer o.close()
	r := &vRand{s: o.seed*7919 + 23}
	n := 4000
	if o.thorough {
		n = 30000
	}
	v4 := func() netip.Addr {
		return netip.AddrFrom4([4]byte{byte(r.pick(10, 192, 1)), byte(r.intn(256)), byte(r.intn(256)), byte(r.pick(0, 1, 254))})
	}
	v6 := func() netip.Addr {
		b := [16]byte{0x20, 0x01, 0x0d, 0xb8}
		for i := 4; i < 16; i++ {
			b[i] = byte(r.next())
		}
		return netip.AddrFrom16(b)
	}
	ll := func() netip.Addr {
		b := [16]byte{0xfe, 0x80}
		for i := 8; i < 16; i++ {
			b[i] = byte(r.next())
		}
		return netip.AddrFrom16(b)
	}
	for i := 0; i < n; i++ {
		isV6 := r.chance(40)
		var pfx netip.Prefix
		fam := bgp.RF_IPv4_UC
		if isV6 {
			pfx = netip.PrefixFrom(v6(), r.pick(0, 32, 48, 64, 128))
			fam = bgp.RF_IPv6_UC
		} else {
			pfx = netip.PrefixFrom(v4(), r.pick(0, 8, 16, 24, 32))
		}
		if r.chance(5) {
			fam = bgp.Family(0)
		}
		if r.chance(5) {
			fam = bgp.RF_IPv4_MC
		}
		nlri, _ := bgp.NewIPAddrPrefix(pfx)
		attrs := []bgp.PathAttributeInterface{}
		for _, k := range r.perm(6)[:r.pick(0, 1, 2, 3, 4, 5)] {
			switch k {
			case 0:
				attrs = append(attrs, bgp.NewPathAttributeOrigin(uint8(r.intn(3))))
			case 1:
				a, _ := bgp.NewPathAttributeNextHop([]netip.Addr{v4(), v4(), v6()}[r.intn(3)])
				attrs = append(attrs, a)
			case 2:
				attrs = append(attrs, bgp.NewPathAttributeMultiExitDisc(uint32(r.intn(1000))))
			case 3:
				attrs = append(attrs, bgp.NewPathAttributeUnknown(bgp.BGPAttrFlag(r.pick(0xc0, 0x40, 0x80)), bgp.BGPAttrType(r.pick(99, 3, 14, 1, 200)), []byte{1, 2, 3, 4}))
			case 4:
				nhs := [][]netip.Addr{{v4()}, {v6()}, {v6(), ll()}, {v6(), v6()}, {netip.AddrFrom16(v4().As16())}}[r.intn(5)]
				other, _ := bgp.NewIPAddrPrefix(netip.PrefixFrom(v4(), 24))
				a, err := bgp.NewPathAttributeMpReachNLRI([]bgp.Family{bgp.RF_IPv4_UC, bgp.RF_IPv6_UC}[r.intn(2)],
					[]bgp.PathNLRI{{NLRI: other, ID: uint32(r.pick(0, 5))}}, nhs...)
				if err == nil {
					attrs = append(attrs, a)
				}
			case 5:
				if r.chance(30) { // a duplicate type
					attrs = append(attrs, bgp.NewPathAttributeMultiExitDisc(7))
				}
			}
		}
		asn := uint32(r.pick(0, 0, 65001, 4200000000))
		var pid, paddr netip.Addr
		if r.chance(70) {
			pid = v4()
		}
		if r.chance(50) {
			paddr = []netip.Addr{v4(), v6()}[r.intn(2)]
		}
		p := &apiutil.Path{Family: fam, Nlri: nlri, Age: int64(r.pick(0, 1, 1700000000)), Best: r.chance(50), Attrs: attrs,
			Stale: r.chance(30), Withdrawal: r.chance(20), PeerASN: asn, PeerID: pid, PeerAddress: paddr,
			IsFromExternal: r.chance(30), NoImplicitWithdraw: r.chance(30), IsNexthopInvalid: r.chance(30),
			SendMaxFiltered: r.chance(30), Filtered: r.chance(30), RemoteID: uint32(r.pick(0, 1, 9, 4294967295)), LocalID: uint32(r.pick(0, 3))}
		isVrf, del := r.chance(20), r.chance(20)
		ds := []string{}
		for _, a := range attrs {
			ds = append(ds, vC18PAttrDesc(a))
		}
		op := fmt.Sprintf("tpath %s %s %d %d %s %d %s %d %s %s %s %s %d %d %s %s %d", vC18PB(isVrf), vC18PB(del), fam.Afi(), fam.Safi(),
			vC18PNlri(nlri), p.Age, vC18PB(p.Withdrawal), asn, vC18PAddr(pid), vC18PAddr(paddr), vC18PB(p.IsFromExternal),
			vC18PB(p.NoImplicitWithdraw), p.RemoteID, p.LocalID, vC18PB(p.Best), vC18PB(p.Stale), len(attrs))
		if len(ds) > 0 {
			op += " " + strings.Join(ds, " ")
		}
		res := func() (s string) {
			defer func() {
				if e := recover(); e != nil {
					s = "panic"
				}
			}()
			var tp interface{ GetFamily() bgp.Family }
			var err error
			var u *apiutil.Path
			if del {
				x, e := apiutil2Path(p, isVrf, true)
				tp, err = x, e
				if e == nil {
					u = toPathApiUtil(x)
				}
			} else {
				x, e := apiutil2Path(p, isVrf)
				tp, err = x, e
				if e == nil {
					u = toPathApiUtil(x)
				}
			}
			_ = tp
			if err != nil {
				return "err"
			}
			hs := []string{}
			for _, a := range u.Attrs {
				b, _ := a.Serialize()
				hs = append(hs, vC18PHex(b))
			}
			return fmt.Sprintf("ok %d %d %s %d %s %d %s %s %s %s %d %d %s %s %s %s %s A=%s", u.Family.Afi(), u.Family.Safi(), vC18PNlri(u.Nlri),
				u.Age, vC18PB(u.Withdrawal), u.PeerASN, vC18PAddr(u.PeerID), vC18PAddr(u.PeerAddress), vC18PB(u.IsFromExternal),
				vC18PB(u.NoImplicitWithdraw), u.RemoteID, u.LocalID, vC18PB(u.Best), vC18PB(u.Stale), vC18PB(u.IsNexthopInvalid),
				vC18PB(u.SendMaxFiltered), vC18PB(u.Filtered), strings.Join(hs, ","))
		}()
		o.stat("tpath_"+strings.SplitN(res, " ", 2)[0], 1)
		o.ask(res, "%s", op)
		if res == "panic" {
			o.fail("path:apiutil2Path-panic", map[string]any{"op": op})
		}
	}
}
