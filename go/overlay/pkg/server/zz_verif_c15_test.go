//go:build verif

package server

// C15 harness: soft reset (in / out / both, one peer or all) and ROUTE-REFRESH equal a fresh
// evaluation under the current policy.  Built on the "world" (zz_verif_world_test.go): a real
// BgpServer whose passive peers are driven white-box from one goroutine.  REAL policies are
// configured through the public API (AddDefinedSet / AddPolicy / SetPolicyAssignment /
// SetPolicies): global import and export policy whose statements combine a community-set and a
// neighbor-set condition with set-med / set-local-pref / community-add actions and an
// accept / reject / fall-through route action, so verdicts and attributes differ per peer.
//
// correspondence (Model/SoftReset.lean): after every check point the view of every established
//   peer (marker, MED, LOCAL_PREF, communities as parsed back from the UPDATEs actually packed),
//   peer.sentPaths, every Adj-RIB-In and the Loc-RIB order with attributes.
// oracles (model independent):
//   metamorphic  the same announcement history on a FRESH real server that had the final policy
//                from the start gives the same Loc-RIB and the same view (full attribute digest)
//                for every established peer as policy change(s) + soft reset;
//   fresh-export after a soft reset out / route refresh of a peer its view equals the real
//                s.filterpath(peer, best, nil) of every current best path;
//   idempotent   repeating the reset changes nothing (soft in: no UPDATE at all; soft out: no
//                withdrawal, same views, same sentPaths, same Loc-RIB);
//   no-dup       one reset never emits two paths for one prefix toward one peer, and withdraws
//                only what the peer holds.

import (
	"context"
	"fmt"
	"net/netip"
	"os"
	"sort"
	"strings"
	"testing"

	"github.com/osrg/gobgp/v4/api"
	"github.com/osrg/gobgp/v4/internal/pkg/table"
	"github.com/osrg/gobgp/v4/pkg/apiutil"
	"github.com/osrg/gobgp/v4/pkg/packet/bgp"
)

type c15PfxEnt struct {
	base   uint32 // prefix address
	plen   int
	lo, hi int // mask-length range
}

func (e c15PfxEnt) cidr() string {
	return fmt.Sprintf("%d.%d.%d.%d/%d", byte(e.base>>24), byte(e.base>>16), byte(e.base>>8), byte(e.base), e.plen)
}

type c15AspEnt struct {
	mode int // 0 `_N_` include, 1 `^N_` left-most, 2 `_N$` origin, 3 `^N$` only
	asn  uint32
}

func (e c15AspEnt) str() string {
	return fmt.Sprintf([]string{"_%d_", "^%d_", "_%d$", "^%d$"}[e.mode], e.asn)
}

// c15Stmt: one policy statement. Every set condition is kept here as the LOGICAL member list
// (what the configuration says after every append / remove / replace); the real defined sets
// are edited through the API and the fresh server of the metamorphic oracle is configured from
// these lists, never from the edited set objects.
type c15Stmt struct {
	hasComm      bool
	comms        []uint32 // community-set members
	opts         [4]int   // match option per set kind (0 community, 1 neighbor, 2 prefix, 3 as-path): 0 ANY, 1 ALL, 2 INVERT
	anyPeer      bool
	peers        []int // neighbor-set members
	hasPfx       bool
	pfx          []c15PfxEnt // prefix-set members
	hasAsp       bool
	asp          []c15AspEnt // as-path-set members
	med, lp, add *uint32
	route        int    // 0 none, 1 accept, 2 reject
	lenOp, lenN  int    // as-path-length condition: lenOp 0 none, 1 eq, 2 ge, 3 le
	medEq, lpEq  uint32 // med-eq / local-pref-eq conditions (0: none)
}

type c15Pol struct {
	stmts []c15Stmt
	dflt  bool
}

func c15Opt(p *uint32) string {
	if p == nil {
		return "0 0"
	}
	return fmt.Sprintf("1 %d", *p)
}

func c15B(b bool) int {
	if b {
		return 1
	}
	return 0
}

func (p *c15Pol) line(dir string) string {
	var sb strings.Builder
	fmt.Fprintf(&sb, "pol %s %d %d", dir, c15B(p.dflt), len(p.stmts))
	for _, s := range p.stmts {
		fmt.Fprintf(&sb, " %d %d %d", c15B(s.hasComm), s.opts[0], len(s.comms))
		for _, c := range s.comms {
			fmt.Fprintf(&sb, " %d", c)
		}
		fmt.Fprintf(&sb, " %d %d %d", c15B(s.anyPeer), s.opts[1], len(s.peers))
		for _, x := range s.peers {
			fmt.Fprintf(&sb, " %d", x)
		}
		fmt.Fprintf(&sb, " %s %s %s %d", c15Opt(s.med), c15Opt(s.lp), c15Opt(s.add), s.route)
		if s.lenOp == 0 {
			sb.WriteString(" 0 0 0")
		} else {
			fmt.Fprintf(&sb, " 1 %d %d", s.lenOp-1, s.lenN)
		}
		fmt.Fprintf(&sb, " %d %d %d", c15B(s.hasPfx), s.opts[2], len(s.pfx))
		for _, e := range s.pfx {
			fmt.Fprintf(&sb, " %d %d %d %d", e.base, e.plen, e.lo, e.hi)
		}
		fmt.Fprintf(&sb, " %d %d %d", c15B(s.hasAsp), s.opts[3], len(s.asp))
		for _, e := range s.asp {
			fmt.Fprintf(&sb, " %d %d", e.mode, e.asn)
		}
		fmt.Fprintf(&sb, " %d %d %d %d", c15B(s.medEq != 0), s.medEq, c15B(s.lpEq != 0), s.lpEq)
	}
	return sb.String()
}

func c15ParsePol(f []string) (string, c15Pol) {
	n := func(i int) int { v := 0; fmt.Sscan(f[i], &v); return v }
	opt := func(i int) *uint32 {
		if n(i) == 1 {
			v := uint32(n(i + 1))
			return &v
		}
		return nil
	}
	p := c15Pol{dflt: n(2) == 1}
	i := 4
	for k := n(3); k > 0; k-- {
		s := c15Stmt{}
		s.hasComm, s.opts[0] = n(i) == 1, n(i+1)
		i += 2
		for j := n(i); j > 0; j-- {
			i++
			s.comms = append(s.comms, uint32(n(i)))
		}
		i++
		s.anyPeer, s.opts[1] = n(i) == 1, n(i+1)
		i += 2
		for j := n(i); j > 0; j-- {
			i++
			s.peers = append(s.peers, n(i))
		}
		i++
		s.med, s.lp, s.add, s.route = opt(i), opt(i+2), opt(i+4), n(i+6)
		if n(i+7) == 1 {
			s.lenOp, s.lenN = n(i+8)+1, n(i+9)
		}
		i += 10
		s.hasPfx, s.opts[2] = n(i) == 1, n(i+1)
		i += 2
		for j := n(i); j > 0; j-- {
			s.pfx = append(s.pfx, c15PfxEnt{base: uint32(n(i + 1)), plen: n(i + 2), lo: n(i + 3), hi: n(i + 4)})
			i += 4
		}
		i++
		s.hasAsp, s.opts[3] = n(i) == 1, n(i+1)
		i += 2
		for j := n(i); j > 0; j-- {
			s.asp = append(s.asp, c15AspEnt{mode: n(i + 1), asn: uint32(n(i + 2))})
			i += 2
		}
		i++
		if n(i) == 1 {
			s.medEq = uint32(n(i + 1))
		}
		if n(i+2) == 1 {
			s.lpEq = uint32(n(i + 3))
		}
		i += 4
		p.stmts = append(p.stmts, s)
	}
	return f[1], p
}

type c15Held struct {
	marker  uint32
	med, lp *uint32
	comms   []uint32
	digest  string
}

func c15ShowAttrs(marker uint32, med, lp *uint32, comms []uint32) string {
	o := func(p *uint32) string {
		if p == nil {
			return "-"
		}
		return fmt.Sprint(*p)
	}
	cs := make([]string, len(comms))
	for i, c := range comms {
		cs[i] = fmt.Sprint(c)
	}
	return fmt.Sprintf("%d/%s/%s/%s", marker, o(med), o(lp), strings.Join(cs, "."))
}

func c15Attrs(attrs []bgp.PathAttributeInterface) (marker uint32, med, lp *uint32, comms []uint32) {
	for _, a := range attrs {
		switch v := a.(type) {
		case *bgp.PathAttributeCommunities:
			for _, c := range v.Value {
				if c>>16 == 0xfffe {
					marker = c & 0xffff
				} else {
					comms = append(comms, c)
				}
			}
		case *bgp.PathAttributeMultiExitDisc:
			x := v.Value
			med = &x
		case *bgp.PathAttributeLocalPref:
			x := v.Value
			lp = &x
		}
	}
	return
}

type c15World struct {
	t     *testing.T
	w     *vWorld
	views []map[int]c15Held // per peer: prefix index -> what the far end holds
	gen   int
	name  [2]string // policy currently assigned per direction (0 import, 1 export)
	cur   [2]c15Pol
	r     *vRand // choices of the in-place set edits (nil in replays)
}

var c15Dirs = [2]string{"imp", "exp"}

func c15PfxIdx(s string) int {
	for i, p := range c01Prefixes {
		if p == s {
			return i
		}
	}
	return -1
}

func newC15World(t *testing.T) *c15World {
	w := newVWorld(t, 65000, "10.255.0.1")
	// The property is stated under C03's hypothesis "MED comparable throughout": without it the
	// best path depends on the arrival order (no deterministic-med), so a replay of the
	// Adj-RIB-In in map order may legitimately reorder the Loc-RIB. always-compare-med makes
	// every pair comparable (the model is told with `opts 1 0 0`).
	table.SelectionOptions.AlwaysCompareMed = true
	return &c15World{t: t, w: w, cur: [2]c15Pol{{dflt: true}, {dflt: true}}}
}

func (cw *c15World) addPeer(sp vwPeerSpec) {
	cw.w.addPeer(sp)
	cw.views = append(cw.views, map[int]c15Held{})
}

// --- real policy configuration through the API -------------------------------------------

// setMembers renders the four defined sets of one statement from the logical member lists.
// kind: 0 community, 1 neighbor, 2 prefix, 3 as-path.
func (cw *c15World) definedSet(tag string, i, kind int, s c15Stmt) *api.DefinedSet {
	switch kind {
	case 0:
		ds := &api.DefinedSet{DefinedType: api.DefinedType_DEFINED_TYPE_COMMUNITY, Name: fmt.Sprintf("%s-c%d", tag, i)}
		for _, c := range s.comms {
			ds.List = append(ds.List, fmt.Sprintf("^%d:%d$", c>>16, c&0xffff))
		}
		return ds
	case 1:
		ds := &api.DefinedSet{DefinedType: api.DefinedType_DEFINED_TYPE_NEIGHBOR, Name: fmt.Sprintf("%s-n%d", tag, i)}
		for _, x := range s.peers {
			ds.List = append(ds.List, cw.w.peers[x].spec.addr.String()+"/32")
		}
		return ds
	case 2:
		ds := &api.DefinedSet{DefinedType: api.DefinedType_DEFINED_TYPE_PREFIX, Name: fmt.Sprintf("%s-p%d", tag, i)}
		for _, e := range s.pfx {
			ds.Prefixes = append(ds.Prefixes, &api.Prefix{IpPrefix: e.cidr(), MaskLengthMin: uint32(e.lo), MaskLengthMax: uint32(e.hi)})
		}
		return ds
	default:
		ds := &api.DefinedSet{DefinedType: api.DefinedType_DEFINED_TYPE_AS_PATH, Name: fmt.Sprintf("%s-a%d", tag, i)}
		for _, e := range s.asp {
			ds.List = append(ds.List, e.str())
		}
		return ds
	}
}

func c15HasSet(s c15Stmt, kind int) bool {
	switch kind {
	case 0:
		return s.hasComm
	case 1:
		return !s.anyPeer
	case 2:
		return s.hasPfx
	}
	return s.hasAsp
}

func (cw *c15World) apiPolicy(name string, tag string, pol c15Pol) (*api.Policy, []*api.DefinedSet) {
	var sets []*api.DefinedSet
	p := &api.Policy{Name: name}
	for i, s := range pol.stmts {
		st := &api.Statement{Name: fmt.Sprintf("%s-s%d", tag, i), Conditions: &api.Conditions{}, Actions: &api.Actions{}}
		for kind := 0; kind < 4; kind++ {
			if !c15HasSet(s, kind) {
				continue
			}
			ds := cw.definedSet(tag, i, kind, s)
			sets = append(sets, ds)
			ms := &api.MatchSet{Name: ds.Name, Type: []api.MatchSet_Type{api.MatchSet_TYPE_ANY, api.MatchSet_TYPE_ALL, api.MatchSet_TYPE_INVERT}[s.opts[kind]]}
			switch kind {
			case 0:
				st.Conditions.CommunitySet = ms
			case 1:
				st.Conditions.NeighborSet = ms
			case 2:
				st.Conditions.PrefixSet = ms
			default:
				st.Conditions.AsPathSet = ms
			}
		}
		if s.lenOp != 0 {
			st.Conditions.AsPathLength = &api.AsPathLength{Type: []api.Comparison{api.Comparison_COMPARISON_EQ, api.Comparison_COMPARISON_GE, api.Comparison_COMPARISON_LE}[s.lenOp-1], Length: uint32(s.lenN)}
		}
		if s.medEq != 0 {
			st.Conditions.MedEq = &api.MedEq{Value: s.medEq}
		}
		if s.lpEq != 0 {
			st.Conditions.LocalPrefEq = &api.LocalPrefEq{Value: s.lpEq}
		}
		if s.med != nil {
			st.Actions.Med = &api.MedAction{Type: api.MedAction_TYPE_REPLACE, Value: int64(*s.med)}
		}
		if s.lp != nil {
			st.Actions.LocalPref = &api.LocalPrefAction{Value: *s.lp}
		}
		if s.add != nil {
			st.Actions.Community = &api.CommunityAction{Type: api.CommunityAction_TYPE_ADD,
				Communities: []string{fmt.Sprintf("%d:%d", *s.add>>16, *s.add&0xffff)}}
		}
		switch s.route {
		case 1:
			st.Actions.RouteAction = api.RouteAction_ROUTE_ACTION_ACCEPT
		case 2:
			st.Actions.RouteAction = api.RouteAction_ROUTE_ACTION_REJECT
		}
		p.Statements = append(p.Statements, st)
	}
	return p, sets
}

func c15Action(accept bool) api.RouteAction {
	if accept {
		return api.RouteAction_ROUTE_ACTION_ACCEPT
	}
	return api.RouteAction_ROUTE_ACTION_REJECT
}

func c15Direction(d int) api.PolicyDirection {
	if d == 0 {
		return api.PolicyDirection_POLICY_DIRECTION_IMPORT
	}
	return api.PolicyDirection_POLICY_DIRECTION_EXPORT
}

// members of a defined set as comparable strings (List for the list types, "cidr lo..hi" for
// prefixes), in configuration order
func c15Members(ds *api.DefinedSet) []string {
	if ds.DefinedType == api.DefinedType_DEFINED_TYPE_PREFIX {
		var l []string
		for _, p := range ds.Prefixes {
			l = append(l, fmt.Sprintf("%s %d..%d", p.IpPrefix, p.MaskLengthMin, p.MaskLengthMax))
		}
		return l
	}
	return ds.List
}

// subset of ds holding only the members for which keep(member) is true
func c15Subset(ds *api.DefinedSet, keep func(string) bool) *api.DefinedSet {
	out := &api.DefinedSet{DefinedType: ds.DefinedType, Name: ds.Name}
	for k, m := range c15Members(ds) {
		if !keep(m) {
			continue
		}
		if ds.DefinedType == api.DefinedType_DEFINED_TYPE_PREFIX {
			out.Prefixes = append(out.Prefixes, ds.Prefixes[k])
		} else {
			out.List = append(out.List, ds.List[k])
		}
	}
	return out
}

// install makes `pol` the policy of direction d (0 import, 1 export).
//
//	mode 0: new defined sets + new policy (AddDefinedSet, AddPolicy), then SetPolicyAssignment
//	mode 1: SetPolicies — every definition replaced, the assignment keeps its policy name
//	        (the default action cannot change this way; the caller keeps it)
//	mode 2: only the members of defined sets differ: every changed set is edited IN PLACE —
//	        either AddDefinedSet{Replace} with the new member list, or AddDefinedSet (append)
//	        of the added members followed by DeleteDefinedSet{All: false} (remove) of the
//	        dropped ones; `how` (edit >= 0) picks per set: bit k of edit = replace
func (cw *c15World) install(d int, pol c15Pol, mode int) string {
	ctx := context.Background()
	s := cw.w.s
	must := func(err error, what string) {
		if err != nil {
			cw.t.Fatalf("%s: %v", what, err)
		}
	}
	cw.gen++
	switch mode {
	case 2:
		tag := cw.name[d]
		_, oldSets := cw.apiPolicy(tag, tag, cw.cur[d])
		_, newSets := cw.apiPolicy(tag, tag, pol)
		if len(oldSets) != len(newSets) {
			cw.t.Fatalf("in-place edit with different statement shapes")
		}
		var hows []string
		for k, ns := range newSets {
			os := oldSets[k]
			oldM, newM := map[string]bool{}, map[string]bool{}
			for _, m := range c15Members(os) {
				oldM[m] = true
			}
			for _, m := range c15Members(ns) {
				newM[m] = true
			}
			added := c15Subset(ns, func(m string) bool { return !oldM[m] })
			removed := c15Subset(os, func(m string) bool { return !newM[m] })
			if len(c15Members(added)) == 0 && len(c15Members(removed)) == 0 {
				continue
			}
			kind := strings.ToLower(strings.TrimPrefix(ns.DefinedType.String(), "DEFINED_TYPE_"))
			if cw.editReplace() {
				must(s.AddDefinedSet(ctx, &api.AddDefinedSetRequest{DefinedSet: ns, Replace: true}), "AddDefinedSet replace")
				hows = append(hows, "edit-replace-"+kind)
				continue
			}
			if len(c15Members(added)) > 0 {
				must(s.AddDefinedSet(ctx, &api.AddDefinedSetRequest{DefinedSet: added}), "AddDefinedSet append")
				hows = append(hows, "edit-append-"+kind)
			}
			if len(c15Members(removed)) > 0 {
				must(s.DeleteDefinedSet(ctx, &api.DeleteDefinedSetRequest{DefinedSet: removed}), "DeleteDefinedSet remove")
				hows = append(hows, "edit-remove-"+kind)
			}
		}
		cw.cur[d] = pol
		if len(hows) == 0 {
			return "edit-none"
		}
		return strings.Join(hows, ",")
	case 1:
		if cw.name[d] == "" {
			return cw.install(d, pol, 0)
		}
		// the whole configuration is replaced: both directions must be given
		req := &api.SetPoliciesRequest{}
		for k := 0; k < 2; k++ {
			if cw.name[k] == "" {
				continue
			}
			q := cw.cur[k]
			if k == d {
				q = pol
			}
			p, sets := cw.apiPolicy(cw.name[k], cw.name[k], q)
			req.Policies = append(req.Policies, p)
			req.DefinedSets = append(req.DefinedSets, sets...)
		}
		must(s.SetPolicies(ctx, req), "SetPolicies")
		cw.cur[d] = pol
		return "set-policies"
	default:
		name := fmt.Sprintf("%s%d", c15Dirs[d], cw.gen)
		p, sets := cw.apiPolicy(name, name, pol)
		for _, ds := range sets {
			must(s.AddDefinedSet(ctx, &api.AddDefinedSetRequest{DefinedSet: ds}), "AddDefinedSet")
		}
		must(s.AddPolicy(ctx, &api.AddPolicyRequest{Policy: p}), "AddPolicy")
		must(s.SetPolicyAssignment(ctx, &api.SetPolicyAssignmentRequest{Assignment: &api.PolicyAssignment{
			Name: table.GLOBAL_RIB_NAME, Direction: c15Direction(d), Policies: []*api.Policy{{Name: name}}, DefaultAction: c15Action(pol.dflt)}}), "SetPolicyAssignment")
		cw.name[d] = name
		cw.cur[d] = pol
		return "set-assignment"
	}
}

// checkSets: every defined set of the current policy of direction d, as the server lists it,
// holds exactly the configured members (model-independent; covers every in-place edit).
func (cw *c15World) checkSets(d int, fail func(class string, detail any)) {
	if cw.name[d] == "" {
		return
	}
	_, sets := cw.apiPolicy(cw.name[d], cw.name[d], cw.cur[d])
	for _, want := range sets {
		var have []string
		err := cw.w.s.ListDefinedSet(context.Background(), &api.ListDefinedSetRequest{DefinedType: want.DefinedType, Name: want.Name}, func(ds *api.DefinedSet) {
			have = append(have, c15Members(ds)...)
		})
		w := append([]string{}, c15Members(want)...)
		sort.Strings(have)
		sort.Strings(w)
		if err != nil || strings.Join(have, "|") != strings.Join(w, "|") {
			kind := strings.ToLower(strings.TrimPrefix(want.DefinedType.String(), "DEFINED_TYPE_"))
			fail("defined-set!=configured-members:"+kind, map[string]any{"set": want.Name, "listed": have, "configured": w, "err": fmt.Sprint(err)})
		}
	}
}

// editReplace: replace the set (true) or append + remove members (false). Replays (no PRNG)
// always append + remove.
func (cw *c15World) editReplace() bool { return cw.r != nil && cw.r.chance(25) }

// c15SameButSets: q differs from p at most in the members of the defined sets its statements
// refer to (every set exists in both and stays non-empty).
func c15SameButSets(p, q c15Pol) bool {
	if p.dflt != q.dflt || len(p.stmts) != len(q.stmts) {
		return false
	}
	eq := func(a, b *uint32) bool { return (a == nil) == (b == nil) && (a == nil || *a == *b) }
	for i := range p.stmts {
		a, b := p.stmts[i], q.stmts[i]
		if a.route != b.route || a.lenOp != b.lenOp || a.lenN != b.lenN || a.medEq != b.medEq || a.lpEq != b.lpEq || !eq(a.med, b.med) || !eq(a.lp, b.lp) || !eq(a.add, b.add) {
			return false
		}
		for kind := 0; kind < 4; kind++ {
			if c15HasSet(a, kind) != c15HasSet(b, kind) {
				return false
			}
		}
		if a.opts != b.opts {
			return false
		}
	}
	return true
}

// --- generators ----------------------------------------------------------------------------

var c15Tags = []uint32{0xfffd0001, 0xfffd0002, 0xfffd0003} // 65533:k on received routes

// prefix-set entries over the three destinations 10.1.0.0/24, 10.2.0.0/24, 10.3.0.0/16; several
// entries share one prefix key with different mask-length ranges
var c15PfxPool = []c15PfxEnt{
	{0x0a000000, 8, 16, 16}, {0x0a000000, 8, 24, 24}, {0x0a000000, 8, 17, 23},
	{0x0a010000, 16, 24, 24}, {0x0a010000, 16, 16, 20},
	{0x0a020000, 24, 24, 24}, {0x0a020000, 23, 24, 32},
	{0x0a030000, 16, 16, 16}, {0x0a030000, 16, 17, 24},
	{0x0a020000, 15, 16, 16}, {0x0a020000, 15, 24, 24},
}

var c15AspAsns = []uint32{65001, 65002, 65003, 100, 200, 300, 65000}

func c15GenPfxSet(r *vRand) []c15PfxEnt {
	var l []c15PfxEnt
	for _, k := range r.perm(len(c15PfxPool))[:1+r.intn(3)] {
		l = append(l, c15PfxPool[k])
	}
	return l
}

func c15GenAspSet(r *vRand) []c15AspEnt {
	var l []c15AspEnt
	seen := map[c15AspEnt]bool{}
	for n := 1 + r.intn(2); n > 0; n-- {
		e := c15AspEnt{mode: r.pick(0, 0, 1, 2, 3), asn: c15AspAsns[r.intn(len(c15AspAsns))]}
		if !seen[e] {
			seen[e] = true
			l = append(l, e)
		}
	}
	return l
}

func c15GenStmt(r *vRand, d int, nPeers int) c15Stmt {
	s := c15Stmt{anyPeer: r.chance(35)}
	switch x := r.intn(100); {
	case x < 25:
	case x < 75:
		s.hasComm, s.comms = true, []uint32{c15Tags[r.intn(len(c15Tags))]}
	case x < 90:
		p := r.perm(len(c15Tags))
		s.hasComm, s.comms = true, []uint32{c15Tags[p[0]], c15Tags[p[1]]}
	default:
		// a community an earlier statement of the same direction may have added
		s.hasComm, s.comms = true, []uint32{uint32(0xfffb0001+d*0x10000) + uint32(r.intn(2))}
	}
	// match options: any / all / invert (neighbor and prefix sets: any / invert)
	s.opts = [4]int{r.pick(0, 0, 0, 0, 1, 2, 2), r.pick(0, 0, 0, 0, 2), r.pick(0, 0, 0, 2), r.pick(0, 0, 0, 1, 2, 2)}
	if !s.anyPeer {
		for _, i := range r.perm(nPeers)[:1+r.intn(nPeers-1)] {
			s.peers = append(s.peers, i)
		}
		sort.Ints(s.peers)
	}
	if r.chance(25) {
		// a condition on an attribute UpdatePathAttrs rewrites toward eBGP peers
		s.lenOp, s.lenN = 1+r.intn(3), 1+r.intn(3)
		if r.chance(50) {
			s.hasComm, s.comms = false, nil
		}
	}
	if r.chance(15) {
		// MED is not sent to eBGP peers: med-eq sees it in the Loc-RIB path, not as advertised
		s.medEq = uint32(r.pick(10, 20, 5, 50))
		if r.chance(50) {
			s.hasComm, s.comms = false, nil
		}
	}
	if r.chance(10) {
		s.lpEq = uint32(r.pick(100, 100, 200, 50, 300))
	}
	if r.chance(35) {
		s.hasPfx, s.pfx = true, c15GenPfxSet(r)
		if r.chance(50) {
			s.hasComm, s.comms = false, nil
		}
	}
	if r.chance(20) {
		s.hasAsp, s.asp = true, c15GenAspSet(r)
	}
	s.route = r.pick(0, 0, 0, 0, 1, 1, 2, 2, 2)
	if r.chance(20) {
		v := uint32(r.pick(0, 5, 50))
		s.med = &v
	}
	if r.chance(20) {
		v := uint32(r.pick(50, 100, 300))
		s.lp = &v
	}
	if r.chance(30) {
		v := uint32(0xfffb0001+d*0x10000) + uint32(r.intn(2)) // 65531:x import, 65532:x export
		s.add = &v
	}
	return s
}

func c15GenPol(r *vRand, d int, nPeers int) c15Pol {
	p := c15Pol{dflt: !r.chance(12)}
	for n := r.pick(0, 1, 1, 2, 2, 2, 3); n > 0; n-- {
		p.stmts = append(p.stmts, c15GenStmt(r, d, nPeers))
	}
	return p
}

func c15CloneStmt(s c15Stmt) c15Stmt {
	s.comms = append([]uint32{}, s.comms...)
	s.peers = append([]int{}, s.peers...)
	s.pfx = append([]c15PfxEnt{}, s.pfx...)
	s.asp = append([]c15AspEnt{}, s.asp...)
	return s
}

// c15EditSet changes the members of one defined set of statement s: add a member, drop one
// (the LAST one included), both, or drop every member at once; an empty set is usually re-filled.
// Returns false when s has no set.
func c15EditSet(r *vRand, d int, nPeers int, s *c15Stmt) bool {
	var kinds []int
	for kind := 0; kind < 4; kind++ {
		if c15HasSet(*s, kind) {
			kinds = append(kinds, kind)
		}
	}
	if len(kinds) == 0 {
		return false
	}
	// prefix-sets are edited more often: their members are not independent (shared keys)
	kind := kinds[r.intn(len(kinds))]
	if s.hasPfx && r.chance(50) {
		kind = 2
	}
	add, drop := r.chance(70), r.chance(40)
	size := []int{len(s.comms), len(s.peers), len(s.pfx), len(s.asp)}[kind]
	// Not generated: emptying a prefix-set matched with INVERT. PrefixCondition.Evaluate answers
	// false when the set's address family differs from the route's, and an empty set has the
	// family of its last member if it was emptied by removals but none if it was created or
	// replaced empty — so in-place emptying and a fresh configuration disagree (reported as a
	// finding; C10's model records the family rule as existing behaviour).
	noEmpty := kind == 2 && s.opts[2] == 2
	switch {
	case size == 0:
		add, drop = r.chance(80), false
	case noEmpty && size == 1:
		drop = false
	case !noEmpty && r.chance(18):
		// empty the set
		switch kind {
		case 0:
			s.comms = nil
		case 1:
			s.peers = nil
		case 2:
			s.pfx = nil
		default:
			s.asp = nil
		}
		return true
	case size == 1 && drop:
		// removing the last member leaves an empty set: not together with an append
		add = false
		drop = r.chance(50)
	}
	switch kind {
	case 0:
		if add {
			c := c15Tags[r.intn(len(c15Tags))]
			dup := false
			for _, x := range s.comms {
				dup = dup || x == c
			}
			if !dup {
				s.comms = append(s.comms, c)
			}
		}
		if drop && len(s.comms) > 0 {
			k := r.intn(len(s.comms))
			s.comms = append(s.comms[:k:k], s.comms[k+1:]...)
		}
	case 1:
		if add {
			c := r.intn(nPeers)
			dup := false
			for _, x := range s.peers {
				dup = dup || x == c
			}
			if !dup {
				s.peers = append(s.peers, c)
			}
		}
		if drop && len(s.peers) > 0 {
			k := r.intn(len(s.peers))
			s.peers = append(s.peers[:k:k], s.peers[k+1:]...)
		}
	case 2:
		if add {
			c := c15PfxPool[r.intn(len(c15PfxPool))]
			if r.chance(60) && len(s.pfx) > 0 {
				// another range for a prefix the set already holds
				have := s.pfx[r.intn(len(s.pfx))]
				for _, p := range c15PfxPool {
					if p.base == have.base && p.plen == have.plen && p != have {
						c = p
					}
				}
			}
			dup := false
			for _, x := range s.pfx {
				dup = dup || x == c
			}
			if !dup {
				s.pfx = append(s.pfx, c)
			}
		}
		if drop && len(s.pfx) > 0 {
			k := r.intn(len(s.pfx))
			s.pfx = append(s.pfx[:k:k], s.pfx[k+1:]...)
		}
	default:
		if add {
			c := c15AspEnt{mode: r.pick(0, 0, 1, 2, 3), asn: c15AspAsns[r.intn(len(c15AspAsns))]}
			dup := false
			for _, x := range s.asp {
				dup = dup || x == c
			}
			if !dup {
				s.asp = append(s.asp, c)
			}
		}
		if drop && len(s.asp) > 0 {
			k := r.intn(len(s.asp))
			s.asp = append(s.asp[:k:k], s.asp[k+1:]...)
		}
	}
	return true
}

// c15Mutate derives the next policy from the current one (small changes are the common case
// in operation and the ones most likely to leave something behind).
func c15Mutate(r *vRand, d int, nPeers int, p c15Pol) c15Pol {
	q := c15Pol{dflt: p.dflt}
	for _, s := range p.stmts {
		q.stmts = append(q.stmts, c15CloneStmt(s))
	}
	switch x := r.intn(100); {
	case x < 20 || len(q.stmts) == 0:
		return c15GenPol(r, d, nPeers)
	case x < 27:
		i := r.intn(len(q.stmts))
		q.stmts[i].route = r.pick(0, 1, 2)
	case x < 67:
		// members of defined sets only (one to three edits)
		done := 0
		for n, tries := 1+r.intn(3), 0; n > 0 && tries < 20; tries++ {
			i := r.intn(len(q.stmts))
			before := (&c15Pol{stmts: []c15Stmt{q.stmts[i]}}).line("x")
			if c15EditSet(r, d, nPeers, &q.stmts[i]) && (&c15Pol{stmts: []c15Stmt{q.stmts[i]}}).line("x") != before {
				n--
				done++
			}
		}
		if done == 0 {
			q.stmts = append([]c15Stmt{c15GenStmt(r, d, nPeers)}, q.stmts...)
		}
	case x < 70:
		q.stmts = append(q.stmts[:0:0], q.stmts[1:]...)
	case x < 80:
		q.stmts = append([]c15Stmt{c15GenStmt(r, d, nPeers)}, q.stmts...)
	case x < 84:
		q.dflt = !q.dflt
	default:
		i := r.intn(len(q.stmts))
		n := c15GenStmt(r, d, nPeers)
		q.stmts[i].med, q.stmts[i].lp, q.stmts[i].add = n.med, n.lp, n.add
	}
	return q
}

// --- plumbing: emit / apply ------------------------------------------------------------------

// apply plays sendMessageloop for `paths` (real packer + codec) and applies the result to the
// far end's view. Returns the number of UPDATE messages and of withdrawn NLRIs.
func (cw *c15World) apply(i int, paths []*table.Path) (nMsg, nWd int) {
	vp := cw.w.peers[i]
	if !vp.up || len(paths) == 0 {
		return
	}
	f := vp.p.fsm
	opt := &bgp.MarshallingOption{AddPath: f.familyMap.Load().(map[bgp.Family]bgp.BGPAddPathMode), ExtendedMessage: f.extendedMessage.Load()}
	for _, msg := range table.CreateUpdateMsgFromPaths(paths, opt) {
		b, err := msg.Serialize(opt)
		if err != nil {
			continue
		}
		pm, err := bgp.ParseBGPMessage(b, &bgp.MarshallingOption{ExtendedMessage: opt.ExtendedMessage})
		if err != nil {
			cw.t.Fatalf("far end cannot parse what was sent: %v", err)
		}
		nMsg++
		u := pm.Body.(*bgp.BGPUpdate)
		for _, wd := range u.WithdrawnRoutes {
			delete(cw.views[i], c15PfxIdx(wd.NLRI.String()))
			nWd++
		}
		if len(u.NLRI) > 0 {
			h := c15Held{digest: vwDigest(u.PathAttributes)}
			h.marker, h.med, h.lp, h.comms = c15Attrs(u.PathAttributes)
			for _, n := range u.NLRI {
				cw.views[i][c15PfxIdx(n.NLRI.String())] = h
			}
		}
	}
	return
}

func (cw *c15World) flushAll() {
	for i, vp := range cw.w.peers {
		cw.apply(i, cw.w.drain(vp))
	}
}

func (cw *c15World) viewString(i int) string {
	keys := []int{}
	for k := range cw.views[i] {
		keys = append(keys, k)
	}
	sort.Ints(keys)
	var sb strings.Builder
	for _, k := range keys {
		h := cw.views[i][k]
		fmt.Fprintf(&sb, " %d=%s", k, c15ShowAttrs(h.marker, h.med, h.lp, h.comms))
	}
	return sb.String()
}

func (cw *c15World) digestString(i int) string {
	keys := []int{}
	for k := range cw.views[i] {
		keys = append(keys, k)
	}
	sort.Ints(keys)
	var sb strings.Builder
	for _, k := range keys {
		fmt.Fprintf(&sb, " %d=%s", k, cw.views[i][k].digest)
	}
	return sb.String()
}

func (cw *c15World) sentString(i int) string {
	keys := []int{}
	cw.w.peers[i].p.sentPaths.Range(func(k, v any) bool {
		if len(v.(pathIDSet)) > 0 {
			keys = append(keys, c15PfxIdx(k.(table.PathDestLocalKey).Prefix))
		}
		return true
	})
	sort.Ints(keys)
	var sb strings.Builder
	for _, k := range keys {
		fmt.Fprintf(&sb, " %d", k)
	}
	return sb.String()
}

func (cw *c15World) ribPaths(k int) []*table.Path {
	w := cw.w
	if d := w.s.globalRib.GetDestination(table.NewPath(bgp.RF_IPv4_UC, nil, bgp.PathNLRI{NLRI: c01Nlri(k)}, true, nil, w.now(), false)); d != nil {
		return d.GetAllKnownPathList()
	}
	return nil
}

func (cw *c15World) ribString(k int, digest bool) string {
	var sb strings.Builder
	for _, p := range cw.ribPaths(k) {
		if digest {
			fmt.Fprintf(&sb, " %s@%s", vwDigest(p.GetPathAttrs()), p.GetSource().Address)
		} else {
			m, med, lp, comms := c15Attrs(p.GetPathAttrs())
			fmt.Fprintf(&sb, " %s", c15ShowAttrs(m, med, lp, comms))
		}
	}
	return sb.String()
}

func (cw *c15World) adjString(i int) string {
	vp := cw.w.peers[i]
	adj := []string{}
	for _, p := range vp.p.adjRibIn.PathList([]bgp.Family{bgp.RF_IPv4_UC}, false) {
		tag := ""
		if p.IsRejected() {
			tag = "r"
		}
		adj = append(adj, fmt.Sprintf("%d#%d=%d%s", c15PfxIdx(p.GetNlri().String()), p.RemoteID(), vwMarker(p.GetPathAttrs()), tag))
	}
	sort.Strings(adj)
	s := ""
	for _, a := range adj {
		s += " " + a
	}
	return fmt.Sprintf("adjin%s | count %d accepted %d", s, vp.p.adjRibIn.Count([]bgp.Family{bgp.RF_IPv4_UC}), vp.p.adjRibIn.Accepted([]bgp.Family{bgp.RF_IPv4_UC}))
}

// snapshot of everything the property speaks about
func (cw *c15World) snapshot() string {
	var sb strings.Builder
	for i, vp := range cw.w.peers {
		if vp.up {
			fmt.Fprintf(&sb, "view%d:%s\nsent%d:%s\n", i, cw.digestString(i), i, cw.sentString(i))
		}
	}
	for k := range c01Prefixes {
		fmt.Fprintf(&sb, "rib%d:%s\n", k, cw.ribString(k, true))
	}
	return sb.String()
}

// --- events ------------------------------------------------------------------------------------

type c15Event struct {
	kind string // up down ann wd
	peer int
	rt   *c01Route
	pfx  int
	pid  int // path-id of a withdrawal (ADD-PATH receive)
}

func (e c15Event) line() string {
	switch e.kind {
	case "ann":
		return fmt.Sprintf("ann %d %s", e.peer, e.rt.line())
	case "wd":
		return fmt.Sprintf("wd %d %d %d", e.peer, e.pfx, e.pid)
	}
	return fmt.Sprintf("%s %d", e.kind, e.peer)
}

func (cw *c15World) play(e c15Event) {
	w := cw.w
	vp := w.peers[e.peer]
	switch e.kind {
	case "up":
		w.sessionUp(vp, nil)
		cw.views[e.peer] = map[int]c15Held{}
	case "down":
		w.sessionDown(vp, fsmReadFailed)
		cw.views[e.peer] = map[int]c15Held{}
	case "ann":
		w.recv(vp, e.rt.msg(vp))
	case "wd":
		w.recv(vp, bgp.NewBGPUpdateMessage([]bgp.PathNLRI{{NLRI: c01Nlri(e.pfx), ID: uint32(e.pid)}}, nil, nil))
	}
}

// reset performs one reset operation given as a protocol line; returns per peer what it emitted.
func (cw *c15World) reset(f []string) {
	ctx := context.Background()
	w := cw.w
	n := func(i int) int { v := 0; fmt.Sscan(f[i], &v); return v }
	rp := func(addr string, dir api.ResetPeerRequest_Direction) {
		if err := w.s.ResetPeer(ctx, &api.ResetPeerRequest{Address: addr, Soft: true, Direction: dir}); err != nil {
			cw.t.Fatalf("ResetPeer: %v", err)
		}
	}
	addr := func() string { return w.peers[n(1)].spec.addr.String() }
	switch f[0] {
	case "softin":
		rp(addr(), api.ResetPeerRequest_DIRECTION_IN)
	case "softout":
		rp(addr(), api.ResetPeerRequest_DIRECTION_OUT)
	case "softboth":
		rp(addr(), api.ResetPeerRequest_DIRECTION_BOTH)
	case "softinall":
		rp("all", api.ResetPeerRequest_DIRECTION_IN)
	case "softoutall":
		rp("all", api.ResetPeerRequest_DIRECTION_OUT)
	case "softbothall":
		rp("all", api.ResetPeerRequest_DIRECTION_BOTH)
	case "refresh":
		if w.peers[n(1)].up {
			w.recv(w.peers[n(1)], bgp.NewBGPRouteRefreshMessage(bgp.AFI_IP, 0, bgp.SAFI_UNICAST))
		}
	default:
		cw.t.Fatalf("unknown reset op %v", f)
	}
}

// outTargets: the peers whose export side the op re-evaluates (-1: none, -2: all)
func c15OutTarget(f []string) int {
	n := func(i int) int { v := 0; fmt.Sscan(f[i], &v); return v }
	switch f[0] {
	case "softout", "softboth", "refresh":
		return n(1)
	case "softoutall", "softbothall":
		return -2
	}
	return -1
}

type c15Run struct {
	cw      *c15World
	o       *vOut
	history []string
	// synced[i]: the export policy has not changed since peer i's last table transfer / soft
	// reset out / route refresh, so its view must equal the fresh export at every check point
	synced map[int]bool
	// fuzzy[i]: a soft reset in of ALL peers ran while peer i was not synced. The replay visits
	// peers in Go map order; with an export policy change still pending the intermediate view
	// depends on that order (both outcomes satisfy the weak invariant of Props/C15 and the next
	// soft reset out makes them equal), so the view is not compared until peer i is synced again.
	fuzzy map[int]bool
	// noModel: an oracle-only run (concurrent rounds): the history is not sent to the model
	noModel bool
}

func (rn *c15Run) note(f string, a ...any) {
	s := fmt.Sprintf(f, a...)
	rn.history = append(rn.history, s)
	rn.o.op("%s", s)
	if rn.synced == nil {
		rn.synced = map[int]bool{}
		rn.fuzzy = map[int]bool{}
	}
	defer func() {
		for i := range rn.fuzzy {
			if rn.synced[i] {
				delete(rn.fuzzy, i)
			}
		}
	}()
	t := strings.Fields(s)
	n := func(i int) int { v := 0; fmt.Sscan(t[i], &v); return v }
	switch t[0] {
	case "up":
		rn.synced[n(1)] = true
	case "pol":
		if t[1] == "exp" {
			rn.synced = map[int]bool{}
		}
	case "softout", "softboth", "refresh":
		rn.synced[n(1)] = true
	case "softoutall", "softbothall":
		for i := range rn.cw.w.peers {
			rn.synced[i] = true
		}
	case "softinall":
		for i := range rn.cw.w.peers {
			if !rn.synced[i] {
				rn.fuzzy[i] = true
			}
		}
	}
}

func (rn *c15Run) hist() []string { return append([]string{}, rn.history...) }

// check: flush everything and compare with the model
func (rn *c15Run) check() {
	cw, o := rn.cw, rn.o
	cw.flushAll()
	for i, vp := range cw.w.peers {
		if vp.up && !rn.fuzzy[i] {
			o.ask("view"+cw.viewString(i), "view %d", i)
			o.ask("sent"+cw.sentString(i), "sent %d", i)
		} else if vp.up {
			o.stat("view_not_compared_order_dependent", 1)
		}
		o.ask(cw.adjString(i), "adjin %d", i)
	}
	for k := range c01Prefixes {
		o.ask("rib"+cw.ribString(k, false), "rib %d", k)
	}
	for i, vp := range cw.w.peers {
		if vp.up && rn.synced[i] {
			rn.freshExport(i, "check")
			o.stat("synced_checks", 1)
		}
	}
}

// freshExport: view of peer i == real filterpath of every current best path (digest level)
func (rn *c15Run) freshExport(i int, after string) {
	cw := rn.cw
	w := cw.w
	vp := w.peers[i]
	if !vp.up {
		return
	}
	for k := range c01Prefixes {
		var best *table.Path
		for _, p := range w.s.globalRib.GetBestPathList(table.GLOBAL_RIB_NAME, 0, []bgp.Family{bgp.RF_IPv4_UC}) {
			if p.GetNlri().String() == c01Prefixes[k] {
				best = p
			}
		}
		want := ""
		if best != nil {
			if exp := w.s.filterpath(vp.p, best, nil); exp != nil && !exp.IsWithdraw {
				want = vwDigest(exp.GetPathAttrs())
			}
		}
		have := cw.views[i][k].digest
		if have != want {
			cls := "stale-after-reset-out"
			switch {
			case want == "":
				cls = "not-withdrawn-after-reset-out"
			case have == "":
				cls = "missing-after-reset-out"
			}
			if after == "check" {
				cls = strings.Replace(cls, "after-reset-out", "under-constant-policy", 1)
			}
			rn.o.fail(fmt.Sprintf("%s:%s", cls, strings.Fields(after)[0]), map[string]any{"peer": i, "prefix": k, "holds": have, "fresh_export": want, "after": after, "history": rn.hist()})
		}
	}
	rn.adjOutObservers(i, after)
}

type c15AdjOutEntry struct {
	digest   string
	filtered bool
}

// adjOut reads the peer's Adj-RIB-Out through the management API (ListPath ADJ_OUT).
func (cw *c15World) adjOut(i int, enableFiltered bool) map[int]c15AdjOutEntry {
	out := map[int]c15AdjOutEntry{}
	err := cw.w.s.ListPath(apiutil.ListPathRequest{TableType: api.TableType_TABLE_TYPE_ADJ_OUT, Family: bgp.RF_IPv4_UC,
		Name: cw.w.peers[i].spec.addr.String(), EnableFiltered: enableFiltered}, func(prefix bgp.NLRI, paths []*apiutil.Path) {
		for _, p := range paths {
			out[c15PfxIdx(prefix.String())] = c15AdjOutEntry{digest: vwDigest(p.Attrs), filtered: p.Filtered}
		}
	})
	if err != nil {
		cw.t.Fatalf("ListPath adj-out: %v", err)
	}
	return out
}

// adjOutObservers: the THREE observers of a peer's Adj-RIB-Out agree — what the peer holds (the
// UPDATEs it was sent), ListPath ADJ_OUT, and ListPath ADJ_OUT with EnableFiltered (every best
// path that passes loop prevention, flagged `filtered` iff the current export policy rejects it
// AS IT IS ADVERTISED). Called when the peer is in sync with the export policy (after a reset
// out / refresh / initial transfer, and while the policy has not changed since).
func (rn *c15Run) adjOutObservers(i int, after string) {
	cw := rn.cw
	if !cw.w.peers[i].up {
		return
	}
	plain, filt := cw.adjOut(i, false), cw.adjOut(i, true)
	op := strings.Fields(after)[0]
	var ask []string
	for k := range c01Prefixes {
		wire, held := cw.views[i][k]
		pl, inPlain := plain[k]
		fl, inFilt := filt[k]
		det := func() map[string]any {
			return map[string]any{"peer": i, "prefix": k, "wire_holds": held, "adj_out_lists": inPlain, "adj_out_filtered_lists": inFilt,
				"filtered_flag": fl.filtered, "after": after, "history": rn.hist()}
		}
		switch {
		case held != inPlain:
			rn.o.fail("adj-out-listing!=wire:"+op, det())
		case held && pl.digest != wire.digest:
			rn.o.fail("adj-out-listing-attributes!=wire:"+op, det())
		}
		switch {
		case held && (!inFilt || fl.filtered):
			rn.o.fail("adj-out-filtered-listing:advertised-route-missing-or-flagged:"+op, det())
		case !held && inFilt && !fl.filtered:
			rn.o.fail("adj-out-filtered-listing:withdrawn-route-not-flagged:"+op, det())
		}
		if inFilt {
			ask = append(ask, fmt.Sprintf("%d=%s", k, map[bool]string{true: "f", false: "a"}[fl.filtered]))
		}
		rn.o.stat("adjout_observer_checks", 1)
		if inFilt && fl.filtered {
			rn.o.stat("adjout_flagged_filtered", 1)
		}
	}
	a := "adjoutf"
	for _, x := range ask {
		a += " " + x
	}
	if !rn.noModel {
		rn.o.ask(a, "adjoutf %d", i)
	}
}

// doReset: one reset operation with its per-operation oracles.
func (rn *c15Run) doReset(line string, repeat bool) {
	cw, o := rn.cw, rn.o
	f := strings.Fields(line)
	cw.flushAll()
	// what the peers hold and what the Loc-RIB is before the operation (effect counters)
	prevViews := make([]map[int]string, len(cw.views))
	for i := range cw.views {
		prevViews[i] = map[int]string{}
		for k, h := range cw.views[i] {
			prevViews[i][k] = h.digest
		}
	}
	prevRib := ""
	for k := range c01Prefixes {
		prevRib += cw.ribString(k, true) + "|"
	}
	defer func() {
		for i, vp := range cw.w.peers {
			if !vp.up {
				continue
			}
			for k := range c01Prefixes {
				a, b := prevViews[i][k], cw.views[i][k].digest
				switch {
				case a == b && a == "":
					o.stat("effect_view_absent", 1)
				case a == b:
					o.stat("effect_view_same", 1)
				case b == "":
					o.stat("effect_view_withdrawn", 1)
				case a == "":
					o.stat("effect_view_new", 1)
				default:
					o.stat("effect_view_changed", 1)
				}
			}
		}
		rib := ""
		for k := range c01Prefixes {
			rib += cw.ribString(k, true) + "|"
		}
		if rib != prevRib {
			o.stat("effect_rib_changed", 1)
		} else {
			o.stat("effect_rib_same", 1)
		}
	}()
	cw.reset(f)
	rn.note("%s", line)
	o.stat("reset_"+f[0], 1)
	// what this one operation emitted, per peer
	for i, vp := range cw.w.peers {
		paths := cw.w.drain(vp)
		seen := map[string]bool{}
		pureOut := f[0] == "softout" || f[0] == "softoutall" || f[0] == "refresh"
		for _, p := range paths {
			k := p.GetNlri().String()
			if seen[k] && pureOut {
				o.fail("duplicate-in-one-reset:"+f[0], map[string]any{"peer": i, "prefix": k, "op": line, "history": rn.hist()})
			}
			seen[k] = true
			if p.IsWithdraw {
				if _, held := cw.views[i][c15PfxIdx(k)]; !held && vp.up && pureOut {
					o.fail("withdraw-of-unsent:"+f[0], map[string]any{"peer": i, "prefix": k, "op": line, "history": rn.hist()})
				}
				o.stat("reset_withdrawals", 1)
			} else {
				o.stat("reset_announcements", 1)
			}
		}
		cw.apply(i, paths)
	}
	// import side: after a soft reset in the Loc-RIB holds the import policy's image of the
	// replayed Adj-RIB-In(s) — every accepted path of every prefix, whatever else the prefix holds
	switch f[0] {
	case "softin", "softboth":
		t := 0
		fmt.Sscan(f[1], &t)
		rn.importOracle([]int{t}, line)
	case "softinall", "softbothall":
		all := make([]int, len(cw.w.peers))
		for i := range all {
			all[i] = i
		}
		rn.importOracle(all, line)
	}
	switch t := c15OutTarget(f); {
	case t >= 0:
		rn.freshExport(t, line)
	case t == -2:
		for i := range cw.w.peers {
			rn.freshExport(i, line)
		}
	}
	if !repeat {
		return
	}
	// idempotence: the same operation again
	before := cw.snapshot()
	cw.reset(f)
	rn.note("%s", line)
	nWd, nMsg := 0, 0
	for i, vp := range cw.w.peers {
		m, wd := cw.apply(i, cw.w.drain(vp))
		nMsg += m
		nWd += wd
	}
	o.stat("repeat_msgs", nMsg)
	if after := cw.snapshot(); after != before {
		o.fail("repeat-changes-state:"+f[0], map[string]any{"op": line, "before": before, "after": after, "history": rn.hist()})
	}
	if nWd > 0 {
		o.fail("repeat-withdraws:"+f[0], map[string]any{"op": line, "withdrawn": nWd, "history": rn.hist()})
	}
	if (f[0] == "softin" || f[0] == "softinall") && nMsg > 0 {
		o.fail("repeat-soft-in-sends:"+f[0], map[string]any{"op": line, "messages": nMsg, "history": rn.hist()})
	}
	o.stat("repeats", 1)
}

func c15Specs(r *vRand) []vwPeerSpec {
	nPeers := 3 + r.intn(3)
	kinds := []string{"ebgp", "ebgp", "ibgp", "ibgp", "rrc", "rrc"}
	ridPool := r.perm(8)
	var specs []vwPeerSpec
	for i := 0; i < nPeers; i++ {
		k := kinds[r.intn(len(kinds))]
		sp := vwPeerSpec{kind: k, as: 65000, rid: netip.AddrFrom4([4]byte{10, 0, 0, byte(1 + ridPool[i])}),
			addr: netip.AddrFrom4([4]byte{192, 168, 0, byte(1 + i)})}
		if k == "ebgp" {
			sp.as = uint32(65001 + r.intn(3))
			if r.chance(15) {
				sp.allowOwnAs = 1
			}
		}
		// ADD-PATH receive: this peer's Adj-RIB-In holds several paths per prefix
		sp.addPathRx = r.chance(35)
		if i > 0 && r.chance(10) {
			prev := specs[r.intn(i)]
			if prev.kind == k || (prev.kind != "ebgp" && k != "ebgp") {
				sp.rid, sp.as = prev.rid, prev.as
			}
		}
		specs = append(specs, sp)
	}
	return specs
}

// c15AddPathShape: a route of an ADD-PATH sender. ORIGIN follows the path-id, so that two routes
// of one neighbour never tie in the whole decision process (the hypothesis `distinct` of
// soft_in_equals_fresh; tied routes are ordered by arrival, which a replay does not reproduce),
// and loop-rejected entries (own AS in the AS_PATH beyond allow-own-as, own ORIGINATOR_ID) are
// frequent, so that Adj-RIB-In destinations mix rejected and accepted paths in both orders.
func c15AddPathShape(r *vRand, cw *c15World, vp *vwPeer, rt *c01Route) {
	if !vp.spec.addPathRx {
		rt.pathID = 0
		return
	}
	rt.origin = uint8(rt.pathID)
	if r.chance(30) {
		if vp.spec.kind == "ebgp" {
			own := []uint32{2, vp.spec.as, cw.w.as}
			for n := int(vp.spec.allowOwnAs); n > 0; n-- {
				own = append(own, cw.w.as)
			}
			rt.segs = [][]uint32{own}
		} else {
			a := cw.w.rid
			rt.originator = &a
		}
	}
}

func c15PeerLine(i int, sp vwPeerSpec) string {
	return fmt.Sprintf("peer %d %d %d %d %d 0 %d %d", i, c01Kind(sp.kind), sp.as, c01U32(sp.rid), c01U32(sp.addr), c15B(sp.addPathRx), sp.allowOwnAs)
}

// c15History runs one scenario: policies, route events, policy changes, resets; then the
// complete reset and the metamorphic comparison with a fresh server.
func c15History(t *testing.T, o *vOut, r *vRand, idx int) {
	cw := newC15World(t)
	cw.r = r
	defer cw.w.stop()
	rn := &c15Run{cw: cw, o: o}
	w := cw.w
	specs := c15Specs(r)
	rn.note("world %d %d", w.as, c01U32(w.rid))
	rn.note("opts 1 0 0")
	for i, sp := range specs {
		cw.addPeer(sp)
		rn.note("%s", c15PeerLine(i, sp))
		o.stat("peer_kind_"+sp.kind, 1)
		if sp.addPathRx {
			o.stat("peer_addpath_rx", 1)
		}
	}
	nP := len(specs)
	setPol := func(d int, pol c15Pol, mode int) {
		if cw.name[d] != "" && c15SameButSets(cw.cur[d], pol) {
			if r.chance(85) {
				mode = 2
			}
		} else if mode == 2 {
			mode = r.intn(2)
		}
		if mode == 1 && cw.name[d] != "" && pol.dflt != cw.cur[d].dflt {
			mode = 0 // SetPolicies keeps the assignment's default action
		}
		for _, how := range strings.Split(cw.install(d, pol, mode), ",") {
			o.stat("setpolicy_"+how, 1)
		}
		cw.checkSets(d, func(class string, detail any) {
			o.fail(class, map[string]any{"what": detail, "policy": pol.line(c15Dirs[d]), "history": rn.hist()})
		})
		rn.note("%s", pol.line(c15Dirs[d]))
	}
	// initial policies (sometimes none at all for a direction)
	for d := 0; d < 2; d++ {
		if r.chance(75) {
			setPol(d, c15GenPol(r, d, nP), 0)
		}
	}
	sc := &c01Scenario{w: w, o: o, r: r}
	var events []c15Event
	do := func(e c15Event) {
		cw.play(e)
		events = append(events, e)
		rn.note("%s", e.line())
		o.stat("ev_"+e.kind, 1)
	}
	for i := range w.peers {
		if r.chance(85) {
			do(c15Event{kind: "up", peer: i})
		}
	}
	routeEvents := func(n int) {
		for ; n > 0; n-- {
			i := r.intn(nP)
			vp := w.peers[i]
			switch x := r.intn(100); {
			case x < 6:
				if vp.up {
					do(c15Event{kind: "down", peer: i})
				} else {
					do(c15Event{kind: "up", peer: i})
				}
			case x < 75:
				if !vp.up {
					continue
				}
				rt := c01GenRoute(r, sc, vp)
				c15AddPathShape(r, cw, vp, rt)
				rt.comms = nil
				for _, tg := range c15Tags {
					if r.chance(40) {
						rt.comms = append(rt.comms, tg)
					}
				}
				do(c15Event{kind: "ann", peer: i, rt: rt})
			default:
				if !vp.up {
					continue
				}
				pid := 0
				if vp.spec.addPathRx {
					pid = r.intn(3)
				}
				do(c15Event{kind: "wd", peer: i, pfx: r.intn(len(c01Prefixes)), pid: pid})
			}
			if r.chance(15) {
				rn.check()
			}
		}
	}
	routeEvents(14 + r.intn(30))
	rn.check()
	partial := []string{"softin", "softout", "softboth", "refresh", "softout", "refresh"}
	for round := 1 + r.intn(3); round > 0; round-- {
		// policy change (one or both directions)
		both := r.chance(35)
		d0 := r.intn(2)
		for d := 0; d < 2; d++ {
			if d == d0 || both {
				setPol(d, c15Mutate(r, d, nP, cw.cur[d]), r.intn(3))
			}
		}
		if r.chance(50) {
			routeEvents(r.intn(5)) // route changes between the policy change and the reset
		}
		for n := r.intn(4); n > 0; n-- {
			var line string
			if r.chance(25) {
				line = r.pickStr("softinall", "softoutall", "softbothall")
			} else {
				line = fmt.Sprintf("%s %d", partial[r.intn(len(partial))], r.intn(nP))
			}
			rn.doReset(line, r.chance(40))
			if r.chance(50) {
				rn.check()
			}
			if r.chance(40) {
				routeEvents(r.intn(4)) // route changes interleaved with the resets
			}
		}
	}
	// the complete reset, in one of the ways an operator can do it
	switch x := r.intn(100); {
	case x < 35:
		rn.doReset("softbothall", r.chance(50))
	case x < 55:
		rn.doReset("softinall", r.chance(30))
		rn.doReset("softoutall", r.chance(30))
	case x < 80:
		for _, i := range r.perm(nP) {
			rn.doReset(fmt.Sprintf("softboth %d", i), r.chance(20))
		}
	default:
		for _, i := range r.perm(nP) {
			rn.doReset(fmt.Sprintf("softin %d", i), r.chance(20))
		}
		for _, i := range r.perm(nP) {
			rn.doReset(fmt.Sprintf("%s %d", r.pickStr("refresh", "softout"), i), r.chance(20))
		}
	}
	rn.check()
	have := cw.snapshot()
	if r.chance(50) {
		// route changes after the reset must keep the equivalence
		routeEvents(1 + r.intn(6))
		rn.check()
		have = cw.snapshot()
	}
	// metamorphic: a fresh server that had the final policies from the start
	fw := newC15World(t)
	defer fw.w.stop()
	for _, sp := range specs {
		fw.addPeer(sp)
	}
	for d := 0; d < 2; d++ {
		if cw.name[d] != "" {
			fw.install(d, cw.cur[d], 0)
		}
	}
	for _, e := range events {
		fw.play(e)
	}
	fw.flushAll()
	if want := fw.snapshot(); want != have {
		cls := "soft-reset!=fresh"
		hl, wl := strings.Split(have, "\n"), strings.Split(want, "\n")
		for k := range hl {
			if k < len(wl) && hl[k] != wl[k] {
				cls += ":" + strings.TrimRight(strings.SplitN(hl[k], ":", 2)[0], "0123456789")
				break
			}
		}
		o.fail(cls, map[string]any{"after_soft_reset": have, "fresh_server": want, "history": rn.hist()})
	}
	o.stat("histories", 1)
	if idx < 2 {
		o.sample(strings.Join(rn.history, " ; "))
	}
}

func (r *vRand) pickStr(xs ...string) string { return xs[r.intn(len(xs))] }

// c15KnownEmptiedPrefixSetInvert: KNOWN FINDING (not repaired, maintainers' call; see
// known_findings.json, class soft-reset!=fresh:emptied-prefix-set-invert — nothing else uses this
// class, and the random generator never empties a prefix-set matched with INVERT). The import
// policy rejects every route that a prefix-set {10.1.0.0/16 24..24} does NOT match (INVERT). The
// set's last member is removed in place: the emptied set keeps that member's address family,
// INVERT over it is true for every route, both routes are rejected after the soft reset in (the
// model agrees: nothing matches an empty set). A server configured with the empty set from the
// start has a set without a family: PrefixCondition.Evaluate answers false on the family
// mismatch before looking at the option, nothing is rejected — the fresh evaluation differs.
var c15KnownEmptiedPrefixSetInvert = append(append([]string{}, c15CorpusPeers...),
	"pol imp 1 1 0 0 0 1 0 0 0 0 0 0 0 0 2 0 0 0 1 2 1 167837696 16 24 24 0 0 0 0 0 0 0",
	"up 0", "up 1", "up 2",
	"ann 0 0 0 1 0 0 0 0 0 0 0 0 0 1 2 1 65001", // 10.1.0.0/24: in the set, accepted
	"ann 1 1 0 2 0 0 0 0 0 0 0 0 0 1 2 1 65002", // 10.2.0.0/24: not in the set, rejected
	"check",
	"polmode 2",
	"pol imp 1 1 0 0 0 1 0 0 0 0 0 0 0 0 2 0 0 0 1 2 0 0 0 0 0 0 0 0",
	"softinall",
	"check",
	"fresh soft-reset!=fresh:emptied-prefix-set-invert")

// c15Corpus: deterministic cases kept from past disagreements (run first). Directives that are
// not protocol lines: `polmode N` (how the next `pol` is installed, see install), `check`,
// `fresh` (compare with a fresh server that has the current policies from the start).
var c15CorpusPeers = []string{
	"world 65000 184483841",
	"peer 0 0 65001 167772161 3232235521 0 0 0",
	"peer 1 0 65002 167772162 3232235522 0 0 0",
	"peer 2 0 65003 167772163 3232235523 0 0 0",
}

var c15Corpus = [][]string{
	// defect 1 (fixed): AddDefinedSet{Replace} left the statements evaluating the old neighbor set
	append(append([]string{}, c15CorpusPeers...),
		"pol imp 1 1 0 0 0 0 0 1 0 0 0 0 0 0 0 2 0 0 0 0 0 0 0 0 0 0 0 0 0", // reject everything from peer 0
		"up 0", "up 1", "up 2",
		"polmode 2",
		"pol imp 1 1 0 0 0 0 0 1 1 0 0 0 0 0 0 2 0 0 0 0 0 0 0 0 0 0 0 0 0", // neighbor set edited in place: reject from peer 1 instead
		"ann 0 0 0 1 0 0 0 0 0 0 0 0 0 1 2 1 65001",
		"ann 1 1 0 2 0 0 0 0 0 0 0 0 0 1 2 1 65002",
		"check", "fresh"),
	// defect 2 (fixed): ROUTE-REFRESH after an export policy change did not withdraw
	append(append([]string{}, c15CorpusPeers...),
		"up 0", "up 2",
		"ann 0 0 0 1 0 0 0 0 0 0 0 0 1 4294770689 1 2 1 65001",
		"check",
		"pol exp 1 1 1 0 1 4294770689 1 0 0 0 0 0 0 0 0 2 0 0 0 0 0 0 0 0 0 0 0 0 0", // reject 65533:1 toward everybody
		"refresh 2",
		"check", "fresh"),
	// defect 3 (fixed): export policy on as-path-length >= 3, old best (length 2, 3 as sent) was
	// sent, new best (length 1) is rejected, the raw old was rejected too -> no withdraw
	append(append([]string{}, c15CorpusPeers...),
		"pol exp 0 1 0 0 0 1 0 0 0 0 0 0 0 0 1 1 1 3 0 0 0 0 0 0 0 0 0 0",
		"up 0", "up 1", "up 2",
		"ann 0 0 0 1 1 100 0 0 0 0 0 0 0 1 2 2 65001 100",
		"check",
		"ann 1 0 0 2 1 100 0 0 0 0 0 0 0 1 2 1 65002",
		"check", "fresh"),
	// class "defined set edited in place": a prefix-set holding 10.0.0.0/8 16..16 gets, by
	// AddDefinedSet without replace, a second mask-length range for the SAME prefix; the import
	// policy rejects what the set matches; the older range must keep matching after soft reset in
	append(append([]string{}, c15CorpusPeers...),
		"pol imp 1 1 0 0 0 1 0 0 0 0 0 0 0 0 2 0 0 0 1 0 1 167772160 8 16 16 0 0 0 0 0 0 0",
		"up 0", "up 1", "up 2",
		"ann 0 2 0 1 0 0 0 0 0 0 0 0 0 1 2 1 65001", // 10.3.0.0/16: rejected
		"ann 1 0 0 2 0 0 0 0 0 0 0 0 0 1 2 1 65002", // 10.1.0.0/24: accepted
		"check",
		"polmode 2",
		"pol imp 1 1 0 0 0 1 0 0 0 0 0 0 0 0 2 0 0 0 1 0 2 167772160 8 16 16 167772160 8 24 24 0 0 0 0 0 0 0",
		"softinall",
		"check", "fresh"),
	// class "several paths per prefix in the Adj-RIB-In" (ADD-PATH receive): path-id 1 is
	// loop-rejected (own AS) and stored BEFORE path-id 2 (accepted, 65533:1); the import policy
	// changes to reject 65533:1; soft reset in must re-evaluate path-id 2 — and in the other
	// storage order too
	append([]string{"world 65000 184483841",
		"peer 0 0 65001 167772161 3232235521 0 1 0",
		"peer 1 0 65002 167772162 3232235522 0 1 0",
		"peer 2 0 65003 167772163 3232235523 0 0 0"},
		"up 0", "up 1", "up 2",
		"ann 0 0 1 1 0 0 1 0 0 0 0 0 0 1 2 2 65001 65000",
		"ann 0 0 2 2 0 0 2 0 0 0 0 0 1 4294770689 1 2 1 65001",
		"ann 1 1 2 3 0 0 2 0 0 0 0 0 1 4294770689 1 2 1 65002",
		"ann 1 1 1 4 0 0 1 0 0 0 0 0 0 1 2 2 65002 65000",
		"check",
		"pol imp 1 1 1 0 1 4294770689 1 0 0 0 0 0 0 0 0 2 0 0 0 0 0 0 0 0 0 0 0 0 0",
		"softin 0", "softin 1",
		"check", "fresh"),
	// class "defined set emptied in place and re-filled": an import statement rejects what a
	// community set (ANY) matches, an export statement accepts what another (INVERT) does not
	// match; the last member of each is removed in place (the sets are then EMPTY: ANY matches
	// nothing, INVERT everything), soft reset; then both are re-filled, soft reset
	append(append([]string{}, c15CorpusPeers...),
		"pol imp 1 1 1 0 1 4294770689 1 0 0 0 0 0 0 0 0 2 0 0 0 0 0 0 0 0 0 0 0 0 0",
		"pol exp 0 1 1 2 1 4294770690 1 0 0 0 0 0 0 0 0 1 0 0 0 0 0 0 0 0 0 0 0 0 0",
		"up 0", "up 1", "up 2",
		"ann 0 0 0 1 0 0 0 0 0 0 0 0 1 4294770689 1 2 1 65001",
		"ann 1 1 0 2 0 0 0 0 0 0 0 0 1 4294770690 1 2 1 65002",
		"check",
		"polmode 2",
		"pol imp 1 1 1 0 0 1 0 0 0 0 0 0 0 0 2 0 0 0 0 0 0 0 0 0 0 0 0 0",
		"polmode 2",
		"pol exp 0 1 1 2 0 1 0 0 0 0 0 0 0 0 1 0 0 0 0 0 0 0 0 0 0 0 0 0",
		"softbothall",
		"check", "fresh",
		"polmode 2",
		"pol imp 1 1 1 0 1 4294770689 1 0 0 0 0 0 0 0 0 2 0 0 0 0 0 0 0 0 0 0 0 0 0",
		"polmode 2",
		"pol exp 0 1 1 2 1 4294770690 1 0 0 0 0 0 0 0 0 1 0 0 0 0 0 0 0 0 0 0 0 0 0",
		"softbothall",
		"check", "fresh"),
}

func TestVerifC15(t *testing.T) {
	o := vOpen(t)
	defer o.close()
	defer func(v bool) { table.SelectionOptions.AlwaysCompareMed = v }(table.SelectionOptions.AlwaysCompareMed)
	for _, c := range c15Corpus {
		c15Replay(t, o, c).w.stop()
	}
	c15Replay(t, o, c15KnownEmptiedPrefixSetInvert).w.stop()
	r := &vRand{s: o.seed*15485863 + 15}
	n := 140
	if o.thorough {
		n = 1600
	}
	for i := 0; i < n; i++ {
		c15History(t, o, r, i)
	}
}

// c15Replay runs a recorded history (protocol lines) on the real code with all per-operation
// oracles and the correspondence asks; used for the corpus and by TestVerifC15Replay.
func c15Replay(t *testing.T, o *vOut, lines []string) *c15World {
	cw := newC15World(t)
	rn := &c15Run{cw: cw, o: o}
	kinds := []string{"ebgp", "ibgp", "rrc", "rsc"}
	ip := func(v int) netip.Addr {
		return netip.AddrFrom4([4]byte{byte(v >> 24), byte(v >> 16), byte(v >> 8), byte(v)})
	}
	var events []c15Event
	var specs []vwPeerSpec
	mode := 0
	play := func(e c15Event, line string) {
		cw.play(e)
		events = append(events, e)
		rn.note("%s", line)
	}
	for _, line := range lines {
		f := strings.Fields(line)
		if len(f) == 0 {
			continue
		}
		n := func(i int) int { v := 0; fmt.Sscan(f[i], &v); return v }
		switch f[0] {
		case "world":
			rn.note("%s", line)
			rn.note("opts 1 0 0")
		case "peer":
			sp := vwPeerSpec{kind: kinds[n(2)], as: uint32(n(3)), rid: ip(n(4)), addr: ip(n(5)), addPathRx: n(7) == 1, allowOwnAs: uint8(n(8))}
			specs = append(specs, sp)
			cw.addPeer(sp)
			rn.note("%s", line)
		case "up", "down":
			play(c15Event{kind: f[0], peer: n(1)}, line)
		case "ann":
			play(c15Event{kind: "ann", peer: n(1), rt: c01ParseRoute(f[2:])}, line)
		case "wd":
			play(c15Event{kind: "wd", peer: n(1), pfx: n(2), pid: n(3)}, line)
		case "polmode":
			mode = n(1)
		case "pol":
			dir, pol := c15ParsePol(f)
			d := 0
			if dir == "exp" {
				d = 1
			}
			cw.install(d, pol, mode)
			mode = 0
			rn.note("%s", line)
			cw.checkSets(d, func(class string, detail any) {
				o.fail(class, map[string]any{"what": detail, "policy": line, "history": rn.hist()})
			})
		case "check":
			rn.check()
		case "fresh":
			cw.flushAll()
			fw := newC15World(t)
			for _, sp := range specs {
				fw.addPeer(sp)
			}
			for d := 0; d < 2; d++ {
				if cw.name[d] != "" {
					fw.install(d, cw.cur[d], 0)
				}
			}
			for _, e := range events {
				fw.play(e)
			}
			fw.flushAll()
			if have, want := cw.snapshot(), fw.snapshot(); have != want {
				cls := "soft-reset!=fresh:corpus"
				if len(f) > 1 {
					cls = f[1] // a corpus case that documents a known finding reports under its own class
				}
				o.fail(cls, map[string]any{"after_soft_reset": have, "fresh_server": want, "history": rn.hist()})
			}
			fw.w.stop()
		default:
			rn.doReset(line, false)
		}
	}
	rn.check()
	return cw
}

// TestVerifC15Replay: VERIF_REPLAY_FILE holds one protocol line per line; prints the state
// after every line.
func TestVerifC15Replay(t *testing.T) {
	file := os.Getenv("VERIF_REPLAY_FILE")
	if file == "" {
		t.Skip("VERIF_REPLAY_FILE not set")
	}
	data, err := os.ReadFile(file)
	if err != nil {
		t.Fatal(err)
	}
	o := vOpen(t)
	defer o.close()
	defer func(v bool) { table.SelectionOptions.AlwaysCompareMed = v }(table.SelectionOptions.AlwaysCompareMed)
	var acc []string
	for _, line := range strings.Split(string(data), "\n") {
		for _, l := range strings.Split(line, " ; ") {
			acc = append(acc, strings.TrimSpace(l))
		}
	}
	cw := c15Replay(t, o, acc)
	defer cw.w.stop()
	fmt.Print(cw.snapshot())
	for i, vp := range cw.w.peers {
		if vp.up {
			fmt.Printf("peer %d (%s) view:%s\n", i, vp.spec.kind, cw.viewString(i))
		}
	}
	for k := range c01Prefixes {
		fmt.Printf("rib %d:%s\n", k, cw.ribString(k, false))
	}
}
