//go:build verif

package server

// C20 datum "what is evaluated for a log line or an event on the shutdown paths is total".
//
// fsmHandler.loop evaluates reason.String() in a BARE goroutine (Peer Down / state-changed log lines),
// watchers convert the reason with convertFSMStateReasonToAPI: a panic there kills the daemon.  From the
// AST of pkg/server every construction newfsmStateReason(<type>, <notification>, …) is extracted with the
// kind of its notification argument (literal nil · a `var m *bgp.BGPMessage` that may still be nil · other);
// then, table-driven on the REAL code, String() and convertFSMStateReasonToAPI are called for every reason
// type with a NOTIFICATION, and with a nil notification whenever some construction site can produce one.
// The same for the String() methods of the state types.  A panic is an oracle failure; the Lean side of
// the ask is the constant "total".

import (
	"fmt"
	"go/ast"
	"go/constant"
	"go/types"
	"sort"
	"strings"

	"github.com/osrg/gobgp/v4/pkg/packet/bgp"
)

func c20ReportTotality(o *vOut, x *c20X) {
	var p *c20Pkg
	for _, q := range x.pkgs {
		if q.name == "server" {
			p = q
		}
	}
	if p == nil {
		return
	}
	// reason-type constants
	names := map[int64]string{}
	scope := p.tpkg.Scope()
	for _, n := range scope.Names() {
		if c, ok := scope.Lookup(n).(*types.Const); ok {
			if nt, ok := c.Type().(*types.Named); ok && nt.Obj().Name() == "fsmStateReasonType" {
				if v, ok := constant.Int64Val(c.Val()); ok {
					names[v] = n
				}
			}
		}
	}
	if len(names) == 0 {
		o.fail("extractor-unknown-shape", map[string]string{"shape": "no fsmStateReasonType constants found"})
		return
	}
	// construction sites
	nilSites := map[int64][]string{}
	sites := 0
	for _, f := range p.files {
		ast.Inspect(f, func(nd ast.Node) bool {
			call, ok := nd.(*ast.CallExpr)
			if !ok || len(call.Args) != 3 {
				return true
			}
			id, ok := call.Fun.(*ast.Ident)
			if !ok || id.Name != "newfsmStateReason" {
				return true
			}
			tid, ok := call.Args[0].(*ast.Ident)
			if !ok {
				return true // the constructor's own body passes its parameters on
			}
			c, ok := p.info.Uses[tid].(*types.Const)
			if !ok {
				return true
			}
			v, _ := constant.Int64Val(c.Val())
			sites++
			kind := ""
			if a, ok := ast.Unparen(call.Args[1]).(*ast.Ident); ok {
				if a.Name == "nil" {
					kind = "nil literal"
				} else if obj := p.info.Uses[a]; obj != nil {
					x.defOf(p, obj)
					if d := p.defs[obj]; d != nil && d.zeroDecl {
						kind = "var " + a.Name + " declared without a value"
					}
				}
			}
			if kind != "" {
				nilSites[v] = append(nilSites[v], x.posStr(p, call.Pos())+" ("+kind+")")
			}
			return true
		})
	}
	o.stat("reason_construction_sites", sites)
	notif := bgp.NewBGPNotificationMessage(bgp.BGP_ERROR_CEASE, bgp.BGP_ERROR_SUB_PEER_DECONFIGURED, []byte{1, 2})
	try := func(f func()) (res string) {
		defer func() {
			if e := recover(); e != nil {
				res = fmt.Sprint("panic: ", e)
			}
		}()
		f()
		return "total"
	}
	vals := make([]int64, 0, len(names))
	for v := range names {
		vals = append(vals, v)
	}
	sort.Slice(vals, func(i, j int) bool { return vals[i] < vals[j] })
	vals = append(vals, vals[len(vals)-1]+1) // a value no constant names
	for _, v := range vals {
		name := names[v]
		if name == "" {
			name = fmt.Sprintf("unnamed-%d", v)
		}
		kinds := []string{"notification"}
		if len(nilSites[v]) > 0 || names[v] == "" {
			kinds = append(kinds, "nil")
		}
		for _, k := range kinds {
			var m *bgp.BGPMessage
			if k == "notification" {
				m = notif
			}
			for _, data := range [][]byte{nil, []byte("x")} {
				r := fsmStateReason{Type: fsmStateReasonType(v), BGPNotification: m, Data: data}
				res := try(func() { _ = r.String(); _, _ = convertFSMStateReasonToAPI(&r) })
				ans := "total"
				if res != "total" {
					ans = "panic"
					o.fail("log-string-method-panics:fsmStateReason/"+name+"/"+k, map[string]any{
						"input":              fmt.Sprintf("fsmStateReason{Type: %s, BGPNotification: %s}.String() / convertFSMStateReasonToAPI", name, k),
						"result":             res,
						"constructed_nil_at": nilSites[v],
						"evaluated_in":       "fsmHandler.loop (Peer Down log line, bare goroutine), fsm.stateChange, WatchEvent peer events",
					})
				}
				o.ask(ans, "reasonstr %s %s %d", name, k, len(data))
			}
		}
	}
	for v := -2; v <= 8; v++ {
		res := try(func() { _ = bgp.FSMState(v).String(); _ = adminState(v).String() })
		ans := "total"
		if res != "total" {
			ans = "panic"
			o.fail("log-string-method-panics:state/"+fmt.Sprint(v), map[string]any{"result": res})
		}
		o.ask(ans, "statestr %d", v+2)
	}
	ns := []string{}
	for v, s := range nilSites {
		ns = append(ns, fmt.Sprintf("%s@%s", names[v], strings.Join(s, ",")))
	}
	sort.Strings(ns)
	o.stat("reason_types_constructed_with_nil_notification", len(nilSites))
}
