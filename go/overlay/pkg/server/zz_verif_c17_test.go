//go:build verif

package server

// C17 correspondence harness, part 2 (package server), on the shared "world"
// (zz_verif_world_test.go): a real BgpServer with
//   - PE source peers (route-reflector clients, VPNv4; two of them with ADD-PATH receive),
//   - RTC observer peers (route-reflector clients, VPNv4 + RT-Constraint, no ADD-PATH send),
//   - CE peers attached to VRFs (eBGP, IPv4 unicast),
// driven white-box from one goroutine through handleFSMMessage.  After every event every peer's
// queue is flushed through the real packer/codec; the VPNv4 messages sent to each observer and the
// IPv4 messages sent to each CE are compared with the Lean model (onTableChange / rtcStep /
// ceOnTableChange of Model/VrfRtc.lean).
//
// Model-independent oracles at every quiescence point (harness bookkeeping + community octets only):
//   rtc-invariant  observer view == { best VPN path of a destination | the observer has a live
//                  membership (last event = announce) for one of its targets, or the default }
//   vrf-ce-view    CE view == { prefix -> best VPN path | a transitive target is an import target of
//                  the CE's VRF, the CE is not its source }
//   vrf-export     a route received from a CE is in the global table under the VRF's RD with the
//                  VRF's export targets appended
//   rtc-minimal    a membership event sends nothing when interest is unchanged, only withdrawals of
//                  held routes on last interest, only advertisements on first interest

import (
	"context"
	"fmt"
	"net"
	"net/netip"
	"sort"
	"strings"
	"testing"
	"time"

	"github.com/osrg/gobgp/v4/api"
	"github.com/osrg/gobgp/v4/internal/pkg/table"
	"github.com/osrg/gobgp/v4/pkg/apiutil"
	"github.com/osrg/gobgp/v4/pkg/packet/bgp"
)

type c17PeerSpec struct {
	vwPeerSpec
	vrf      string // CE peer attached to this VRF (IPv4 unicast only)
	rtc      bool   // PE peer: RTC negotiated
	vpnAddRx bool   // PE peer: we accept ADD-PATH for VPNv4 from it
}

type c17Peer struct {
	*vwPeer
	sp c17PeerSpec
}

func c17Fam(f bgp.Family) *api.Family {
	return &api.Family{Afi: api.Family_Afi(f.Afi()), Safi: api.Family_Safi(f.Safi())}
}

func (sp c17PeerSpec) families() []bgp.Family {
	if sp.vrf != "" {
		return []bgp.Family{bgp.RF_IPv4_UC}
	}
	fs := []bgp.Family{bgp.RF_IPv4_VPN}
	if sp.rtc {
		fs = append(fs, bgp.RF_RTC_UC)
	}
	return fs
}

func c17AddPeer(w *vWorld, sp c17PeerSpec) *c17Peer {
	pr := &api.Peer{
		Conf:      &api.PeerConf{NeighborAddress: sp.addr.String(), PeerAsn: sp.as, Vrf: sp.vrf},
		Transport: &api.Transport{PassiveMode: true},
	}
	for _, f := range sp.families() {
		as := &api.AfiSafi{Config: &api.AfiSafiConfig{Family: c17Fam(f), Enabled: true}}
		if f == bgp.RF_IPv4_VPN && sp.vpnAddRx {
			as.AddPaths = &api.AddPaths{Config: &api.AddPathsConfig{Receive: true}}
		}
		pr.AfiSafis = append(pr.AfiSafis, as)
	}
	if sp.kind == "rrc" {
		pr.RouteReflector = &api.RouteReflector{RouteReflectorClient: true, RouteReflectorClusterId: w.rid.String()}
	}
	if err := w.s.AddPeer(context.Background(), &api.AddPeerRequest{Peer: pr}); err != nil {
		w.t.Fatalf("AddPeer: %v", err)
	}
	vp := &vwPeer{spec: sp.vwPeerSpec, view: map[string]vwHeld{}}
	if err := w.s.mgmtOperation(func() error { vp.p = w.s.neighborMap[sp.addr]; return nil }, true); err != nil || vp.p == nil {
		w.t.Fatalf("peer lookup: %v", err)
	}
	for i := 0; vp.p.fsm.state.Load() != bgp.BGP_FSM_ACTIVE; i++ {
		if i > 100000 {
			w.t.Fatalf("fsm goroutine did not reach ACTIVE")
		}
		time.Sleep(100 * time.Microsecond)
	}
	time.Sleep(200 * time.Microsecond)
	w.peers = append(w.peers, vp)
	return &c17Peer{vwPeer: vp, sp: sp}
}

func c17Open(w *vWorld, sp c17PeerSpec) *bgp.BGPMessage {
	caps := []bgp.ParameterCapabilityInterface{bgp.NewCapRouteRefresh(), bgp.NewCapFourOctetASNumber(sp.as)}
	for _, f := range sp.families() {
		caps = append(caps, bgp.NewCapMultiProtocol(f))
	}
	if sp.vpnAddRx {
		caps = append(caps, bgp.NewCapAddPath([]*bgp.CapAddPathTuple{bgp.NewCapAddPathTuple(bgp.RF_IPv4_VPN, bgp.BGP_ADD_PATH_SEND)}))
	}
	as2 := uint16(sp.as)
	if sp.as > 65535 {
		as2 = bgp.AS_TRANS
	}
	m, err := bgp.NewBGPOpenMessage(as2, 90, sp.rid, []bgp.OptionParameterInterface{bgp.NewOptionParameterCapability(caps)})
	if err != nil {
		w.t.Fatal(err)
	}
	return m
}

// c17SessionUp = vWorld.sessionUp with the C17 OPEN.
func c17SessionUp(w *vWorld, cp *c17Peer) {
	f := cp.p.fsm
	f.conn = &vwConn{local: &net.TCPAddr{IP: net.IP(w.rid.AsSlice()), Port: 179}, remote: &net.TCPAddr{IP: net.IP(cp.spec.addr.AsSlice()), Port: 30000}}
	f.recvOpen = c17Open(w, cp.sp)
	reason := newfsmStateReason(fsmOpenMsgNegotiated, nil, nil)
	f.stateChange(bgp.BGP_FSM_ESTABLISHED, reason)
	w.s.handleFSMMessage(cp.p, &fsmMsg{MsgType: fsmMsgStateChange, MsgData: bgp.BGP_FSM_ESTABLISHED, StateReason: reason, timestamp: w.now()})
	f.state.Store(bgp.BGP_FSM_ESTABLISHED)
	cp.up = true
}

// ---- extended communities / route targets -------------------------------------------------

// c17EC builds one of a small pool of extended communities. kind: 0 two-octet-AS RT,
// 1 IPv4 RT, 2 four-octet-AS RT, 3 two-octet-AS route-origin (not an RT sub-type but keyable),
// 4 opaque (not keyable), 5 colour (not keyable).
func c17EC(kind, val int, transitive bool) bgp.ExtendedCommunityInterface {
	switch kind {
	case 0:
		return bgp.NewTwoOctetAsSpecificExtended(bgp.EC_SUBTYPE_ROUTE_TARGET, 65000, uint32(val), transitive)
	case 1:
		e, _ := bgp.NewIPv4AddressSpecificExtended(bgp.EC_SUBTYPE_ROUTE_TARGET, netip.MustParseAddr("10.9.9.9"), uint16(val), transitive)
		return e
	case 2:
		return bgp.NewFourOctetAsSpecificExtended(bgp.EC_SUBTYPE_ROUTE_TARGET, 70000, uint16(val), transitive)
	case 3:
		return bgp.NewTwoOctetAsSpecificExtended(bgp.EC_SUBTYPE_ROUTE_ORIGIN, 65000, uint32(val), transitive)
	case 4:
		return bgp.NewOpaqueExtended(transitive, []byte{0x55, 0, 0, 0, 0, byte(val)})
	}
	return bgp.NewColorExtended(uint32(val))
}

func c17ECNum(e bgp.ExtendedCommunityInterface) uint64 {
	b, _ := e.Serialize()
	var v uint64
	for _, x := range b {
		v = v<<8 | uint64(x)
	}
	return v
}

// ---- UPDATE builders ----------------------------------------------------------------------

func c17RD(i int) bgp.RouteDistinguisherInterface {
	return bgp.NewRouteDistinguisherTwoOctetAS(65000, uint32(100+i))
}

var c17Pfx = []string{"10.1.0.0/24", "10.1.1.0/24", "10.2.0.0/24", "10.2.1.0/24", "10.3.0.0/16", "10.3.1.0/24", "10.4.4.0/24", "10.5.5.0/24", "10.6.6.0/24"}

func c17VpnNlri(rd, pfx int, label uint32) bgp.NLRI {
	n, _ := bgp.NewLabeledVPNIPAddrPrefix(netip.MustParsePrefix(c17Pfx[pfx]), *bgp.NewMPLSLabelStack(label), c17RD(rd))
	return n
}

type c17Route struct {
	rd, pfx, pathID, marker int
	lp                     uint32
	ecs                    []bgp.ExtendedCommunityInterface
}

func (r *c17Route) msg(from *c17Peer) *bgp.BGPMessage {
	attrs := []bgp.PathAttributeInterface{bgp.NewPathAttributeOrigin(0)}
	if from.spec.kind == "ebgp" {
		attrs = append(attrs, bgp.NewPathAttributeAsPath([]bgp.AsPathParamInterface{bgp.NewAs4PathParam(2, []uint32{from.spec.as})}))
	} else {
		attrs = append(attrs, bgp.NewPathAttributeAsPath([]bgp.AsPathParamInterface{}))
		attrs = append(attrs, bgp.NewPathAttributeLocalPref(r.lp))
	}
	attrs = append(attrs, bgp.NewPathAttributeCommunities([]uint32{0xfffe0000 | uint32(r.marker)}))
	if len(r.ecs) > 0 {
		attrs = append(attrs, bgp.NewPathAttributeExtendedCommunities(r.ecs))
	}
	mp, _ := bgp.NewPathAttributeMpReachNLRI(bgp.RF_IPv4_VPN, []bgp.PathNLRI{{NLRI: c17VpnNlri(r.rd, r.pfx, 1000+uint32(r.rd)), ID: uint32(r.pathID)}}, from.spec.addr)
	attrs = append(attrs, mp)
	return bgp.NewBGPUpdateMessage(nil, attrs, nil)
}

func (r *c17Route) wd() *bgp.BGPMessage {
	un, _ := bgp.NewPathAttributeMpUnreachNLRI(bgp.RF_IPv4_VPN, []bgp.PathNLRI{{NLRI: c17VpnNlri(r.rd, r.pfx, 1000+uint32(r.rd)), ID: uint32(r.pathID)}})
	return bgp.NewBGPUpdateMessage(nil, []bgp.PathAttributeInterface{un}, nil)
}

// c17Rtm builds an RT-membership UPDATE. rt == nil and as == 0: the default membership.
// c17RtmLen: prefix length of the next RT-membership NLRI built by c17Rtm (-1: the natural one)
var c17RtmLen = -1

func c17Rtm(from *c17Peer, as uint32, rt bgp.ExtendedCommunityInterface, withdraw bool, lps ...uint32) *bgp.BGPMessage {
	lp := uint32(100)
	if len(lps) > 0 {
		lp = lps[0]
	}
	n := bgp.NewRouteTargetMembershipNLRI(as, rt)
	if c17RtmLen >= 0 {
		// explicit prefix length: 0, 32 (origin AS only), 33..95 (leading bits of the route target), 96
		n.Length = uint8(c17RtmLen)
		if c17RtmLen <= 32 {
			n.RouteTarget = nil
		} else if c17RtmLen < 96 {
			// what the receiver's decoder makes of the truncated prefix: the leading bits, zero-padded
			// (the message object is handed over without a trip through the codec)
			v := c17ECNum(rt) & (^uint64(0) << (96 - c17RtmLen))
			var b [8]byte
			for i := 0; i < 8; i++ {
				b[i] = byte(v >> (56 - 8*i))
			}
			if m, err := bgp.ParseExtended(b[:]); err == nil {
				n.RouteTarget = m
			}
		}
	}
	if withdraw {
		un, _ := bgp.NewPathAttributeMpUnreachNLRI(bgp.RF_RTC_UC, []bgp.PathNLRI{{NLRI: n}})
		return bgp.NewBGPUpdateMessage(nil, []bgp.PathAttributeInterface{un}, nil)
	}
	attrs := []bgp.PathAttributeInterface{bgp.NewPathAttributeOrigin(0)}
	if from.spec.kind == "ebgp" {
		attrs = append(attrs, bgp.NewPathAttributeAsPath([]bgp.AsPathParamInterface{bgp.NewAs4PathParam(2, []uint32{from.spec.as})}))
	} else {
		attrs = append(attrs, bgp.NewPathAttributeAsPath([]bgp.AsPathParamInterface{}))
		attrs = append(attrs, bgp.NewPathAttributeLocalPref(lp))
	}
	mp, _ := bgp.NewPathAttributeMpReachNLRI(bgp.RF_RTC_UC, []bgp.PathNLRI{{NLRI: n}}, from.spec.addr)
	attrs = append(attrs, mp)
	return bgp.NewBGPUpdateMessage(nil, attrs, nil)
}

func c17AddVrf(w *vWorld, name string, rd int, imp, exp []bgp.ExtendedCommunityInterface) error {
	r, _ := apiutil.MarshalRD(c17RD(rd))
	im, _ := apiutil.MarshalRTs(imp)
	ex, _ := apiutil.MarshalRTs(exp)
	return w.s.AddVrf(context.Background(), &api.AddVrfRequest{Vrf: &api.Vrf{Name: name, Rd: r, ImportRt: im, ExportRt: ex, Id: uint32(rd + 1)}})
}


// ---- scenario ---------------------------------------------------------------------------------

type c17Ev struct {
	kind   string // ann | wd | mem | cean | cewd | bounce | addvrf | delvrf
	peer   int    // index into srcs / obs / ces
	rd     int
	pfx    int
	pid    int
	lpr    int // preference class 0..5
	ecs    []bgp.ExtendedCommunityInterface
	rt     bgp.ExtendedCommunityInterface // mem: nil = default
	as     uint32
	memWd  bool
	memLen int // mem: explicit prefix length (0 = the natural one: 0 / 32 / 96)
}

type c17Live struct {
	marker int
	ecs    []bgp.ExtendedCommunityInterface
	src    int    // model source id
	uid    int    // the model's id of the object now stored (a soft reset in may replace it by a clone)
	def    string // the rest of the model's path line after "uid root"
}

type c17World struct {
	w      *vWorld
	o      *vOut
	srcs   []*c17Peer
	obs    []*c17Peer
	ces    []*c17Peer
	ceVrf  []int // index into vrfs
	vrfs   []c17VrfDef
	marker int
	// harness bookkeeping
	memOn   []map[[3]uint64]bool   // per observer: live (rt key, as, path-id)
	obsView []map[string]int       // per observer: "rd pfx" -> marker
	ceView  []map[int]int          // per CE: pfx -> marker
	ann     map[string]*c17Live    // "src/pid/rd/pfx" -> live announcement from a PE source
	ceAnn   map[string]*c17Live    // "ce/pfx"
	green   bool
	greenPath *c17Live // the route added to VRF "green" through the API
	memCode []map[[2]uint64]bool // per observer: (key, origin AS) as rtmSet keeps them (the length is not part of its key)
	hadPartial []bool            // per observer: a partial-length membership was withdrawn through a twin key
	susp    []bool               // per observer: advertisement suppressed (local speaker restarting)
	shared  map[string]bool // "ce/prefix": imported under several RDs since the CE last held the right route
	policy  bool // a global import policy that modifies every route (adds a community): the table holds clones
	cloneID int
}

type c17VrfDef struct {
	id       int
	name     string
	rd       int
	imp, exp []bgp.ExtendedCommunityInterface
}

func c17Octets(e bgp.ExtendedCommunityInterface) (capable, transitive bool, num uint64) {
	num = c17ECNum(e)
	t := byte(num >> 56)
	return t&0xbf <= 2 && t&0x80 == 0, t&0x40 == 0, num
}

func c17ECList(l []bgp.ExtendedCommunityInterface) string {
	var sb strings.Builder
	fmt.Fprintf(&sb, "%d", len(l))
	for _, e := range l {
		fmt.Fprintf(&sb, " %d", c17ECNum(e))
	}
	return sb.String()
}

var c17RDNames = map[string]int{}

func init() {
	for i := 0; i < 12; i++ {
		c17RDNames[c17RD(i).String()] = i
	}
}

func c17PfxIdx(s string) int {
	for i, p := range c17Pfx {
		if p == s {
			return i
		}
	}
	return -1
}

func c17NewWorld(t testing.TB, o *vOut, policy ...bool) *c17World {
	cw := &c17World{w: newVWorld(t, 65000, "10.255.0.1"), o: o, ann: map[string]*c17Live{}, ceAnn: map[string]*c17Live{}, cloneID: 100000, shared: map[string]bool{}}
	w := cw.w
	if len(policy) > 0 && policy[0] {
		cw.policy = true
		pol := &api.Policy{Name: "c17-import", Statements: []*api.Statement{{Name: "c17-mark",
			Actions: &api.Actions{RouteAction: api.RouteAction_ROUTE_ACTION_ACCEPT,
				Community: &api.CommunityAction{Type: api.CommunityAction_TYPE_ADD, Communities: []string{"65000:999"}}}}}}
		if err := w.s.AddPolicy(context.Background(), &api.AddPolicyRequest{Policy: pol}); err != nil {
			t.Fatal(err)
		}
		if err := w.s.AddPolicyAssignment(context.Background(), &api.AddPolicyAssignmentRequest{Assignment: &api.PolicyAssignment{
			Name: table.GLOBAL_RIB_NAME, Direction: api.PolicyDirection_POLICY_DIRECTION_IMPORT, Policies: []*api.Policy{pol},
			DefaultAction: api.RouteAction_ROUTE_ACTION_ACCEPT}}); err != nil {
			t.Fatal(err)
		}
		o.stat("world_with_modifying_import_policy", 1)
	} else {
		o.stat("world_without_import_policy", 1)
	}
	X, Y, Z := c17EC(0, 1, true), c17EC(0, 2, true), c17EC(0, 3, true)
	cw.vrfs = []c17VrfDef{
		{id: 1, name: "red", rd: 1, imp: []bgp.ExtendedCommunityInterface{X, c17EC(0, 12, false)}, exp: []bgp.ExtendedCommunityInterface{X}},
		{id: 2, name: "blue", rd: 2, imp: []bgp.ExtendedCommunityInterface{Y, Z, c17EC(1, 1, true)}, exp: []bgp.ExtendedCommunityInterface{Y, c17EC(2, 1, true)}},
	}
	o.op("reset")
	for i, v := range cw.vrfs {
		if err := c17AddVrf(w, v.name, v.rd, v.imp, v.exp); err != nil {
			t.Fatal(err)
		}
		// the VRF as the server holds it (the API conversion of route targets keeps value and
		// format but not a cleared transitive bit); import order is irrelevant, keep ours
		if rv, ok := w.s.globalRib.GetVrf(v.name); ok {
			for j, e := range v.imp {
				for _, a := range rv.ImportRt.ToSlice() {
					if a.String() == e.String() {
						if _, _, x := c17Octets(a); x&^(1<<62) == c17ECNum(e)&^(1<<62) {
							v.imp[j] = a
						}
					}
				}
			}
			v.exp = append([]bgp.ExtendedCommunityInterface{}, rv.ExportRt...)
			cw.vrfs[i] = v
		}
		o.ask("ok", "vrf %d %d 0 %s %s", v.id, v.rd, c17ECList(v.imp), c17ECList(v.exp))
	}
	mk := func(i int, kind string, as uint32, rtc, addrx bool, vrf string) *c17Peer {
		return c17AddPeer(w, c17PeerSpec{vwPeerSpec: vwPeerSpec{kind: kind, as: as, rid: netip.MustParseAddr(fmt.Sprintf("10.0.0.%d", i)), addr: netip.MustParseAddr(fmt.Sprintf("192.168.0.%d", i))}, rtc: rtc, vpnAddRx: addrx, vrf: vrf})
	}
	cw.srcs = []*c17Peer{mk(1, "rrc", 65000, false, false, ""), mk(2, "rrc", 65000, false, false, ""), mk(3, "rrc", 65000, false, true, ""), mk(4, "rrc", 65000, false, true, "")}
	cw.obs = []*c17Peer{mk(21, "rrc", 65000, true, false, ""), mk(22, "rrc", 65000, true, false, "")}
	cw.ces = []*c17Peer{mk(31, "ebgp", 65101, false, false, "red"), mk(32, "ebgp", 65102, false, false, "blue")}
	cw.ceVrf = []int{0, 1}
	for range cw.obs {
		cw.memOn = append(cw.memOn, map[[3]uint64]bool{})
		cw.memCode = append(cw.memCode, map[[2]uint64]bool{})
		cw.susp = append(cw.susp, false)
		cw.hadPartial = append(cw.hadPartial, false)
		cw.obsView = append(cw.obsView, map[string]int{})
	}
	for range cw.ces {
		cw.ceView = append(cw.ceView, map[int]int{})
	}
	for _, l := range [][]*c17Peer{cw.srcs, cw.obs, cw.ces} {
		for _, p := range l {
			c17SessionUp(w, p)
		}
	}
	cw.flushAll(nil, nil)
	return cw
}

// flushPeer plays sendMessageloop for one peer and returns the VPNv4 and plain IPv4 route changes
// it was sent, in canonical order ("A rd pfx marker" / "W rd pfx"; "A pfx marker" / "W pfx").
func (cw *c17World) flushPeer(cp *c17Peer) (vpn []string, plain []string) {
	w := cw.w
	paths := w.drain(cp.vwPeer)
	if !cp.up || len(paths) == 0 {
		return nil, nil
	}
	f := cp.p.fsm
	opt := &bgp.MarshallingOption{AddPath: f.familyMap.Load().(map[bgp.Family]bgp.BGPAddPathMode), ExtendedMessage: f.extendedMessage.Load()}
	ropt := &bgp.MarshallingOption{AddPath: map[bgp.Family]bgp.BGPAddPathMode{}, ExtendedMessage: opt.ExtendedMessage}
	for fam, mode := range opt.AddPath {
		var r bgp.BGPAddPathMode
		if mode&bgp.BGP_ADD_PATH_SEND != 0 {
			r |= bgp.BGP_ADD_PATH_RECEIVE
		}
		if mode&bgp.BGP_ADD_PATH_RECEIVE != 0 {
			r |= bgp.BGP_ADD_PATH_SEND
		}
		ropt.AddPath[fam] = r
	}
	type ch struct {
		key  int
		text string
	}
	var vs, ps []ch
	for _, msg := range table.CreateUpdateMsgFromPaths(paths, opt) {
		b, err := msg.Serialize(opt)
		if err != nil {
			continue
		}
		pm, err := bgp.ParseBGPMessage(b, ropt)
		if err != nil {
			w.t.Fatalf("far end cannot parse what was sent: %v", err)
		}
		u := pm.Body.(*bgp.BGPUpdate)
		marker := int(vwMarker(u.PathAttributes))
		for _, wd := range u.WithdrawnRoutes {
			x := c17PfxIdx(wd.NLRI.String())
			ps = append(ps, ch{x * 2, fmt.Sprintf("W %d", x)})
		}
		for _, n := range u.NLRI {
			x := c17PfxIdx(n.NLRI.String())
			ps = append(ps, ch{x*2 + 1, fmt.Sprintf("A %d %d", x, marker)})
		}
		for _, a := range u.PathAttributes {
			switch v := a.(type) {
			case *bgp.PathAttributeMpUnreachNLRI:
				for _, n := range v.Value {
					if vn, ok := n.NLRI.(*bgp.LabeledVPNIPAddrPrefix); ok {
						rd, x := c17RDNames[vn.RD.String()], c17PfxIdx(vn.Prefix.String())
						vs = append(vs, ch{(rd*1000000 + x) * 2, fmt.Sprintf("W %d %d", rd, x)})
					}
				}
			case *bgp.PathAttributeMpReachNLRI:
				for _, n := range v.Value {
					if vn, ok := n.NLRI.(*bgp.LabeledVPNIPAddrPrefix); ok {
						rd, x := c17RDNames[vn.RD.String()], c17PfxIdx(vn.Prefix.String())
						vs = append(vs, ch{(rd*1000000+x)*2 + 1, fmt.Sprintf("A %d %d %d", rd, x, marker)})
					}
				}
			}
		}
	}
	// a batch may carry several changes of one NLRI (in order); the sort is stable
	sort.SliceStable(vs, func(a, b int) bool { return vs[a].key < vs[b].key })
	sort.SliceStable(ps, func(a, b int) bool { return ps[a].key < ps[b].key })
	for _, c := range vs {
		vpn = append(vpn, c.text)
	}
	for _, c := range ps {
		plain = append(plain, c.text)
	}
	return
}

func c17Join(l []string) string {
	if len(l) == 0 {
		return "-"
	}
	return strings.Join(l, ";")
}

func c17ApplyVpn(view map[string]int, msgs []string) {
	for _, m := range msgs {
		var rd, x, mk int
		if m[0] == 'A' {
			fmt.Sscanf(m, "A %d %d %d", &rd, &x, &mk)
			view[fmt.Sprintf("%d %d", rd, x)] = mk
		} else {
			fmt.Sscanf(m, "W %d %d", &rd, &x)
			delete(view, fmt.Sprintf("%d %d", rd, x))
		}
	}
}

func c17ApplyPlain(view map[int]int, msgs []string) {
	for _, m := range msgs {
		var x, mk int
		if m[0] == 'A' {
			fmt.Sscanf(m, "A %d %d", &x, &mk)
			view[x] = mk
		} else {
			fmt.Sscanf(m, "W %d", &x)
			delete(view, x)
		}
	}
}

// flushAll flushes every peer; askObs / askCE (may be nil) receive what observer i / CE i was sent.
func (cw *c17World) flushAll(askObs func(i int, msgs []string), askCE func(i int, msgs []string)) {
	for _, p := range cw.srcs {
		cw.flushPeer(p)
	}
	for i, p := range cw.obs {
		vpn, _ := cw.flushPeer(p)
		if askObs != nil {
			askObs(i, vpn) // sees the view as it was before these messages
		}
		c17ApplyVpn(cw.obsView[i], vpn)
	}
	for i, p := range cw.ces {
		_, plain := cw.flushPeer(p)
		if askCE != nil {
			askCE(i, plain)
		}
		c17ApplyPlain(cw.ceView[i], plain)
	}
}

// ---- oracles ----------------------------------------------------------------------------------

// interested: RFC 4684 - a membership of prefix length L covers a route target iff their first L-32
// bits agree (L <= 32: origin AS only or default, covers everything). memOn keys are (route target
// as sent, zero-padded to L; origin AS; L).
func (cw *c17World) interested(i int, ecs []bgp.ExtendedCommunityInterface) bool {
	for k := range cw.memOn[i] {
		if k[2] <= 32 {
			return true
		}
	}
	for _, e := range ecs {
		capable, _, num := c17Octets(e)
		if !capable {
			continue
		}
		for k := range cw.memOn[i] {
			if (num^k[0])>>(96-k[2]) == 0 {
				return true
			}
		}
	}
	return false
}

// interestedAsCoded: what rtmSet does - the zero-padded value is an exact key, whatever the length
func (cw *c17World) interestedAsCoded(i int, ecs []bgp.ExtendedCommunityInterface) bool {
	for k := range cw.memCode[i] {
		if k[0] == 0 {
			return true
		}
	}
	for _, e := range ecs {
		capable, _, num := c17Octets(e)
		if !capable {
			continue
		}
		for k := range cw.memCode[i] {
			if k[0] == num {
				return true
			}
		}
	}
	return false
}

func (cw *c17World) importable(v c17VrfDef, ecs []bgp.ExtendedCommunityInterface) bool {
	for _, e := range ecs {
		capable, tr, num := c17Octets(e)
		if !capable || !tr {
			continue
		}
		for _, i := range v.imp {
			if c17ECNum(i) == num {
				return true
			}
		}
	}
	return false
}

func c17ViewStr[K comparable](m map[K]int) string {
	l := make([]string, 0, len(m))
	for k, v := range m {
		l = append(l, fmt.Sprintf("%v=%d", k, v))
	}
	sort.Strings(l)
	return strings.Join(l, ",")
}

// checkLocalRtm: the RT memberships this speaker originates == import targets of the configured VRFs
func (cw *c17World) checkLocalRtm(after string, hist *[]string) {
	want := map[uint64]bool{}
	for _, v := range cw.vrfs {
		for _, e := range v.imp {
			want[c17ECNum(e)] = true
		}
	}
	if cw.green {
		want[c17ECNum(c17EC(0, 1, true))] = true
		want[c17ECNum(c17EC(0, 4, true))] = true
	}
	have := map[uint64]bool{}
	for _, p := range cw.w.s.globalRib.GetPathList(table.GLOBAL_RIB_NAME, 0, []bgp.Family{bgp.RF_RTC_UC}) {
		if p.IsLocal() {
			k, _ := p.GetNlri().(*bgp.RouteTargetMembershipNLRI).RouteTargetKey()
			have[k] = true
		}
	}
	if fmt.Sprint(want) != fmt.Sprint(have) {
		cls := "vrf-local-membership"
		if after == "delvrf green" {
			cls = "vrf-delete-local-membership-not-withdrawn"
		}
		cw.o.fail(cls, map[string]any{"after": after, "locally-originated": fmt.Sprint(have), "import-targets-of-the-vrfs": fmt.Sprint(want), "history": append([]string{}, *hist...)})
	}
}

func (cw *c17World) checkViews(after string, hist *[]string) {
	cw.checkLocalRtm(after, hist)
	if after != "" {
		cw.checkVrfInfo(after, hist)
	}
	bests := cw.w.s.globalRib.GetBestPathList(table.GLOBAL_RIB_NAME, 0, []bgp.Family{bgp.RF_IPv4_VPN})
	for i, p := range cw.obs {
		if !p.up {
			continue
		}
		want, asCoded := map[string]int{}, map[string]int{}
		partial := false
		for k := range cw.memOn[i] {
			if k[2] > 32 && k[2] < 96 {
				partial = true
			}
		}
		for _, b := range bests {
			vn := b.GetNlri().(*bgp.LabeledVPNIPAddrPrefix)
			key := fmt.Sprintf("%d %d", c17RDNames[vn.RD.String()], c17PfxIdx(vn.Prefix.String()))
			if cw.susp[i] {
				continue // nothing may have been sent yet
			}
			if cw.interestedAsCoded(i, b.GetExtCommunities()) {
				asCoded[key] = int(vwMarker(b.GetPathAttrs()))
			}
			if cw.interested(i, b.GetExtCommunities()) {
				want[key] = int(vwMarker(b.GetPathAttrs()))
				cw.o.stat("obs_route_wanted", 1)
			} else {
				cw.o.stat("obs_route_filtered", 1)
			}
		}
		if c17ViewStr(want) != c17ViewStr(cw.obsView[i]) {
			cls := "rtc-invariant"
			if (partial || cw.hadPartial[i]) && c17ViewStr(asCoded) == c17ViewStr(cw.obsView[i]) {
				// known finding: a membership of length 33..95 is kept as an exact key (zero-padded), not as a prefix
				cls = "rtc-partial-length-membership-not-prefix-matched"
			}
			cw.o.fail(cls, map[string]any{"after": after, "observer": i, "holds": c17ViewStr(cw.obsView[i]), "entitled": c17ViewStr(want),
				"memberships (rt, origin AS, length)": fmt.Sprint(cw.memOn[i]), "suppressed": cw.susp[i], "history": append([]string{}, *hist...)})
		}
	}
	for i, p := range cw.ces {
		if !p.up {
			continue
		}
		v := cw.vrfs[cw.ceVrf[i]]
		// The VRF's view of a prefix: the importable best paths of ALL VPN destinations (rd, prefix),
		// of which the VRF neighbor is to hold the most preferred one (RFC 4364: one route per
		// prefix in the VRF). cands[x] = (marker, LOCAL_PREF) per RD.
		type cand struct {
			marker int
			lp     uint32
		}
		cands := map[int][]cand{}
		for _, b := range bests {
			if b.GetSource().Address == p.spec.addr {
				continue
			}
			if cw.importable(v, b.GetExtCommunities()) {
				vn := b.GetNlri().(*bgp.LabeledVPNIPAddrPrefix)
				lp, _ := b.GetLocalPref()
				x := c17PfxIdx(vn.Prefix.String())
				cands[x] = append(cands[x], cand{int(vwMarker(b.GetPathAttrs())), lp})
				cw.o.stat("ce_route_imported", 1)
			} else {
				cw.o.stat("ce_route_not_imported", 1)
			}
		}
		fail := func(cls string, x int) {
			cw.o.fail(cls, map[string]any{"after": after, "ce": i, "vrf": v.name, "prefix": c17Pfx[x], "holds": c17ViewStr(cw.ceView[i]),
				"importable-routes (marker, local-pref) per rd": fmt.Sprint(cands[x]), "history": append([]string{}, *hist...)})
		}
		for x, held := range cw.ceView[i] {
			if len(cands[x]) == 0 {
				fail("vrf-ce-view", x)
				_ = held
			}
		}
		for x, cs := range cands {
			held, ok := cw.ceView[i][x]
			skey := fmt.Sprintf("%d/%d", i, x)
			if len(cs) == 1 {
				switch {
				case ok && held == cs[0].marker:
					delete(cw.shared, skey)
				case !ok && cw.shared[skey]:
					// known finding: the prefix was imported under several RDs, one of them went away
					// (withdrawn, or replaced by a route that is not imported) and took the prefix with it
					fail("vrf-ce-lost-route-with-other-rd", x)
				default:
					fail("vrf-ce-view", x)
				}
				continue
			}
			cw.shared[skey] = true
			cw.o.stat("ce_prefix_under_several_rds", 1)
			top := cs[0].lp
			for _, c := range cs {
				if c.lp > top {
					top = c.lp
				}
			}
			isCand, isBest := false, false
			for _, c := range cs {
				if ok && c.marker == held {
					isCand = true
					isBest = c.lp == top
				}
			}
			switch {
			case !ok:
				// known finding: the withdrawal of ONE of the VPN destinations took the prefix away
				fail("vrf-ce-lost-route-with-other-rd", x)
			case !isCand:
				fail("vrf-ce-view", x)
			case !isBest:
				// known finding: the last destination that changed wins, not the most preferred
				fail("vrf-ce-not-best-among-rds", x)
			}
		}
	}
}

// ---- events -----------------------------------------------------------------------------------

func (cw *c17World) do(ev c17Ev, hist *[]string) {
	w, o := cw.w, cw.o
	desc := ""
	askObs := func(i int, msgs []string) {
		o.ask(c17Join(msgs), "chg %d", i)
		// a route change must not withdraw what the observer does not hold
		for _, m := range msgs {
			var rd, x int
			if m[0] == 'W' {
				fmt.Sscanf(m, "W %d %d", &rd, &x)
				if _, ok := cw.obsView[i][fmt.Sprintf("%d %d", rd, x)]; !ok {
					o.fail("rtc-spurious-withdraw", map[string]any{"observer": i, "sent": m, "holds": c17ViewStr(cw.obsView[i]), "history": append([]string{}, *hist...)})
				}
			}
		}
	}
	askCE := func(i int, msgs []string) {
		o.ask(c17Join(msgs), "cechg %d", cw.vrfs[cw.ceVrf[i]].id)
		for _, m := range msgs {
			var x int
			if m[0] == 'W' {
				fmt.Sscanf(m, "W %d", &x)
				if _, ok := cw.ceView[i][x]; !ok && x != 0 { // prefix 0 is announced under two RDs
					o.fail("vrf-ce-spurious-withdraw", map[string]any{"ce": i, "sent": m, "holds": c17ViewStr(cw.ceView[i]), "history": append([]string{}, *hist...)})
				}
			}
		}
	}
	switch ev.kind {
	case "ann":
		cw.marker++
		src := cw.srcs[ev.peer]
		pref := 100 + ev.lpr*64 + ev.peer*4 + ev.pid
		r := &c17Route{rd: ev.rd, pfx: ev.pfx, pathID: ev.pid, marker: cw.marker, lp: uint32(pref), ecs: ev.ecs}
		def := fmt.Sprintf("%d %d %d %d %d %d %d %s", ev.peer+1, ev.pid, ev.rd, ev.pfx, 1000+ev.rd, pref, cw.marker, c17ECList(ev.ecs))
		o.op("path %d %d %s", cw.marker, cw.marker, def)
		o.op("upd %d 0", cw.marker)
		cw.ann[fmt.Sprintf("%d/%d/%d/%d", ev.peer, ev.pid, ev.rd, ev.pfx)] = &c17Live{marker: cw.marker, ecs: ev.ecs, uid: cw.marker, def: def}
		desc = fmt.Sprintf("ann src=%d pid=%d rd=%d pfx=%d lp=%d marker=%d ecs=%s", ev.peer, ev.pid, ev.rd, ev.pfx, pref, cw.marker, c17ECList(ev.ecs))
		*hist = append(*hist, desc)
		w.recv(src.vwPeer, r.msg(src))
		o.stat("vpn_announce", 1)
		cw.flushAll(askObs, askCE)
	case "wd":
		k := fmt.Sprintf("%d/%d/%d/%d", ev.peer, ev.pid, ev.rd, ev.pfx)
		l, ok := cw.ann[k]
		if !ok {
			return
		}
		delete(cw.ann, k)
		src := cw.srcs[ev.peer]
		r := &c17Route{rd: ev.rd, pfx: ev.pfx, pathID: ev.pid}
		o.op("upd %d 1", l.uid)
		desc = fmt.Sprintf("wd src=%d pid=%d rd=%d pfx=%d (marker %d)", ev.peer, ev.pid, ev.rd, ev.pfx, l.marker)
		*hist = append(*hist, desc)
		w.recv(src.vwPeer, r.wd())
		o.stat("vpn_withdraw", 1)
		cw.flushAll(askObs, askCE)
	case "mem":
		ob := cw.obs[ev.peer]
		if !ob.up {
			return
		}
		var key uint64
		capable := true
		if ev.rt != nil {
			capable, _, key = c17Octets(ev.rt)
		}
		if !capable {
			return
		}
		L := ev.memLen
		if L == 0 {
			switch {
			case ev.rt != nil:
				L = 96
			case ev.as != 0:
				L = 32
			}
		}
		if ev.rt == nil && L > 32 {
			return
		}
		if L <= 32 {
			key = 0
		} else {
			key &= ^uint64(0) << (96 - L) // what is on the wire and what the receiver zero-pads
		}
		if L > 32 && L < 96 {
			o.stat("mem_partial_length", 1)
		} else {
			o.stat(fmt.Sprintf("mem_length_%d", L), 1)
		}
		before := cw.interestedKey(ev.peer, key)
		k := [3]uint64{key, uint64(ev.as), uint64(L)}
		if ev.memWd {
			delete(cw.memOn[ev.peer], k)
			delete(cw.memCode[ev.peer], [2]uint64{key, uint64(ev.as)})
			if L > 32 && L < 96 {
				cw.hadPartial[ev.peer] = true
			}
		} else {
			cw.memOn[ev.peer][k] = true
			cw.memCode[ev.peer][[2]uint64{key, uint64(ev.as)}] = true
		}
		after := cw.interestedKey(ev.peer, key)
		c17RtmLen = -1
		if ev.memLen != 0 || (ev.rt == nil && ev.as != 0) {
			c17RtmLen = L
		}
		desc = fmt.Sprintf("mem obs=%d rt=%d/%d as=%d wd=%v lp=%d suppressed=%v", ev.peer, key, L, ev.as, ev.memWd, []uint32{100, 200, 200, 50}[ev.lpr%4], cw.susp[ev.peer])
		*hist = append(*hist, desc)
		held := map[string]int{}
		for k, v := range cw.obsView[ev.peer] {
			held[k] = v
		}
		// the membership may be preferred over (200), tie with (100) or lose against (50) the one this
		// speaker originates for the same target
		w.recv(ob.vwPeer, c17Rtm(ob, ev.as, ev.rt, ev.memWd, []uint32{100, 200, 200, 50}[ev.lpr%4]))
		c17RtmLen = -1
		if ev.memWd {
			o.stat("mem_withdraw", 1)
		} else {
			o.stat("mem_announce", 1)
		}
		cw.flushAll(func(i int, msgs []string) {
			if i != ev.peer {
				if len(msgs) != 0 {
					o.fail("rtc-minimal", map[string]any{"after": desc, "other-observer-was-sent": msgs})
				}
				return
			}
			o.ask(c17Join(msgs), "rtc %d %d %d 0 %d 0", i, key, ev.as, b2iC17(ev.memWd))
			// delta exactness
			switch {
			case cw.susp[ev.peer]:
				o.stat("mem_while_suppressed", 1)
				if len(msgs) != 0 {
					o.fail("rtc-minimal", map[string]any{"after": desc, "sent-while-updates-are-deferred": msgs, "history": append([]string{}, *hist...)})
				}
			case before == after:
				o.stat("mem_interest_unchanged", 1)
				if len(msgs) != 0 {
					o.fail("rtc-minimal", map[string]any{"after": desc, "interest": "unchanged", "sent": msgs, "history": append([]string{}, *hist...)})
				}
			case ev.memWd:
				o.stat("mem_last_interest", 1)
				for _, m := range msgs {
					var rd, x int
					if m[0] != 'W' {
						o.fail("rtc-minimal", map[string]any{"after": desc, "interest": "lost", "sent": msgs, "history": append([]string{}, *hist...)})
						break
					}
					fmt.Sscanf(m, "W %d %d", &rd, &x)
					if _, ok := held[fmt.Sprintf("%d %d", rd, x)]; !ok {
						o.fail("rtc-minimal", map[string]any{"after": desc, "withdrawn-but-not-held": m, "history": append([]string{}, *hist...)})
					}
				}
			default:
				o.stat("mem_first_interest", 1)
				for _, m := range msgs {
					var rd, x, mk int
					if m[0] != 'A' {
						o.fail("rtc-minimal", map[string]any{"after": desc, "interest": "gained", "sent": msgs, "history": append([]string{}, *hist...)})
						break
					}
					fmt.Sscanf(m, "A %d %d %d", &rd, &x, &mk)
					if held[fmt.Sprintf("%d %d", rd, x)] == mk {
						// known, harmless: a route already held through another target is sent again
						o.stat("redundant_readvertisement", 1)
					}
				}
			}
		}, func(i int, msgs []string) {
			if len(msgs) != 0 {
				o.fail("rtc-minimal", map[string]any{"after": desc, "ce-was-sent": msgs})
			}
		})
	case "cean":
		cw.marker++
		ce := cw.ces[ev.peer]
		v := cw.vrfs[cw.ceVrf[ev.peer]]
		n, _ := bgp.NewIPAddrPrefix(netip.MustParsePrefix(c17Pfx[ev.pfx]))
		nh, _ := bgp.NewPathAttributeNextHop(ce.spec.addr)
		attrs := []bgp.PathAttributeInterface{bgp.NewPathAttributeOrigin(0),
			bgp.NewPathAttributeAsPath([]bgp.AsPathParamInterface{bgp.NewAs4PathParam(2, []uint32{ce.spec.as})}), nh,
			bgp.NewPathAttributeCommunities([]uint32{0xfffe0000 | uint32(cw.marker)})}
		if len(ev.ecs) > 0 {
			attrs = append(attrs, bgp.NewPathAttributeExtendedCommunities(ev.ecs))
		}
		all := append(append([]bgp.ExtendedCommunityInterface{}, ev.ecs...), v.exp...)
		o.ask(fmt.Sprintf("%d %d 0 %d %s", v.rd, ev.pfx, cw.marker, c17ShowECs(all)), "toglobal %d %d %d %s", v.id, ev.pfx, cw.marker, c17ECList(ev.ecs))
		cedef := fmt.Sprintf("%d 0 %d %d 0 100 %d %s", 11+ev.peer, v.rd, ev.pfx, cw.marker, c17ECList(all))
		o.op("path %d %d %s", cw.marker, cw.marker, cedef)
		o.op("upd %d 0", cw.marker)
		cw.ceAnn[fmt.Sprintf("%d/%d", ev.peer, ev.pfx)] = &c17Live{marker: cw.marker, uid: cw.marker, def: cedef}
		desc = fmt.Sprintf("ce-ann ce=%d pfx=%d marker=%d own-ecs=%s", ev.peer, ev.pfx, cw.marker, c17ECList(ev.ecs))
		*hist = append(*hist, desc)
		w.recv(ce.vwPeer, bgp.NewBGPUpdateMessage(nil, attrs, []bgp.PathNLRI{{NLRI: n}}))
		o.stat("ce_announce", 1)
		cw.flushAll(askObs, func(i int, msgs []string) {
			if i != ev.peer {
				askCE(i, msgs)
			} else if len(msgs) != 0 {
				o.fail("vrf-ce-view", map[string]any{"after": desc, "source-ce-was-sent": msgs})
			}
		})
		// oracle: exported with the VRF's RD, label (none assigned: 0) and export targets
		found := false
		for _, p := range w.s.globalRib.GetPathList(table.GLOBAL_RIB_NAME, 0, []bgp.Family{bgp.RF_IPv4_VPN}) {
			if int(vwMarker(p.GetPathAttrs())) != cw.marker {
				continue
			}
			found = true
			vn := p.GetNlri().(*bgp.LabeledVPNIPAddrPrefix)
			if vn.RD.String() != c17RD(v.rd).String() || vn.Prefix.String() != c17Pfx[ev.pfx] || c17ShowECs(p.GetExtCommunities()) != c17ShowECs(all) {
				o.fail("vrf-export", map[string]any{"after": desc, "nlri": vn.String(), "ecs": c17ShowECs(p.GetExtCommunities()), "expected-ecs": c17ShowECs(all)})
			}
		}
		if !found {
			o.fail("vrf-export", map[string]any{"after": desc, "what": "route not in the global VPN table"})
		}
	case "cewd":
		k := fmt.Sprintf("%d/%d", ev.peer, ev.pfx)
		l, ok := cw.ceAnn[k]
		if !ok {
			return
		}
		delete(cw.ceAnn, k)
		ce := cw.ces[ev.peer]
		n, _ := bgp.NewIPAddrPrefix(netip.MustParsePrefix(c17Pfx[ev.pfx]))
		o.op("upd %d 1", l.uid)
		desc = fmt.Sprintf("ce-wd ce=%d pfx=%d (marker %d)", ev.peer, ev.pfx, l.marker)
		*hist = append(*hist, desc)
		w.recv(ce.vwPeer, bgp.NewBGPUpdateMessage([]bgp.PathNLRI{{NLRI: n}}, nil, nil))
		o.stat("ce_withdraw", 1)
		cw.flushAll(askObs, func(i int, msgs []string) {
			if i != ev.peer {
				askCE(i, msgs)
			}
		})
	case "softin", "cesoftin":
		// soft reset in: the Adj-RIB-In paths of the peer are fed again. Without a modifying import
		// policy the table is handed the very objects it holds; with one, new clones of the same
		// announcements; for a VRF neighbor ToGlobal builds new paths. Nothing changes, so nothing
		// must be sent - and the routes must still be found by RT afterwards.
		var addr string
		var live []*c17Live
		if ev.kind == "softin" {
			addr = cw.srcs[ev.peer].spec.addr.String()
			pre := fmt.Sprintf("%d/", ev.peer)
			for _, k := range c17Keys(cw.ann) {
				if strings.HasPrefix(k, pre) {
					live = append(live, cw.ann[k])
				}
			}
		} else {
			addr = cw.ces[ev.peer].spec.addr.String()
			pre := fmt.Sprintf("%d/", ev.peer)
			for _, k := range c17Keys(cw.ceAnn) {
				if strings.HasPrefix(k, pre) {
					live = append(live, cw.ceAnn[k])
				}
			}
		}
		desc = fmt.Sprintf("%s peer=%d (%d routes, modifying import policy: %v)", ev.kind, ev.peer, len(live), cw.policy)
		*hist = append(*hist, desc)
		if err := w.s.softResetIn(addr, bgp.Family(0)); err != nil {
			o.fail("soft-reset-in", err.Error())
		}
		o.stat("soft_reset_in", 1)
		o.stat("soft_reset_in_routes", len(live))
		obsMsgs := make([][]string, len(cw.obs))
		ceMsgs := make([][]string, len(cw.ces))
		cw.flushAll(func(i int, msgs []string) { obsMsgs[i] = msgs }, func(i int, msgs []string) { ceMsgs[i] = msgs })
		for n, l := range live {
			switch {
			case ev.kind == "cesoftin":
				cw.cloneID++
				l.uid = cw.cloneID
				o.op("path %d %d %s", l.uid, l.uid, l.def) // a new announcement object with the same content
			case cw.policy:
				cw.cloneID++
				l.uid = cw.cloneID
				o.op("path %d %d %s", l.uid, l.marker, l.def) // a new clone of the same announcement
			}
			o.op("upd %d 0", l.uid)
			for i := range cw.obs {
				if n == 0 {
					o.ask(c17Join(obsMsgs[i]), "chg %d", i)
				} else {
					o.ask("-", "chg %d", i)
				}
			}
			for i := range cw.ces {
				if ev.kind == "cesoftin" && i == ev.peer {
					continue
				}
				if n == 0 {
					o.ask(c17Join(ceMsgs[i]), "cechg %d", cw.vrfs[cw.ceVrf[i]].id)
				} else {
					o.ask("-", "cechg %d", cw.vrfs[cw.ceVrf[i]].id)
				}
			}
		}
		if len(live) == 0 {
			for i := range cw.obs {
				if len(obsMsgs[i]) != 0 {
					o.fail("rtc-minimal", map[string]any{"after": desc, "observer-was-sent": obsMsgs[i]})
				}
			}
		}
	case "suspend":
		// A new session on which the local speaker is the restarting one (RFC 4724 4.1): updates toward
		// the peer are deferred. The peer's memberships must be recorded all the same, so that the
		// deferred table transfer honours them.
		ob := cw.obs[ev.peer]
		if cw.susp[ev.peer] {
			return
		}
		desc = fmt.Sprintf("suspend obs=%d (session restarted, local speaker restarting: updates deferred)", ev.peer)
		*hist = append(*hist, desc)
		w.sessionDown(ob.vwPeer, fsmReadFailed)
		cw.memOn[ev.peer] = map[[3]uint64]bool{}
		cw.memCode[ev.peer] = map[[2]uint64]bool{}
		cw.hadPartial[ev.peer] = false
		cw.obsView[ev.peer] = map[string]int{}
		o.op("memreset %d", ev.peer)
		cw.flushAll(nil, nil)
		c17SessionUp(w, ob)
		cw.flushAll(nil, nil)
		ob.p.fsm.lock.Lock()
		pc := ob.p.fsm.pConf.ReadCopy()
		pc.GracefulRestart.State.LocalRestarting = true
		ob.p.fsm.pConf.Update(&pc)
		ob.p.fsm.lock.Unlock()
		cw.susp[ev.peer] = true
		o.op("suspend %d", ev.peer)
		o.stat("observer_suspend", 1)
	case "resume":
		ob := cw.obs[ev.peer]
		if !cw.susp[ev.peer] {
			return
		}
		desc = fmt.Sprintf("resume obs=%d (deferral over: deferred table transfer)", ev.peer)
		*hist = append(*hist, desc)
		if err := w.s.softResetOut(ob.spec.addr.String(), bgp.Family(0), true); err != nil {
			o.fail("resume", err.Error())
		}
		cw.susp[ev.peer] = false
		o.stat("observer_resume", 1)
		cw.flushAll(func(i int, msgs []string) {
			if i == ev.peer {
				o.ask(c17Join(msgs), "resume %d", i)
			} else if len(msgs) != 0 {
				o.fail("rtc-minimal", map[string]any{"after": desc, "other-observer-was-sent": msgs})
			}
		}, cw.noPlain(desc))
	case "bounce":
		ob := cw.obs[ev.peer]
		if cw.susp[ev.peer] {
			return
		}
		desc = fmt.Sprintf("bounce obs=%d", ev.peer)
		*hist = append(*hist, desc)
		w.sessionDown(ob.vwPeer, fsmReadFailed)
		cw.memOn[ev.peer] = map[[3]uint64]bool{}
		cw.memCode[ev.peer] = map[[2]uint64]bool{}
		cw.hadPartial[ev.peer] = false
		cw.obsView[ev.peer] = map[string]int{}
		o.op("memreset %d", ev.peer)
		cw.flushAll(nil, nil)
		c17SessionUp(w, ob)
		o.stat("observer_bounce", 1)
		cw.flushAll(nil, nil)
	case "addvrf":
		if cw.green {
			return
		}
		cw.green = true
		desc = "addvrf green"
		*hist = append(*hist, desc)
		if err := c17AddVrf(w, "green", 3, []bgp.ExtendedCommunityInterface{c17EC(0, 1, true), c17EC(0, 4, true)}, nil); err != nil {
			o.fail("vrf-add", err.Error())
		}
		o.stat("vrf_add", 1)
		o.ask("ok", "vrf 3 3 0 %s 0", c17ECList([]bgp.ExtendedCommunityInterface{c17EC(0, 1, true), c17EC(0, 4, true)}))
		cw.flushAll(cw.noVpn(desc), cw.noPlain(desc))
		cw.checkNoOriginated(desc, hist)
	case "vrfpath":
		// a route added to the VRF "green" through the API (AddPath with the VRF id): exported with
		// its RD; another PE may announce the same RD:prefix with a higher or lower LOCAL_PREF
		if !cw.green {
			return
		}
		cw.marker++
		pref := 115 + ev.lpr*64
		n, _ := bgp.NewIPAddrPrefix(netip.MustParsePrefix(c17Pfx[8]))
		nh, _ := bgp.NewPathAttributeNextHop(netip.MustParseAddr("0.0.0.0"))
		attrs := []bgp.PathAttributeInterface{bgp.NewPathAttributeOrigin(0), nh, bgp.NewPathAttributeLocalPref(uint32(pref)),
			bgp.NewPathAttributeCommunities([]uint32{0xfffe0000 | uint32(cw.marker)})}
		ap, err := apiutil.NewPath(bgp.RF_IPv4_UC, n, false, attrs, time.Now())
		if err != nil {
			t := err.Error()
			o.fail("vrf-add-path", t)
			return
		}
		up, err := api2apiutilPath(ap)
		if err != nil {
			o.fail("vrf-add-path", err.Error())
			return
		}
		def := fmt.Sprintf("0 0 3 8 0 %d %d 0", pref, cw.marker)
		o.op("path %d %d %s", cw.marker, cw.marker, def)
		o.op("upd %d 0", cw.marker)
		cw.greenPath = &c17Live{marker: cw.marker, uid: cw.marker, def: def}
		desc = fmt.Sprintf("vrf-add-path green %s lp=%d marker=%d", c17Pfx[8], pref, cw.marker)
		*hist = append(*hist, desc)
		if _, err := w.s.AddPath(apiutil.AddPathRequest{VRFID: "green", Paths: []*apiutil.Path{up}}); err != nil {
			o.fail("vrf-add-path", err.Error())
		}
		o.stat("vrf_add_path", 1)
		cw.flushAll(askObs, askCE)
		// oracle: exported under the VRF's RD
		found := false
		for _, p := range w.s.globalRib.GetPathList(table.GLOBAL_RIB_NAME, 0, []bgp.Family{bgp.RF_IPv4_VPN}) {
			if int(vwMarker(p.GetPathAttrs())) == cw.marker {
				found = true
				vn := p.GetNlri().(*bgp.LabeledVPNIPAddrPrefix)
				if vn.RD.String() != c17RD(3).String() || !p.IsLocal() {
					o.fail("vrf-export", map[string]any{"after": desc, "nlri": vn.String()})
				}
			}
		}
		if !found {
			o.fail("vrf-export", map[string]any{"after": desc, "what": "route not in the global VPN table"})
		}
	case "delvrf":
		if !cw.green {
			return
		}
		cw.green = false
		desc = "delvrf green"
		*hist = append(*hist, desc)
		localBefore := cw.originated()
		if len(localBefore) > 0 {
			if b := w.s.globalRib.GetBestPathList(table.GLOBAL_RIB_NAME, 0, []bgp.Family{bgp.RF_IPv4_VPN}); true {
				isBest := false
				for _, p := range b {
					if p.IsLocal() && int(vwMarker(p.GetPathAttrs())) == localBefore[0] {
						isBest = true
					}
				}
				if !isBest {
					o.stat("vrf_delete_originated_route_not_best", 1)
				}
			}
		}
		if err := w.s.DeleteVrf(context.Background(), &api.DeleteVrfRequest{Name: "green"}); err != nil {
			o.fail("vrf-delete", err.Error())
		}
		o.stat("vrf_delete", 1)
		// the routes originated in the VRF that DeleteVrf took out of the global table
		gone := []string{}
		after := map[int]bool{}
		for _, m := range cw.originated() {
			after[m] = true
		}
		for _, m := range localBefore {
			if !after[m] {
				gone = append(gone, fmt.Sprint(m))
			}
		}
		o.ask(c17Join2(gone), "delvrfpaths 3")
		cw.greenPath = nil
		if len(localBefore) > 0 {
			cw.flushAll(askObs, askCE)
		} else {
			cw.flushAll(cw.noVpn(desc), cw.noPlain(desc))
		}
		cw.checkNoOriginated(desc, hist)
	}
	cw.checkViews(desc, hist)
}

// originated: markers of the locally originated routes under the RD of VRF "green" in the global table
func (cw *c17World) originated() []int {
	var out []int
	for _, p := range cw.w.s.globalRib.GetPathList(table.GLOBAL_RIB_NAME, 0, []bgp.Family{bgp.RF_IPv4_VPN}) {
		if vn := p.GetNlri().(*bgp.LabeledVPNIPAddrPrefix); p.IsLocal() && vn.RD.String() == c17RD(3).String() {
			out = append(out, int(vwMarker(p.GetPathAttrs())))
		}
	}
	sort.Ints(out)
	return out
}

// checkNoOriginated: after the VRF was deleted, and when it is created again, no route originated in
// it may be in the global table, whatever its rank in its destination was
func (cw *c17World) checkNoOriginated(after string, hist *[]string) {
	if l := cw.originated(); len(l) > 0 {
		cw.o.fail("vrf-delete-originated-route-survives", map[string]any{"after": after, "locally originated routes under the VRF's RD": fmt.Sprint(l),
			"history": append([]string{}, *hist...)})
	}
}

// checkVrfInfo: GetTable(TABLE_TYPE_VRF) must count what the VRF's view holds: the importable paths
// and the destinations having one
func (cw *c17World) checkVrfInfo(after string, hist *[]string) {
	vrfs := append([]c17VrfDef{}, cw.vrfs...)
	if cw.green {
		vrfs = append(vrfs, c17VrfDef{id: 3, name: "green", rd: 3, imp: []bgp.ExtendedCommunityInterface{c17EC(0, 1, true), c17EC(0, 4, true)}})
	}
	paths := cw.w.s.globalRib.GetPathList(table.GLOBAL_RIB_NAME, 0, []bgp.Family{bgp.RF_IPv4_VPN})
	for _, v := range vrfs {
		perDest := map[string][2]int{}
		for _, p := range paths {
			c := perDest[p.GetNlri().String()]
			c[1]++
			if cw.importable(v, p.GetExtCommunities()) {
				c[0]++
			}
			perDest[p.GetNlri().String()] = c
		}
		wantD, wantP := 0, 0
		for _, c := range perDest {
			if c[0] > 0 {
				wantD++
				wantP += c[0]
				if c[0] < c[1] {
					cw.o.stat("vrf_info_destination_with_imported_and_foreign_paths", 1)
				}
			}
		}
		r, err := cw.w.s.GetTable(context.Background(), &api.GetTableRequest{TableType: api.TableType_TABLE_TYPE_VRF, Family: c17Fam(bgp.RF_IPv4_UC), Name: v.name})
		if err != nil {
			cw.o.fail("vrf-info", err.Error())
			continue
		}
		cw.o.ask(fmt.Sprintf("%d %d", r.NumDestination, r.NumPath), "vinfo %d", v.id)
		if int(r.NumDestination) != wantD || int(r.NumPath) != wantP {
			cw.o.fail("vrf-info", map[string]any{"after": after, "vrf": v.name, "GetTable.NumDestination": r.NumDestination, "GetTable.NumPath": r.NumPath,
				"destinations with an imported path": wantD, "imported paths": wantP, "history": append([]string{}, *hist...)})
		}
	}
}

func c17Join2(l []string) string {
	if len(l) == 0 {
		return "-"
	}
	return strings.Join(l, " ")
}

func c17Keys(m map[string]*c17Live) []string {
	keys := make([]string, 0, len(m))
	for k := range m {
		keys = append(keys, k)
	}
	sort.Strings(keys)
	return keys
}

func (cw *c17World) noVpn(desc string) func(int, []string) {
	return func(i int, msgs []string) {
		if len(msgs) != 0 {
			cw.o.fail("rtc-minimal", map[string]any{"after": desc, "observer-was-sent": msgs})
		}
	}
}

func (cw *c17World) noPlain(desc string) func(int, []string) {
	return func(i int, msgs []string) {
		if len(msgs) != 0 {
			cw.o.fail("vrf-ce-view", map[string]any{"after": desc, "ce-was-sent": msgs})
		}
	}
}

func (cw *c17World) interestedKey(i int, key uint64) bool {
	for k := range cw.memCode[i] {
		if k[0] == key {
			return true
		}
	}
	return false
}

func b2iC17(b bool) int {
	if b {
		return 1
	}
	return 0
}

func c17ShowECs(l []bgp.ExtendedCommunityInterface) string {
	if len(l) == 0 {
		return "-"
	}
	s := make([]string, len(l))
	for i, e := range l {
		s[i] = fmt.Sprint(c17ECNum(e))
	}
	return strings.Join(s, " ")
}

// ---- generator --------------------------------------------------------------------------------

var c17SrvPool []bgp.ExtendedCommunityInterface

func init() {
	for v := 1; v <= 3; v++ {
		c17SrvPool = append(c17SrvPool, c17EC(0, v, true))
	}
	// 65000:4 is imported by the VRF that comes and goes ("green") only
	c17SrvPool = append(c17SrvPool, c17EC(0, 4, true), c17EC(1, 1, true), c17EC(2, 1, true), c17EC(0, 1, false), c17EC(0, 12, false), c17EC(3, 1, true), c17EC(4, 1, true), c17EC(5, 7, true))
}

func c17GenECs(r *vRand) []bgp.ExtendedCommunityInterface {
	n := r.pick(0, 1, 1, 2, 2, 3)
	var l []bgp.ExtendedCommunityInterface
	for i := 0; i < n; i++ {
		if r.chance(70) {
			l = append(l, c17SrvPool[r.intn(3)])
		} else {
			l = append(l, c17SrvPool[r.intn(len(c17SrvPool))])
		}
	}
	return l
}

func c17GenEv(r *vRand, cw *c17World) c17Ev {
	switch x := r.intn(100); {
	case x < 30:
		src := r.intn(4)
		pid := 0
		if src >= 2 {
			pid = r.pick(1, 1, 2, 0)
		}
		rd := 5 + r.intn(3)
		pfx := (rd-5)*2 + r.intn(2)
		if r.chance(8) {
			rd, pfx = 3, 8 // another PE using the RD of VRF "green" for the prefix added to it through the API
		}
		if rd == 6 && r.chance(35) {
			pfx = 0 // the dual-homed site: the same prefix under the RDs of two PEs
		}
		return c17Ev{kind: "ann", peer: src, pid: pid, rd: rd, pfx: pfx, lpr: r.intn(6), ecs: c17GenECs(r)}
	case x < 45:
		// withdraw something that is there
		keys := make([]string, 0, len(cw.ann))
		for k := range cw.ann {
			keys = append(keys, k)
		}
		if len(keys) == 0 {
			return c17Ev{kind: "none"}
		}
		sort.Strings(keys)
		var ev c17Ev
		ev.kind = "wd"
		fmt.Sscanf(keys[r.intn(len(keys))], "%d/%d/%d/%d", &ev.peer, &ev.pid, &ev.rd, &ev.pfx)
		return ev
	case x < 82:
		ev := c17Ev{kind: "mem", peer: r.intn(2), as: uint32(r.pick(65000, 65000, 65001)), memWd: r.chance(45), lpr: r.intn(4)}
		switch y := r.intn(10); {
		case y == 0:
			ev.rt, ev.as = nil, 0
		case y == 1:
			ev.rt = c17SrvPool[r.intn(len(c17SrvPool))]
		default:
			ev.rt = c17SrvPool[r.intn(4)]
		}
		// the whole length domain: 0 and 32 (nil route target), partial 40..88, 96
		switch z := r.intn(20); {
		case z == 0:
			ev.rt, ev.memLen = nil, 32
			if ev.as == 0 {
				ev.as = 65000
			}
		case z == 1 && ev.rt != nil:
			ev.memLen = r.pick(48, 64, 64, 72, 88) // not 40: the first octet of a two-octet-AS target is 0, the zero-padded key would be the wildcard key
		}
		return ev
	case x < 86:
		ce := r.intn(2)
		own := c17GenECs(r)
		if len(own) > 1 {
			own = own[:1]
		}
		return c17Ev{kind: "cean", peer: ce, pfx: 6 + ce, ecs: own}
	case x < 88:
		ce := r.intn(2)
		return c17Ev{kind: "cewd", peer: ce, pfx: 6 + ce}
	case x < 95:
		if r.chance(30) {
			if r.chance(50) {
				return c17Ev{kind: "suspend", peer: r.intn(2)}
			}
			return c17Ev{kind: "resume", peer: r.intn(2)}
		}
		if r.chance(70) {
			if r.chance(80) {
				return c17Ev{kind: "softin", peer: r.intn(4)}
			}
			return c17Ev{kind: "cesoftin", peer: r.intn(2)}
		}
		return c17Ev{kind: "bounce", peer: r.intn(2)}
	case x < 97:
		if r.chance(50) {
			return c17Ev{kind: "vrfpath", lpr: r.intn(6)}
		}
		return c17Ev{kind: "addvrf"}
	}
	return c17Ev{kind: "delvrf"}
}

// c17CorpusSrv: the histories that exposed the six defects repaired on branch wt-C17 (see the fix
// commits); on the repaired code every oracle holds.
func c17CorpusSrv(t testing.TB, o *vOut) {
	X, Y, Z := c17EC(0, 1, true), c17EC(0, 2, true), c17EC(0, 3, true)
	ecs := func(l ...bgp.ExtendedCommunityInterface) []bgp.ExtendedCommunityInterface { return l }
	cases := [][]c17Ev{
		{ // a withdrawn membership must not withdraw a route still wanted through a second target / the default
			{kind: "ann", peer: 0, rd: 5, pfx: 0, ecs: ecs(X, Y)},
			{kind: "mem", peer: 0, rt: X, as: 65000}, {kind: "mem", peer: 0, rt: Y, as: 65000},
			{kind: "mem", peer: 0, rt: X, as: 65000, memWd: true},
			{kind: "mem", peer: 0, rt: Y, as: 65000, memWd: true},
			{kind: "mem", peer: 0, rt: nil, as: 0}, {kind: "mem", peer: 0, rt: X, as: 65000},
			{kind: "mem", peer: 0, rt: X, as: 65000, memWd: true},
		},
		{ // withdrawing the default membership must withdraw, not re-advertise
			{kind: "ann", peer: 0, rd: 5, pfx: 0, ecs: ecs(X)}, {kind: "ann", peer: 0, rd: 5, pfx: 1, ecs: ecs(Z)},
			{kind: "mem", peer: 0, rt: nil, as: 0}, {kind: "mem", peer: 0, rt: X, as: 65000},
			{kind: "mem", peer: 0, rt: nil, as: 0, memWd: true},
		},
		{ // a VRF neighbor must lose a route whose replacement is not imported
			{kind: "ann", peer: 0, rd: 5, pfx: 0, ecs: ecs(X)},
			{kind: "ann", peer: 0, rd: 5, pfx: 0, ecs: ecs(Z)},
			{kind: "wd", peer: 0, rd: 5, pfx: 0},
		},
		{ // RT index with and without path-ids in one destination
			{kind: "mem", peer: 0, rt: Y, as: 65000},
			{kind: "ann", peer: 0, rd: 5, pfx: 0, lpr: 0, ecs: ecs(X, Y)},
			{kind: "ann", peer: 2, pid: 1, rd: 5, pfx: 0, lpr: 3, ecs: ecs(X)},
			{kind: "wd", peer: 0, rd: 5, pfx: 0},
			{kind: "mem", peer: 0, rt: Y, as: 65000, memWd: true},
			{kind: "mem", peer: 0, rt: Y, as: 65000},
			{kind: "ann", peer: 0, rd: 5, pfx: 0, lpr: 0, ecs: ecs(Y)},
			{kind: "wd", peer: 2, pid: 1, rd: 5, pfx: 0},
			{kind: "mem", peer: 0, rt: Y, as: 65000, memWd: true},
		},
		{ // only the best of several ADD-PATH paths is offered on a membership change
			{kind: "ann", peer: 2, pid: 1, rd: 6, pfx: 2, lpr: 5, ecs: ecs(Y)},
			{kind: "ann", peer: 2, pid: 2, rd: 6, pfx: 2, lpr: 3, ecs: ecs(Y)},
			{kind: "ann", peer: 3, pid: 1, rd: 6, pfx: 2, lpr: 1, ecs: ecs(Z)},
			{kind: "mem", peer: 0, rt: Y, as: 65000},
			{kind: "mem", peer: 0, rt: Z, as: 65000},
			{kind: "mem", peer: 0, rt: Z, as: 65000, memWd: true},
			{kind: "mem", peer: 0, rt: Y, as: 65000, memWd: true},
			{kind: "mem", peer: 0, rt: Y, as: 65000},
		},
		{ // withdrawal of a membership that was never announced
			{kind: "ann", peer: 0, rd: 5, pfx: 0, ecs: ecs(X)},
			{kind: "mem", peer: 0, rt: X, as: 65000, memWd: true},
			{kind: "mem", peer: 0, rt: X, as: 65000}, {kind: "mem", peer: 0, rt: X, as: 65001},
			{kind: "mem", peer: 0, rt: X, as: 65000, memWd: true},
			{kind: "mem", peer: 0, rt: X, as: 65002, memWd: true},
		},
	}
	W := c17EC(0, 4, true)
	cases = append(cases,
		[]c17Ev{ // the local membership of a deleted VRF is withdrawn also when a neighbour's is preferred
			{kind: "addvrf"}, {kind: "mem", peer: 0, rt: W, as: 65000, lpr: 1}, {kind: "delvrf"},
			{kind: "mem", peer: 0, rt: W, as: 65000, lpr: 1, memWd: true},
		},
		[]c17Ev{ // ... or less preferred, or when two neighbours announce it
			{kind: "mem", peer: 0, rt: W, as: 65000, lpr: 3}, {kind: "mem", peer: 1, rt: W, as: 65000, lpr: 1},
			{kind: "addvrf"}, {kind: "delvrf"}, {kind: "addvrf"}, {kind: "mem", peer: 1, rt: W, as: 65000, lpr: 1, memWd: true}, {kind: "delvrf"},
		})
	soft := [][]c17Ev{
		{ // a route fed again by soft reset in must still be found when its target is asked for
			{kind: "ann", peer: 0, rd: 5, pfx: 0, ecs: ecs(X)}, {kind: "softin", peer: 0},
			{kind: "mem", peer: 0, rt: X, as: 65000}, {kind: "mem", peer: 0, rt: X, as: 65000, memWd: true},
			{kind: "softin", peer: 0}, {kind: "softin", peer: 0}, {kind: "mem", peer: 0, rt: X, as: 65000},
		},
		{ // ... with ADD-PATH paths and a second source around, and for a VRF neighbor's routes
			{kind: "ann", peer: 0, rd: 5, pfx: 0, lpr: 1, ecs: ecs(X, Y)}, {kind: "ann", peer: 2, pid: 1, rd: 5, pfx: 0, lpr: 3, ecs: ecs(Y)},
			{kind: "cean", peer: 0, pfx: 6}, {kind: "mem", peer: 1, rt: Y, as: 65000},
			{kind: "softin", peer: 2}, {kind: "softin", peer: 0}, {kind: "cesoftin", peer: 0},
			{kind: "wd", peer: 2, pid: 1, rd: 5, pfx: 0}, {kind: "softin", peer: 0},
			{kind: "mem", peer: 0, rt: X, as: 65000}, {kind: "mem", peer: 1, rt: Y, as: 65000, memWd: true}, {kind: "mem", peer: 1, rt: Y, as: 65000},
		},
	}
	for _, c := range cases {
		cw := c17NewWorld(t, o)
		hist := []string{}
		for _, ev := range c {
			cw.do(ev, &hist)
		}
		cw.w.stop()
		o.stat("corpus_cases", 1)
	}
	dual := [][]c17Ev{
		// one prefix imported under two RDs (dual-homed site). Known findings vrf-ce-lost-route-with-other-rd /
		// vrf-ce-not-best-among-rds: the fan-out works per VPN destination, the VRF neighbor has one key.
		{{kind: "ann", peer: 0, rd: 5, pfx: 0, lpr: 3, ecs: ecs(X)}, {kind: "ann", peer: 1, rd: 6, pfx: 0, lpr: 1, ecs: ecs(X)}, // better, then worse
			{kind: "wd", peer: 1, rd: 6, pfx: 0}}, // the worse one withdrawn: the CE must keep the prefix
		{{kind: "ann", peer: 0, rd: 5, pfx: 0, lpr: 1, ecs: ecs(X)}, {kind: "ann", peer: 1, rd: 6, pfx: 0, lpr: 3, ecs: ecs(X)}, // worse, then better
			{kind: "wd", peer: 1, rd: 6, pfx: 0}}, // the better one withdrawn: the CE must fall back to the other RD
		{{kind: "ann", peer: 0, rd: 5, pfx: 0, lpr: 2, ecs: ecs(X)}, {kind: "ann", peer: 1, rd: 6, pfx: 0, lpr: 3, ecs: ecs(X)},
			{kind: "ann", peer: 1, rd: 6, pfx: 0, lpr: 1, ecs: ecs(X)}, // replaced by a worse path: the other RD is now the best
			{kind: "ann", peer: 1, rd: 6, pfx: 0, lpr: 4, ecs: ecs(X)}, // replaced by a better one
			{kind: "ann", peer: 1, rd: 6, pfx: 0, lpr: 4, ecs: ecs(Z)}, // no longer imported: falls back?
			{kind: "wd", peer: 0, rd: 5, pfx: 0}, {kind: "wd", peer: 1, rd: 6, pfx: 0}},
	}
	gr := [][]c17Ev{
		// memberships arriving while updates toward the peer are deferred (seeded change C17-O): recorded
		// all the same, honoured by the deferred transfer; changes during the deferral included
		{{kind: "ann", peer: 0, rd: 5, pfx: 1, ecs: ecs(X)}, {kind: "ann", peer: 1, rd: 6, pfx: 2, ecs: ecs(Y)}, {kind: "ann", peer: 1, rd: 7, pfx: 4, ecs: ecs(Z)},
			{kind: "suspend", peer: 0}, {kind: "mem", peer: 0, rt: X, as: 65000}, {kind: "mem", peer: 0, rt: Y, as: 65000},
			{kind: "mem", peer: 0, rt: Y, as: 65000, memWd: true}, {kind: "ann", peer: 0, rd: 5, pfx: 1, ecs: ecs(X, Z)},
			{kind: "resume", peer: 0}, {kind: "mem", peer: 0, rt: Z, as: 65000}, {kind: "mem", peer: 0, rt: X, as: 65000, memWd: true}},
		// the origin-AS-only membership /32 (seeded change C17-P) next to the default and a specific one
		{{kind: "ann", peer: 0, rd: 5, pfx: 1, ecs: ecs(X)}, {kind: "ann", peer: 1, rd: 6, pfx: 2, ecs: ecs(Y)},
			{kind: "mem", peer: 0, as: 65000, memLen: 32}, {kind: "mem", peer: 0, rt: X, as: 65000},
			{kind: "mem", peer: 0, as: 65000, memLen: 32, memWd: true}, {kind: "mem", peer: 0, as: 65001, memLen: 32},
			{kind: "mem", peer: 0, as: 0}, {kind: "mem", peer: 0, as: 65001, memLen: 32, memWd: true}, {kind: "mem", peer: 0, as: 0, memWd: true}},
		// partial-length memberships (known finding rtc-partial-length-membership-not-prefix-matched)
		{{kind: "ann", peer: 0, rd: 5, pfx: 1, ecs: ecs(X)}, {kind: "ann", peer: 1, rd: 6, pfx: 2, ecs: ecs(Y)},
			{kind: "mem", peer: 0, rt: X, as: 65000, memLen: 64}, {kind: "mem", peer: 0, rt: X, as: 65000, memLen: 64, memWd: true}},
	}
	gr = append(gr,
		// what remains after a VRF is removed (seeded change C17-R) and what is reported for it (C17-Q): the
		// route added to the VRF is the runner-up behind another PE's route for the same RD:prefix
		[]c17Ev{{kind: "addvrf"}, {kind: "mem", peer: 0, as: 0}, {kind: "vrfpath", lpr: 0},
			{kind: "ann", peer: 0, rd: 3, pfx: 8, lpr: 3, ecs: ecs(Z)}, {kind: "ann", peer: 1, rd: 5, pfx: 1, lpr: 1, ecs: ecs(X)}, {kind: "ann", peer: 0, rd: 5, pfx: 1, lpr: 3, ecs: ecs(Z)},
			{kind: "delvrf"}, {kind: "wd", peer: 0, rd: 3, pfx: 8}, {kind: "addvrf"}, {kind: "vrfpath", lpr: 5}, {kind: "delvrf"}, {kind: "addvrf"}})
	for _, c := range gr {
		cw := c17NewWorld(t, o)
		hist := []string{}
		for _, ev := range c {
			cw.do(ev, &hist)
		}
		cw.w.stop()
		o.stat("corpus_cases", 1)
	}
	for _, c := range dual {
		cw := c17NewWorld(t, o)
		hist := []string{}
		for _, ev := range c {
			cw.do(ev, &hist)
		}
		cw.w.stop()
		o.stat("corpus_cases", 1)
	}
	for _, c := range soft {
		for _, pol := range []bool{false, true} {
			cw := c17NewWorld(t, o, pol)
			hist := []string{}
			for _, ev := range c {
				cw.do(ev, &hist)
			}
			cw.w.stop()
			o.stat("corpus_cases", 1)
		}
	}
}

func TestVerifC17Srv(t *testing.T) {
	o := vOpen(t)
	defer o.close()
	r := &vRand{s: o.seed*7919 + 171}
	c17CorpusSrv(t, o)
	scenarios, steps := 25, 90
	if o.thorough {
		scenarios, steps = 150, 120
	}
	for s := 0; s < scenarios; s++ {
		cw := c17NewWorld(t, o, s%2 == 1)
		hist := []string{}
		for i := 0; i < steps; i++ {
			ev := c17GenEv(r, cw)
			if ev.kind != "none" {
				cw.do(ev, &hist)
			}
		}
		if s < 2 {
			o.sample(fmt.Sprintf("scenario %d: %d events, first: %s", s, len(hist), strings.Join(hist[:min(3, len(hist))], " | ")))
		}
		cw.w.stop()
	}
}
