//go:build verif

package server

// C15, the CONCURRENCY part of the quantifier ("with route changes arriving concurrently with the
// reset"). The Lean model treats a soft reset out / ROUTE-REFRESH of a peer as ONE step that
// cannot interleave with the incremental fan-out toward that peer; in the code that is the
// peer's routeRefreshInProgress WRITE lock taken by getBestFromLocalCallback(…, routeRefresh =
// true, …). Three things tie that premise to the code on every run:
//
//  1. a static obligation (c15LockSites, asked against Model/SoftReset.lean `lockOk`): every call
//     of getBestFromLocalCallback whose callback SENDS (sendfsmOutgoingMsg) passes the literal
//     `true` for routeRefresh — extracted from the Go AST of server.go;
//  2. deterministic interleavings (c15StallCase): a test-only export policy condition parks a
//     ROUTE-REFRESH / soft reset out in the middle of its pass over the Loc-RIB while another
//     peer's UPDATE changes a route of the snapshot; afterwards the target must hold the export
//     of the CURRENT best path;
//  3. concurrent rounds (c15ConcRound, oracle only): goroutines deliver other peers' UPDATE bursts
//     on one hot prefix through handleFSMMessage — their own ROUTE-REFRESH messages in between —
//     while a management goroutine runs ResetPeer soft in / out / both; a yielding export
//     condition widens the windows. At quiescence every peer's accumulated view must equal the
//     fresh export under the current policy and the Loc-RIB must be the import policy's image of
//     the Adj-RIB-Ins.

import (
	"fmt"
	"go/ast"
	"go/parser"
	"go/token"
	"net/netip"
	"runtime"
	"sort"
	"strings"
	"sync"
	"sync/atomic"
	"testing"
	"time"

	"github.com/osrg/gobgp/v4/internal/pkg/table"
	"github.com/osrg/gobgp/v4/pkg/config/oc"
	"github.com/osrg/gobgp/v4/pkg/packet/bgp"
)

func c15IP(a, b, c, d byte) netip.Addr { return netip.AddrFrom4([4]byte{a, b, c, d}) }

// --- 1. static obligation ---------------------------------------------------------------------

type c15LockSite struct {
	fn    string
	nth   int  // n-th call inside fn
	sends bool // the callback calls sendfsmOutgoingMsg
	write bool // routeRefresh argument is the literal true
	arg   string
}

func c15LockSites(t *testing.T) []c15LockSite {
	fset := token.NewFileSet()
	f, err := parser.ParseFile(fset, "server.go", nil, 0)
	if err != nil {
		t.Fatalf("cannot parse server.go: %v", err)
	}
	var sites []c15LockSite
	for _, d := range f.Decls {
		fd, ok := d.(*ast.FuncDecl)
		if !ok || fd.Body == nil {
			continue
		}
		nth := 0
		ast.Inspect(fd.Body, func(n ast.Node) bool {
			call, ok := n.(*ast.CallExpr)
			if !ok {
				return true
			}
			sel, ok := call.Fun.(*ast.SelectorExpr)
			if !ok || sel.Sel.Name != "getBestFromLocalCallback" || len(call.Args) != 5 {
				return true
			}
			site := c15LockSite{fn: fd.Name.Name, nth: nth, arg: "expr"}
			nth++
			if id, ok := call.Args[3].(*ast.Ident); ok {
				site.arg = id.Name
				site.write = id.Name == "true"
			}
			ast.Inspect(call.Args[4], func(m ast.Node) bool {
				if c, ok := m.(*ast.CallExpr); ok {
					if id, ok := c.Fun.(*ast.Ident); ok && id.Name == "sendfsmOutgoingMsg" {
						site.sends = true
					}
				}
				return true
			})
			sites = append(sites, site)
			return true
		})
	}
	return sites
}

func c15LockObligation(t *testing.T, o *vOut) {
	sites := c15LockSites(t)
	nSend := 0
	for _, s := range sites {
		o.ask(fmt.Sprintf("lockarg %s#%d atomic", s.fn, s.nth), "lockarg %s#%d %d %d", s.fn, s.nth, c15B(s.sends), c15B(s.write))
		if s.sends {
			nSend++
			o.stat("lock_sites_sending", 1)
			if !s.write {
				o.fail("full-readvertisement-under-read-lock:"+s.fn, map[string]any{"function": s.fn, "call": s.nth, "routeRefresh_argument": s.arg,
					"what": "getBestFromLocalCallback is called with a callback that sends, but without the routeRefreshInProgress write lock: the re-advertisement can interleave with the incremental fan-out toward the same peer"})
			}
		} else {
			o.stat("lock_sites_display_only", 1)
		}
	}
	// the three re-advertisement paths the model treats as atomic steps must be among them
	for _, need := range []string{"handleRouteRefresh", "softResetOut", "handleFSMMessage"} {
		found := false
		for _, s := range sites {
			found = found || (s.fn == need && s.sends)
		}
		if !found {
			o.fail("lock-site-extractor:"+need, map[string]any{"what": "no sending getBestFromLocalCallback call found in " + need + " (refactored? the atomicity premise is no longer checked)"})
		}
	}
	_ = nSend
}

// --- test-only export conditions ---------------------------------------------------------------

// c15HookCond never matches. It yields the processor a few times per evaluation (a policy that
// takes time), and when armed its next evaluation on behalf of `forPeer` parks until released.
type c15HookCond struct {
	yields  int
	armed   atomic.Bool
	forPeer string // neighbor address the stall waits for ("" = any)
	entered chan struct{}
	release chan struct{}
}

func (c *c15HookCond) Name() string              { return "" }
func (c *c15HookCond) Type() table.ConditionType { return table.CONDITION_MED_EQ }
func (c *c15HookCond) Set() table.DefinedSet     { return nil }
func (c *c15HookCond) Evaluate(_ *table.Path, opt *table.PolicyOptions) bool {
	for y := c.yields; y > 0; y-- {
		runtime.Gosched()
	}
	if c.armed.Load() && (c.forPeer == "" || (opt != nil && opt.Info != nil && opt.Info.Address.String() == c.forPeer)) {
		if c.armed.CompareAndSwap(true, false) {
			close(c.entered)
			<-c.release
		}
	}
	return false
}

// withHook puts a statement holding `cond` in front of the export policies currently assigned.
func (cw *c15World) withHook(cond table.Condition) {
	cw.gen++
	name := fmt.Sprintf("c15hook%d", cw.gen)
	pol := cw.w.s.policy
	if err := pol.AddPolicy(&table.Policy{Name: name, Statements: []*table.Statement{{Name: name, Conditions: []table.Condition{cond}}}}, false); err != nil {
		cw.t.Fatalf("hook policy: %v", err)
	}
	defs := []*oc.PolicyDefinition{{Name: name}}
	dflt := table.ROUTE_TYPE_ACCEPT
	if cw.name[1] != "" {
		defs = append(defs, &oc.PolicyDefinition{Name: cw.name[1]})
		if !cw.cur[1].dflt {
			dflt = table.ROUTE_TYPE_REJECT
		}
	}
	if err := pol.SetPolicyAssignment(table.GLOBAL_RIB_NAME, table.POLICY_DIRECTION_EXPORT, defs, dflt); err != nil {
		cw.t.Fatalf("hook assignment: %v", err)
	}
}

// --- import-side oracle --------------------------------------------------------------------------

// importOracle: the Loc-RIB holds, for every peer in `peers`, exactly the import policy's image
// of the accepted (not loop-rejected) paths of its Adj-RIB-In — attributes included.
func (rn *c15Run) importOracle(peers []int, after string) {
	cw := rn.cw
	s := cw.w.s
	fam := []bgp.Family{bgp.RF_IPv4_UC}
	for _, i := range peers {
		vp := cw.w.peers[i]
		var want, have []string
		for _, p := range vp.p.adjRibIn.PathList(fam, false) {
			if p.IsRejected() {
				continue
			}
			q := s.policy.ApplyPolicy(table.GLOBAL_RIB_NAME, table.POLICY_DIRECTION_IMPORT, p, &table.PolicyOptions{Info: vp.p.peerInfo.Load(), Validate: s.roaTable.Validate})
			if q != nil {
				want = append(want, fmt.Sprintf("%s#%d=%s", p.GetNlri().String(), p.RemoteID(), vwDigest(q.GetPathAttrs())))
			}
		}
		for _, p := range s.globalRib.GetPathList(table.GLOBAL_RIB_NAME, 0, fam) {
			if src := p.GetSource(); src != nil && src.Address == vp.spec.addr {
				have = append(have, fmt.Sprintf("%s#%d=%s", p.GetNlri().String(), p.RemoteID(), vwDigest(p.GetPathAttrs())))
			}
		}
		sort.Strings(want)
		sort.Strings(have)
		if strings.Join(want, " ") != strings.Join(have, " ") {
			rn.o.fail("locrib!=import(adj-in):"+strings.Fields(after)[0], map[string]any{"peer": i, "loc_rib_from_peer": have, "import_of_adj_in": want, "after": after, "history": rn.hist()})
		}
	}
}

// --- 2. deterministic interleavings ----------------------------------------------------------------

// c15StallCase: peer 0 announces a route, peer 2 is told; a re-advertisement toward peer 2
// (`how`: refresh | softout) is parked inside the export policy; peer 0 replaces (or withdraws)
// the route at that point; the re-advertisement is released. Peer 2 must end with the export of
// the current best path.
func c15StallCase(t *testing.T, o *vOut, how string, withdraw bool) {
	cw := newC15World(t)
	defer cw.w.stop()
	rn := &c15Run{cw: cw, o: o, noModel: true}
	w := cw.w
	for i, sp := range []vwPeerSpec{
		{kind: "ebgp", as: 65001, rid: c15IP(10, 0, 0, 1), addr: c15IP(192, 168, 0, 1)},
		{kind: "ebgp", as: 65002, rid: c15IP(10, 0, 0, 2), addr: c15IP(192, 168, 0, 2)},
		{kind: "ibgp", as: 65000, rid: c15IP(10, 0, 0, 3), addr: c15IP(192, 168, 0, 3)},
	} {
		cw.addPeer(sp)
		rn.history = append(rn.history, c15PeerLine(i, sp))
	}
	hook := &c15HookCond{forPeer: "192.168.0.3", entered: make(chan struct{}), release: make(chan struct{})}
	cw.withHook(hook)
	for i := range w.peers {
		cw.play(c15Event{kind: "up", peer: i})
	}
	r1 := &c01Route{pfx: 0, marker: 1, segs: [][]uint32{{2, 65001}}}
	r2 := &c01Route{pfx: 0, marker: 2, segs: [][]uint32{{2, 65001, 100}}}
	cw.play(c15Event{kind: "ann", peer: 0, rt: r1})
	cw.flushAll()
	rn.history = append(rn.history, "up 0", "up 1", "up 2", "ann 0 "+r1.line(), "[parked] "+how+" 2")
	tsA, tsB := w.now(), w.now()
	hook.armed.Store(true)
	resetDone, updateDone := make(chan struct{}), make(chan struct{})
	go func() {
		defer close(resetDone)
		if how == "refresh" {
			w.s.handleFSMMessage(w.peers[2].p, &fsmMsg{MsgType: fsmMsgBGPMessage, MsgData: bgp.NewBGPRouteRefreshMessage(bgp.AFI_IP, 0, bgp.SAFI_UNICAST), timestamp: tsA})
		} else {
			cw.reset([]string{how, "2"})
		}
	}()
	select {
	case <-hook.entered:
	case <-time.After(5 * time.Second):
		t.Fatalf("the %s never evaluated the export policy", how)
	}
	go func() {
		defer close(updateDone)
		m := r2.msg(w.peers[0])
		if withdraw {
			m = bgp.NewBGPUpdateMessage([]bgp.PathNLRI{{NLRI: c01Nlri(0)}}, nil, nil)
		}
		w.s.handleFSMMessage(w.peers[0].p, &fsmMsg{MsgType: fsmMsgBGPMessage, MsgData: m, timestamp: tsB})
	}()
	select {
	case <-updateDone:
	case <-time.After(300 * time.Millisecond): // the update waits for the re-advertisement: fine
	}
	close(hook.release)
	for _, ch := range []chan struct{}{resetDone, updateDone} {
		select {
		case <-ch:
		case <-time.After(5 * time.Second):
			t.Fatalf("%s / update did not finish", how)
		}
	}
	if withdraw {
		rn.history = append(rn.history, "[during] wd 0 0 0")
	} else {
		rn.history = append(rn.history, "[during] ann 0 "+r2.line())
	}
	cw.flushAll()
	before := o.nFail
	rn.freshExport(2, "interleaved-"+how)
	if o.nFail > before {
		o.stat("stall_cases_failed", 1)
	}
	o.stat("stall_cases", 1)
}

// --- 3. concurrent rounds ----------------------------------------------------------------------------

type c15ConcEv struct {
	msg *bgp.BGPMessage
	ts  time.Time
}

func c15ConcRound(t *testing.T, o *vOut, r *vRand, idx int) {
	cw := newC15World(t)
	cw.r = r
	defer cw.w.stop()
	rn := &c15Run{cw: cw, o: o, noModel: true}
	w := cw.w
	specs := c15Specs(r)
	for i, sp := range specs {
		sp.addPathRx = false
		specs[i] = sp
		cw.addPeer(sp)
		rn.history = append(rn.history, c15PeerLine(i, sp))
	}
	nP := len(specs)
	hook := &c15HookCond{yields: 1 + r.intn(3)}
	setPol := func(d int, pol c15Pol) {
		cw.install(d, pol, 0)
		rn.history = append(rn.history, pol.line(c15Dirs[d]))
		cw.withHook(hook)
	}
	cw.withHook(hook)
	for d := 0; d < 2; d++ {
		if r.chance(70) {
			setPol(d, c15GenPol(r, d, nP))
		}
	}
	for i := range w.peers {
		cw.play(c15Event{kind: "up", peer: i})
		rn.history = append(rn.history, fmt.Sprintf("up %d", i))
	}
	sc := &c01Scenario{w: w, o: o, r: r}
	gen := func(i int) *c01Route {
		rt := c01GenRoute(r, sc, w.peers[i])
		rt.pathID = 0
		rt.comms = nil
		for _, tg := range c15Tags {
			if r.chance(40) {
				rt.comms = append(rt.comms, tg)
			}
		}
		return rt
	}
	for n := 3 + r.intn(8); n > 0; n-- {
		i := r.intn(nP)
		rt := gen(i)
		cw.play(c15Event{kind: "ann", peer: i, rt: rt})
		rn.history = append(rn.history, "ann "+fmt.Sprint(i)+" "+rt.line())
	}
	cw.flushAll()
	// policy change(s) right before the concurrent phase: the resets have real work to do
	expChanged, impChanged := false, false
	if r.chance(60) {
		setPol(1, c15Mutate(r, 1, nP, cw.cur[1]))
		expChanged = true
	}
	if r.chance(40) {
		setPol(0, c15Mutate(r, 0, nP, cw.cur[0]))
		impChanged = true
	}
	// scripts (generated sequentially: deterministic per seed)
	hot := r.intn(len(c01Prefixes))
	scripts := make([][]c15ConcEv, nP)
	refreshed := make([]bool, nP)
	for i, vp := range w.peers {
		n := 6 + r.intn(20)
		for k := 0; k < n; k++ {
			switch x := r.intn(100); {
			case x < 12:
				scripts[i] = append(scripts[i], c15ConcEv{msg: bgp.NewBGPRouteRefreshMessage(bgp.AFI_IP, 0, bgp.SAFI_UNICAST), ts: w.now()})
				refreshed[i] = true
				rn.history = append(rn.history, fmt.Sprintf("[g%d] refresh %d", i, i))
				o.stat("conc_refresh", 1)
			case x < 75:
				rt := gen(i)
				if r.chance(75) {
					rt.pfx = hot
				}
				scripts[i] = append(scripts[i], c15ConcEv{msg: rt.msg(vp), ts: w.now()})
				rn.history = append(rn.history, fmt.Sprintf("[g%d] ann %d %s", i, i, rt.line()))
				o.stat("conc_ann", 1)
			default:
				pfx := r.intn(len(c01Prefixes))
				if r.chance(75) {
					pfx = hot
				}
				scripts[i] = append(scripts[i], c15ConcEv{msg: bgp.NewBGPUpdateMessage([]bgp.PathNLRI{{NLRI: c01Nlri(pfx)}}, nil, nil), ts: w.now()})
				rn.history = append(rn.history, fmt.Sprintf("[g%d] wd %d %d 0", i, i, pfx))
				o.stat("conc_wd", 1)
			}
		}
	}
	// management script: every peer gets the resets the pending policy change needs, plus extras
	var mgmt []string
	if impChanged {
		if r.chance(40) {
			mgmt = append(mgmt, "softinall")
		} else {
			for _, i := range r.perm(nP) {
				mgmt = append(mgmt, fmt.Sprintf("%s %d", r.pickStr("softin", "softin", "softboth"), i))
			}
		}
	}
	for _, i := range r.perm(nP) {
		if expChanged || r.chance(50) {
			mgmt = append(mgmt, fmt.Sprintf("%s %d", r.pickStr("softout", "softout", "softboth"), i))
		}
	}
	for n := r.intn(4); n > 0; n-- {
		mgmt = append(mgmt, r.pickStr("softoutall", "softinall", fmt.Sprintf("softout %d", r.intn(nP)), fmt.Sprintf("softin %d", r.intn(nP))))
	}
	for i := len(mgmt) - 1; i > 0; i-- {
		j := r.intn(i + 1)
		mgmt[i], mgmt[j] = mgmt[j], mgmt[i]
	}
	for _, m := range mgmt {
		rn.history = append(rn.history, "[mgmt] "+m)
		o.stat("conc_mgmt_"+strings.Fields(m)[0], 1)
	}
	yields := make([][]int, nP+1)
	for i := range scripts {
		for range scripts[i] {
			yields[i] = append(yields[i], r.intn(4))
		}
	}
	for range mgmt {
		yields[nP] = append(yields[nP], r.intn(6))
	}
	// --- the concurrent phase
	var wg sync.WaitGroup
	start := make(chan struct{})
	for i := range w.peers {
		wg.Add(1)
		go func(i int) {
			defer wg.Done()
			<-start
			for k, ev := range scripts[i] {
				for y := yields[i][k]; y > 0; y-- {
					runtime.Gosched()
				}
				w.s.handleFSMMessage(w.peers[i].p, &fsmMsg{MsgType: fsmMsgBGPMessage, MsgData: ev.msg, timestamp: ev.ts})
			}
		}(i)
	}
	wg.Add(1)
	go func() {
		defer wg.Done()
		<-start
		for k, m := range mgmt {
			for y := yields[nP][k]; y > 0; y-- {
				runtime.Gosched()
			}
			cw.reset(strings.Fields(m))
		}
	}()
	close(start)
	wg.Wait()
	// --- quiescence
	cw.flushAll()
	before := o.nFail
	for i := range w.peers {
		rn.freshExport(i, "concurrent-round")
	}
	all := make([]int, nP)
	for i := range all {
		all[i] = i
	}
	rn.importOracle(all, "concurrent-round")
	if o.nFail > before {
		o.stat("conc_rounds_failed", 1)
	}
	o.stat("conc_rounds", 1)
	if idx < 1 {
		o.sample(strings.Join(rn.history, " ; "))
	}
}

func TestVerifC15Conc(t *testing.T) {
	o := vOpen(t)
	defer o.close()
	defer func(v bool) { table.SelectionOptions.AlwaysCompareMed = v }(table.SelectionOptions.AlwaysCompareMed)
	c15LockObligation(t, o)
	prev := runtime.GOMAXPROCS(0)
	if prev < 4 {
		runtime.GOMAXPROCS(4)
		defer runtime.GOMAXPROCS(prev)
	}
	// a lost write lock can also crash the process in the concurrent rounds ("concurrent map
	// writes" on sentPaths): what the static obligation and the deterministic interleavings
	// found must be on disk before
	flush := func() { o.ops.Flush(); o.impl.Flush(); o.idx.Flush(); o.oracle.Flush() }
	flush()
	for _, how := range []string{"refresh", "softout", "softboth"} {
		for _, wd := range []bool{false, true} {
			c15StallCase(t, o, how, wd)
		}
	}
	flush()
	r := &vRand{s: o.seed*32452843 + 17}
	n := 250
	if o.thorough {
		n = 5000
	}
	for i := 0; i < n; i++ {
		c15ConcRound(t, o, r, i)
		if o.nFail > 0 {
			flush()
		}
	}
}
