//go:build verif

package server

// C18 — HISTORIES of management edits and the DERIVATIONS of the add -> list path (oracle only, real
// BgpServer, no sockets).
//
//  (A)-(D) policy objects over histories: after every Add / Replace / Delete-members / Delete-all of a
//      defined set (all six kinds), Add / partial Delete of a statement, Add / Delete of a policy's
//      statement list and Add / Delete / Set of a policy assignment, the object listed back through
//      the API must equal the logical content built from the accepted requests by a reference model
//      kept here (multisets of members, slots per condition / action kind, name lists).  The semantics
//      of the edits themselves (append keeps duplicates, delete-members removes every equal member,
//      a refused request changes nothing) are those of internal/pkg/table/policy.go; what this
//      harness owns is the conversion of the listed object: sub-type prefixes, pattern normal forms,
//      mask-length ranges, member order (normal forms vC18SNorm… of zz_verif_c18_test.go).
//  (E) add -> list with the route kinds fixupApiPath touches: what is listed back equals what was
//      added except for the documented derivations, applied exactly when the caller did not supply
//      the value: ES-Import RT of an EVPN Ethernet-Segment route (ESI types 1-3), MAC Mobility of an
//      EVPN MAC/IP route that moves, RD / label / export RTs of a route added into a VRF.

import (
	"context"
	"encoding/hex"
	"fmt"
	"io"
	"log/slog"
	"net"
	"net/netip"
	"sort"
	"strings"
	"testing"

	"github.com/osrg/gobgp/v4/api"
	"github.com/osrg/gobgp/v4/pkg/apiutil"
	"github.com/osrg/gobgp/v4/pkg/packet/bgp"
	"google.golang.org/protobuf/proto"
)

// ---------------------------------------------------------------- (A) defined sets

type vC18HSet struct {
	typ     api.DefinedType
	name    string
	exists  bool
	members []string      // list kinds
	pfx     []*api.Prefix // prefix kind
}

var vC18HPools = map[api.DefinedType][]string{
	api.DefinedType_DEFINED_TYPE_NEIGHBOR:        {"10.0.0.1/32", "10.1.0.0/16", "2001:db8::1/128", "192.0.2.0/24", "2001:db8:1::/48", "172.16.0.0/12"},
	api.DefinedType_DEFINED_TYPE_AS_PATH:         {"^65001_", "_65002$", "_65100_", "^65003$", "^(65001|65002)_", "_6500[0-9]_", "^65001_65002_", "^$"},
	api.DefinedType_DEFINED_TYPE_COMMUNITY:       {"65000:100", "^65000:.*$", "0:0", "65535:65535", "^6500[0-9]:1$", "^.*:100$", "65001:(1|2)"},
	api.DefinedType_DEFINED_TYPE_EXT_COMMUNITY:   {"rt:65000:100", "soo:65000:100", "soo:10.0.0.1:5", "rt:10.0.0.1:5", "rt:^65000:.*$", "soo:^65000:.*$", "rt:4294967295:1", "soo:65001:1", "rt:65001:1"},
	api.DefinedType_DEFINED_TYPE_LARGE_COMMUNITY: {"65000:1:2", "^65000:.*:.*$", "4294967295:4294967295:4294967295", "0:0:0", "^65001:[0-9]+:3$"},
}

func vC18HPfxPool(v6 bool) []*api.Prefix {
	if v6 {
		return []*api.Prefix{
			{IpPrefix: "2001:db8::/32", MaskLengthMin: 32, MaskLengthMax: 64},
			{IpPrefix: "2001:db8::/32", MaskLengthMin: 48, MaskLengthMax: 48},
			{IpPrefix: "2001:db8:1::/48"},
			{IpPrefix: "::/0", MaskLengthMin: 0, MaskLengthMax: 128},
		}
	}
	return []*api.Prefix{
		{IpPrefix: "10.0.0.0/8", MaskLengthMin: 8, MaskLengthMax: 24},
		{IpPrefix: "10.0.0.0/8", MaskLengthMin: 16, MaskLengthMax: 32},
		{IpPrefix: "10.0.0.0/8"},
		{IpPrefix: "192.0.2.0/24", MaskLengthMin: 24, MaskLengthMax: 32},
		{IpPrefix: "0.0.0.0/0", MaskLengthMin: 0, MaskLengthMax: 32},
		{IpPrefix: "172.16.0.0/12", MaskLengthMin: 12, MaskLengthMax: 12},
	}
}

func vC18HPfxKey(p *api.Prefix) string {
	q := proto.Clone(p).(*api.Prefix)
	vC18SNormMaskRange(q)
	return fmt.Sprintf("%s %d..%d", q.IpPrefix, q.MaskLengthMin, q.MaskLengthMax)
}

// normal form of one list member, the way vC18SNormDefinedSet normalises a whole set
func vC18HMemberKey(typ api.DefinedType, m string) string {
	d := vC18SNormDefinedSet(&api.DefinedSet{DefinedType: typ, Name: "k", List: []string{m}})
	return d.List[0]
}

func (h *vC18HSet) expected() *api.DefinedSet {
	return &api.DefinedSet{DefinedType: h.typ, Name: h.name, List: append([]string{}, h.members...), Prefixes: h.pfx}
}

// noLonger: a replacement never has more members than the set it replaces (first phase: a stale
// per-member table is then read in range and shows up as a content difference with a failing input
// instead of crashing the server goroutine, which the second, unrestricted phase would do)
func vC18HDefinedSets(o *vOut, r *vRand, s *BgpServer, n int, noLonger bool) {
	ctx := context.Background()
	kinds := []api.DefinedType{api.DefinedType_DEFINED_TYPE_PREFIX, api.DefinedType_DEFINED_TYPE_NEIGHBOR, api.DefinedType_DEFINED_TYPE_AS_PATH,
		api.DefinedType_DEFINED_TYPE_COMMUNITY, api.DefinedType_DEFINED_TYPE_EXT_COMMUNITY, api.DefinedType_DEFINED_TYPE_LARGE_COMMUNITY}
	for i := 0; i < n; i++ {
		h := &vC18HSet{typ: kinds[i%len(kinds)], name: fmt.Sprintf("vc18h-ds-%d", i)}
		v6 := r.chance(30)
		hist := []string{}
		steps := r.pick(3, 4, 6, 8)
		for st := 0; st < steps; st++ {
			// pick the members of this request
			req := &api.DefinedSet{DefinedType: h.typ, Name: h.name}
			if h.typ == api.DefinedType_DEFINED_TYPE_PREFIX {
				pool := vC18HPfxPool(v6)
				for _, j := range r.perm(len(pool))[:1+r.intn(3)] {
					req.Prefixes = append(req.Prefixes, proto.Clone(pool[j]).(*api.Prefix))
				}
			} else {
				pool := vC18HPools[h.typ]
				for _, j := range r.perm(len(pool))[:1+r.intn(4)] {
					req.List = append(req.List, pool[j])
				}
			}
			op := r.pick(0, 0, 1, 1, 1, 2, 2, 3) // 0 add (append) 1 replace 2 delete members 3 delete all
			if !h.exists && op >= 2 {
				op = r.pick(0, 1)
			}
			if noLonger && op == 1 && h.exists && len(h.members) > 0 && len(req.List) > len(h.members) {
				req.List = req.List[:len(h.members)]
			}
			var err error
			switch op {
			case 0:
				hist = append(hist, "add "+vC18SJSON(req))
				err = s.AddDefinedSet(ctx, &api.AddDefinedSetRequest{DefinedSet: req})
				if err == nil {
					h.exists = true
					h.members = append(h.members, req.List...)
					h.pfx = append(h.pfx, req.Prefixes...)
				}
			case 1:
				hist = append(hist, "replace "+vC18SJSON(req))
				err = s.AddDefinedSet(ctx, &api.AddDefinedSetRequest{DefinedSet: req, Replace: true})
				if err == nil {
					h.exists = true
					h.members = append([]string{}, req.List...)
					h.pfx = append([]*api.Prefix{}, req.Prefixes...)
				}
			case 2:
				hist = append(hist, "delete-members "+vC18SJSON(req))
				err = s.DeleteDefinedSet(ctx, &api.DeleteDefinedSetRequest{DefinedSet: req})
				if err == nil {
					del := map[string]bool{}
					for _, m := range req.List {
						del[vC18HMemberKey(h.typ, m)] = true
					}
					keep := []string{}
					for _, m := range h.members {
						if !del[vC18HMemberKey(h.typ, m)] {
							keep = append(keep, m)
						}
					}
					h.members = keep
					delp := map[string]bool{}
					for _, p := range req.Prefixes {
						delp[vC18HPfxKey(p)] = true
					}
					keepp := []*api.Prefix{}
					for _, p := range h.pfx {
						if !delp[vC18HPfxKey(p)] {
							keepp = append(keepp, p)
						}
					}
					h.pfx = keepp
				}
			default:
				hist = append(hist, "delete-all")
				err = s.DeleteDefinedSet(ctx, &api.DeleteDefinedSetRequest{DefinedSet: req, All: true})
				if err == nil {
					h.exists, h.members, h.pfx = false, nil, nil
				}
			}
			o.stat(fmt.Sprintf("hist_definedset_op%d", op), 1)
			if err != nil {
				o.fail("policy-history:DefinedSet."+h.typ.String()+".request-refused", map[string]any{"history": hist, "err": err.Error()})
				break
			}
			var got []*api.DefinedSet
			lerr := s.ListDefinedSet(ctx, &api.ListDefinedSetRequest{DefinedType: h.typ, Name: h.name}, func(x *api.DefinedSet) { got = append(got, x) })
			switch {
			case lerr != nil:
				o.fail("policy-history:DefinedSet."+h.typ.String()+".list-error", map[string]any{"history": hist, "err": lerr.Error()})
			case !h.exists && len(got) != 0:
				o.fail("policy-history:DefinedSet."+h.typ.String()+".listed-after-delete", map[string]any{"history": hist, "got": vC18SJSON(got[0])})
			case h.exists && len(got) != 1:
				o.fail("policy-history:DefinedSet."+h.typ.String()+".not-listed", map[string]any{"history": hist, "n": len(got)})
			case h.exists:
				want, have := vC18SNormDefinedSet(h.expected()), vC18SNormDefinedSet(got[0])
				if !proto.Equal(want, have) {
					vC18HFail(o, "policy-history:DefinedSet."+h.typ.String()+".content-differs",
						map[string]any{"history": hist, "want": vC18SJSON(want), "got": vC18SJSON(have), "last_op": strings.SplitN(hist[len(hist)-1], " ", 2)[0]})
				}
			}
		}
		if h.exists {
			s.DeleteDefinedSet(ctx, &api.DeleteDefinedSetRequest{DefinedSet: &api.DefinedSet{DefinedType: h.typ, Name: h.name}, All: true})
		}
	}
}

// vC18HFail records a failure and flushes it: a defect of this area may take the server goroutine
// (and the test process) down a few requests later
func vC18HFail(o *vOut, class string, d map[string]any) {
	o.fail(class, d)
	o.oracle.Flush()
}

// ---------------------------------------------------------------- (B) statements: slots per condition / action kind

type vC18HSlot struct {
	name string
	set  func(st *api.Statement, r *vRand)
	clr  func(st *api.Statement)
}

func vC18HConds(st *api.Statement) *api.Conditions {
	if st.Conditions == nil {
		st.Conditions = &api.Conditions{}
	}
	return st.Conditions
}
func vC18HActs(st *api.Statement) *api.Actions {
	if st.Actions == nil {
		st.Actions = &api.Actions{}
	}
	return st.Actions
}

var vC18HSlots = []vC18HSlot{
	{"prefix_set", func(st *api.Statement, r *vRand) {
		vC18HConds(st).PrefixSet = &api.MatchSet{Type: api.MatchSet_Type(r.pick(1, 3)), Name: "vc18-ps4"}
	}, func(st *api.Statement) { vC18HConds(st).PrefixSet = nil }},
	{"neighbor_set", func(st *api.Statement, r *vRand) {
		vC18HConds(st).NeighborSet = &api.MatchSet{Type: api.MatchSet_Type(r.pick(1, 3)), Name: "vc18-ns"}
	}, func(st *api.Statement) { vC18HConds(st).NeighborSet = nil }},
	{"as_path_length", func(st *api.Statement, r *vRand) {
		vC18HConds(st).AsPathLength = &api.AsPathLength{Type: api.Comparison(r.pick(1, 2, 3)), Length: uint32(r.pick(1, 5, 255))}
	}, func(st *api.Statement) { vC18HConds(st).AsPathLength = nil }},
	{"community_set", func(st *api.Statement, r *vRand) {
		vC18HConds(st).CommunitySet = &api.MatchSet{Type: api.MatchSet_Type(r.pick(1, 2, 3)), Name: "vc18-cs"}
	}, func(st *api.Statement) { vC18HConds(st).CommunitySet = nil }},
	{"ext_community_set", func(st *api.Statement, r *vRand) {
		vC18HConds(st).ExtCommunitySet = &api.MatchSet{Type: api.MatchSet_Type(r.pick(1, 2, 3)), Name: "vc18-es"}
	}, func(st *api.Statement) { vC18HConds(st).ExtCommunitySet = nil }},
	{"route_action", func(st *api.Statement, r *vRand) {
		vC18HActs(st).RouteAction = api.RouteAction(r.pick(1, 2))
	}, func(st *api.Statement) { vC18HActs(st).RouteAction = 0 }},
	{"med", func(st *api.Statement, r *vRand) {
		vC18HActs(st).Med = &api.MedAction{Type: api.MedAction_Type(r.pick(1, 2)), Value: int64(r.pick(1, 100, 4294967295))}
	}, func(st *api.Statement) { vC18HActs(st).Med = nil }},
	{"local_pref", func(st *api.Statement, r *vRand) {
		vC18HActs(st).LocalPref = &api.LocalPrefAction{Value: uint32(r.pick(1, 100, 4294967295))}
	}, func(st *api.Statement) { vC18HActs(st).LocalPref = nil }},
	{"as_prepend", func(st *api.Statement, r *vRand) {
		vC18HActs(st).AsPrepend = &api.AsPrependAction{Asn: uint32(r.pick(65001, 4200000000)), Repeat: uint32(r.pick(1, 3, 255))}
	}, func(st *api.Statement) { vC18HActs(st).AsPrepend = nil }},
	{"community", func(st *api.Statement, r *vRand) {
		vC18HActs(st).Community = &api.CommunityAction{Type: api.CommunityAction_Type(r.pick(1, 2, 3)), Communities: []string{"65000:1", "65000:2"}[:r.pick(1, 2)]}
	}, func(st *api.Statement) { vC18HActs(st).Community = nil }},
}

func vC18HStatements(o *vOut, r *vRand, s *BgpServer, n int) {
	ctx := context.Background()
	for i := 0; i < n; i++ {
		name := fmt.Sprintf("vc18h-st-%d", i)
		ref := &api.Statement{Name: name}
		have := map[string]bool{}
		exists := false
		hist := []string{}
		for step, steps := 0, r.pick(3, 5, 7); step < steps; step++ {
			req := &api.Statement{Name: name}
			picked := []string{}
			for _, j := range r.perm(len(vC18HSlots))[:1+r.intn(3)] {
				vC18HSlots[j].set(req, r)
				picked = append(picked, vC18HSlots[j].name)
			}
			sort.Strings(picked)
			del := exists && r.chance(35)
			clash := false
			for _, p := range picked {
				if del != have[p] {
					clash = true // add of a slot that is set / delete of a slot that is not: must be refused as a whole
				}
			}
			var err error
			if del {
				hist = append(hist, "delete "+strings.Join(picked, ","))
				err = s.DeleteStatement(ctx, &api.DeleteStatementRequest{Statement: req})
			} else {
				hist = append(hist, "add "+vC18SJSON(req))
				err = s.AddStatement(ctx, &api.AddStatementRequest{Statement: req})
			}
			o.stat("hist_statement_steps", 1)
			if clash && exists {
				if err == nil {
					o.fail("policy-history:Statement.conflicting-request-accepted", map[string]any{"history": hist})
					break
				}
			} else if err != nil {
				o.fail("policy-history:Statement.request-refused", map[string]any{"history": hist, "err": err.Error()})
				break
			} else {
				exists = true
				for _, sl := range vC18HSlots {
					for _, p := range picked {
						if sl.name != p {
							continue
						}
						if del {
							sl.clr(ref)
							have[p] = false
						} else {
							have[p] = true
						}
					}
				}
				if !del { // copy the requested values into the reference
					proto.Merge(ref, req)
				}
			}
			var got []*api.Statement
			if lerr := s.ListStatement(ctx, &api.ListStatementRequest{Name: name}, func(x *api.Statement) { got = append(got, x) }); lerr != nil || len(got) != 1 {
				o.fail("policy-history:Statement.not-listed", map[string]any{"history": hist, "err": fmt.Sprint(lerr), "n": len(got)})
				break
			}
			want, havest := vC18SNormStatement(ref), vC18SNormStatement(got[0])
			if !proto.Equal(want, havest) {
				o.fail("policy-history:Statement.content-differs", map[string]any{"history": hist, "want": vC18SJSON(want), "got": vC18SJSON(havest)})
				break
			}
		}
		if exists {
			s.DeleteStatement(ctx, &api.DeleteStatementRequest{Statement: &api.Statement{Name: name}, All: true})
		}
	}
}

// ---------------------------------------------------------------- (C) policies, (D) assignments

func vC18HNames(l []*api.Statement) string {
	out := []string{}
	for _, x := range l {
		out = append(out, x.Name)
	}
	return strings.Join(out, ",")
}

func vC18HPolicies(o *vOut, r *vRand, s *BgpServer, n int) {
	ctx := context.Background()
	stPool := []string{"vc18h-ps-a", "vc18h-ps-b", "vc18h-ps-c", "vc18h-ps-d"}
	for _, name := range stPool {
		if err := s.AddStatement(ctx, &api.AddStatementRequest{Statement: &api.Statement{Name: name, Actions: &api.Actions{RouteAction: api.RouteAction_ROUTE_ACTION_ACCEPT}}}); err != nil {
			o.fail("policy-history:setup", map[string]any{"err": err.Error()})
			return
		}
	}
	for i := 0; i < n; i++ {
		name := fmt.Sprintf("vc18h-pol-%d", i)
		ref := []string{}
		exists := false
		hist := []string{}
		for step, steps := 0, r.pick(2, 4, 6); step < steps; step++ {
			req := &api.Policy{Name: name}
			for _, j := range r.perm(len(stPool))[:1+r.intn(3)] {
				req.Statements = append(req.Statements, &api.Statement{Name: stPool[j]})
			}
			var err error
			if exists && r.chance(40) {
				hist = append(hist, "delete "+vC18HNames(req.Statements))
				err = s.DeletePolicy(ctx, &api.DeletePolicyRequest{Policy: req, PreserveStatements: true})
				if err == nil {
					keep := []string{}
					for _, x := range ref {
						drop := false
						for _, y := range req.Statements {
							drop = drop || y.Name == x
						}
						if !drop {
							keep = append(keep, x)
						}
					}
					ref = keep
				}
			} else {
				hist = append(hist, "add "+vC18HNames(req.Statements))
				err = s.AddPolicy(ctx, &api.AddPolicyRequest{Policy: req, ReferExistingStatements: true})
				if err == nil {
					exists = true
					for _, y := range req.Statements {
						ref = append(ref, y.Name)
					}
				}
			}
			o.stat("hist_policy_steps", 1)
			if err != nil {
				o.fail("policy-history:Policy.request-refused", map[string]any{"history": hist, "err": err.Error()})
				break
			}
			var got []*api.Policy
			if lerr := s.ListPolicy(ctx, &api.ListPolicyRequest{Name: name}, func(x *api.Policy) { got = append(got, x) }); lerr != nil || len(got) != 1 {
				o.fail("policy-history:Policy.not-listed", map[string]any{"history": hist, "err": fmt.Sprint(lerr), "n": len(got)})
				break
			}
			if g := vC18HNames(got[0].Statements); g != strings.Join(ref, ",") {
				o.fail("policy-history:Policy.statements-differ", map[string]any{"history": hist, "want": strings.Join(ref, ","), "got": g})
				break
			}
			for _, st := range got[0].Statements {
				if st.GetActions().GetRouteAction() != api.RouteAction_ROUTE_ACTION_ACCEPT {
					o.fail("policy-history:Policy.statement-content-lost", map[string]any{"history": hist, "statement": vC18SJSON(st)})
				}
			}
		}
		if exists {
			s.DeletePolicy(ctx, &api.DeletePolicyRequest{Policy: &api.Policy{Name: name}, All: true, PreserveStatements: true})
		}
	}

	// (D) assignments on the global table
	polPool := []string{"vc18h-as-a", "vc18h-as-b", "vc18h-as-c"}
	for _, name := range polPool {
		if err := s.AddPolicy(ctx, &api.AddPolicyRequest{Policy: &api.Policy{Name: name}}); err != nil {
			o.fail("policy-history:setup", map[string]any{"err": err.Error()})
			return
		}
	}
	for _, dir := range []api.PolicyDirection{api.PolicyDirection_POLICY_DIRECTION_IMPORT, api.PolicyDirection_POLICY_DIRECTION_EXPORT} {
		ref := []string{}
		// the global table starts with default action ACCEPT (oc default); delete-all resets it to "none"
		def := api.RouteAction_ROUTE_ACTION_ACCEPT
		hist := []string{}
		for step := 0; step < n; step++ {
			req := &api.PolicyAssignment{Name: "global", Direction: dir, DefaultAction: api.RouteAction(r.pick(0, 0, 1, 2))}
			for _, j := range r.perm(len(polPool))[:r.intn(3)] {
				req.Policies = append(req.Policies, &api.Policy{Name: polPool[j]})
			}
			names := []string{}
			for _, p := range req.Policies {
				names = append(names, p.Name)
			}
			op := r.pick(0, 0, 1, 2, 3)
			var err error
			wantErr := false
			switch op {
			case 0:
				hist = append(hist, fmt.Sprintf("add %v def=%d", names, req.DefaultAction))
				for _, x := range names {
					for _, y := range ref {
						wantErr = wantErr || x == y
					}
				}
				err = s.AddPolicyAssignment(ctx, &api.AddPolicyAssignmentRequest{Assignment: req})
				if err == nil {
					ref = append(ref, names...)
					if req.DefaultAction != 0 {
						def = req.DefaultAction
					}
				}
			case 1:
				hist = append(hist, fmt.Sprintf("delete %v", names))
				err = s.DeletePolicyAssignment(ctx, &api.DeletePolicyAssignmentRequest{Assignment: req})
				if err == nil {
					keep := []string{}
					for _, x := range ref {
						drop := false
						for _, y := range names {
							drop = drop || x == y
						}
						if !drop {
							keep = append(keep, x)
						}
					}
					ref = keep
				}
			case 2:
				hist = append(hist, "delete-all")
				err = s.DeletePolicyAssignment(ctx, &api.DeletePolicyAssignmentRequest{Assignment: req, All: true})
				if err == nil {
					ref, def = []string{}, api.RouteAction_ROUTE_ACTION_UNSPECIFIED
				}
			default:
				hist = append(hist, fmt.Sprintf("set %v def=%d", names, req.DefaultAction))
				err = s.SetPolicyAssignment(ctx, &api.SetPolicyAssignmentRequest{Assignment: req})
				if err == nil {
					ref = names
					if req.DefaultAction != 0 {
						def = req.DefaultAction
					}
				}
			}
			o.stat("hist_assignment_steps", 1)
			if wantErr {
				if err == nil {
					o.fail("policy-history:Assignment.duplicate-accepted", map[string]any{"history": hist})
					break
				}
			} else if err != nil {
				o.fail("policy-history:Assignment.request-refused", map[string]any{"history": hist, "err": err.Error()})
				break
			}
			var got []*api.PolicyAssignment
			if lerr := s.ListPolicyAssignment(ctx, &api.ListPolicyAssignmentRequest{Name: "global", Direction: dir}, func(x *api.PolicyAssignment) { got = append(got, x) }); lerr != nil || len(got) != 1 {
				o.fail("policy-history:Assignment.not-listed", map[string]any{"history": hist, "err": fmt.Sprint(lerr), "n": len(got)})
				break
			}
			gn := []string{}
			for _, p := range got[0].Policies {
				gn = append(gn, p.Name)
			}
			gd := got[0].DefaultAction
			wd := def
			if strings.Join(gn, ",") != strings.Join(ref, ",") || gd != wd || got[0].Direction != dir {
				o.fail("policy-history:Assignment.content-differs", map[string]any{"history": hist, "want": fmt.Sprint(ref, wd), "got": fmt.Sprint(gn, gd)})
				break
			}
		}
		// leave the table as it was found: no policies, default ACCEPT
		s.SetPolicyAssignment(ctx, &api.SetPolicyAssignmentRequest{Assignment: &api.PolicyAssignment{Name: "global", Direction: dir, DefaultAction: api.RouteAction_ROUTE_ACTION_ACCEPT}})
	}
}

// ---------------------------------------------------------------- (E) derivations of the add -> list path

func vC18HExtHex(attrs []bgp.PathAttributeInterface) []string {
	out := []string{}
	for _, a := range attrs {
		if e, ok := a.(*bgp.PathAttributeExtendedCommunities); ok {
			for _, c := range e.Value {
				b, _ := c.Serialize()
				out = append(out, hex.EncodeToString(b))
			}
		}
	}
	return out
}

func vC18HEcHex(l []bgp.ExtendedCommunityInterface) []string {
	out := []string{}
	for _, c := range l {
		b, _ := c.Serialize()
		out = append(out, hex.EncodeToString(b))
	}
	return out
}

// add one path and return the listed ext communities of the path with that NLRI (octets), or an error text
func vC18HAddList(s *BgpServer, vrf string, listFam bgp.Family, match func(bgp.NLRI) bool, p *apiutil.Path) (ecs []string, nlris []string, errText string) {
	var resp []apiutil.AddPathResponse
	var err error
	if pn := vC18SRecover(func() { resp, err = s.AddPath(apiutil.AddPathRequest{VRFID: vrf, Paths: []*apiutil.Path{p}}) }); pn != "" {
		return nil, nil, "panic: " + pn
	}
	if err != nil {
		return nil, nil, "refused: " + err.Error()
	}
	if len(resp) != 1 || resp[0].Error != nil {
		return nil, nil, "refused: " + fmt.Sprint(resp)
	}
	n := 0
	err = s.ListPath(apiutil.ListPathRequest{TableType: api.TableType_TABLE_TYPE_GLOBAL, Family: listFam}, func(prefix bgp.NLRI, paths []*apiutil.Path) {
		if !match(prefix) {
			return
		}
		for _, q := range paths {
			n++
			ecs = vC18HExtHex(q.Attrs)
			nlris = append(nlris, prefix.String())
		}
	})
	if err != nil {
		return nil, nil, "list: " + err.Error()
	}
	if n != 1 {
		return nil, nil, fmt.Sprintf("listed %d times", n)
	}
	return ecs, nlris, ""
}

func vC18HBase(fam bgp.Family, n bgp.NLRI, nh string, ecs []bgp.ExtendedCommunityInterface) *apiutil.Path {
	mp, _ := bgp.NewPathAttributeMpReachNLRI(fam, []bgp.PathNLRI{{NLRI: n}}, netip.MustParseAddr(nh))
	attrs := []bgp.PathAttributeInterface{bgp.NewPathAttributeOrigin(0), mp}
	if fam == bgp.RF_IPv4_UC {
		nha, _ := bgp.NewPathAttributeNextHop(netip.MustParseAddr(nh))
		attrs = []bgp.PathAttributeInterface{bgp.NewPathAttributeOrigin(0), nha}
	}
	if len(ecs) > 0 {
		attrs = append(attrs, bgp.NewPathAttributeExtendedCommunities(ecs))
	}
	return &apiutil.Path{Family: fam, Nlri: n, Attrs: attrs}
}

func vC18HDerivations(o *vOut, r *vRand, s *BgpServer, n int) {
	eq := func(a, b []string) bool { return strings.Join(a, ",") == strings.Join(b, ",") }
	del := func(p *apiutil.Path) {
		s.DeletePath(apiutil.DeletePathRequest{Paths: []*apiutil.Path{p}})
	}
	for i := 0; i < n; i++ {
		rd := bgp.NewRouteDistinguisherTwoOctetAS(uint16(64000+i%1000), uint32(i))
		rtc := bgp.NewTwoOctetAsSpecificExtended(bgp.EC_SUBTYPE_ROUTE_TARGET, 65000, uint32(100000+i), true)

		// ---- EVPN Ethernet Segment route: ES-Import derived iff absent and ESI type 1, 2 or 3
		esiType := bgp.ESIType(r.pick(0, 1, 2, 3, 4, 5))
		esi := bgp.EthernetSegmentIdentifier{Type: esiType, Value: []byte{byte(i >> 8), byte(i), 0x22, 0x33, 0x44, 0x55, 0x66, 0x77, 0x88}}
		es, _ := bgp.NewEVPNEthernetSegmentRoute(rd, esi, netip.MustParseAddr("10.0.0.1"))
		given := []bgp.ExtendedCommunityInterface{}
		if r.chance(40) {
			given = append(given, rtc)
		}
		how := r.pick(0, 0, 1, 2) // 0 no ES-Import 1 the one that would be derived 2 another MAC
		switch how {
		case 1:
			given = append(given, &bgp.ESImportRouteTarget{ESImport: net.HardwareAddr(esi.Value[:6])})
		case 2:
			given = append(given, &bgp.ESImportRouteTarget{ESImport: net.HardwareAddr{2, 0, 0, byte(i >> 8), byte(i), 1}})
		}
		if r.chance(50) && len(given) > 1 { // the ES-Import need not be the last community
			given[0], given[len(given)-1] = given[len(given)-1], given[0]
		}
		want := vC18HEcHex(given)
		if how == 0 && esiType >= 1 && esiType <= 3 {
			want = append(want, hex.EncodeToString(append([]byte{0x06, 0x02}, esi.Value[:6]...)))
		}
		p := vC18HBase(bgp.RF_EVPN, es, "192.0.2.1", given)
		o.stat("deriv_es_route", 1)
		o.stat(fmt.Sprintf("deriv_es_esi%d_how%d", esiType, how), 1)
		got, _, errText := vC18HAddList(s, "", bgp.RF_EVPN, func(x bgp.NLRI) bool { return x.String() == es.String() }, p)
		d := map[string]any{"nlri": es.String(), "esi_type": int(esiType), "given": vC18HEcHex(given), "want": want, "got": got, "err": errText}
		if errText != "" {
			o.fail("path-derivation:es-import:"+strings.SplitN(errText, ":", 2)[0], d)
		} else if !eq(got, want) {
			cls := "derived-although-supplied"
			if how == 0 {
				cls = "derivation-wrong"
			}
			o.fail("path-derivation:es-import:"+cls, d)
		}
		del(p)

		// ---- EVPN MAC/IP: MAC Mobility derived iff the MAC moves and the caller gave none
		mac := net.HardwareAddr{0x02, 0x18, byte(i >> 16), byte(i >> 8), byte(i), 0x01}
		etag := uint32(r.pick(0, 100))
		withRT := r.chance(80)
		base := []bgp.ExtendedCommunityInterface{}
		if withRT {
			base = append(base, rtc)
		}
		mk := func(rdn uint32) *bgp.EVPNNLRI {
			x, _ := bgp.NewEVPNMacIPAdvertisementRoute(bgp.NewRouteDistinguisherTwoOctetAS(uint16(64000+i%1000), rdn), bgp.EthernetSegmentIdentifier{Type: bgp.ESI_ARBITRARY, Value: make([]byte, 9)}, etag, mac.String(), netip.MustParseAddr("10.9.9.9"), []uint32{uint32(16 + i%1000)})
			return x
		}
		o.stat("deriv_macip_history", 1)
		// S1: first local advertisement: nothing to derive
		n1 := mk(uint32(3 * i))
		p1 := vC18HBase(bgp.RF_EVPN, n1, "192.0.2.1", base)
		got, _, errText = vC18HAddList(s, "", bgp.RF_EVPN, func(x bgp.NLRI) bool { return x.String() == n1.String() }, p1)
		if errText != "" || !eq(got, vC18HEcHex(base)) {
			o.fail("path-derivation:mac-mobility:first-advertisement-changed", map[string]any{"nlri": n1.String(), "given": vC18HEcHex(base), "got": got, "err": errText})
		}
		// S2: the MAC is then learned from a remote PE with sequence k
		k := uint32(r.pick(0, 1, 7, 4294967290))
		n2 := mk(uint32(3*i + 1))
		remoteEcs := append(append([]bgp.ExtendedCommunityInterface{}, base...), bgp.NewMacMobilityExtended(k, false))
		p2 := vC18HBase(bgp.RF_EVPN, n2, "192.0.2.2", remoteEcs)
		p2.PeerASN, p2.PeerID, p2.PeerAddress = 65002, netip.MustParseAddr("10.0.0.2"), netip.MustParseAddr("10.0.0.2")
		got, _, errText = vC18HAddList(s, "", bgp.RF_EVPN, func(x bgp.NLRI) bool { return x.String() == n2.String() }, p2)
		if errText != "" || !eq(got, vC18HEcHex(remoteEcs)) {
			o.fail("path-derivation:mac-mobility:supplied-sequence-changed", map[string]any{"nlri": n2.String(), "given": vC18HEcHex(remoteEcs), "got": got, "err": errText})
		}
		// S3: it moves back: a local advertisement without MAC Mobility gets sequence k+1 — only under a shared RT
		n3 := mk(uint32(3*i + 2))
		supplied := r.pick(0, 0, 1, 2) // 0 none 1 a sufficient sequence 2 a stale sequence
		ecs3 := append([]bgp.ExtendedCommunityInterface{}, base...)
		switch supplied {
		case 1:
			ecs3 = append(ecs3, bgp.NewMacMobilityExtended(k+1+uint32(r.pick(0, 3)), false))
		case 2:
			ecs3 = append(ecs3, bgp.NewMacMobilityExtended(k, false))
		}
		want = vC18HEcHex(ecs3)
		expectRefused := withRT && supplied == 2
		if withRT && supplied == 0 {
			want = append(want, hex.EncodeToString(func() []byte { b, _ := bgp.NewMacMobilityExtended(k+1, false).Serialize(); return b }()))
		}
		p3 := vC18HBase(bgp.RF_EVPN, n3, "192.0.2.1", ecs3)
		got, _, errText = vC18HAddList(s, "", bgp.RF_EVPN, func(x bgp.NLRI) bool { return x.String() == n3.String() }, p3)
		d = map[string]any{"nlri": n3.String(), "remote_sequence": k, "with_rt": withRT, "supplied": supplied, "given": vC18HEcHex(ecs3), "want": want, "got": got, "err": errText}
		o.stat(fmt.Sprintf("deriv_macip_rt%v_supplied%d", withRT, supplied), 1)
		switch {
		case expectRefused && !strings.HasPrefix(errText, "refused"):
			o.fail("path-derivation:mac-mobility:stale-sequence-accepted", d)
		case !expectRefused && errText != "":
			o.fail("path-derivation:mac-mobility:"+strings.SplitN(errText, ":", 2)[0], d)
		case !expectRefused && !eq(got, want):
			cls := "derived-although-supplied"
			if supplied == 0 {
				cls = "derivation-wrong"
			}
			o.fail("path-derivation:mac-mobility:"+cls, d)
		}
		del(p1)
		del(p2)
		del(p3)

		// ---- a route added into a VRF: RD and export RT of the VRF, the caller's communities kept in front
		v4 := netip.PrefixFrom(netip.AddrFrom4([4]byte{10, 77, byte(i >> 8), byte(i)}), 32)
		un, _ := bgp.NewIPAddrPrefix(v4)
		own := []bgp.ExtendedCommunityInterface{}
		if r.chance(50) {
			own = append(own, bgp.NewColorExtended(uint32(i)))
		}
		pv := vC18HBase(bgp.RF_IPv4_UC, un, "192.0.2.1", own)
		want = append(vC18HEcHex(own), vC18HEcHex([]bgp.ExtendedCommunityInterface{vC18HVrfRT})...)
		o.stat("deriv_vrf_route", 1)
		got, nl, errText := vC18HAddList(s, "vc18h-vrf", bgp.RF_IPv4_VPN, func(x bgp.NLRI) bool {
			v, ok := x.(*bgp.LabeledVPNIPAddrPrefix)
			return ok && v.Prefix == v4
		}, pv)
		d = map[string]any{"prefix": v4.String(), "given": vC18HEcHex(own), "want": want, "got": got, "listed_as": nl, "err": errText}
		if errText != "" {
			o.fail("path-derivation:vrf:"+strings.SplitN(errText, ":", 2)[0], d)
		} else if !eq(got, want) {
			o.fail("path-derivation:vrf:communities-differ", d)
		} else if len(nl) != 1 || !strings.HasPrefix(nl[0], "64999:7:") {
			o.fail("path-derivation:vrf:rd-differs", d)
		}
		s.DeletePath(apiutil.DeletePathRequest{VRFID: "vc18h-vrf", Paths: []*apiutil.Path{pv}})
	}
}

var vC18HVrfRT = bgp.NewTwoOctetAsSpecificExtended(bgp.EC_SUBTYPE_ROUTE_TARGET, 64999, 7, true)

func TestVerifC18History(t *testing.T) {
	o := vOpen(t)
	defer o.close()
	r := &vRand{s: o.seed*7919 + 37}

	s := NewBgpServer(LoggerOption(slog.New(slog.NewTextHandler(io.Discard, nil)), &slog.LevelVar{}))
	go s.Serve()
	if err := s.StartBgp(context.Background(), &api.StartBgpRequest{Global: vC18SGlobal()}); err != nil {
		t.Fatal(err)
	}
	defer s.Stop()
	defer s.StopBgp(context.Background(), &api.StopBgpRequest{})
	vC18SPolicySetup(t, s)

	rd, _ := apiutil.MarshalRD(bgp.NewRouteDistinguisherTwoOctetAS(64999, 7))
	rt, _ := apiutil.MarshalRT(vC18HVrfRT)
	if err := s.AddVrf(context.Background(), &api.AddVrfRequest{Vrf: &api.Vrf{Name: "vc18h-vrf", Id: 7, Rd: rd, ImportRt: []*api.RouteTarget{rt}, ExportRt: []*api.RouteTarget{rt}}}); err != nil {
		t.Fatal(err)
	}

	nDS, nSt, nPol, nDer := 600, 300, 150, 300
	if o.thorough {
		nDS, nSt, nPol, nDer = 5000, 2500, 1200, 2500
	}
	vC18HDerivations(o, r, s, nDer)
	vC18HDefinedSets(o, r, s, nDS, true)
	vC18HDefinedSets(o, r, s, nDS, false)
	vC18HStatements(o, r, s, nSt)
	nRm := 400
	if o.thorough {
		nRm = 3000
	}
	vC18HPolicyRemoval(o, r, s, nRm)
	vC18HPolicies(o, r, s, nPol)
}
