//go:build verif

package server

// C06 harness, level (b): the bytes of generated UPDATEs go through the real receive path
//   fsmHandler.recvMessageloop (recvMessageWithError, handlingError, ValidateUpdateMsg, ...)
//   -> BgpServer.handleFSMMessage -> peer.handleUpdate -> table.ProcessMessage -> Adj-RIB-In / Loc-RIB
// of a real BgpServer with three configured neighbours (eBGP, iBGP, confederation member).  No
// socket: the handler reads from an in-memory conn; the session goroutines of `established` are not
// running, so "the session is reset" is observed as the NOTIFICATION handed to fsm.notification.
// Compared with the Lean model (`act` lines) and judged by model-independent oracles.

import (
	"bytes"
	"context"
	"fmt"
	"io"
	"net"
	"net/netip"
	"strings"
	"sync"
	"testing"
	"time"

	"github.com/eapache/channels"

	"github.com/osrg/gobgp/v4/api"
	"github.com/osrg/gobgp/v4/internal/pkg/table"
	"github.com/osrg/gobgp/v4/pkg/packet/bgp"
)

// the in-memory conn of a session: TCP addresses for stateChange, the peer's byte stream for the
// receive loop, and a record of everything gobgp writes (the NOTIFICATION on the wire)
type c06Conn struct {
	net.Conn
	r      *bytes.Reader
	remote netip.Addr
	mu     sync.Mutex
	wrote  []byte
}

func (c *c06Conn) Read(b []byte) (int, error) {
	if c.r == nil {
		return 0, io.EOF
	}
	return c.r.Read(b)
}
func (c *c06Conn) Write(b []byte) (int, error) {
	c.mu.Lock()
	c.wrote = append(c.wrote, b...)
	c.mu.Unlock()
	return len(b), nil
}
func (c *c06Conn) Close() error                       { return nil }
func (c *c06Conn) SetDeadline(time.Time) error      { return nil }
func (c *c06Conn) SetReadDeadline(time.Time) error  { return nil }
func (c *c06Conn) SetWriteDeadline(time.Time) error { return nil }
func (c *c06Conn) RemoteAddr() net.Addr {
	return &net.TCPAddr{IP: net.IP(c.remote.AsSlice()), Port: 179}
}
func (c *c06Conn) LocalAddr() net.Addr {
	return &net.TCPAddr{IP: net.IPv4(10, 0, 0, 254).To4(), Port: 40000}
}

// the NOTIFICATION gobgp put on the wire, if any (messages of other types are skipped)
func (c *c06Conn) notification() *bgp.BGPNotification {
	c.mu.Lock()
	defer c.mu.Unlock()
	b := c.wrote
	for len(b) >= 19 {
		l := int(b[16])<<8 | int(b[17])
		if l < 19 || l > len(b) {
			return nil
		}
		if b[18] == bgp.BGP_MSG_NOTIFICATION && l >= 21 {
			return &bgp.BGPNotification{ErrorCode: b[19], ErrorSubcode: b[20], Data: append([]byte{}, b[21:l]...)}
		}
		b = b[l:]
	}
	return nil
}

// session runs the REAL fsmHandler.established() — send and receive loops, hold timer, the
// NOTIFICATION conversion and fsm.sendNotification — over the given byte stream until it leaves the
// state (NOTIFICATION sent, or the peer's stream ended).  Returns the NOTIFICATION seen on the wire.
func (c *c06Session) session(stream []byte) *bgp.BGPNotification {
	conn := &c06Conn{r: bytes.NewReader(stream), remote: c.addr}
	c.peer.fsm.conn = conn
	c.h.established(context.Background())
	return conn.notification()
}

// establish brings the neighbour's fsm to ESTABLISHED the way fsmHandler.loop does: the neighbour's
// configuration is set, the OPEN "received" from the peer is stored, and the REAL
// fsm.stateChange(ESTABLISHED) derives every per-session input of the error handling from them
// (isEBGP, isConfed, isTreatAsWithdraw, twoByteAsTrans, familyMap).  The harness sets none of them.
func (c *c06Session) establish(t *testing.T, as uint32, revised, fourOctet, v6 bool) {
	c.establishShape(t, as, revised, fourOctet, v6, "mp-explicit")
}

// shapes of the peer's OPEN as far as the negotiated families are concerned
var c06OpenShapes = []string{"mp-explicit", "mp-explicit", "mp-explicit", "caps-without-mp", "mp-other-only", "mp-twice",
	"split-optparams", "addpath-other-family", "addpath-v4-offered", "extnh-other-family", "no-optparams"}

// c06Open builds the optional parameters of the OPEN and says, BY THE RFC RULES (RFC 4760 section 8,
// RFC 5492), which of IPv4 / IPv6 unicast the session carries: the families of the MULTIPROTOCOL
// capabilities present; IPv4 unicast alone when no MULTIPROTOCOL capability is present at all, whatever
// else the OPEN holds; an ADD-PATH or extended-next-hop capability does not add a family.
func c06Open(shape string, as uint32, fourOctet, v6 bool) (params []bgp.OptionParameterInterface, v4c, v6c bool) {
	mp4, mp6 := bgp.NewCapMultiProtocol(bgp.RF_IPv4_UC), bgp.NewCapMultiProtocol(bgp.RF_IPv6_UC)
	var caps []bgp.ParameterCapabilityInterface
	caps = append(caps, bgp.NewCapRouteRefresh())
	if fourOctet {
		caps = append(caps, bgp.NewCapFourOctetASNumber(as))
	}
	one := func() []bgp.OptionParameterInterface {
		return []bgp.OptionParameterInterface{bgp.NewOptionParameterCapability(caps)}
	}
	switch shape {
	case "no-optparams": // only legal without the 4-octet-AS capability
		return nil, true, false
	case "caps-without-mp":
		return one(), true, false
	case "mp-other-only":
		caps = append(caps, mp6)
		return one(), false, true
	case "mp-twice":
		caps = append(caps, mp4, mp4)
		if v6 {
			caps = append(caps, mp6, mp6)
		}
		return one(), true, v6
	case "split-optparams":
		p1 := bgp.NewOptionParameterCapability(caps)
		second := []bgp.ParameterCapabilityInterface{mp4}
		if v6 {
			second = append(second, mp6)
		}
		return []bgp.OptionParameterInterface{p1, bgp.NewOptionParameterCapability(second)}, true, v6
	case "addpath-other-family":
		caps = append(caps, mp4, bgp.NewCapAddPath([]*bgp.CapAddPathTuple{bgp.NewCapAddPathTuple(bgp.RF_IPv6_UC, bgp.BGP_ADD_PATH_BOTH)}))
		return one(), true, false
	case "addpath-v4-offered": // the peer offers ADD-PATH, the neighbour is not configured for it: not negotiated
		caps = append(caps, mp4, bgp.NewCapAddPath([]*bgp.CapAddPathTuple{bgp.NewCapAddPathTuple(bgp.RF_IPv4_UC, bgp.BGP_ADD_PATH_BOTH)}))
		if v6 {
			caps = append(caps, mp6)
		}
		return one(), true, v6
	case "extnh-other-family":
		caps = append(caps, mp4, bgp.NewCapExtendedNexthop([]*bgp.CapExtendedNexthopTuple{bgp.NewCapExtendedNexthopTuple(bgp.RF_IPv6_UC, bgp.AFI_IP)}))
		return one(), true, false
	}
	caps = append(caps, mp4)
	if v6 {
		caps = append(caps, mp6)
	}
	return one(), true, v6
}

func (c *c06Session) establishShape(t *testing.T, as uint32, revised, fourOctet, v6 bool, shape string) (bool, bool) {
	f := c.peer.fsm
	f.lock.Lock()
	conf := f.pConf.ReadCopy()
	conf.ErrorHandling.Config.TreatAsWithdraw = revised
	gr := c.gr
	if shape == "no-optparams" {
		gr = 0
	}
	// graceful restart and RFC 8538 notification support are configured locally whenever the peer offers them
	conf.GracefulRestart.Config.Enabled = gr > 0
	conf.GracefulRestart.Config.NotificationEnabled = gr > 0
	for i := range conf.AfiSafis {
		on := (conf.AfiSafis[i].State.Family == bgp.RF_IPv4_UC && c.ap4) || (conf.AfiSafis[i].State.Family == bgp.RF_IPv6_UC && c.ap6)
		conf.AfiSafis[i].AddPaths.Config.Receive = on
		conf.AfiSafis[i].AddPaths.State.Receive = on
	}
	f.pConf.Update(&conf)
	f.lock.Unlock()
	if shape == "no-optparams" && fourOctet {
		shape = "caps-without-mp"
	}
	params, v4c, v6c := c06Open(shape, as, fourOctet, v6)
	if c.ap4 || c.ap6 {
		// the peer offers to SEND several paths per prefix for the family
		var tuples []*bgp.CapAddPathTuple
		if c.ap4 {
			tuples = append(tuples, bgp.NewCapAddPathTuple(bgp.RF_IPv4_UC, bgp.BGP_ADD_PATH_SEND))
		}
		if c.ap6 {
			tuples = append(tuples, bgp.NewCapAddPathTuple(bgp.RF_IPv6_UC, bgp.BGP_ADD_PATH_SEND))
		}
		params = append(params, bgp.NewOptionParameterCapability([]bgp.ParameterCapabilityInterface{bgp.NewCapAddPath(tuples)}))
	}
	if gr > 0 {
		// GRACEFUL_RESTART capability, without (1) or with (2) the N bit of RFC 8538
		params = append(params, bgp.NewOptionParameterCapability([]bgp.ParameterCapabilityInterface{
			bgp.NewCapGracefulRestart(false, gr == 2, 120, []*bgp.CapGracefulRestartTuple{bgp.NewCapGracefulRestartTuple(bgp.RF_IPv4_UC, true)})}))
	}
	open, err := bgp.NewBGPOpenMessage(uint16(as), 90, c.rid, params)
	if err != nil {
		t.Fatal(err)
	}
	defer func() { c.sessions++ }()
	c.lastV4, c.lastV6 = v4c, v6c
	f.recvOpen = open
	f.conn = &c06Conn{remote: c.addr}
	f.stateChange(bgp.BGP_FSM_ESTABLISHED, newfsmStateReason(fsmOpenMsgNegotiated, nil, nil))
	f.state.Store(bgp.BGP_FSM_ESTABLISHED)
	// ... and what handleFSMMessage stores when the session comes up
	ro := f.pConf.ReadOnly()
	c.peer.peerInfo.Store(table.NewPeerInfo(f.gConf, ro, ro.State.PeerAs, ro.Config.LocalAs, ro.State.RemoteRouterId,
		f.gConf.Config.RouterId, ro.Transport.State.RemoteAddress, ro.Transport.State.LocalAddress))
	return v4c, v6c
}

func c06Frame(body []byte) []byte {
	l := 19 + len(body)
	h := bytes.Repeat([]byte{0xff}, 16)
	h = append(h, byte(l>>8), byte(l), 2)
	return append(h, body...)
}

type c06Session struct {
	s    *BgpServer
	peer *peer
	h    *fsmHandler
	got  []*fsmMsg
	attr []string // attribute list of each delivered UPDATE at callback time
	addr netip.Addr
	rid  netip.Addr
	sessions int
	lastV4, lastV6 bool
	gr int // GRACEFUL_RESTART capability in the next OPEN: 0 absent, 1 present, 2 present with the N bit
	ap4, ap6 bool // ADD-PATH receive for IPv4 / IPv6 unicast in the next session (configured locally, SEND offered by the peer)
}

func c06AttrList(l []bgp.PathAttributeInterface) string {
	var s []string
	for _, a := range l {
		// AS4_PATH / AS4_AGGREGATOR are folded away by the 4-octet-AS conversion after validation
		if a.GetType() == bgp.BGP_ATTR_TYPE_AS4_PATH || a.GetType() == bgp.BGP_ATTR_TYPE_AS4_AGGREGATOR {
			continue
		}
		fl := a.GetFlags()
		if a.GetType() == bgp.BGP_ATTR_TYPE_AS_PATH {
			fl &^= bgp.BGP_ATTR_FLAG_EXTENDED_LENGTH // the 4-octet-AS conversion may rebuild AS_PATH
		}
		s = append(s, fmt.Sprintf("%d:%d", a.GetType(), fl))
	}
	if len(s) == 0 {
		return "-"
	}
	return strings.Join(s, ",")
}

// feed runs the real receive loop over the given UPDATE bodies, then hands every delivered
// message to the server.  Returns the NOTIFICATION queued for the session, if any.
func (c *c06Session) feed(bodies ...[]byte) *bgp.BGPNotification {
	var stream []byte
	for _, b := range bodies {
		stream = append(stream, c06Frame(b)...)
	}
	c.got, c.attr = nil, nil
	n := c.session(stream)
	for _, f := range c.got {
		// as the session goroutine's callback does (takes the server's shared read lock itself)
		c.s.handleFSMMessage(c.peer, f)
	}
	return n
}

// feedRaw runs ONE real recvMessageloop over all the given UPDATEs (one session, one byte stream) and
// leaves the delivered messages in c.got for the caller to hand to the server one at a time.
func (c *c06Session) feedRaw(bodies ...[]byte) *bgp.BGPNotification {
	var stream []byte
	for _, b := range bodies {
		stream = append(stream, c06Frame(b)...)
	}
	c.got, c.attr = nil, nil
	return c.session(stream)
}

// describe: the canonical answer for the i-th delivered message (same format as the `act` lines)
func (c *c06Session) describe(i int) (string, int) {
	fm := c.got[i]
	u := fm.MsgData.(*bgp.BGPMessage).Body.(*bgp.BGPUpdate)
	rank := 0
	var got string
	switch fm.handling {
	case bgp.ERROR_HANDLING_NONE:
		got = "install " + c.attr[i]
	case bgp.ERROR_HANDLING_ATTRIBUTE_DISCARD:
		rank = 1
		got = "discard " + c.attr[i]
	case bgp.ERROR_HANDLING_TREAT_AS_WITHDRAW:
		rank = 2
		got = "withdraw"
	default:
		got = fmt.Sprintf("handling-%d", int(fm.handling))
	}
	got += fmt.Sprintf(" wd=%d nlri=%d", len(u.WithdrawnRoutes), len(u.NLRI))
	ann, wdn := 0, 0
	var ps []string
	for _, p := range table.ProcessMessage(fm.MsgData.(*bgp.BGPMessage), c.peer.peerInfo.Load(), fm.timestamp, fm.handling == bgp.ERROR_HANDLING_TREAT_AS_WITHDRAW) {
		switch {
		case p.IsEOR():
		case p.IsWithdraw:
			wdn++
			ps = append(ps, fmt.Sprintf("w%d", p.RemoteID()))
		default:
			ann++
			ps = append(ps, fmt.Sprintf("a%d", p.RemoteID()))
		}
	}
	if len(ps) == 0 {
		ps = []string{"-"}
	}
	return got + fmt.Sprintf(" ann=%d wdn=%d p=%s", ann, wdn, strings.Join(ps, ".")), rank
}

// state of the given IPv4 prefixes in the neighbour's Adj-RIB-In: "absent" or the attribute types carried
func (c *c06Session) prefixState(keys []string) string {
	adj, _ := c.routes()
	have := map[string]*table.Path{}
	for _, p := range adj {
		if !p.IsWithdraw {
			have[p.GetNlri().String()] = p
		}
	}
	var out []string
	for _, k := range keys {
		p := have[k]
		if p == nil {
			out = append(out, k+"=absent")
			continue
		}
		var ts []string
		for _, a := range p.GetPathAttrs() {
			ts = append(ts, fmt.Sprint(int(a.GetType())))
		}
		out = append(out, k+"="+strings.Join(ts, "."))
	}
	return strings.Join(out, " ")
}

func c06Clone(m *c06Msg) *c06Msg {
	n := *m
	n.attrs = make([]c06Attr, len(m.attrs))
	for i := range m.attrs {
		n.attrs[i] = m.attrs[i]
		n.attrs[i].val = append([]byte{}, m.attrs[i].val...)
	}
	n.nlri = append([][]byte{}, m.nlri...)
	n.wd = append([][]byte{}, m.wd...)
	n.faults = append([]c06Fault{}, m.faults...)
	return &n
}

func (m *c06Msg) without(typ byte) {
	var out []c06Attr
	for _, a := range m.attrs {
		if a.typ != typ {
			out = append(out, a)
		}
	}
	m.attrs = out
}

var c06Fams = []bgp.Family{bgp.RF_IPv4_UC, bgp.RF_IPv6_UC}

func (c *c06Session) routes() (adj, glob []*table.Path) {
	_ = c.s.mgmtOperation(func() error {
		adj = c.peer.adjRibIn.PathList(c06Fams, false)
		info := c.peer.peerInfo.Load()
		for _, p := range c.s.globalRib.GetPathList(table.GLOBAL_RIB_NAME, 0, c06Fams) {
			if src := p.GetSource(); src != nil && info != nil && src.Address == info.Address {
				glob = append(glob, p)
			}
		}
		return nil
	}, false)
	return
}

func (c *c06Session) drop() {
	_ = c.s.mgmtOperation(func() error { c.s.dropAdjRIBIn(c.peer, c06Fams); return nil }, false)
}

const c06Marker = 0xC06C06C0

// a clean announcement of the given IPv4 prefixes, recognisable by its MED
func c06Announce(peer int, use2 bool, nlri [][]byte, ids4 []uint32, nlri6 [][]byte, ids6 []uint32, ap4, ap6 bool) []byte {
	m := &c06Msg{peer: peer, use2: use2, nlri: nlri, nlriID: ids4, ap4: ap4, ap6: ap6}
	as := []byte{2, 1, 0, 0, 0xfc, 0x01}
	if peer == 2 {
		as[0] = 3
	}
	if use2 {
		as = []byte{as[0], 1, 0xfc, 0x01}
	}
	m.attrs = []c06Attr{
		{typ: 1, flags: 0x40, val: []byte{0}, decl: -1},
		{typ: 2, flags: 0x40, val: as, decl: -1},
		{typ: 3, flags: 0x40, val: []byte{10, 0, 0, 77}, decl: -1},
		{typ: 4, flags: 0x80, val: []byte{0xC0, 0x6C, 0x06, 0xC0}, decl: -1},
		{typ: 5, flags: 0x40, val: []byte{0, 0, 0, 100}, decl: -1},
	}
	if len(nlri6) > 0 {
		v := []byte{0, 2, 1, 16, 0x20, 0x01, 0x0d, 0xb8, 0, 0, 0, 0, 0, 0, 0, 0, 0, 0, 0, 0x77, 0}
		for i, p := range nlri6 {
			if ap6 {
				id := ids6[i]
				v = append(v, byte(id>>24), byte(id>>16), byte(id>>8), byte(id))
			}
			v = append(v, p...)
		}
		m.attrs = append(m.attrs, c06Attr{typ: 14, flags: 0x80, val: v, decl: -1})
	}
	return m.body()
}

func c06Key(prefix string, id uint32) string { return fmt.Sprintf("%s#%d", prefix, id) }

func c06PrefixKey6(b []byte) string {
	var a [16]byte
	copy(a[:], b[1:])
	return netip.PrefixFrom(netip.AddrFrom16(a), int(b[0])).String()
}

// prefixes nobody but the clean announcement ever names
var c06Bystander4 = []byte{24, 200, 1, 1}
var c06Bystander6 = []byte{48, 0x20, 0x01, 0x0d, 0xb8, 0xff, 0xff}

func c06PrefixKey(b []byte) string {
	var a [4]byte
	copy(a[:], b[1:])
	if rem := int(b[0]) % 8; rem != 0 {
		a[(int(b[0])+7)/8-1] &= byte((int(0xff00) >> rem) & 0xff)
	}
	return netip.PrefixFrom(netip.AddrFrom4(a), int(b[0])).String()
}

func c06IsMarked(p *table.Path) bool {
	med, err := p.GetMed()
	return err == nil && med == c06Marker
}

// checkRoute: the property itself on one installed route
func c06CheckRoute(o *vOut, where string, p *table.Path, m *c06Msg, detail map[string]any) {
	if p.IsWithdraw {
		return
	}
	seen := map[bgp.BGPAttrType]int{}
	for _, a := range p.GetPathAttrs() {
		seen[a.GetType()]++
		switch v := a.(type) {
		case *bgp.PathAttributeOrigin:
			if v.Value > 2 {
				o.fail("route-installed-with-invalid-origin", detail)
			}
		case *bgp.PathAttributeNextHop:
			b := v.Value.AsSlice()
			if len(b) == 0 || b[0] == 0 || (len(b) == 4 && (b[0] >= 224 || b[0] == 127)) {
				o.fail("route-installed-with-invalid-nexthop", detail)
			}
		}
	}
	for t, n := range seen {
		if n > 1 {
			o.fail(fmt.Sprintf("route-installed-with-duplicate-attribute:%d", int(t)), detail)
		}
	}
	v4 := p.GetFamily() == bgp.RF_IPv4_UC
	if seen[bgp.BGP_ATTR_TYPE_ORIGIN] == 0 || seen[bgp.BGP_ATTR_TYPE_AS_PATH] == 0 || (v4 && seen[bgp.BGP_ATTR_TYPE_NEXT_HOP] == 0) {
		o.fail("route-installed-without-mandatory-attribute:"+where, detail)
	}
	if c06IsMarked(p) {
		return
	}
	// AS_PATH must fit the peer type (RFC 5065): no confederation segment, at ANY position, in a route
	// learned from a plain eBGP peer; CONFED_SEQ first in one learned from a confederation peer.
	// (With an AS4_PATH in the message the path is rebuilt by the 4-octet-AS merge: not judged.)
	if ap := p.GetAsPath(); ap != nil && m.count(17) == 0 && !m.framing {
		if m.peer == 0 {
			for _, sg := range ap.Value {
				if t := sg.GetType(); t == bgp.BGP_ASPATH_ATTR_TYPE_CONFED_SEQ || t == bgp.BGP_ASPATH_ATTR_TYPE_CONFED_SET {
					o.fail("route-installed-with-confed-segment-from-ebgp-peer:"+where, detail)
					break
				}
			}
		}
		if m.peer == 2 && (len(ap.Value) == 0 || ap.Value[0].GetType() != bgp.BGP_ASPATH_ATTR_TYPE_CONFED_SEQ) {
			o.fail("route-installed-without-leading-confed-seq-from-confed-peer:"+where, detail)
		}
	}
	if m.framing {
		return
	}
	for i := range m.attrs {
		a := &m.attrs[i]
		if a.tag == "" || a.tag == "unknown-wk" || m.count(a.typ) != 1 {
			continue
		}
		if seen[bgp.BGPAttrType(a.typ)] > 0 {
			o.fail("route-installed-with-malformed-attribute:"+a.tag, detail)
		}
	}
}

func TestVerifC06Server(t *testing.T) {
	o := vOpen(t)
	defer o.close()
	r := &vRand{s: o.seed*104729 + 11}

	s := NewBgpServer()
	go s.Serve()
	err := s.StartBgp(context.Background(), &api.StartBgpRequest{Global: &api.Global{
		Asn: 65000, RouterId: "1.1.1.1", ListenPort: -1,
		Confederation: &api.Confederation{Enabled: true, Identifier: 65100, MemberAsList: []uint32{65002}},
	}})
	if err != nil {
		t.Fatal(err)
	}
	defer s.StopBgp(context.Background(), &api.StopBgpRequest{})

	// neighbours 0..2: eBGP, iBGP, confederation member; neighbour 3: peer AS not configured, so the
	// peer type of each of its sessions comes from the AS in that session's OPEN
	peerAS := []uint32{65001, 65000, 65002, 65003}
	sess := make([]*c06Session, 4)
	for i := 0; i < 4; i++ {
		addr := netip.AddrFrom4([4]byte{10, 0, 0, byte(i + 1)})
		err = s.AddPeer(context.Background(), &api.AddPeerRequest{Peer: &api.Peer{
			Conf: &api.PeerConf{NeighborAddress: addr.String(), PeerAsn: peerAS[i], AdminDown: true},
			AfiSafis: []*api.AfiSafi{
				{Config: &api.AfiSafiConfig{Family: &api.Family{Afi: api.Family_AFI_IP, Safi: api.Family_SAFI_UNICAST}, Enabled: true}},
				{Config: &api.AfiSafiConfig{Family: &api.Family{Afi: api.Family_AFI_IP6, Safi: api.Family_SAFI_UNICAST}, Enabled: true}},
			},
		}})
		if err != nil {
			t.Fatal(err)
		}
		c := &c06Session{s: s}
		_ = s.mgmtOperation(func() error { c.peer = s.neighborMap[addr]; return nil }, false)
		if c.peer == nil {
			t.Fatal("peer not found")
		}
		// establish() overwrites fsm.state: only after the peer's real FSM goroutine has read it
		if !vAwaitFSMIdle(c.peer) {
			t.Fatal("the FSM goroutine did not reach idle()")
		}
		c.h = &fsmHandler{fsm: c.peer.fsm, outgoing: channels.NewInfiniteChannel()}
		c.h.callback = func(f *fsmMsg) {
			c.got = append(c.got, f)
			if m, ok := f.MsgData.(*bgp.BGPMessage); ok && m.Header.Type == bgp.BGP_MSG_UPDATE {
				c.attr = append(c.attr, c06AttrList(m.Body.(*bgp.BGPUpdate).PathAttributes))
			} else {
				c.attr = append(c.attr, "?")
			}
		}
		c.addr = addr
		c.rid = netip.AddrFrom4([4]byte{9, 9, 9, byte(i + 1)})
		if i == 3 {
			f := c.peer.fsm
			f.lock.Lock()
			conf := f.pConf.ReadCopy()
			conf.Config.PeerAs = 0
			conf.State.PeerAs = 0
			// added as an external non-member (local AS = confederation identifier); as the peer AS is
			// now open, the plain member AS is the local AS, as for neighbours 1 and 2
			conf.Config.LocalAs = 65000
			f.pConf.Update(&conf)
			f.lock.Unlock()
		}
		sess[i] = c
	}

	// the neighbours' own FSM goroutines read fsm.state once, when they start (admin-down: they then
	// sit in idle); only afterwards may the state be forced to ESTABLISHED for handleFSMMessage
	time.Sleep(500 * time.Millisecond)

	rankName := map[int]string{0: "install", 1: "discard", 2: "withdraw", 4: "reset"}

	floating := false // next case on the neighbour whose peer AS is not configured
	shapeOverride := "mp-explicit" // shape of the OPEN of the session under test ("" = random)
	grOverride := 0                // GRACEFUL_RESTART capability of that OPEN (-1 = random)
	apOverride := 0                // ADD-PATH: 0 off, 1 IPv4, 2 IPv6, 3 both, -1 random
	detail0 := ""
	runCase := func(m *c06Msg, revised bool, v6 bool, label string) {
		c := sess[m.peer]
		as := peerAS[m.peer]
		if floating {
			// the peer type (eBGP / iBGP / confederation) of THIS session comes from its OPEN alone;
			// the previous session on the same fsm usually had another one
			c = sess[3]
			o.stat("session_on_unconfigured_as_neighbour", 1)
		}
		f := c.peer.fsm
		c.drop()
		if apOverride < 0 && r.chance(25) || apOverride > 0 {
			// the case runs on sessions with ADD-PATH receive for IPv4 and / or IPv6 unicast: every prefix of
			// the message carries a path identifier (zero or not), which is part of the route key
			k := apOverride
			if k <= 0 {
				k = 1 + r.intn(3)
			}
			c06AddPathify(r, m, k != 2, k != 1)
			if m.ap6 {
				v6 = true
			}
			detail0 = fmt.Sprintf("ADD-PATH receive IPv4 %v IPv6 %v", m.ap4, m.ap6)
		} else {
			detail0 = "no ADD-PATH"
		}
		body := m.body()
		hx := m.hex()
		detail := map[string]any{"body": hx, "faults": m.faultNames(), "peer": m.peer, "revised": revised, "use2": m.use2, "v6": v6,
			"peer_as_configured": !floating, "open": fmt.Sprintf("AS %d, 4-octet-AS capability %v, IPv6 %v", as, !m.use2, v6)}

		// every prefix M names anywhere (NLRI, WITHDRAWN ROUTES, intact MP_REACH / MP_UNREACH) plus two
		// bystanders are first announced cleanly by the same peer, so that withdrawals are visible
		pre := !m.framing
		var reach6, unreach6 [][]byte
		for i := range m.attrs {
			a := &m.attrs[i]
			if a.tag == "" && m.count(a.typ) == 1 {
				if a.typ == 14 {
					reach6 = c06MpPrefixes(a)
				} else if a.typ == 15 {
					unreach6 = c06MpPrefixes(a)
				}
			}
		}
		// the route KEY: (prefix, path identifier); identifiers are 0 without ADD-PATH
		idOf := func(l []uint32, i int) uint32 {
			if i < len(l) {
				return l[i]
			}
			return 0
		}
		var reachID, unreachID []uint32
		for i := range m.attrs {
			a := &m.attrs[i]
			if a.tag == "" && m.count(a.typ) == 1 {
				if a.typ == 14 {
					reachID = c06MpIDs(a)
				} else if a.typ == 15 {
					unreachID = c06MpIDs(a)
				}
			}
		}
		bystanders := []string{c06Key(c06PrefixKey(c06Bystander4), 0), c06Key(c06PrefixKey6(c06Bystander6), 0)}
		c.ap4, c.ap6 = m.ap4, m.ap6
		if pre {
			// a first session of the neighbour: revised handling on, IPv6 negotiated, same AS width, same ADD-PATH
			c.gr = 0
			c.establish(t, as, true, !m.use2, true)
			n4 := append(append([][]byte{c06Bystander4}, m.nlri...), m.wd...)
			i4 := []uint32{0}
			for i := range m.nlri {
				i4 = append(i4, idOf(m.nlriID, i))
			}
			for i := range m.wd {
				i4 = append(i4, idOf(m.wdID, i))
			}
			n6 := append(append([][]byte{c06Bystander6}, reach6...), unreach6...)
			i6 := append(append([]uint32{0}, reachID...), unreachID...)
			// with ADD-PATH every named prefix is ALSO installed under another identifier: those routes are
			// not named by the UPDATE under test and must survive it
			if m.ap4 {
				for i, p := range n4[1:] {
					n4 = append(n4, p)
					i4 = append(i4, i4[1+i]+1000)
					bystanders = append(bystanders, c06Key(c06PrefixKey(p), i4[1+i]+1000))
				}
			}
			if m.ap6 {
				for i, p := range n6[1:] {
					n6 = append(n6, p)
					i6 = append(i6, i6[1+i]+1000)
					bystanders = append(bystanders, c06Key(c06PrefixKey6(p), i6[1+i]+1000))
				}
			}
			if n := c.feed(c06Announce(m.peer, m.use2, n4, i4, n6, i6, m.ap4, m.ap6)); n != nil {
				detail["notification"] = fmt.Sprintf("%d/%d", n.ErrorCode, n.ErrorSubcode)
				o.fail("wellformed-penalised:clean-announcement-reset", detail)
				return
			}
			adj, _ := c.routes()
			if len(adj) < 2 {
				o.fail("wellformed-penalised:clean-announcement-not-installed", detail)
				return
			}
		}
		// the session under test: configuration and OPEN of the case; whatever the previous session
		// (other treat-as-withdraw setting, other families, other peer type) left in the fsm must not matter
		shape := shapeOverride
		if shape == "" {
			shape = c06OpenShapes[r.intn(len(c06OpenShapes))]
		}
		if m.ap4 || m.ap6 {
			shape = []string{"mp-explicit", "mp-twice", "split-optparams"}[r.intn(3)]
		}
		detail["add_path"] = detail0
		c.gr = grOverride
		if c.gr < 0 {
			c.gr = r.intn(3)
		}
		o.stat(fmt.Sprintf("open_graceful_restart_%d", c.gr), 1)
		detail["graceful_restart_capability"] = []string{"absent", "present", "present with N bit"}[c.gr]
		if shape == "no-optparams" && !m.use2 {
			shape = "caps-without-mp"
		}
		v4, v6c := c.establishShape(t, as, revised, !m.use2, v6, shape)
		v6 = v6c
		detail["open"] = fmt.Sprintf("AS %d, 4-octet-AS capability %v, shape %s (carries IPv4 %v, IPv6 %v by RFC 4760/5492)", as, !m.use2 && shape != "no-optparams", shape, v4, v6)
		detail["v6"] = v6
		o.stat(fmt.Sprintf("open_fouroctet_%d_revised_%d", c06B(!m.use2), c06B(revised)), 1)
		o.stat("open_shape_"+shape, 1)
		_ = f
		var notif *bgp.BGPNotification
		panicked := func() (p bool) {
			defer func() {
				if e := recover(); e != nil {
					p = true
					detail["panic"] = fmt.Sprint(e)
				}
			}()
			notif = c.feed(body)
			return false
		}()
		cfg := fmt.Sprintf("%d %d %d 0 %d %d", c06B(revised), c06B(m.peer != 1), c06B(m.peer == 2), c06B(v4), c06B(v6))
		arg := fmt.Sprintf("%d %s", c06B(m.use2), hx)
		if m.ap4 || m.ap6 {
			arg = fmt.Sprintf("%d %d %d %s", c06B(m.use2), c06B(m.ap4), c06B(m.ap6), hx)
		}
		if panicked {
			o.ask("panic", "act %s %s", cfg, arg)
			o.fail("receive-path-panic", detail)
			return
		}
		rank := 0
		var got string
		switch {
		case notif != nil:
			rank = 4
			got = fmt.Sprintf("reset %d %d", notif.ErrorCode, notif.ErrorSubcode)
		case len(c.got) == 1:
			fm := c.got[0]
			u := fm.MsgData.(*bgp.BGPMessage).Body.(*bgp.BGPUpdate)
			switch fm.handling {
			case bgp.ERROR_HANDLING_NONE:
				got = "install " + c.attr[0]
			case bgp.ERROR_HANDLING_ATTRIBUTE_DISCARD:
				rank = 1
				got = "discard " + c.attr[0]
			case bgp.ERROR_HANDLING_TREAT_AS_WITHDRAW:
				rank = 2
				got = "withdraw"
			default:
				got = fmt.Sprintf("handling-%d", int(fm.handling))
			}
			got += fmt.Sprintf(" wd=%d nlri=%d", len(u.WithdrawnRoutes), len(u.NLRI))
			// what table.ProcessMessage makes of the delivered message (same call as peer.handleUpdate)
			ann, wdn := 0, 0
			var ps []string
			for _, p := range table.ProcessMessage(fm.MsgData.(*bgp.BGPMessage), c.peer.peerInfo.Load(), fm.timestamp, fm.handling == bgp.ERROR_HANDLING_TREAT_AS_WITHDRAW) {
				switch {
				case p.IsEOR():
				case p.IsWithdraw:
					wdn++
					ps = append(ps, fmt.Sprintf("w%d", p.RemoteID()))
				default:
					ann++
					ps = append(ps, fmt.Sprintf("a%d", p.RemoteID()))
				}
			}
			if len(ps) == 0 {
				ps = []string{"-"}
			}
			// ... path by path: withdrawal or announcement, and the path identifier it carries (the route key)
			got += fmt.Sprintf(" ann=%d wdn=%d p=%s", ann, wdn, strings.Join(ps, "."))
		default:
			got = fmt.Sprintf("nothing-delivered-%d", len(c.got))
		}
		o.ask(got, "act %s %s", cfg, arg)
		o.stat("action_"+rankName[rank], 1)
		o.stat(label, 1)
		detail["reaction"] = got

		// ---------------- oracles (no model involved) ----------------
		adj, glob := c.routes()
		for _, p := range adj {
			c06CheckRoute(o, "adj-in", p, m, detail)
		}
		for _, p := range glob {
			c06CheckRoute(o, "loc-rib", p, m, detail)
		}
		// the NOTIFICATION on the wire carries the RFC 4271 code/subcode of the error, whatever was negotiated
		// (judged for a single fault whose subcode the RFC fixes, families carried, fields not shifted)
		if notif != nil && len(m.faults) == 1 && !m.framing && v4 && (v6 || (m.count(14) == 0 && m.count(15) == 0)) && m.count(18) == 0 {
			nm := m.faults[0].name
			if k := strings.IndexByte(nm, ':'); k >= 0 {
				nm = nm[:k]
			}
			want := map[string][2]uint8{"unknown-wellknown": {3, 2}, "dup-mp": {3, 1}, "missing": {3, 3}, "flags": {3, 4},
				"origin-value": {3, 6}, "nexthop-value": {3, 8}, "aspath-segment": {3, 11}, "aspath-confed-first": {3, 11},
				"aspath-confed-middle": {3, 11}, "aspath-confed-last": {3, 11}, "aspath-confed-peer-head": {3, 11}, "aspath-confed-peer-empty": {3, 11}}
			if w, ok := want[nm]; ok && (notif.ErrorCode != w[0] || notif.ErrorSubcode != w[1]) {
				detail["want_notification"] = fmt.Sprintf("%d/%d", w[0], w[1])
				o.fail("notification-on-wire-has-wrong-code", detail)
				delete(detail, "want_notification")
			}
		}
		usesV4 := len(m.nlri) > 0 || len(m.wd) > 0
		usesV6 := m.count(14) > 0 || m.count(15) > 0
		if len(m.faults) == 0 && (!usesV4 || v4) && (!usesV6 || v6) {
			// well-formed, and every family it uses is carried by the session BY THE RFC RULES
			if rank != 0 {
				o.fail("wellformed-penalised", detail)
			}
		}
		if len(m.faults) > 0 && !m.framing {
			judged := false
			for _, ft := range m.faults {
				if ft.min < 0 {
					continue
				}
				if ft.typ >= 0 && !strings.HasPrefix(ft.name, "dup") && m.count(byte(ft.typ)) > 1 {
					// the faulty attribute may be a second occurrence, which RFC 7606 lets be discarded
					continue
				}
				judged = true
				if revised && rank < ft.min {
					cls := fmt.Sprintf("reaction-weaker-than-rfc:%s<%s", rankName[rank], rankName[ft.min])
					if rank == 2 && ft.min == 4 {
						cls = "reaction-weaker-than-rfc:treat-as-withdraw-decode-error-masks-session-reset"
					}
					detail["fault"] = ft.name
					o.fail(cls, detail)
				}
			}
			if !revised && judged && rank != 4 {
				o.fail("revised-handling-off-but-no-reset", detail)
			}
			// ... and not stronger either: with revised handling configured for the neighbour, faults that
			// RFC 7606 AND gobgp's own table put at attribute-discard / treat-as-withdraw must not cost the session
			if revised && rank == 4 && m.count(18) == 0 && (v6 || !usesV6) && (v4 || !usesV4) {
				soft := true
				for _, ft := range m.faults {
					nm := ft.name
					if k := strings.IndexByte(nm, ':'); k >= 0 {
						nm = nm[:k]
					}
					switch nm {
					case "origin-value", "nexthop-value", "missing", "aspath-segment":
					case "aspath-confed-first", "aspath-confed-middle", "aspath-confed-last":
					case "len", "flags", "dup", "overrun":
						if ft.typ == 14 || ft.typ == 15 || ft.typ == 7 {
							soft = false
						}
					default:
						soft = false
					}
				}
				if soft {
					o.fail("contained-class-fault-resets-session", detail)
				}
			}
		}
		if pre {
			// the containment rule itself, prefix by prefix, in Adj-RIB-In and in Loc-RIB
			named := map[string]string{} // key -> "ann" | "wd"
			for i, p := range m.nlri {
				named[c06Key(c06PrefixKey(p), idOf(m.nlriID, i))] = "ann"
			}
			for i, p := range reach6 {
				named[c06Key(c06PrefixKey6(p), idOf(reachID, i))] = "ann"
			}
			for i, p := range m.wd {
				named[c06Key(c06PrefixKey(p), idOf(m.wdID, i))] = "wd" // named in both: the withdrawal is processed last
			}
			for i, p := range unreach6 {
				named[c06Key(c06PrefixKey6(p), idOf(unreachID, i))] = "wd"
			}
			for _, b := range bystanders {
				delete(named, b) // (cannot happen: identifiers differ by 1000)
			}
			if m.ap4 || m.ap6 {
				o.stat("addpath_case_"+rankName[rank], 1)
			}
			if len(m.wd)+len(unreach6) > 0 && len(m.nlri)+len(reach6) > 0 {
				o.stat("announce_and_withdraw_"+rankName[rank], 1)
			}
			if len(unreach6) > 0 {
				o.stat("mp_unreach_"+rankName[rank], 1)
			}
			for si, set := range [][]*table.Path{adj, glob} {
				where := []string{"adj-in", "loc-rib"}[si]
				have := map[string]*table.Path{}
				for _, p := range set {
					if !p.IsWithdraw {
						have[c06Key(p.GetNlri().String(), p.RemoteID())] = p
					}
				}
				for _, k := range bystanders {
					if p := have[k]; p == nil || !c06IsMarked(p) {
						detail["prefix"] = k
						o.fail("unrelated-route-of-the-peer-touched:"+where, detail)
					}
				}
				for k, kind := range named {
					p := have[k]
					detail["prefix"] = k
					switch rank {
					case 4:
						if p == nil || !c06IsMarked(p) {
							o.fail("reset-message-partially-applied:"+where, detail)
						}
					case 2:
						if p != nil {
							if kind == "wd" {
								o.fail("treat-as-withdraw-skips-explicit-withdrawal:"+where, detail)
							} else {
								o.fail("treat-as-withdraw-leaves-route", detail)
							}
						}
					case 0, 1:
						if kind == "wd" {
							if p != nil {
								o.fail("explicit-withdrawal-not-executed:"+where, detail)
							}
						} else if p == nil {
							o.fail("accepted-update-not-installed", detail)
						} else if c06IsMarked(p) {
							o.fail("accepted-update-did-not-replace-route", detail)
						} else if where == "adj-in" {
							// attribute discard removes the malformed attribute only: what arrived intact is kept
							// (not judged: MP attributes, AS4_* folded by the 4-octet-AS merge, LOCAL_PREF stripped for eBGP)
							has := map[byte]bool{}
							for _, a := range p.GetPathAttrs() {
								has[byte(a.GetType())] = true
							}
							for i := range m.attrs {
								a := &m.attrs[i]
								if a.tag != "" || m.count(a.typ) != 1 || a.typ == 5 || a.typ == 14 || a.typ == 15 || a.typ == 17 || a.typ == 18 {
									continue
								}
								if a.typ == 3 && p.GetFamily() != bgp.RF_IPv4_UC {
									continue
								}
								if !has[a.typ] {
									detail["missing_type"] = a.typ
									o.fail("accepted-route-lacks-wellformed-attribute", detail)
									delete(detail, "missing_type")
								}
							}
						}
					}
				}
				delete(detail, "prefix")
			}
		}
	}

	// ---- corpus: the two defects found on the unchanged tree
	{
		// malformed ATOMIC_AGGREGATE (discard class) and no ORIGIN, one NLRI
		m := &c06Msg{peer: 0, nlri: [][]byte{{24, 10, 99, 1}}}
		m.attrs = []c06Attr{
			{typ: 6, flags: 0x40, val: []byte{0xff}, decl: -1, tag: "len"},
			{typ: 2, flags: 0x40, val: []byte{2, 1, 0, 0, 0xfd, 0xe8}, decl: -1},
			{typ: 3, flags: 0x40, val: []byte{10, 0, 0, 1}, decl: -1},
		}
		m.faults = []c06Fault{{"len:6", c06Discard, 6}, {"missing:1", c06Withdraw, 1}}
		runCase(m, true, true, "corpus")
		// the same with a bad ORIGIN value and a duplicate LOCAL_PREF instead
		m2 := &c06Msg{peer: 0, nlri: [][]byte{{24, 10, 99, 2}}}
		m2.attrs = []c06Attr{
			{typ: 1, flags: 0x40, val: []byte{9}, decl: -1, tag: "value"},
			{typ: 6, flags: 0x40, val: []byte{0xff}, decl: -1, tag: "len"},
			{typ: 2, flags: 0x40, val: []byte{2, 1, 0, 0, 0xfd, 0xe8}, decl: -1},
			{typ: 3, flags: 0x40, val: []byte{10, 0, 0, 1}, decl: -1},
		}
		m2.faults = []c06Fault{{"len:6", c06Discard, 6}, {"origin-value", c06Withdraw, 1}}
		runCase(m2, true, true, "corpus")
		// LOCAL_PREF declared one byte too long: overruns the attribute field; NLRI must still be withdrawn
		m3 := &c06Msg{peer: 0, nlri: [][]byte{{24, 10, 99, 3}}}
		m3.attrs = []c06Attr{
			{typ: 1, flags: 0x40, val: []byte{0}, decl: -1},
			{typ: 2, flags: 0x40, val: []byte{2, 1, 0, 0, 0xfd, 0xe8}, decl: -1},
			{typ: 3, flags: 0x40, val: []byte{10, 0, 0, 1}, decl: -1},
			{typ: 5, flags: 0x40, val: []byte{0, 0, 0, 100}, decl: 5, tag: "overrun", last: true},
		}
		m3.faults = []c06Fault{{"overrun:5", c06Withdraw, 5}}
		runCase(m3, true, true, "corpus")
		// known finding: NEXT_HOP of length 2 (treat-as-withdraw) hides an unrecognised well-known attribute (session reset)
		m4 := &c06Msg{peer: 0, nlri: [][]byte{{24, 10, 99, 4}}}
		m4.attrs = []c06Attr{
			{typ: 1, flags: 0x40, val: []byte{0}, decl: -1},
			{typ: 2, flags: 0x40, val: []byte{2, 1, 0, 0, 0xfd, 0xe8}, decl: -1},
			{typ: 3, flags: 0x40, val: []byte{10, 0}, decl: -1, tag: "len"},
			{typ: 99, flags: 0x40, val: []byte{1}, decl: -1, tag: "unknown-wk"},
		}
		m4.faults = []c06Fault{{"len:3", c06Withdraw, 3}, {"unknown-wellknown", c06Reset, -1}}
		runCase(m4, true, true, "corpus")
		// plain eBGP peer, AS_PATH = SEQ{65001} CONFED_SEQ{65100} / SEQ SET CONFED_SET: confederation segment not at the head
		for k, ap := range [][]byte{
			{2, 1, 0, 0, 0xfd, 0xe9, 3, 1, 0, 0, 0xfe, 0x4c},
			{2, 1, 0, 0, 0xfd, 0xe9, 1, 1, 0, 0, 0xfd, 0xea, 4, 1, 0, 0, 0xfe, 0x4c},
			{2, 1, 0, 0, 0xfd, 0xe9, 3, 1, 0, 0, 0xfe, 0x4c, 2, 1, 0, 0, 0xfd, 0xeb},
		} {
			m5 := &c06Msg{peer: 0, nlri: [][]byte{{24, 10, 99, byte(5 + k)}}}
			m5.attrs = []c06Attr{
				{typ: 1, flags: 0x40, val: []byte{0}, decl: -1},
				{typ: 2, flags: 0x40, val: ap, decl: -1, tag: "segment-kind"},
				{typ: 3, flags: 0x40, val: []byte{10, 0, 0, 1}, decl: -1},
			}
			m5.faults = []c06Fault{{"aspath-confed-last", c06Withdraw, 2}}
			runCase(m5, true, true, "corpus")
		}
	}

	{
		// seed C06-F class: the per-session inputs must come from THIS session also when the peer does
		// not advertise the 4-octet-AS capability.  ORIGIN of length 2 (treat-as-withdraw) and a
		// CONFED_SEQ from a plain eBGP peer, on 2-octet-AS sessions, with revised handling on, off, on.
		for k, rev := range []bool{true, false, true} {
			m6 := &c06Msg{peer: 0, use2: true, nlri: [][]byte{{24, 10, 98, byte(1 + k)}}}
			m6.attrs = []c06Attr{
				{typ: 1, flags: 0x40, val: []byte{0, 0}, decl: -1, tag: "len"},
				{typ: 2, flags: 0x40, val: []byte{2, 1, 0xfd, 0xe9}, decl: -1},
				{typ: 3, flags: 0x40, val: []byte{10, 0, 0, 1}, decl: -1},
			}
			m6.faults = []c06Fault{{"len:1", c06Withdraw, 1}}
			runCase(m6, rev, true, "corpus")
			m7 := &c06Msg{peer: 0, use2: true, nlri: [][]byte{{24, 10, 97, byte(1 + k)}}}
			m7.attrs = []c06Attr{
				{typ: 1, flags: 0x40, val: []byte{0}, decl: -1},
				{typ: 2, flags: 0x40, val: []byte{3, 1, 0xfe, 0x4c, 2, 1, 0xfd, 0xe9}, decl: -1, tag: "segment-kind"},
				{typ: 3, flags: 0x40, val: []byte{10, 0, 0, 1}, decl: -1},
			}
			m7.faults = []c06Fault{{"aspath-confed-first", c06Withdraw, 2}}
			floating = k == 2
			runCase(m7, rev, true, "corpus")
			floating = false
		}
	}

	{
		// seed C06-P class: every shape of the peer's OPEN, with a clean IPv4 announcement (must be installed
		// when the session carries IPv4 unicast by the RFC rules, also when that is only IMPLIED by the
		// absence of any MULTIPROTOCOL capability) and with a treat-as-withdraw class fault
		k := 0
		for _, shape := range []string{"caps-without-mp", "no-optparams", "mp-other-only", "mp-twice", "split-optparams",
			"addpath-other-family", "addpath-v4-offered", "extnh-other-family", "mp-explicit"} {
			for _, use2 := range []bool{false, true} {
				k++
				as := []byte{2, 1, 0, 0, 0xfd, 0xe9}
				if use2 {
					as = []byte{2, 1, 0xfd, 0xe9}
				}
				good := &c06Msg{peer: 0, use2: use2, nlri: [][]byte{{24, 10, 96, byte(k)}}}
				good.attrs = []c06Attr{
					{typ: 1, flags: 0x40, val: []byte{0}, decl: -1},
					{typ: 2, flags: 0x40, val: as, decl: -1},
					{typ: 3, flags: 0x40, val: []byte{10, 0, 0, 1}, decl: -1},
				}
				shapeOverride = shape
				runCase(good, true, true, "corpus")
				bad := c06Clone(good)
				bad.attrs[0].val, bad.attrs[0].tag = []byte{0, 0}, "len"
				bad.faults = []c06Fault{{"len:1", c06Withdraw, 1}}
				runCase(bad, true, true, "corpus")
			}
		}
		shapeOverride = "mp-explicit"
		// seed C06-Q class: session-reset class errors whose subcode is 1, 2 or 3, on sessions with the
		// GRACEFUL_RESTART capability without / with the N bit: the wire still says 3/2, 3/1, 3/3
		for g := 0; g <= 2; g++ {
			grOverride = g
			mk := func(k byte) *c06Msg {
				m := &c06Msg{peer: 0, nlri: [][]byte{{24, 10, 95, k}}}
				m.attrs = []c06Attr{
					{typ: 1, flags: 0x40, val: []byte{0}, decl: -1},
					{typ: 2, flags: 0x40, val: []byte{2, 1, 0, 0, 0xfd, 0xe9}, decl: -1},
					{typ: 3, flags: 0x40, val: []byte{10, 0, 0, 1}, decl: -1},
				}
				return m
			}
			m1 := mk(byte(1 + g))
			m1.attrs = append(m1.attrs, c06Attr{typ: 99, flags: 0x40, val: []byte{1}, decl: -1, tag: "unknown-wk"})
			m1.faults = []c06Fault{{"unknown-wellknown", c06Reset, 99}}
			runCase(m1, true, true, "corpus")
			m2 := mk(byte(11 + g))
			m2.attrs = m2.attrs[:2]
			m2.faults = []c06Fault{{"missing:3", c06Withdraw, 3}}
			runCase(m2, false, true, "corpus")
			m3 := mk(byte(21 + g))
			mp := c06Attr{typ: 15, flags: 0x80, val: []byte{0, 2, 1, 48, 0x20, 0x01, 0x0d, 0xb8, 0xee, 0xee}, decl: -1}
			m3.attrs = append(m3.attrs, mp, mp)
			m3.faults = []c06Fault{{"dup-mp:15", c06Reset, 15}}
			runCase(m3, true, true, "corpus")
		}
		grOverride = 0
		// seed C06-R class: treat-as-withdraw on ADD-PATH sessions, NLRI in the NLRI field and in MP_REACH,
		// path identifier non-zero and zero, the routes installed before under the same and another identifier
		for ap := 1; ap <= 3; ap++ {
			for k, origin := range [][]byte{{9}, {0, 0}} {
				m := &c06Msg{peer: 0, nlri: [][]byte{{24, 10, 94, byte(ap*4 + k)}}}
				m.attrs = []c06Attr{
					{typ: 1, flags: 0x40, val: origin, decl: -1, tag: "value"},
					{typ: 2, flags: 0x40, val: []byte{2, 1, 0, 0, 0xfd, 0xe9}, decl: -1},
					{typ: 3, flags: 0x40, val: []byte{10, 0, 0, 1}, decl: -1},
					{typ: 14, flags: 0x80, decl: -1, val: append([]byte{0, 2, 1, 16, 0x20, 0x01, 0x0d, 0xb8, 0, 0, 0, 0, 0, 0, 0, 0, 0, 0, 0, 9, 0},
						48, 0x20, 0x01, 0x0d, 0xb8, 0xee, byte(ap*4+k), 64, 0x20, 0x01, 0x0d, 0xb8, 0xee, byte(ap*4+k), 0, 1)},
				}
				m.faults = []c06Fault{{"origin-value", c06Withdraw, 1}}
				if k == 1 {
					m.attrs[0].tag = "len"
					m.faults = []c06Fault{{"len:1", c06Withdraw, 1}}
				}
				apOverride = ap
				runCase(m, true, true, "corpus")
			}
		}
		apOverride = 0
	}

	n := 2500
	if o.thorough {
		n = 20000
	}
	for i := 0; i < n; i++ {
		peer := i % 3
		nf := []int{0, 1, 1, 1, 2, 2, 2}[r.intn(7)]
		m := c06Gen(r, peer, nf)
		revised := !r.chance(20)
		o.stat(fmt.Sprintf("faults_%d", nf), 1)
		if m.shape != "" {
			o.stat("aspath_segments_"+m.shape+"_"+[]string{"ebgp", "ibgp", "confed"}[peer], 1)
		}
		if i < 2 {
			o.sample(fmt.Sprintf("server peer=%d revised=%v faults=%s body=%s", peer, revised, m.faultNames(), m.hex()))
		}
		for _, ft := range m.faults {
			nm := ft.name
			if k := strings.IndexByte(nm, ':'); k >= 0 {
				nm = nm[:k]
			}
			o.stat("fault_"+nm, 1)
		}
		floating = r.chance(30)
		shapeOverride, grOverride, apOverride = "", -1, -1
		runCase(m, revised, !r.chance(10), "peer_"+[]string{"ebgp", "ibgp", "confed"}[peer])
		floating = false
		shapeOverride, grOverride, apOverride = "mp-explicit", 0, 0
	}

	// ------------------------------------------------------------------------------------------
	// SEQUENCES: several UPDATEs through ONE recvMessageloop session.  The handling of an UPDATE is a
	// function of that UPDATE and of the session's negotiated parameters only, never of the UPDATEs
	// before it.  Consecutive messages share attribute bytes / NLRI / shape and differ in what decides
	// validity.  Each message is judged (a) against the model (`act`), (b) against the SAME message
	// delivered first on a fresh session with the same parameters (handling, delivered attributes,
	// ProcessMessage counts, state of its prefixes in the Adj-RIB-In), (c) by the route oracles.
	// ------------------------------------------------------------------------------------------
	seqBase := func(peer int) *c06Msg {
		for {
			m := c06Base(r, peer)
			if len(m.nlri) > 0 && m.count(1) == 1 && m.count(2) == 1 && m.count(3) == 1 && m.count(14) == 0 && m.count(15) == 0 {
				return m
			}
		}
	}
	type variant struct {
		name string
		mk   func(b *c06Msg) *c06Msg
	}
	wdOnly := [][]byte{{24, 201, 7, 7}}
	mpReach := c06Attr{typ: 14, flags: 0x80, decl: -1,
		val: append([]byte{0, 2, 1, 16, 0x20, 0x01, 0x0d, 0xb8, 0, 0, 0, 0, 0, 0, 0, 0, 0, 0, 0, 9, 0}, 48, 0x20, 0x01, 0x0d, 0xb8, 0xee, 0xee)}
	variants := map[string]variant{}
	addV := func(name string, mk func(b *c06Msg) *c06Msg) { variants[name] = variant{name, mk} }
	addV("as-is", func(b *c06Msg) *c06Msg { return c06Clone(b) })
	// attributes without NEXT_HOP, withdrawal only: valid (NEXT_HOP is mandatory only with NLRI)
	addV("noNH-noNLRI", func(b *c06Msg) *c06Msg { m := c06Clone(b); m.without(3); m.nlri = nil; m.wd = wdOnly; return m })
	// exactly the same attribute bytes plus the NLRI: NEXT_HOP missing, treat-as-withdraw
	addV("noNH+NLRI", func(b *c06Msg) *c06Msg {
		m := c06Clone(b)
		m.without(3)
		m.wd = nil
		m.faults = append(m.faults, c06Fault{"missing:3", c06Withdraw, 3})
		return m
	})
	// the same attribute bytes plus MP_REACH instead of NLRI: valid again
	addV("noNH+MPREACH", func(b *c06Msg) *c06Msg { m := c06Clone(b); m.without(3); m.nlri = nil; m.wd = nil; m.attrs = append(m.attrs, mpReach); return m })
	// attributes without ORIGIN, no NLRI: valid; plus NLRI: ORIGIN missing
	addV("noORIGIN-noNLRI", func(b *c06Msg) *c06Msg { m := c06Clone(b); m.without(1); m.nlri = nil; m.wd = wdOnly; return m })
	addV("noORIGIN+NLRI", func(b *c06Msg) *c06Msg {
		m := c06Clone(b)
		m.without(1)
		m.faults = append(m.faults, c06Fault{"missing:1", c06Withdraw, 1})
		return m
	})
	addV("noASPATH-noNLRI", func(b *c06Msg) *c06Msg { m := c06Clone(b); m.without(2); m.nlri = nil; m.wd = wdOnly; return m })
	addV("noASPATH+NLRI", func(b *c06Msg) *c06Msg {
		m := c06Clone(b)
		m.without(2)
		m.faults = append(m.faults, c06Fault{"missing:2", c06Withdraw, 2})
		return m
	})
	// full attributes, withdrawal only / then as-is: identical attribute block, both valid
	addV("full-noNLRI", func(b *c06Msg) *c06Msg { m := c06Clone(b); m.nlri = nil; m.wd = wdOnly; return m })
	// same attributes plus ONE malformed attribute (discard class / treat-as-withdraw class)
	addV("plus-bad-atomic", func(b *c06Msg) *c06Msg {
		m := c06Clone(b)
		m.without(6)
		m.attrs = append(m.attrs, c06Attr{typ: 6, flags: 0x40, val: []byte{1}, decl: -1, tag: "len"})
		m.faults = append(m.faults, c06Fault{"len:6", c06Discard, 6})
		return m
	})
	addV("plus-bad-community", func(b *c06Msg) *c06Msg {
		m := c06Clone(b)
		m.without(8)
		m.attrs = append(m.attrs, c06Attr{typ: 8, flags: 0xc0, val: []byte{1, 2, 3}, decl: -1, tag: "len"})
		m.faults = append(m.faults, c06Fault{"len:8", c06Withdraw, 8})
		return m
	})
	// same shape and length, ORIGIN value invalid
	addV("bad-origin-value", func(b *c06Msg) *c06Msg {
		m := c06Clone(b)
		i := m.find(1)
		m.attrs[i].val, m.attrs[i].tag = []byte{9}, "value"
		m.faults = append(m.faults, c06Fault{"origin-value", c06Withdraw, 1})
		return m
	})
	// a duplicate of an attribute appended (discard class, first occurrence kept)
	addV("plus-dup", func(b *c06Msg) *c06Msg {
		m := c06Clone(b)
		d := m.attrs[m.find(1)]
		m.attrs = append(m.attrs, d)
		m.faults = append(m.faults, c06Fault{"dup:1", c06Discard, 1})
		return m
	})
	// anything from the fault catalogue on the same base
	addV("random-fault", func(b *c06Msg) *c06Msg {
		for {
			m := c06Clone(b)
			if c06Inject(r, m) {
				return m
			}
		}
	})
	templates := [][]string{
		{"as-is", "noNH-noNLRI", "noNH+NLRI", "as-is"},
		{"noNH-noNLRI", "noNH+NLRI", "noNH-noNLRI", "noNH+MPREACH", "noNH+NLRI"},
		{"as-is", "noORIGIN-noNLRI", "noORIGIN+NLRI", "as-is", "as-is"},
		{"noASPATH-noNLRI", "noASPATH+NLRI", "full-noNLRI", "as-is"},
		{"full-noNLRI", "as-is", "bad-origin-value", "as-is", "full-noNLRI"},
		{"as-is", "as-is", "plus-bad-atomic", "as-is", "plus-bad-community", "as-is"},
		{"as-is", "plus-dup", "as-is", "noNH-noNLRI", "noNH+NLRI"},
		{"noNH+MPREACH", "noNH+NLRI", "noNH+MPREACH", "as-is"},
		{"as-is", "random-fault", "as-is", "random-fault", "as-is"},
		{"random-fault", "noNH-noNLRI", "noNH+NLRI", "random-fault", "as-is"},
	}
	vnames := []string{"as-is", "noNH-noNLRI", "noNH+NLRI", "noNH+MPREACH", "noORIGIN-noNLRI", "noORIGIN+NLRI", "noASPATH-noNLRI",
		"noASPATH+NLRI", "full-noNLRI", "plus-bad-atomic", "plus-bad-community", "bad-origin-value", "plus-dup", "random-fault"}

	runSeq := func(peer int, revised, v6 bool, names []string) {
		c := sess[peer]
		as := peerAS[peer]
		base := seqBase(peer)
		var msgs []*c06Msg
		var bodies [][]byte
		hasAS4 := false
		for _, nm := range names {
			m := variants[nm].mk(base)
			msgs = append(msgs, m)
			bodies = append(bodies, m.body())
			if m.count(17) > 0 {
				hasAS4 = true
			}
		}
		keysOf := func(m *c06Msg) []string {
			var ks []string
			if !m.framing {
				for _, p := range m.nlri {
					ks = append(ks, c06PrefixKey(p))
				}
			}
			return ks
		}
		shape := c06OpenShapes[r.intn(len(c06OpenShapes))]
		if shape == "mp-other-only" {
			shape = "caps-without-mp" // the sequences announce IPv4 prefixes
		}
		if shape == "no-optparams" && !base.use2 {
			shape = "caps-without-mp"
		}
		_, _, v6 = c06Open(shape, as, !base.use2, v6)
		o.stat("seq_open_shape_"+shape, 1)
		c.gr = r.intn(3)
		c.ap4, c.ap6 = false, false
		cfg := fmt.Sprintf("%d %d %d 0 1 %d", c06B(revised), c06B(peer != 1), c06B(peer == 2), c06B(v6))
		// (1) reference: every message alone, first on a fresh session with the same parameters
		type obs struct {
			got   string
			state string
		}
		ref := make([]obs, len(msgs))
		for i := range msgs {
			c.drop()
			c.establishShape(t, as, revised, !base.use2, v6, shape)
			if n := c.feedRaw(bodies[i]); n != nil {
				ref[i].got = fmt.Sprintf("reset %d %d", n.ErrorCode, n.ErrorSubcode)
			} else if len(c.got) == 1 {
				ref[i].got, _ = c.describe(0)
				c.s.handleFSMMessage(c.peer, c.got[0])
				ref[i].state = c.prefixState(keysOf(msgs[i]))
			} else {
				ref[i].got = fmt.Sprintf("nothing-delivered-%d", len(c.got))
			}
		}
		// (2) the sequence: ONE session, one recvMessageloop over the whole stream
		c.drop()
		c.establishShape(t, as, revised, !base.use2, v6, shape)
		notif := c.feedRaw(bodies...)
		delivered := len(c.got)
		neutral := &c06Msg{peer: peer}
		if hasAS4 {
			neutral.attrs = []c06Attr{{typ: 17}}
		}
		o.stat("sequences", 1)
		for i := range msgs {
			m := msgs[i]
			detail := map[string]any{"sequence": names, "index": i, "variant": names[i], "body": m.hex(), "peer": peer,
				"revised": revised, "use2": base.use2, "v6": v6, "open_shape": shape, "faults": m.faultNames()}
			var hexes []string
			for k := 0; k <= i; k++ {
				hexes = append(hexes, msgs[k].hex())
			}
			detail["bodies_so_far"] = hexes
			var got, state string
			rank := 4
			switch {
			case i < delivered:
				got, rank = c.describe(i)
				c.s.handleFSMMessage(c.peer, c.got[i])
				state = c.prefixState(keysOf(m))
			case i == delivered && notif != nil:
				got = fmt.Sprintf("reset %d %d", notif.ErrorCode, notif.ErrorSubcode)
			case i == delivered:
				got = "nothing-delivered"
			default:
				// after a session reset nothing more is read
				o.stat("sequence_cut_by_reset", 1)
				return
			}
			o.ask(got, "act %s %d %s", cfg, c06B(base.use2), m.hex())
			o.stat("seq_message_"+rankName[rank], 1)
			o.stat("seq_variant_"+names[i], 1)
			detail["reaction"] = got
			detail["reaction_alone_on_fresh_session"] = ref[i].got
			// (b) history independence
			if got != ref[i].got {
				o.fail("handling-depends-on-earlier-updates", detail)
			} else if state != ref[i].state {
				detail["adj_in"] = state
				detail["adj_in_alone_on_fresh_session"] = ref[i].state
				o.fail("rib-effect-depends-on-earlier-updates", detail)
			}
			// (c) the containment rule on everything the neighbour has installed so far
			if i < delivered {
				adj, glob := c.routes()
				for _, p := range adj {
					c06CheckRoute(o, "adj-in", p, neutral, detail)
				}
				for _, p := range glob {
					c06CheckRoute(o, "loc-rib", p, neutral, detail)
				}
				if !m.framing {
					for _, ft := range m.faults {
						if ft.min < 0 || (ft.typ >= 0 && !strings.HasPrefix(ft.name, "dup") && m.count(byte(ft.typ)) > 1) {
							continue
						}
						if revised && rank < ft.min && !(rank == 2 && ft.min == 4) {
							detail["fault"] = ft.name
							o.fail(fmt.Sprintf("reaction-weaker-than-rfc:%s<%s", rankName[rank], rankName[ft.min]), detail)
						}
					}
					if rank == 2 {
						for _, k := range keysOf(m) {
							if strings.Contains(state, k+"=") && !strings.Contains(state, k+"=absent") {
								o.fail("treat-as-withdraw-leaves-route", detail)
							}
						}
					}
				}
			}
		}
	}

	// corpus: the seed C06-M history (announce P; same attributes without NEXT_HOP, withdrawal only; the same plus P)
	runSeq(0, true, true, templates[0])
	runSeq(1, true, true, templates[0])
	runSeq(2, true, true, templates[1])
	ns := 450
	if o.thorough {
		ns = 3000
	}
	for i := 0; i < ns; i++ {
		var names []string
		if r.chance(70) {
			names = templates[r.intn(len(templates))]
		} else {
			for k, n := 0, 3+r.intn(4); k < n; k++ {
				names = append(names, vnames[r.intn(len(vnames))])
			}
		}
		runSeq(i%3, !r.chance(12), !r.chance(10), names)
	}
}

func c06B(b bool) int {
	if b {
		return 1
	}
	return 0
}
